#!/bin/bash
# usage: ./mut.sh <Cnn> <patch.diff> [tier]  — runs a check against a scratch worktree of /repo with
# the patch applied (the repository itself is never touched); prints the check's verdict lines.
set -u
cd "$(dirname "$(readlink -f "$0")")"
id="$1"; patch="$(readlink -f "$2")"; tier="${3:-quick}"
lc=$(echo "$id" | tr 'A-Z' 'a-z')
wt=$(mktemp -d /var/tmp/verif-mut.XXXXXX)
root=$(mktemp -d /var/tmp/verif-mutroot.XXXXXX)
trap 'git -C /repo worktree remove --force "$wt" >/dev/null 2>&1; tag=$(echo "$wt" | tr "/" "_"); rm -rf "$wt" "$root" scratch/*"$tag"* scratch/mod-*"$tag"*' EXIT
git -C /repo worktree add --detach "$wt" >/dev/null 2>&1 || { echo "worktree failed"; exit 2; }
git -C "$wt" apply "$patch" || { echo "PATCH-DOES-NOT-APPLY"; exit 2; }
cp known_findings.json "$root/"
VERIF_REPO="$wt" VERIF_BIN="$root/chk" ./build.sh "$lc" 2>"$root/buildlog" || { cat "$root/buildlog"; echo "MUTANT-BUILD-FAILED"; exit 2; }
VERIF_ROOT="$root" VERIF_REPO="$wt" "$root/chk" "$tier" 2>&1 | grep -a "^VIOLATION\|^RESULT\|^KNOWN\|key=\|HARNESS" | cut -c1-300

#!/bin/bash
# usage: ./build.sh <cnn>   — builds bin/<cnn> from ./checks/<cnn> against /repo's working tree.
# If checks/<cnn>/MAPRW exists it lists /repo packages whose map-range statements are rewritten
# onto harness-owned iteration order (engine/maprw, engine/vmap), also passed with -overlay.
# If checks/<cnn>/REWRITE exists it lists /repo package directories whose synchronisation is
# rewritten onto the virtual runtime (engine/vrt) and passed to the build with -overlay.
# VERIF_REPO=<dir> builds against another checkout (mutation testing in a scratch worktree);
# VERIF_BIN=<file> chooses the output path.
set -u
cd "$(dirname "$(readlink -f "$0")")"
export GOFLAGS=-mod=mod GOPROXY=off GOSUMDB=off GOTOOLCHAIN=local
lc="$1"
repo="${VERIF_REPO:-/repo}"
out="${VERIF_BIN:-bin/$lc}"
mkdir -p bin scratch
args=()
tag="$lc"
if [ "$repo" != "/repo" ]; then
  tag="$lc-$(echo "$repo" | tr '/' '_')"
  mkdir -p "scratch/mod-$tag"
  sed "s|=> /repo|=> $repo|" go.mod > "scratch/mod-$tag/go.mod"
  cp go.sum "scratch/mod-$tag/go.sum"
  args+=(-modfile "scratch/mod-$tag/go.mod")
fi
if [ -f "checks/$lc/REWRITE" ]; then
  go build -o bin/rewrite ./engine/rewrite/cmd || exit 2
  bin/rewrite $(grep '^-' "checks/$lc/REWRITE") -out "scratch/$tag" $(grep -v '^[#-]' "checks/$lc/REWRITE" | sed "s|^/repo|$repo|") >/dev/null || exit 2
  args+=(-overlay "scratch/$tag/overlay.json")
fi
if [ -f "checks/$lc/MAPRW" ]; then
  go build -o bin/maprw ./engine/maprw/cmd || exit 2
  bin/maprw -repo "$repo" -out "scratch/$tag" -sitesfile engine/vmap/sites.go $(grep -v '^#' "checks/$lc/MAPRW") >/dev/null || exit 2
  args+=(-overlay "scratch/$tag/overlay.json")
fi
go build "${args[@]}" -o "$out" "./checks/$lc"

#!/opt/veriftools/pyvenv/bin/python
import json,jsonschema,glob,sys
jsonschema.validate(json.load(open('/verif/MANIFEST.json')), json.load(open('/root/.vp/MANIFEST.schema.json')))
s=json.load(open('/root/.vp/EVIDENCE.schema.json'))
bad=0
for f in sorted(glob.glob('/verif/evidence/*.json')):
    try: jsonschema.validate(json.load(open(f)), s)
    except Exception as e: print('INVALID', f, str(e)[:300]); bad=1
print('validated', 'BAD' if bad else 'ok'); sys.exit(bad)

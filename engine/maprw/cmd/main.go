// Command maprw: maprw -repo /repo -out <dir> ./cl ./x/build ... ; writes <dir>/overlay.json and <dir>/sites.json.
package main

import (
	"encoding/json"
	"flag"
	"fmt"
	"os"
	"path/filepath"
	"strings"

	"verif/engine/maprw"
)

func main() {
	repo := flag.String("repo", "/repo", "repository checkout")
	out := flag.String("out", "", "output directory")
	sitesFile := flag.String("sitesfile", "", "path of verif/engine/vmap/sites.go to be overlaid with the site table")
	flag.Parse()
	if *out == "" || flag.NArg() == 0 {
		fmt.Fprintln(os.Stderr, "usage: maprw -repo <dir> -out <dir> <pkg>...")
		os.Exit(2)
	}
	abs, _ := filepath.Abs(*out)
	os.RemoveAll(abs)
	os.MkdirAll(abs, 0o755)
	ov := map[string]string{}
	sites, err := maprw.Rewrite(*repo, flag.Args(), abs, ov)
	if err != nil {
		fmt.Fprintln(os.Stderr, "maprw:", err)
		os.Exit(2)
	}
	if *sitesFile != "" {
		var sb strings.Builder
		sb.WriteString("package vmap\n\nvar Sites = []Site{\n")
		for _, st := range sites {
			fmt.Fprintf(&sb, "\t{%q, %q, %q},\n", st.ID, st.Operand, st.KeyType)
		}
		sb.WriteString("}\n")
		gen := filepath.Join(abs, "vmap_sites.go")
		os.WriteFile(gen, []byte(sb.String()), 0o644)
		sf, _ := filepath.Abs(*sitesFile)
		ov[sf] = gen
	}
	if err := maprw.WriteOverlay(filepath.Join(abs, "overlay.json"), ov); err != nil {
		fmt.Fprintln(os.Stderr, err)
		os.Exit(2)
	}
	b, _ := json.MarshalIndent(sites, "", " ")
	os.WriteFile(filepath.Join(abs, "sites.json"), b, 0o644)
	fmt.Printf("rewrote %d files, %d map-range sites into %s\n", len(ov), len(sites), abs)
}

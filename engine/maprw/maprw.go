// Package maprw is rewriter R2: it finds, with full type information, every `range` statement
// over a map in the given packages of the repository and turns it into an iteration whose order
// is decided by the harness (verif/engine/vmap). The result is a `go build -overlay` file; the
// repository is never modified and the rewritten text is regenerated from the working tree on
// every build.
package maprw

import (
	"bytes"
	"encoding/json"
	"fmt"
	"go/ast"
	"go/format"
	"go/importer"
	"go/parser"
	"go/token"
	"go/types"
	"io"
	"os"
	"os/exec"
	"path/filepath"
	"sort"
	"strconv"
	"strings"
)

type listPkg struct {
	ImportPath string
	Dir        string
	Export     string
	GoFiles    []string
	Standard   bool
}

// Site describes one rewritten range statement.
type Site struct {
	ID      string `json:"id"` // pkg/file.go:line
	Operand string `json:"operand"`
	KeyType string `json:"key_type"`
}

func goList(repo string, pkgs []string) (map[string]*listPkg, error) {
	args := append([]string{"list", "-export", "-deps", "-json=ImportPath,Dir,Export,GoFiles,Standard"}, pkgs...)
	cmd := exec.Command("go", args...)
	cmd.Dir = repo
	var out, errb bytes.Buffer
	cmd.Stdout, cmd.Stderr = &out, &errb
	if err := cmd.Run(); err != nil {
		return nil, fmt.Errorf("go list: %v: %s", err, errb.String())
	}
	res := map[string]*listPkg{}
	dec := json.NewDecoder(&out)
	for {
		var p listPkg
		if err := dec.Decode(&p); err == io.EOF {
			break
		} else if err != nil {
			return nil, err
		}
		q := p
		res[p.ImportPath] = &q
	}
	return res, nil
}

// Rewrite processes the packages (import paths relative to the module, e.g. "./cl") and fills ov
// (original file -> rewritten file under outDir).
func Rewrite(repo string, pkgs []string, outDir string, ov map[string]string) ([]Site, error) {
	all, err := goList(repo, pkgs)
	if err != nil {
		return nil, err
	}
	targets, err := goList(repo, nil) // placeholder to keep the API symmetrical
	_ = targets
	var sites []Site
	// resolve which import paths are the targets
	cmd := exec.Command("go", append([]string{"list"}, pkgs...)...)
	cmd.Dir = repo
	b, err := cmd.Output()
	if err != nil {
		return nil, fmt.Errorf("go list targets: %v", err)
	}
	fset := token.NewFileSet()
	lookup := func(path string) (io.ReadCloser, error) {
		p := all[path]
		if p == nil || p.Export == "" {
			return nil, fmt.Errorf("no export data for %s", path)
		}
		return os.Open(p.Export)
	}
	imp := importer.ForCompiler(fset, "gc", lookup)
	for _, ip := range strings.Fields(string(b)) {
		p := all[ip]
		if p == nil {
			return nil, fmt.Errorf("package %s not listed", ip)
		}
		var files []*ast.File
		for _, f := range p.GoFiles {
			af, err := parser.ParseFile(fset, filepath.Join(p.Dir, f), nil, parser.ParseComments)
			if err != nil {
				return nil, err
			}
			files = append(files, af)
		}
		info := &types.Info{Types: map[ast.Expr]types.TypeAndValue{}}
		conf := types.Config{Importer: imp, Error: func(error) {}}
		if _, err := conf.Check(ip, fset, files, info); err != nil {
			return nil, fmt.Errorf("type-check %s: %v", ip, err)
		}
		for i, af := range files {
			r := &rw{fset: fset, info: info, pkg: ip, file: p.GoFiles[i]}
			r.file = filepath.Base(p.GoFiles[i])
			r.rewriteFile(af)
			if len(r.sites) == 0 {
				continue
			}
			sites = append(sites, r.sites...)
			addImport(af, "verif/engine/vmap")
			var buf bytes.Buffer
			if err := format.Node(&buf, fset, af); err != nil {
				return nil, err
			}
			rel := strings.ReplaceAll(strings.TrimPrefix(ip, "github.com/goplus/xgo/"), "/", "_")
			dst := filepath.Join(outDir, rel+"__"+r.file)
			if err := os.MkdirAll(outDir, 0o755); err != nil {
				return nil, err
			}
			text := buf.Bytes()
			if !bytes.Contains(text, []byte("//go:build")) {
				// the repository's go.mod says go 1.18; generic helpers over interface-keyed maps need
				// the language version of the toolchain, which a go:build line grants per file
				text = append([]byte("//go:build go1.21\n\n"), text...)
			}
			if err := os.WriteFile(dst, text, 0o644); err != nil {
				return nil, err
			}
			ov[filepath.Join(p.Dir, p.GoFiles[i])] = dst
		}
	}
	sort.Slice(sites, func(i, j int) bool { return sites[i].ID < sites[j].ID })
	return sites, nil
}

type rw struct {
	fset  *token.FileSet
	info  *types.Info
	pkg   string
	file  string
	n     int
	sites []Site
}

func (r *rw) rewriteFile(f *ast.File) {
	ast.Inspect(f, func(n ast.Node) bool {
		switch x := n.(type) {
		case *ast.BlockStmt:
			r.list(x.List)
		case *ast.CaseClause:
			r.list(x.Body)
		case *ast.CommClause:
			r.list(x.Body)
		case *ast.LabeledStmt:
			if rs, ok := x.Stmt.(*ast.RangeStmt); ok {
				if ns := r.rangeStmt(rs); ns != nil {
					x.Stmt = ns
				}
			}
		}
		return true
	})
}

func (r *rw) list(l []ast.Stmt) {
	for i, s := range l {
		if rs, ok := s.(*ast.RangeStmt); ok {
			if ns := r.rangeStmt(rs); ns != nil {
				l[i] = ns
			}
		}
	}
}

func exprString(fset *token.FileSet, e ast.Expr) string {
	var b bytes.Buffer
	format.Node(&b, fset, e)
	return b.String()
}

// rangeStmt turns `for K, V := range M { body }` (M a map) into
//
//	for it := vmap.Range(M, "site"); it.Next(); { K, V := it.Key(), it.Val(); body }
//
// which stays a single for statement (labels, break and continue keep working), evaluates M once,
// reads the value at iteration time and skips entries deleted meanwhile, as Go does.
func (r *rw) rangeStmt(x *ast.RangeStmt) ast.Stmt {
	tv, ok := r.info.Types[x.X]
	if !ok {
		return nil
	}
	mt, ok := tv.Type.Underlying().(*types.Map)
	if !ok {
		return nil
	}
	pos := r.fset.Position(x.For)
	site := fmt.Sprintf("%s/%s:%d", strings.TrimPrefix(r.pkg, "github.com/goplus/xgo/"), r.file, pos.Line)
	r.sites = append(r.sites, Site{ID: site, Operand: exprString(r.fset, x.X), KeyType: mt.Key().String()})
	r.n++
	it := ast.NewIdent(fmt.Sprintf("__vmapit%d", r.n))
	isBlank := func(e ast.Expr) bool {
		if e == nil {
			return true
		}
		i, ok := e.(*ast.Ident)
		return ok && i.Name == "_"
	}
	var lhs, rhs []ast.Expr
	if !isBlank(x.Key) {
		lhs = append(lhs, x.Key)
		rhs = append(rhs, &ast.CallExpr{Fun: &ast.SelectorExpr{X: it, Sel: ast.NewIdent("Key")}})
	}
	if !isBlank(x.Value) {
		lhs = append(lhs, x.Value)
		rhs = append(rhs, &ast.CallExpr{Fun: &ast.SelectorExpr{X: it, Sel: ast.NewIdent("Val")}})
	}
	body := x.Body
	if len(lhs) > 0 {
		bind := &ast.AssignStmt{Lhs: lhs, Tok: x.Tok, Rhs: rhs}
		body.List = append([]ast.Stmt{bind}, body.List...)
	}
	return &ast.ForStmt{
		For: x.For,
		Init: &ast.AssignStmt{Lhs: []ast.Expr{it}, Tok: token.DEFINE, Rhs: []ast.Expr{&ast.CallExpr{
			Fun:  &ast.SelectorExpr{X: ast.NewIdent("vmap"), Sel: ast.NewIdent("Range")},
			Args: []ast.Expr{x.X, &ast.BasicLit{Kind: token.STRING, Value: strconv.Quote(site)}},
		}}},
		Cond: &ast.CallExpr{Fun: &ast.SelectorExpr{X: it, Sel: ast.NewIdent("Next")}},
		Body: body,
	}
}

func addImport(f *ast.File, path string) {
	spec := &ast.ImportSpec{Path: &ast.BasicLit{Kind: token.STRING, Value: strconv.Quote(path)}}
	decl := &ast.GenDecl{Tok: token.IMPORT, Specs: []ast.Spec{spec}}
	f.Decls = append([]ast.Decl{decl}, f.Decls...)
	f.Imports = append(f.Imports, spec)
}

// WriteOverlay writes the overlay JSON.
func WriteOverlay(path string, ov map[string]string) error {
	b, _ := json.MarshalIndent(map[string]any{"Replace": ov}, "", " ")
	return os.WriteFile(path, b, 0o644)
}

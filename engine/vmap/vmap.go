// Package vmap owns the iteration order of `range` statements over maps in rewritten repository
// packages (rewriter R2, verif/engine/maprw). The canonical order is sorted; the harness may ask
// for another permutation at any dynamic visit, which is how map-order nondeterminism is
// enumerated instead of sampled.
package vmap

import (
	"fmt"
	"go/token"
	"sort"
)

// Visit is one dynamic execution of a rewritten range statement.
type Visit struct {
	Site string
	N    int
}

// Decide is consulted once per dynamic visit with n >= 2 entries; it returns the permutation of
// 0..n-1 (positions in the canonical order) to use, or nil for the canonical order.
var Decide func(index int, site string, n int) []int

// Log receives every visit with n >= 2 (choice points) in execution order.
var Log []Visit

// Unstable collects sites whose key type has no run-independent canonical order.
var Unstable = map[string]bool{}

// Reset clears the visit log.
func Reset() { Log = Log[:0] }

type Iter[K comparable, V any] struct {
	m    map[K]V
	keys []K
	i    int
	k    K
	v    V
}

type poser interface{ Pos() token.Pos }

func sortKey(site string, k any) (int64, string) {
	switch x := k.(type) {
	case nil:
		return -1, ""
	case string:
		return 0, x
	case int:
		return int64(x), ""
	case poser:
		s := ""
		if n, ok := k.(interface{ Name() string }); ok {
			s = n.Name()
		}
		return int64(x.Pos()), s
	case fmt.Stringer:
		return 0, x.String()
	}
	Unstable[site] = true
	return 0, fmt.Sprintf("%T:%v", k, k)
}

// Range snapshots the keys of m in canonical order, permuted as the harness decides.
func Range[K comparable, V any](m map[K]V, site string) *Iter[K, V] {
	keys := make([]K, 0, len(m))
	for k := range m {
		keys = append(keys, k)
	}
	type sk struct {
		n int64
		s string
	}
	sks := make(map[K]sk, len(keys))
	for _, k := range keys {
		n, s := sortKey(site, any(k))
		sks[k] = sk{n, s}
	}
	sort.SliceStable(keys, func(i, j int) bool {
		a, b := sks[keys[i]], sks[keys[j]]
		if a.n != b.n {
			return a.n < b.n
		}
		return a.s < b.s
	})
	if len(keys) >= 2 {
		idx := len(Log)
		Log = append(Log, Visit{site, len(keys)})
		if Decide != nil {
			if perm := Decide(idx, site, len(keys)); perm != nil {
				if len(perm) != len(keys) {
					panic(fmt.Sprintf("vmap: permutation of length %d for %d keys at %s", len(perm), len(keys), site))
				}
				nk := make([]K, len(keys))
				for i, p := range perm {
					nk[i] = keys[p]
				}
				keys = nk
			}
		}
	}
	return &Iter[K, V]{m: m, keys: keys}
}

// Next advances to the next entry still present in the map (Go skips entries deleted during the
// iteration; entries added during the iteration may be skipped, and are).
func (it *Iter[K, V]) Next() bool {
	for it.i < len(it.keys) {
		k := it.keys[it.i]
		it.i++
		if v, ok := it.m[k]; ok {
			it.k, it.v = k, v
			return true
		}
	}
	return false
}

func (it *Iter[K, V]) Key() K { return it.k }
func (it *Iter[K, V]) Val() V { return it.v }

// Site describes a rewritten range statement (filled in by the overlay that maprw generates).
type Site struct {
	ID      string `json:"id"`
	Operand string `json:"operand"`
	KeyType string `json:"key_type"`
}

package vmap

// Sites is replaced through the build overlay by the list of statically rewritten range statements.
var Sites []Site

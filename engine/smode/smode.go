// Package smode drives schedule exploration (stateless model checking over engine/vrt) for the
// concurrency properties: shards the schedule tree over worker processes, merges statistics
// and turns violating schedules into replay files.
package smode

import (
	"fmt"
	"os"
	"sort"
	"strings"
	"time"

	"verif/engine"
	"verif/engine/vrt"
)

// Case is the replayable artefact of an S-mode violation.
type Case struct {
	Scenario string `json:"scenario"`
	Choices  []int  `json:"choices"`
	Preempt  int    `json:"preemptions"`
	Events   []int  `json:"events,omitempty"` // explicit-state sub-checks: the encoded event sequence
}

// Extra is an additional family of blocks run by the same worker pool (e.g. an explicit-state search
// whose transitions execute the real code under the scheduler).
type Extra struct {
	Name      string // scenario-name prefix of its replay cases
	NumBlocks int
	Run       func(w *engine.W, blk int, thorough bool, deadline time.Time)
	Replay    func(k Case) *engine.Failure
	Fold      func(c *engine.Check, hist map[string]int64)
	// Traces: model traces (transitions / executions) this family validated against the implementation
	Traces func(hist map[string]int64) int64
}

// Extras are appended to the scenario blocks by Main.
var Extras []*Extra

type block struct {
	sc     int
	prefix []int // nil = the root execution only
	root   bool
}

// Main explores every scenario up to the tier's preemption bound and finishes the check.
func Main(c *engine.Check, scenarios []*vrt.Scenario, boundQuick, boundThorough int, rule string, assumptions []string) {
	byName := map[string]*vrt.Scenario{}
	for _, sc := range scenarios {
		byName[sc.Name] = sc
	}
	if c.IsReplay() {
		var k Case
		c.LoadReplay(&k)
		for _, x := range Extras {
			if strings.HasPrefix(k.Scenario, x.Name) {
				c.ReplayResult(x.Replay(k))
			}
		}
		sc := byName[k.Scenario]
		if sc == nil {
			c.Fatal("unknown scenario %q", k.Scenario)
		}
		_, v := vrt.RunOnce(sc, k.Choices)
		if v != nil {
			c.ReplayResult(&engine.Failure{Key: k.Scenario + ":" + v.Key, What: v.What, Detail: v.Detail})
		}
		c.ReplayResult(nil)
	}
	bound := boundQuick
	if c.Thorough() {
		bound = boundThorough
	}
	if v := os.Getenv("VERIF_BOUND"); v != "" { // experiments only: the registered commands do not set it
		fmt.Sscanf(v, "%d", &bound)
	}
	// self-test: the default schedule of every scenario replays identically (nondeterminism the
	// scheduler does not own would show up here), before anything is explored.
	var blocks []block
	if !c.IsWorker() || true {
		for i, sc := range scenarios {
			s1, _ := vrt.RunOnce(sc, nil)
			o1 := ""
			if sc.Observe != nil {
				o1 = sc.Observe()
			}
			s2, _ := vrt.RunOnce(sc, s1.Choices())
			o2 := ""
			if sc.Observe != nil {
				o2 = sc.Observe()
			}
			if len(s1.Points) != len(s2.Points) || o1 != o2 {
				c.Fatal("scenario %s: default schedule does not replay deterministically (%d/%d points, %q vs %q)", sc.Name, len(s1.Points), len(s2.Points), o1, o2)
			}
			// one block per scenario: the whole schedule tree shares one state cache
			blocks = append(blocks, block{sc: i})
		}
	}
	deadline := c.DeadlineTime()
	nb := len(blocks)
	for _, x := range Extras {
		nb += x.NumBlocks
	}
	job := &engine.Job{NumBlocks: nb}
	job.RunBlock = func(w *engine.W, b int) {
		if b >= len(blocks) {
			b -= len(blocks)
			for _, x := range Extras {
				if b < x.NumBlocks {
					x.Run(w, b, c.Thorough(), deadline)
					return
				}
				b -= x.NumBlocks
			}
			return
		}
		bl := blocks[b]
		sc := scenarios[bl.sc]
		if !w.Item(Case{Scenario: sc.Name, Choices: bl.prefix}) {
			return
		}
		eb := bound + sc.BoundDelta
		if eb < 0 {
			eb = 0
		}
		e := vrt.NewExplorer(eb)
		e.Cache = vrt.NewCache()
		w.HistN(fmt.Sprintf("bound:%s=%d", sc.Name, eb), 1)
		e.Deadline = deadline
		e.Explore(sc, bl.prefix)
		st := e.Stats
		w.HistN("executions:"+sc.Name, st.Executions)
		w.HistN("decisions", st.Points)
		w.HistN("deadlocks", st.Deadlocks)
		w.HistN("pruned_by_state_cache", st.Pruned)
		w.HistN("step_caps", st.StepCaps)
		n := 0
		for o, cnt := range st.Outcomes {
			if n++; n > 400 {
				w.HistN("outcome-overflow:"+sc.Name, cnt)
				continue
			}
			w.HistN("o:"+sc.Name+":"+o, cnt)
		}
		for _, f := range st.Found {
			w.Fail(Case{Scenario: f.Scenario, Choices: f.Choices, Preempt: f.Preemptions},
				&engine.Failure{Key: f.Scenario + ":" + f.Key, What: f.What, Detail: fmt.Sprintf("preemptions=%d choices=%v\n%s", f.Preemptions, f.Choices, f.Detail)})
		}
		if st.Capped != "" {
			w.HistN("capped:"+st.Capped, 1)
		}
		// count executions as evaluations
		for i := int64(1); i < st.Executions; i++ {
			w.CountEval()
		}
	}
	job.Run(c)
	// fold the histogram into the evidence figures
	h := c.HistSnapshot()
	var execs, decisions int64
	outcomes := map[string]int{}
	perScenario := map[string]int64{}
	for k, v := range h {
		switch {
		case strings.HasPrefix(k, "executions:"):
			execs += v
			perScenario[strings.TrimPrefix(k, "executions:")] = v
		case k == "decisions":
			decisions = v
		case strings.HasPrefix(k, "o:"):
			parts := strings.SplitN(k, ":", 3)
			outcomes[parts[1]]++
		case strings.HasPrefix(k, "capped:"):
			c.Cap("exploration stopped early: " + k)
		}
	}
	c.DropHist("o:")
	for _, x := range Extras {
		if x.Fold != nil {
			x.Fold(c, h)
		}
	}
	var names []string
	for n := range outcomes {
		names = append(names, n)
	}
	sort.Strings(names)
	distinct := 0
	oc := map[string]int{}
	for _, n := range names {
		distinct += outcomes[n]
		oc[n] = outcomes[n]
	}
	c.NontrivialN(int64(distinct))
	c.Extra["states"] = execs + decisions // nodes of the explored schedule tree: complete schedules + interior decision nodes
	c.Extra["transitions"] = decisions
	validated := execs
	for _, x := range Extras {
		if x.Traces != nil {
			validated += x.Traces(h)
		}
	}
	c.Extra["traces_validated_against_impl"] = validated
	c.Extra["executions"] = execs
	c.Extra["executions_per_scenario"] = perScenario
	c.Extra["distinct_outcomes_per_scenario"] = oc
	c.Extra["preemption_bound_completed"] = bound
	for _, sc := range scenarios {
		c.Sample(map[string]any{"scenario": sc.Name, "default_schedule_decisions": len(func() []vrt.Point { s, _ := vrt.RunOnce(sc, nil); return s.Points }())})
	}
	c.Rule = rule + fmt.Sprintf(" Every schedule with at most %d preemptions (switches away from a thread that could continue) plus every select tie-break and cond-signal choice is executed on the real, rewritten package. distinct_nontrivial = distinct observable outcomes summed over scenarios.", bound)
	c.Assumptions = append(assumptions,
		"sequential consistency at synchronisation operations (scheduling points before every lock, channel, select, cond, atomic, go operation); unsynchronised accesses are outside the explorer",
		"vrt follows the Go runtime: blocked operations park on FIFO queues and are committed by the waker; mutex barging allowed; Cond.Signal may wake any waiter; no spurious wake-ups")
	_ = os.Stderr
	c.Finish()
}

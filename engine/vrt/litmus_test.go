package vrt_test

import (
	"fmt"
	"sort"
	"strings"
	"testing"

	"verif/engine/vrt"
	"verif/engine/vrt/vsync"
)

func outcomes(t *testing.T, bound int, body func(obs *[]string), daemon func(string) bool) (map[string]int64, *vrt.Explorer) {
	var obs []string
	sc := &vrt.Scenario{Name: "litmus", Reset: func() { obs = nil }, Body: func() { body(&obs) },
		Observe: func() string { return strings.Join(obs, ",") }, Daemon: daemon}
	e := vrt.NewExplorer(bound)
	e.Explore(sc, nil)
	for _, f := range e.Stats.Found {
		t.Logf("found: %+v", f)
	}
	return e.Stats.Outcomes, e
}

func keys(m map[string]int64) string {
	var k []string
	for s := range m {
		k = append(k, s)
	}
	sort.Strings(k)
	return strings.Join(k, " | ")
}

// lost update: x = x + 1 from two threads without a lock, reads and writes separated by a scheduling point.
func TestLostUpdate(t *testing.T) {
	o, e := outcomes(t, 2, func(obs *[]string) {
		x := 0
		wg := &vsync.WaitGroup{}
		wg.Add(2)
		for i := 0; i < 2; i++ {
			vrt.Go(fmt.Sprint("w", i), func() {
				vrt.SchedPoint("read")
				v := x
				vrt.SchedPoint("write")
				x = v + 1
				wg.Done()
			})
		}
		wg.Wait()
		*obs = append(*obs, fmt.Sprint(x))
	}, nil)
	if keys(o) != "1 | 2" {
		t.Fatalf("outcomes %v", o)
	}
	t.Logf("executions=%d", e.Stats.Executions)
}

func TestMutexProtects(t *testing.T) {
	o, _ := outcomes(t, 3, func(obs *[]string) {
		x := 0
		var mu vsync.Mutex
		wg := &vsync.WaitGroup{}
		wg.Add(2)
		for i := 0; i < 2; i++ {
			vrt.Go(fmt.Sprint("w", i), func() {
				mu.Lock()
				vrt.SchedPoint("read")
				v := x
				vrt.SchedPoint("write")
				x = v + 1
				mu.Unlock()
				wg.Done()
			})
		}
		wg.Wait()
		*obs = append(*obs, fmt.Sprint(x))
	}, nil)
	if keys(o) != "2" {
		t.Fatalf("outcomes %v", o)
	}
}

// a select parked before close(done) is committed to done; a select started after close may not
// rendezvous with a parked partner that was already committed.
func TestSelectCloseCommit(t *testing.T) {
	o, e := outcomes(t, 3, func(obs *[]string) {
		input := vrt.NewChan[int](0)
		done := vrt.NewChan[struct{}](0)
		closed := false
		// worker: like fakenet's feeder
		vrt.Go("feeder", func() {
			sel := vrt.NewSel(false)
			r := vrt.AddRecv(sel, input)
			vrt.AddRecv(sel, done)
			if sel.Run() == 0 {
				*obs = append(*obs, fmt.Sprint("feeder-got-", r.Val(), "-closed=", closed))
			} else {
				*obs = append(*obs, "feeder-done")
			}
		})
		vrt.Go("closer", func() {
			closed = true
			done.Close()
		})
		vrt.Go("late", func() {
			sel := vrt.NewSel(false)
			vrt.AddSend(sel, input, 7)
			vrt.AddRecv(sel, done)
			wasClosed := closed
			i := sel.Run()
			*obs = append(*obs, fmt.Sprint("late-case", i, "-startedAfterClose=", wasClosed))
		})
	}, nil)
	t.Logf("executions=%d outcomes=%s", e.Stats.Executions, keys(o))
	for k := range o {
		// if the late sender started after close and the feeder was parked before the close, it must not deliver
		if strings.Contains(k, "late-case0-startedAfterClose=true") && !strings.Contains(k, "feeder-got-7-closed=true") {
			t.Fatalf("inconsistent %s", k)
		}
	}
	// the forbidden behaviour under Go semantics: the feeder parked *before* close, yet data was delivered after close.
	// It shows up as feeder-got-7-closed=true only when the feeder reached its select after the close (both cases ready).
}

func TestCondSignal(t *testing.T) {
	o, e := outcomes(t, 2, func(obs *[]string) {
		var mu vsync.Mutex
		cond := vsync.Cond{L: &mu}
		n := 0
		for i := 0; i < 2; i++ {
			vrt.Go(fmt.Sprint("waiter", i), func() {
				mu.Lock()
				for n == 0 {
					cond.Wait()
				}
				n--
				mu.Unlock()
				*obs = append(*obs, "got")
			})
		}
		vrt.Go("producer", func() {
			mu.Lock()
			n = 2
			mu.Unlock()
			cond.Signal() // wrong: should be Broadcast; one waiter may sleep forever
		})
	}, nil)
	t.Logf("executions=%d deadlocks=%d outcomes=%s", e.Stats.Executions, e.Stats.Deadlocks, keys(o))
	if e.Stats.Deadlocks == 0 {
		t.Fatalf("lost wake-up not found")
	}
}

func TestUnbufferedOrder(t *testing.T) {
	o, _ := outcomes(t, 2, func(obs *[]string) {
		c := vrt.NewChan[int](0)
		vrt.Go("s1", func() { c.Send(1) })
		vrt.Go("s2", func() { c.Send(2) })
		a := c.Recv()
		b := c.Recv()
		*obs = append(*obs, fmt.Sprint(a, b))
	}, nil)
	if keys(o) != "1 2 | 2 1" {
		t.Fatalf("outcomes %v", o)
	}
}

func TestBufferedAndClose(t *testing.T) {
	o, _ := outcomes(t, 2, func(obs *[]string) {
		c := vrt.NewChan[int](1)
		vrt.Go("p", func() { c.Send(1); c.Send(2); c.Close() })
		for {
			v, ok := c.Recv2()
			if !ok {
				break
			}
			*obs = append(*obs, fmt.Sprint(v))
		}
	}, nil)
	if keys(o) != "1,2" {
		t.Fatalf("outcomes %v", o)
	}
}

func TestDeadlockDetected(t *testing.T) {
	_, e := outcomes(t, 1, func(obs *[]string) {
		var a, b vsync.Mutex
		vrt.Go("t1", func() { a.Lock(); b.Lock(); b.Unlock(); a.Unlock() })
		vrt.Go("t2", func() { b.Lock(); a.Lock(); a.Unlock(); b.Unlock() })
	}, nil)
	if e.Stats.Deadlocks == 0 {
		t.Fatal("ABBA deadlock not found")
	}
}

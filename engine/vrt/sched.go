// Package vrt is a virtual runtime for stateless model checking of Go code
// whose synchronisation has been rewritten to use it (channels, select, go,
// sync, atomic, context). Exactly one virtual thread runs at a time; every
// visible operation starts with a scheduling point; blocking operations park
// on FIFO queues and are committed by the waker, as in the Go runtime.
package vrt

import (
	"fmt"
	"runtime/debug"
	"sort"
	"strings"
)

type tstate int

const (
	runnable tstate = iota
	parked
	done
)

type thread struct {
	id     int
	name   string
	state  tstate
	wake   chan struct{}
	reason string // what it is parked on (diagnostics)
	quiet  bool   // parked in Quiesce: made runnable when no other thread can run

	// happens-before bookkeeping for state caching
	sid      uint64 // stable id: a function of the creator's stable id and its spawn count
	nspawn   uint64
	nobj     uint64
	lastEv   uint64 // hash of this thread's event history (includes everything it observed)
	wakeHash uint64 // event hash of the operation that made it runnable
}

// Point is one recorded decision of an execution.
type Point struct {
	N           int  // number of options
	Chosen      int  // index taken
	Preemptible bool // option 0 is "keep running the current thread"
	Kind        string
}

type abortToken struct{}

// Sched is the state of one execution.
type Sched struct {
	threads  []*thread
	cur      *thread
	prefix   []int
	Points   []Point
	aborting bool
	finished chan struct{}
	exited   chan struct{}
	steps    int
	maxSteps int

	// outcome
	Deadlock   bool     // no runnable thread while some are parked
	Stuck      []string // names/reasons of threads parked at the end
	Panics     []string // user panics (thread name: value)
	StepCap    bool
	Diverged   string // replay divergence (harness error)
	daemonOK   func(name string) bool
	onFinish   []func()
	nextChanID int

	// state caching (see Cache): signature of the happens-before frontier
	objLast map[uint64]uint64 // object id -> hash of the last event on it
	objIDs  map[any]uint64    // lazily named objects (pointer -> stable id)
	cache   *Cache
	Pruned  bool
}

// Cache remembers the signatures of visited decision points with the smallest number of
// preemptions used to reach them. Two executions with the same happens-before relation (same
// per-thread and per-object event chains) are in the same state, so the subtree below a point
// already visited with no more preemptions used is not explored again (the state caching of
// CHESS, Musuvathi & Qadeer).
type Cache struct {
	seen   map[uint64]uint8
	Hits   int64
	Misses int64
}

func NewCache() *Cache { return &Cache{seen: map[uint64]uint8{}} }

func mix(a uint64, bs ...uint64) uint64 {
	h := a ^ 0x9e3779b97f4a7c15
	for _, b := range bs {
		h ^= b + 0x9e3779b97f4a7c15 + (h << 6) + (h >> 2)
		h *= 0xff51afd7ed558ccd
		h ^= h >> 33
	}
	return h
}

func strHash(s string) uint64 {
	var h uint64 = 1469598103934665603
	for i := 0; i < len(s); i++ {
		h ^= uint64(s[i])
		h *= 1099511628211
	}
	return h
}

// event records a visible operation of the running thread on object obj.
func (s *Sched) event(kind string, obj uint64, extra uint64) {
	t := s.cur
	h := mix(t.sid, t.lastEv, obj, s.objLast[obj], strHash(kind), extra)
	t.lastEv = h
	s.objLast[obj] = h
}

// Event lets shims and harness code record an operation on an object identified by a pointer
// or a name; operations on the same object are treated as dependent.
func Event(kind string, obj any, extra uint64) {
	s := cur
	if s == nil || s.aborting {
		return
	}
	s.event(kind, s.ObjID(obj), extra)
}

// ObjID names an object stably: by its string, or lazily by (first user, its object count).
func (s *Sched) ObjID(obj any) uint64 {
	if str, ok := obj.(string); ok {
		return strHash(str)
	}
	if id, ok := s.objIDs[obj]; ok {
		return id
	}
	t := s.cur
	t.nobj++
	id := mix(t.sid, t.nobj, 77)
	s.objIDs[obj] = id
	return id
}

// signature of the current global state: all thread histories and states, all object chains, the running thread.
func (s *Sched) signature() uint64 {
	var h uint64 = 0x1234567
	for _, t := range s.threads {
		// order-insensitive combination: thread creation order may differ between equivalent executions
		h += mix(t.sid, t.lastEv, uint64(t.state), t.wakeHash*uint64(boolTo(t.state == runnable)))
	}
	for id, v := range s.objLast {
		h += mix(id, v, 3)
	}
	return mix(h, s.cur.sid)
}

func boolTo(b bool) int {
	if b {
		return 1
	}
	return 0
}

// cut reports whether the execution reached an already explored state (beyond the replayed prefix).
func (s *Sched) cut() bool {
	if s.cache == nil || len(s.Points) < len(s.prefix) {
		return false
	}
	sig := s.signature()
	used := Preemptions(s.Points, len(s.Points))
	if used > 250 {
		used = 250
	}
	if best, ok := s.cache.seen[sig]; ok && int(best) <= used {
		s.cache.Hits++
		s.Pruned = true
		return true
	}
	s.cache.Misses++
	s.cache.seen[sig] = uint8(used)
	return false
}

var cur *Sched // the execution in progress (one per process at a time)

// S returns the scheduler of the running execution.
func S() *Sched { return cur }

// Aborting reports whether the execution is being torn down; rewritten code
// never needs it, harness transports use it to become no-ops.
func Aborting() bool { return cur == nil || cur.aborting }

// Run executes body as thread 0 under the choice prefix and returns the finished execution.
func Run(prefix []int, maxSteps int, daemon func(name string) bool, body func()) *Sched {
	return RunCached(prefix, maxSteps, daemon, body, nil)
}

// RunCached is Run with state caching: the execution stops at the first decision point beyond
// the prefix whose state signature the cache already holds.
func RunCached(prefix []int, maxSteps int, daemon func(name string) bool, body func(), cache *Cache) *Sched {
	s := &Sched{prefix: prefix, finished: make(chan struct{}, 1), exited: make(chan struct{}, 64), maxSteps: maxSteps, daemonOK: daemon,
		objLast: map[uint64]uint64{}, objIDs: map[any]uint64{}, cache: cache}
	if s.maxSteps == 0 {
		s.maxSteps = 20000
	}
	cur = s
	t := s.newThread("main", body)
	s.cur = t
	t.wake <- struct{}{}
	<-s.finished
	// tear down: resume every unfinished thread in abort mode, one at a time
	s.aborting = true
	for _, t := range s.threads {
		if t.state != done {
			s.Stuck = append(s.Stuck, t.name+" @ "+t.reason)
			s.cur = t
			t.wake <- struct{}{}
			<-s.exited
		}
	}
	cur = nil
	return s
}

func (s *Sched) newThread(name string, f func()) *thread {
	t := &thread{id: len(s.threads), name: name, wake: make(chan struct{}, 1), sid: 1}
	if p := s.cur; p != nil {
		p.nspawn++
		t.sid = mix(p.sid, p.nspawn, 11)
		t.lastEv = mix(p.lastEv, t.sid) // the child starts from what its creator knew
	}
	s.threads = append(s.threads, t)
	go func() {
		<-t.wake
		defer func() {
			r := recover()
			if s.aborting {
				t.state = done
				s.exited <- struct{}{}
				return
			}
			if r != nil {
				if _, ok := r.(abortToken); !ok {
					st := string(debug.Stack())
					if i := strings.Index(st, "\npanic("); i >= 0 {
						st = st[i:]
					}
					if len(st) > 1500 {
						st = st[:1500]
					}
					s.Panics = append(s.Panics, fmt.Sprintf("%s: %v\n%s", t.name, r, st))
					t.state = done
					t.reason = "panicked"
					s.finish()
					return
				}
			}
			t.state = done
			t.reason = "returned"
			s.threadExit(t)
		}()
		if s.aborting {
			return
		}
		f()
	}()
	return t
}

// Go starts a new virtual thread.
func Go(name string, f func()) {
	s := cur
	if s == nil || s.aborting {
		return
	}
	s.newThread(name, f)
	s.yield("go " + name)
}

func (s *Sched) finish() {
	select {
	case s.finished <- struct{}{}:
	default:
	}
}

// choose records a decision among n options.
func (s *Sched) choose(n int, preemptible bool, kind string) int {
	if n <= 1 {
		return 0
	}
	i := len(s.Points)
	c := 0
	if i < len(s.prefix) {
		c = s.prefix[i]
		if c >= n {
			s.Diverged = fmt.Sprintf("choice %d at point %d out of range (%d options, kind %s)", c, i, n, kind)
			c = 0
		}
	}
	s.Points = append(s.Points, Point{N: n, Chosen: c, Preemptible: preemptible, Kind: kind})
	return c
}

// Choose lets harness code branch on an explored, non-preempting choice.
func Choose(n int, kind string) int {
	if cur == nil || cur.aborting {
		return 0
	}
	c := cur.choose(n, false, kind)
	cur.cur.lastEv = mix(cur.cur.lastEv, uint64(c), strHash(kind))
	return c
}

func (s *Sched) options(me *thread, meRunnable bool) []*thread {
	var opts []*thread
	if meRunnable {
		opts = append(opts, me)
	}
	for _, t := range s.threads {
		if t != me && t.state == runnable {
			opts = append(opts, t)
		}
	}
	return opts
}

// yield is the scheduling point in front of every visible operation.
func (s *Sched) yield(what string) {
	if s.aborting {
		return
	}
	me := s.cur
	s.steps++
	me.lastEv = mix(me.lastEv, strHash(what), 23) // reaching a scheduling point is progress of this thread
	if s.steps > s.maxSteps {
		s.StepCap = true
		me.reason = "step cap at " + what
		s.finish()
		<-me.wake
		panic(abortToken{})
	}
	opts := s.options(me, true)
	if len(opts) > 1 && s.cut() {
		me.reason = "pruned"
		s.finish()
		<-me.wake
		panic(abortToken{})
	}
	next := opts[s.choose(len(opts), true, "sched")]
	s.switchTo(me, next)
}

// Yield is a scheduling point for harness code (e.g. a polling loop).
func Yield(what string) {
	if cur != nil {
		cur.yield(what)
	}
}

func (s *Sched) switchTo(me, next *thread) {
	if next == me {
		return
	}
	s.cur = next
	next.wake <- struct{}{}
	<-me.wake
	if s.aborting {
		panic(abortToken{})
	}
}

// park blocks the current thread until another thread marks it runnable.
func (s *Sched) park(reason string) {
	if s.aborting {
		panic(abortToken{})
	}
	me := s.cur
	me.state = parked
	me.reason = reason
	opts := s.options(me, false)
	if len(opts) == 0 {
		opts = s.wakeQuiet()
	}
	if len(opts) == 0 {
		s.noRunnable()
		<-me.wake
		panic(abortToken{})
	}
	if len(opts) > 1 && s.cut() {
		s.finish()
		<-me.wake
		panic(abortToken{})
	}
	next := opts[s.choose(len(opts), false, "sched-park")]
	s.switchTo(me, next)
	// fold what the waker did into this thread's history
	me.lastEv = mix(me.lastEv, me.wakeHash, 5)
}

func (s *Sched) threadExit(me *thread) {
	opts := s.options(me, false)
	if len(opts) == 0 {
		opts = s.wakeQuiet()
	}
	if len(opts) == 0 {
		s.noRunnable()
		return
	}
	if len(opts) > 1 && s.cut() {
		s.finish()
		return
	}
	next := opts[s.choose(len(opts), false, "sched-exit")]
	s.cur = next
	next.wake <- struct{}{}
}

// wakeQuiet makes the thread waiting in Quiesce (if any) runnable: nothing else can run.
func (s *Sched) wakeQuiet() []*thread {
	for _, t := range s.threads {
		if t.state == parked && t.quiet {
			t.quiet = false
			t.state = runnable
			t.wakeHash = s.cur.lastEv
			return []*thread{t}
		}
	}
	return nil
}

// Quiesce blocks the calling thread until every other thread is parked or finished (the system
// is quiescent): the driver of an explicit-state search calls it after each event. It is not a
// deadlock for the others to be parked at that moment.
func Quiesce() {
	s := cur
	if s == nil || s.aborting {
		return
	}
	me := s.cur
	if len(s.options(me, false)) == 0 {
		return
	}
	me.quiet = true
	s.park("quiesce")
}

// noRunnable ends the execution: complete, or a deadlock if a non-daemon thread is parked.
func (s *Sched) noRunnable() {
	for _, t := range s.threads {
		if t.state == parked && !(s.daemonOK != nil && s.daemonOK(t.name)) {
			s.Deadlock = true
		}
	}
	s.finish()
}

func (s *Sched) ready(t *thread) {
	if t.state == parked {
		t.state = runnable
		t.wakeHash = s.cur.lastEv
	}
}

// Preemptions returns the number of preemptive switches in the recorded points[:n].
func Preemptions(points []Point, n int) int {
	c := 0
	for _, p := range points[:n] {
		if p.Preemptible && p.Chosen > 0 {
			c++
		}
	}
	return c
}

// Choices returns the choice list of the execution.
func (s *Sched) Choices() []int {
	out := make([]int, len(s.Points))
	for i, p := range s.Points {
		out[i] = p.Chosen
	}
	return out
}

// CurrentName returns the running thread's name.
func CurrentName() string {
	if cur == nil || cur.cur == nil {
		return "?"
	}
	return cur.cur.name
}

// ---- primitives for the sync / atomic / context shims ----

// Thread is an opaque handle on a virtual thread.
type Thread = thread

// Self returns the running thread (nil outside an execution or while aborting).
func Self() *Thread {
	if cur == nil || cur.aborting {
		return nil
	}
	return cur.cur
}

// SchedPoint is the scheduling point in front of a visible operation.
func SchedPoint(what string) {
	if cur != nil && !cur.aborting {
		cur.yield(what)
	}
}

// Park blocks the running thread until MakeReady is called for it.
func Park(reason string) {
	if cur == nil {
		return
	}
	cur.park(reason)
}

// MakeReady marks a parked thread runnable.
func MakeReady(t *Thread) {
	if cur != nil && t != nil {
		cur.ready(t)
	}
}

// MapKeys returns the keys of m in an order owned by the explorer: sorted, with an explored
// choice of which key comes first (enough for loops that take the first element; Go's own
// order is random, which a model checker must not leave to chance).
func MapKeys[K comparable, V any](m map[K]V) []K {
	keys := make([]K, 0, len(m))
	for k := range m {
		keys = append(keys, k)
	}
	sort.Slice(keys, func(i, j int) bool { return fmt.Sprint(keys[i]) < fmt.Sprint(keys[j]) })
	if len(keys) > 1 {
		i := Choose(len(keys), "map-order")
		k := keys[i]
		copy(keys[1:i+1], keys[:i])
		keys[0] = k
	}
	return keys
}

// MapKeysSorted returns the keys of m in sorted order (deterministic stand-in for Go's random
// iteration order where the order is not observable to the property).
func MapKeysSorted[K comparable, V any](m map[K]V) []K {
	keys := make([]K, 0, len(m))
	for k := range m {
		keys = append(keys, k)
	}
	sort.Slice(keys, func(i, j int) bool { return fmt.Sprint(keys[i]) < fmt.Sprint(keys[j]) })
	return keys
}

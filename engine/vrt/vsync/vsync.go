// Package vsync mirrors the parts of package sync used by the code under test,
// on top of the virtual runtime.
package vsync

import "verif/engine/vrt"

type Locker interface {
	Lock()
	Unlock()
}

// Mutex: Lock is enabled iff the mutex is free; after Unlock every waiter competes (barging allowed).
type Mutex struct {
	locked  bool
	waiters []*vrt.Thread
}

func (m *Mutex) Lock() {
	if vrt.Aborting() {
		return
	}
	for {
		vrt.SchedPoint("Mutex.Lock")
		if vrt.Aborting() {
			return
		}
		if !m.locked {
			m.locked = true
			vrt.Event("lock", m, 0)
			return
		}
		vrt.Event("lock-wait", m, 0)
		m.waiters = append(m.waiters, vrt.Self())
		vrt.Park("Mutex.Lock")
	}
}

func (m *Mutex) TryLock() bool {
	if vrt.Aborting() {
		return true
	}
	vrt.SchedPoint("Mutex.TryLock")
	if m.locked {
		vrt.Event("trylock-fail", m, 0)
		return false
	}
	m.locked = true
	vrt.Event("lock", m, 0)
	return true
}

func (m *Mutex) Unlock() {
	if vrt.Aborting() {
		return
	}
	if !m.locked {
		panic("sync: unlock of unlocked mutex")
	}
	m.locked = false
	vrt.Event("unlock", m, 0)
	ws := m.waiters
	m.waiters = nil
	for _, w := range ws {
		vrt.MakeReady(w)
	}
}

// RWMutex with reader counting.
type RWMutex struct {
	writer  bool
	readers int
	waiters []*vrt.Thread
}

func (m *RWMutex) wakeAll() {
	ws := m.waiters
	m.waiters = nil
	for _, w := range ws {
		vrt.MakeReady(w)
	}
}
func (m *RWMutex) Lock() {
	if vrt.Aborting() {
		return
	}
	for {
		vrt.SchedPoint("RWMutex.Lock")
		if vrt.Aborting() {
			return
		}
		if !m.writer && m.readers == 0 {
			m.writer = true
			vrt.Event("wlock", m, 0)
			return
		}
		vrt.Event("wlock-wait", m, 0)
		m.waiters = append(m.waiters, vrt.Self())
		vrt.Park("RWMutex.Lock")
	}
}
func (m *RWMutex) Unlock() {
	if vrt.Aborting() {
		return
	}
	m.writer = false
	vrt.Event("wunlock", m, 0)
	m.wakeAll()
}
func (m *RWMutex) RLock() {
	if vrt.Aborting() {
		return
	}
	for {
		vrt.SchedPoint("RWMutex.RLock")
		if vrt.Aborting() {
			return
		}
		if !m.writer {
			m.readers++
			vrt.Event("rlock", m, 0)
			return
		}
		vrt.Event("rlock-wait", m, 0)
		m.waiters = append(m.waiters, vrt.Self())
		vrt.Park("RWMutex.RLock")
	}
}
func (m *RWMutex) RUnlock() {
	if vrt.Aborting() {
		return
	}
	m.readers--
	vrt.Event("runlock", m, 0)
	if m.readers == 0 {
		m.wakeAll()
	}
}

// Cond: Wait atomically unlocks and enqueues; Signal wakes one waiter (which one is an explored
// choice: the sync.Cond contract does not promise FIFO), Broadcast wakes all. No spurious wake-ups.
type Cond struct {
	L       Locker
	waiters []*vrt.Thread
}

func NewCond(l Locker) *Cond { return &Cond{L: l} }

func (c *Cond) Wait() {
	if vrt.Aborting() {
		return
	}
	vrt.SchedPoint("Cond.Wait")
	if vrt.Aborting() {
		return
	}
	vrt.Event("cond-wait", c, 0)
	c.waiters = append(c.waiters, vrt.Self())
	c.L.Unlock()
	vrt.Park("Cond.Wait")
	c.L.Lock()
}

func (c *Cond) Signal() {
	if vrt.Aborting() {
		return
	}
	vrt.SchedPoint("Cond.Signal")
	if len(c.waiters) == 0 {
		vrt.Event("cond-signal-none", c, 0)
		return
	}
	i := vrt.Choose(len(c.waiters), "cond-signal")
	vrt.Event("cond-signal", c, uint64(i))
	w := c.waiters[i]
	c.waiters = append(append([]*vrt.Thread{}, c.waiters[:i]...), c.waiters[i+1:]...)
	vrt.MakeReady(w)
}

func (c *Cond) Broadcast() {
	if vrt.Aborting() {
		return
	}
	vrt.SchedPoint("Cond.Broadcast")
	vrt.Event("cond-broadcast", c, 0)
	ws := c.waiters
	c.waiters = nil
	for _, w := range ws {
		vrt.MakeReady(w)
	}
}

// Once.
type Once struct {
	m    Mutex
	done bool
}

func (o *Once) Do(f func()) {
	if vrt.Aborting() {
		return
	}
	o.m.Lock()
	defer o.m.Unlock()
	if !o.done {
		defer func() { o.done = true }()
		f()
	}
}

// WaitGroup.
type WaitGroup struct {
	n       int
	waiters []*vrt.Thread
}

func (wg *WaitGroup) Add(d int) {
	if vrt.Aborting() {
		return
	}
	vrt.SchedPoint("WaitGroup.Add")
	vrt.Event("wg-add", wg, uint64(d))
	wg.n += d
	if wg.n < 0 {
		panic("sync: negative WaitGroup counter")
	}
	if wg.n == 0 {
		ws := wg.waiters
		wg.waiters = nil
		for _, w := range ws {
			vrt.MakeReady(w)
		}
	}
}
func (wg *WaitGroup) Done() { wg.Add(-1) }
func (wg *WaitGroup) Wait() {
	if vrt.Aborting() {
		return
	}
	vrt.SchedPoint("WaitGroup.Wait")
	vrt.Event("wg-wait", wg, 0)
	for wg.n > 0 {
		if vrt.Aborting() {
			return
		}
		wg.waiters = append(wg.waiters, vrt.Self())
		vrt.Park("WaitGroup.Wait")
	}
}

// Package vatomic mirrors the sync/atomic functions used by the code under test:
// a scheduling point, then the (sequentially consistent) operation.
package vatomic

import "verif/engine/vrt"

func AddInt64(p *int64, d int64) int64 {
	vrt.SchedPoint("atomic.AddInt64")
	vrt.Event("atomic.AddInt64", p, 0)
	*p += d
	return *p
}
func AddInt32(p *int32, d int32) int32 {
	vrt.SchedPoint("atomic.AddInt32")
	vrt.Event("atomic.AddInt32", p, 0)
	*p += d
	return *p
}
func LoadInt64(p *int64) int64 {
	vrt.SchedPoint("atomic.LoadInt64")
	vrt.Event("atomic.LoadInt64", p, 0)
	return *p
}
func LoadInt32(p *int32) int32 {
	vrt.SchedPoint("atomic.LoadInt32")
	vrt.Event("atomic.LoadInt32", p, 0)
	return *p
}
func StoreInt64(p *int64, v int64) {
	vrt.SchedPoint("atomic.StoreInt64")
	vrt.Event("atomic.StoreInt64", p, 0)
	*p = v
}
func StoreInt32(p *int32, v int32) {
	vrt.SchedPoint("atomic.StoreInt32")
	vrt.Event("atomic.StoreInt32", p, 0)
	*p = v
}
func LoadUint32(p *uint32) uint32 {
	vrt.SchedPoint("atomic.LoadUint32")
	vrt.Event("atomic.LoadUint32", p, 0)
	return *p
}
func StoreUint32(p *uint32, v uint32) {
	vrt.SchedPoint("atomic.StoreUint32")
	vrt.Event("atomic.StoreUint32", p, 0)
	*p = v
}
func CompareAndSwapInt32(p *int32, o, n int32) bool {
	vrt.SchedPoint("atomic.CAS32")
	vrt.Event("cas", p, 0)
	vrt.Event("atomic.CAS32", p, 0)
	if *p == o {
		*p = n
		return true
	}
	return false
}
func CompareAndSwapInt64(p *int64, o, n int64) bool {
	vrt.SchedPoint("atomic.CAS64")
	vrt.Event("cas", p, 0)
	vrt.Event("atomic.CAS64", p, 0)
	if *p == o {
		*p = n
		return true
	}
	return false
}

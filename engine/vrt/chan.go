package vrt

import "fmt"

// waiter is a parked operation (one per blocked select; plain send/recv are 1-case selects).
type waiter struct {
	t     *thread
	fired bool
	idx   int  // case that fired
	val   any  // received value
	ok    bool // receive ok flag
	panic string
}

type qent struct {
	w    *waiter
	idx  int
	val  any // value to send (send cases)
	recv bool
}

type core struct {
	oid    uint64 // stable object id for state caching
	id     int
	cap    int
	buf    []any
	closed bool
	recvq  []*qent
	sendq  []*qent
}

// Chan is the virtual counterpart of `chan T`. A nil *Chan[T] behaves like a nil channel.
type Chan[T any] struct{ c core }

// NewChan is make(chan T, n).
func NewChan[T any](n int) *Chan[T] {
	ch := &Chan[T]{}
	ch.c.cap = n
	if cur != nil && cur.cur != nil {
		cur.nextChanID++
		ch.c.id = cur.nextChanID
		t := cur.cur
		t.nobj++
		ch.c.oid = mix(t.sid, t.nobj, 99)
	}
	return ch
}

func (c *Chan[T]) core() *core {
	if c == nil {
		return nil
	}
	return &c.c
}

// Len and Cap mirror len(ch) and cap(ch).
func (c *Chan[T]) Len() int {
	if c == nil {
		return 0
	}
	return len(c.c.buf)
}

// Closed reports whether the channel has been closed (observation only, no scheduling point).
func (c *Chan[T]) Closed() bool { return c != nil && c.c.closed }

func (c *Chan[T]) Cap() int {
	if c == nil {
		return 0
	}
	return c.c.cap
}

func popLive(q *[]*qent) *qent {
	for len(*q) > 0 {
		e := (*q)[0]
		*q = (*q)[1:]
		if !e.w.fired {
			return e
		}
	}
	return nil
}

func hasLive(q []*qent) bool {
	for _, e := range q {
		if !e.w.fired {
			return true
		}
	}
	return false
}

func (c *core) canRecv() bool {
	return c != nil && (len(c.buf) > 0 || hasLive(c.sendq) || c.closed)
}
func (c *core) canSend() bool {
	return c != nil && (c.closed || len(c.buf) < c.cap || hasLive(c.recvq))
}

// doRecv executes a receive that canRecv() allowed.
func (s *Sched) doRecv(c *core) (any, bool) {
	if len(c.buf) > 0 {
		v := c.buf[0]
		c.buf = c.buf[1:]
		if e := popLive(&c.sendq); e != nil { // a parked sender moves into the buffer
			c.buf = append(c.buf, e.val)
			e.w.fired, e.w.idx = true, e.idx
			s.ready(e.w.t)
		}
		return v, true
	}
	if e := popLive(&c.sendq); e != nil {
		e.w.fired, e.w.idx = true, e.idx
		s.ready(e.w.t)
		return e.val, true
	}
	return nil, false // closed
}

// doSend executes a send that canSend() allowed.
func (s *Sched) doSend(c *core, v any) {
	if c.closed {
		panic("send on closed channel")
	}
	if e := popLive(&c.recvq); e != nil {
		e.w.fired, e.w.idx, e.w.val, e.w.ok = true, e.idx, v, true
		s.ready(e.w.t)
		return
	}
	c.buf = append(c.buf, v)
}

// Close is close(ch).
func (ch *Chan[T]) Close() {
	s := cur
	if s == nil || s.aborting {
		return
	}
	s.yield("close")
	if ch == nil {
		panic("close of nil channel")
	}
	c := &ch.c
	if c.closed {
		panic("close of closed channel")
	}
	s.event("close", c.oid, 0)
	c.closed = true
	for {
		e := popLive(&c.recvq)
		if e == nil {
			break
		}
		e.w.fired, e.w.idx, e.w.val, e.w.ok = true, e.idx, nil, false
		s.ready(e.w.t)
	}
	for {
		e := popLive(&c.sendq)
		if e == nil {
			break
		}
		e.w.fired, e.w.idx, e.w.panic = true, e.idx, "send on closed channel"
		s.ready(e.w.t)
	}
}

// SelCase is one case of a select.
type SelCase struct {
	c    *core
	recv bool
	val  any
}

// Sel describes a select statement being built by rewritten code.
type Sel struct {
	cases      []SelCase
	hasDefault bool
	// result
	I   int
	val any
	ok  bool
}

func NewSel(hasDefault bool) *Sel { return &Sel{hasDefault: hasDefault, I: -1} }

// RecvCase carries the value of a fired receive case.
type RecvCase[T any] struct {
	s *Sel
	i int
}

func AddRecv[T any](s *Sel, c *Chan[T]) RecvCase[T] {
	s.cases = append(s.cases, SelCase{c: c.core(), recv: true})
	return RecvCase[T]{s, len(s.cases) - 1}
}

func AddSend[T any](s *Sel, c *Chan[T], v T) {
	s.cases = append(s.cases, SelCase{c: c.core(), val: v})
}

// Val returns the received value of case r (valid when r's case fired).
func (r RecvCase[T]) Val() T {
	var zero T
	if r.s.I != r.i || r.s.val == nil {
		return zero
	}
	return r.s.val.(T)
}

// Ok returns the second result of the receive.
func (r RecvCase[T]) Ok() bool { return r.s.I == r.i && r.s.ok }

// Run executes the select and returns the index of the chosen case, or -1 for default.
func (sel *Sel) Run() int {
	s := cur
	if s == nil || s.aborting {
		sel.I = -1
		if !sel.hasDefault {
			panic(abortToken{})
		}
		return -1
	}
	s.yield("select")
	var ready []int
	for i, k := range sel.cases {
		if k.recv && k.c.canRecv() || !k.recv && k.c.canSend() {
			ready = append(ready, i)
		}
	}
	if len(ready) > 0 {
		i := ready[s.choose(len(ready), false, "select")]
		k := sel.cases[i]
		sel.I = i
		s.cur.lastEv = mix(s.cur.lastEv, uint64(i), uint64(len(ready)))
		if k.recv {
			s.event("recv", k.c.oid, 0)
			sel.val, sel.ok = s.doRecv(k.c)
		} else {
			s.event("send", k.c.oid, 0)
			s.doSend(k.c, k.val)
		}
		return i
	}
	if sel.hasDefault {
		sel.I = -1
		return -1
	}
	w := &waiter{t: s.cur}
	desc := "select{"
	for i, k := range sel.cases {
		if k.c == nil {
			desc += "nil "
			continue
		}
		e := &qent{w: w, idx: i, val: k.val, recv: k.recv}
		s.event("enqueue", k.c.oid, uint64(i))
		if k.recv {
			k.c.recvq = append(k.c.recvq, e)
			desc += fmt.Sprintf("<-ch%d ", k.c.id)
		} else {
			k.c.sendq = append(k.c.sendq, e)
			desc += fmt.Sprintf("ch%d<- ", k.c.id)
		}
	}
	s.park(desc + "}")
	if w.panic != "" {
		panic(w.panic)
	}
	sel.I, sel.val, sel.ok = w.idx, w.val, w.ok
	s.cur.lastEv = mix(s.cur.lastEv, uint64(w.idx), 17)
	return w.idx
}

// Send is ch <- v.
func (ch *Chan[T]) Send(v T) {
	if cur == nil || cur.aborting {
		return
	}
	sel := NewSel(false)
	AddSend(sel, ch, v)
	sel.Run()
}

// Recv is <-ch.
func (ch *Chan[T]) Recv() T {
	v, _ := ch.Recv2()
	return v
}

// Recv2 is v, ok := <-ch.
func (ch *Chan[T]) Recv2() (T, bool) {
	var zero T
	if cur == nil || cur.aborting {
		return zero, false
	}
	sel := NewSel(false)
	r := AddRecv(sel, ch)
	sel.Run()
	return r.Val(), r.Ok()
}

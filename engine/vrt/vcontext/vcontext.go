// Package vcontext mirrors the parts of package context used by the code under test.
// Cancellation closes a virtual channel; there are no helper goroutines.
package vcontext

import (
	"errors"
	"time"

	"verif/engine/vrt"
)

var Canceled = errors.New("context canceled")
var DeadlineExceeded error = errors.New("context deadline exceeded")

type Context interface {
	Deadline() (deadline time.Time, ok bool)
	Done() *vrt.Chan[struct{}]
	Err() error
	Value(key any) any
}

type CancelFunc func()

type emptyCtx struct{}

func (emptyCtx) Deadline() (time.Time, bool) { return time.Time{}, false }
func (emptyCtx) Done() *vrt.Chan[struct{}]   { return nil }
func (emptyCtx) Err() error                  { return nil }
func (emptyCtx) Value(key any) any           { return nil }

func Background() Context { return emptyCtx{} }
func TODO() Context       { return emptyCtx{} }

type cancelCtx struct {
	parent   Context
	done     *vrt.Chan[struct{}]
	err      error
	children []*cancelCtx
}

func (c *cancelCtx) Deadline() (time.Time, bool) { return c.parent.Deadline() }
func (c *cancelCtx) Done() *vrt.Chan[struct{}]   { return c.done }
func (c *cancelCtx) Err() error {
	vrt.SchedPoint("ctx.Err")
	vrt.Event("ctx-err", c, 0)
	return c.err
}
func (c *cancelCtx) Value(key any) any { return c.parent.Value(key) }

func (c *cancelCtx) cancel(err error) {
	if c.err != nil {
		return
	}
	c.err = err
	vrt.Event("ctx-cancel", c, 0)
	c.done.Close()
	for _, ch := range c.children {
		ch.cancel(err)
	}
}

// parentCancelCtx finds the nearest cancelCtx ancestor.
func parentCancelCtx(p Context) *cancelCtx {
	for {
		switch v := p.(type) {
		case *cancelCtx:
			return v
		case *valueCtx:
			p = v.Context
		default:
			return nil
		}
	}
}

func WithCancel(parent Context) (Context, CancelFunc) {
	c := &cancelCtx{parent: parent, done: vrt.NewChan[struct{}](0)}
	if pc := parentCancelCtx(parent); pc != nil {
		if pc.err != nil {
			c.cancel(pc.err)
		} else {
			pc.children = append(pc.children, c)
		}
	}
	return c, func() {
		if vrt.Aborting() {
			return
		}
		c.cancel(Canceled)
	}
}

type valueCtx struct {
	Context
	key, val any
}

func (c *valueCtx) Value(key any) any {
	if c.key == key {
		return c.val
	}
	return c.Context.Value(key)
}

func WithValue(parent Context, key, val any) Context { return &valueCtx{parent, key, val} }

package vrt

import (
	"fmt"
	"time"
)

// Scenario is a closed multi-threaded harness around the code under test.
type Scenario struct {
	Name     string
	Body     func()                  // runs as thread "main"; spawns the others with Go
	Reset    func()                  // clears the per-execution observation record
	Check    func(s *Sched) *Verdict // oracle for one finished execution (nil = fine)
	Observe  func() string           // canonical observation of the execution (for outcome counting)
	Daemon   func(name string) bool  // threads that may legitimately stay parked
	MaxSteps int
	// BoundDelta is added to the tier's preemption bound for this scenario (e.g. -1 for a large one).
	BoundDelta int
}

// Verdict describes a violated execution.
type Verdict struct {
	Key    string
	What   string
	Detail string
}

// Found is a violating schedule.
type Found struct {
	Scenario    string   `json:"scenario"`
	Choices     []int    `json:"choices"`
	Preemptions int      `json:"preemptions"`
	Key         string   `json:"key"`
	What        string   `json:"what"`
	Detail      string   `json:"detail"`
	Trace       []string `json:"trace,omitempty"`
}

// Stats of one exploration.
type Stats struct {
	Executions     int64
	Points         int64 // scheduling/select decisions taken (transitions)
	MaxPoints      int
	Outcomes       map[string]int64
	Deadlocks      int64
	Pruned         int64
	StepCaps       int64
	BoundCompleted int
	Capped         string
	Found          []Found
}

// Explorer performs a depth-first enumeration of all schedules with at most Bound preemptions.
type Explorer struct {
	Bound    int
	Deadline time.Time
	MaxExec  int64
	MaxFound int
	Stats    Stats
	seenKey  map[string]bool
	Cache    *Cache // nil = no state caching
}

func NewExplorer(bound int) *Explorer {
	return &Explorer{Bound: bound, MaxFound: 8, Stats: Stats{Outcomes: map[string]int64{}}, seenKey: map[string]bool{}}
}

// RunOnce executes sc under prefix and judges it.
func RunOnce(sc *Scenario, prefix []int) (*Sched, *Verdict) {
	return RunOnceCached(sc, prefix, nil)
}

// RunOnceCached is RunOnce with state caching; a pruned execution is not judged (its
// continuation was judged when the state was first reached).
func RunOnceCached(sc *Scenario, prefix []int, cache *Cache) (*Sched, *Verdict) {
	if sc.Reset != nil {
		sc.Reset()
	}
	s := RunCached(prefix, sc.MaxSteps, sc.Daemon, sc.Body, cache)
	if s.Pruned {
		return s, nil
	}
	if s.Diverged != "" {
		return s, &Verdict{Key: "HARNESS-divergence", What: "replay divergence: " + s.Diverged}
	}
	if len(s.Panics) > 0 {
		return s, &Verdict{Key: "panic:" + firstLine(s.Panics[0]), What: "a thread panicked", Detail: s.Panics[0]}
	}
	if s.Deadlock {
		return s, &Verdict{Key: "deadlock", What: "no runnable thread while non-daemon threads are blocked", Detail: fmt.Sprint(s.Stuck)}
	}
	if s.StepCap {
		return s, nil // counted by the caller
	}
	if sc.Check != nil {
		return s, sc.Check(s)
	}
	return s, nil
}

func firstLine(s string) string {
	for i := 0; i < len(s); i++ {
		if s[i] == '\n' {
			return s[:i]
		}
	}
	return s
}

// Explore enumerates the subtree below prefix (the whole tree for a nil prefix).
// It returns false when it stopped early (deadline / caps).
func (e *Explorer) Explore(sc *Scenario, prefix []int) bool {
	type frame struct{ prefix []int }
	stack := []frame{{prefix}}
	for len(stack) > 0 {
		if !e.Deadline.IsZero() && time.Now().After(e.Deadline) {
			e.Stats.Capped = "deadline"
			return false
		}
		if e.MaxExec > 0 && e.Stats.Executions >= e.MaxExec {
			e.Stats.Capped = "max executions"
			return false
		}
		f := stack[len(stack)-1]
		stack = stack[:len(stack)-1]
		s, v := RunOnceCached(sc, f.prefix, e.Cache)
		e.Stats.Executions++
		if s.Pruned {
			e.Stats.Pruned++
		}
		e.Stats.Points += int64(len(s.Points))
		if len(s.Points) > e.Stats.MaxPoints {
			e.Stats.MaxPoints = len(s.Points)
		}
		if s.Deadlock {
			e.Stats.Deadlocks++
		}
		if s.StepCap {
			e.Stats.StepCaps++
		}
		if sc.Observe != nil && !s.Pruned {
			e.Stats.Outcomes[sc.Observe()]++
		}
		if v != nil && !e.seenKey[v.Key] {
			e.seenKey[v.Key] = true
			// believe a failure only if it replays identically twice
			ch := s.Choices()
			ok := true
			for r := 0; r < 2; r++ {
				s2, v2 := RunOnce(sc, ch)
				if v2 == nil || v2.Key != v.Key || len(s2.Points) != len(s.Points) {
					ok = false
				}
			}
			fd := Found{Scenario: sc.Name, Choices: ch, Preemptions: Preemptions(s.Points, len(s.Points)), Key: v.Key, What: v.What, Detail: v.Detail}
			if !ok {
				fd.Key = "HARNESS-nondeterministic-replay:" + v.Key
			}
			if len(e.Stats.Found) < e.MaxFound {
				e.Stats.Found = append(e.Stats.Found, fd)
			}
		}
		// children: alternatives at points not fixed by the prefix
		for i := len(s.Points) - 1; i >= len(f.prefix); i-- {
			p := s.Points[i]
			cost := Preemptions(s.Points, i)
			if p.Preemptible {
				cost++
			}
			if cost > e.Bound {
				continue
			}
			for alt := p.N - 1; alt >= 1; alt-- {
				np := make([]int, i+1)
				for j := 0; j < i; j++ {
					np[j] = s.Points[j].Chosen
				}
				np[i] = alt
				stack = append(stack, frame{np})
			}
		}
	}
	return true
}

// RootAlternatives runs the default schedule and returns the prefixes of all first-level
// subtrees within the bound (for sharding across processes) plus the root execution's choices.
func RootAlternatives(sc *Scenario, bound int) [][]int {
	s, _ := RunOnce(sc, nil)
	var out [][]int
	for i := 0; i < len(s.Points); i++ {
		p := s.Points[i]
		cost := Preemptions(s.Points, i)
		if p.Preemptible {
			cost++
		}
		if cost > bound {
			continue
		}
		for alt := 1; alt < p.N; alt++ {
			np := make([]int, i+1)
			for j := 0; j < i; j++ {
				np[j] = s.Points[j].Chosen
			}
			np[i] = alt
			out = append(out, np)
		}
	}
	return out
}

//go:build linux && amd64

// Package ptracer runs a command under ptrace(2) and calls a handler at every
// system-call entry and exit stop of every thread and child process. The
// handler may ask for the whole traced process tree to be SIGKILLed at that
// very stop ("crash point"). A kill at an entry stop happens before the kernel
// executes the call; a kill at an exit stop happens after it has completed.
//
// Two modes:
//   - full (default): the tracee is resumed with PTRACE_SYSCALL, every system
//     call of every thread stops twice (entry, exit). Simple, but a Go program
//     makes thousands of calls, so a run costs thousands of context switches.
//   - filtered (Cmd.Filter non-empty): argv is started through a launcher (the
//     launcher/main.go program, compiled on demand by BuildLauncher) that
//     installs a seccomp-bpf filter returning SECCOMP_RET_TRACE for the
//     listed calls and then execs the real command.
//     The tracee runs at full speed (PTRACE_CONT); only the listed calls stop:
//     at the PTRACE_EVENT_SECCOMP stop (= before the call executes, reported
//     as the entry stop) and, via one PTRACE_SYSCALL step, at its exit stop.
//
// Pure Go, linux/amd64 only. All ptrace requests are issued from one locked OS
// thread (the kernel binds tracees to the tracer *thread*).
package ptracer

import (
	_ "embed"
	"fmt"
	"os"
	"os/exec"
	"path/filepath"
	"runtime"
	"strconv"
	"strings"
	"syscall"
	"unsafe"
)

// Action is the handler's verdict at a stop.
type Action int

const (
	Continue Action = iota
	Kill            // SIGKILL every traced thread group now; the stopped call is not resumed
)

// Stop describes one syscall stop.
type Stop struct {
	Seq   int       // 1-based index of this stop over the whole run
	Tid   int       // stopping thread
	Tgid  int       // its thread group (process)
	Entry bool      // true: before the call executes; false: after it returned
	Nr    int       // syscall number (orig_rax)
	Args  [6]uint64 // rdi rsi rdx r10 r8 r9 (as seen at entry)
	Ret   int64     // rax at exit (negative errno on failure); 0 at entry
}

// Name returns the syscall's name, or "sys_<nr>".
func (s *Stop) Name() string { return Name(s.Nr) }

// Result summarises a traced run.
type Result struct {
	Stops      int   // number of syscall stops seen
	Killed     bool  // the handler asked for the kill
	KillSeq    int   // Seq of the stop at which it was killed
	Exited     bool  // root process exited by itself
	ExitCode   int   // valid if Exited
	Signaled   bool  // root process died from a signal
	Signal     int   // valid if Signaled
	Tgids      []int // every process (thread group) that was ever traced
	Threads    int   // number of distinct threads traced
	Survivors  []int // processes still alive after the run (must be empty)
	Execs      int   // number of successful execve events after the initial one
	InfoChecks int   // stops whose entry/exit side was cross-checked with PTRACE_GET_SYSCALL_INFO
}

// Tracer gives the handler access to the stopped tracee's memory.
type Tracer struct{}

// ReadString reads a NUL-terminated string (≤ 4096 bytes) from the tracee.
func (Tracer) ReadString(tid int, addr uint64) string {
	if addr == 0 {
		return ""
	}
	var out []byte
	buf := make([]byte, 256)
	for len(out) < 4096 {
		// do not cross a page boundary in one read: the next page may be unmapped
		n := 256
		if room := 4096 - int((addr+uint64(len(out)))&4095); room < n {
			n = room
		}
		c, err := syscall.PtracePeekData(tid, uintptr(addr)+uintptr(len(out)), buf[:n])
		if err != nil || c <= 0 {
			break
		}
		if i := strings.IndexByte(string(buf[:c]), 0); i >= 0 {
			return string(append(out, buf[:i]...))
		}
		out = append(out, buf[:c]...)
	}
	return string(out)
}

// Handler is called on the tracer thread at each syscall stop.
type Handler func(t Tracer, s *Stop) Action

const (
	ptraceGetSyscallInfo = 0x420e
	optExec              = 0x10 // PTRACE_O_TRACEEXEC
	optSeccomp           = 0x80 // PTRACE_O_TRACESECCOMP
	optExitKill          = 0x100000
	eventExec            = 4
	eventSeccomp         = 7
)

type tstate struct {
	inSyscall bool // between an entry stop and its exit stop
	entry     Stop
	tgid      int
}

// Cmd describes the command to trace.
type Cmd struct {
	Argv     []string // Argv[0] is the executable path
	Env      []string
	Dir      string
	OutFile  string // stdout+stderr are appended here ("" = /dev/null); stdin is /dev/null
	Filter   []int  // non-empty: filtered mode, only these syscall numbers stop
	Launcher string // filtered mode: path of the launcher binary (BuildLauncher)
}

//go:embed launcher/main.go
var launcherSrc []byte

// BuildLauncher compiles the filtered-mode launcher (see launcher/main.go) into
// dir and returns its path. It needs the go tool; the program uses only the
// standard library, so no network or module cache is involved.
func BuildLauncher(dir string) (string, error) {
	src := filepath.Join(dir, "ptracer-launcher-src")
	if err := os.MkdirAll(src, 0o755); err != nil {
		return "", err
	}
	defer os.RemoveAll(src)
	if err := os.WriteFile(filepath.Join(src, "main.go"), launcherSrc, 0o644); err != nil {
		return "", err
	}
	if err := os.WriteFile(filepath.Join(src, "go.mod"), []byte("module launcher\n\ngo 1.21\n"), 0o644); err != nil {
		return "", err
	}
	bin := filepath.Join(dir, "ptracer-launcher")
	cmd := exec.Command("go", "build", "-o", bin, ".")
	cmd.Dir = src
	cmd.Env = append(os.Environ(), "GOFLAGS=-mod=mod", "GOPROXY=off", "GOSUMDB=off", "GOTOOLCHAIN=local", "GOWORK=off")
	if out, err := cmd.CombinedOutput(); err != nil {
		return "", fmt.Errorf("building the launcher: %v: %s", err, out)
	}
	return bin, nil
}

func tgidOf(tid int) int {
	b, err := os.ReadFile("/proc/" + strconv.Itoa(tid) + "/status")
	if err != nil {
		return tid
	}
	for _, ln := range strings.Split(string(b), "\n") {
		if strings.HasPrefix(ln, "Tgid:") {
			if v, err := strconv.Atoi(strings.TrimSpace(ln[5:])); err == nil {
				return v
			}
		}
	}
	return tid
}

// alive reports whether process p still exists and is not a zombie (a killed
// grandchild stays a zombie until its new parent reaps it; it cannot act any more).
func alive(p int) bool {
	b, err := os.ReadFile("/proc/" + strconv.Itoa(p) + "/stat")
	if err != nil {
		return false
	}
	s := string(b)
	i := strings.LastIndexByte(s, ')')
	if i < 0 || i+2 >= len(s) {
		return false
	}
	return s[i+2] != 'Z' && s[i+2] != 'X'
}

// syscallInfoOp returns 1 (entry) / 2 (exit) / 3 (seccomp), or 0 if unavailable.
func syscallInfoOp(tid int) int {
	var buf [88]byte
	r, _, e := syscall.Syscall6(syscall.SYS_PTRACE, ptraceGetSyscallInfo, uintptr(tid), uintptr(len(buf)), uintptr(unsafe.Pointer(&buf[0])), 0, 0)
	if e != 0 || r == 0 {
		return 0
	}
	return int(buf[0])
}

// Run starts the command and traces it until every traced task is gone.
func (cmd Cmd) Run(h Handler) (res Result, err error) {
	argv, filtered := cmd.Argv, len(cmd.Filter) > 0
	if filtered {
		if cmd.Launcher == "" {
			return res, fmt.Errorf("filtered mode needs Cmd.Launcher")
		}
		var nrs []string
		for _, n := range cmd.Filter {
			nrs = append(nrs, strconv.Itoa(n))
		}
		argv = append([]string{cmd.Launcher, strings.Join(nrs, ",")}, argv...)
	}
	done := make(chan struct{})
	go func() {
		defer close(done)
		runtime.LockOSThread()
		defer runtime.UnlockOSThread()
		res, err = run(argv, cmd.Env, cmd.Dir, cmd.OutFile, filtered, h)
	}()
	<-done
	return
}

func run(argv, env []string, dir, outFile string, filtered bool, h Handler) (res Result, err error) {
	null, err := os.OpenFile(os.DevNull, os.O_RDWR, 0)
	if err != nil {
		return res, err
	}
	defer null.Close()
	out := null
	if outFile != "" {
		if out, err = os.OpenFile(outFile, os.O_WRONLY|os.O_CREATE|os.O_APPEND, 0o600); err != nil {
			return res, err
		}
		defer out.Close()
	}
	root, err := syscall.ForkExec(argv[0], argv, &syscall.ProcAttr{Dir: dir, Env: env,
		Files: []uintptr{null.Fd(), out.Fd(), out.Fd()},
		Sys:   &syscall.SysProcAttr{Ptrace: true}})
	if err != nil {
		return res, fmt.Errorf("forkexec: %w", err)
	}
	killAll := func(tgids map[int]bool) {
		for p := range tgids {
			syscall.Kill(p, syscall.SIGKILL)
		}
	}
	var ws syscall.WaitStatus
	if _, err = syscall.Wait4(root, &ws, syscall.WALL, nil); err != nil || !ws.Stopped() {
		syscall.Kill(root, syscall.SIGKILL)
		return res, fmt.Errorf("initial stop: %v status=%#x", err, uint32(ws))
	}
	threads := map[int]*tstate{root: {tgid: root}}
	tgids := map[int]bool{root: true}
	nthreads := 1
	opts := syscall.PTRACE_O_TRACECLONE | syscall.PTRACE_O_TRACEFORK | syscall.PTRACE_O_TRACEVFORK |
		syscall.PTRACE_O_TRACESYSGOOD | optExec | optExitKill
	if filtered {
		opts |= optSeccomp
	}
	// resume lets tid run to its next stop: every syscall boundary in full mode;
	// in filtered mode only to the exit stop of a call whose seccomp stop was just seen
	resume := func(tid int, st *tstate, sig int) error {
		if !filtered || st.inSyscall {
			return syscall.PtraceSyscall(tid, sig)
		}
		return syscall.PtraceCont(tid, sig)
	}
	if err = syscall.PtraceSetOptions(root, opts); err != nil {
		syscall.Kill(root, syscall.SIGKILL)
		syscall.Wait4(root, &ws, syscall.WALL, nil)
		return res, fmt.Errorf("setoptions: %w", err)
	}
	if err = resume(root, threads[root], 0); err != nil {
		killAll(tgids)
		return res, fmt.Errorf("resume: %w", err)
	}
	var herr error
	for {
		tid, werr := syscall.Wait4(-1, &ws, syscall.WALL, nil)
		if werr == syscall.EINTR {
			continue
		}
		if werr != nil { // ECHILD: nothing left
			break
		}
		if ws.Exited() || ws.Signaled() {
			if tid == root {
				if ws.Exited() {
					res.Exited, res.ExitCode = true, ws.ExitStatus()
				} else {
					res.Signaled, res.Signal = true, int(ws.Signal())
				}
			}
			delete(threads, tid)
			continue
		}
		if !ws.Stopped() {
			continue
		}
		st := threads[tid]
		fresh := st == nil
		if fresh {
			st = &tstate{tgid: tgidOf(tid)}
			threads[tid] = st
			tgids[st.tgid] = true
			nthreads++
			if res.Killed { // showed up only after the kill: it must die too
				syscall.Kill(st.tgid, syscall.SIGKILL)
			}
		}
		sig := ws.StopSignal()
		deliver := 0
		switch {
		case sig == syscall.SIGTRAP|0x80 || (filtered && sig == syscall.SIGTRAP && ws.TrapCause() == eventSeccomp):
			// syscall stop (full mode: entry and exit; filtered mode: exit only) or seccomp stop (= entry)
			if res.Killed {
				break
			}
			var regs syscall.PtraceRegs
			if e := syscall.PtraceGetRegs(tid, &regs); e != nil {
				break // the task is dying
			}
			isSeccomp := sig == syscall.SIGTRAP
			if filtered && isSeccomp == st.inSyscall && herr == nil {
				herr = fmt.Errorf("filtered mode: unexpected %s stop for tid %d (syscall %d)", map[bool]string{true: "seccomp", false: "syscall"}[isSeccomp], tid, regs.Orig_rax)
			}
			st.inSyscall = !st.inSyscall
			if op := syscallInfoOp(tid); op >= 1 && op <= 3 {
				res.InfoChecks++
				if (op != 2) != st.inSyscall && herr == nil { // 1 entry, 2 exit, 3 seccomp
					herr = fmt.Errorf("entry/exit bookkeeping out of step for tid %d at stop %d (syscall %d)", tid, res.Stops+1, regs.Orig_rax)
				}
			}
			res.Stops++
			var s Stop
			if st.inSyscall {
				s = Stop{Tid: tid, Tgid: st.tgid, Entry: true, Nr: int(regs.Orig_rax),
					Args: [6]uint64{regs.Rdi, regs.Rsi, regs.Rdx, regs.R10, regs.R8, regs.R9}}
				st.entry = s
			} else {
				s = st.entry
				s.Entry, s.Ret = false, int64(regs.Rax)
			}
			s.Seq = res.Stops
			if herr == nil && h != nil && h(Tracer{}, &s) == Kill {
				res.Killed, res.KillSeq = true, s.Seq
				killAll(tgids)
				continue // never resumed: SIGKILL takes it out of the stop
			}
		case sig == syscall.SIGTRAP && ws.TrapCause() > 0: // clone/fork/vfork/exec event
			if ws.TrapCause() == eventExec {
				res.Execs++
				// after an exec only the leader survives, continuing *inside* execve
				for t, o := range threads {
					if o.tgid == st.tgid && t != tid {
						delete(threads, t)
					}
				}
			}
		case sig == syscall.SIGSTOP && fresh: // attach stop of a new thread/child
		default:
			deliver = int(sig) // a real signal (SIGURG preemption, SIGCHLD ...): pass it on
		}
		if herr != nil && !res.Killed {
			res.Killed = true
			killAll(tgids)
			continue
		}
		if res.Killed {
			continue
		}
		resume(tid, st, deliver) // ESRCH if it died meanwhile: harmless
	}
	for p := range tgids {
		res.Tgids = append(res.Tgids, p)
		if alive(p) {
			res.Survivors = append(res.Survivors, p)
			syscall.Kill(p, syscall.SIGKILL)
		}
	}
	res.Threads = nthreads
	if herr != nil {
		res.Killed = false
		return res, herr
	}
	return res, nil
}

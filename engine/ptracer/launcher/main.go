//go:build linux && amd64

// Command launcher is the tracee-side half of ptracer's filtered mode:
//
//	launcher <nr,nr,...> <executable> [args...]
//
// installs a seccomp-bpf filter that returns SECCOMP_RET_TRACE for the listed
// system-call numbers (everything else is allowed) on all its threads and then
// execs the command. The filter is inherited over exec and by all children, so
// a ptrace tracer with PTRACE_O_TRACESECCOMP gets a stop before each listed
// call while the rest of the program runs untraced at full speed.
// Standard library only: ptracer embeds this file and builds it on demand.
package main

import (
	"fmt"
	"os"
	"runtime"
	"strconv"
	"strings"
	"syscall"
	"unsafe"
)

type sockFilter struct {
	code   uint16
	jt, jf uint8
	k      uint32
}

func fail(step string, err error) {
	fmt.Fprintln(os.Stderr, "ptracer launcher:", step+":", err)
	os.Exit(126)
}

func main() {
	if len(os.Args) < 3 {
		fail("usage", fmt.Errorf("launcher <nr,nr,...> <executable> [args...]"))
	}
	var nrs []int
	for _, f := range strings.Split(os.Args[1], ",") {
		n, err := strconv.Atoi(f)
		if err != nil {
			fail("numbers", err)
		}
		nrs = append(nrs, n)
	}
	const retAllow, retTrace, archX8664 = 0x7fff0000, 0x7ff00000, 0xc000003e
	n := len(nrs)
	if n == 0 || n > 200 {
		fail("filter", fmt.Errorf("%d numbers", n))
	}
	// ld arch; jne x86_64 → allow; ld nr; (jeq nr_i → trace)*; ret allow; ret trace
	prog := []sockFilter{{0x20, 0, 0, 4}, {0x15, 0, uint8(n + 1), archX8664}, {0x20, 0, 0, 0}}
	for i, nr := range nrs {
		prog = append(prog, sockFilter{0x15, uint8(n - i), 0, uint32(nr)})
	}
	prog = append(prog, sockFilter{0x06, 0, 0, retAllow}, sockFilter{0x06, 0, 0, retTrace})
	fprog := struct {
		n uint16
		f *sockFilter
	}{uint16(len(prog)), &prog[0]}
	runtime.LockOSThread()
	if _, _, e := syscall.Syscall6(syscall.SYS_PRCTL, 38 /* PR_SET_NO_NEW_PRIVS */, 1, 0, 0, 0, 0); e != 0 {
		fail("no_new_privs", e)
	}
	if _, _, e := syscall.Syscall(317 /* seccomp */, 1 /* SET_MODE_FILTER */, 1 /* FLAG_TSYNC */, uintptr(unsafe.Pointer(&fprog))); e != 0 {
		fail("seccomp", e)
	}
	fail("exec", syscall.Exec(os.Args[2], os.Args[2:], os.Environ()))
}

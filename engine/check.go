// Package engine holds the machinery shared by all checks: tier/seed handling,
// evidence files, known-finding matching, replay files and the stdout contract.
package engine

import (
	"crypto/sha1"
	"encoding/hex"
	"encoding/json"
	"fmt"
	"os"
	"path/filepath"
	"sort"
	"strconv"
	"strings"
	"sync"
	"time"
)

// Root is the framework directory (evidence, replays, known findings).
var Root = func() string {
	if r := os.Getenv("VERIF_ROOT"); r != "" {
		return r
	}
	return "/verif"
}()

// Failure describes one violated case. Key identifies the defect (minimal
// input, call site, (state,action) ...); it is what known findings match on.
type Failure struct {
	Key    string `json:"key"`
	What   string `json:"what"`
	Detail string `json:"detail,omitempty"`
}

type knownFinding struct {
	Property string `json:"property"`
	Key      string `json:"key"`
	Status   string `json:"status"` // "known" | "fixed"
	Commit   string `json:"commit,omitempty"`
	What     string `json:"what"`
}

// Check is the per-run context of one property check.
type Check struct {
	ID       string
	Level    string
	Tier     string
	Seed     int64
	Mode     string // quick | thorough | replay | worker
	ReplayFn string
	start    time.Time
	deadline time.Time

	mu          sync.Mutex
	evals       int64
	nontriv     map[uint64]struct{}
	nontrivN    int64 // additional count merged from workers (disjoint by construction)
	hist        map[string]int64
	samples     []any
	violations  map[string]*Failure
	knownHit    map[string]string
	known       []knownFinding
	Rule        string
	Assumptions []string
	Extra       map[string]any
	Exhaustive  bool
	capNotes    []string
}

// New parses the command line: <bin> quick|thorough|replay <file>|worker ...
func New(id, level string) *Check {
	c := &Check{ID: id, Level: level, start: time.Now(), nontriv: map[uint64]struct{}{},
		hist: map[string]int64{}, violations: map[string]*Failure{}, knownHit: map[string]string{},
		Extra: map[string]any{}, Exhaustive: true}
	c.Mode = "quick"
	if len(os.Args) > 1 {
		c.Mode = os.Args[1]
	}
	if t := os.Getenv("VERIF_TIER"); t != "" && (c.Mode == "quick" || c.Mode == "thorough") && len(os.Args) <= 1 {
		c.Mode = t
	}
	switch c.Mode {
	case "quick", "thorough":
		c.Tier = c.Mode
	case "replay":
		c.Tier = "quick"
		if len(os.Args) < 3 {
			fmt.Fprintln(os.Stderr, "usage: replay <file>")
			os.Exit(2)
		}
		c.ReplayFn = os.Args[2]
	case "worker":
		c.Tier = os.Getenv("VERIF_TIER_W")
		if c.Tier == "" {
			c.Tier = "quick"
		}
	default:
		fmt.Fprintln(os.Stderr, "usage: quick|thorough|replay <file>")
		os.Exit(2)
	}
	if s := os.Getenv("VERIF_SEED"); s != "" {
		c.Seed, _ = strconv.ParseInt(s, 10, 64)
	}
	dl := 900.0
	if c.Tier == "quick" {
		dl = 240
	}
	if s := os.Getenv("VERIF_DEADLINE"); s != "" {
		if v, err := strconv.ParseFloat(s, 64); err == nil {
			dl = v
		}
	}
	c.deadline = c.start.Add(time.Duration(dl * float64(time.Second)))
	c.loadKnown()
	return c
}

func (c *Check) Thorough() bool { return c.Tier == "thorough" }
func (c *Check) IsReplay() bool { return c.Mode == "replay" }
func (c *Check) IsWorker() bool { return c.Mode == "worker" }

// Expired reports whether the internal budget is used up. A check that stops
// because of it must call Cap and still exits 0.
func (c *Check) Expired() bool { return time.Now().After(c.deadline) }

// Remaining returns the time left before the internal deadline.
func (c *Check) Remaining() time.Duration { return time.Until(c.deadline) }

// Cap records that some bound was cut short; the run is then not exhaustive.
func (c *Check) Cap(note string) {
	c.mu.Lock()
	c.Exhaustive = false
	c.capNotes = append(c.capNotes, note)
	c.mu.Unlock()
}

func (c *Check) loadKnown() {
	b, err := os.ReadFile(filepath.Join(Root, "known_findings.json"))
	if err != nil {
		return
	}
	var all []knownFinding
	if err := json.Unmarshal(b, &all); err != nil {
		fmt.Fprintln(os.Stderr, "known_findings.json:", err)
		os.Exit(2)
	}
	for _, k := range all {
		if k.Property == c.ID && k.Status == "known" {
			c.known = append(c.known, k)
		}
	}
}

func hash64(s string) uint64 {
	h := sha1.Sum([]byte(s))
	var v uint64
	for i := 0; i < 8; i++ {
		v = v<<8 | uint64(h[i])
	}
	return v
}

// Eval counts n evaluated cases.
func (c *Check) Eval(n int64) {
	c.mu.Lock()
	c.evals += n
	c.mu.Unlock()
}

// Nontrivial records one distinct non-trivial case identified by key.
func (c *Check) Nontrivial(key string) {
	h := hash64(key)
	c.mu.Lock()
	c.nontriv[h] = struct{}{}
	c.mu.Unlock()
}

// NontrivialN adds n distinct non-trivial cases counted elsewhere (cases are
// distinct by construction of the enumeration).
func (c *Check) NontrivialN(n int64) {
	c.mu.Lock()
	c.nontrivN += n
	c.mu.Unlock()
}

func (c *Check) Hist(key string, n int64) {
	c.mu.Lock()
	c.hist[key] += n
	c.mu.Unlock()
}

// Sample keeps up to 8 cases for the evidence file.
func (c *Check) Sample(v any) {
	c.mu.Lock()
	if len(c.samples) < 8 {
		c.samples = append(c.samples, v)
	}
	c.mu.Unlock()
}

// Violate records a failing case. kase must be JSON-serialisable and is what
// the replay file carries.
func (c *Check) Violate(kase any, f *Failure) {
	c.mu.Lock()
	defer c.mu.Unlock()
	for _, k := range c.known {
		if k.Key == f.Key {
			if _, ok := c.knownHit[k.Key]; !ok {
				c.knownHit[k.Key] = k.What
				fmt.Printf("KNOWN-FINDING: property=%s %s [key=%s]\n", c.ID, k.What, strconv.Quote(k.Key))
			}
			return
		}
	}
	if _, ok := c.violations[f.Key]; ok {
		return
	}
	c.violations[f.Key] = f
	if len(c.violations) > maxPrinted() {
		return // counted, not printed
	}
	path := c.writeReplay(kase, f)
	fmt.Printf("VIOLATION property=%s replay=%s\n", c.ID, path)
	fmt.Printf("  key=%s what=%s\n", strconv.Quote(f.Key), f.What)
	if f.Detail != "" {
		d := f.Detail
		if len(d) > 1500 {
			d = d[:1500] + "…"
		}
		fmt.Printf("  detail: %s\n", strings.ReplaceAll(d, "\n", "\n          "))
	}
}

type ReplayFile struct {
	Property string          `json:"property"`
	Key      string          `json:"key"`
	What     string          `json:"what"`
	Detail   string          `json:"detail,omitempty"`
	Case     json.RawMessage `json:"case"`
	How      string          `json:"how_to_replay"`
}

func (c *Check) writeReplay(kase any, f *Failure) string {
	raw, err := json.Marshal(kase)
	if err != nil {
		raw, _ = json.Marshal(fmt.Sprint(kase))
	}
	sum := sha1.Sum(append([]byte(f.Key), raw...))
	dir := filepath.Join(Root, "replays", c.ID)
	os.MkdirAll(dir, 0o755)
	path := filepath.Join(dir, hex.EncodeToString(sum[:6])+".json")
	d := f.Detail
	if len(d) > 4096 {
		d = d[:4096]
	}
	rf := ReplayFile{Property: c.ID, Key: f.Key, What: f.What, Detail: d, Case: raw,
		How: fmt.Sprintf("cd /verif && ./run.sh %s replay %s", c.ID, path)}
	b, _ := json.MarshalIndent(rf, "", " ")
	os.WriteFile(path, b, 0o644)
	return path
}

// LoadReplay reads the case of a replay file into v.
func (c *Check) LoadReplay(v any) {
	b, err := os.ReadFile(c.ReplayFn)
	if err != nil {
		fmt.Fprintln(os.Stderr, err)
		os.Exit(2)
	}
	var rf ReplayFile
	if err := json.Unmarshal(b, &rf); err != nil {
		fmt.Fprintln(os.Stderr, err)
		os.Exit(2)
	}
	if err := json.Unmarshal(rf.Case, v); err != nil {
		fmt.Fprintln(os.Stderr, err)
		os.Exit(2)
	}
}

// ReplayResult prints the outcome of a replay and exits 1 (still fails) or 0.
func (c *Check) ReplayResult(f *Failure) {
	if f != nil {
		fmt.Printf("VIOLATION property=%s replay=%s\n  key=%s what=%s\n  detail: %s\n", c.ID, c.ReplayFn, strconv.Quote(f.Key), f.What, f.Detail)
		os.Exit(1)
	}
	fmt.Printf("REPLAY-OK property=%s case no longer violates\n", c.ID)
	os.Exit(0)
}

// Fatal is a harness error: exit 2, never a verdict.
func (c *Check) Fatal(format string, a ...any) {
	fmt.Fprintf(os.Stderr, "HARNESS-ERROR property=%s: %s\n", c.ID, fmt.Sprintf(format, a...))
	os.Exit(2)
}

// Finish writes the evidence file, prints the summary and exits.
func (c *Check) Finish() {
	c.mu.Lock()
	wall := time.Since(c.start).Seconds()
	cov := map[string]any{}
	for k, v := range c.Extra {
		cov[k] = v
	}
	cov["evaluations"] = c.evals
	cov["distinct_nontrivial"] = int64(len(c.nontriv)) + c.nontrivN
	cov["rule"] = c.Rule
	if len(c.samples) == 0 {
		c.samples = append(c.samples, "none")
	}
	cov["samples"] = c.samples
	cov["exhaustive"] = c.Exhaustive
	if len(c.capNotes) > 0 {
		cov["caps_hit"] = c.capNotes
	}
	if len(c.hist) > 0 {
		cov["outcome_histogram"] = c.hist
	}
	kh := []string{}
	for k := range c.knownHit {
		kh = append(kh, k)
	}
	sort.Strings(kh)
	cov["known_findings_hit"] = kh
	ev := map[string]any{
		"property_id": c.ID, "tier": c.Tier, "seed": c.Seed, "level": c.Level,
		"coverage": cov, "assumptions": c.Assumptions, "wall_s": wall, "violations": len(c.violations),
	}
	if c.Assumptions == nil {
		ev["assumptions"] = []string{}
	}
	b, err := json.MarshalIndent(ev, "", " ")
	if err != nil {
		c.mu.Unlock()
		c.Fatal("evidence: %v", err)
	}
	os.MkdirAll(filepath.Join(Root, "evidence"), 0o755)
	if err := os.WriteFile(filepath.Join(Root, "evidence", c.ID+".json"), append(b, '\n'), 0o644); err != nil {
		c.mu.Unlock()
		c.Fatal("evidence: %v", err)
	}
	nv := len(c.violations)
	fmt.Printf("RESULT property=%s tier=%s evaluations=%d distinct_nontrivial=%d violations=%d known_hit=%d exhaustive=%v wall=%.1fs\n",
		c.ID, c.Tier, c.evals, int64(len(c.nontriv))+c.nontrivN, nv, len(c.knownHit), c.Exhaustive, wall)
	c.mu.Unlock()
	if nv > 0 {
		os.Exit(1)
	}
	os.Exit(0)
}

// Violations returns the number of unlisted violations so far.
func (c *Check) Violations() int {
	c.mu.Lock()
	defer c.mu.Unlock()
	return len(c.violations)
}

// IsKnown reports whether key is a listed known finding of this property.
func (c *Check) IsKnown(key string) bool {
	for _, k := range c.known {
		if k.Key == key {
			return true
		}
	}
	return false
}

// HistSnapshot returns a copy of the outcome histogram.
func (c *Check) HistSnapshot() map[string]int64 {
	c.mu.Lock()
	defer c.mu.Unlock()
	m := make(map[string]int64, len(c.hist))
	for k, v := range c.hist {
		m[k] = v
	}
	return m
}

// DropHist removes histogram keys with the given prefix (used to keep evidence files small).
func (c *Check) DropHist(prefix string) {
	c.mu.Lock()
	defer c.mu.Unlock()
	for k := range c.hist {
		if strings.HasPrefix(k, prefix) {
			delete(c.hist, k)
		}
	}
}

// DeadlineTime returns the internal deadline (worker processes derive it from the parent's start).
func (c *Check) DeadlineTime() time.Time { return c.deadline }

func maxPrinted() int {
	if v, err := strconv.Atoi(os.Getenv("VERIF_MAXPRINT")); err == nil && v > 0 {
		return v
	}
	return 25
}

package engine

import (
	"bufio"
	"bytes"
	"encoding/json"
	"fmt"
	"io"
	"os"
	"os/exec"
	"regexp"
	"runtime"
	"runtime/debug"
	"strconv"
	"strings"
	"sync"
	"syscall"
	"time"
)

// Job is a block-structured exhaustive enumeration evaluated in worker
// subprocesses, so that a fatal error, os.Exit, runaway allocation or hang of
// the library under test is a *result* attributed to one input.
type Job struct {
	NumBlocks int
	// RunBlock evaluates every item of block b. It calls w.Item before each
	// item, w.Fail for a violated item, and the counting methods.
	RunBlock func(w *W, b int)
	// Replay evaluates one item given as JSON (the value passed to w.Item/w.Fail).
	Procs        int
	BlockTimeout time.Duration // no progress line for that long ⇒ hang (parent side)
	ItemTimeout  time.Duration // trace mode
	crashMu      sync.Mutex
	crashTotal   map[string]int // crash key -> items attributed so far (all blocks)
	MemLimitMB   int
}

// W is the worker-side handle.
type W struct {
	trace   bool
	skip    map[int]bool
	out     *bufio.Writer
	evals   int64
	nontriv int64
	hist    map[string]int64
	samples []any
	idx     int
	cur     any
}

type wmsg struct {
	T       string           `json:"t"`
	B       int              `json:"b,omitempty"`
	I       int              `json:"i,omitempty"`
	Case    json.RawMessage  `json:"case,omitempty"`
	F       *Failure         `json:"f,omitempty"`
	Evals   int64            `json:"evals,omitempty"`
	Nontriv int64            `json:"nontriv,omitempty"`
	Hist    map[string]int64 `json:"hist,omitempty"`
	Samples []any            `json:"samples,omitempty"`
}

func (w *W) send(m wmsg) {
	b, _ := json.Marshal(m)
	w.out.Write(b)
	w.out.WriteByte('\n')
}

// Item announces the next item; it returns false when the item must be skipped
// (already attributed a crash). kase is only serialised in trace mode.
func (w *W) Item(kase any) bool {
	i := w.idx
	w.idx++
	w.cur = kase
	if w.skip[i] {
		return false
	}
	if w.trace {
		raw, _ := json.Marshal(kase)
		w.send(wmsg{T: "I", I: i, Case: raw})
		w.out.Flush()
	}
	w.evals++
	return true
}

func (w *W) Fail(kase any, f *Failure) {
	raw, _ := json.Marshal(kase)
	w.send(wmsg{T: "F", Case: raw, F: f})
}
func (w *W) Nontrivial() { w.nontriv++ }

// CountEval counts one more evaluation inside the current item.
func (w *W) CountEval()              { w.evals++ }
func (w *W) Hist(k string)           { w.hist[k]++ }
func (w *W) HistN(k string, n int64) { w.hist[k] += n }
func (w *W) Sample(v any) {
	if len(w.samples) < 3 {
		w.samples = append(w.samples, v)
	}
}

// Run executes the job: in worker mode it serves blocks and exits; otherwise it
// drives the pool and merges results into c.
func (j *Job) Run(c *Check) {
	if j.Procs == 0 {
		j.Procs = runtime.NumCPU()
	}
	if j.BlockTimeout == 0 {
		j.BlockTimeout = 300 * time.Second
	}
	if j.ItemTimeout == 0 {
		j.ItemTimeout = 60 * time.Second
	}
	if j.MemLimitMB == 0 {
		j.MemLimitMB = 3000
	}
	if c.IsWorker() {
		j.serve()
		os.Exit(0)
	}
	j.drive(c)
}

// worker args: worker <k> <P> <from> | worker only <b> <skipcsv>
func (j *Job) serve() {
	// The protocol gets a private copy of stdout; fd 1 is pointed at /dev/null so
	// that library code printing to stdout (parser Trace mode ...) cannot corrupt it.
	pfd, err := syscall.Dup(1)
	if err != nil {
		fmt.Fprintln(os.Stderr, "dup:", err)
		os.Exit(2)
	}
	if dn, err := os.OpenFile("/dev/null", os.O_WRONLY, 0); err == nil {
		syscall.Dup2(int(dn.Fd()), 1)
	}
	w := &W{out: bufio.NewWriterSize(os.NewFile(uintptr(pfd), "protocol"), 1<<16), hist: map[string]int64{}, skip: map[int]bool{}}
	debug.SetMemoryLimit(int64(j.MemLimitMB) << 20 * 3 / 4)
	go func() { // memory watchdog
		var ms runtime.MemStats
		for {
			time.Sleep(50 * time.Millisecond)
			runtime.ReadMemStats(&ms)
			if ms.HeapAlloc > uint64(j.MemLimitMB)<<20 {
				fmt.Fprintf(os.Stderr, "fatal error: verif memory watchdog: heap %d MB\n", ms.HeapAlloc>>20)
				buf := make([]byte, 1<<16)
				n := runtime.Stack(buf, true)
				os.Stderr.Write(buf[:n])
				os.Exit(4)
			}
		}
	}()
	args := os.Args[2:]
	runOne := func(b int) {
		w.idx = 0
		w.evals, w.nontriv, w.hist, w.samples = 0, 0, map[string]int64{}, nil
		w.send(wmsg{T: "B", B: b})
		w.out.Flush()
		j.RunBlock(w, b)
		w.send(wmsg{T: "E", B: b, Evals: w.evals, Nontriv: w.nontriv, Hist: w.hist, Samples: w.samples})
		w.out.Flush()
	}
	if args[0] == "only" {
		b, _ := strconv.Atoi(args[1])
		w.trace = true
		if len(args) > 2 && args[2] != "" {
			for _, s := range strings.Split(args[2], ",") {
				n, _ := strconv.Atoi(s)
				w.skip[n] = true
			}
		}
		runOne(b)
		return
	}
	k, _ := strconv.Atoi(args[0])
	p, _ := strconv.Atoi(args[1])
	from, _ := strconv.Atoi(args[2])
	for b := from; b < j.NumBlocks; b += p {
		_ = k
		runOne(b)
	}
}

type procResult struct {
	crashed   bool
	hang      bool
	lastBlock int
	lastItem  int
	lastCase  json.RawMessage
	stderr    string
	doneBlock map[int]bool
}

func (j *Job) spawn(c *Check, args []string, timeout time.Duration, onMsg func(m *wmsg)) *procResult {
	cmd := exec.Command(os.Args[0], append([]string{"worker"}, args...)...)
	cmd.Env = append(os.Environ(), "VERIF_TIER_W="+c.Tier, "GOTRACEBACK=single")
	stdout, _ := cmd.StdoutPipe()
	var errb capBuf
	cmd.Stderr = &errb
	res := &procResult{lastBlock: -1, lastItem: -1, doneBlock: map[int]bool{}}
	if err := cmd.Start(); err != nil {
		c.Fatal("spawn worker: %v", err)
	}
	progress := make(chan struct{}, 1)
	done := make(chan struct{})
	go func() {
		t := time.NewTimer(timeout)
		for {
			select {
			case <-progress:
				if !t.Stop() {
					select {
					case <-t.C:
					default:
					}
				}
				t.Reset(timeout)
			case <-t.C:
				res.hang = true
				cmd.Process.Kill()
				return
			case <-done:
				return
			}
		}
	}()
	rd := bufio.NewReaderSize(stdout, 1<<20)
	for {
		line, err := rd.ReadBytes('\n')
		if len(line) > 0 {
			var m wmsg
			if json.Unmarshal(line, &m) == nil {
				switch m.T {
				case "B":
					res.lastBlock = m.B
					res.lastItem = -1
				case "I":
					res.lastItem = m.I
					res.lastCase = m.Case
				case "E":
					res.doneBlock[m.B] = true
				}
				onMsg(&m)
				select {
				case progress <- struct{}{}:
				default:
				}
			}
		}
		if err != nil {
			break
		}
	}
	err := cmd.Wait()
	close(done)
	if err != nil || res.hang {
		res.crashed = true
	}
	res.stderr = errb.String()
	return res
}

type capBuf struct {
	head, tail bytes.Buffer
}

func (b *capBuf) Write(p []byte) (int, error) {
	n := len(p)
	if b.head.Len() < 12<<10 {
		room := 12<<10 - b.head.Len()
		if room > len(p) {
			room = len(p)
		}
		b.head.Write(p[:room])
		p = p[room:]
	}
	if len(p) > 0 {
		b.tail.Write(p)
		if b.tail.Len() > 8<<10 {
			t := b.tail.Bytes()
			t = append([]byte(nil), t[len(t)-4<<10:]...)
			b.tail.Reset()
			b.tail.Write(t)
		}
	}
	return n, nil
}
func (b *capBuf) String() string {
	if b.tail.Len() == 0 {
		return b.head.String()
	}
	return b.head.String() + "\n…\n" + b.tail.String()
}

func (j *Job) drive(c *Check) {
	var wg sync.WaitGroup
	var mu sync.Mutex
	merge := func(m *wmsg) {
		switch m.T {
		case "F":
			var k any
			json.Unmarshal(m.Case, &k)
			c.Violate(k, m.F)
		case "E":
			c.Eval(m.Evals)
			c.NontrivialN(m.Nontriv)
			for k, v := range m.Hist {
				c.Hist(k, v)
			}
			for _, s := range m.Samples {
				c.Sample(s)
			}
		}
	}
	p := j.Procs
	if p > j.NumBlocks {
		p = j.NumBlocks
	}
	for k := 0; k < p; k++ {
		wg.Add(1)
		go func(k int) {
			defer wg.Done()
			from := k
			for from < j.NumBlocks {
				if c.Expired() {
					mu.Lock()
					c.Cap(fmt.Sprintf("deadline: worker %d stopped before block %d of %d", k, from, j.NumBlocks))
					mu.Unlock()
					return
				}
				// Buffer F/E messages per block: a block that crashes is re-run
				// in trace mode, so its partial results must not be double counted.
				pending := map[int][]*wmsg{}
				res := j.spawn(c, []string{strconv.Itoa(k), strconv.Itoa(p), strconv.Itoa(from)}, j.BlockTimeout, func(m *wmsg) {
					cp := *m
					switch m.T {
					case "F":
						pending[-1] = append(pending[-1], &cp)
					case "E":
						for _, f := range pending[-1] {
							merge(f)
						}
						delete(pending, -1)
						merge(&cp)
					}
				})
				if !res.crashed {
					return
				}
				if res.lastBlock < 0 {
					c.Fatal("worker died before its first block: %s", res.stderr)
				}
				j.traceBlock(c, res.lastBlock, merge)
				from = res.lastBlock + p
			}
		}(k)
	}
	wg.Wait()
}

// traceBlock re-runs one block with per-item markers, attributing each crash
// to the item being processed, and skipping it on the next attempt.
func (j *Job) traceBlock(c *Check, b int, merge func(m *wmsg)) {
	skip := []string{}
	perKey := map[string]int{}
	for attempt := 0; attempt < 200; attempt++ {
		// A defect that crashes or hangs on a large share of the inputs would cost one item timeout per
		// input: once a key has been attributed a few times in this block, and often enough overall, the
		// violation is established and the rest of the block is skipped (reported as a cap, never as clean).
		j.crashMu.Lock()
		stop := ""
		for k, n := range perKey {
			if n >= 3 || j.crashTotal[k] >= 12 {
				stop = k
			}
		}
		j.crashMu.Unlock()
		if stop != "" {
			c.Cap(fmt.Sprintf("block %d: crash key %q was attributed repeatedly; the rest of the block was not evaluated", b, stop))
			return
		}
		var buffered []*wmsg
		res := j.spawn(c, []string{"only", strconv.Itoa(b), strings.Join(skip, ",")}, j.ItemTimeout, func(m *wmsg) {
			cp := *m
			if m.T == "F" || m.T == "E" {
				buffered = append(buffered, &cp)
			}
		})
		if !res.crashed {
			for _, m := range buffered {
				merge(m)
			}
			return
		}
		if res.lastItem < 0 {
			c.Fatal("block %d crashed outside any item: %s", b, res.stderr)
		}
		f := ClassifyCrash(res.stderr, res.hang)
		var k any
		json.Unmarshal(res.lastCase, &k)
		// confirm solo 2 more times for hangs (rule 2): a slow machine must not alarm
		c.Violate(k, f)
		c.Hist("crash:"+f.Key, 1)
		perKey[f.Key]++
		j.crashMu.Lock()
		if j.crashTotal == nil {
			j.crashTotal = map[string]int{}
		}
		j.crashTotal[f.Key]++
		j.crashMu.Unlock()
		skip = append(skip, strconv.Itoa(res.lastItem))
	}
	c.Cap(fmt.Sprintf("block %d: more than 200 crashing items, rest of block not evaluated", b))
}

var reFrame = regexp.MustCompile(`(?m)^(github\.com/goplus/xgo/[^\s(]+(?:\([^)]*\))?[^\s(]*)\(`)
var reFrame2 = regexp.MustCompile(`(?m)^(github\.com/goplus/xgo/\S+?)\(`)

// ClassifyCrash turns a crash dump into a Failure keyed by kind and the
// innermost goplus/xgo function on the stack.
func ClassifyCrash(stderr string, hang bool) *Failure {
	kind := "exit"
	msg := ""
	for _, l := range strings.Split(stderr, "\n") {
		if strings.HasPrefix(l, "panic: ") || strings.HasPrefix(l, "fatal error: ") {
			msg = l
			if strings.HasPrefix(l, "panic: ") {
				kind = "panic"
			} else {
				kind = "fatal"
			}
			break
		}
	}
	if strings.Contains(stderr, "stack overflow") || strings.Contains(stderr, "stack exceeds") {
		kind, msg = "fatal", "fatal error: stack overflow"
	}
	if hang {
		kind, msg = "hang", "no progress within the per-item time limit"
	}
	fn := TopFrame(stderr)
	if msg == "" {
		msg = firstLine(stderr)
	}
	if strings.Contains(msg, "memory watchdog") {
		kind, msg = "oom", "runaway allocation (memory watchdog)"
	}
	return &Failure{Key: kind + "@" + fn, What: msg, Detail: truncate(stderr, 3000)}
}

// TopFrame returns the innermost stack frame inside goplus/xgo.
func TopFrame(stack string) string {
	// with re-panicking deferred functions the original panic is the last "panic(" frame
	if i := strings.LastIndex(stack, "\npanic("); i >= 0 {
		stack = stack[i:]
	}
	for _, l := range strings.Split(stack, "\n") {
		l = strings.TrimSpace(l)
		if strings.HasPrefix(l, "github.com/goplus/xgo/") {
			if i := strings.LastIndex(l, "("); i > 0 {
				l = l[:i]
			}
			l = strings.TrimPrefix(l, "github.com/goplus/xgo/")
			return l
		}
	}
	return "?"
}

func firstLine(s string) string {
	s = strings.TrimSpace(s)
	if i := strings.IndexByte(s, '\n'); i >= 0 {
		s = s[:i]
	}
	return truncate(s, 200)
}

func truncate(s string, n int) string {
	if len(s) > n {
		return s[:n] + "…"
	}
	return s
}

// Guard runs f and converts an escaping panic into a Failure keyed by the
// innermost goplus/xgo frame.
func Guard(f func()) (fail *Failure) {
	defer func() {
		if e := recover(); e != nil {
			st := string(debug.Stack())
			// drop the frames of the recover machinery: keep from the first "panic(" line
			if i := strings.Index(st, "\npanic("); i >= 0 {
				st = st[i:]
			}
			msg := truncate(fmt.Sprint(e), 200)
			fail = &Failure{Key: "panic@" + TopFrame(st), What: "panic: " + msg, Detail: truncate(st, 2500)}
		}
	}()
	f()
	return nil
}

var _ = io.EOF

// Command rewrite: rewrite -out <dir> <pkgdir>... ; writes <dir>/overlay.json.
package main

import (
	"flag"
	"fmt"
	"os"
	"path/filepath"
	"strings"

	"verif/engine/rewrite"
)

func main() {
	out := flag.String("out", "", "output directory")
	mr := flag.String("maprange", "", "comma-separated range operands (maps) whose iteration order is explored")
	ms := flag.String("mapsorted", "", "comma-separated range operands (maps) iterated in sorted key order")
	flag.Parse()
	for _, m := range strings.Split(*mr, ",") {
		if m != "" {
			rewrite.MapRange[m] = "choose"
		}
	}
	for _, m := range strings.Split(*ms, ",") {
		if m != "" {
			rewrite.MapRange[m] = "sorted"
		}
	}
	if *out == "" || flag.NArg() == 0 {
		fmt.Fprintln(os.Stderr, "usage: rewrite -out <dir> <pkgdir>...")
		os.Exit(2)
	}
	abs, _ := filepath.Abs(*out)
	os.RemoveAll(abs)
	ov := map[string]string{}
	for _, d := range flag.Args() {
		if err := rewrite.Package(d, abs, ov); err != nil {
			fmt.Fprintln(os.Stderr, "rewrite:", err)
			os.Exit(2)
		}
	}
	if err := rewrite.WriteOverlay(filepath.Join(abs, "overlay.json"), ov); err != nil {
		fmt.Fprintln(os.Stderr, err)
		os.Exit(2)
	}
	fmt.Printf("rewrote %d files into %s\n", len(ov), abs)
}

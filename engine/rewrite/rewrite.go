// Package rewrite turns the synchronisation constructs of a Go package (chan types and
// operations, select, go, and the sync / sync/atomic / context imports) into calls of the
// virtual runtime verif/engine/vrt. The result is passed to `go build -overlay`, so the
// repository itself is never modified; the rewritten text is regenerated from the working
// tree on every build.
package rewrite

import (
	"bytes"
	"encoding/json"
	"fmt"
	"go/ast"
	"go/format"
	"go/parser"
	"go/token"
	"os"
	"path/filepath"
	"reflect"
	"strconv"
	"strings"
)

// MapRange lists the (printed) operand expressions of `range` statements over maps whose
// iteration order the explorer must own.
var MapRange = map[string]string{} // operand -> "choose" | "sorted"

func exprString(e ast.Expr) string {
	var b bytes.Buffer
	format.Node(&b, token.NewFileSet(), e)
	return b.String()
}

var importMap = map[string][2]string{
	"sync":        {"sync", "verif/engine/vrt/vsync"},
	"sync/atomic": {"atomic", "verif/engine/vrt/vatomic"},
	"context":     {"context", "verif/engine/vrt/vcontext"},
}

type rewriter struct {
	fset    *token.FileSet
	n       int
	usesVrt bool
	file    string
	selBlk  map[*ast.BlockStmt]bool
	touched bool
	err     error
}

func id(s string) *ast.Ident   { return ast.NewIdent(s) }
func sel(x, s string) ast.Expr { return &ast.SelectorExpr{X: id(x), Sel: id(s)} }
func call(fun ast.Expr, args ...ast.Expr) *ast.CallExpr {
	return &ast.CallExpr{Fun: fun, Args: args}
}
func method(x ast.Expr, m string, args ...ast.Expr) *ast.CallExpr {
	return call(&ast.SelectorExpr{X: x, Sel: id(m)}, args...)
}

func (r *rewriter) fresh(p string) string { r.n++; return fmt.Sprintf("__%s%d", p, r.n) }

var (
	tExpr = reflect.TypeOf((*ast.Expr)(nil)).Elem()
	tStmt = reflect.TypeOf((*ast.Stmt)(nil)).Elem()
	tDecl = reflect.TypeOf((*ast.Decl)(nil)).Elem()
	tSpec = reflect.TypeOf((*ast.Spec)(nil)).Elem()
	tNode = reflect.TypeOf((*ast.Node)(nil)).Elem()
)

// walk rewrites the children of n in place and returns the replacement for n itself.
func (r *rewriter) walk(n ast.Node) ast.Node {
	if n == nil || reflect.ValueOf(n).IsNil() {
		return n
	}
	r.pre(n)
	v := reflect.ValueOf(n).Elem()
	if v.Kind() == reflect.Struct {
		for i := 0; i < v.NumField(); i++ {
			f := v.Field(i)
			if !f.CanSet() {
				continue
			}
			switch f.Kind() {
			case reflect.Interface, reflect.Ptr:
				if f.IsNil() {
					continue
				}
				c, ok := f.Interface().(ast.Node)
				if !ok {
					continue
				}
				if _, isObj := f.Interface().(*ast.Object); isObj {
					continue
				}
				if _, isScope := f.Interface().(*ast.Scope); isScope {
					continue
				}
				nc := r.walk(c)
				if nc != c {
					nv := reflect.ValueOf(nc)
					if !nv.Type().AssignableTo(f.Type()) {
						r.err = fmt.Errorf("%s: cannot place %T into %s.%s", r.file, nc, v.Type(), v.Type().Field(i).Name)
						continue
					}
					f.Set(nv)
				}
			case reflect.Slice:
				for j := 0; j < f.Len(); j++ {
					e := f.Index(j)
					if e.Kind() != reflect.Interface && e.Kind() != reflect.Ptr || e.IsNil() {
						continue
					}
					c, ok := e.Interface().(ast.Node)
					if !ok {
						continue
					}
					nc := r.walk(c)
					if nc != c {
						nv := reflect.ValueOf(nc)
						if !nv.Type().AssignableTo(e.Type()) {
							r.err = fmt.Errorf("%s: cannot place %T into slice of %s", r.file, nc, e.Type())
							continue
						}
						e.Set(nv)
					}
				}
			}
		}
	}
	return r.post(n)
}

// pre turns the communication clauses of a select into marker calls so that the generic
// send/receive rules do not touch them.
func (r *rewriter) pre(n ast.Node) {
	s, ok := n.(*ast.SelectStmt)
	if !ok {
		return
	}
	for _, c := range s.Body.List {
		cc := c.(*ast.CommClause)
		switch m := cc.Comm.(type) {
		case *ast.SendStmt:
			cc.Comm = &ast.ExprStmt{X: call(id("__vrt_send"), m.Chan, m.Value)}
		case *ast.ExprStmt:
			if u, ok := m.X.(*ast.UnaryExpr); ok && u.Op == token.ARROW {
				m.X = call(id("__vrt_recv"), u.X)
			}
		case *ast.AssignStmt:
			if u, ok := m.Rhs[0].(*ast.UnaryExpr); ok && u.Op == token.ARROW {
				m.Rhs[0] = call(id("__vrt_recv"), u.X)
			}
		}
	}
}

func isMarker(e ast.Expr, name string) (*ast.CallExpr, bool) {
	c, ok := e.(*ast.CallExpr)
	if !ok {
		return nil, false
	}
	i, ok := c.Fun.(*ast.Ident)
	return c, ok && i.Name == name
}

func (r *rewriter) chanType(t *ast.ChanType) ast.Expr {
	r.usesVrt = true
	return &ast.StarExpr{X: &ast.IndexExpr{X: sel("vrt", "Chan"), Index: t.Value}}
}

func (r *rewriter) post(n ast.Node) ast.Node {
	switch x := n.(type) {
	case *ast.ChanType:
		return r.chanType(x)
	case *ast.CallExpr:
		if f, ok := x.Fun.(*ast.Ident); ok {
			switch f.Name {
			case "make":
				// after the post-order rewrite the element type is already *vrt.Chan[T]
				if len(x.Args) >= 1 {
					if st, ok := x.Args[0].(*ast.StarExpr); ok {
						if ix, ok := st.X.(*ast.IndexExpr); ok {
							if s, ok := ix.X.(*ast.SelectorExpr); ok && s.Sel.Name == "Chan" {
								if p, ok := s.X.(*ast.Ident); ok && p.Name == "vrt" {
									var n ast.Expr = &ast.BasicLit{Kind: token.INT, Value: "0"}
									if len(x.Args) == 2 {
										n = x.Args[1]
									}
									return call(&ast.IndexExpr{X: sel("vrt", "NewChan"), Index: ix.Index}, n)
								}
							}
						}
					}
				}
			case "close":
				if len(x.Args) == 1 {
					r.touched = true
					return method(x.Args[0], "Close")
				}
			}
		}
	case *ast.SendStmt:
		r.touched = true
		return &ast.ExprStmt{X: method(x.Chan, "Send", x.Value)}
	case *ast.UnaryExpr:
		if x.Op == token.ARROW {
			c := method(x.X, "Recv")
			recvCalls[c] = true
			r.touched = true
			return c
		}
	case *ast.AssignStmt:
		if len(x.Lhs) == 2 && len(x.Rhs) == 1 {
			if c, ok := x.Rhs[0].(*ast.CallExpr); ok {
				if s, ok := c.Fun.(*ast.SelectorExpr); ok && s.Sel.Name == "Recv" && len(c.Args) == 0 && r.isRecvCall(c) {
					s.Sel = id("Recv2")
				}
			}
		}
	case *ast.ValueSpec:
		if len(x.Names) == 2 && len(x.Values) == 1 {
			if c, ok := x.Values[0].(*ast.CallExpr); ok {
				if s, ok := c.Fun.(*ast.SelectorExpr); ok && s.Sel.Name == "Recv" && len(c.Args) == 0 && r.isRecvCall(c) {
					s.Sel = id("Recv2")
				}
			}
		}
	case *ast.GoStmt:
		return r.goStmt(x)
	case *ast.SelectStmt:
		return r.selectStmt(x)
	case *ast.LabeledStmt:
		if b, ok := x.Stmt.(*ast.BlockStmt); ok && r.selBlk[b] {
			// move the label onto the generated switch so that `break L` keeps working
			last := len(b.List) - 1
			b.List[last] = &ast.LabeledStmt{Label: x.Label, Stmt: b.List[last]}
			return b
		}
	case *ast.RangeStmt:
		// Ranging over a channel cannot be recognised without type information; the packages under
		// test do not do it. Ranging over a *map* named with -maprange is owned by the explorer:
		// `for k = range m` becomes `for _, k = range vrt.MapKeys(m)` (explored choice of the first key).
		if mode := MapRange[exprString(x.X)]; mode != "" {
			fn := "MapKeys"
			if mode == "sorted" {
				fn = "MapKeysSorted"
			}
			r.usesVrt = true
			r.touched = true
			m := x.X
			isBlank := func(e ast.Expr) bool { i, ok := e.(*ast.Ident); return ok && i.Name == "_" }
			switch {
			case x.Key != nil && x.Value == nil: // for k := range m
				x.Value, x.Key = x.Key, id("_")
			case x.Key != nil && isBlank(x.Key): // for _, v := range m
				k := id(r.fresh("k"))
				bind := &ast.AssignStmt{Lhs: []ast.Expr{x.Value}, Tok: x.Tok, Rhs: []ast.Expr{&ast.IndexExpr{X: m, Index: k}}}
				x.Body.List = append([]ast.Stmt{bind}, x.Body.List...)
				x.Value, x.Tok = k, token.DEFINE
			default: // for k, v := range m
				bind := &ast.AssignStmt{Lhs: []ast.Expr{x.Value}, Tok: x.Tok, Rhs: []ast.Expr{&ast.IndexExpr{X: m, Index: x.Key}}}
				x.Body.List = append([]ast.Stmt{bind}, x.Body.List...)
				x.Value, x.Key = x.Key, id("_")
			}
			x.X = call(sel("vrt", fn), m)
		}
	}
	return n
}

// recvCalls remembers the CallExprs this rewriter generated for `<-c`.
var recvCalls = map[*ast.CallExpr]bool{}

func (r *rewriter) isRecvCall(c *ast.CallExpr) bool { return recvCalls[c] }

func (r *rewriter) goStmt(g *ast.GoStmt) ast.Stmt {
	r.usesVrt = true
	pos := r.fset.Position(g.Go)
	name := &ast.BasicLit{Kind: token.STRING, Value: strconv.Quote(fmt.Sprintf("go@%s:%d", filepath.Base(pos.Filename), pos.Line))}
	c := g.Call
	if fl, ok := c.Fun.(*ast.FuncLit); ok && len(c.Args) == 0 {
		return &ast.ExprStmt{X: call(sel("vrt", "Go"), name, fl)}
	}
	var pre []ast.Stmt
	fun := c.Fun
	if _, ok := fun.(*ast.FuncLit); !ok {
		f := r.fresh("f")
		pre = append(pre, &ast.AssignStmt{Lhs: []ast.Expr{id(f)}, Tok: token.DEFINE, Rhs: []ast.Expr{fun}})
		fun = id(f)
	}
	var args []ast.Expr
	for _, a := range c.Args {
		if _, lit := a.(*ast.BasicLit); lit {
			args = append(args, a)
			continue
		}
		v := r.fresh("a")
		pre = append(pre, &ast.AssignStmt{Lhs: []ast.Expr{id(v)}, Tok: token.DEFINE, Rhs: []ast.Expr{a}})
		args = append(args, id(v))
	}
	inner := &ast.CallExpr{Fun: fun, Args: args, Ellipsis: c.Ellipsis}
	body := &ast.FuncLit{Type: &ast.FuncType{Params: &ast.FieldList{}}, Body: &ast.BlockStmt{List: []ast.Stmt{&ast.ExprStmt{X: inner}}}}
	pre = append(pre, &ast.ExprStmt{X: call(sel("vrt", "Go"), name, body)})
	return &ast.BlockStmt{List: pre}
}

func (r *rewriter) selectStmt(s *ast.SelectStmt) ast.Stmt {
	r.usesVrt = true
	selVar := r.fresh("sel")
	hasDefault := "false"
	for _, c := range s.Body.List {
		if c.(*ast.CommClause).Comm == nil {
			hasDefault = "true"
		}
	}
	blk := &ast.BlockStmt{}
	blk.List = append(blk.List, &ast.AssignStmt{Lhs: []ast.Expr{id(selVar)}, Tok: token.DEFINE, Rhs: []ast.Expr{call(sel("vrt", "NewSel"), id(hasDefault))}})
	sw := &ast.SwitchStmt{Tag: method(id(selVar), "Run"), Body: &ast.BlockStmt{}}
	idx := 0
	for _, c := range s.Body.List {
		cc := c.(*ast.CommClause)
		clause := &ast.CaseClause{}
		if cc.Comm == nil {
			clause.Body = cc.Body
			sw.Body.List = append(sw.Body.List, clause)
			continue
		}
		clause.List = []ast.Expr{&ast.BasicLit{Kind: token.INT, Value: strconv.Itoa(idx)}}
		idx++
		var bind ast.Stmt
		switch m := cc.Comm.(type) {
		case *ast.ExprStmt:
			if c, ok := isMarker(m.X, "__vrt_send"); ok {
				blk.List = append(blk.List, &ast.ExprStmt{X: call(sel("vrt", "AddSend"), id(selVar), c.Args[0], c.Args[1])})
			} else if c, ok := isMarker(m.X, "__vrt_recv"); ok {
				blk.List = append(blk.List, &ast.ExprStmt{X: call(sel("vrt", "AddRecv"), id(selVar), c.Args[0])})
			} else {
				r.err = fmt.Errorf("%s: unsupported select communication %T", r.file, m.X)
			}
		case *ast.AssignStmt:
			c, ok := isMarker(m.Rhs[0], "__vrt_recv")
			if !ok {
				r.err = fmt.Errorf("%s: unsupported select assignment", r.file)
				break
			}
			rv := r.fresh("r")
			blk.List = append(blk.List, &ast.AssignStmt{Lhs: []ast.Expr{id(rv)}, Tok: token.DEFINE, Rhs: []ast.Expr{call(sel("vrt", "AddRecv"), id(selVar), c.Args[0])}})
			rhs := []ast.Expr{method(id(rv), "Val")}
			if len(m.Lhs) == 2 {
				rhs = append(rhs, method(id(rv), "Ok"))
			}
			bind = &ast.AssignStmt{Lhs: m.Lhs, Tok: m.Tok, Rhs: rhs}
		}
		if bind != nil {
			clause.Body = append([]ast.Stmt{bind}, cc.Body...)
		} else {
			clause.Body = cc.Body
		}
		sw.Body.List = append(sw.Body.List, clause)
	}
	if hasDefault == "false" {
		// keeps the statement terminating when every case returns, as the select was
		sw.Body.List = append(sw.Body.List, &ast.CaseClause{Body: []ast.Stmt{&ast.ExprStmt{X: call(id("panic"), &ast.BasicLit{Kind: token.STRING, Value: strconv.Quote("vrt: select without default returned no case")})}}})
	}
	blk.List = append(blk.List, sw)
	if r.selBlk == nil {
		r.selBlk = map[*ast.BlockStmt]bool{}
	}
	r.selBlk[blk] = true
	return blk
}

// File rewrites one source file; it returns nil when nothing had to change.
func File(path string) ([]byte, error) {
	fset := token.NewFileSet()
	f, err := parser.ParseFile(fset, path, nil, parser.ParseComments)
	if err != nil {
		return nil, err
	}
	r := &rewriter{fset: fset, file: path}
	changedImports := false
	for _, im := range f.Imports {
		p, _ := strconv.Unquote(im.Path.Value)
		if m, ok := importMap[p]; ok {
			im.Path.Value = strconv.Quote(m[1])
			if im.Name == nil {
				im.Name = id(m[0])
			}
			changedImports = true
		}
	}
	// mark receive expressions before the generic pass turns them into calls
	ast.Inspect(f, func(n ast.Node) bool { return true })
	for i, d := range f.Decls {
		nd := r.walkMark(d)
		f.Decls[i] = nd.(ast.Decl)
	}
	if r.err != nil {
		return nil, r.err
	}
	if !r.usesVrt && !changedImports && r.n == 0 && !r.touched {
		return nil, nil
	}
	if r.usesVrt {
		// add the import as its own declaration right after the package clause
		spec := &ast.ImportSpec{Path: &ast.BasicLit{Kind: token.STRING, Value: strconv.Quote("verif/engine/vrt")}}
		f.Decls = append([]ast.Decl{&ast.GenDecl{Tok: token.IMPORT, Specs: []ast.Spec{spec}}}, f.Decls...)
	}
	var buf bytes.Buffer
	f.Comments = nil // positions of comments no longer match; build tags are not used in these packages
	if err := format.Node(&buf, fset, f); err != nil {
		return nil, err
	}
	// The rewritten text uses generics helpers whose constraints need a newer language version than
	// the repository's go.mod may declare; a file-level build constraint raises it for this file only.
	return append([]byte("//go:build go1.21\n\n"), buf.Bytes()...), nil
}

func (r *rewriter) walkMark(d ast.Decl) ast.Node {
	// record which Recv calls come from `<-c` by rewriting through post(); isRecvCall consults recvCalls
	return r.walkTracking(d)
}

func (r *rewriter) walkTracking(n ast.Node) ast.Node {
	return r.walk(n)
}

// Package rewrites every non-test Go file of dir into outDir and returns the overlay map.
func Package(dir, outDir string, overlay map[string]string) error {
	ents, err := os.ReadDir(dir)
	if err != nil {
		return err
	}
	if err := os.MkdirAll(outDir, 0o755); err != nil {
		return err
	}
	for _, e := range ents {
		name := e.Name()
		if e.IsDir() || !strings.HasSuffix(name, ".go") || strings.HasSuffix(name, "_test.go") {
			continue
		}
		src := filepath.Join(dir, name)
		out, err := File(src)
		if err != nil {
			return fmt.Errorf("%s: %w", src, err)
		}
		if out == nil {
			continue
		}
		dst := filepath.Join(outDir, strings.ReplaceAll(strings.TrimPrefix(dir, "/"), "/", "_")+"_"+name)
		if err := os.WriteFile(dst, out, 0o644); err != nil {
			return err
		}
		overlay[src] = dst
	}
	return nil
}

// WriteOverlay writes the overlay JSON for `go build -overlay`.
func WriteOverlay(path string, overlay map[string]string) error {
	b, _ := json.MarshalIndent(map[string]any{"Replace": overlay}, "", " ")
	return os.WriteFile(path, b, 0o644)
}

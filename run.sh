#!/bin/bash
# usage: ./run.sh <Cnn> quick|thorough|replay <file>
# Rebuilds the check against /repo's working tree on every call.
set -u
cd "$(dirname "$(readlink -f "$0")")"
export VERIF_ROOT="$PWD"
export GOFLAGS=-mod=mod GOPROXY=off GOSUMDB=off GOTOOLCHAIN=local
id="$1"; shift
lc=$(echo "$id" | tr 'A-Z' 'a-z')
mkdir -p bin evidence replays
if ! ./build.sh "$lc" 2>bin/$lc.buildlog; then
  cat bin/$lc.buildlog >&2
  echo "BUILD-FAILED property=$id (the tree or the harness does not compile; no verdict)"
  exit 2
fi
exec "bin/$lc" "$@"

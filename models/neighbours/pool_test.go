package neighbours

import (
	"go/ast"
	"go/parser"
	"go/token"
	"go/types"
	"testing"

	"github.com/goplus/gogen/packages"
	"verif/progs"
)

// Every hand-written seed compiles with the XGo compiler and yields Go accepted by go/types.
func TestPoolValid(t *testing.T) {
	fset := token.NewFileSet()
	imp := packages.NewImporter(fset)
	seen := map[string]bool{}
	total := 0
	for _, p := range Hand() {
		if seen[p.Name] {
			t.Errorf("duplicate name %s", p.Name)
		}
		seen[p.Name] = true
		out, err := progs.CompileXGo(p.File, p.Src, nil)
		if err != nil {
			t.Errorf("%s: does not compile: %v\n%s", p.Name, err, p.Src)
			continue
		}
		f, err := parser.ParseFile(fset, p.Name+".go", out, 0)
		if err != nil {
			t.Errorf("%s: output does not parse: %v", p.Name, err)
			continue
		}
		conf := types.Config{Importer: imp, GoVersion: "go1.23"}
		if _, err := conf.Check("main", fset, []*ast.File{f}, nil); err != nil {
			t.Errorf("%s: go/types rejects: %v\n%s", p.Name, err, out)
		}
		n := len(Neighbours(p.Src))
		total += n
		t.Logf("%-22s tokens=%3d neighbours=%4d", p.Name, p.NTok, n)
	}
	t.Logf("programs=%d neighbours=%d", len(Hand()), total)
}

func TestDropReturn(t *testing.T) {
	src := "func f() int {\n\treturn g(1,\n\t\t2)\n}\nfunc h() { return }\n"
	var got []string
	for _, m := range Neighbours(src) {
		if m.Edit.Kind == "drop-return" {
			got = append(got, m.Src)
		}
	}
	want := []string{"func f() int {\n\t\n}\nfunc h() { return }\n", "func f() int {\n\treturn g(1,\n\t\t2)\n}\nfunc h() { }\n"}
	if len(got) != 2 || got[0] != want[0] || got[1] != want[1] {
		t.Fatalf("got %q", got)
	}
}

func TestApply(t *testing.T) {
	src := "a := 1\nprintln a\n"
	for _, m := range Neighbours(src) {
		s, ok := Apply(src, m.Edit)
		if !ok || s != m.Src {
			t.Fatalf("apply %+v", m.Edit)
		}
	}
}

package neighbours

import (
	"path/filepath"
	"sort"

	"verif/corpus"
)

// Prog is one seed program: a single-file package.
type Prog struct {
	Name string `json:"name"`
	File string `json:"file"` // file name inside the package directory (main.xgo, Rect.gox ...)
	Src  string `json:"src"`
	NTok int    `json:"ntok"`
}

// Hand returns the hand-written seed programs (all compile with the XGo compiler and the Go they
// yield builds), ordered by token count (simplest first).
func Hand() []Prog {
	var out []Prog
	for _, p := range handProgs {
		f := p.file
		if f == "" {
			f = "main.xgo"
		}
		out = append(out, Prog{Name: p.name, File: f, Src: p.src, NTok: len(Tokens(p.src))})
	}
	sortProgs(out)
	return out
}

// Corpus returns repository XGo files (golden compiler inputs and demos) of at most maxBytes.
func Corpus(maxBytes int, patterns ...string) []Prog {
	if len(patterns) == 0 {
		patterns = []string{"cl/_testgop/*/in.xgo", "demo/*/*.xgo"}
	}
	names, srcs := corpus.Files(maxBytes, patterns...)
	var out []Prog
	for i, n := range names {
		rel, _ := filepath.Rel("/repo", n)
		out = append(out, Prog{Name: "repo:" + rel, File: "main.xgo", Src: srcs[i], NTok: len(Tokens(srcs[i]))})
	}
	sortProgs(out)
	return out
}

func sortProgs(p []Prog) {
	sort.SliceStable(p, func(i, j int) bool {
		if p[i].NTok != p[j].NTok {
			return p[i].NTok < p[j].NTok
		}
		return p[i].Name < p[j].Name
	})
}

type hp struct{ name, file, src string }

var handProgs = []hp{
	{"decl-short", "", "a := 1\nb := a + 2\nprintln a, b\n"},
	{"decl-var", "", "var x int = 3\nvar y = \"s\"\nvar z float64\nprintln x, y, z\n"},
	{"decl-const", "", "const k = 10\n\nconst (\n\tm = iota\n\tn\n)\n\nprintln k, m, n\n"},
	{"decl-var-block", "", "var (\n\ta = 1\n\tb, c int\n\td string = \"d\"\n)\n\nprintln a, b, c, d\n"},
	{"decl-multi", "", "a, b := 1, \"two\"\nc, d := b, a\na, c = d, \"x\"\nprintln a, b, c, d\n"},
	{"decl-typed-const", "", "type Level int\n\nconst (\n\tLow Level = iota + 1\n\tHigh\n)\n\nvar cur Level = High\nprintln cur > Low, Low\n"},
	{"decl-global-init", "", "var total = base * 2\nvar base = 21\n\nfunc init() {\n\ttotal++\n}\n\nprintln total, base\n"},
	{"func-add", "", "func add(a, b int) int {\n\treturn a + b\n}\n\nprintln add(1, 2)\n"},
	{"func-two-results", "", "import \"errors\"\n\nfunc div(a, b int) (int, error) {\n\tif b == 0 {\n\t\treturn 0, errors.New(\"div by zero\")\n\t}\n\treturn a / b, nil\n}\n\nq, err := div(6, 3)\nprintln q, err\n"},
	{"func-named-result", "", "func split(n int) (lo, hi int) {\n\tlo = n % 10\n\thi = n / 10\n\treturn\n}\n\na, b := split(42)\nprintln a, b\n"},
	{"func-recursive", "", "func fib(n int) int {\n\tif n < 2 {\n\t\treturn n\n\t}\n\treturn fib(n-1) + fib(n-2)\n}\n\nprintln fib(10)\n"},
	{"func-variadic", "", "func sum(xs ...int) int {\n\tt := 0\n\tfor x <- xs {\n\t\tt += x\n\t}\n\treturn t\n}\n\nprintln sum(1, 2, 3), sum([4, 5]...)\n"},
	{"func-value", "", "func twice(f func(int) int, x int) int {\n\treturn f(f(x))\n}\n\ninc := func(n int) int {\n\treturn n + 1\n}\nprintln twice(inc, 3)\n"},
	{"func-no-result", "", "func show(s string, n int) {\n\tif n <= 0 {\n\t\treturn\n\t}\n\tprintln s\n\tshow(s, n-1)\n}\n\nshow \"hi\", 2\n"},
	{"if-else", "", "x := 5\nif x > 3 {\n\tprintln \"big\"\n} else if x > 1 {\n\tprintln \"mid\"\n} else {\n\tprintln \"small\"\n}\n"},
	{"if-init", "", "m := {\"a\": 1}\nif v, ok := m[\"a\"]; ok && v > 0 {\n\tprintln v\n}\n"},
	{"for-classic", "", "sum := 0\nfor i := 0; i < 5; i++ {\n\tif i == 2 {\n\t\tcontinue\n\t}\n\tsum += i\n}\nprintln sum\n"},
	{"for-cond", "", "n := 3\nfor n > 0 {\n\tn--\n}\nprintln n\n"},
	{"for-forever", "", "i := 0\nfor {\n\ti += 2\n\tif i > 5 {\n\t\tbreak\n\t}\n}\nprintln i\n"},
	{"for-range", "", "s := []string{\"a\", \"b\"}\nfor i, v := range s {\n\tprintln i, v\n}\nfor i := range s {\n\tprintln i\n}\n"},
	{"for-in", "", "for i, v <- [\"a\", \"b\"] {\n\tprintln i, v\n}\nfor v in [1, 2] {\n\tprintln v\n}\n"},
	{"for-in-map", "", "m := {\"a\": 1}\nfor k, v <- m {\n\tprintln k, v\n}\n"},
	{"for-in-filter", "", "a := [1, 2, 3, 4]\nfor v <- a if v%2 == 0 {\n\tprintln v\n}\n"},
	{"range-expr", "", "for i <- 0:10:3 {\n\tprintln i\n}\nfor i <- :3 {\n\tprintln i\n}\ns := [i for i <- 1:4]\nprintln s\n"},
	{"range-expr-vars", "", "lo, hi := 1, 7\nstep := 2\nt := 0\nfor i <- lo:hi:step {\n\tt += i\n}\nprintln t\n"},
	{"switch-tag", "", "x := 2\nswitch x {\ncase 1:\n\tprintln \"one\"\ncase 2, 3:\n\tprintln \"two\"\n\tfallthrough\ndefault:\n\tprintln \"other\"\n}\n"},
	{"switch-cond", "", "x := 7\nswitch {\ncase x > 5:\n\tprintln \"gt\"\ncase x < 0:\n\tprintln \"neg\"\n}\n"},
	{"switch-init", "", "switch y := 3 * 2; y {\ncase 6:\n\tprintln \"six\"\ndefault:\n\tprintln y\n}\n"},
	{"type-switch", "", "func kind(v any) string {\n\tswitch x := v.(type) {\n\tcase int:\n\t\treturn \"int ${x}\"\n\tcase string:\n\t\treturn \"string \" + x\n\tdefault:\n\t\treturn \"?\"\n\t}\n}\n\nprintln kind(1), kind(\"s\"), kind(2.5)\n"},
	{"switch-consts", "", "const (\n\tA = iota\n\tB\n)\n\nx := B\nswitch x {\ncase A:\n\tprintln \"a\"\ncase B:\n\tprintln \"b\"\n}\n"},
	{"type-switch-small", "", "var v any = 1\nswitch v.(type) {\ncase int:\n\tprintln \"i\"\ncase string:\n\tprintln \"s\"\n}\n"},
	{"map-lit-typed", "", "m := map[string]int{\"a\": 1, \"b\": 2}\nk := \"a\"\nprintln m[k], len(m)\n"},
	{"blank-assign", "", "func two() (int, int) {\n\treturn 1, 2\n}\n\n_, b := two()\nprintln b\n"},
	{"type-assert", "", "var v any = 3\nn, ok := v.(int)\nprintln n, ok\ns := v.(int) + 1\nprintln s\n"},
	{"closure-counter", "", "func counter() func() int {\n\tc := 0\n\treturn func() int {\n\t\tc++\n\t\treturn c\n\t}\n}\n\nf := counter()\nprintln f(), f()\n"},
	{"closure-capture", "", "fs := []func() int{}\nfor i := 0; i < 2; i++ {\n\tj := i * 10\n\tfs = append(fs, func() int {\n\t\treturn j\n\t})\n}\nprintln fs[0](), fs[1]()\n"},
	{"struct-methods", "", "type Point struct {\n\tX, Y int\n}\n\nfunc (p Point) Sum() int {\n\treturn p.X + p.Y\n}\n\nfunc (p *Point) Move(dx int) {\n\tp.X += dx\n}\n\np := Point{1, 2}\np.Move(3)\nprintln p.Sum()\n"},
	{"struct-literal", "", "type T struct {\n\tName string\n\tAge  int\n}\n\nt := T{Name: \"a\", Age: 3}\nu := &T{\"b\", 4}\nu.Age = t.Age + 1\nprintln t.Name, u.Age\n"},
	{"struct-embed", "", "type Base struct {\n\tID int\n}\n\nfunc (b Base) Describe() string {\n\treturn \"base\"\n}\n\ntype Item struct {\n\tBase\n\tTag string\n}\n\nit := Item{Base{7}, \"t\"}\nprintln it.ID, it.Describe(), it.Tag\n"},
	{"struct-anon", "", "p := struct {\n\tA int\n\tB string\n}{1, \"b\"}\nprintln p.A, p.B\n"},
	{"interface", "", "type Shape interface {\n\tArea() float64\n}\n\ntype Sq struct {\n\ts float64\n}\n\nfunc (q Sq) Area() float64 {\n\treturn q.s * q.s\n}\n\nvar sh Shape = Sq{2}\nprintln sh.Area()\n"},
	{"interface-stringer", "", "type Color int\n\nfunc (c Color) String() string {\n\tif c == 0 {\n\t\treturn \"red\"\n\t}\n\treturn \"other\"\n}\n\nvar c Color\nprintln c, Color(1).String()\n"},
	{"map-ops", "", "m := {\"a\": 1, \"b\": 2}\nm[\"c\"] = 3\nv, ok := m[\"a\"]\nprintln v, ok, len(m)\ndelete(m, \"b\")\nprintln len(m)\n"},
	{"map-typed", "", "m := map[string][]int{}\nm[\"x\"] = append(m[\"x\"], 1, 2)\nprintln len(m[\"x\"]), m[\"y\"] == nil\n"},
	{"map-nested-lit", "", "m := {\"a\": [1, 2], \"b\": [3]}\nprintln m[\"a\"][1], len(m[\"b\"])\nn := [{\"k\": 1}, {\"k\": 2}]\nprintln n[1][\"k\"]\n"},
	{"slice-ops", "", "s := [1, 2, 3]\ns = append(s, 4)\nt := s[1:3]\nprintln len(s), t[0], cap(t) > 0\ncopy(t, s)\nprintln t\n"},
	{"slice-make", "", "s := make([]int, 2, 5)\ns[0] = 9\nu := s[:cap(s)]\nprintln len(u), u[0]\n"},
	{"slice-2d", "", "g := [[1, 2], [3, 4]]\nt := 0\nfor row <- g {\n\tfor v <- row {\n\t\tt += v\n\t}\n}\nprintln t, g[1][0]\n"},
	{"array", "", "var a [3]int\na[0] = 1\nb := [2]string{\"x\", \"y\"}\nfor i, v := range a {\n\tprintln i, v\n}\nprintln len(b), b[1]\n"},
	{"list-compr", "", "a := [1, 2, 3, 4]\nb := [x*x for x <- a if x%2 == 0]\nprintln b\n"},
	{"list-compr-nested", "", "arr := [1, 2, 3]\np := [[a, b] for a <- arr if a < b for b <- arr if b > 1]\nprintln len(p)\n"},
	{"map-compr", "", "m := {\"a\": 1, \"b\": 2}\ninv := {v: k for k, v <- m}\nprintln len(inv), inv[1]\nidx := {v: i for i, v <- [\"x\", \"y\"]}\nprintln idx[\"y\"]\n"},
	{"select-compr", "", "a := [1, 5, 9]\nx, ok := {v for v <- a if v > 3}\nprintln x, ok\nhas := {for v <- a if v > 8}\nprintln has\n"},
	{"compr-call", "", "func sq(n int) int {\n\treturn n * n\n}\n\nprintln [sq(i) for i <- :3]\n"},
	{"errwrap", "", "import \"strconv\"\n\nfunc parse(s string) (int, error) {\n\tn := strconv.Atoi(s)?\n\treturn n * 2, nil\n}\n\nprintln parse(\"21\")!\nx := strconv.Atoi(\"z\")?:-1\nprintln x\n"},
	{"errwrap-void", "", "import \"os\"\n\nfunc run() error {\n\tos.Setenv(\"K\", \"v\")?\n\treturn nil\n}\n\nrun()!\nprintln os.Getenv(\"K\")\n"},
	{"interp", "", "name := \"xgo\"\nn := 3\nprintln \"hi ${name} ${n+1}!\"\nprintln \"cost $$${n}\"\n"},
	{"interp-exprs", "", "f := 1.5\ns := \"a\"\nt := \"${s}${f}-${len(s)}\"\nprintln t, \"${s + t}\" != \"\"\n"},
	{"lambda-arg", "", "func apply(f func(int) int, x int) int {\n\treturn f(x)\n}\n\nprintln apply(x => x * 2, 4)\n"},
	{"lambda-block", "", "func each(a []int, f func(int)) {\n\tfor v <- a {\n\t\tf(v)\n\t}\n}\n\neach [1, 2], v => {\n\tprintln v\n}\n"},
	{"lambda-two", "", "func fold(a []int, f func(acc, v int) int) int {\n\tr := 0\n\tfor v <- a {\n\t\tr = f(r, v)\n\t}\n\treturn r\n}\n\nprintln fold([1, 2, 3], (acc, v) => acc + v)\n"},
	{"lambda-noarg", "", "func do(f func() string) {\n\tprintln f()\n}\n\ndo => \"x\"\n"},
	{"command-calls", "", "import \"fmt\"\n\nfmt.println \"a\", 1\nfmt.printf \"%d\\n\", 2\necho \"b\"\nprint \"c\", \"\\n\"\n"},
	{"command-method", "", "import \"strings\"\n\nvar sb strings.Builder\nsb.writeString \"ab\"\nsb.writeByte 'c'\nprintln sb.string, sb.len\n"},
	{"overload-named", "", "func addInt(a, b int) int {\n\treturn a + b\n}\n\nfunc addStr(a, b string) string {\n\treturn a + b\n}\n\nfunc add = (\n\taddInt\n\taddStr\n)\n\nprintln add(1, 2), add(\"a\", \"b\")\n"},
	{"overload-lit", "", "func mul = (\n\tfunc(a, b int) int {\n\t\treturn a * b\n\t}\n\tfunc(a, b float64) float64 {\n\t\treturn a * b\n\t}\n)\n\nprintln mul(2, 3), mul(1.5, 2.0)\n"},
	{"overload-method", "", "type N struct {\n\tv int\n}\n\nfunc (n N) plusInt(d int) int {\n\treturn n.v + d\n}\n\nfunc (n N) plusN(o N) int {\n\treturn n.v + o.v\n}\n\nfunc (N).plus = (\n\t(N).plusInt\n\t(N).plusN\n)\n\nn := N{1}\nprintln n.plus(2), n.plus(N{3})\n"},
	{"labels", "", "outer:\n\tfor i := 0; i < 3; i++ {\n\t\tfor j := 0; j < 3; j++ {\n\t\t\tif j == 2 {\n\t\t\t\tcontinue outer\n\t\t\t}\n\t\t\tif i == 2 {\n\t\t\t\tbreak outer\n\t\t\t}\n\t\t\tprintln i, j\n\t\t}\n\t}\n"},
	{"goto", "", "i := 0\nloop:\n\tif i < 3 {\n\t\ti++\n\t\tgoto loop\n\t}\n\tprintln i\n"},
	{"defer-recover", "", "func safe() (r int) {\n\tdefer func() {\n\t\tif e := recover(); e != nil {\n\t\t\tr = -1\n\t\t}\n\t}()\n\tpanic(\"x\")\n}\n\nprintln safe()\n"},
	{"defer-order", "", "func run() {\n\tfor i := 0; i < 2; i++ {\n\t\tdefer println(i)\n\t}\n\tprintln \"body\"\n}\n\nrun()\n"},
	{"pointers", "", "x := 1\np := &x\n*p = 5\nq := new(int)\n*q = *p + x\nprintln x, *p, *q, p != q\n"},
	{"chan-select", "", "c := make(chan int, 1)\nc <- 1\nselect {\ncase v := <-c:\n\tprintln v\ndefault:\n\tprintln \"none\"\n}\n"},
	{"goroutine", "", "done := make(chan bool)\ngo func() {\n\tdone <- true\n}()\nprintln <-done\n"},
	{"chan-range", "", "c := make(chan string, 2)\nc <- \"a\"\nc <- \"b\"\nclose(c)\nfor v := range c {\n\tprintln v\n}\n"},
	{"rational", "", "a := 1r/3 + 2r/3\nb := a * a\nprintln a, b, a == b\n"},
	{"unit-literal", "", "import \"time\"\n\nfunc wait(d time.Duration) {\n\tprintln d\n}\n\nwait 1m\ntime.sleep 2ms\n"},
	{"string-methods", "", "s := \"Hello\"\nprintln s.toUpper, s.len, s.replaceAll(\"l\", \"L\")\nparts := \"a,b\".split(\",\")\nprintln parts.len, parts[0]\n"},
	{"string-index", "", "s := \"héllo\"\nb := s[0]\nr := []rune(s)\nprintln b, len(r), string(r[1]), s[1:3] != \"\"\nfor i, c := range \"ab\" {\n\tprintln i, c\n}\n"},
	{"string-concat", "", "a, b := \"x\", \"y\"\nc := a + b\nc += \"!\"\nprintln c, a < b, c == \"xy!\"\n"},
	{"named-type", "", "type Celsius float64\n\nfunc (c Celsius) F() float64 {\n\treturn float64(c)*9/5 + 32\n}\n\nprintln Celsius(100).F()\n"},
	{"type-switch-composite-small", "", "var v any\nswitch v.(type) {\ncase []int:\ncase []string:\n}\n"},
	{"type-switch-composite", "", "func kind(v any) string {\n\tswitch v.(type) {\n\tcase []int:\n\t\treturn \"ints\"\n\tcase []string, map[string]int:\n\t\treturn \"strings or map\"\n\tcase *int, *string:\n\t\treturn \"ptr\"\n\tcase func(int) string:\n\t\treturn \"func\"\n\t}\n\treturn \"other\"\n}\n\nprintln kind([1]), kind([\"a\"])\n"},
	{"type-alias-small", "", "type ID = int\n\nvar i ID = 3\nprintln i+1\n"},
	{"type-alias-slice", "", "type L = []int\n\nvar l L = [1, 2]\nprintln len(l)\n"},
	{"type-alias-struct", "", "type P = struct {\n\tnext *int\n\tv    int\n}\n\nvar p P\nprintln p.v\n"},
	{"type-alias-conv", "", "type ID = int\ntype Names []string\n\nvar i ID = 3\nn := Names{\"a\"}\nn = append(n, \"b\")\nprintln i+1, len(n), float64(i)/2\n"},
	{"bit-ops", "", "x := 6\nprintln x&3, x|1, x^2, x<<2, x>>1, x&^2\nx <<= 1\nx |= 1\nprintln x, ^x\n"},
	{"bool-ops", "", "a, b, c := true, false, true\nprintln a && b || !c, a != b, !(a && c)\n"},
	{"arith", "", "a, b := 7, 2\nf := 1.5\nprintln a/b, a%b, -a+b*3, float64(a)/f, a-b == 5\n"},
	{"compare-chain", "", "x := 4\nif x >= 1 && x <= 9 && x != 5 {\n\tprintln \"digit\"\n}\n"},
	{"shadow", "", "x := 1\n{\n\tx := x + 1\n\tx++\n\tprintln x\n}\nif x := 9; x > 1 {\n\tprintln x\n}\nprintln x\n"},
	{"func-type", "", "type Op func(int, int) int\n\nfunc run(o Op) int {\n\treturn o(3, 4)\n}\n\nvar plus Op = func(a, b int) int {\n\treturn a + b\n}\nprintln run(plus)\n"},
	{"method-value", "", "type C struct {\n\tn int\n}\n\nfunc (c *C) Inc() int {\n\tc.n++\n\treturn c.n\n}\n\nc := &C{}\nf := c.Inc\nf()\nprintln f(), c.n\n"},
	{"import-alias", "", "import (\n\tstr \"strings\"\n\t\"sort\"\n)\n\na := [3, 1, 2]\nsort.Ints(a)\nprintln a, str.Repeat(\"ab\", 2)\n"},
	{"import-math", "", "import \"math\"\n\nr := 2.0\nprintln math.Pi*r*r > 12, math.Sqrt(16), math.MaxInt8\n"},
	{"multi-return-pass", "", "func pair() (int, string) {\n\treturn 1, \"a\"\n}\n\nfunc take(n int, s string) string {\n\treturn s\n}\n\nprintln take(pair())\n_, s := pair()\nprintln s\n"},
	{"nil-checks", "", "var p *int\nvar s []int\nvar m map[string]int\nvar e error\nprintln p == nil, s == nil, len(m), e == nil\n"},
	{"main-func", "", "func helper() int {\n\treturn 2\n}\n\nfunc main() {\n\tx := helper()\n\tprintln x\n}\n"},
	{"package-clause", "", "package main\n\nimport \"fmt\"\n\nfunc main() {\n\tfmt.Println(\"go style\")\n}\n"},
	{"lib-package", "", "package calc\n\nfunc Add(a, b int) int {\n\treturn a + b\n}\n\nvar Zero = Add(0, 0)\n"},
	{"struct-tags-cmp", "", "type K struct {\n\tA int `json:\"a\"`\n\tB string\n}\n\nx, y := K{1, \"b\"}, K{1, \"b\"}\nprintln x == y, x.A\n"},
	{"const-expr", "", "const (\n\tKB = 1 << 10\n\tMB = KB * KB\n)\n\nconst name = \"n\" + \"m\"\nprintln MB/KB, name, len(name)\n"},
	{"incdec-assignops", "", "i, f := 1, 2.0\ni++\ni--\ni += 3\ni -= 1\ni *= 2\ni /= 3\ni %= 2\nf *= 2\nprintln i, f\n"},
	{"printf-style", "", "import \"fmt\"\n\ns := fmt.Sprintf(\"%d-%s\", 1, \"a\")\nprintln s\nfmt.Println(s, len(s))\n"},
	{"error-type", "", "type MyErr struct {\n\tcode int\n}\n\nfunc (e *MyErr) Error() string {\n\treturn \"err ${e.code}\"\n}\n\nfunc fail() error {\n\treturn &MyErr{3}\n}\n\nprintln fail()\n"},
	{"compr-map-filter", "", "m := {\"a\": 1, \"b\": 2, \"c\": 3}\nbig := [k for k, v <- m if v > 1]\nprintln len(big)\n"},
	{"class-rect", "Rect.gox", "var (\n\tWidth, Height float64\n)\n\nfunc Area() float64 {\n\treturn Width * Height\n}\n\nfunc Scale(k float64) {\n\tWidth *= k\n\tHeight *= k\n}\n"},
	{"class-counter", "Counter.gox", "import \"fmt\"\n\nvar (\n\tn    int\n\tname string\n)\n\nfunc Inc() int {\n\tn++\n\treturn n\n}\n\nfunc Show() {\n\tfmt.println \"${name}: ${n}\"\n}\n"},
}

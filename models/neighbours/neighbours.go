// Package neighbours is the shared mutant generator of the compiler robustness checks (C06, C07):
// a pool of small valid XGo programs and the COMPLETE 1-edit token-level neighbourhood of a source
// text under a fixed menu of edits. Enumeration is deterministic and exhaustive over
// (position, edit); duplicates (edits producing the same text) are removed.
package neighbours

import (
	"sort"
	"strings"

	"verif/scanx"
)

// Edit identifies one edit: kind, index of the token it applies to, and the replacement text.
type Edit struct {
	Kind string `json:"kind"`
	Tok  int    `json:"tok"` // index into the token list (comments excluded, zero-width tokens excluded)
	Arg  string `json:"arg,omitempty"`
}

// Mutant is one neighbour.
type Mutant struct {
	Edit Edit
	Src  string
}

// Token is a source token with its byte extent.
type Token struct {
	Kind, Lit string
	Off, End  int
}

// Tokens returns the tokens of src that cover at least one byte (comments are not tokens).
func Tokens(src string) []Token {
	r := scanx.XGo([]byte(src), false, nil)
	var out []Token
	for _, t := range r.Toks {
		n, _ := scanx.Extent([]byte(src), t)
		if n > 0 && t.Off+n <= len(src) {
			out = append(out, Token{t.Kind, t.Lit, t.Off, t.Off + n})
		}
	}
	return out
}

// operator classes; the first member is the representative used as replacement.
var opClasses = [][]string{
	{"+", "-", "*", "/", "%"},
	{"&", "|", "^", "<<", ">>", "&^"},
	{"==", "!="},
	{"<", "<=", ">", ">="},
	{"&&", "||"},
	{"+=", "-=", "*=", "/=", "%=", "&=", "|=", "^=", "<<=", ">>=", "&^="},
	{"++", "--"},
	{"!"},
	{"<-"},
}

var opClassOf = func() map[string]int {
	m := map[string]int{}
	for i, c := range opClasses {
		for _, o := range c {
			m[o] = i
		}
	}
	return m
}()

// literal kinds and the replacement literal of each type.
var litReps = []struct{ kind, text string }{
	{"INT", "7"}, {"FLOAT", "2.5"}, {"STRING", `"s"`}, {"CHAR", "'c'"}, {"RAT", "3r"},
}

var litKinds = map[string]bool{"INT": true, "FLOAT": true, "IMAG": true, "CHAR": true, "STRING": true, "RAT": true, "UNIT": true, "CSTRING": true, "PYSTRING": true}

// Undeclared is the name used by the rename-to-undeclared edit.
const Undeclared = "undeclaredZq"

// Menu lists the edit kinds.
var Menu = []string{"delete", "duplicate", "ident", "operator", "literal", "assign", "drop-return", "undeclared"}

// Neighbours returns every distinct 1-edit neighbour of src under the full menu, in a deterministic
// order (by token position, then by menu order). src itself is never returned.
func Neighbours(src string) []Mutant {
	return enumerate(src, true)
}

// Deletions returns every distinct 1-token deletion of src.
func Deletions(src string) []Mutant {
	return enumerate(src, false)
}

func enumerate(src string, full bool) []Mutant {
	toks := Tokens(src)
	seen := map[string]bool{src: true}
	var out []Mutant
	add := func(kind string, i int, arg, text string) {
		if seen[text] {
			return
		}
		seen[text] = true
		out = append(out, Mutant{Edit{kind, i, arg}, text})
	}
	var idents []string
	if full {
		set := map[string]bool{}
		for _, t := range toks {
			if t.Kind == "IDENT" && !set[t.Lit] {
				set[t.Lit] = true
				idents = append(idents, t.Lit)
			}
		}
		sort.Strings(idents)
	}
	for i, t := range toks {
		pre, text, post := src[:t.Off], src[t.Off:t.End], src[t.End:]
		add("delete", i, "", pre+post)
		if !full {
			continue
		}
		add("duplicate", i, "", pre+text+" "+text+post)
		switch {
		case t.Kind == "IDENT":
			for _, id := range idents {
				if id != t.Lit {
					add("ident", i, id, pre+id+post)
				}
			}
			add("undeclared", i, Undeclared, pre+Undeclared+post)
		case litKinds[t.Kind]:
			for _, r := range litReps {
				if r.kind != t.Kind {
					add("literal", i, r.text, pre+r.text+post)
				}
			}
		case t.Kind == ":=":
			add("assign", i, "=", pre+"="+post)
		case t.Kind == "=":
			add("assign", i, ":=", pre+":="+post)
		case t.Kind == "return":
			add("drop-return", i, "", pre+src[stmtEnd(src, toks, i):])
		default:
			if c, ok := opClassOf[t.Kind]; ok {
				for d, cl := range opClasses {
					if d != c {
						add("operator", i, cl[0], pre+cl[0]+post)
					}
				}
			}
		}
	}
	return out
}

// stmtEnd returns the offset where the statement starting at token i ends: the next ';' or newline
// outside brackets, or the '}' / ')' closing the enclosing block.
func stmtEnd(src string, toks []Token, i int) int {
	depth := 0
	pos := toks[i].End
	for j := i + 1; j < len(toks); j++ {
		t := toks[j]
		if depth == 0 && strings.Contains(src[pos:t.Off], "\n") {
			// a newline between two tokens outside brackets ends the statement unless the
			// previous token cannot end one (operator / comma / opening bracket)
			if endsStmt(toks[j-1]) {
				return pos
			}
		}
		switch t.Kind {
		case "(", "[", "{":
			depth++
		case ")", "]", "}":
			if depth == 0 {
				return t.Off
			}
			depth--
		case ";":
			if depth == 0 {
				return t.Off
			}
		}
		pos = t.End
	}
	return pos
}

func endsStmt(t Token) bool {
	switch t.Kind {
	case "IDENT", ")", "]", "}", "++", "--", "return", "break", "continue", "fallthrough", "!", "?":
		return true
	}
	return litKinds[t.Kind]
}

// Apply re-creates the neighbour for an edit (used by replay and tests); ok is false if the edit
// does not apply to src.
func Apply(src string, e Edit) (string, bool) {
	for _, m := range enumerate(src, true) {
		if m.Edit == e {
			return m.Src, true
		}
	}
	return "", false
}

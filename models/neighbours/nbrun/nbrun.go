// Package nbrun holds the harness plumbing shared by the neighbourhood checks (C06, C07):
// an importer whose export-data lookups are answered from one `go list` run of the parent process,
// a CPU-time watchdog that turns a non-terminating compile into an attributed crash independent of
// machine load, and per-block failure records that let the parent report the smallest witness per key.
package nbrun

import (
	"bufio"
	"bytes"
	"encoding/json"
	"errors"
	"fmt"
	"io"
	"os"
	"os/exec"
	"path/filepath"
	"regexp"
	"runtime"
	"sort"
	"strings"
	"sync/atomic"
	"syscall"
	"time"

	"github.com/goplus/gogen/packages"
	"github.com/goplus/xgo/token"

	"verif/engine"
)

// ---- importer ----

// implicit imports of the compiler's builtin table and lowering
var basePkgs = []string{"fmt", "os", "reflect", "strconv", "strings", "errors", "sort", "math", "time", "bufio", "io",
	"github.com/qiniu/x/xgo", "github.com/qiniu/x/xgo/ng", "github.com/qiniu/x/stringutil", "github.com/qiniu/x/stringslice",
	"github.com/qiniu/x/osx", "github.com/qiniu/x/errors"}

var reImport = regexp.MustCompile(`(?m)^\s*(?:import\s+)?(?:[A-Za-z_.][A-Za-z0-9_]*\s+)?"([A-Za-z0-9_./-]+)"\s*$`)

// PrepareExports runs one `go list -export -deps` for the packages the sources may import and stores
// the import path -> export file table in dir. Packages that cannot be listed are left out (an importer
// falls back to its own `go list` for them).
func PrepareExports(dir string, sources []string) error {
	set := map[string]bool{}
	for _, p := range basePkgs {
		set[p] = true
	}
	for _, s := range sources {
		if !strings.Contains(s, "import") {
			continue
		}
		for _, m := range reImport.FindAllStringSubmatch(s, -1) {
			if m[1] != "C" && m[1] != "c" {
				set[m[1]] = true
			}
		}
	}
	var pkgs []string
	for p := range set {
		pkgs = append(pkgs, p)
	}
	sort.Strings(pkgs)
	args := append([]string{"list", "-mod=readonly", "-e", "-export", "-deps", "-f", "{{.ImportPath}}\t{{.Export}}"}, pkgs...)
	cmd := exec.Command("go", args...)
	var out, errb bytes.Buffer
	cmd.Stdout, cmd.Stderr = &out, &errb
	if err := cmd.Run(); err != nil && out.Len() == 0 {
		return fmt.Errorf("go list -export: %v: %s", err, errb.String())
	}
	return os.WriteFile(filepath.Join(dir, "exports.tsv"), out.Bytes(), 0o644)
}

type exportCache struct {
	m    map[string]string
	fail map[string]error // lookups that failed once fail the same way again (per process)
}

var nFallback int32

// Fallbacks returns how many lookups were not answered by the table (the importer ran `go list`).
func Fallbacks() int { return int(atomic.LoadInt32(&nFallback)) }

func (c *exportCache) Find(dir, pkgPath string) (io.ReadCloser, error) {
	if f, ok := c.m[pkgPath]; ok {
		return os.Open(f)
	}
	if err, ok := c.fail[pkgPath]; ok {
		return nil, err
	}
	atomic.AddInt32(&nFallback, 1)
	cmd := exec.Command("go", "list", "-mod=readonly", "-f={{.Export}}", "-export", pkgPath)
	var out, errb bytes.Buffer
	cmd.Stdout, cmd.Stderr = &out, &errb
	cmd.Dir = dir
	if err := cmd.Run(); err != nil {
		if errb.Len() > 0 {
			err = errors.New(errb.String())
		}
		c.fail[pkgPath] = err
		return nil, err
	}
	return os.Open(strings.TrimSuffix(out.String(), "\n"))
}

// NewImporter returns the production importer (gogen/packages); when dir holds an export table its
// lookups are answered from it instead of one `go list` process per package.
func NewImporter(fset *token.FileSet, dir string) *packages.Importer {
	imp := packages.NewImporter(fset)
	if dir == "" {
		return imp
	}
	data, err := os.ReadFile(filepath.Join(dir, "exports.tsv"))
	if err != nil {
		return imp
	}
	c := &exportCache{m: map[string]string{}, fail: map[string]error{}}
	for _, l := range strings.Split(string(data), "\n") {
		if i := strings.IndexByte(l, '\t'); i > 0 && i+1 < len(l) {
			c.m[l[:i]] = l[i+1:]
		}
	}
	imp.SetCache(c)
	return imp
}

// ---- CPU watchdog ----

var itemStart int64 // CPU nanoseconds of the process when the current item began

func cpuNow() int64 {
	var ru syscall.Rusage
	syscall.Getrusage(syscall.RUSAGE_SELF, &ru)
	return ru.Utime.Nano() + ru.Stime.Nano()
}

// ItemStart marks the beginning of an item for the CPU watchdog.
func ItemStart() { atomic.StoreInt64(&itemStart, cpuNow()) }

type frame struct{ fn, at string }

// mainStack returns the frames of goroutine 1 (function, file:line of its current instruction), outermost first.
func mainStack() []frame {
	buf := make([]byte, 4<<20)
	n := runtime.Stack(buf, true)
	s := string(buf[:n])
	i := strings.Index(s, "goroutine 1 [")
	if i < 0 {
		return nil
	}
	s = s[i:]
	if j := strings.Index(s, "\n\n"); j >= 0 {
		s = s[:j]
	}
	var fr []frame
	for _, l := range strings.Split(s, "\n")[1:] {
		switch {
		case strings.HasPrefix(l, "..."):
		case strings.HasPrefix(l, "\t"):
			if len(fr) > 0 {
				at := strings.TrimSpace(l)
				if k := strings.Index(at, " +0x"); k > 0 {
					at = at[:k]
				}
				fr[len(fr)-1].at = at
			}
		default:
			if k := strings.LastIndex(l, "("); k > 0 {
				fr = append(fr, frame{fn: l[:k]})
			}
		}
	}
	for a, b := 0, len(fr)-1; a < b; a, b = a+1, b-1 {
		fr[a], fr[b] = fr[b], fr[a]
	}
	return fr
}

// StartCPUWatchdog makes the process die with a "fatal error" dump when one item consumes more than
// limit of CPU time (user+system of this process; independent of machine load). The dump names the
// function that owns the endless loop as well as sampling can tell: of 300 stack samples it takes the
// outermost frame that was seen at two different instructions (every frame above it sat at one call
// instruction the whole time), so the crash key does not depend on where the loop was interrupted.
func StartCPUWatchdog(limit time.Duration) {
	ItemStart()
	go func() {
		for {
			time.Sleep(200 * time.Millisecond)
			if cpuNow()-atomic.LoadInt64(&itemStart) <= int64(limit) {
				continue
			}
			const samples = 300
			common := mainStack() // frames identical (function and instruction) in all samples
			owner := ""
			for i := 1; i < samples; i++ {
				time.Sleep(time.Millisecond)
				s := mainStack()
				k := 0
				for k < len(common) && k < len(s) && common[k] == s[k] {
					k++
				}
				if k < len(common) {
					if k < len(s) && s[k].fn == common[k].fn {
						owner = common[k].fn // same function, other instruction: this frame makes progress
					} else if k > 0 {
						owner = common[k-1].fn
					}
					common = common[:k]
				}
			}
			if owner == "" && len(common) > 0 {
				owner = common[len(common)-1].fn
			}
			var sb strings.Builder
			fmt.Fprintf(&sb, "fatal error: verif cpu watchdog: one input used more than %v of CPU time without returning (hang)\n\ngoroutine 1 [running]:\n", limit)
			fmt.Fprintf(&sb, "%s(...)\n\t(outermost frame seen at more than one instruction in %d stack samples: the function that keeps looping)\n", owner, samples)
			for i := len(common) - 1; i >= 0; i-- {
				fmt.Fprintf(&sb, "%s(...)\n\t%s (same instruction in all samples)\n", common[i].fn, common[i].at)
			}
			os.Stderr.WriteString(sb.String())
			os.Exit(5)
		}
	}()
}

// ---- failure records ----

// Record is one failed item as written by a worker.
type Record struct {
	Block int             `json:"block"`
	Item  int             `json:"item"`
	Size  int             `json:"size"`
	Case  json.RawMessage `json:"case"`
	F     *engine.Failure `json:"f"`
}

// Recorder writes the failures of one block; re-running a block overwrites its file.
type Recorder struct {
	f     *os.File
	w     *bufio.Writer
	block int
}

func NewRecorder(dir string, block int) *Recorder {
	f, err := os.Create(filepath.Join(dir, fmt.Sprintf("fail-%05d.jsonl", block)))
	if err != nil {
		fmt.Fprintln(os.Stderr, "verif: record file:", err)
		os.Exit(2)
	}
	return &Recorder{f: f, w: bufio.NewWriter(f), block: block}
}

func (r *Recorder) Add(item, size int, kase any, f *engine.Failure) {
	raw, _ := json.Marshal(kase)
	b, _ := json.Marshal(Record{r.block, item, size, raw, f})
	r.w.Write(b)
	r.w.WriteByte('\n')
}

func (r *Recorder) Close() {
	r.w.Flush()
	r.f.Close()
}

// ReadRecords returns all records of dir ordered by (size, block, item): simplest first.
func ReadRecords(dir string) ([]Record, error) {
	var recs []Record
	fs, _ := filepath.Glob(filepath.Join(dir, "fail-*.jsonl"))
	sort.Strings(fs)
	for _, fn := range fs {
		data, err := os.ReadFile(fn)
		if err != nil {
			return nil, err
		}
		for _, l := range bytes.Split(data, []byte("\n")) {
			if len(l) == 0 {
				continue
			}
			var r Record
			if err := json.Unmarshal(l, &r); err != nil {
				continue // torn line of a run that crashed; the block was re-run and the file rewritten
			}
			recs = append(recs, r)
		}
	}
	sort.SliceStable(recs, func(i, j int) bool {
		a, b := recs[i], recs[j]
		if a.Size != b.Size {
			return a.Size < b.Size
		}
		if a.Block != b.Block {
			return a.Block < b.Block
		}
		return a.Item < b.Item
	})
	return recs, nil
}

// ScratchDir creates the per-run scratch directory outside /repo and /verif.
func ScratchDir(prefix string) (string, error) {
	base := os.Getenv("VERIF_SCRATCH")
	if base == "" {
		base = "/var/tmp"
	}
	return os.MkdirTemp(base, prefix)
}

// PanicSite names the innermost frame of a recovered panic (engine.Guard failure) inside the compiler:
// the goplus/xgo frame engine.TopFrame finds, else the innermost github.com/goplus/ frame (gogen).
func PanicSite(g *engine.Failure) string {
	if i := strings.Index(g.Key, "@"); i >= 0 && g.Key[i+1:] != "?" {
		return g.Key[i+1:]
	}
	for _, l := range strings.Split(g.Detail, "\n") {
		l = strings.TrimSpace(l)
		if strings.HasPrefix(l, "github.com/goplus/") {
			if i := strings.LastIndex(l, "("); i > 0 {
				l = l[:i]
			}
			return strings.TrimPrefix(l, "github.com/goplus/")
		}
	}
	return "?"
}

// MaxCrashesPerBlock bounds the cost of a defect that makes many inputs of one seed crash or hang:
// the engine re-runs a block from its start after every crash, so after this many attributed crashes
// the rest of the block is abandoned (and the run is marked not exhaustive).
const MaxCrashesPerBlock = 2

// Abandon records that block b was cut short.
func Abandon(dir string, b int, note string) {
	os.WriteFile(filepath.Join(dir, fmt.Sprintf("abandoned-%05d", b)), []byte(note), 0o644)
}

// Abandoned lists the notes of abandoned blocks.
func Abandoned(dir string) []string {
	var out []string
	fs, _ := filepath.Glob(filepath.Join(dir, "abandoned-*"))
	sort.Strings(fs)
	for _, f := range fs {
		b, _ := os.ReadFile(f)
		out = append(out, string(b))
	}
	return out
}

package tplref

import "testing"

func TestSelf(t *testing.T) {
	if err := SelfTest(); err != nil {
		t.Fatal(err)
	}
}

func TestCounts(t *testing.T) {
	sp := NewSpace(4, 3)
	for _, s := range sp.segs {
		t.Logf("rules=%d sizes=%d,%d count=%d", s.rules, s.s1, s.s2, s.count)
	}
	seen := map[string]bool{}
	sp2 := NewSpace(2, 2)
	kept := 0
	for i := int64(0); i < sp2.Total(); i++ {
		g, keep := sp2.At(i)
		if !keep {
			continue
		}
		kept++
		txt := g.Text()
		if seen[txt] {
			t.Fatalf("duplicate grammar text %q", txt)
		}
		seen[txt] = true
	}
	t.Logf("space(2,2): total %d kept %d", sp2.Total(), kept)
}

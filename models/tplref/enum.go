package tplref

// Exhaustive, index-addressable enumeration of grammar expressions and of
// 1- and 2-rule grammars. Nothing is stored: item idx of size n is rebuilt from
// idx by mixed-radix decoding, so workers can evaluate disjoint index ranges.

type shape struct {
	op    Kind
	sizes []int
	count int64
}

// Enum enumerates all expressions over the given leaves with exactly n operator
// nodes (unary * + ?, binary % ++ count 1; a k-ary sequence or choice counts k-1).
// Children of a sequence may be sequences (printed in parentheses; the real
// parser keeps them nested), likewise for choices.
type Enum struct {
	Leaves []*Expr
	shapes [][]shape
	counts []int64
}

func compositions(total, parts int, acc []int, yield func([]int)) {
	if parts == 1 {
		yield(append(append([]int(nil), acc...), total))
		return
	}
	for first := 0; first <= total; first++ {
		compositions(total-first, parts-1, append(acc, first), yield)
	}
}

func NewEnum(leaves []*Expr, maxOps int) *Enum {
	en := &Enum{Leaves: leaves}
	en.counts = append(en.counts, int64(len(leaves)))
	en.shapes = append(en.shapes, nil)
	for n := 1; n <= maxOps; n++ {
		var sh []shape
		add := func(op Kind, sizes []int) {
			c := int64(1)
			for _, s := range sizes {
				c *= en.counts[s]
			}
			sh = append(sh, shape{op, sizes, c})
		}
		for _, op := range []Kind{Star, Plus, Opt} {
			add(op, []int{n - 1})
		}
		for _, op := range []Kind{List, Adj} {
			for i := 0; i <= n-1; i++ {
				add(op, []int{i, n - 1 - i})
			}
		}
		for _, op := range []Kind{Seq, Alt} {
			for arity := 2; arity <= n+1; arity++ {
				compositions(n-(arity-1), arity, nil, func(sizes []int) { add(op, sizes) })
			}
		}
		total := int64(0)
		for _, s := range sh {
			total += s.count
		}
		en.shapes = append(en.shapes, sh)
		en.counts = append(en.counts, total)
	}
	return en
}

func (en *Enum) Count(n int) int64 { return en.counts[n] }

func (en *Enum) At(n int, idx int64) *Expr {
	if n == 0 {
		return en.Leaves[idx]
	}
	for _, s := range en.shapes[n] {
		if idx >= s.count {
			idx -= s.count
			continue
		}
		kids := make([]*Expr, len(s.sizes))
		for k := len(s.sizes) - 1; k >= 0; k-- {
			c := en.counts[s.sizes[k]]
			kids[k] = en.At(s.sizes[k], idx%c)
			idx /= c
		}
		return &Expr{K: s.op, Kids: kids}
	}
	panic("tplref: enumeration index out of range")
}

// Space is the grammar space used by C28/C29: all 1-rule grammars `doc = e`
// with at most max1 operator nodes over leaves {"a", INT, ",", doc}, and all
// 2-rule grammars `doc = e1; aux = e2` with at most max2 operator nodes in
// total over leaves {"a", INT, ",", doc, aux}. Ordered by total size.
type Space struct {
	e1, e2 *Enum
	segs   []seg
	total  int64
}

type seg struct {
	rules  int
	s1, s2 int
	count  int64
	start  int64
}

func BaseLeaves() []*Expr { return []*Expr{L("a"), T("INT"), L(",")} }

func NewSpace(max1, max2 int) *Space {
	sp := &Space{}
	sp.e1 = NewEnum(append(BaseLeaves(), R("doc")), max(max1, 0))
	sp.e2 = NewEnum(append(BaseLeaves(), R("doc"), R("aux")), max(max2, 0))
	for t := 0; t <= max(max1, max2); t++ {
		if t <= max1 {
			sp.segs = append(sp.segs, seg{rules: 1, s1: t, count: sp.e1.Count(t)})
		}
		if t <= max2 {
			for i := 0; i <= t; i++ {
				sp.segs = append(sp.segs, seg{rules: 2, s1: i, s2: t - i, count: sp.e2.Count(i) * sp.e2.Count(t-i)})
			}
		}
	}
	for i := range sp.segs {
		sp.segs[i].start = sp.total
		sp.total += sp.segs[i].count
	}
	return sp
}

func (sp *Space) Total() int64 { return sp.total }

// At returns grammar number idx. keep is false for 2-rule grammars whose root
// rule does not mention aux (aux unreachable: same matches as a 1-rule grammar).
func (sp *Space) At(idx int64) (g *Grammar, keep bool) {
	for _, s := range sp.segs {
		if idx >= s.start+s.count {
			continue
		}
		idx -= s.start
		if s.rules == 1 {
			return &Grammar{Rules: []Rule{{"doc", sp.e1.At(s.s1, idx)}}}, true
		}
		c2 := sp.e2.Count(s.s2)
		b1 := sp.e2.At(s.s1, idx/c2)
		if !b1.Mentions("aux") {
			return nil, false
		}
		return &Grammar{Rules: []Rule{{"doc", b1}, {"aux", sp.e2.At(s.s2, idx%c2)}}}, true
	}
	panic("tplref: grammar index out of range")
}

// Package tplref is a small, deliberately boring reference model of the TPL
// grammar language described in /repo/tpl/README.md. It shares no code with
// tpl/matcher: grammars are a plain ADT, matching is a direct transcription of
// the README (ordered choice, greedy repetition, `?` = body or nil,
// R1 % R2 = R1 *(R2 R1), R1 ++ R2 = both non-empty and touching).
//
// The README does not say what happens when an alternative of a choice has
// already matched some tokens and then fails: a backtracking PEG tries the next
// alternative, an LL(1)-style engine gives up ("commit"). The model therefore
// computes the outcome of a match in three modes:
//
//	PEG     never commit,
//	Commit  always commit once the failed alternative had matched a token,
//	Any     every mixture of the two, decided independently at each failure where
//	        no later alternative can begin with the token at hand (where one can,
//	        an ordered choice has to try it); the result is a set of outcomes.
//
// A (grammar, input) pair has a prescribed result only if the Any set is a
// singleton; everything else is "README silent" and must be excluded by callers.
package tplref

import (
	"fmt"
	"sort"
	"strings"
)

// ---------------------------------------------------------------- grammar ADT

type Kind uint8

const (
	Tok  Kind = iota + 1 // token class: INT, IDENT ...           S = class name
	Lit                  // quoted literal: "a" (keyword), ","     S = text
	Seq                  // R1 R2 ... Rn
	Alt                  // R1 | R2 | ... | Rn
	Star                 // *R
	Plus                 // +R
	Opt                  // ?R
	List                 // R1 % R2
	Adj                  // R1 ++ R2
	Ref                  // rule reference                         S = rule name
)

var kindNames = [...]string{"?", "tok", "lit", "seq", "alt", "star", "plus", "opt", "list", "adj", "ref"}

func (k Kind) String() string { return kindNames[k] }

func (k Kind) MarshalText() ([]byte, error) { return []byte(kindNames[k]), nil }

func (k *Kind) UnmarshalText(b []byte) error {
	for i, n := range kindNames {
		if n == string(b) && i > 0 {
			*k = Kind(i)
			return nil
		}
	}
	return fmt.Errorf("tplref: unknown kind %q", b)
}

type Expr struct {
	K    Kind    `json:"k"`
	S    string  `json:"s,omitempty"`
	Kids []*Expr `json:"c,omitempty"`

	sugar *Expr // List only: the expansion R1 *(R2 R1)
}

type Rule struct {
	Name string `json:"name"`
	Body *Expr  `json:"body"`
}

// Grammar: the first rule is the root rule.
type Grammar struct {
	Rules []Rule `json:"rules"`
}

func (g *Grammar) rule(name string) *Expr {
	for i := range g.Rules {
		if g.Rules[i].Name == name {
			return g.Rules[i].Body
		}
	}
	return nil
}

// Ops returns the number of operator nodes (n-ary nodes count arity-1).
func (e *Expr) Ops() int {
	n := 0
	switch e.K {
	case Seq, Alt:
		n = len(e.Kids) - 1
	case Star, Plus, Opt, List, Adj:
		n = 1
	}
	for _, k := range e.Kids {
		n += k.Ops()
	}
	return n
}

// Has reports whether an operator kind occurs in e.
func (e *Expr) Has(k Kind) bool {
	if e.K == k {
		return true
	}
	for _, c := range e.Kids {
		if c.Has(k) {
			return true
		}
	}
	return false
}

func (e *Expr) Mentions(rule string) bool {
	if e.K == Ref && e.S == rule {
		return true
	}
	for _, c := range e.Kids {
		if c.Mentions(rule) {
			return true
		}
	}
	return false
}

func (g *Grammar) Has(k Kind) bool {
	for _, r := range g.Rules {
		if r.Body.Has(k) {
			return true
		}
	}
	return false
}

// ---------------------------------------------------------------- printer

// documented precedence: unary (* + ?) > ++ > % > sequence > |
const (
	pAlt = iota + 1
	pSeq
	pList
	pAdj
	pUnary
	pLeaf
)

func (e *Expr) prec() int {
	switch e.K {
	case Alt:
		return pAlt
	case Seq:
		return pSeq
	case List:
		return pList
	case Adj:
		return pAdj
	case Star, Plus, Opt:
		return pUnary
	}
	return pLeaf
}

func (e *Expr) emit(out *[]string) {
	child := func(c *Expr, need int) {
		if c.prec() < need {
			*out = append(*out, "(")
			c.emit(out)
			*out = append(*out, ")")
		} else {
			c.emit(out)
		}
	}
	switch e.K {
	case Tok, Ref:
		*out = append(*out, e.S)
	case Lit:
		*out = append(*out, `"`+e.S+`"`) // the alphabets used here need no escaping
	case Alt:
		for i, c := range e.Kids {
			if i > 0 {
				*out = append(*out, "|")
			}
			child(c, pSeq) // a bare choice inside a choice would merge with it
		}
	case Seq:
		for _, c := range e.Kids {
			child(c, pList) // a bare sequence inside a sequence would merge with it
		}
	case List: // left-associative
		child(e.Kids[0], pList)
		*out = append(*out, "%")
		child(e.Kids[1], pAdj)
	case Adj: // left-associative
		child(e.Kids[0], pAdj)
		*out = append(*out, "++")
		child(e.Kids[1], pUnary)
	case Star:
		*out = append(*out, "*")
		child(e.Kids[0], pUnary)
	case Plus:
		*out = append(*out, "+")
		child(e.Kids[0], pUnary)
	case Opt:
		*out = append(*out, "?")
		child(e.Kids[0], pUnary)
	}
}

// String prints e as TPL text with minimal parentheses. Prefix operators are
// glued to their operand except where two of them would fuse into another
// token ("+ +x" is not "++x", "* *x" is not "**x").
func (e *Expr) String() string {
	var ts []string
	e.emit(&ts)
	var sb strings.Builder
	for i, t := range ts {
		if i > 0 {
			p := ts[i-1]
			glue := p == "(" || t == ")"
			if (p == "*" || p == "+" || p == "?") && (t[0] == '"' || t[0] == '(' || t[0] >= 'A' && t[0] <= 'Z' || t[0] >= 'a' && t[0] <= 'z') {
				glue = true
			}
			if !glue {
				sb.WriteByte(' ')
			}
		}
		sb.WriteString(t)
	}
	return sb.String()
}

// Text is the grammar source: one rule per line.
func (g *Grammar) Text() string {
	var sb strings.Builder
	for _, r := range g.Rules {
		sb.WriteString(r.Name)
		sb.WriteString(" = ")
		sb.WriteString(r.Body.String())
		sb.WriteByte('\n')
	}
	return sb.String()
}

// ---------------------------------------------------------------- tokens and result trees

// Token is one input token as the reference sees it: Kind is the token class
// ("IDENT", "INT") or, for punctuation, its spelling; Off/End are byte offsets.
type Token struct {
	Kind string `json:"kind"`
	Text string `json:"text"`
	Off  int    `json:"off"`
	End  int    `json:"end"`
}

func isIdentStart(c byte) bool {
	return c >= 'a' && c <= 'z' || c >= 'A' && c <= 'Z' || c == '_'
}

func leafMatches(e *Expr, t *Token) bool {
	if e.K == Tok {
		return t.Kind == e.S
	}
	// README: a quoted IDENT is a keyword, other quoted texts are the basic tokens "+", "," ...
	if isIdentStart(e.S[0]) {
		return t.Kind == "IDENT" && t.Text == e.S
	}
	return t.Kind == e.S
}

// Tree is a result: a token, a list, or nil (absent option).
type Tree struct {
	Tok  *Token
	Kids []*Tree
	List bool
}

func (t *Tree) write(sb *strings.Builder) {
	switch {
	case t == nil:
		sb.WriteString("<no tree>")
	case t.Tok != nil:
		fmt.Fprintf(sb, "<%s %s @%d>", t.Tok.Kind, t.Tok.Text, t.Tok.Off)
	case t.List:
		sb.WriteByte('[')
		for i, k := range t.Kids {
			if i > 0 {
				sb.WriteByte(' ')
			}
			k.write(sb)
		}
		sb.WriteByte(']')
	default:
		sb.WriteString("nil")
	}
}

// String is the canonical text of a tree: <KIND text @offset>, [a b c], nil.
func (t *Tree) String() string {
	var sb strings.Builder
	t.write(&sb)
	return sb.String()
}

// ---------------------------------------------------------------- matching

type Mode int

const (
	PEG Mode = iota
	Commit
	Any
)

type Outcome struct {
	OK      bool
	J       int   // tokens consumed (OK only)
	Tree    *Tree // OK only
	touched bool  // some token was matched on the way (even if undone later)
}

func (o Outcome) String() string {
	if !o.OK {
		return "fail"
	}
	return fmt.Sprintf("ok n=%d %s", o.J, o.Tree)
}

type frame struct {
	rule string
	pos  int
}

type Matcher struct {
	G    *Grammar
	Toks []Token
	Mode Mode

	// Diverged: a repetition body succeeded without consuming a token, or a rule
	// was re-entered at the same input position. The model stops there (it always
	// terminates); what a real engine does is not prescribed.
	Diverged bool
	// Overflow: more than maxOutcomes outcomes were produced; result unusable.
	Overflow bool

	stack []frame
	nul   map[string]bool // nullable rules (lazily computed)
	made  int
}

const maxOutcomes = 200000

func fail(touched bool) Outcome { return Outcome{touched: touched} }

func list(kids []*Tree) *Tree { return &Tree{List: true, Kids: kids} }

func compactFails(out []Outcome) []Outcome {
	// keep successes, at most one failure per touched flag
	var seen [2]bool
	w := 0
	for _, o := range out {
		if !o.OK {
			i := 0
			if o.touched {
				i = 1
			}
			if seen[i] {
				continue
			}
			seen[i] = true
		}
		out[w] = o
		w++
	}
	return out[:w]
}

type state struct {
	j       int
	kids    []*Tree
	touched bool
}

func push(kids []*Tree, t *Tree) []*Tree {
	n := make([]*Tree, len(kids)+1)
	copy(n, kids)
	n[len(kids)] = t
	return n
}

func (m *Matcher) match(e *Expr, i int) []Outcome {
	if m.Overflow {
		return []Outcome{fail(false)}
	}
	var out []Outcome
	switch e.K {
	case Tok, Lit:
		if i < len(m.Toks) && leafMatches(e, &m.Toks[i]) {
			return []Outcome{{OK: true, J: i + 1, Tree: &Tree{Tok: &m.Toks[i]}, touched: true}}
		}
		return []Outcome{fail(false)}

	case Seq:
		states := []state{{j: i}}
		for _, kid := range e.Kids {
			var next []state
			for _, s := range states {
				for _, o := range m.match(kid, s.j) {
					t := s.touched || o.touched
					if !o.OK {
						out = append(out, fail(t))
						continue
					}
					next = append(next, state{o.J, push(s.kids, o.Tree), t})
				}
			}
			states = next
		}
		for _, s := range states {
			out = append(out, Outcome{OK: true, J: s.j, Tree: list(s.kids), touched: s.touched})
		}

	case Alt:
		var rec func(k int, touched bool)
		rec = func(k int, touched bool) {
			for _, o := range m.match(e.Kids[k], i) {
				t := touched || o.touched
				switch {
				case o.OK:
					out = append(out, Outcome{OK: true, J: o.J, Tree: o.Tree, touched: t})
				case k == len(e.Kids)-1:
					out = append(out, fail(t))
				case m.Mode == PEG || !o.touched:
					rec(k+1, t)
				case m.Mode == Commit:
					out = append(out, fail(t))
				default: // Any
					// An ordered choice tries the next alternative. Giving up instead ("commit") is what an
					// LL(1) engine does when the token at hand selects the failed alternative alone; when a
					// later alternative can begin with that very token no reading of "ordered choice"
					// permits giving up, so only the backtracking continuation is allowed there.
					if i >= len(m.Toks) || !m.laterCanStart(e.Kids[k+1:], &m.Toks[i]) {
						out = append(out, fail(t))
					}
					rec(k+1, t)
				}
			}
		}
		rec(0, false)

	case Star, Plus:
		work := []state{{j: i}}
		for len(work) > 0 {
			s := work[len(work)-1]
			work = work[:len(work)-1]
			for _, o := range m.match(e.Kids[0], s.j) {
				t := s.touched || o.touched
				stop := !o.OK
				if o.OK && o.J == s.j { // iteration consumed nothing: the model stops here
					m.Diverged = true
					stop = true
				}
				if stop {
					if e.K == Plus && len(s.kids) == 0 {
						out = append(out, fail(t))
					} else {
						out = append(out, Outcome{OK: true, J: s.j, Tree: list(s.kids), touched: t})
					}
					continue
				}
				work = append(work, state{o.J, push(s.kids, o.Tree), t})
			}
		}

	case Opt:
		for _, o := range m.match(e.Kids[0], i) {
			if o.OK {
				out = append(out, o)
			} else {
				out = append(out, Outcome{OK: true, J: i, Tree: &Tree{}, touched: o.touched})
			}
		}

	case List:
		if e.sugar == nil {
			a, b := e.Kids[0], e.Kids[1]
			e.sugar = &Expr{K: Seq, Kids: []*Expr{a, {K: Star, Kids: []*Expr{{K: Seq, Kids: []*Expr{b, a}}}}}}
		}
		return m.match(e.sugar, i)

	case Adj:
		for _, oa := range m.match(e.Kids[0], i) {
			if !oa.OK || oa.J == i {
				out = append(out, fail(oa.touched))
				continue
			}
			for _, ob := range m.match(e.Kids[1], oa.J) {
				switch {
				case !ob.OK, ob.J == oa.J:
					out = append(out, fail(true))
				case m.Toks[oa.J-1].End != m.Toks[oa.J].Off:
					out = append(out, fail(true))
				default:
					out = append(out, Outcome{OK: true, J: ob.J, Tree: list([]*Tree{oa.Tree, ob.Tree}), touched: true})
				}
			}
		}

	case Ref:
		for _, f := range m.stack {
			if f.rule == e.S && f.pos == i {
				m.Diverged = true
				return []Outcome{fail(false)}
			}
		}
		body := m.G.rule(e.S)
		if body == nil {
			panic("tplref: undefined rule " + e.S)
		}
		m.stack = append(m.stack, frame{e.S, i})
		out = m.match(body, i)
		m.stack = m.stack[:len(m.stack)-1]
		return out
	}
	m.made += len(out)
	if m.made > maxOutcomes {
		m.Overflow = true
	}
	if len(out) > 2 {
		out = compactFails(out)
	}
	return out
}

// laterCanStart: some alternative in alts can consume tok as its first token (nullable prefixes skipped).
func (m *Matcher) laterCanStart(alts []*Expr, tok *Token) bool {
	if m.nul == nil {
		m.nul = Analyze(m.G).Nullable
	}
	for _, a := range alts {
		if m.canStart(a, tok, map[string]bool{}) {
			return true
		}
	}
	return false
}

func (m *Matcher) canStart(e *Expr, tok *Token, seen map[string]bool) bool {
	switch e.K {
	case Tok, Lit:
		return leafMatches(e, tok)
	case Seq:
		for _, k := range e.Kids {
			if m.canStart(k, tok, seen) {
				return true
			}
			if !nullable(k, m.nul) {
				return false
			}
		}
		return false
	case Alt:
		for _, k := range e.Kids {
			if m.canStart(k, tok, seen) {
				return true
			}
		}
		return false
	case Star, Plus, Opt, Adj:
		return m.canStart(e.Kids[0], tok, seen)
	case List: // R1 *(R2 R1)
		if m.canStart(e.Kids[0], tok, seen) {
			return true
		}
		return nullable(e.Kids[0], m.nul) && m.canStart(e.Kids[1], tok, seen)
	case Ref:
		if seen[e.S] {
			return false
		}
		seen[e.S] = true
		if r := m.G.rule(e.S); r != nil {
			return m.canStart(r, tok, seen)
		}
	}
	return false
}

// Run matches the root rule at token 0 and returns the distinct outcomes
// (successes distinguished by consumed count and tree; all failures are one).
func (m *Matcher) Run() []Outcome {
	m.Diverged, m.Overflow, m.made, m.stack = false, false, 0, m.stack[:0]
	raw := m.match(&Expr{K: Ref, S: m.G.Rules[0].Name}, 0)
	seen := map[string]bool{}
	var out []Outcome
	for _, o := range raw {
		k := o.String()
		if !seen[k] {
			seen[k] = true
			out = append(out, o)
		}
	}
	return out
}

// Verdict is what the README prescribes for one (grammar, input) pair.
type Verdict struct {
	Judged      bool    // exactly one outcome in every mode: Want is prescribed
	Want        Outcome // valid if Judged
	PEG, Commit Outcome
	PEGeqCommit bool
	NumAny      int  // size of the Any outcome set
	Diverged    bool // see Matcher.Diverged (any mode)
	Overflow    bool
}

func Judge(g *Grammar, toks []Token) Verdict {
	var v Verdict
	m := &Matcher{G: g, Toks: toks, Mode: Any}
	any := m.Run()
	v.NumAny, v.Diverged, v.Overflow = len(any), m.Diverged, m.Overflow
	if len(any) == 1 && !m.Overflow {
		v.Judged, v.Want, v.PEG, v.Commit, v.PEGeqCommit = true, any[0], any[0], any[0], true
		return v
	}
	m.Mode = PEG
	p := m.Run()
	v.Diverged = v.Diverged || m.Diverged
	m.Mode = Commit
	c := m.Run()
	v.Diverged = v.Diverged || m.Diverged
	if len(p) == 1 && len(c) == 1 {
		v.PEG, v.Commit = p[0], c[0]
		v.PEGeqCommit = p[0].String() == c[0].String()
	}
	return v
}

// ---------------------------------------------------------------- static analyses

type edge struct{ direct, viaNullable bool }

type Analysis struct {
	Nullable map[string]bool // per rule
	// NullableRep: operators ("*", "+", "%") that have a repetition body which can
	// succeed without consuming input (for % : R1 and R2 both nullable, i.e. the
	// body (R2 R1) of the implied repetition).
	NullableRep []string
	// LeftRec: "direct", "indirect", "through-nullable-prefix".
	LeftRec []string
}

// Classes returns the defect-class names, sorted.
func (a *Analysis) Classes() []string {
	var out []string
	for _, c := range a.LeftRec {
		out = append(out, "left-recursion:"+c)
	}
	for _, op := range a.NullableRep {
		out = append(out, "nullable-repetition-body:"+op)
	}
	sort.Strings(out)
	return out
}

func nullable(e *Expr, env map[string]bool) bool {
	switch e.K {
	case Tok:
		return false
	case Lit:
		return e.S == ""
	case Seq:
		for _, k := range e.Kids {
			if !nullable(k, env) {
				return false
			}
		}
		return true
	case Alt:
		for _, k := range e.Kids {
			if nullable(k, env) {
				return true
			}
		}
		return false
	case Star, Opt:
		return true
	case Plus:
		return nullable(e.Kids[0], env)
	case List: // R1 *(R2 R1)
		return nullable(e.Kids[0], env)
	case Adj: // both sides must consume
		return false
	case Ref:
		return env[e.S]
	}
	return false
}

// leftCalls adds to out the rules that e may invoke at its own start position.
// via = some nullable prefix has already been skipped.
func leftCalls(e *Expr, env map[string]bool, via bool, out map[string]*edge) {
	switch e.K {
	case Seq:
		for _, k := range e.Kids {
			leftCalls(k, env, via, out)
			if !nullable(k, env) {
				return
			}
			via = true
		}
	case Alt:
		for _, k := range e.Kids {
			leftCalls(k, env, via, out)
		}
	case Star, Plus, Opt:
		leftCalls(e.Kids[0], env, via, out)
	case List:
		a, b := e.Kids[0], e.Kids[1]
		leftCalls(a, env, via, out)
		if nullable(a, env) {
			leftCalls(b, env, true, out)
			if nullable(b, env) {
				leftCalls(a, env, true, out)
			}
		}
	case Adj: // R2 is only tried after R1 consumed a token
		leftCalls(e.Kids[0], env, via, out)
	case Ref:
		ed := out[e.S]
		if ed == nil {
			ed = &edge{}
			out[e.S] = ed
		}
		if via {
			ed.viaNullable = true
		} else {
			ed.direct = true
		}
	}
}

func nullableReps(e *Expr, env map[string]bool, ops map[string]bool) {
	switch e.K {
	case Star:
		if nullable(e.Kids[0], env) {
			ops["*"] = true
		}
	case Plus:
		if nullable(e.Kids[0], env) {
			ops["+"] = true
		}
	case List:
		if nullable(e.Kids[0], env) && nullable(e.Kids[1], env) {
			ops["%"] = true
		}
	}
	for _, k := range e.Kids {
		nullableReps(k, env, ops)
	}
}

func Analyze(g *Grammar) *Analysis {
	a := &Analysis{Nullable: map[string]bool{}}
	for changed := true; changed; { // least fixpoint
		changed = false
		for _, r := range g.Rules {
			if !a.Nullable[r.Name] && nullable(r.Body, a.Nullable) {
				a.Nullable[r.Name] = true
				changed = true
			}
		}
	}
	ops := map[string]bool{}
	for _, r := range g.Rules {
		nullableReps(r.Body, a.Nullable, ops)
	}
	for _, op := range []string{"*", "+", "%"} {
		if ops[op] {
			a.NullableRep = append(a.NullableRep, op)
		}
	}
	// left recursion: cycles in the "may call at the same position" graph
	graph := map[string]map[string]*edge{}
	for _, r := range g.Rules {
		graph[r.Name] = map[string]*edge{}
		leftCalls(r.Body, a.Nullable, false, graph[r.Name])
	}
	cls := map[string]bool{}
	// walk every simple cycle by DFS (grammars here have very few rules)
	var names []string
	for _, r := range g.Rules {
		names = append(names, r.Name)
	}
	var dfs func(start, cur string, length int, via, allDirect bool, seen map[string]bool)
	dfs = func(start, cur string, length int, via, allDirect bool, seen map[string]bool) {
		for to, ed := range graph[cur] {
			if graph[to] == nil {
				continue
			}
			for _, useVia := range []bool{false, true} {
				if useVia && !ed.viaNullable || !useVia && !ed.direct {
					continue
				}
				v := via || useVia
				if to == start {
					switch {
					case v:
						cls["through-nullable-prefix"] = true
					case length == 0:
						cls["direct"] = true
					default:
						cls["indirect"] = true
					}
					continue
				}
				if seen[to] {
					continue
				}
				seen[to] = true
				dfs(start, to, length+1, v, allDirect, seen)
				delete(seen, to)
			}
		}
	}
	for _, n := range names {
		dfs(n, n, 0, false, true, map[string]bool{n: true})
	}
	for _, c := range []string{"direct", "indirect", "through-nullable-prefix"} {
		if cls[c] {
			a.LeftRec = append(a.LeftRec, c)
		}
	}
	return a
}

// ---------------------------------------------------------------- self test

func L(s string) *Expr              { return &Expr{K: Lit, S: s} }
func T(s string) *Expr              { return &Expr{K: Tok, S: s} }
func R(s string) *Expr              { return &Expr{K: Ref, S: s} }
func N(k Kind, kids ...*Expr) *Expr { return &Expr{K: k, Kids: kids} }

func G1(body *Expr) *Grammar { return &Grammar{Rules: []Rule{{"doc", body}}} }

// Toks builds tokens from spellings with a single blank between them, except
// that glue[i] (optional) removes the blank between token i and i+1.
func Toks(words []string, glue []bool) ([]Token, string) {
	var ts []Token
	var sb strings.Builder
	for i, w := range words {
		if i > 0 && !(i-1 < len(glue) && glue[i-1]) {
			sb.WriteByte(' ')
		}
		kind := w
		switch {
		case isIdentStart(w[0]):
			kind = "IDENT"
		case w[0] >= '0' && w[0] <= '9':
			kind = "INT"
		}
		ts = append(ts, Token{Kind: kind, Text: w, Off: sb.Len(), End: sb.Len() + len(w)})
		sb.WriteString(w)
	}
	return ts, sb.String()
}

// SelfTest checks the model against hand-computed tables (README examples).
func SelfTest() error {
	type row struct {
		g     *Grammar
		text  string
		words []string
		glue  []bool
		want  string // "" = not judged
	}
	a, i, c := L("a"), T("INT"), L(",")
	rows := []row{
		{G1(N(List, i, c)), "doc = INT % \",\"\n", []string{"1", ",", "2", ",", "3"}, nil,
			"ok n=5 [<INT 1 @0> [[<, , @2> <INT 2 @4>] [<, , @6> <INT 3 @8>]]]"},
		{G1(N(List, i, c)), "", []string{"1", ","}, nil, "ok n=1 [<INT 1 @0> []]"},
		{G1(N(Seq, N(Opt, a), i)), "doc = ?\"a\" INT\n", []string{"1"}, nil, "ok n=1 [nil <INT 1 @0>]"},
		{G1(N(Star, N(Seq, a, i))), "doc = *(\"a\" INT)\n", []string{"a", "1", "a", ","}, nil, "ok n=2 [[<IDENT a @0> <INT 1 @2>]]"},
		{G1(N(Plus, a)), "doc = +\"a\"\n", []string{"1"}, nil, "fail"},
		{G1(N(Adj, a, c)), "doc = \"a\" ++ \",\"\n", []string{"a", ","}, []bool{true}, "ok n=2 [<IDENT a @0> <, , @1>]"},
		{G1(N(Adj, a, c)), "", []string{"a", ","}, nil, "fail"},
		{G1(N(Adj, N(Opt, a), c)), "doc = ?\"a\" ++ \",\"\n", []string{","}, nil, "fail"},
		{G1(N(Alt, a, N(Seq, a, i))), "doc = \"a\" | \"a\" INT\n", []string{"a", "1"}, nil, "ok n=1 <IDENT a @0>"},
		{G1(N(Alt, N(Seq, a, L("b")), N(Opt, L("z")))), "doc = \"a\" \"b\" | ?\"z\"\n", []string{"a", "q"}, nil, ""},
		{G1(N(Plus, N(Plus, a))), "doc = + +\"a\"\n", []string{"a", "a"}, nil, "ok n=2 [[<IDENT a @0> <IDENT a @2>]]"},
		{G1(N(Seq, N(Seq, a, i), c)), "doc = (\"a\" INT) \",\"\n", []string{"a", "1", ","}, nil, "ok n=3 [[<IDENT a @0> <INT 1 @2>] <, , @4>]"},
		{G1(N(List, N(List, i, c), L("+"))), "doc = INT % \",\" % \"+\"\n", []string{"1"}, nil, "ok n=1 [[<INT 1 @0> []] []]"},
		{G1(N(List, i, N(List, c, L("+")))), "doc = INT % (\",\" % \"+\")\n", []string{"1"}, nil, "ok n=1 [<INT 1 @0> []]"},
		{G1(N(Adj, i, N(Adj, c, a))), "doc = INT ++ (\",\" ++ \"a\")\n", []string{"1", ",", "a"}, []bool{true, true}, "ok n=3 [<INT 1 @0> [<, , @1> <IDENT a @2>]]"},
	}
	for _, r := range rows {
		if r.text != "" && r.g.Text() != r.text {
			return fmt.Errorf("printer: got %q want %q", r.g.Text(), r.text)
		}
		ts, _ := Toks(r.words, r.glue)
		v := Judge(r.g, ts)
		got := ""
		if v.Judged {
			got = v.Want.String()
		}
		if got != r.want {
			return fmt.Errorf("match %q on %v: got %q want %q", r.g.Text(), r.words, got, r.want)
		}
	}
	type arow struct {
		g    *Grammar
		want string
	}
	two := func(b1, b2 *Expr) *Grammar { return &Grammar{Rules: []Rule{{"doc", b1}, {"aux", b2}}} }
	arows := []arow{
		{G1(N(Star, N(Opt, a))), "nullable-repetition-body:*"},
		{G1(N(Plus, N(Star, a))), "nullable-repetition-body:+"},
		{G1(N(List, N(Opt, a), N(Opt, c))), "nullable-repetition-body:%"},
		{G1(N(List, N(Opt, a), c)), ""},
		{G1(N(Star, N(Adj, N(Opt, a), c))), ""},
		{G1(N(Seq, R("doc"), L("+"), i)), "left-recursion:direct"},
		{G1(N(Seq, N(Opt, a), R("doc"))), "left-recursion:through-nullable-prefix"},
		{G1(N(Seq, a, R("doc"))), ""},
		{G1(N(Adj, N(Opt, a), R("doc"))), ""},
		{two(N(Seq, R("aux"), a), N(Seq, R("doc"), i)), "left-recursion:indirect"},
		{two(N(Seq, R("aux"), a), N(Alt, i, N(Seq, a, R("doc")))), ""},
		{two(N(Star, R("aux")), N(Opt, a)), "nullable-repetition-body:*"},
		{G1(N(Star, R("doc"))), "left-recursion:direct,nullable-repetition-body:*"},
	}
	for _, r := range arows {
		if got := strings.Join(Analyze(r.g).Classes(), ","); got != r.want {
			return fmt.Errorf("analysis of %q: got %q want %q", r.g.Text(), got, r.want)
		}
	}
	return nil
}

// Package gocheck type-checks Go source in-process with go/types (the type checker of the Go
// specification), so that a program check can tell "the generated Go is not valid Go" apart from
// the units that build, without paying a `go build` + link per unit.  It is a pre-filter: the
// checks confirm a rejected class with the real toolchain.
package gocheck

import (
	"bytes"
	"fmt"
	"go/ast"
	"go/importer"
	"go/parser"
	"go/token"
	"go/types"
	"io"
	"os"
	"os/exec"
	"strconv"
	"strings"
	"sync"
)

var (
	mu      sync.Mutex
	fset    = token.NewFileSet()
	exports = map[string]string{} // import path -> export data file
	imp     types.Importer
)

// locate asks the go command (once per new set of paths, one process) for the export data files.
func locate(paths []string) error {
	var need []string
	for _, p := range paths {
		if _, ok := exports[p]; !ok && p != "unsafe" {
			need = append(need, p)
		}
	}
	if len(need) == 0 {
		return nil
	}
	cmd := exec.Command("go", append([]string{"list", "-export", "-f", "{{.ImportPath}}\t{{.Export}}"}, need...)...)
	var stderr bytes.Buffer
	cmd.Stderr = &stderr
	out, err := cmd.Output()
	if err != nil {
		return fmt.Errorf("go list -export %v: %v: %s", need, err, stderr.String())
	}
	for _, l := range strings.Split(strings.TrimSpace(string(out)), "\n") {
		if f := strings.Split(l, "\t"); len(f) == 2 && f[1] != "" {
			exports[f[0]] = f[1]
		}
	}
	return nil
}

func lookup(path string) (io.ReadCloser, error) {
	if _, ok := exports[path]; !ok {
		if err := locate([]string{path}); err != nil {
			return nil, err
		}
	}
	f, ok := exports[path]
	if !ok {
		return nil, fmt.Errorf("no export data for %q", path)
	}
	return os.Open(f)
}

// Check parses and type-checks one main-package file; it returns "" if go/types accepts it and
// otherwise the first (at most three) diagnostics.
func Check(filename string, src []byte) string {
	mu.Lock()
	defer mu.Unlock()
	if imp == nil {
		imp = importer.ForCompiler(fset, "gc", lookup)
	}
	f, err := parser.ParseFile(fset, filename, src, parser.SkipObjectResolution)
	if err != nil {
		return "syntax: " + err.Error()
	}
	var paths []string
	for _, im := range f.Imports {
		if p, err := strconv.Unquote(im.Path.Value); err == nil {
			paths = append(paths, p)
		}
	}
	if err := locate(paths); err != nil {
		return "harness: " + err.Error()
	}
	var msgs []string
	conf := types.Config{
		Importer:  imp,
		GoVersion: "go1.23",
		Error: func(err error) {
			if len(msgs) < 3 {
				msgs = append(msgs, err.Error())
			}
		},
	}
	conf.Check("main", fset, []*ast.File{f}, nil)
	return strings.Join(msgs, " | ")
}

package gocheck

import (
	"fmt"
	"strings"

	"verif/progs"
)

// Stats says how the verdicts of RunUnits were obtained.
type Stats struct {
	CompileErrs int // units rejected by the XGo compiler
	Suspects    int // units whose generated Go is rejected by go/types
	Confirmed   int // of these: built alone with the real toolchain (first unit of each class), which rejected them too
}

func (a *Stats) Add(b Stats) {
	a.CompileErrs += b.CompileErrs
	a.Suspects += b.Suspects
	a.Confirmed += b.Confirmed
}

// RunUnits is progs.RunUnits with an in-process pre-filter: units that the XGo compiler accepts
// but whose generated Go is rejected by go/types are kept out of the packed programs (one such
// unit would make progs split its whole pack into single-unit programs, ~0.5 s each).  The first
// such unit of every class (classOf) is built alone with the real toolchain to confirm the
// verdict; the others get BuildErr = the go/types diagnostics.  A disagreement between go/types
// and `go build` is returned as an error (harness inconsistency, no verdict).
// Failing units are isolated by bisection of the packed source (units are independent functions).
func RunUnits(units []progs.Unit, o progs.Options, classOf func(i int) string) ([]progs.UnitResult, Stats, error) {
	var st Stats
	if o.PerProgram == 0 {
		o.PerProgram = 150
	}
	file := o.FileName
	if file == "" {
		file = "main.xgo"
	}
	res := make([]progs.UnitResult, len(units))
	suspect := map[int]string{}
	var clean []int
	var classify func(idx []int)
	classify = func(idx []int) {
		if len(idx) == 0 {
			return
		}
		out, err := progs.CompileXGo(file, progs.Source(units, idx, o, true), o.Conf)
		msg := ""
		if err == nil {
			if msg = Check("main.go", out); msg == "" {
				clean = append(clean, idx...)
				return
			}
		}
		if len(idx) == 1 {
			if err != nil {
				res[idx[0]].CompileErr = firstLines(err.Error(), 3)
				st.CompileErrs++
			} else {
				suspect[idx[0]] = msg
			}
			return
		}
		classify(idx[:len(idx)/2])
		classify(idx[len(idx)/2:])
	}
	for start := 0; start < len(units); start += o.PerProgram {
		end := min(start+o.PerProgram, len(units))
		idx := make([]int, 0, end-start)
		for i := start; i < end; i++ {
			idx = append(idx, i)
		}
		classify(idx)
	}
	sub := make([]progs.Unit, len(clean))
	for n, i := range clean {
		sub[n] = units[i]
	}
	r, err := progs.RunUnits(sub, o)
	if err != nil {
		return nil, st, err
	}
	for n, i := range clean {
		res[i] = r[n]
	}
	// suspects: confirm the first of each class with the real toolchain
	var confirm []int
	seen := map[string]bool{}
	for i := range units {
		if _, ok := suspect[i]; ok {
			st.Suspects++
			if cl := classOf(i); !seen[cl] {
				seen[cl] = true
				confirm = append(confirm, i)
			}
		}
	}
	if len(confirm) > 0 {
		sub := make([]progs.Unit, len(confirm))
		for n, i := range confirm {
			sub[n] = units[i]
		}
		o1 := o
		o1.PerProgram = 1
		r, err := progs.RunUnits(sub, o1)
		if err != nil {
			return nil, st, err
		}
		for n, i := range confirm {
			if r[n].BuildErr == "" && r[n].RefBuildErr == "" {
				return nil, st, fmt.Errorf("go/types rejects the Go generated for unit %d (%s) but go build accepts it: %s", i, classOf(i), suspect[i])
			}
			st.Confirmed++
			res[i] = r[n]
			delete(suspect, i)
		}
	}
	for i, msg := range suspect {
		// the reference of such a unit is not run; judges look at BuildErr first
		res[i].BuildErr = "go/types (class confirmed with go build): " + strings.TrimSpace(msg)
	}
	return res, st, nil
}

func firstLines(s string, n int) string {
	l := strings.Split(s, "\n")
	if len(l) > n {
		l = l[:n]
	}
	return strings.Join(l, " | ")
}

// Package framingref is a small reference model of the LSP-style base protocol
// ("Content-Length: N\r\n\r\n" + N bytes of JSON) and of the JSON-RPC 2.0
// message shapes carried in it. It is written from the two specifications and
// from encoding/json only; it shares no code with x/jsonrpc2.
//
// The model is three-valued. For a byte stream it answers
//
//	Accept  the prefix is a well-formed frame under the strict grammar and its
//	        body is an unambiguously valid JSON-RPC message (Msg is set),
//	Reject  the prefix is malformed under the strict grammar AND under the most
//	        lenient reading the model knows (LF line ends, surrounding white
//	        space, any case of the header name, any of several Content-Length
//	        headers): every reader must report an error,
//	Unsure  the specifications / the documentation are silent; the caller must
//	        not judge acceptance, only the conditional facts (Cands).
package framingref

import (
	"bytes"
	"encoding/json"
	"fmt"
	"math"
	"regexp"
	"strconv"
	"strings"
	"unicode/utf8"
)

type Class int

const (
	Accept Class = iota
	Reject
	Unsure
)

func (c Class) String() string { return [...]string{"accept", "reject", "unsure"}[c] }

// Msg is the abstract content of one JSON-RPC message.
type Msg struct {
	Kind    string `json:"kind"` // call | notification | result | error
	Method  string `json:"method,omitempty"`
	IDKind  string `json:"id_kind,omitempty"` // "" | int | str
	IDInt   int64  `json:"-"`
	IDText  string `json:"id,omitempty"`      // decimal text of IDInt, or the string id
	Payload string `json:"payload,omitempty"` // raw JSON text of params / result, "" = absent
	ErrCode int64  `json:"err_code,omitempty"`
	ErrMsg  string `json:"err_msg,omitempty"`
	ErrData string `json:"err_data,omitempty"`
	// CodeFree: the error code is not determined by the input (a plain Go error).
	CodeFree bool `json:"code_free,omitempty"`
}

// Body is the verdict on one frame body.
type Body struct {
	Class  Class
	Reason string
	Msg    *Msg // set whenever the shape could be read, also for Unsure
}

type member struct {
	key string
	raw json.RawMessage
}

// members lists the members of a JSON object in order (duplicates kept).
func members(b []byte) ([]member, error) {
	dec := json.NewDecoder(bytes.NewReader(b))
	dec.UseNumber()
	tok, err := dec.Token()
	if err != nil {
		return nil, err
	}
	if d, ok := tok.(json.Delim); !ok || d != '{' {
		return nil, fmt.Errorf("not an object")
	}
	var ms []member
	for dec.More() {
		kt, err := dec.Token()
		if err != nil {
			return nil, err
		}
		k, ok := kt.(string)
		if !ok {
			return nil, fmt.Errorf("key is not a string")
		}
		var raw json.RawMessage
		if err := dec.Decode(&raw); err != nil {
			return nil, err
		}
		ms = append(ms, member{k, raw})
	}
	if _, err := dec.Token(); err != nil {
		return nil, err
	}
	return ms, nil
}

var reInt = regexp.MustCompile(`^-?(0|[1-9][0-9]*)$`)

func first(b []byte) byte {
	b = bytes.TrimLeft(b, " \t\r\n")
	if len(b) == 0 {
		return 0
	}
	return b[0]
}

func jstring(raw []byte) (string, bool) {
	if first(raw) != '"' {
		return "", false
	}
	var s string
	if json.Unmarshal(raw, &s) != nil {
		return "", false
	}
	return s, true
}

func jint(raw []byte) (int64, bool) {
	t := strings.TrimSpace(string(raw))
	if !reInt.MatchString(t) {
		return 0, false
	}
	v, err := strconv.ParseInt(t, 10, 64)
	return v, err == nil
}

// lookup returns the member with exactly that key. fuzzy reports that the
// selection is ambiguous: the key occurs twice or occurs in another case
// (encoding/json style readers match keys case-insensitively, the
// specification does not).
func lookup(ms []member, key string) (raw json.RawMessage, present, fuzzy bool) {
	n := 0
	for _, m := range ms {
		if m.key == key {
			n++
			raw, present = m.raw, true
		} else if strings.EqualFold(m.key, key) {
			fuzzy = true
		}
	}
	if n > 1 {
		fuzzy = true
	}
	return
}

var knownKeys = []string{"jsonrpc", "id", "method", "params", "result", "error"}

// DecodeBody judges the bytes of one frame body.
func DecodeBody(b []byte) Body {
	if !json.Valid(b) {
		return Body{Reject, "body-invalid-json", nil}
	}
	if !utf8.Valid(b) {
		return Body{Unsure, "body-invalid-utf8", nil}
	}
	switch first(b) {
	case '{':
	case '[':
		return Body{Unsure, "body-batch", nil}
	default:
		return Body{Reject, "body-not-object", nil}
	}
	ms, err := members(b)
	if err != nil {
		return Body{Unsure, "body-object-walk", nil}
	}
	// version tag: the one demand JSON-RPC 2.0 makes of every message
	vraw, vpresent, vfuzzy := lookup(ms, "jsonrpc")
	if !vpresent && !vfuzzy {
		return Body{Reject, "body-no-version", nil}
	}
	if vfuzzy {
		return Body{Unsure, "body-version-ambiguous", nil}
	}
	if v, ok := jstring(vraw); !ok || v != "2.0" {
		return Body{Reject, "body-bad-version", nil}
	}
	unsure := ""
	note := func(r string) {
		if unsure == "" {
			unsure = r
		}
	}
	for _, m := range ms {
		known := false
		for _, k := range knownKeys {
			if m.key == k {
				known = true
			}
		}
		if !known {
			note("body-unknown-member")
		}
	}
	msg := &Msg{}
	idRaw, hasID, f1 := lookup(ms, "id")
	methRaw, hasMethod, f2 := lookup(ms, "method")
	parRaw, hasParams, f3 := lookup(ms, "params")
	resRaw, hasResult, f4 := lookup(ms, "result")
	errRaw, hasErr, f5 := lookup(ms, "error")
	if f1 || f2 || f3 || f4 || f5 {
		return Body{Unsure, "body-member-ambiguous", nil}
	}
	if hasID {
		if s, ok := jstring(idRaw); ok {
			msg.IDKind, msg.IDText = "str", s
		} else if v, ok := jint(idRaw); ok {
			msg.IDKind, msg.IDInt, msg.IDText = "int", v, strconv.FormatInt(v, 10)
		} else {
			return Body{Unsure, "body-id-shape", nil} // null, fraction, exponent, out of int64, other types
		}
	}
	if hasMethod {
		s, ok := jstring(methRaw)
		if !ok || s == "" {
			return Body{Unsure, "body-method-shape", nil}
		}
		msg.Method = s
		if hasResult || hasErr {
			return Body{Unsure, "body-request-with-result", nil}
		}
		if hasParams {
			msg.Payload = strings.TrimSpace(string(parRaw))
			if c := first(parRaw); c != '{' && c != '[' {
				note("body-params-not-structured")
			}
		}
		msg.Kind = "notification"
		if hasID {
			msg.Kind = "call"
		}
	} else {
		if !hasID {
			return Body{Unsure, "body-no-method-no-id", nil}
		}
		if hasParams {
			note("body-response-with-params")
		}
		switch {
		case hasResult && hasErr:
			return Body{Unsure, "body-result-and-error", nil}
		case hasErr:
			if first(errRaw) != '{' {
				return Body{Unsure, "body-error-shape", nil}
			}
			ems, err := members(errRaw)
			if err != nil {
				return Body{Unsure, "body-error-shape", nil}
			}
			cRaw, hasC, g1 := lookup(ems, "code")
			mRaw, hasM, g2 := lookup(ems, "message")
			dRaw, hasD, g3 := lookup(ems, "data")
			if g1 || g2 || g3 || !hasC || !hasM {
				return Body{Unsure, "body-error-shape", nil}
			}
			code, ok1 := jint(cRaw)
			m, ok2 := jstring(mRaw)
			if !ok1 || !ok2 {
				return Body{Unsure, "body-error-shape", nil}
			}
			for _, e := range ems {
				if e.key != "code" && e.key != "message" && e.key != "data" {
					note("body-error-unknown-member")
				}
			}
			msg.Kind, msg.ErrCode, msg.ErrMsg = "error", code, m
			if hasD {
				msg.ErrData = strings.TrimSpace(string(dRaw))
			}
		case hasResult:
			msg.Kind = "result"
			msg.Payload = strings.TrimSpace(string(resRaw))
		default:
			msg.Kind = "result"
			note("body-response-without-result")
		}
	}
	if unsure != "" {
		return Body{Unsure, unsure, msg}
	}
	return Body{Accept, "", msg}
}

// Frame is the verdict on the frame that starts a byte stream.
type Frame struct {
	Class  Class
	Reason string
	// HeaderStrict: the header section obeys the strict grammar (CRLF line
	// ends, token names, exactly one Content-Length, no unknown field other
	// than Content-Type). Then HeaderEnd and Length are the strict ones.
	HeaderStrict bool
	HeaderEnd    int   // offset of the first body byte, -1 when no header end exists
	Length       int64 // declared length (strict header only)
	Body         Body  // strict header with complete body only
	Msg          *Msg  // Accept only
	// Cands are the usable (>0) Content-Length values of the lenient reading.
	Cands []int64
	// MaxEnd bounds what a reader may consume from the stream for this frame:
	// the header plus the largest declared length (clipped to the stream).
	// -1: no header end was found, no bound is derived.
	MaxEnd int
}

// FrameLen is the length of an accepted frame.
func (f *Frame) FrameLen() int { return f.HeaderEnd + int(f.Length) }

const maxLen = math.MaxInt32

func isTchar(c byte) bool {
	switch {
	case c >= 'a' && c <= 'z', c >= 'A' && c <= 'Z', c >= '0' && c <= '9':
		return true
	}
	return strings.IndexByte("!#$%&'*+-.^_`|~", c) >= 0
}

var reStrictLen = regexp.MustCompile(`^[1-9][0-9]{0,9}$`)

// StrictHeader parses the header section under the strict grammar.
func StrictHeader(s []byte) (headerEnd int, length int64, ok bool) {
	cur, nCL := 0, 0
	for {
		i := bytes.Index(s[cur:], []byte("\r\n"))
		if i < 0 {
			return 0, 0, false
		}
		line := s[cur : cur+i]
		cur += i + 2
		if len(line) == 0 {
			break
		}
		for _, c := range line {
			if c != '\t' && (c < 0x20 || c > 0x7e) {
				return 0, 0, false
			}
		}
		colon := bytes.IndexByte(line, ':')
		if colon < 1 {
			return 0, 0, false
		}
		name := string(line[:colon])
		for i := 0; i < len(name); i++ {
			if !isTchar(name[i]) {
				return 0, 0, false
			}
		}
		value := strings.Trim(string(line[colon+1:]), " \t")
		switch {
		case name == "Content-Length":
			nCL++
			if !reStrictLen.MatchString(value) {
				return 0, 0, false
			}
			v, err := strconv.ParseInt(value, 10, 64)
			if err != nil || v > maxLen {
				return 0, 0, false
			}
			length = v
		case name == "Content-Type":
			if value == "" {
				return 0, 0, false
			}
		default: // other case of a known name, or a field the base protocol does not define
			return 0, 0, false
		}
	}
	if nCL != 1 {
		return 0, 0, false
	}
	return cur, length, true
}

const ws = " \t\r\n\v\f"

var reLenientLen = regexp.MustCompile(`^\+?[0-9]+$`)

// Parse judges the frame at the start of s.
func Parse(s []byte) Frame {
	if he, l, ok := StrictHeader(s); ok {
		fr := Frame{HeaderStrict: true, HeaderEnd: he, Length: l, Cands: []int64{l}}
		fr.MaxEnd = clip(int64(he)+l, len(s))
		if int64(he)+l > int64(len(s)) {
			fr.Class, fr.Reason = Reject, "body-truncated"
			return fr
		}
		fr.Body = DecodeBody(s[he : he+int(l)])
		fr.Class, fr.Reason = fr.Body.Class, fr.Body.Reason
		if fr.Class == Accept {
			fr.Msg = fr.Body.Msg
		}
		return fr
	}
	// lenient reading
	fr := Frame{HeaderEnd: -1, MaxEnd: -1}
	cur := 0
	nCand := 0
	for {
		i := bytes.IndexByte(s[cur:], '\n')
		if i < 0 {
			fr.Class, fr.Reason = Reject, "header-unterminated"
			return fr
		}
		line := strings.Trim(string(s[cur:cur+i]), ws)
		cur += i + 1
		if line == "" {
			break
		}
		colon := strings.IndexByte(line, ':')
		if colon < 0 {
			fr.Class, fr.Reason = Reject, "header-no-colon"
			return fr
		}
		name := strings.Trim(line[:colon], ws)
		if !strings.EqualFold(name, "Content-Length") {
			continue
		}
		nCand++
		value := strings.Trim(line[colon+1:], ws)
		if !reLenientLen.MatchString(value) {
			continue
		}
		v, err := strconv.ParseUint(strings.TrimPrefix(value, "+"), 10, 62)
		if err != nil {
			v = 1 << 62 // astronomically large: treated as a length no stream can satisfy
		}
		if v > 0 {
			fr.Cands = append(fr.Cands, int64(v))
		}
	}
	fr.HeaderEnd = cur
	if nCand == 0 {
		fr.Class, fr.Reason = Reject, "no-content-length"
		return fr
	}
	if len(fr.Cands) == 0 {
		fr.Class, fr.Reason = Reject, "bad-content-length"
		return fr
	}
	var max int64
	reason := ""
	allBad := true
	for _, l := range fr.Cands {
		if l > max {
			max = l
		}
		if int64(cur)+l > int64(len(s)) {
			if reason == "" {
				reason = "body-truncated"
			}
			continue
		}
		b := DecodeBody(s[cur : cur+int(l)])
		if b.Class == Reject {
			if reason == "" {
				reason = b.Reason
			}
			continue
		}
		allBad = false
	}
	fr.MaxEnd = clip(int64(cur)+max, len(s))
	if allBad {
		fr.Class, fr.Reason = Reject, reason
		return fr
	}
	fr.Class, fr.Reason = Unsure, "header-lenient"
	return fr
}

func clip(v int64, n int) int {
	if v > int64(n) {
		return n
	}
	return int(v)
}

// FrameBytes frames a body the canonical way.
func FrameBytes(body []byte) []byte {
	return append([]byte("Content-Length: "+strconv.Itoa(len(body))+"\r\n\r\n"), body...)
}

func q(s string) string {
	b, _ := json.Marshal(s)
	return string(b)
}

// EncodeBody writes the canonical body of an abstract message.
func EncodeBody(m Msg) []byte {
	var sb strings.Builder
	sb.WriteString(`{"jsonrpc":"2.0"`)
	switch m.IDKind {
	case "int":
		sb.WriteString(`,"id":` + strconv.FormatInt(m.IDInt, 10))
	case "str":
		sb.WriteString(`,"id":` + q(m.IDText))
	}
	switch m.Kind {
	case "call", "notification":
		sb.WriteString(`,"method":` + q(m.Method))
		if m.Payload != "" {
			sb.WriteString(`,"params":` + m.Payload)
		}
	case "result":
		if m.Payload != "" {
			sb.WriteString(`,"result":` + m.Payload)
		}
	case "error":
		sb.WriteString(`,"error":{"code":` + strconv.FormatInt(m.ErrCode, 10) + `,"message":` + q(m.ErrMsg))
		if m.ErrData != "" {
			sb.WriteString(`,"data":` + m.ErrData)
		}
		sb.WriteString("}")
	}
	sb.WriteString("}")
	return []byte(sb.String())
}

// JSONEqual reports whether two JSON texts denote the same value (numbers are
// compared by their literal, object member order is irrelevant).
func JSONEqual(a, b string) bool {
	var x, y any
	da := json.NewDecoder(strings.NewReader(a))
	da.UseNumber()
	db := json.NewDecoder(strings.NewReader(b))
	db.UseNumber()
	if da.Decode(&x) != nil || db.Decode(&y) != nil {
		return a == b
	}
	return deepEq(x, y)
}

func deepEq(x, y any) bool {
	switch xv := x.(type) {
	case map[string]any:
		yv, ok := y.(map[string]any)
		if !ok || len(xv) != len(yv) {
			return false
		}
		for k, v := range xv {
			w, ok := yv[k]
			if !ok || !deepEq(v, w) {
				return false
			}
		}
		return true
	case []any:
		yv, ok := y.([]any)
		if !ok || len(xv) != len(yv) {
			return false
		}
		for i := range xv {
			if !deepEq(xv[i], yv[i]) {
				return false
			}
		}
		return true
	default:
		return x == y
	}
}

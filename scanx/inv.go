package scanx

import (
	"fmt"
	"unicode/utf8"
)

// Extent returns the number of source bytes token t covers, and whether its
// text equals the source bytes at its offset (carriage returns aside).
// prefixLen handles c"..." / py"..." whose literal omits the prefix.
func Extent(src []byte, t Tok) (n int, textOK bool) {
	off := t.Off
	if off < 0 || off > len(src) {
		return 0, false
	}
	switch t.Kind {
	case "EOF":
		return 0, true
	case "ILLEGAL":
		if off >= len(src) {
			return 0, false
		}
		_, w := utf8.DecodeRune(src[off:])
		return w, true
	case ";":
		if t.Lit == "\n" {
			return 0, true
		}
	}
	text := t.Lit
	pre := 0
	switch t.Kind {
	case "CSTRING":
		pre = 1
	case "PYSTRING":
		pre = 2
	}
	if text == "" {
		text = t.Kind // operator: spelling
	}
	i, j := off+pre, 0
	for j < len(text) {
		if i >= len(src) {
			return i - off, false
		}
		if src[i] == text[j] {
			i++
			j++
		} else if src[i] == '\r' {
			i++
		} else {
			return i - off, false
		}
	}
	return i - off, true
}

func isSpace(b byte) bool { return b == ' ' || b == '\t' || b == '\n' || b == '\r' }

// CheckTotalExact checks the C15 invariants on a complete scan of src.
// It returns an invariant name ("" = all hold), the offending token index and detail.
func CheckTotalExact(src []byte, r Result, comments bool) (inv string, kind string, detail string) {
	if r.Overflow {
		return "no-eof", "", "token cap reached without EOF"
	}
	n := len(r.Toks)
	if n == 0 || r.Toks[n-1].Kind != "EOF" {
		return "no-eof", "", "last token is not EOF"
	}
	real := 0
	prevEnd := 0
	covered := make([]bool, len(src))
	for i, t := range r.Toks {
		if t.Off < 0 || t.Off > len(src) {
			return "offset-range", t.Kind, fmt.Sprintf("token %d %+v outside source", i, t)
		}
		ext, ok := Extent(src, t)
		if !ok {
			return "text-mismatch", t.Kind, fmt.Sprintf("token %d %+v does not equal the source bytes at its offset", i, t)
		}
		inserted := t.Kind == ";" && t.Lit == "\n"
		if t.Kind != "EOF" && !inserted {
			real++
			if ext == 0 {
				return "empty-token", t.Kind, fmt.Sprintf("token %d %+v covers no bytes", i, t)
			}
		}
		if t.Off < prevEnd {
			return "offset-order", t.Kind, fmt.Sprintf("token %d %+v starts before the previous token ended (%d)", i, t, prevEnd)
		}
		for k := t.Off; k < t.Off+ext; k++ {
			covered[k] = true
		}
		if ext > 0 {
			prevEnd = t.Off + ext
		}
	}
	if real > len(src) {
		return "too-many-tokens", "", fmt.Sprintf("%d tokens for %d bytes", real, len(src))
	}
	if comments {
		start := 0
		if len(src) >= 3 && src[0] == 0xEF && src[1] == 0xBB && src[2] == 0xBF {
			start = 3
		}
		for k := start; k < len(src); k++ {
			if !isSpace(src[k]) && !covered[k] {
				return "uncovered-byte", "", fmt.Sprintf("byte %d (%q) belongs to no token", k, src[k])
			}
		}
	}
	return "", "", ""
}

// Package scanx runs the three scanners (XGo, go/scanner, TPL) behind one
// token record type and exposes the XGo scanner's private state by reflection
// (read-only), so the BFS checks can canonicalise scanner states.
package scanx

import (
	goscanner "go/scanner"
	gotoken "go/token"
	"reflect"
	"unsafe"

	"github.com/goplus/xgo/scanner"
	"github.com/goplus/xgo/token"
	tplscanner "github.com/goplus/xgo/tpl/scanner"
	tpltoken "github.com/goplus/xgo/tpl/token"
)

type Tok struct {
	Off  int    `json:"off"`
	Kind string `json:"kind"`
	Lit  string `json:"lit"`
}

type Err struct {
	Off int    `json:"off"`
	Msg string `json:"msg"`
}

type Result struct {
	Toks     []Tok
	Errs     []Err
	Overflow bool // token cap reached (non-termination symptom)
}

// State is the XGo scanner's private state that Scan's future depends on.
type State struct {
	InsertSemi bool
	NParen     int
	UnitVal    string
	Offset     int
}

func priv(v reflect.Value, name string) reflect.Value {
	f := v.Elem().FieldByName(name)
	return reflect.NewAt(f.Type(), unsafe.Pointer(f.UnsafeAddr())).Elem()
}

func XGoState(s *scanner.Scanner) State {
	v := reflect.ValueOf(s)
	return State{priv(v, "insertSemi").Bool(), int(priv(v, "nParen").Int()), priv(v, "unitVal").String(), int(priv(v, "offset").Int())}
}

// XGo scans src completely. onTok (optional) is called after every token with the scanner.
func XGo(src []byte, comments bool, onTok func(s *scanner.Scanner, t Tok)) Result {
	var r Result
	fset := token.NewFileSet()
	f := fset.AddFile("a.xgo", fset.Base(), len(src))
	base := f.Base()
	var s scanner.Scanner
	mode := scanner.Mode(0)
	if comments {
		mode = scanner.ScanComments
	}
	s.Init(f, src, func(pos token.Position, msg string) { r.Errs = append(r.Errs, Err{pos.Offset, msg}) }, mode)
	limit := 2*len(src) + 8
	for {
		pos, tok, lit := s.Scan()
		t := Tok{int(pos) - base, tok.String(), lit}
		r.Toks = append(r.Toks, t)
		if onTok != nil {
			onTok(&s, t)
		}
		if tok == token.EOF {
			break
		}
		if len(r.Toks) > limit {
			r.Overflow = true
			break
		}
	}
	return r
}

func Go(src []byte, comments bool) Result {
	var r Result
	fset := gotoken.NewFileSet()
	f := fset.AddFile("a.go", fset.Base(), len(src))
	base := f.Base()
	var s goscanner.Scanner
	mode := goscanner.Mode(0)
	if comments {
		mode = goscanner.ScanComments
	}
	s.Init(f, src, func(pos gotoken.Position, msg string) { r.Errs = append(r.Errs, Err{pos.Offset, msg}) }, mode)
	for {
		pos, tok, lit := s.Scan()
		r.Toks = append(r.Toks, Tok{int(pos) - base, tok.String(), lit})
		if tok == gotoken.EOF {
			break
		}
	}
	return r
}

func TPL(src []byte, comments bool) Result {
	var r Result
	fset := token.NewFileSet()
	f := fset.AddFile("a.tpl", fset.Base(), len(src))
	base := f.Base()
	var s tplscanner.Scanner
	mode := tplscanner.Mode(0)
	if comments {
		mode = tplscanner.ScanComments
	}
	s.Init(f, src, func(pos token.Position, msg string) { r.Errs = append(r.Errs, Err{pos.Offset, msg}) }, mode)
	limit := 2*len(src) + 8
	for {
		t := s.Scan()
		r.Toks = append(r.Toks, Tok{int(t.Pos) - base, t.Tok.String(), t.Lit})
		if t.Tok == tpltoken.EOF {
			break
		}
		if len(r.Toks) > limit {
			r.Overflow = true
			break
		}
	}
	return r
}

package scanx

// Lexeme alphabet for the BFS checks. Class: which scanners share it.
type Lexeme struct {
	Text string
	Go   bool // a Go lexeme (for C16)
	TPL  bool // shared with the TPL scanner (for C32)
}

var Seps = []string{"", " ", "\t", "\n", "\r\n"}

var Lexemes = []Lexeme{
	// identifiers
	{"a", true, true}, {"_x1", true, true}, {"é", true, true}, {"c", true, true}, {"py", true, true}, {"in", true, true},
	// keywords
	{"break", true, false}, {"case", true, false}, {"chan", true, false}, {"const", true, false}, {"continue", true, false},
	{"default", true, false}, {"defer", true, false}, {"else", true, false}, {"fallthrough", true, false}, {"for", true, false},
	{"func", true, false}, {"go", true, false}, {"goto", true, false}, {"if", true, false}, {"import", true, false},
	{"interface", true, false}, {"map", true, false}, {"package", true, false}, {"range", true, false}, {"return", true, false},
	{"select", true, false}, {"struct", true, false}, {"switch", true, false}, {"type", true, false}, {"var", true, false},
	// numbers
	{"0", true, true}, {"12", true, true}, {"0x1F", true, true}, {"0b101", true, true}, {"0o17", true, true}, {"017", true, true},
	{"1_000", true, true}, {"1.5", true, true}, {".5", true, true}, {"1e3", true, true}, {"0x1p-2", true, true}, {"2i", true, true},
	{"08", true, true}, {"0x", true, true}, {"1__2", true, true}, {"1e", true, true},
	{"3r", false, true}, {"1.5r", false, true}, {"1ms", false, true}, {"2.5h", false, true},
	// chars / strings
	{"'a'", true, true}, {"'\\n'", true, true}, {"'\\x41'", true, true}, {"''", true, true}, {"'ab'", true, true}, {"'a", true, true},
	{`"s"`, true, true}, {`""`, true, true}, {`"a\"b"`, true, true}, {`"\q"`, true, true}, {`"open`, true, true},
	{"`raw`", true, true}, {"`r\r\nw`", true, true}, {"`open", true, true},
	{`c"s"`, false, false}, {`py"s"`, false, false}, {`"${x}"`, true, true},
	// operators and delimiters
	{"+", true, true}, {"-", true, true}, {"*", true, true}, {"/", true, true}, {"%", true, true}, {"&", true, true}, {"|", true, true},
	{"^", true, true}, {"<<", true, true}, {">>", true, true}, {"&^", true, true}, {"+=", true, true}, {"-=", true, true}, {"*=", true, true},
	{"/=", true, true}, {"%=", true, true}, {"&=", true, true}, {"|=", true, true}, {"^=", true, true}, {"<<=", true, true}, {">>=", true, true},
	{"&^=", true, true}, {"&&", true, true}, {"||", true, true}, {"<-", true, true}, {"++", true, true}, {"--", true, true}, {"==", true, true},
	{"<", true, true}, {">", true, true}, {"=", true, true}, {"!", true, true}, {"!=", true, true}, {"<=", true, true}, {">=", true, true},
	{":=", true, true}, {"...", true, true}, {"(", true, true}, {"[", true, true}, {"{", true, true}, {",", true, true}, {".", true, true},
	{")", true, true}, {"]", true, true}, {"}", true, true}, {";", true, true}, {":", true, true}, {"~", true, false},
	{"=>", false, true}, {"->", false, true}, {"<>", false, true}, {"?", false, true}, {"$", false, true},
	// comments
	{"//k", true, true}, {"//k\r", true, true}, {"/*k*/", true, true}, {"/*k\nl*/", true, true}, {"/*open", true, true}, {"/*\r*/", true, true},
	{"//line f:7", true, true},
	{"#k", false, true}, {"#", false, true}, {"#!x", false, true},
	// illegal / odd bytes
	{"\x00", true, true}, {"\xff", true, true}, {"\ufeff", true, true}, {"@", true, false}, {"\\", true, true},
}

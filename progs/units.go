package progs

import (
	"fmt"
	"strings"

	"github.com/goplus/xgo/cl"
)

// Unit is a small program fragment: the body of a function of the packed program.
type Unit struct {
	Key     string // template / construct identifier (defect class for violations)
	XGo     string // body in XGo (the subject)
	Go      string // body of the reference in plain Go ("" = no reference program, use Want)
	Want    string // expected output when the harness computes it itself
	Decls   string // optional top-level declarations private to this unit (valid in both languages); names must be unique
	GoDecls string // reference-side declarations when they differ from Decls
}

// UnitResult is what happened to one unit.
type UnitResult struct {
	CompileErr  string // XGo compiler error (unit alone)
	BuildErr    string // go build error of the generated Go (unit alone or attributed)
	Out         string // output of the subject
	RefOut      string // output of the reference (or Want)
	RefBuildErr string
	Ran         bool
}

type Options struct {
	Prelude    string // top-level declarations shared by all units, valid Go and valid XGo
	Imports    []string
	PerProgram int
	FileName   string // default main.xgo
	Conf       func(*cl.Config)  // optional tweak of the compiler configuration (e.g. RelativeBase)
	XGoFiles   map[string]string // further files of the subject package (e.g. "Rect.gox"), shared by all units
	GoFiles    map[string]string // further files of the reference package (plain Go, must start with "package main")
}

func (o Options) compile(src string) ([]byte, error) {
	files := map[string]string{o.FileName: src}
	for n, t := range o.XGoFiles {
		files[n] = t
	}
	return CompileXGoFiles(files, o.Conf)
}

func header(imports []string) string {
	var sb strings.Builder
	sb.WriteString("import (\n")
	seen := map[string]bool{}
	for _, im := range append([]string{"fmt"}, imports...) {
		if !seen[im] {
			seen[im] = true
			fmt.Fprintf(&sb, "\t%q\n", im)
		}
	}
	sb.WriteString(")\n\n")
	return sb.String()
}

func unitFunc(i int, body string) string {
	return fmt.Sprintf("func u%d() {\n\tdefer func() {\n\t\tif e := recover(); e != nil {\n\t\t\tfmt.Println(\"PANIC:\", e)\n\t\t}\n\t}()\n%s\n}\n\n", i, indent(body))
}

func indent(s string) string {
	lines := strings.Split(strings.TrimRight(s, "\n"), "\n")
	for i := range lines {
		lines[i] = "\t" + lines[i]
	}
	return strings.Join(lines, "\n")
}

func mainFunc(idx []int) string {
	var sb strings.Builder
	sb.WriteString("func main() {\n")
	for _, i := range idx {
		fmt.Fprintf(&sb, "\tfmt.Println(\"U\", %d)\n\tu%d()\n", i, i)
	}
	sb.WriteString("}\n")
	return sb.String()
}

// Source renders a packed program from the chosen units. xgo selects subject or reference text.
func Source(units []Unit, idx []int, o Options, xgo bool) string {
	var sb strings.Builder
	if !xgo {
		sb.WriteString("package main\n\n")
	}
	sb.WriteString(header(o.Imports))
	sb.WriteString(o.Prelude)
	sb.WriteString("\n")
	for _, i := range idx {
		u := units[i]
		d := u.Decls
		if !xgo && u.GoDecls != "" {
			d = u.GoDecls
		}
		if d != "" {
			sb.WriteString(d + "\n")
		}
		if xgo {
			sb.WriteString(unitFunc(i, u.XGo))
		} else {
			sb.WriteString(unitFunc(i, u.Go))
		}
	}
	sb.WriteString(mainFunc(idx))
	return sb.String()
}

// RunUnits compiles every unit alone (XGo compile status), packs the compiling ones, builds
// and runs subject and reference programs, and splits the outputs per unit.
func RunUnits(units []Unit, o Options) ([]UnitResult, error) {
	if o.PerProgram == 0 {
		o.PerProgram = 150
	}
	if o.FileName == "" {
		o.FileName = "main.xgo"
	}
	res := make([]UnitResult, len(units))
	var ok []int
	// compile status per unit: a chunk that compiles as a whole proves each member compiles
	// (units are independent functions); only members of a failing chunk are compiled alone.
	for start := 0; start < len(units); start += o.PerProgram {
		end := start + o.PerProgram
		if end > len(units) {
			end = len(units)
		}
		idx := make([]int, 0, end-start)
		for i := start; i < end; i++ {
			idx = append(idx, i)
		}
		if _, err := o.compile(Source(units, idx, o, true)); err == nil {
			ok = append(ok, idx...)
			continue
		}
		for _, i := range idx {
			_, err := o.compile(Source(units, []int{i}, o, true))
			if err != nil {
				res[i].CompileErr = firstLines(err.Error(), 3)
				continue
			}
			ok = append(ok, i)
		}
	}
	s, err := NewScratch()
	if err != nil {
		return nil, err
	}
	defer s.Remove()
	type pack struct {
		idx      []int
		subj, rf *Prog
	}
	var packs []*pack
	var all []*Prog
	hasRef := false
	for _, u := range units {
		if u.Go != "" {
			hasRef = true
		}
	}
	mk := func(idx []int, tag string) *pack {
		p := &pack{idx: idx}
		src := Source(units, idx, o, true)
		out, err := o.compile(src)
		if err != nil {
			// units compiled alone but not together: fall back to singles by the caller
			return nil
		}
		p.subj = &Prog{Name: "s" + tag, GoSrc: out}
		all = append(all, p.subj)
		if hasRef {
			var ridx []int
			for _, i := range idx {
				if units[i].Go != "" {
					ridx = append(ridx, i)
				}
			}
			p.rf = &Prog{Name: "r" + tag, GoSrc: []byte(Source(units, ridx, o, false))}
			if len(o.GoFiles) > 0 {
				p.rf.Extra = map[string][]byte{}
				for n, t := range o.GoFiles {
					p.rf.Extra[n] = []byte(t)
				}
			}
			all = append(all, p.rf)
		}
		return p
	}
	for start := 0; start < len(ok); start += o.PerProgram {
		end := start + o.PerProgram
		if end > len(ok) {
			end = len(ok)
		}
		idx := ok[start:end]
		if p := mk(idx, fmt.Sprint(len(packs))); p != nil {
			packs = append(packs, p)
		} else {
			for _, i := range idx {
				if p := mk([]int{i}, fmt.Sprintf("%dx%d", len(packs), i)); p != nil {
					packs = append(packs, p)
				} else {
					res[i].CompileErr = "compiles alone but not inside the packed program"
				}
			}
		}
	}
	if err := s.BuildAll(all); err != nil {
		return nil, err
	}
	// a packed program that fails to build is split into single-unit programs
	var retry []*pack
	var retryProgs []*Prog
	for _, p := range packs {
		if (!p.subj.BuildOK || (p.rf != nil && !p.rf.BuildOK)) && len(p.idx) > 1 {
			for _, i := range p.idx {
				before := len(all)
				if q := mk([]int{i}, fmt.Sprintf("single%d", i)); q != nil {
					retry = append(retry, q)
					retryProgs = append(retryProgs, all[before:]...)
				}
			}
			p.idx = nil
		}
	}
	if len(retryProgs) > 0 {
		if err := s.BuildAll(retryProgs); err != nil {
			return nil, err
		}
		packs = append(packs, retry...)
	}
	done := map[*pack]bool{}
	for round := 0; round < 4; round++ {
		var run []*Prog
		var cur []*pack
		for _, p := range packs {
			if len(p.idx) == 0 || done[p] {
				continue
			}
			cur = append(cur, p)
			run = append(run, p.subj)
			if p.rf != nil {
				run = append(run, p.rf)
			}
		}
		if len(cur) == 0 {
			break
		}
		s.RunAll(run)
		var next []*pack
		var nextProgs []*Prog
		for _, p := range cur {
			done[p] = true
			if !p.subj.BuildOK {
				for _, i := range p.idx {
					res[i].BuildErr = p.subj.BuildErr
				}
			}
			if p.rf != nil && !p.rf.BuildOK {
				for _, i := range p.idx {
					res[i].RefBuildErr = p.rf.BuildErr
				}
			}
			so := SplitUnits(p.subj.Stdout)
			var ro map[int]string
			if p.rf != nil {
				ro = SplitUnits(p.rf.Stdout)
			}
			// abnormal end of the subject: the last unit that printed its marker is the culprit,
			// the units after it never ran and go into a new program
			culprit, rest := -1, []int(nil)
			if p.subj.BuildOK && (p.subj.TimedOut || p.subj.Exit != 0) {
				for k, i := range p.idx {
					if _, ok := so[i]; ok {
						culprit = i
						rest = p.idx[k+1:]
					}
				}
			}
			for _, i := range p.idx {
				isRest := false
				for _, r := range rest {
					if r == i {
						isRest = true
					}
				}
				if isRest {
					continue
				}
				if p.subj.BuildOK {
					res[i].Ran = true
					res[i].Out = so[i]
					if i == culprit {
						if p.subj.TimedOut {
							res[i].Out += "\n<TIMEOUT>"
						} else {
							res[i].Out += fmt.Sprintf("\n<EXIT %d %s>", p.subj.Exit, PanicHeader(p.subj.Stderr))
						}
					}
				}
				if units[i].Go != "" && p.rf != nil {
					res[i].RefOut = ro[i]
					if p.rf.Exit != 0 {
						res[i].RefOut += fmt.Sprintf("\n<EXIT %d %s>", p.rf.Exit, PanicHeader(p.rf.Stderr))
					}
				} else {
					res[i].RefOut = units[i].Want
				}
			}
			if len(rest) > 0 {
				before := len(all)
				if q := mk(append([]int(nil), rest...), fmt.Sprintf("r%dx%d", round, rest[0])); q != nil {
					next = append(next, q)
					nextProgs = append(nextProgs, all[before:]...)
				}
			}
		}
		if len(next) == 0 {
			break
		}
		if err := s.BuildAll(nextProgs); err != nil {
			return nil, err
		}
		packs = append(packs, next...)
	}
	return res, nil
}

func firstLines(s string, n int) string {
	l := strings.Split(s, "\n")
	if len(l) > n {
		l = l[:n]
	}
	return strings.Join(l, " | ")
}

// Package progs is the program engine of the compiler checks: in-process XGo compilation
// (parser + cl + gogen, the production path), packing of many small units into one program,
// batched `go build` in a scratch module, execution and per-unit output comparison.
package progs

import (
	"bytes"
	"fmt"
	"os"
	"os/exec"
	"path/filepath"
	"regexp"
	"runtime"
	"sort"
	"strings"
	"sync"
	"syscall"
	"time"

	"github.com/goplus/gogen/packages"
	"github.com/goplus/xgo/cl"
	"github.com/goplus/xgo/parser/fsx/memfs"
	"github.com/goplus/xgo/token"
	"github.com/goplus/xgo/x/build"
)

var compileMu sync.Mutex

// CompileXGo compiles a single-file XGo package (file name decides class-file handling) to Go source.
// A panic escaping the compiler is returned as an error starting with "PANIC:".
func CompileXGo(filename, src string, conf func(*cl.Config)) (out []byte, err error) {
	return CompileXGoFiles(map[string]string{filename: src}, conf)
}

// CompileXGoFiles compiles a package given as file name -> source (all in one directory).
func CompileXGoFiles(files map[string]string, conf func(*cl.Config)) (out []byte, err error) {
	compileMu.Lock() // cl/gogen keep process-global state (debug flags, importer caches)
	defer compileMu.Unlock()
	defer func() {
		if r := recover(); r != nil {
			err = fmt.Errorf("PANIC: %v", r)
		}
	}()
	fset := sharedFset
	ctx := build.NewContext(importer(fset), fset)
	ctx.LoadConfig = conf
	var names, srcs []string
	dir := "/vprog"
	for n := range files {
		names = append(names, n)
	}
	sort.Strings(names)
	for _, n := range names {
		srcs = append(srcs, files[n])
	}
	mfs := memfs.New(map[string][]string{dir: names}, func() map[string]string {
		m := map[string]string{}
		for _, n := range names {
			m[filepath.Join(dir, n)] = files[n]
		}
		return m
	}())
	pkg, err := ctx.ParseFSDir(mfs, dir)
	if err != nil {
		return nil, err
	}
	return pkg.ToSource()
}

// One file set and one importer for the whole process: loading export data costs a `go list`
// per package, compiling against an already loaded importer costs milliseconds.
var (
	sharedFset = token.NewFileSet()
	sharedImp  *packages.Importer
)

func importer(fset *token.FileSet) *packages.Importer {
	if sharedImp == nil {
		sharedImp = packages.NewImporter(fset)
	}
	return sharedImp
}

// ---- building and running ----

// Prog is one program of a batch.
type Prog struct {
	Name     string // directory name inside the scratch module
	GoSrc    []byte // complete main package, one file
	Extra    map[string][]byte
	BuildOK  bool
	BuildErr string
	Stdout   string
	Stderr   string
	Exit     int
	TimedOut bool
}

// Scratch is a scratch Go module outside /repo and /verif.
type Scratch struct {
	Dir string
}

func NewScratch() (*Scratch, error) {
	base := os.Getenv("VERIF_SCRATCH")
	if base == "" {
		base = "/var/tmp"
	}
	dir, err := os.MkdirTemp(base, "verif-progs-")
	if err != nil {
		return nil, err
	}
	gomod := "module vprog\n\ngo 1.23\n\nrequire github.com/qiniu/x v1.15.0\n\nrequire github.com/goplus/xgo v0.0.0\n\nreplace github.com/goplus/xgo => " + RepoDir() + "\n"
	if err := os.WriteFile(filepath.Join(dir, "go.mod"), []byte(gomod), 0o644); err != nil {
		return nil, err
	}
	sum, _ := os.ReadFile(filepath.Join(RepoDir(), "go.sum"))
	os.WriteFile(filepath.Join(dir, "go.sum"), sum, 0o644)
	return &Scratch{Dir: dir}, nil
}

func RepoDir() string {
	if r := os.Getenv("VERIF_REPO"); r != "" {
		return r
	}
	return "/repo"
}

func (s *Scratch) Remove() { os.RemoveAll(s.Dir) }

func goEnv() []string {
	env := []string{"GOFLAGS=-mod=mod", "GOPROXY=off", "GOSUMDB=off", "GOTOOLCHAIN=local", "CGO_ENABLED=0"}
	for _, k := range []string{"PATH", "HOME", "GOCACHE", "GOMODCACHE", "GOPATH", "GOROOT", "TMPDIR"} {
		if v := os.Getenv(k); v != "" {
			env = append(env, k+"="+v)
		}
	}
	return env
}

var reBuildErrPkg = regexp.MustCompile(`(?m)^# vprog/([^\s/]+)`)

// BuildAll writes the programs into the module and builds them with one `go build`; programs
// whose package fails are marked, the others are built by a second invocation.
func (s *Scratch) BuildAll(progs []*Prog) error {
	for _, p := range progs {
		d := filepath.Join(s.Dir, p.Name)
		os.MkdirAll(d, 0o755)
		if err := os.WriteFile(filepath.Join(d, "main.go"), p.GoSrc, 0o644); err != nil {
			return err
		}
		for n, b := range p.Extra {
			os.WriteFile(filepath.Join(d, n), b, 0o644)
		}
	}
	os.MkdirAll(filepath.Join(s.Dir, "bin"), 0o755)
	remaining := map[string]*Prog{}
	for _, p := range progs {
		remaining[p.Name] = p
	}
	for round := 0; round < 3 && len(remaining) > 0; round++ {
		args := []string{"build", "-o", filepath.Join(s.Dir, "bin") + "/"}
		var names []string
		for n := range remaining {
			names = append(names, n)
		}
		sort.Strings(names)
		for _, n := range names {
			args = append(args, "./"+n)
		}
		cmd := exec.Command("go", args...)
		cmd.Dir = s.Dir
		cmd.Env = goEnv()
		var out bytes.Buffer
		cmd.Stdout, cmd.Stderr = &out, &out
		err := cmd.Run()
		if err == nil {
			for _, p := range remaining {
				p.BuildOK = true
			}
			return nil
		}
		// attribute errors to packages
		txt := out.String()
		failed := map[string]string{}
		cur := ""
		for _, l := range strings.Split(txt, "\n") {
			if m := reBuildErrPkg.FindStringSubmatch(l); m != nil {
				cur = m[1]
				continue
			}
			if cur != "" {
				failed[cur] += l + "\n"
			}
		}
		if len(failed) == 0 {
			return fmt.Errorf("go build failed without package attribution: %s", clip(txt, 2000))
		}
		for n, e := range failed {
			if p := remaining[n]; p != nil {
				p.BuildErr = clip(e, 1500)
				delete(remaining, n)
			}
		}
	}
	return nil
}

// RunAll runs every built program (GOMAXPROCS=1) in parallel. A program is stopped when it has
// used 10 s of CPU time (ulimit -t, so the verdict does not depend on how busy the machine is);
// the wall-clock limit of 10 minutes is only a backstop for a program that sleeps.
func (s *Scratch) RunAll(progs []*Prog) {
	sem := make(chan struct{}, runtime.NumCPU())
	var wg sync.WaitGroup
	for _, p := range progs {
		if !p.BuildOK {
			continue
		}
		wg.Add(1)
		sem <- struct{}{}
		go func(p *Prog) {
			defer wg.Done()
			defer func() { <-sem }()
			cmd := exec.Command("/bin/sh", "-c", `ulimit -t 10; exec "$0"`, filepath.Join(s.Dir, "bin", p.Name))
			cmd.Env = []string{"GOMAXPROCS=1", "GOTRACEBACK=single"}
			cmd.Dir = s.Dir
			var so, se bytes.Buffer
			cmd.Stdout, cmd.Stderr = &capWriter{buf: &so, max: 8 << 20}, &capWriter{buf: &se, max: 8192}
			done := make(chan error, 1)
			if err := cmd.Start(); err != nil {
				p.Stderr = err.Error()
				p.Exit = -1
				return
			}
			go func() { done <- cmd.Wait() }()
			select {
			case err := <-done:
				if ee, ok := err.(*exec.ExitError); ok {
					p.Exit = ee.ExitCode()
					if ws, ok := ee.Sys().(syscall.WaitStatus); ok && ws.Signaled() && (ws.Signal() == syscall.SIGXCPU || ws.Signal() == syscall.SIGKILL) {
						p.TimedOut = true // CPU limit
						p.Exit = -2
					}
				} else if err != nil {
					p.Exit = -1
				}
			case <-time.After(10 * time.Minute):
				cmd.Process.Kill()
				<-done
				p.TimedOut = true
				p.Exit = -2
			}
			p.Stdout, p.Stderr = so.String(), se.String()
		}(p)
	}
	wg.Wait()
}

type capWriter struct {
	buf *bytes.Buffer
	max int
}

func (c *capWriter) Write(b []byte) (int, error) {
	if room := c.max - c.buf.Len(); room > 0 {
		if room > len(b) {
			room = len(b)
		}
		c.buf.Write(b[:room])
	}
	return len(b), nil
}

func clip(s string, n int) string {
	if len(s) > n {
		return s[:n] + "…"
	}
	return s
}

// PanicHeader extracts the "panic: ..." line(s) of a crash dump without goroutine details.
func PanicHeader(stderr string) string {
	var out []string
	for _, l := range strings.Split(stderr, "\n") {
		if strings.HasPrefix(l, "goroutine ") {
			break
		}
		if strings.HasPrefix(l, "panic: ") || strings.HasPrefix(l, "fatal error: ") || strings.HasPrefix(l, "\tpanic: ") || (len(out) > 0 && strings.TrimSpace(l) != "" && !strings.HasPrefix(l, "[signal")) {
			out = append(out, strings.TrimSpace(l))
		}
	}
	return strings.Join(out, " | ")
}

// SplitUnits splits packed output on "U <n>" marker lines.
func SplitUnits(out string) map[int]string {
	res := map[int]string{}
	cur := -1
	var sb strings.Builder
	flush := func() {
		if cur >= 0 {
			res[cur] = sb.String()
		}
		sb.Reset()
	}
	for _, l := range strings.SplitAfter(out, "\n") {
		var n int
		if strings.HasPrefix(l, "U ") {
			if _, err := fmt.Sscanf(l, "U %d\n", &n); err == nil && strings.TrimSpace(l) == fmt.Sprintf("U %d", n) {
				flush()
				cur = n
				continue
			}
		}
		sb.WriteString(l)
	}
	flush()
	return res
}

package progs

import (
	"fmt"
	"testing"
	"time"
)

func TestSmoke(t *testing.T) {
	t0 := time.Now()
	src := `import "fmt"

func u0() {
	x := [1, 2, 3]
	fmt.Println("U", 0)
	echo [v*v for v <- x if v > 1]
}

func main() {
	u0()
}
`
	out, err := CompileXGo("main.xgo", src, nil)
	if err != nil {
		t.Fatal(err)
	}
	fmt.Println(string(out), time.Since(t0))
	t1 := time.Now()
	for i := 0; i < 50; i++ {
		if _, err := CompileXGo("main.xgo", src, nil); err != nil {
			t.Fatal(err)
		}
	}
	fmt.Println("50 compiles:", time.Since(t1))
	s, err := NewScratch()
	if err != nil {
		t.Fatal(err)
	}
	defer s.Remove()
	p := &Prog{Name: "p0", GoSrc: out}
	t2 := time.Now()
	if err := s.BuildAll([]*Prog{p}); err != nil {
		t.Fatal(err)
	}
	s.RunAll([]*Prog{p})
	fmt.Printf("build+run %v ok=%v err=%q out=%q exit=%d\n", time.Since(t2), p.BuildOK, p.BuildErr, p.Stdout, p.Exit)
}

package progs

import (
	"fmt"
	"testing"
	"time"
)

func TestSmoke(t *testing.T) {
	t0 := time.Now()
	src := `import "fmt"

func u0() {
	x := [1, 2, 3]
	fmt.Println("U", 0)
	echo [v*v for v <- x if v > 1]
}

func main() {
	u0()
}
`
	out, err := CompileXGo("main.xgo", src, nil)
	if err != nil {
		t.Fatal(err)
	}
	fmt.Println(string(out), time.Since(t0))
	t1 := time.Now()
	for i := 0; i < 50; i++ {
		if _, err := CompileXGo("main.xgo", src, nil); err != nil {
			t.Fatal(err)
		}
	}
	fmt.Println("50 compiles:", time.Since(t1))
	s, err := NewScratch()
	if err != nil {
		t.Fatal(err)
	}
	defer s.Remove()
	p := &Prog{Name: "p0", GoSrc: out}
	t2 := time.Now()
	if err := s.BuildAll([]*Prog{p}); err != nil {
		t.Fatal(err)
	}
	s.RunAll([]*Prog{p})
	fmt.Printf("build+run %v ok=%v err=%q out=%q exit=%d\n", time.Since(t2), p.BuildOK, p.BuildErr, p.Stdout, p.Exit)
}

func TestCPULimit(t *testing.T) {
	s, err := NewScratch()
	if err != nil {
		t.Fatal(err)
	}
	defer s.Remove()
	loop := &Prog{Name: "loop", GoSrc: []byte("package main\n\nfunc main() {\n\tfor {\n\t}\n}\n")}
	exit3 := &Prog{Name: "exit3", GoSrc: []byte("package main\n\nimport \"os\"\n\nfunc main() {\n\tos.Exit(3)\n}\n")}
	if err := s.BuildAll([]*Prog{loop, exit3}); err != nil {
		t.Fatal(err)
	}
	t0 := time.Now()
	s.RunAll([]*Prog{loop, exit3})
	if !loop.TimedOut || loop.Exit != -2 {
		t.Fatalf("busy loop: timedOut=%v exit=%d", loop.TimedOut, loop.Exit)
	}
	if exit3.TimedOut || exit3.Exit != 3 {
		t.Fatalf("exit 3: timedOut=%v exit=%d", exit3.TimedOut, exit3.Exit)
	}
	fmt.Println("cpu-limited run took", time.Since(t0))
}

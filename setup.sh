#!/bin/bash
# Offline setup: build every registered check once (warms GOCACHE with /repo's packages).
set -u
cd "$(dirname "$(readlink -f "$0")")"
export GOFLAGS=-mod=mod GOPROXY=off GOSUMDB=off GOTOOLCHAIN=local
mkdir -p bin evidence replays
cp -f /repo/go.sum go.sum.repo 2>/dev/null && cat go.sum.repo go.sum 2>/dev/null | sort -u > go.sum.new && mv go.sum.new go.sum; rm -f go.sum.repo
fail=0
for n in $(python3 -c "import json;print(' '.join(c['property_id'].lower() for c in json.load(open('MANIFEST.json'))['checks']))"); do
  ./build.sh "$n" || fail=1
done
[ -x setup_extra.sh ] && ./setup_extra.sh
exit $fail

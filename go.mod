module verif

go 1.23

require (
	github.com/anishathalye/porcupine v1.3.0
	github.com/goplus/gogen v1.18.1
	github.com/goplus/mod v0.17.0
	github.com/goplus/xgo v0.0.0
)

require (
	github.com/fsnotify/fsnotify v1.9.0 // indirect
	github.com/goplus/lib v0.2.0 // indirect
	github.com/qiniu/x v1.15.0 // indirect
	golang.org/x/mod v0.20.0 // indirect
	golang.org/x/sys v0.21.0 // indirect
)

replace github.com/goplus/xgo => /repo

module verif

go 1.23

require (
	github.com/anishathalye/porcupine v1.3.0
	github.com/goplus/xgo v0.0.0
)

replace github.com/goplus/xgo => /repo

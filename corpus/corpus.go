// Package corpus provides the seed programs shared by the front-end checks:
// hand-written snippets (one per grammar production) and the repository's own
// XGo sources, read from /repo at run time.
package corpus

import (
	"os"
	"path/filepath"
	"sort"
)

var HandSeeds = []string{
	"x := [1, 2, 3]", "x := {\"a\": 1}", "y := [v*v for v <- x if v > 1]", "z := {k: v for k, v <- m}", "b := {for v <- x if v > 2}",
	"v, ok := {v for v <- x if v > 2}", "for i <- 0:10:2 {\n}", "for i, v <- x {\n}", "for v <- x if v > 1 {\n}", "a <- 1, 2", "a <- b...",
	"echo \"hi\", 1", "println [1, 2; 3, 4]", "f x => x * 2", "f (x, y) => {\n\treturn x\n}", "f => 1", "f => {\nL:\n\tfor {\n\t\tbreak L\n\t}\n}", "x := f()!", "y := f()?", "z := f()?:1",
	"n := 1r + 2.5r", "d := 3ms", "s := \"a${b}c$$\"", "e := ${HOME}", "t := x -> y", "u := x <> y", "func (p *T) m(a int) (r int, err error) {\n}",
	"func f[T any](x T) T {\n\treturn x\n}", "type T struct {\n\tA int `json:\"a\"`\n\t*B\n}", "type I interface {\n\tm() int\n\tE\n}", "var (\n\ta = 1\n\tb, c int\n)",
	"const (\n\tx = iota\n\ty\n)", "import \"fmt\"", "import (\n\tf \"fmt\"\n\t_ \"os\"\n)", "package p\n", "switch x := y.(type) {\ncase int:\ndefault:\n}",
	"switch {\ncase a > 1:\n\tfallthrough\ndefault:\n}", "select {\ncase v := <-c:\ncase c <- 1:\ndefault:\n}", "go f()", "defer f()", "L:\n\tfor {\n\t\tbreak L\n\t}",
	"goto L", "for a, b, c <- x {\n}", "if x := f(); x > 0 {\n} else if y {\n} else {\n}", "x.y.z(1)(2)[3][1:2:3]", "x = []int{1, 2}", "m = map[string]int{\"a\": 1}",
	"p = &T{A: 1}", "f(a...)", "c = x.(int)", "a, b = b, a", "i++", "x <<= 2", "f = func(a, b int) int { return a + b }", "var a [2]int", "var c chan<- int",
	"var f func(int) (string, error)", "x := *p", "tpl`a = INT`", "json`{\"a\": 1}`", "func f(a int, b ...string)", "func (T).m()", "func onStart = (\n\tfunc() {}\n\tf2\n)",
	"func add = (addInt; addFloat)", "func (Foo).add = (\n\t(Foo).a\n\t(Foo).b\n)", "x := a[1:]", "x := a[:2]", "x := a[:]", "echo x[1]", "echo -1", "echo (1+2)*3",
	"var x = [[1, 2], [3]]", "for range 3 {\n}", "for i := range 10 {\n}", "for i := 0; i < 3; i++ {\n\tcontinue\n}", "echo [x for x <- 1:3]",
	"type A = B", "type G[T any] struct{ x T }", "var v G[int]", "echo {1: 2}[1]", "a.b <- c", "!x", "x := ^y &^ z", "return 1, 2",
	"echo [a, b...]", "x := [[a, b for a <- c] for b <- d]", "f (x) => x", "echo x => {\n\techo x\n}", "var (\n\tx int // c\n)", "/* lead */\nfunc f() {} // line\n",
	"x := y.(type)", "echo 1, 2...", "x := 1 + 2*3 - -4", "var e = a!.b?.c", "type T struct {\n\ta, b int\n\tc string\n}", "x := <-c", "c <- <-d",
	"x := (a + b) * c", "x := a[i][j]", "var f = x => x + 1", "onStart => {\n}", "func f() (int, error) { return 1, nil }", "x := [1, 2][0]", "x := {\"a\": [1]}[\"a\"][0]",
	"func f() { g() }\nfunc h() {}", "x := func() int { return 1 }\ny := 2", "func (t T) m() int { return t.n } // tail\n\nvar v = 1",
	"if (T{1}.ok()) {\n}", "for (T{2}.ok() && f(T{3})) {\n}", "switch (T{n: 1}.get().ok()) {\n}", "println args ...", "echo x /* c */ ...", "x := (<-ch).(T)", "y := (*p).(T)",
	// tpl literals are parsed in-line by tpl/parser: rules with actions, complete and broken off
	"x := tpl`a = INT => { return 1 }`", "x := tpl`a = INT => {`", "x := tpl`a = INT => 1`", "x := tpl`a = INT => { {`", "x := tpl`a = INT =>`", "x := tpl`a = INT => }`", "x := tpl`a = *(INT \",\") => { return self }\nb = a`",
	// literals holding bytes the printer's tabwriter treats specially (raw TAB, form feed, vertical tab)
	"x := '\t'", "s := \"a\tb\"", "r := `a\tb\nc\f`", "y := 'a'\nz := '\t' // c", "v := '\v'", "echo '\t', \"\t\", 1",
	"import \"c\"\nC.printf c\"hi\\n\"", "x := py\"hi\"", "echo 1s + 2ms", "echo `raw`", "echo 'c', 1.5e3, 0x1F, 1i", "x, y := 1, 2", "var _ = struct{ A int }{1}",
}

// Files returns the contents of repository files matching the patterns, at most maxBytes each.
func Files(maxBytes int, patterns ...string) (names []string, srcs []string) {
	for _, pat := range patterns {
		ms, _ := filepath.Glob(filepath.Join("/repo", pat))
		sort.Strings(ms)
		for _, m := range ms {
			b, err := os.ReadFile(m)
			if err == nil && len(b) <= maxBytes && len(b) > 0 {
				names = append(names, m)
				srcs = append(srcs, string(b))
			}
		}
	}
	return
}

// AllXGo returns every XGo-family source file of the repository (by extension), sorted by path.
func AllXGo(maxBytes int) (names []string, srcs []string) {
	exts := map[string]bool{".xgo": true, ".gox": true, ".spx": true, ".gmx": true, ".gsh": true, ".gop": true}
	filepath.WalkDir("/repo", func(path string, d os.DirEntry, err error) error {
		if err != nil {
			return nil
		}
		if d.IsDir() {
			if d.Name() == ".git" {
				return filepath.SkipDir
			}
			return nil
		}
		if exts[filepath.Ext(path)] {
			b, err := os.ReadFile(path)
			if err == nil && len(b) <= maxBytes && len(b) > 0 {
				names = append(names, path)
				srcs = append(srcs, string(b))
			}
		}
		return nil
	})
	return
}

// AllGo returns every .go file of the repository.
func AllGo(maxBytes int) (names []string, srcs []string) {
	filepath.WalkDir("/repo", func(path string, d os.DirEntry, err error) error {
		if err != nil {
			return nil
		}
		if d.IsDir() {
			if d.Name() == ".git" {
				return filepath.SkipDir
			}
			return nil
		}
		if filepath.Ext(path) == ".go" {
			b, err := os.ReadFile(path)
			if err == nil && len(b) <= maxBytes && len(b) > 0 {
				names = append(names, path)
				srcs = append(srcs, string(b))
			}
		}
		return nil
	})
	return
}

// Exprs enumerates the XGo expression grammar closed to the given depth (simplest first).
func Exprs(depth int) []string {
	atoms := []string{"a", "1", `"s"`, "x.y", "f()", "a[i]", "[1, 2]", "3ms", `"${b}c"`, "${H}", "{1: 2}", "T{1}", "T{n: 1}", "[]int{1}", "x => x"}
	if depth == 0 {
		return atoms
	}
	sub := Exprs(depth - 1)
	out := append([]string{}, atoms...)
	for _, s := range sub {
		out = append(out, "-"+s, "!"+s, "("+s+")", s+"!", s+"?", s+".f", s+"[0]", s+"[1:2]", "f("+s+")", "&"+s, "*"+s, "<-"+s, "["+s+" for v <- x]", "func() int { return "+s+" }()",
			s+".m()", s+".(T)", s+"...")
	}
	lim := sub
	if len(lim) > 14 {
		lim = lim[:14]
	}
	for _, a := range lim {
		for _, b := range lim {
			out = append(out, a+" + "+b, a+" * "+b, a+" == "+b, a+" -> "+b, a+"?:"+b, "f("+a+", "+b+")", a+"["+b+"]")
		}
	}
	return out
}

// StmtsFor wraps an expression into the statement contexts of the grammar.
func StmtsFor(e string) []string {
	return []string{"x := " + e, "echo " + e, "return " + e, "if " + e + " {\n}", "for v <- " + e + " {\n}", "a <- " + e, "f " + e + ", 1", "x = " + e + "\ny++",
		// control clauses, bare and with the whole expression in parentheses (composite literals need them)
		"if (" + e + ") {\n}", "for " + e + " {\n}", "for (" + e + ") {\n}", "switch " + e + " {\n}", "switch (" + e + ") {\n}", "for i := range (" + e + ") {\n}",
		"if v := 1; (" + e + ") {\n}", "switch v := 1; (" + e + ") {\n}", "for v <- (" + e + ") {\n}",
		"var x = " + e, "defer f(" + e + ")", "go f(" + e + ")", e}
}

// WidthSweep returns one-line function declarations, literals and methods, argument lists and literals whose
// source width sweeps across the formatter's line-length thresholds, each with canonical and with compact
// (blank-free) spacing: layout decisions that depend on a width must be stable under a second pass.
func WidthSweep(step int) []string {
	var out []string
	pad := func(n int) string {
		s := "a"
		for len(s) < n {
			s += " + a"
		}
		return s
	}
	for w := 20; w <= 140; w += step {
		body := pad(w)
		for _, hdr := range []string{"func sum(a, b, c, d int) (x, y int)", "func sum(a,b,c,d int)(x,y int)", "func (t T) sum(a,b int)(x int)", "func (t T) sum(a, b int) (x int)"} {
			out = append(out, hdr+" { return "+body+" }")
			out = append(out, hdr+"{return "+body+"}")
		}
		out = append(out, "var f = func(a,b int)(x int) { return "+body+" }", "var f = func(a, b int) (x int) { return "+body+" }",
			"x := g(func(a,b int)(x int) { return "+body+" }, 1)",
			"x := f("+body+", "+body+")", "x := []int{"+body+", 1}", "x := ["+body+", 1]", "x := T{a: "+body+", b: 2}", "if "+body+" > 1 { return }",
			"type T struct{ a int; b string } // "+body, "x := "+body+" // "+body)
	}
	return out
}

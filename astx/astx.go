// Package astx: reflection utilities over XGo ast.Node trees (child
// enumeration independent of ast.Walk, Bad-node search, structural equality).
package astx

import (
	"fmt"
	"reflect"
	"sort"

	"github.com/goplus/xgo/ast"
)

var nodeType = reflect.TypeOf((*ast.Node)(nil)).Elem()

// skipped fields: derived / back-reference data, not syntax children.
var skipField = map[string]bool{"Obj": true, "Scope": true, "Unresolved": true, "Imports": true, "Comments": true, "Code": true, "ShadowEntry": true}

// Children returns the non-nil child nodes of n in field order.
// withDocs controls whether Doc/Comment comment groups are included.
func Children(n ast.Node, withDocs bool) []ast.Node {
	var out []ast.Node
	v := reflect.ValueOf(n)
	if v.Kind() == reflect.Ptr {
		if v.IsNil() {
			return nil
		}
		v = v.Elem()
	}
	if v.Kind() != reflect.Struct {
		return nil
	}
	// synthetic parts documented as such: the name of a file without package clause, and everything
	// but the body of a shadow function declaration.
	switch x := n.(type) {
	case *ast.File:
		if x.NoPkgDecl {
			var all []ast.Node
			collectStruct(v, withDocs, &all, 0)
			for _, c := range all {
				if c != ast.Node(x.Name) {
					out = append(out, c)
				}
			}
			return out
		}
	case *ast.FuncDecl:
		if x.Shadow {
			if x.Body != nil {
				return []ast.Node{x.Body}
			}
			return nil
		}
	}
	collectStruct(v, withDocs, &out, 0)
	return out
}

func collectStruct(v reflect.Value, withDocs bool, out *[]ast.Node, depth int) {
	t := v.Type()
	for i := 0; i < v.NumField(); i++ {
		f := t.Field(i)
		if !f.IsExported() || skipField[f.Name] {
			continue
		}
		if !withDocs && (f.Name == "Doc" || f.Name == "Comment") {
			continue
		}
		collectValue(v.Field(i), withDocs, out, depth)
	}
}

func collectValue(v reflect.Value, withDocs bool, out *[]ast.Node, depth int) {
	switch v.Kind() {
	case reflect.Interface:
		if v.IsNil() {
			return
		}
		collectValue(v.Elem(), withDocs, out, depth)
	case reflect.Ptr:
		if v.IsNil() {
			return
		}
		if v.Type().Implements(nodeType) {
			// go/ast and tpl/ast nodes satisfy the interface structurally but are not XGo syntax nodes
			// (Comment and CommentGroup are aliases of the go/ast types)
			et := v.Type().Elem()
			if et.PkgPath() == "github.com/goplus/xgo/ast" || et.PkgPath() == "go/ast" && (et.Name() == "Comment" || et.Name() == "CommentGroup") {
				*out = append(*out, v.Interface().(ast.Node))
			}
			return
		}
		// transparent containers (StringLitEx, DomainTextLitEx)
		if v.Elem().Kind() == reflect.Struct && v.Type().Elem().PkgPath() == "github.com/goplus/xgo/ast" && depth < 3 {
			collectStruct(v.Elem(), withDocs, out, depth+1)
		}
	case reflect.Slice:
		for i := 0; i < v.Len(); i++ {
			collectValue(v.Index(i), withDocs, out, depth)
		}
	case reflect.Map:
		keys := v.MapKeys()
		sort.Slice(keys, func(i, j int) bool { return fmt.Sprint(keys[i]) < fmt.Sprint(keys[j]) })
		for _, k := range keys {
			collectValue(v.MapIndex(k), withDocs, out, depth)
		}
	case reflect.Struct:
		if v.CanAddr() && v.Addr().Type().Implements(nodeType) {
			*out = append(*out, v.Addr().Interface().(ast.Node))
		}
	}
}

// HasBad reports whether a Bad* node is reachable from n.
func HasBad(n ast.Node) bool {
	switch n.(type) {
	case *ast.BadExpr, *ast.BadStmt, *ast.BadDecl:
		return true
	}
	for _, c := range Children(n, false) {
		if HasBad(c) {
			return true
		}
	}
	return false
}

// Walk calls f for n and every descendant (pre-order).
func Walk(n ast.Node, withDocs bool, f func(n ast.Node, parent ast.Node)) {
	var rec func(n, p ast.Node)
	rec = func(n, p ast.Node) {
		f(n, p)
		for _, c := range Children(n, withDocs) {
			rec(c, n)
		}
	}
	rec(n, nil)
}

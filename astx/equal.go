package astx

import (
	"fmt"
	"reflect"

	"github.com/goplus/xgo/token"
)

// Pos fields whose *validity* is syntax (compared as valid/invalid); all other
// token.Pos fields are ignored by Equal.
var posIsSyntax = map[string]bool{"CallExpr.NoParenEnd": true, "GenDecl.Lparen": true, "TypeSpec.Assign": true, "CallExpr.Ellipsis": true,
	"SendStmt.Ellipsis": true, "RangeExpr.Colon2": true, "ElemEllipsis.Ellipsis": true}

var eqSkip = map[string]bool{"Obj": true, "Scope": true, "Unresolved": true, "Imports": true, "Comments": true, "Code": true,
	"Doc": true, "Comment": true, "ShadowEntry": true, "GoFiles": true}

var posType = reflect.TypeOf(token.NoPos)

// Options tune Equal.
type Options struct {
	StripParens bool // treat (x) as x on both sides
}

// Equal compares two trees modulo positions and comments. It returns "" when
// equal, otherwise a path-qualified description of the first difference.
func Equal(a, b any, opt Options) string {
	return eq(reflect.ValueOf(a), reflect.ValueOf(b), "", opt, 0)
}

func stripParen(v reflect.Value) reflect.Value {
	for v.IsValid() && v.Kind() == reflect.Ptr && !v.IsNil() && v.Type().Elem().Name() == "ParenExpr" && v.Type().Elem().PkgPath() == "github.com/goplus/xgo/ast" {
		x := v.Elem().FieldByName("X")
		if x.IsNil() {
			break
		}
		v = x.Elem()
	}
	return v
}

func eq(a, b reflect.Value, path string, opt Options, depth int) string {
	if depth > 400 {
		return path + ": too deep"
	}
	if !a.IsValid() || !b.IsValid() {
		if a.IsValid() != b.IsValid() {
			return fmt.Sprintf("%s: one side missing", path)
		}
		return ""
	}
	if a.Kind() == reflect.Interface {
		if a.IsNil() != b.IsNil() && b.Kind() == reflect.Interface {
			return fmt.Sprintf("%s: nil vs non-nil (%v / %v)", path, a.IsNil(), b.IsNil())
		}
		if a.IsNil() {
			return ""
		}
		a = a.Elem()
	}
	if b.Kind() == reflect.Interface {
		if b.IsNil() {
			return fmt.Sprintf("%s: non-nil vs nil", path)
		}
		b = b.Elem()
	}
	if opt.StripParens {
		a, b = stripParen(a), stripParen(b)
	}
	if a.Type() != b.Type() {
		return fmt.Sprintf("%s: %s vs %s", path, a.Type(), b.Type())
	}
	switch a.Kind() {
	case reflect.Ptr:
		if a.IsNil() || b.IsNil() {
			if a.IsNil() != b.IsNil() {
				return fmt.Sprintf("%s: nil vs non-nil %s", path, a.Type())
			}
			return ""
		}
		return eq(a.Elem(), b.Elem(), path+"/"+a.Type().Elem().Name(), opt, depth+1)
	case reflect.Struct:
		t := a.Type()
		for i := 0; i < t.NumField(); i++ {
			f := t.Field(i)
			if !f.IsExported() || eqSkip[f.Name] {
				continue
			}
			if f.Type == posType {
				if posIsSyntax[t.Name()+"."+f.Name] {
					if t.Name() == "CallExpr" && f.Name == "NoParenEnd" && a.FieldByName("Args").Len() == 0 && b.FieldByName("Args").Len() == 0 {
						continue // `g ()` and `g()`: a call without arguments has no paren-less spelling
					}
					av, bv := a.Field(i).Int() != 0, b.Field(i).Int() != 0
					if av != bv {
						return fmt.Sprintf("%s.%s: validity %v vs %v", path, f.Name, av, bv)
					}
				}
				continue
			}
			if d := eq(a.Field(i), b.Field(i), path+"."+f.Name, opt, depth+1); d != "" {
				return d
			}
		}
		return ""
	case reflect.Slice:
		if a.Len() != b.Len() {
			return fmt.Sprintf("%s: length %d vs %d", path, a.Len(), b.Len())
		}
		for i := 0; i < a.Len(); i++ {
			if d := eq(a.Index(i), b.Index(i), fmt.Sprintf("%s[%d]", path, i), opt, depth+1); d != "" {
				return d
			}
		}
		return ""
	case reflect.Map:
		return "" // Package maps are not compared here
	case reflect.String:
		if a.String() != b.String() {
			return fmt.Sprintf("%s: %q vs %q", path, a.String(), b.String())
		}
	case reflect.Bool:
		if a.Bool() != b.Bool() {
			return fmt.Sprintf("%s: %v vs %v", path, a.Bool(), b.Bool())
		}
	case reflect.Int, reflect.Int8, reflect.Int16, reflect.Int32, reflect.Int64:
		if a.Int() != b.Int() {
			return fmt.Sprintf("%s: %d vs %d", path, a.Int(), b.Int())
		}
	case reflect.Uint, reflect.Uint8, reflect.Uint16, reflect.Uint32, reflect.Uint64:
		if a.Uint() != b.Uint() {
			return fmt.Sprintf("%s: %d vs %d", path, a.Uint(), b.Uint())
		}
	}
	return ""
}

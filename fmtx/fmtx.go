// Package fmtx: input pool and oracles shared by the formatter checks C19, C20, C21.
package fmtx

import (
	"fmt"
	"regexp"
	"sort"
	"strings"

	"github.com/goplus/xgo/ast"
	"github.com/goplus/xgo/format"
	"github.com/goplus/xgo/parser"
	"github.com/goplus/xgo/token"
	"verif/astx"
	"verif/corpus"
	"verif/engine"
	"verif/scanx"
)

type Src struct {
	Name string `json:"name"`
	Text string `json:"text"`
}

func IsClass(name string) bool {
	for _, e := range []string{".gox", ".spx", ".gmx", ".gsh"} {
		if strings.HasSuffix(name, e) {
			return true
		}
	}
	return false
}

// Pool returns the input pool (simplest first within each part).
// LineBreakSeeds: grouped declarations, field and method lists, literals and calls whose members carry
// trailing comments and bracket pairs, in canonical layout.
var LineBreakSeeds = []string{
	"var (\n\ta = 1 // one\n\tbbbbbbbb = []int{} // two\n\tc = 3 // three\n)\n",
	"const (\n\ta = 1\n\tbbbbbbbb = (2)\n\tc = 3\n)\n",
	"var (\n\ta = f()\n\tbbbb = g(1, 2)\n\tc, d = []int{1, 2}, 3\n)\n",
	"type T struct {\n\ta int // c1\n\tbbbbbbbb func() // c2\n\tc int // c3\n}\n",
	"type T struct {\n\ta int\n\tbbbb struct{ x, y int }\n\tc map[string][]int\n}\n",
	"type I interface {\n\tA() // c1\n\tBbbbbbbbbb() // c2\n\tC(x int) (y int) // c3\n}\n",
	"type (\n\tA int // c1\n\tBbbbbbbb [4]int // c2\n\tC = A // c3\n)\n",
	"import (\n\t\"a\"\n\tb \"b/c\" // d\n)\n",
	"func f(a int, b ...string) (c int, err error) {\n\treturn g(a, h(b...), []int{1, 2}), nil\n}\n",
	"x := []int{1, 2, 3}\nm := {\"a\": 1, \"b\": [2, 3]}\nf a, g(b), c\n",
	"var (\n\ta int\n\tb, c string\n)\n\nfunc m() {\n\techo a, b\n}\n",
}

func Pool(thorough bool) []Src {
	var p []Src
	for _, s := range corpus.HandSeeds {
		p = append(p, Src{"a.xgo", s})
	}
	depth := 1
	if thorough {
		depth = 2
	}
	for _, e := range corpus.Exprs(depth) {
		for _, s := range corpus.StmtsFor(e) {
			p = append(p, Src{"a.xgo", s})
		}
	}
	// spacing variants: a formatter mostly meets text that is NOT laid out canonically. For the hand seeds and
	// the depth-1 grammar in three statement contexts: a blank inserted at every token boundary, and the
	// source with every blank between two tokens removed where that leaves the token sequence unchanged.
	var spaced []string
	spaced = append(spaced, corpus.HandSeeds...)
	for _, e := range corpus.Exprs(1) {
		spaced = append(spaced, "x := "+e, "f "+e+", 1", "if "+e+" {\n}")
	}
	for _, src := range spaced {
		bs := Boundaries(src)
		if len(bs) > 26 {
			continue
		}
		for _, b := range bs {
			if b > 0 && b < len(src) {
				p = append(p, Src{"a.xgo", src[:b] + " " + src[b:]})
			}
		}
		if c := compact(src); c != src {
			p = append(p, Src{"a.xgo", c})
		}
	}
	// line-break variants: members of declaration groups, field lists and argument lists written over more or
	// fewer lines than the printer lays them out. For every seed a line break is inserted at every token boundary
	// and at every pair of boundaries (variants that no longer parse fall outside the premise).
	for _, src := range LineBreakSeeds {
		bs := Boundaries(src)
		var in []int
		for _, b := range bs {
			if b > 0 && b < len(src) {
				in = append(in, b)
			}
		}
		for i, b := range in {
			p = append(p, Src{"a.xgo", src[:b] + "\n" + src[b:]})
			for _, b2 := range in[i+1:] {
				p = append(p, Src{"a.xgo", src[:b] + "\n" + src[b:b2] + "\n" + src[b2:]})
			}
		}
	}
	step := 3
	if thorough {
		step = 1
	}
	for _, s := range corpus.WidthSweep(step) {
		p = append(p, Src{"a.xgo", s})
	}
	names, srcs := corpus.AllXGo(200000)
	for i := range names {
		p = append(p, Src{names[i], srcs[i]})
	}
	return p
}

func Parse(s Src) (*ast.File, *token.FileSet, error) {
	mode := parser.ParseComments
	if IsClass(s.Name) {
		mode |= parser.ParseGoPlusClass
	}
	fset := token.NewFileSet()
	f, err := parser.ParseFile(fset, s.Name, []byte(s.Text), mode)
	return f, fset, err
}

func Format(s Src) ([]byte, error) {
	return format.Source([]byte(s.Text), IsClass(s.Name), s.Name)
}

// normImports sorts and de-duplicates the specs of import declarations (allowed differences).
func normImports(f *ast.File) {
	for _, d := range f.Decls {
		gd, ok := d.(*ast.GenDecl)
		if !ok || gd.Tok != token.IMPORT {
			continue
		}
		key := func(s ast.Spec) string {
			is := s.(*ast.ImportSpec)
			n := ""
			if is.Name != nil {
				n = is.Name.Name
			}
			return is.Path.Value + "\x00" + n
		}
		sort.SliceStable(gd.Specs, func(i, j int) bool { return key(gd.Specs[i]) < key(gd.Specs[j]) })
		out := gd.Specs[:0]
		for i, s := range gd.Specs {
			if i > 0 && key(s) == key(gd.Specs[i-1]) {
				continue
			}
			out = append(out, s)
		}
		gd.Specs = out
	}
}

var reIdx = regexp.MustCompile(`\[\d+\]`)

// diffKey turns an astx.Equal path into a defect key: the last two path segments without indexes.
func diffKey(d string) string {
	path := d
	if i := strings.Index(d, ": "); i >= 0 {
		path = d[:i]
	}
	path = reIdx.ReplaceAllString(path, "")
	segs := strings.Split(path, "/")
	if len(segs) > 2 {
		segs = segs[len(segs)-2:]
	}
	return strings.Join(segs, "/")
}

var rePosPrefix = regexp.MustCompile(`^[^ ]*:\d+:\d+: `)

func errKey(err error) string {
	s := err.Error()
	if i := strings.Index(s, "\n"); i >= 0 {
		s = s[:i]
	}
	s = rePosPrefix.ReplaceAllString(s, "")
	if i := strings.Index(s, " (and "); i >= 0 {
		s = s[:i]
	}
	if i := strings.Index(s, ", found "); i >= 0 {
		s = s[:i]
	}
	return s
}

// TreePreserved is the C19 oracle. ok=false with fail=nil means the input is outside the premise
// (does not parse).
func TreePreserved(s Src) (fail *engine.Failure, premise bool) {
	in, _, err := Parse(s)
	if err != nil {
		return nil, false
	}
	var out []byte
	var ferr error
	if g := engine.Guard(func() { out, ferr = Format(s) }); g != nil {
		return g, true
	}
	if ferr != nil {
		return &engine.Failure{Key: "format-error:" + errKey(ferr), What: "formatter fails on a valid source", Detail: fmt.Sprintf("src=%q err=%v", clip(s.Text), ferr)}, true
	}
	o, _, perr := Parse(Src{s.Name, string(out)})
	if perr != nil {
		return &engine.Failure{Key: "output-does-not-parse:" + errKey(perr), What: "formatted output does not parse", Detail: fmt.Sprintf("src=%q out=%q err=%v", clip(s.Text), clip(string(out)), perr)}, true
	}
	normImports(in)
	normImports(o)
	// Redundant parentheses may be dropped (gofmt does the same in control clauses); a lost *needed*
	// parenthesis still changes the shape of the re-parsed tree and is caught.
	if d := astx.Equal(in, o, astx.Options{StripParens: true}); d != "" {
		return &engine.Failure{Key: "tree-changed:" + diffKey(d), What: "formatted output parses to a different tree", Detail: fmt.Sprintf("diff=%s\nsrc=%q\nout=%q", d, clip(s.Text), clip(string(out)))}, true
	}
	return nil, true
}

// Idempotent is the C20 oracle.
func Idempotent(s Src) (fail *engine.Failure, premise bool) {
	if _, _, err := Parse(s); err != nil {
		return nil, false
	}
	var o1, o2 []byte
	var e1, e2 error
	if g := engine.Guard(func() { o1, e1 = Format(s) }); g != nil {
		return g, true
	}
	if e1 != nil {
		return nil, true // C19's business
	}
	if g := engine.Guard(func() { o2, e2 = Format(Src{s.Name, string(o1)}) }); g != nil {
		return g, true
	}
	if e2 != nil {
		return &engine.Failure{Key: "second-pass-error:" + errKey(e2), What: "formatting the formatted output fails", Detail: fmt.Sprintf("src=%q out1=%q err=%v", clip(s.Text), clip(string(o1)), e2)}, true
	}
	if string(o1) != string(o2) {
		i := 0
		for i < len(o1) && i < len(o2) && o1[i] == o2[i] {
			i++
		}
		return &engine.Failure{Key: "not-idempotent:" + contextKey(string(o1), i), What: "second formatting pass changes the output", Detail: fmt.Sprintf("first difference at byte %d\nsrc=%q\nout1=%q\nout2=%q", i, clip(s.Text), clip(string(o1)), clip(string(o2)))}, true
	}
	return nil, true
}

// contextKey names the token kinds around byte offset i of src (defect class for idempotence failures).
func contextKey(src string, i int) string {
	r := scanx.XGo([]byte(src), true, nil)
	prev, next := "BOF", "EOF"
	for _, t := range r.Toks {
		if t.Off < i {
			prev = t.Kind
		} else {
			next = t.Kind
			break
		}
	}
	return prev + "|" + next
}

func normComment(t string) string {
	lines := strings.Split(t, "\n")
	for i := range lines {
		lines[i] = strings.TrimSpace(lines[i])
	}
	return strings.Join(lines, "\n")
}

func Comments(f *ast.File) []string {
	var out []string
	for _, g := range f.Comments {
		for _, c := range g.List {
			out = append(out, normComment(c.Text))
		}
	}
	return out
}

// CommentsPreserved is the C21 oracle.
func CommentsPreserved(s Src) (fail *engine.Failure, premise bool, ncomments int) {
	in, _, err := Parse(s)
	if err != nil {
		return nil, false, 0
	}
	want := Comments(in)
	var out []byte
	var ferr error
	if g := engine.Guard(func() { out, ferr = Format(s) }); g != nil {
		return g, true, len(want)
	}
	if ferr != nil {
		return nil, true, len(want) // C19's business
	}
	o, _, perr := Parse(Src{s.Name, string(out)})
	var got []string
	if perr != nil {
		// still judge by text: every comment text must occur in the output, in order
		rest := string(out)
		for _, w := range want {
			first := strings.SplitN(w, "\n", 2)[0]
			j := strings.Index(rest, first)
			if j < 0 {
				return &engine.Failure{Key: "comment-lost:" + kind(w), What: "a comment of the input is missing from the formatted output", Detail: fmt.Sprintf("comment=%q\nsrc=%q\nout=%q", w, clip(s.Text), clip(string(out)))}, true, len(want)
			}
			rest = rest[j+len(first):]
		}
		return nil, true, len(want)
	}
	got = Comments(o)
	if len(got) != len(want) {
		k := "comment-count"
		if len(got) < len(want) {
			k = "comment-lost:" + kind(firstMissing(want, got))
		} else {
			k = "comment-duplicated:" + kind(firstMissing(got, want))
		}
		return &engine.Failure{Key: k, What: "formatted output has a different number of comments", Detail: fmt.Sprintf("want=%q got=%q\nsrc=%q\nout=%q", want, got, clip(s.Text), clip(string(out)))}, true, len(want)
	}
	for i := range want {
		if want[i] != got[i] {
			return &engine.Failure{Key: "comment-changed-or-reordered:" + kind(want[i]), What: "comment text or order differs after formatting", Detail: fmt.Sprintf("position %d want=%q got=%q\nsrc=%q\nout=%q", i, want[i], got[i], clip(s.Text), clip(string(out)))}, true, len(want)
		}
	}
	return nil, true, len(want)
}

func kind(c string) string {
	switch {
	case strings.HasPrefix(c, "//"):
		return "//"
	case strings.HasPrefix(c, "/*"):
		return "/*"
	case strings.HasPrefix(c, "#"):
		return "#"
	}
	return "?"
}

func firstMissing(a, b []string) string {
	m := map[string]int{}
	for _, x := range b {
		m[x]++
	}
	for _, x := range a {
		if m[x] == 0 {
			return x
		}
		m[x]--
	}
	if len(a) > 0 {
		return a[0]
	}
	return ""
}

func clip(s string) string {
	if len(s) > 600 {
		return s[:600] + "…"
	}
	return s
}

// Boundaries returns the byte offsets of all token starts of src plus its end.
func Boundaries(src string) []int {
	r := scanx.XGo([]byte(src), true, nil)
	var out []int
	for _, t := range r.Toks {
		if ext, _ := scanx.Extent([]byte(src), t); ext > 0 {
			out = append(out, t.Off)
		}
	}
	out = append(out, len(src))
	return out
}

// compact removes the blanks between tokens wherever the scanner still yields the same tokens.
func compact(src string) string {
	want := scanx.XGo([]byte(src), true, nil).Toks
	out := src
	for i := len(out) - 1; i >= 0; i-- {
		if out[i] != ' ' {
			continue
		}
		cand := out[:i] + out[i+1:]
		got := scanx.XGo([]byte(cand), true, nil).Toks
		if len(got) != len(want) {
			continue
		}
		same := true
		for j := range got {
			if got[j].Kind != want[j].Kind || got[j].Lit != want[j].Lit {
				same = false
				break
			}
		}
		if same {
			out = cand
		}
	}
	return out
}

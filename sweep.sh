#!/bin/bash
# usage: ./sweep.sh quick|thorough [ids...] — runs the registered checks one after another and prints one line per check
cd "$(dirname "$(readlink -f "$0")")"
tier="${1:-quick}"; shift
ids=("$@"); [ ${#ids[@]} -eq 0 ] && ids=($(python3 -c "import json;print(' '.join(c['property_id'] for c in json.load(open('MANIFEST.json'))['checks']))"))
for c in "${ids[@]}"; do
  t0=$(date +%s)
  out=$(./run.sh "$c" "$tier" 2>&1); rc=$?
  echo "$c rc=$rc $(($(date +%s)-t0))s $(echo "$out" | grep -a '^RESULT' | cut -c1-160)"
  echo "$out" | grep -a "^VIOLATION\|  key=\|BUILD-FAILED\|HARNESS" | cut -c1-220 | head -8
done

// C32: the TPL scanner tokenises like the XGo scanner on shared lexemes.
// Mode B: BFS over the product (XGo scanner state x TPL scanner) with every
// (separator, shared lexeme) action; mode E: every short byte string over a
// shared-lexeme byte alphabet.
package main

import (
	"strings"
	"fmt"

	"github.com/goplus/xgo/scanner"
	"github.com/goplus/xgo/token"
	"verif/engine"
	"verif/scanx"
)

type Case struct {
	Src      string `json:"src"`
	Comments bool   `json:"comments"`
}

// bytes whose lexemes both scanners share (no '~', '@', "**", keywords or c/py strings can be formed:
// letters are limited to 'a', 'x', 'e' so no keyword or c"/py" prefix arises; '*' is excluded from the
// byte alphabet because "**" is a TPL-only operator and is covered lexeme-wise instead).
var alpha = []byte("a1x_.\"'`\\/#\n\r $-><=!+e0")

func isKeywordOrXGoOnly(t scanx.Tok) bool {
	switch t.Kind {
	case "CSTRING", "PYSTRING":
		return true
	}
	return token.Lookup(t.Kind).IsKeyword()
}

func eval(k Case) (*engine.Failure, bool) {
	src := []byte(k.Src)
	var x, t scanx.Result
	if f := engine.Guard(func() { x = scanx.XGo(src, k.Comments, nil) }); f != nil {
		return f, false
	}
	for _, tk := range x.Toks {
		if isKeywordOrXGoOnly(tk) {
			return nil, true // not a shared lexeme
		}
	}
	if f := engine.Guard(func() { t = scanx.TPL(src, k.Comments) }); f != nil {
		f.Key = "tpl-" + f.Key
		return f, false
	}
	for _, tk := range t.Toks {
		if tk.Kind == "**" || tk.Kind == "~" || tk.Kind == "@" {
			return nil, true // TPL-only operators
		}
	}
	det := fmt.Sprintf("src=%q comments=%v\nxgo=%+v\ntpl=%+v", k.Src, k.Comments, x.Toks, t.Toks)
	n := len(x.Toks)
	if len(t.Toks) < n {
		n = len(t.Toks)
	}
	for i := 0; i < n; i++ {
		a, b := x.Toks[i], t.Toks[i]
		if a == b {
			continue
		}
		key := "token:" + a.Kind + "≠" + b.Kind
		switch {
		case a.Kind == b.Kind && a.Lit == b.Lit:
			key = "offset:" + a.Kind
		case a.Kind == b.Kind:
			key = "literal:" + a.Kind
		}
		return &engine.Failure{Key: key, What: "TPL token stream differs from the XGo scanner's", Detail: fmt.Sprintf("token %d; %s", i, det)}, false
	}
	if len(x.Toks) != len(t.Toks) {
		return &engine.Failure{Key: "token-count", What: "TPL token count differs", Detail: det}, false
	}
	return nil, false
}

func main() {
	c := engine.New("C32", "model_checking")
	if c.IsReplay() {
		var k Case
		c.LoadReplay(&k)
		f, _ := eval(k)
		c.ReplayResult(f)
	}
	maxLen := 4
	if c.Thorough() {
		maxLen = 5
	}
	A := len(alpha)
	job := &engine.Job{NumBlocks: A}
	job.RunBlock = func(w *engine.W, b int) {
		for n := 1; n <= maxLen; n++ {
			s := make([]byte, n)
			s[0] = alpha[b]
			idx := make([]int, n-1)
			for {
				for i, v := range idx {
					s[1+i] = alpha[v]
				}
				for _, cm := range []bool{false, true} {
					k := Case{string(s), cm}
					if w.Item(k) {
						f, ex := eval(k)
						if ex {
							w.Hist("excluded_not_shared")
						} else {
							w.Nontrivial()
							if f != nil {
								w.Fail(k, f)
							}
						}
					}
				}
				i := len(idx) - 1
				for ; i >= 0; i-- {
					idx[i]++
					if idx[i] < A {
						break
					}
					idx[i] = 0
				}
				if i < 0 {
					break
				}
			}
		}
		w.Sample(Case{string(alpha[b]) + "#\n", true})
	}
	if !c.IsWorker() {
		bfs(c)
	}
	job.Run(c)
	c.Rule = fmt.Sprintf("(B) BFS over product states (comment mode, XGo insertSemi, nParen clamp, last lexeme) with every (separator, shared lexeme) action; token kinds, offsets, literals and inserted semicolons of complete scans compared; (E) every byte string of length 1..%d over %q in both comment modes. Inputs on which the XGo scanner sees a keyword or c\"/py\" literal, or the TPL scanner sees **, ~ or @, are not shared lexemes: excluded and counted", maxLen, string(alpha))
	c.Assumptions = []string{"token kinds are compared through their String() spelling", "error messages are not compared (the property speaks of boundaries, literals and semicolons)"}
	c.Finish()
}

type st struct {
	comments   bool
	insertSemi bool
	nParen     int
	last       int
	// trail: same-line block comments scanned after a token that left a semicolon pending. The
	// scanner decides about that semicolon by looking ahead past such comments (findLineEnd), so in
	// the witness the decision was taken against the end of input; the continuation decides again.
	// Such a state is therefore the pending state plus the comments, not the state after them.
	trail string
}

// inlineBlockComment: a /*...*/ comment without a line break (the only lexemes the scanner looks past).
func inlineBlockComment(lx string) bool {
	return strings.HasPrefix(lx, "/*") && strings.HasSuffix(lx, "*/") && len(lx) >= 4 && !strings.Contains(lx, "\n")
}

func clamp(n int) int {
	if n < -2 {
		return -2
	}
	if n > 3 {
		return 3
	}
	return n
}

func bfs(c *engine.Check) {
	type node struct {
		s       st
		witness string
	}
	seen := map[st]bool{}
	var queue []node
	maxTrail := 1
	if c.Thorough() {
		maxTrail = 2
	}
	for _, cm := range []bool{false, true} {
		s0 := st{cm, false, 0, -1, ""}
		seen[s0] = true
		queue = append(queue, node{s0, ""})
	}
	states, trans, excl := 0, 0, 0
	var sampleTrace []string
	for len(queue) > 0 {
		nd := queue[0]
		queue = queue[1:]
		states++
		for _, sep := range scanx.Seps {
			for li, lx := range scanx.Lexemes {
				if !lx.TPL {
					continue
				}
				src := nd.witness + sep + lx.Text
				k := Case{src, nd.s.comments}
				trans++
				f, ex := eval(k)
				if ex {
					excl++
					continue
				}
				if f != nil {
					c.Violate(k, f)
					continue
				}
				var end *scanx.State
				scanx.XGo([]byte(src), nd.s.comments, func(s *scanner.Scanner, t scanx.Tok) {
					if end == nil {
						if x := scanx.XGoState(s); x.Offset >= len(src) {
							end = &x
						}
					}
				})
				if end == nil {
					continue
				}
				ns := st{nd.s.comments, end.InsertSemi, clamp(end.NParen), li, ""}
				if nd.s.insertSemi && inlineBlockComment(lx.Text) && !strings.Contains(sep, "\n") {
					if strings.Count(nd.s.trail, "\x00") >= maxTrail {
						continue // the transition was evaluated; longer comment runs are not expanded
					}
					sc := sep
					if sc == "\t" {
						sc = " "
					}
					ns = nd.s
					ns.trail += sc + lx.Text + "\x00"
				}
				if !seen[ns] {
					seen[ns] = true
					queue = append(queue, node{ns, src})
					if len(sampleTrace) < 4 {
						sampleTrace = append(sampleTrace, fmt.Sprintf("%q -> %+v", src, ns))
					}
				}
			}
		}
	}
	c.Eval(int64(trans))
	c.NontrivialN(int64(trans - excl))
	c.Hist("bfs_excluded_not_shared", int64(excl))
	c.Extra["states"] = states
	c.Extra["transitions"] = trans
	c.Extra["traces_validated_against_impl"] = trans
	c.Sample(map[string]any{"bfs_transition_examples": sampleTrace})
}

// C11: a normal .gox class file behaves like its explicit struct form.
// Mode E (bounded-exhaustive program generation). A class K<n>.gox is generated from a field layout
// (1..3 fields over five types, grouped `a, b T` specs, embedded fields) and the method shapes
// {getter, setter, params+results, sibling call, use of the field declared last}; main.xgo constructs
// an object and drives every method. Oracle (a): the same program with an explicit `type K struct`
// and `func (this *K) m(...)`, written in plain Go and built by Go, prints the same lines.
// Oracle (b): go/types over the Go code generated for the package shows type K with exactly the
// declared fields (name, type, embedded, order) and exactly the declared methods, each with
// receiver `this *K` and the declared signature.
package main

import (
	"fmt"
	"go/ast"
	"go/importer"
	"go/parser"
	"go/token"
	"go/types"
	"os"
	"strconv"
	"strings"
	"sync"

	"verif/engine"
	"verif/progs"
)

// ---- field types ----

type ftype struct {
	src   string // type text
	stem  string // field name stem
	vals  [3]string
	intEx string // %s = field reference: an int expression over the field
}

var ftypes = []ftype{
	{"int", "cnt", [3]string{"3", "8", "11"}, "%s"},
	{"string", "name", [3]string{`"ab"`, `"xyz"`, `"w"`}, "len(%s)"},
	{"[]int", "list", [3]string{"[]int{1, 2}", "[]int{4, 5, 6}", "[]int{7}"}, "len(%s)"},
	{"map[string]int", "tab", [3]string{`map[string]int{"k": 1}`, `map[string]int{"p": 2, "q": 3}`, `map[string]int{}`}, "len(%s)"},
	{"*Other", "oth", [3]string{"&Other{v: 4}", "&Other{v: 9}", "&Other{v: 5}"}, "%s.v"},
}

func ft(src string) ftype {
	for _, t := range ftypes {
		if t.src == src {
			return t
		}
	}
	panic("unknown field type " + src)
}

// prelude: shared by main.xgo and the reference program
const prelude = `type Other struct {
	v int
}

type Base struct {
	v int
}

func (b *Base) baseV() int {
	return b.v
}
`

// ---- cases ----

// Spec is one line of the var block: `n1, n2 T`, `n T` or an embedded type (no names).
type Spec struct {
	Names []string `json:"names,omitempty"`
	Type  string   `json:"type"`
}

type Case struct {
	ID    int    `json:"id"`
	Specs []Spec `json:"specs"`
	// Tags[i]: the struct tag written after the type of Specs[i] ("" = none), as source text: a raw or an interpreted string literal
	Tags  []string `json:"tags,omitempty"`
	Order string   `json:"order"` // fwd: late, getters, setters, mix, sib, Total; rev: the reverse
	// Pre: declarations written in the class file BEFORE the var block: "", "const", "type", "const+type"
	Pre string `json:"pre,omitempty"`
}

// preamble renders the declarations that precede the var block (package-level in both forms).
func (k Case) preamble() string {
	var sb strings.Builder
	if strings.Contains(k.Pre, "const") {
		fmt.Fprintf(&sb, "const kc%d = %d\n\n", k.ID, 3)
	}
	if strings.Contains(k.Pre, "type") {
		fmt.Fprintf(&sb, "type hp%d struct {\n\tv int\n}\n\n", k.ID)
	}
	return sb.String()
}

func (k Case) tag(i int) string {
	if i < len(k.Tags) {
		return k.Tags[i]
	}
	return ""
}

func (k Case) class() string { return fmt.Sprintf("K%d", k.ID) }

type field struct {
	name, typ string
	embedded  bool
	tag       string // source text of the tag literal
}

func (k Case) fields() []field {
	var fs []field
	for i, s := range k.Specs {
		if len(s.Names) == 0 {
			fs = append(fs, field{strings.TrimPrefix(s.Type, "*"), s.Type, true, k.tag(i)})
			continue
		}
		for _, n := range s.Names {
			fs = append(fs, field{n, s.Type, false, k.tag(i)}) // a tag belongs to every name of its spec
		}
	}
	return fs
}

func (k Case) plain() []field {
	var fs []field
	for _, f := range k.fields() {
		if !f.embedded {
			fs = append(fs, f)
		}
	}
	return fs
}

func (k Case) layoutClass() string {
	grouped, emb, tagged := false, false, false
	for i, s := range k.Specs {
		if k.tag(i) != "" {
			tagged = true
		}
		if len(s.Names) > 1 {
			grouped = true
		}
		if len(s.Names) == 0 {
			emb = true
		}
	}
	t := ""
	if tagged {
		t = "+tags"
	}
	switch {
	case grouped:
		return "grouped-names" + t
	case emb:
		return "embedded" + t
	}
	return "one-name-per-spec" + t
}

func tagSrc(t string) string {
	if t == "" {
		return ""
	}
	return " " + t
}

func title(s string) string { return strings.ToUpper(s[:1]) + s[1:] }

// method is one declared method: name, signature as go/types prints it, body (ref = prefix of a
// field or sibling reference: "" in the class file, "this." in the struct form).
type method struct {
	name, shape, sig string
	params, results  string
	body             func(ref string) string
}

func (k Case) methods() []method {
	pl := k.plain()
	sum := func(ref string) string {
		var ts []string
		for _, f := range pl {
			ts = append(ts, fmt.Sprintf(ft(f.typ).intEx, ref+f.name))
		}
		if len(ts) == 0 {
			return "0"
		}
		return strings.Join(ts, " + ")
	}
	var ms []method
	// uses the field declared last, and is the first method of the file
	ms = append(ms, method{"late", "later-field", "func() int", "", "int", func(ref string) string {
		if len(pl) == 0 {
			return "return 1"
		}
		l := pl[len(pl)-1]
		return "return " + fmt.Sprintf(ft(l.typ).intEx, ref+l.name) + "*2 + 1"
	}})
	for _, f := range pl {
		f := f
		ms = append(ms, method{"get" + title(f.name), "getter", "func() " + f.typ, "", f.typ, func(ref string) string {
			return "return " + ref + f.name
		}})
	}
	for _, f := range pl {
		f := f
		ms = append(ms, method{"set" + title(f.name), "setter", "func(v " + f.typ + ")", "v " + f.typ, "", func(ref string) string {
			return ref + f.name + " = v"
		}})
	}
	ms = append(ms, method{"mix", "params-results", "func(p int, q string) (int, string)", "p int, q string", "(int, string)", func(ref string) string {
		str := `"-"`
		for _, f := range pl {
			if f.typ == "string" {
				str = ref + f.name
				break
			}
		}
		return "return p + " + sum(ref) + ", q + " + str
	}})
	ms = append(ms, method{"sib", "sibling-call", "func(d int) int", "d int", "int", func(ref string) string {
		b := "n, s := " + ref + "mix(d, \"s\")\n"
		get := "0"
		if len(pl) > 0 {
			f := pl[0]
			b += "\t" + ref + "set" + title(f.name) + "(" + ft(f.typ).vals[2] + ")\n"
			get = fmt.Sprintf(ft(f.typ).intEx, ref+"get"+title(f.name)+"()")
		}
		return b + "\treturn n + len(s) + " + ref + "late() + " + get
	}})
	ms = append(ms, method{"Total", "property", "func() int", "", "int", func(ref string) string {
		return "return " + sum(ref)
	}})
	if k.Order == "rev" {
		for i, j := 0, len(ms)-1; i < j; i, j = i+1, j-1 {
			ms[i], ms[j] = ms[j], ms[i]
		}
	}
	return ms
}

// goxFile renders the class file.
func goxFile(k Case) string {
	var sb strings.Builder
	sb.WriteString(k.preamble())
	sb.WriteString("var (\n")
	for i, s := range k.Specs {
		if len(s.Names) == 0 {
			sb.WriteString("\t" + s.Type + tagSrc(k.tag(i)) + "\n")
		} else {
			sb.WriteString("\t" + strings.Join(s.Names, ", ") + " " + s.Type + tagSrc(k.tag(i)) + "\n")
		}
	}
	sb.WriteString(")\n")
	for _, m := range k.methods() {
		res := ""
		if m.results != "" {
			res = " " + m.results
		}
		fmt.Fprintf(&sb, "\nfunc %s(%s)%s {\n\t%s\n}\n", m.name, m.params, res, m.body(""))
	}
	return sb.String()
}

// structForm renders the explicit struct form in plain Go.
func structForm(k Case) string {
	var sb strings.Builder
	sb.WriteString(k.preamble())
	fmt.Fprintf(&sb, "type %s struct {\n", k.class())
	for _, f := range k.fields() {
		if f.embedded {
			sb.WriteString("\t" + f.typ + tagSrc(f.tag) + "\n")
		} else {
			sb.WriteString("\t" + f.name + " " + f.typ + tagSrc(f.tag) + "\n")
		}
	}
	sb.WriteString("}\n")
	for _, m := range k.methods() {
		res := ""
		if m.results != "" {
			res = " " + m.results
		}
		fmt.Fprintf(&sb, "\nfunc (this *%s) %s(%s)%s {\n\t%s\n}\n", k.class(), m.name, m.params, res, m.body("this."))
	}
	return sb.String()
}

// show renders a print statement of a field value expression.
func show(label, expr, typ string) string {
	if typ == "*Other" {
		return fmt.Sprintf("fmt.Println(%q, %s.v)\n", label, expr)
	}
	return fmt.Sprintf("fmt.Println(%q, %s)\n", label, expr)
}

// driver renders the unit body; every printed line starts with the label of the feature it observes.
func driver(k Case, xgo bool) string {
	var sb strings.Builder
	K := k.class()
	var inits []string
	for _, f := range k.fields() {
		switch {
		case f.embedded && f.typ == "Base":
			inits = append(inits, "Base: Base{v: 6}")
		case f.embedded:
			inits = append(inits, "Other: &Other{v: 6}")
		default:
			inits = append(inits, f.name+": "+ft(f.typ).vals[0])
		}
	}
	fmt.Fprintf(&sb, "x := &%s{%s}\n", K, strings.Join(inits, ", "))
	pl := k.plain()
	sb.WriteString("fmt.Println(\"later-field\", x.late())\n")
	for _, f := range pl {
		sb.WriteString(show("getter "+f.name, "x.get"+title(f.name)+"()", f.typ))
	}
	for _, f := range pl {
		fmt.Fprintf(&sb, "x.set%s(%s)\n", title(f.name), ft(f.typ).vals[1])
		sb.WriteString(show("setter "+f.name, "x."+f.name, f.typ))
	}
	sb.WriteString("a, b := x.mix(2, \"q\")\nfmt.Println(\"params-results\", a, b)\n")
	sb.WriteString("fmt.Println(\"sibling-call\", x.sib(3))\n")
	if len(pl) > 0 {
		sb.WriteString(show("sibling-call effect "+pl[0].name, "x."+pl[0].name, pl[0].typ))
	}
	if xgo {
		sb.WriteString("fmt.Println(\"property\", x.total)\n")
	} else {
		sb.WriteString("fmt.Println(\"property\", x.Total())\n")
	}
	for _, f := range k.fields() {
		if f.embedded && f.typ == "Base" {
			sb.WriteString("x.v = 2\nfmt.Println(\"embedded\", x.v, x.Base.v, x.baseV())\n")
		} else if f.embedded {
			sb.WriteString("x.v = 2\nfmt.Println(\"embedded\", x.v, x.Other.v)\n")
		}
	}
	// an addressable value: pointer-receiver methods mutate it in place
	if len(pl) > 0 {
		f := pl[0]
		fmt.Fprintf(&sb, "var z %s\nz.set%s(%s)\n", K, title(f.name), ft(f.typ).vals[1])
		sb.WriteString(show("setter on addressable value "+f.name, "z."+f.name, f.typ))
	}
	return sb.String()
}

func unitFor(k Case) progs.Unit {
	return progs.Unit{Key: k.layoutClass(), XGo: driver(k, true), Go: driver(k, false), GoDecls: structForm(k)}
}

func source(k Case) string {
	return "--- " + k.class() + ".gox\n" + goxFile(k) + "--- main.xgo (unit body)\n" + driver(k, true) + "--- struct form (reference, plain Go)\n" + structForm(k)
}

// ---- oracle (b): go/types view of the generated code ----

var (
	impOnce sync.Once
	srcImp  types.Importer
	impFset = token.NewFileSet()
	fmtPkg  = fakeFmt()
)

// fakeFmt is package fmt reduced to Println: the generated programs import nothing else, and
// type-checking the real fmt from source costs seconds on a loaded machine.
func fakeFmt() *types.Package {
	pkg := types.NewPackage("fmt", "fmt")
	anyT := types.Universe.Lookup("any").Type()
	params := types.NewTuple(types.NewVar(token.NoPos, pkg, "a", types.NewSlice(anyT)))
	results := types.NewTuple(types.NewVar(token.NoPos, pkg, "n", types.Typ[types.Int]), types.NewVar(token.NoPos, pkg, "err", types.Universe.Lookup("error").Type()))
	pkg.Scope().Insert(types.NewFunc(token.NoPos, pkg, "Println", types.NewSignatureType(nil, nil, nil, params, results, true)))
	pkg.MarkComplete()
	return pkg
}

type importerFunc func(path string) (*types.Package, error)

func (f importerFunc) Import(path string) (*types.Package, error) { return f(path) }

// stdImp: fmt is the reduced package above; anything else the compiler might import is loaded from source.
var stdImp = importerFunc(func(path string) (*types.Package, error) {
	if path == "fmt" {
		return fmtPkg, nil
	}
	impOnce.Do(func() { srcImp = importer.ForCompiler(impFset, "source", nil) })
	return srcImp.Import(path)
})

func typeView(k Case, gosrc []byte) *engine.Failure {
	fset := token.NewFileSet()
	f, err := parser.ParseFile(fset, "out.go", gosrc, 0)
	if err != nil {
		return &engine.Failure{Key: "generated-go-does-not-parse", What: "the generated Go code of a class package does not parse", Detail: err.Error()}
	}
	conf := types.Config{Importer: stdImp, Error: func(error) {}}
	pkg, err := conf.Check("main", fset, []*ast.File{f}, nil)
	if err != nil {
		return &engine.Failure{Key: "generated-go-does-not-typecheck:" + k.layoutClass(), What: "the generated Go code of a class package does not type-check", Detail: err.Error()}
	}
	qual := func(p *types.Package) string {
		if p == pkg {
			return ""
		}
		return p.Name()
	}
	K := k.class()
	obj, _ := pkg.Scope().Lookup(K).(*types.TypeName)
	if obj == nil {
		return &engine.Failure{Key: "class-type-missing", What: "the generated package has no type named after the class file", Detail: K}
	}
	named, _ := obj.Type().(*types.Named)
	st, _ := obj.Type().Underlying().(*types.Struct)
	if named == nil || st == nil {
		return &engine.Failure{Key: "class-type-not-a-struct", What: "the class type is not a defined struct type", Detail: obj.String()}
	}
	var got, want []string
	for i := 0; i < st.NumFields(); i++ {
		v := st.Field(i)
		s := v.Name() + " " + types.TypeString(v.Type(), qual)
		if v.Embedded() {
			s += " (embedded)"
		}
		if t := st.Tag(i); t != "" {
			s += " tag=" + strconv.Quote(t)
		}
		got = append(got, s)
	}
	for _, fl := range k.fields() {
		s := fl.name + " " + fl.typ
		if fl.embedded {
			s += " (embedded)"
		}
		if fl.tag != "" {
			t, _ := strconv.Unquote(fl.tag)
			s += " tag=" + strconv.Quote(t)
		}
		want = append(want, s)
	}
	if strings.Join(got, "; ") != strings.Join(want, "; ") {
		return &engine.Failure{Key: "type-fields-differ:" + k.layoutClass(), What: "the struct generated for the class does not have exactly the fields of the var block (name, type, order, tag)", Detail: fmt.Sprintf("declared: %s\ngenerated: %s", strings.Join(want, "; "), strings.Join(got, "; "))}
	}
	gotM := map[string]*types.Func{}
	for i := 0; i < named.NumMethods(); i++ {
		gotM[named.Method(i).Name()] = named.Method(i)
	}
	wantM := k.methods()
	for _, m := range wantM {
		fn := gotM[m.name]
		if fn == nil {
			return &engine.Failure{Key: "type-methods-differ:missing-method", What: "a func of the class file is not a method of the class type", Detail: m.name}
		}
		sig := fn.Type().(*types.Signature)
		recv := sig.Recv()
		ptr, isPtr := recv.Type().(*types.Pointer)
		if !isPtr || ptr.Elem() != types.Type(named) {
			return &engine.Failure{Key: "receiver-not-pointer-to-class", What: "a method of the class does not have the receiver *Class", Detail: fn.String()}
		}
		if recv.Name() != "this" {
			return &engine.Failure{Key: "receiver-not-named-this", What: "the receiver of a class method is not named this", Detail: fn.String()}
		}
		// signature without receiver
		plainSig := types.NewSignatureType(nil, nil, nil, sig.Params(), sig.Results(), sig.Variadic())
		if s := types.TypeString(plainSig, qual); s != m.sig {
			return &engine.Failure{Key: "type-methods-differ:signature:" + m.shape, What: "a method of the class type has another signature than the func of the class file", Detail: fmt.Sprintf("%s: declared %s, generated %s", m.name, m.sig, s)}
		}
		delete(gotM, m.name)
	}
	for n := range gotM {
		return &engine.Failure{Key: "type-methods-differ:extra-method", What: "the class type has a method that the class file does not declare", Detail: n}
	}
	return nil
}

// ---- evaluation ----

type prep struct {
	compileErr string
	typeFail   *engine.Failure
}

func options(ks []Case) progs.Options {
	files := map[string]string{}
	for _, k := range ks {
		files[k.class()+".gox"] = goxFile(k)
	}
	n := len(ks)
	if n == 0 {
		n = 1
	}
	return progs.Options{Prelude: prelude, XGoFiles: files, PerProgram: n}
}

// prepare compiles the class alone (class file + main.xgo with its driver) and applies oracle (b).
func prepare(k Case) prep {
	o := options([]Case{k})
	main := progs.Source([]progs.Unit{unitFor(k)}, []int{0}, o, true)
	out, err := progs.CompileXGoFiles(map[string]string{k.class() + ".gox": goxFile(k), "main.xgo": main}, nil)
	if err != nil {
		l := strings.Split(err.Error(), "\n")
		if len(l) > 3 {
			l = l[:3]
		}
		return prep{compileErr: strings.Join(l, " | ")}
	}
	if os.Getenv("C11_ORACLE") == "a" { // diagnostic switch: judge by oracle (a) alone (used to show that each oracle detects on its own)
		return prep{}
	}
	return prep{typeFail: typeView(k, out)}
}

func firstDiff(a, b string) string {
	la, lb := strings.Split(a, "\n"), strings.Split(b, "\n")
	for i := 0; i < len(la) || i < len(lb); i++ {
		x, y := "", ""
		if i < len(la) {
			x = la[i]
		}
		if i < len(lb) {
			y = lb[i]
		}
		if x != y {
			l := y // label of the reference line
			if l == "" {
				l = x
			}
			w := strings.Fields(l)
			switch {
			case len(w) == 0:
				return "output"
			case w[0] == "getter" || w[0] == "setter" || w[0] == "sibling-call" || w[0] == "PANIC:":
				if len(w) > 4 && w[1] == "on" {
					return "setter-on-addressable-value"
				}
				if len(w) > 1 && w[1] == "effect" {
					return "sibling-call-effect"
				}
				return strings.TrimSuffix(w[0], ":")
			}
			return w[0]
		}
	}
	return "output"
}

func judge(k Case, p prep, r *progs.UnitResult) *engine.Failure {
	det := fmt.Sprintf("case=%+v\n%s", k, source(k))
	if p.compileErr != "" {
		return &engine.Failure{Key: "class-does-not-compile:" + k.layoutClass(), What: "a class file with a var block of fields and funcs, or a program using it, is rejected by the compiler", Detail: p.compileErr + "\n" + det}
	}
	if p.typeFail != nil {
		f := *p.typeFail
		f.Detail += "\n" + det
		return &f
	}
	if r == nil {
		return nil
	}
	det += fmt.Sprintf("struct form prints:\n%s\nclass file prints:\n%s", r.RefOut, r.Out)
	switch {
	case r.CompileErr != "":
		return &engine.Failure{Key: "class-does-not-compile:" + k.layoutClass(), What: "a class file with a var block of fields and funcs, or a program using it, is rejected by the compiler", Detail: r.CompileErr + "\n" + det}
	case r.BuildErr != "":
		return &engine.Failure{Key: "generated-go-does-not-build:" + k.layoutClass(), What: "the Go code generated for a class package does not build", Detail: r.BuildErr + "\n" + det}
	case r.Out != r.RefOut:
		return &engine.Failure{Key: "behaviour-differs-from-struct-form:" + firstDiff(r.Out, r.RefOut), What: "a program using the class prints something else than the same program using the explicit struct with pointer-receiver methods", Detail: det}
	}
	return nil
}

// ---- enumeration ----

func enumerate(thorough bool) []Case {
	base := enumerateLayouts(thorough)
	cases := base
	// struct tags: on every spec, on the first only, on the last only; raw and interpreted literals. A tag on a
	// spec with several names belongs to each of them. Quick: layouts with at most two specs.
	for _, k := range base {
		if k.Order != "fwd" || (!thorough && len(k.Specs) > 2) {
			continue
		}
		for v, mask := range []string{"all", "first", "last", "all-interpreted"} {
			if mask != "all" && mask != "all-interpreted" && len(k.Specs) < 2 {
				continue
			}
			kk := k
			kk.ID = len(cases)
			kk.Tags = make([]string, len(k.Specs))
			for i := range kk.Specs {
				if mask == "first" && i != 0 || mask == "last" && i != len(kk.Specs)-1 {
					continue
				}
				if mask == "all-interpreted" {
					kk.Tags[i] = fmt.Sprintf("\"json:\\\"f%d,omitempty\\\" v:\\\"%d\\\"\"", i, v)
				} else {
					kk.Tags[i] = fmt.Sprintf("`json:\"f%d,omitempty\" v:\"%d\"`", i, v)
				}
			}
			cases = append(cases, kk)
		}
	}
	// declarations in front of the var block: the fields must still be found
	for _, k := range base {
		if k.Order != "fwd" || (!thorough && len(k.Specs) > 1) {
			continue
		}
		for _, pre := range []string{"const", "type", "const+type"} {
			if !thorough && pre == "const+type" {
				continue
			}
			kk := k
			kk.ID, kk.Pre = len(cases), pre
			cases = append(cases, kk)
		}
	}
	return cases
}

func enumerateLayouts(thorough bool) []Case {
	var cases []Case
	add := func(specs []Spec, order string) {
		cases = append(cases, Case{ID: len(cases), Specs: specs, Order: order})
	}
	name := func(t string, pos int) string { return fmt.Sprintf("%s%d", ft(t).stem, pos) }
	var seqs [][]string
	for n := 1; n <= 3; n++ {
		var rec func(cur []string)
		rec = func(cur []string) {
			if len(cur) == n {
				seqs = append(seqs, append([]string(nil), cur...))
				return
			}
			for _, t := range ftypes {
				rec(append(cur, t.src))
			}
		}
		rec(nil)
	}
	both := func(specs []Spec, always bool) {
		add(specs, "fwd")
		if thorough || always {
			add(specs, "rev")
		}
	}
	n3 := 0
	for _, s := range seqs {
		// one name per spec
		var specs []Spec
		for i, t := range s {
			specs = append(specs, Spec{[]string{name(t, i)}, t})
		}
		if len(s) == 3 {
			n3++
		}
		if thorough || len(s) < 3 || n3%6 == 0 {
			both(specs, len(s) == 1)
		}
		// grouped names for adjacent equal types
		if len(s) >= 2 && s[0] == s[1] {
			g := []Spec{{[]string{name(s[0], 0), name(s[0], 1)}, s[0]}}
			if len(s) == 3 {
				g = append(g, Spec{[]string{name(s[2], 2)}, s[2]})
			}
			if thorough || len(s) == 2 || n3%3 == 0 {
				both(g, len(s) == 2)
			}
		}
		if len(s) == 3 && s[1] == s[2] {
			g := []Spec{{[]string{name(s[0], 0)}, s[0]}, {[]string{name(s[1], 1), name(s[1], 2)}, s[1]}}
			if thorough || n3%3 == 1 {
				both(g, false)
			}
		}
		if len(s) == 3 && s[0] == s[1] && s[1] == s[2] {
			both([]Spec{{[]string{name(s[0], 0), name(s[0], 1), name(s[0], 2)}, s[0]}}, false)
		}
	}
	// embedded fields: value Base or pointer *Other, alone, before or after one plain field
	for _, e := range []string{"Base", "*Other"} {
		both([]Spec{{nil, e}}, false)
		for _, t := range ftypes {
			both([]Spec{{nil, e}, {[]string{name(t.src, 1)}, t.src}}, false)
			both([]Spec{{[]string{name(t.src, 0)}, t.src}, {nil, e}}, false)
		}
	}
	return cases
}

const chunk = 160

func main() {
	c := engine.New("C11", "exploration")
	if c.IsReplay() {
		var k Case
		c.LoadReplay(&k)
		p := prepare(k)
		if p.compileErr != "" || p.typeFail != nil {
			c.ReplayResult(judge(k, p, nil))
		}
		res, err := progs.RunUnits([]progs.Unit{unitFor(k)}, options([]Case{k}))
		if err != nil {
			c.Fatal("%v", err)
		}
		if res[0].RefBuildErr != "" {
			c.Fatal("reference does not build: %s", res[0].RefBuildErr)
		}
		c.ReplayResult(judge(k, p, &res[0]))
	}
	cases := enumerate(c.Thorough())
	preps := make([]prep, len(cases))
	var runnable []int
	for i, k := range cases {
		preps[i] = prepare(k)
		if preps[i].compileErr == "" {
			runnable = append(runnable, i)
		}
	}
	results := make([]*progs.UnitResult, len(cases))
	for start := 0; start < len(runnable); start += chunk {
		end := start + chunk
		if end > len(runnable) {
			end = len(runnable)
		}
		idx := runnable[start:end]
		if c.Expired() { // internal budget used up: oracle (a) is not applied to the remaining classes
			c.Cap(fmt.Sprintf("internal deadline: the programs of %d of %d classes were not run (oracle (b) was applied to all)", len(runnable)-start, len(cases)))
			c.Hist("not_run_internal_deadline", int64(len(runnable)-start))
			break
		}
		var ks []Case
		var units []progs.Unit
		for _, i := range idx {
			ks = append(ks, cases[i])
			units = append(units, unitFor(cases[i]))
		}
		res, err := progs.RunUnits(units, options(ks))
		if err != nil {
			c.Fatal("%v", err)
		}
		for j, i := range idx {
			if res[j].RefBuildErr != "" {
				c.Fatal("the reference (struct form) of case %+v does not build: %s\n%s", cases[i], res[j].RefBuildErr, structForm(cases[i]))
			}
			r := res[j]
			results[i] = &r
		}
	}
	notRun, nMethods, nLines := 0, 0, 0
	for i, k := range cases {
		c.Eval(1)
		c.NontrivialN(1)
		c.Hist("layout:"+k.layoutClass(), 1)
		c.Hist(fmt.Sprintf("fields:%d", len(k.fields())), 1)
		c.Hist("method-order:"+k.Order, 1)
		nMethods += len(k.methods())
		if i%83 == 0 {
			c.Sample(map[string]any{"case": k, "source": source(k)})
		}
		r := results[i]
		if r != nil {
			nLines += strings.Count(r.RefOut, "\n")
			if !r.Ran && r.CompileErr == "" && r.BuildErr == "" {
				c.Hist("not_run_after_abnormal_end_of_an_earlier_unit", 1)
				notRun++
				r = nil
				if preps[i].typeFail == nil {
					continue
				}
			}
		}
		if f := judge(k, preps[i], r); f != nil {
			c.Violate(k, f)
		}
	}
	if notRun > 0 {
		c.Cap(fmt.Sprintf("%d classes were queued behind an abnormally ended unit and were not run", notRun))
	}
	c.Extra["methods_checked_by_go_types"] = nMethods
	c.Extra["output_lines_compared"] = nLines
	c.Rule = "field types {int,string,[]int,map[string]int,*Other}; layouts: every type sequence of length 1..3 with one name per spec (155), the grouped forms `a, b T` / `a T; b, c T` / `a, b, c T` wherever adjacent types are equal (60), an embedded field (Base or *Other) alone, before or after one plain field (22); every class declares: late() reading the field declared last (first func of the file), a getter and a setter per plain field, mix(p int, q string) (int, string) over all fields, sib(d int) calling mix, the first setter, late and the first getter, Total() called as property x.total; method order forward and reversed; const and/or type declarations in front of the var block (small layouts); the driver constructs &K{field: value...}, calls every method, reads the fields back after every setter, and calls a setter on an addressable value. quick: lengths 1..2 complete, length 3 thinned, reversed order only for length 1 and grouped pairs. distinct_nontrivial = every class (all have at least one field and six methods)"
	c.Assumptions = []string{
		"oracle (a): the reference is plain Go with `type K struct{...}` and `func (this *K) m(...)` whose bodies are the class bodies with `this.` before every field and sibling reference; both programs are built by the Go toolchain (go 1.23 module) and run with GOMAXPROCS=1",
		"oracle (b): go/parser + go/types (package fmt reduced to Println, any other import loaded by the \"source\" importer) over the Go text produced by the compiler for the package {K.gox, main.xgo}; fields compared by name, types.TypeString, embedded flag and order; methods by name, receiver (*K, named this) and signature",
		"methods do not refer to embedded fields or promoted members by bare name (classfile.md is silent about it); the driver uses them through the object, as for any Go struct",
	}
	c.Finish()
}

// C07: the compiler never crashes or hangs on parseable input.
// Mode E (bounded-exhaustive): the complete 1-edit token-level neighbourhood (verif/models/neighbours)
// of a pool of small valid XGo programs and of short repository files, plus every 1-token deletion of
// larger repository files. Every input the parser returns a (possibly partial) AST for is compiled
// through three entry points: cl.NewPackage (production configuration, recover enabled; partial ASTs
// included), x/build Context.BuildFile and Context.BuildFSDir. Worker subprocesses (engine.Job) turn a
// fatal error, stack overflow, runaway allocation or hang into a result attributed to one input.
// Oracle: the call returns (package | error); no panic escapes; every error that carries a position
// points into one of the compiled files (file name equal, 1 <= line <= number of lines).
package main

import (
	"bytes"
	"encoding/json"
	"fmt"
	"os"
	"path/filepath"
	"reflect"
	"regexp"
	"runtime/debug"
	"sort"
	"strings"
	"time"

	"github.com/goplus/gogen"
	"github.com/goplus/xgo/ast"
	"github.com/goplus/xgo/cl"
	"github.com/goplus/xgo/parser"
	"github.com/goplus/xgo/parser/fsx/memfs"
	"github.com/goplus/xgo/scanner"
	"github.com/goplus/xgo/token"
	"github.com/goplus/xgo/x/build"

	"verif/engine"
	"verif/models/neighbours"
	"verif/models/neighbours/nbrun"
)

type Case struct {
	Prog  string           `json:"prog"`
	File  string           `json:"file"`
	Edit  neighbours.Edit  `json:"edit"`
	Edit2 *neighbours.Edit `json:"edit2,omitempty"` // second edit (2-edit neighbourhoods), applied to the result of Edit
	EP    string           `json:"ep"`              // NewPackage | BuildFile | BuildFSDir
	Src   string           `json:"src"`
}

var entryPoints = []string{"NewPackage", "BuildFile", "BuildFSDir"}

// one file set and one importer per process, as the production drivers have
var (
	fset   = token.NewFileSet()
	imp    = nbrun.NewImporter(fset, os.Getenv("VERIF_C07_DIR"))
	serial int
)

type outcome struct {
	fail     *engine.Failure
	class    string // histogram class of the result
	partial  bool   // a partial AST (parse error) was compiled
	compiled bool   // cl.NewPackage was reached
	errsPos  int    // errors with a position that were checked
	errsNone int    // errors without position (not judged)
}

func init() {
	// positions that are not positions of this compile (small integers, lengths ...) must not fall into a
	// compiled file by accident: the first 4 KB of the position space belong to no source file
	fset.AddFile("<verif: not a compiled file>", fset.Base(), 4096)
}

func lookupClass(ext string) (c *cl.Project, ok bool) {
	// the registered class file types of x/build (gmx/spx); none of the inputs uses them
	return nil, false
}

func eval(k Case) (o outcome) {
	serial++
	dir := fmt.Sprintf("/vprog/c%d", serial)
	path := filepath.Join(dir, k.File)
	files := map[string]string{path: k.Src}
	mfs := memfs.New(map[string][]string{dir: {k.File}}, files)
	switch k.EP {
	case "NewPackage":
		var pkgs map[string]*ast.Package
		var perr error
		if g := engine.Guard(func() {
			pkgs, perr = parser.ParseFSDir(fset, mfs, dir, parser.Config{ClassKind: build.ClassKind})
		}); g != nil {
			o.class = "excluded_parser_panic" // C13's subject, not the compiler's
			return
		}
		var names []string
		for n, p := range pkgs {
			if len(p.Files) > 0 {
				names = append(names, n)
			}
		}
		sort.Strings(names)
		if len(names) == 0 {
			o.class = "no_ast_returned"
			return
		}
		o.partial = perr != nil
		o.compiled = true
		for _, n := range names {
			conf := &cl.Config{Fset: fset, Importer: imp, LookupClass: lookupClass}
			var out *gogen.Package
			var err error
			if g := engine.Guard(func() { out, err = cl.NewPackage("", pkgs[n], conf) }); g != nil {
				g.Key = "panic@" + nbrun.PanicSite(g)
				g.What = "cl.NewPackage (recover enabled): " + g.What
				o.fail = g
				return
			}
			if err == nil && out == nil {
				o.fail = &engine.Failure{Key: "nil-package-and-nil-error", What: "cl.NewPackage returned neither a package nor an error"}
				return
			}
			if err != nil {
				o.class = "error"
				if f := renderErr(err); f != nil {
					o.fail = f
					return
				}
				if f := checkErr(err, files, &o); f != nil {
					o.fail = f
					return
				}
				continue
			}
			o.class = "package"
			if perr == nil {
				// the step every driver performs next; a panic here is a compiler crash after "success"
				var buf bytes.Buffer
				var werr error
				if g := engine.Guard(func() { werr = out.WriteTo(&buf) }); g != nil {
					g.Key = "writeto-panic@" + nbrun.PanicSite(g)
					g.What = "gogen WriteTo after cl.NewPackage returned no error: " + g.What
					o.fail = g
					return
				}
				if werr != nil {
					o.class = "package_write_error"
				}
			}
		}
	case "BuildFile", "BuildFSDir":
		ctx := build.NewContext(imp, fset)
		var data []byte
		var err error
		g := engine.Guard(func() {
			if k.EP == "BuildFile" {
				data, err = ctx.BuildFile(path, k.Src)
			} else {
				data, err = ctx.BuildFSDir(mfs, dir)
			}
		})
		if g != nil {
			g.Key = "panic@" + nbrun.PanicSite(g)
			g.What = "x/build " + k.EP + ": " + g.What
			o.fail = g
			return
		}
		o.compiled = true
		if err == nil && data == nil {
			o.fail = &engine.Failure{Key: "nil-data-and-nil-error:" + k.EP, What: "x/build " + k.EP + " returned neither source nor an error"}
			return
		}
		if err != nil {
			o.class = "error"
			f := renderErr(err)
			if f == nil {
				f = checkErr(err, files, &o)
			}
			if f != nil {
				f.What = "x/build " + k.EP + ": " + f.What
				o.fail = f
			}
			return
		}
		o.class = "source"
	}
	return
}

// renderErr: the returned error must be usable, i.e. Error() returns (every driver prints it).
func renderErr(err error) *engine.Failure {
	g := engine.Guard(func() { _ = err.Error() })
	if g != nil {
		g.Key = "error-value-panics@" + nbrun.PanicSite(g)
		g.What = "the returned error cannot be rendered: Error() panics: " + g.What
	}
	return g
}

// checkErr walks an error value and checks every position it carries.
func checkErr(err error, files map[string]string, o *outcome) *engine.Failure {
	switch e := err.(type) {
	case scanner.ErrorList:
		for _, x := range e {
			if f := checkPos("scanner.Error", x.Pos, x.Pos.IsValid(), x.Msg, files, o); f != nil {
				return f
			}
		}
	case *scanner.Error:
		return checkPos("scanner.Error", e.Pos, e.Pos.IsValid(), e.Msg, files, o)
	case *gogen.CodeError:
		if e.Pos == token.NoPos || e.Fset == nil {
			o.errsNone++
			return nil
		}
		return checkPos("gogen.CodeError", e.Fset.Position(e.Pos), true, e.Msg, files, o)
	case *gogen.ImportError:
		if e.Pos == token.NoPos || e.Fset == nil {
			o.errsNone++
			return nil
		}
		return checkPos("gogen.ImportError", e.Fset.Position(e.Pos), true, e.Error(), files, o)
	case *gogen.MatchError:
		if e.Pos() == token.NoPos || e.Fset == nil {
			o.errsNone++
			return nil
		}
		return checkPos("gogen.MatchError", e.Fset.Position(e.Pos()), true, e.Error(), files, o)
	case *gogen.BoundTypeError:
		if e.Pos == token.NoPos || e.Fset == nil {
			o.errsNone++
			return nil
		}
		return checkPos("gogen.BoundTypeError", e.Fset.Position(e.Pos), true, e.Error(), files, o)
	default:
		// error lists (github.com/qiniu/x/errors.List is a []error)
		if rv := reflect.ValueOf(err); rv.Kind() == reflect.Slice {
			for i := 0; i < rv.Len(); i++ {
				if x, ok := rv.Index(i).Interface().(error); ok && x != nil {
					if f := checkErr(x, files, o); f != nil {
						return f
					}
				}
			}
			return nil
		}
		o.errsNone++
	}
	return nil
}

func checkPos(typ string, p token.Position, has bool, msg string, files map[string]string, o *outcome) *engine.Failure {
	if !has {
		o.errsNone++ // the error reports no position: nothing to judge
		return nil
	}
	o.errsPos++
	src, ok := files[p.Filename]
	bad := ""
	switch {
	case !ok:
		bad = "file"
	case p.Line < 1 || p.Line > strings.Count(src, "\n")+1:
		bad = "line"
	case p.Column < 1 || p.Offset < 0 || p.Offset > len(src):
		bad = "offset"
	}
	if bad == "" {
		return nil
	}
	var names []string
	for n, s := range files {
		names = append(names, fmt.Sprintf("%s (%d lines, %d bytes)", n, strings.Count(s, "\n")+1, len(s)))
	}
	return &engine.Failure{Key: "error-position-outside-files:" + typ + ":" + bad + ":" + msgClass(msg),
		What:   "a reported error position does not lie inside the compiled files",
		Detail: fmt.Sprintf("%s at %q line %d col %d offset %d: %s\ncompiled files: %v", typ, p.Filename, p.Line, p.Column, p.Offset, msg, names)}
}

// msgClass strips source text, names, literals and numbers from a message so that it names the diagnostic only.
var reSpan = regexp.MustCompile("`[^`]*`|\"[^\"]*\"|'[^']*'")

func msgClass(m string) string {
	m = reSpan.ReplaceAllString(m, "_")
	if i := strings.IndexAny(m, "\n:"); i >= 0 {
		m = m[:i] // the diagnostic's head: what follows the first colon is detail (names, panic texts)
	}
	var out []string
	for _, w := range strings.Fields(m) {
		w = strings.Trim(w, ":,;()")
		ok := w != ""
		for _, r := range w {
			if !(r >= 'a' && r <= 'z' || r == '-') {
				ok = false
			}
		}
		if ok && len(out) < 3 {
			out = append(out, w)
		}
	}
	return strings.Join(out, " ")
}

// ---- inputs ----

// thorough: seeds of at most this many tokens get their complete 2-edit neighbourhood
const twoEditMaxTok = 18

// CPU time one input may consume before it counts as a hang (a compile of these inputs takes milliseconds)
const cpuLimit = 6 * time.Second

type seed struct {
	neighbours.Prog
	mode string // "full": 1-edit, full menu | "del": 1-token deletions only | "two": every 2-edit neighbour (full menu twice)
}

func seeds(thorough bool) []seed {
	var out []seed
	hand := neighbours.Hand()
	maxTok, fullCorpus, delCorpus := 34, 120, 400
	if thorough {
		maxTok, fullCorpus, delCorpus = 1<<30, 700, 4500
	}
	for _, p := range hand {
		if p.NTok <= maxTok {
			out = append(out, seed{p, "full"})
		}
	}
	if thorough {
		// the statements of every pool program also as the body of a class file (IsNormalGox path)
		for _, p := range hand {
			if p.File == "main.xgo" && !strings.HasPrefix(p.Src, "package ") {
				p.Name += "@gox"
				p.File = "Main.gox"
				out = append(out, seed{p, "full"})
			}
		}
	}
	// repository files: golden compiler inputs, demos, parser test data
	pats := []string{"cl/_testgop/*/in.xgo", "demo/*/*.xgo", "demo/*/*.gox", "parser/_testdata/*/*.xgo", "parser/_nofmt/*/*.xgo"}
	for _, p := range neighbours.Corpus(delCorpus, pats...) {
		if strings.HasSuffix(p.Name, ".gox") {
			p.File = "Main.gox"
		}
		mode := "del"
		if len(p.Src) <= fullCorpus {
			mode = "full"
		}
		out = append(out, seed{p, mode})
	}
	if thorough {
		for _, p := range hand {
			if p.NTok <= twoEditMaxTok {
				p.Name += "@2"
				out = append(out, seed{p, "two"})
			}
		}
	}
	return out
}

func edit2str(e *neighbours.Edit) string {
	if e == nil {
		return ""
	}
	return fmt.Sprintf(" then %+v", *e)
}

func main() {
	c := engine.New("C07", "exploration")
	if c.IsReplay() {
		var k Case
		c.LoadReplay(&k)
		c.ReplayResult(eval(k).fail)
	}
	sd := seeds(c.Thorough())
	recDir := os.Getenv("VERIF_C07_DIR")
	if !c.IsWorker() {
		d, err := nbrun.ScratchDir("verif-c07-")
		if err != nil {
			c.Fatal("%v", err)
		}
		recDir = d
		os.Setenv("VERIF_C07_DIR", d)
		var srcs []string
		for _, s := range sd {
			srcs = append(srcs, s.Src)
		}
		if err := nbrun.PrepareExports(d, srcs); err != nil {
			c.Fatal("%v", err)
		}
	}
	job := &engine.Job{NumBlocks: len(sd), BlockTimeout: 900 * time.Second, ItemTimeout: 300 * time.Second, MemLimitMB: 2000}
	watchdog := false
	job.RunBlock = func(w *engine.W, b int) {
		if !watchdog {
			watchdog = true
			debug.SetMaxStack(256 << 20)
			nbrun.StartCPUWatchdog(cpuLimit)
		}
		s := sd[b]
		rec := nbrun.NewRecorder(recDir, b)
		defer rec.Close()
		fb0 := nbrun.Fallbacks()
		defer func() {
			if n := nbrun.Fallbacks() - fb0; n > 0 {
				w.HistN("importer_golist_fallbacks", int64(n))
			}
		}()
		item, crashed := 0, 0
		run := func(e neighbours.Edit, e2 *neighbours.Edit, src string) {
			distinctCompiled := false
			for _, ep := range entryPoints {
				k := Case{s.Name, s.File, e, e2, ep, src}
				item++
				if crashed >= nbrun.MaxCrashesPerBlock {
					w.Hist("not_evaluated_block_abandoned")
					continue
				}
				if !w.Item(k) {
					if crashed++; crashed == nbrun.MaxCrashesPerBlock {
						nbrun.Abandon(recDir, b, fmt.Sprintf("seed %s: %d inputs crashed or hung the worker; the inputs after item %d of this seed were not evaluated", s.Name, crashed, item))
					}
					continue
				}
				nbrun.ItemStart()
				o := eval(k)
				w.Hist(ep + ":" + o.class)
				if o.partial {
					w.Hist("partial_ast_compiled")
				}
				if o.errsPos > 0 {
					w.HistN("error_positions_checked", int64(o.errsPos))
				}
				if o.errsNone > 0 {
					w.HistN("excluded_errors_without_position", int64(o.errsNone))
				}
				if o.compiled && ep == "NewPackage" {
					distinctCompiled = true
				}
				if o.fail != nil {
					if o.fail.Detail == "" || !strings.Contains(o.fail.Detail, "source:") {
						o.fail.Detail = fmt.Sprintf("seed=%s edit=%+v%s entry=%s\nsource:\n%s\n%s", s.Name, e, edit2str(e2), ep, src, o.fail.Detail)
					}
					rec.Add(item, len(src), k, o.fail)
					w.Hist("failed_items")
				}
			}
			if distinctCompiled {
				w.Nontrivial()
			}
		}
		var ms []neighbours.Mutant
		switch s.mode {
		case "full":
			ms = neighbours.Neighbours(s.Src)
		case "del":
			ms = neighbours.Deletions(s.Src)
		case "two":
			// the 1-edit neighbours are evaluated by the seed's own block; here: all distinct texts two edits away
			first := neighbours.Neighbours(s.Src)
			seen := map[string]bool{s.Src: true}
			for _, m := range first {
				seen[m.Src] = true
			}
			for _, m := range first {
				m := m
				for _, m2 := range neighbours.Neighbours(m.Src) {
					if !seen[m2.Src] {
						seen[m2.Src] = true
						e2 := m2.Edit
						run(m.Edit, &e2, m2.Src)
					}
				}
			}
			return
		}
		run(neighbours.Edit{Kind: "none"}, nil, s.Src)
		for _, m := range ms {
			run(m.Edit, nil, m.Src)
		}
		if b%25 == 0 && len(ms) > 0 {
			m := ms[len(ms)/2]
			w.Sample(Case{s.Name, s.File, m.Edit, nil, "NewPackage", m.Src})
		}
	}
	job.Run(c)

	// failures recorded by the workers: report simplest first so that the witness of every key is minimal
	for _, n := range nbrun.Abandoned(recDir) {
		c.Cap(n)
	}
	recs, err := nbrun.ReadRecords(recDir)
	if err != nil {
		c.Fatal("%v", err)
	}
	for _, r := range recs {
		c.Hist("failure:"+r.F.Key, 1)
		var k Case
		json.Unmarshal(r.Case, &k)
		c.Violate(k, r.F)
	}
	nfull, ndel, ntwo := 0, 0, 0
	for _, s := range sd {
		switch s.mode {
		case "full":
			nfull++
		case "del":
			ndel++
		default:
			ntwo++
		}
	}
	c.Rule = fmt.Sprintf("every seed and every distinct 1-edit token-level neighbour (menu: %s) of %d seeds (hand-written pool programs and repository files up to the full-menu size bound), plus every 1-token deletion of %d larger repository files, plus every distinct 2-edit neighbour of the %d smallest pool programs (thorough); thorough also compiles every pool program as a class file (Main.gox); each input x 3 entry points (cl.NewPackage on the AST returned by parser.ParseFSDir, partial ASTs included; x/build BuildFile; x/build BuildFSDir). distinct_nontrivial = inputs for which the parser returned an AST that was handed to cl.NewPackage", strings.Join(neighbours.Menu, ", "), nfull, ndel, ntwo)
	c.Assumptions = []string{
		"termination: an input on which the worker process consumes more than 6 s of CPU time (user+system, getrusage) without returning is a hang (independent of machine load; backstop: no progress for 300 s wall); heap above 2 GB is an OOM verdict; goroutine stacks are limited to 256 MB",
		"an error position lies inside the compiled files iff its file name is the path of a compiled file, 1 <= line <= newline count + 1, column >= 1 and 0 <= offset <= file size; errors that carry no position (recovered panics turned into errors, errors with token.NoPos) are counted, not judged",
		"an error value whose Error() method panics counts as a crash (key prefix error-value-panics@): every driver renders the errors it gets",
		"a panic of gogen's WriteTo directly after cl.NewPackage returned no error is counted as a compiler crash (key prefix writeto-); x/build converts it into an error",
		"production configuration: cl.Config{Fset, Importer, LookupClass} as x/build.loadPackage builds it, recover enabled, no Recorder; single-file packages",
	}
	c.Extra["bound"] = map[string]any{"seeds_full_menu": nfull, "seeds_deletion_only": ndel, "seeds_two_edit": ntwo, "entry_points": entryPoints}
	os.RemoveAll(recDir)
	c.Finish()
}

// C36: the import cache key changes exactly when package sources change.
// Mode B (explicit-state BFS): every sequence of file-system operations up to
// depth D on a real module package directory; abstract state = all entries
// with (name, size, mtime). Every successor state is materialised in a fresh
// directory (sizes written, mtimes set with os.Chtimes to fixed instants, the
// clock is never read) and hashed with the real tool.Importer.PkgHash.
// Oracle (hashref): over all visited states, hash(s) == hash(t)  <=>
// relevant(s) == relevant(t), where relevant(s) is the sorted list of
// (name, size, mtime) of the regular files whose name does not start with "_"
// and has a compilable extension. Checked on every transition and globally.
package main

import (
	"fmt"
	"os"
	"path/filepath"
	"sort"
	"strings"
	"time"

	"github.com/goplus/mod/env"
	"github.com/goplus/mod/xgomod"
	"github.com/goplus/xgo/token"
	"github.com/goplus/xgo/tool"
	"verif/engine"
)

// ---------------------------------------------------------------------------
// alphabet

var fileNames = []string{"a.go", "b.xgo", "c.gox", "d_yap.gox", "_e.go", "f.txt"}

const dirName = "sub.go" // the sub-directory carries a compilable extension on purpose
const pkgPath = "example.com/m/pkg"

var baseTime = time.Unix(1_000_000_000, 0)

type FileSt struct {
	Name string `json:"name"`
	Size int    `json:"size"`
	MT   int    `json:"mtime_ns"` // nanoseconds after baseTime (touch: +400 ms, touch1ns: +1 ns)
}

type State struct {
	Files []FileSt `json:"files"` // sorted by name
	Dir   bool     `json:"sub_dir"`
}

func (s State) key() string {
	var sb strings.Builder
	for _, f := range s.Files {
		fmt.Fprintf(&sb, "%s:%d:%d ", f.Name, f.Size, f.MT)
	}
	if s.Dir {
		sb.WriteString(dirName + "/")
	}
	return sb.String()
}

func (s State) find(name string) int {
	for i, f := range s.Files {
		if f.Name == name {
			return i
		}
	}
	return -1
}

func (s State) with(i int, f FileSt) State { // replace slot i (or append when i<0), keep sorted
	fs := append([]FileSt(nil), s.Files...)
	if i < 0 {
		fs = append(fs, f)
	} else {
		fs[i] = f
	}
	sort.Slice(fs, func(a, b int) bool { return fs[a].Name < fs[b].Name })
	return State{fs, s.Dir}
}

func (s State) without(i int) State {
	fs := append([]FileSt(nil), s.Files[:i]...)
	fs = append(fs, s.Files[i+1:]...)
	return State{fs, s.Dir}
}

// ---------------------------------------------------------------------------
// hashref: which entries matter

// class of an entry name: relevant | underscore | noncompilable
func classOf(name string) string {
	if strings.HasPrefix(name, "_") {
		return "underscore"
	}
	ext := ""
	if i := strings.LastIndexByte(name, '.'); i >= 0 {
		ext = name[i:]
	}
	switch ext {
	case ".go", ".xgo", ".gox": // compilable extensions of the alphabet (the code also accepts .gop and class extensions: outside the alphabet)
		return "relevant"
	}
	return "noncompilable"
}

func relevant(s State) string {
	var sb strings.Builder
	for _, f := range s.Files {
		if classOf(f.Name) == "relevant" {
			fmt.Fprintf(&sb, "%s:%d:%d ", f.Name, f.Size, f.MT)
		}
	}
	return sb.String()
}

// diff classifies the difference of two states: rel = attributes
// (presence | size | mtime) in which relevant files differ, irr = classes
// (underscore | noncompilable | directory) of the other entries that differ,
// names = names of all differing entries.
func diff(a, b State) (rel, irr, names []string) {
	relSet, irrSet := map[string]bool{}, map[string]bool{}
	all := map[string]bool{}
	for _, f := range a.Files {
		all[f.Name] = true
	}
	for _, f := range b.Files {
		all[f.Name] = true
	}
	for n := range all {
		i, j := a.find(n), b.find(n)
		var attrs []string
		switch {
		case i < 0 || j < 0:
			attrs = append(attrs, "presence")
		default:
			if a.Files[i].Size != b.Files[j].Size {
				attrs = append(attrs, "size")
			}
			if a.Files[i].MT != b.Files[j].MT {
				attrs = append(attrs, "mtime")
			}
		}
		if len(attrs) == 0 {
			continue
		}
		names = append(names, n)
		if cl := classOf(n); cl == "relevant" {
			for _, at := range attrs {
				relSet[at] = true
			}
		} else {
			irrSet[cl] = true
		}
	}
	if a.Dir != b.Dir {
		irrSet["directory"] = true
		names = append(names, dirName)
	}
	for k := range relSet {
		rel = append(rel, k)
	}
	for k := range irrSet {
		irr = append(irr, k)
	}
	sort.Strings(rel)
	sort.Strings(irr)
	sort.Strings(names)
	return
}

// ---------------------------------------------------------------------------
// the real thing

type harness struct {
	root  string
	imp   *tool.Importer
	count int64 // hash computations on the real importer
	flip  bool
}

func newHarness() (*harness, error) {
	root, err := os.MkdirTemp("", "verif-c36-")
	if err != nil {
		return nil, err
	}
	if err := os.WriteFile(filepath.Join(root, "go.mod"), []byte("module example.com/m\n\ngo 1.18\n"), 0o644); err != nil {
		return nil, err
	}
	mod, err := xgomod.Load(root)
	if err != nil {
		return nil, err
	}
	if err := mod.ImportClasses(); err != nil { // as tool.LoadMod does
		return nil, err
	}
	imp := tool.NewImporter(mod, &env.XGo{Version: "1.0", Root: "/repo"}, token.NewFileSet())
	return &harness{root: root, imp: imp}, nil
}

func (h *harness) close() { os.RemoveAll(h.root) }

// hashes materialises s in a fresh package directory and returns
// PkgHash(self=false), PkgHash(self=true).
func (h *harness) hashes(s State) (h0, h1 string, fail *engine.Failure, err error) {
	dir := filepath.Join(h.root, "pkg")
	if err = os.RemoveAll(dir); err != nil {
		return
	}
	if err = os.Mkdir(dir, 0o755); err != nil {
		return
	}
	defer os.RemoveAll(dir)
	order := make([]int, len(s.Files))
	for i := range order {
		order[i] = i
		if h.flip { // alternate the creation order: the hash must not depend on it
			order[i] = len(s.Files) - 1 - i
		}
	}
	h.flip = !h.flip
	if s.Dir && h.flip {
		if err = os.Mkdir(filepath.Join(dir, dirName), 0o755); err != nil {
			return
		}
	}
	for _, i := range order {
		f := s.Files[i]
		p := filepath.Join(dir, f.Name)
		if err = os.WriteFile(p, []byte(strings.Repeat("x", f.Size)), 0o644); err != nil {
			return
		}
		t := baseTime.Add(time.Duration(f.MT))
		if err = os.Chtimes(p, t, t); err != nil {
			return
		}
	}
	if s.Dir && !h.flip {
		if err = os.Mkdir(filepath.Join(dir, dirName), 0o755); err != nil {
			return
		}
	}
	// the directory now is the abstract state (harness self-check)
	ents, e := os.ReadDir(dir)
	if e != nil {
		err = e
		return
	}
	var back State
	for _, d := range ents {
		if d.IsDir() {
			back.Dir = true
			continue
		}
		fi, e := d.Info()
		if e != nil {
			err = e
			return
		}
		back.Files = append(back.Files, FileSt{d.Name(), int(fi.Size()), int(fi.ModTime().Sub(baseTime))})
	}
	if back.key() != s.key() {
		err = fmt.Errorf("materialised directory %q differs from state %q", back.key(), s.key())
		return
	}
	fail = engine.Guard(func() {
		h0 = h.imp.PkgHash(pkgPath, false)
		h1 = h.imp.PkgHash(pkgPath, true)
	})
	h.count += 2
	return
}

// ---------------------------------------------------------------------------
// Case / eval: two states (for a transition: before and after)

type Case struct {
	A   State  `json:"a"`
	B   State  `json:"b"`
	Via string `json:"via,omitempty"` // operation or "global"
}

// judge applies the oracle to two hashed states. The key names the defect:
// which kind of relevant change goes unnoticed (by operation), or which class
// of irrelevant entry leaks into the hash.
func judge(a, b State, ha, hb [2]string, via string) *engine.Failure {
	rel, irr, _ := diff(a, b)
	sameRel := relevant(a) == relevant(b)
	op := strings.SplitN(via, " ", 2)[0]
	for self := 0; self < 2; self++ {
		sameHash := ha[self] == hb[self]
		switch {
		case sameRel && !sameHash:
			key := "hash-depends-on:" + strings.Join(irr, "+")
			if strings.HasPrefix(via, "global") {
				key = "hash-depends-on:global"
			} else if via == "rebuild" {
				key = "hash-not-a-function-of-the-directory"
			}
			return &engine.Failure{Key: key,
				What:   "package hash changes although only entries that are not compilable non-underscore regular files differ (" + strings.Join(irr, ", ") + ")",
				Detail: fmt.Sprintf("via %s (self=%v): [%s] -> %s ; [%s] -> %s", via, self == 1, a.key(), ha[self], b.key(), hb[self])}
		case !sameRel && sameHash:
			var key string
			switch op {
			case "create", "delete":
				key = "hash-misses:file-appears-or-disappears"
			case "grow":
				key = "hash-misses:size"
			case "touch", "touch1ns":
				key = "hash-misses:mtime"
			case "rename":
				key = "hash-misses:rename"
			default:
				key = "hash-misses:global"
			}
			return &engine.Failure{Key: key,
				What:   "package hash unchanged although a compilable non-underscore regular file differs (" + strings.Join(rel, ", ") + ")",
				Detail: fmt.Sprintf("via %s (self=%v): [%s] and [%s] both -> %s", via, self == 1, a.key(), b.key(), ha[self])}
		}
	}
	return nil
}

func sanity(hs [2]string, s State) *engine.Failure {
	if hs[0] == "" || hs[1] == "" || hs[0] == "?" || hs[1] == "?" {
		return &engine.Failure{Key: "hash-not-computed", What: "PkgHash of a module package returns no directory hash", Detail: fmt.Sprintf("[%s] -> %q / %q", s.key(), hs[0], hs[1])}
	}
	return nil
}

func eval(h *harness, k Case) (*engine.Failure, error) {
	a0, a1, f, err := h.hashes(k.A)
	if err != nil || f != nil {
		return f, err
	}
	b0, b1, f, err := h.hashes(k.B)
	if err != nil || f != nil {
		return f, err
	}
	if f := sanity([2]string{a0, a1}, k.A); f != nil {
		return f, nil
	}
	return judge(k.A, k.B, [2]string{a0, a1}, [2]string{b0, b1}, k.Via), nil
}

// ---------------------------------------------------------------------------
// operations

type succ struct {
	op string
	s  State
}

func successors(s State) (out []succ) {
	for _, n := range fileNames {
		i := s.find(n)
		if i < 0 {
			for size := 1; size <= 2; size++ {
				out = append(out, succ{fmt.Sprintf("create %s size=%d", n, size), s.with(-1, FileSt{n, size, 0})})
			}
			continue
		}
		f := s.Files[i]
		out = append(out, succ{"grow " + n, s.with(i, FileSt{n, f.Size + 1, f.MT})})
		// the modification time moves within the same second (twice), across a second boundary, and by one nanosecond
		out = append(out, succ{"touch " + n, s.with(i, FileSt{n, f.Size, f.MT + 400_000_000})})
		out = append(out, succ{"touch1ns " + n, s.with(i, FileSt{n, f.Size, f.MT + 1})})
		for _, to := range fileNames {
			if s.find(to) < 0 {
				out = append(out, succ{"rename " + n + " -> " + to, s.with(i, FileSt{to, f.Size, f.MT})})
			}
		}
		out = append(out, succ{"delete " + n, s.without(i)})
	}
	if s.Dir {
		out = append(out, succ{"rmdir " + dirName, State{s.Files, false}})
	} else {
		out = append(out, succ{"mkdir " + dirName, State{s.Files, true}})
	}
	return
}

type node struct {
	s     State
	hs    [2]string
	depth int
	trace string
}

func main() {
	c := engine.New("C36", "model_checking")
	h, err := newHarness()
	if err != nil {
		c.Fatal("cannot set up the scratch module: %v", err)
	}
	defer h.close()
	fatal := func(format string, a ...any) { h.close(); c.Fatal(format, a...) }
	if c.IsReplay() {
		var k Case
		c.LoadReplay(&k)
		f, err := eval(h, k)
		if err != nil {
			fatal("replay: %v", err)
		}
		h.close()
		c.ReplayResult(f)
	}
	depth := 4
	if c.Thorough() {
		depth = 6
	}
	c.Rule = fmt.Sprintf("BFS from the empty package directory, every operation sequence of length <= %d over create(size 1|2) / grow(+1 byte) / touch(+400 ms: within a second and across a second boundary) / touch1ns(+1 ns) / rename to every free name / delete on files %v and mkdir/rmdir of %q, deduplicated on the abstract state (all entries with name, size, mtime); every successor of every transition is materialised and hashed (self=false and self=true); non-trivial = transition whose source state already holds a compilable non-underscore file, or that changes one",
		depth, fileNames, dirName)
	c.Assumptions = []string{
		"compilable extensions inside the alphabet: .go .xgo .gox (incl. the _yap.gox class suffix); the code also accepts .gop and the class extensions of the module (gsh, spx, gmx, _test.gox ...), which are outside the alphabet",
		"regular files and directories only (no symlinks, devices); file content is irrelevant beyond its size; mtimes are set with os.Chtimes to baseTime + k*400 ms (+ n ns); the file system must keep nanosecond timestamps (self-checked on every materialised state)",
		"module loaded like tool.LoadMod does: xgomod.Load + ImportClasses; package example.com/m/pkg of a module with go.mod only",
		"two different relevant projections with equal hashes are a violation (sha256 collisions are not expected within the bound)",
	}

	var nodes []*node
	index := map[string]int{}
	var transitions, relevantTr int64
	byHash := [2]map[string]int{{}, {}} // hash -> first node
	byRel := map[string]int{}           // relevant projection -> first node

	add := func(s State, hs [2]string, d int, trace string) *node {
		n := &node{s, hs, d, trace}
		index[s.key()] = len(nodes)
		nodes = append(nodes, n)
		return n
	}
	h0, h1, f, err := h.hashes(State{})
	if err != nil {
		fatal("materialise: %v", err)
	}
	if f != nil {
		c.Violate(Case{}, f)
	} else if f := sanity([2]string{h0, h1}, State{}); f != nil {
		c.Violate(Case{}, f)
	}
	add(State{}, [2]string{h0, h1}, 0, "")
	capped := false
	leaked := map[string]bool{}    // irrelevant entry classes already reported as leaking into the hash
	invisible := map[string]bool{} // relevant names whose appearance is already reported as unnoticed
	var missesFound, dependsFound bool
	tainted := func(s State) bool {
		if s.Dir && leaked["directory"] {
			return true
		}
		for _, f := range s.Files {
			if leaked[classOf(f.Name)] {
				return true
			}
		}
		return false
	}
bfs:
	for qi := 0; qi < len(nodes); qi++ {
		n := nodes[qi]
		if n.depth >= depth {
			continue
		}
		for _, sc := range successors(n.s) {
			if transitions%512 == 0 && c.Expired() {
				capped = true
				break bfs
			}
			transitions++
			c.Eval(1)
			k := Case{A: n.s, B: sc.s, Via: sc.op}
			t0, t1, f, err := h.hashes(sc.s)
			if err != nil {
				fatal("materialise [%s]: %v", sc.s.key(), err)
			}
			if f != nil {
				c.Violate(k, f)
				continue
			}
			ths := [2]string{t0, t1}
			if f := sanity(ths, sc.s); f != nil {
				c.Violate(k, f)
				continue
			}
			rel, irr, names := diff(n.s, sc.s)
			if len(rel) > 0 {
				relevantTr++
				c.Hist("transition_relevant_change", 1)
			} else {
				c.Hist("transition_irrelevant_change", 1)
			}
			if len(rel) > 0 || relevant(n.s) != "" {
				c.NontrivialN(1)
			}
			// One defect, one key: consequences of an already reported defect are counted, not reported again.
			if f := judge(n.s, sc.s, n.hs, ths, sc.op); f != nil {
				switch {
				case strings.HasPrefix(f.Key, "hash-depends-on:"):
					if tainted(n.s) || tainted(sc.s) {
						c.Hist("suppressed_consequence_of_reported_leak", 1)
						break
					}
					for _, cl := range irr {
						leaked[cl] = true
					}
					dependsFound = true
					c.Violate(k, f)
				default: // hash-misses
					all := true
					for _, nm := range names {
						if classOf(nm) == "relevant" && !invisible[nm] {
							all = false
						}
					}
					if all {
						c.Hist("suppressed_consequence_of_reported_invisible_file", 1)
						break
					}
					if op := strings.SplitN(sc.op, " ", 2)[0]; op == "create" || op == "delete" {
						for _, nm := range names {
							invisible[nm] = true
						}
					}
					missesFound = true
					c.Violate(k, f)
				}
			}
			if j, seen := index[sc.s.key()]; seen {
				if nodes[j].hs != ths {
					if tainted(sc.s) {
						c.Hist("suppressed_consequence_of_reported_leak", 1)
					} else {
						dependsFound = true
						c.Violate(Case{A: sc.s, B: sc.s, Via: "rebuild"}, &engine.Failure{Key: "hash-not-a-function-of-the-directory",
							What:   "two materialisations of the same directory listing hash differently",
							Detail: fmt.Sprintf("[%s]: %v vs %v", sc.s.key(), nodes[j].hs, ths)})
					}
				}
				continue
			}
			tr := sc.op
			if n.trace != "" {
				tr = n.trace + "; " + sc.op
			}
			nn := add(sc.s, ths, n.depth+1, tr)
			if nn.depth == 3 && len(sc.s.Files) >= 2 && len(nodes)%97 == 0 {
				c.Sample(map[string]any{"trace": tr, "state": sc.s.key(), "hash": t0})
			}
		}
	}
	if capped {
		c.Cap("deadline reached during BFS")
	}
	// global oracle: hash <-> relevant projection is a bijection over all visited states
	// (reported only for a direction in which no transition already failed)
	global := func(j int, n *node) {
		f := judge(nodes[j].s, n.s, nodes[j].hs, n.hs, "global")
		if f == nil {
			return
		}
		if (f.Key == "hash-misses:global" && missesFound) || (f.Key == "hash-depends-on:global" && dependsFound) {
			c.Hist("suppressed_global_after_transition_violation", 1)
			return
		}
		c.Violate(Case{A: nodes[j].s, B: n.s, Via: "global: " + nodes[j].trace + " | " + n.trace}, f)
	}
	for i, n := range nodes {
		r := relevant(n.s)
		if j, ok := byRel[r]; ok {
			global(j, n)
		} else {
			byRel[r] = i
		}
		for self := 0; self < 2; self++ {
			if j, ok := byHash[self][n.hs[self]]; ok {
				global(j, n)
			} else {
				byHash[self][n.hs[self]] = i
			}
		}
	}
	c.Hist("distinct_relevant_projections", int64(len(byRel)))
	c.Hist("distinct_hashes_self_false", int64(len(byHash[0])))
	c.Hist("distinct_hashes_self_true", int64(len(byHash[1])))
	c.Extra["bound"] = map[string]any{"depth": depth, "file_names": fileNames, "dir_name": dirName}
	c.Extra["states"] = len(nodes)
	c.Extra["transitions"] = transitions
	c.Extra["traces_validated_against_impl"] = h.count
	h.close()
	c.Finish()
}

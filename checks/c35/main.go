// C35: ParseAll partitions project arguments in order.
// Mode E: every argument list up to length N over a complete set of argument
// classes, compared with an independent reference (projref).
package main

import (
	"fmt"
	"reflect"
	"strings"

	"github.com/goplus/xgo/x/xgoprojs"
	"verif/engine"
)

var classes = []string{"a.xgo", "./a.go", "d/b.gox", ".hidden", "a.", ".", "..", "./...", "/abs", "C:x",
	"github.com/x/y", "gopkg.in/y.v2", "", "\\x", "a.b/c", "9:x", "x"}

// ---- projref: boring reference model ----
type rproj struct {
	Kind string // files | dir | pkg
	Args []string
}

func refIsFile(s string) bool { // "has an extension": a dot in the last path element followed by ≥1 byte
	base := s
	if i := strings.LastIndexByte(s, '/'); i >= 0 {
		base = s[i+1:]
	}
	d := strings.LastIndexByte(base, '.')
	return d >= 0 && d < len(base)-1
}
func refIsLocal(s string) bool {
	if s == "" {
		return false
	}
	if s[0] == '/' || s[0] == '\\' || s[0] == '.' {
		return true
	}
	isLetter := (s[0] >= 'A' && s[0] <= 'Z') || (s[0] >= 'a' && s[0] <= 'z')
	return len(s) >= 2 && s[1] == ':' && isLetter
}
func ref(args []string) (ps []rproj, mixed bool) {
	var f, nf bool
	for i := 0; i < len(args); {
		if refIsFile(args[i]) {
			j := i
			for j < len(args) && refIsFile(args[j]) {
				j++
			}
			ps = append(ps, rproj{"files", args[i:j]})
			f = true
			i = j
			continue
		}
		k := "pkg"
		if refIsLocal(args[i]) {
			k = "dir"
		}
		ps = append(ps, rproj{k, args[i : i+1]})
		nf = true
		i++
	}
	return ps, f && nf
}

type Case struct{ Args []string }

func eval(k Case) *engine.Failure {
	var projs []xgoprojs.Proj
	var err error
	if f := engine.Guard(func() { projs, err = xgoprojs.ParseAll(k.Args...) }); f != nil {
		return f
	}
	want, mixed := ref(k.Args)
	if mixed {
		if err != xgoprojs.ErrMixedFilesProj {
			return &engine.Failure{Key: "mixed-not-reported:" + classOf(k.Args), What: "mixed files/non-files arguments accepted", Detail: fmt.Sprintf("args=%q err=%v", k.Args, err)}
		}
		return nil
	}
	if err != nil {
		return &engine.Failure{Key: "spurious-error:" + classOf(k.Args), What: "error for unmixed arguments", Detail: fmt.Sprintf("args=%q err=%v", k.Args, err)}
	}
	var got []rproj
	for _, p := range projs {
		switch p := p.(type) {
		case *xgoprojs.FilesProj:
			got = append(got, rproj{"files", p.Files})
		case *xgoprojs.DirProj:
			got = append(got, rproj{"dir", []string{p.Dir}})
		case *xgoprojs.PkgPathProj:
			got = append(got, rproj{"pkg", []string{p.Path}})
		}
	}
	if len(got) == 0 && len(want) == 0 {
		return nil
	}
	if !reflect.DeepEqual(got, want) {
		return &engine.Failure{Key: "partition:" + classOf(k.Args), What: "projects differ from the in-order partition", Detail: fmt.Sprintf("args=%q got=%v want=%v", k.Args, got, want)}
	}
	return nil
}

func classOf(args []string) string { // f = file, d = dir, p = pkg
	var sb strings.Builder
	for _, a := range args {
		switch {
		case refIsFile(a):
			sb.WriteByte('f')
		case refIsLocal(a):
			sb.WriteByte('d')
		default:
			sb.WriteByte('p')
		}
	}
	return sb.String()
}

func main() {
	c := engine.New("C35", "exploration")
	if c.IsReplay() {
		var k Case
		c.LoadReplay(&k)
		c.ReplayResult(eval(k))
	}
	maxLen := 4
	if c.Thorough() {
		maxLen = 5
	}
	c.Rule = fmt.Sprintf("every argument list of length 0..%d over %d argument classes (files with/without dirs, dot-files, trailing dot, ., .., ./..., absolute, drive-letter, package paths, empty); non-trivial = list containing both a run of >=2 files or a file/non-file mix", maxLen, len(classes))
	c.Assumptions = []string{"a file argument is one whose last path element has a non-empty extension (ParseOne doc); '/' is the only path separator (linux)"}
	for n := 0; n <= maxLen; n++ {
		idx := make([]int, n)
		args := make([]string, n)
		for {
			for i, v := range idx {
				args[i] = classes[v]
			}
			k := Case{append([]string(nil), args...)}
			c.Eval(1)
			cl := classOf(args)
			c.Hist("len"+fmt.Sprint(n), 1)
			if strings.Contains(cl, "ff") || (strings.Contains(cl, "f") && strings.ContainsAny(cl, "dp")) {
				c.NontrivialN(1)
				if n == 3 {
					c.Sample(k)
				}
			}
			if f := eval(k); f != nil {
				if f2 := eval(k); f2 == nil || f2.Key != f.Key {
					c.Fatal("non-deterministic evaluation for %q", args)
				}
				c.Violate(k, f)
			}
			i := n - 1
			for ; i >= 0; i-- {
				idx[i]++
				if idx[i] < len(classes) {
					break
				}
				idx[i] = 0
			}
			if i < 0 {
				break
			}
		}
	}
	c.Extra["bound"] = map[string]any{"max_args": maxLen}
	c.Extra["alphabet_size"] = len(classes)
	c.Finish()
}

// C28: matching always terminates (Compiler.Match / ParseExpr / Parse), for every grammar that
// compiles and every input: grammars with repetitions that can match the empty input or with
// left-recursive rules are either rejected by the compiler or matched in bounded steps.
//
// Mode E (bounded-exhaustive) over the tplref grammar space (all 1-rule grammars with <= N1 and
// all 2-rule grammars with <= N2 operator nodes over leaves {"a", INT, ","} and references) x all
// inputs of <= 3 tokens over {a, 1, ","}.
//
//  1. tplref classifies every grammar statically into defect classes
//     nullable-repetition-body:<*|+|%> and left-recursion:<direct|indirect|through-nullable-prefix>.
//  2. Confirmation: the 3 simplest single-class grammars of each class that compile are matched in
//     a private subprocess each (20 s, 500 MB heap, 256 MB stack). A hang / stack overflow / runaway allocation is a
//     violation keyed by the class. A class that was confirmed non-terminating is not run further
//     (each such item costs seconds): its remaining grammars are compiled only and counted as
//     predicted_nonterminating_not_run; the run is then reported non-exhaustive (c.Cap).
//     A class for which no confirmation run failed is run completely in step 3.
//  3. Bulk: every other grammar is compiled and matched on every input through ParseExpr and
//     Parse (both run Compiler.Match) in engine.Job workers (20 s per item, 1500 MB): they must all terminate. A crash there is
//     attributed by the engine to the (grammar, input) item and keyed by kind@site.
package main

import (
	"bytes"
	"encoding/json"
	"fmt"
	"os"
	"os/exec"
	"runtime"
	"runtime/debug"
	"sort"
	"strings"
	"sync"
	"time"

	"github.com/goplus/xgo/tpl"
	"verif/engine"
	ref "verif/models/tplref"
)

type Case struct {
	Text  string       `json:"text"` // grammar source (printed from G)
	G     *ref.Grammar `json:"g,omitempty"`
	Input string       `json:"input"`           // "<compile>" = compile only
	Class string       `json:"class,omitempty"` // predicted defect classes (tplref), comma separated
}

const (
	memLimitMB  = 1500 // engine.Job workers (bulk)
	soloLimitMB = 500  // confirmation children: one item each, collector off (see soloChild)
	itemTimeout = 20 * time.Second
	compileOnly = "<compile>"
)

// ---- the code under test ----

// runItem matches input through ParseExpr and Parse (each runs Compiler.Match and then looks
// at the rest of the input). It returns a Failure for an escaping panic.
func runItem(cl *tpl.Compiler, input string) *engine.Failure {
	return engine.Guard(func() {
		cl.ParseExpr(input, nil)
		cl.Parse("", input, nil)
	})
}

func compile(text string) (cl tpl.Compiler, err error, f *engine.Failure) {
	f = engine.Guard(func() { cl, err = tpl.New(text) })
	return
}

// ---- solo subprocess (confirmation runs and replays) ----

func soloChild() {
	var k Case
	if err := json.Unmarshal([]byte(os.Getenv("C28_SOLO")), &k); err != nil {
		fmt.Fprintln(os.Stderr, "solo: bad case:", err)
		os.Exit(2)
	}
	// A terminating item finishes in microseconds. For a runaway one the collector only slows the
	// growth down (a child took 50 s to reach the limit with it), so it is switched off: the heap
	// watchdog below (and the 20 s limit) decide. Likewise a 256 MB stack is reached in a second,
	// the default 1 GB in four; an unbounded recursion exceeds both.
	debug.SetGCPercent(-1)
	debug.SetMaxStack(256 << 20)
	runtime.GOMAXPROCS(2)
	go func() {
		var ms runtime.MemStats
		for {
			time.Sleep(50 * time.Millisecond)
			runtime.ReadMemStats(&ms)
			if ms.HeapAlloc > uint64(soloLimitMB)<<20 {
				fmt.Fprintf(os.Stderr, "fatal error: verif memory watchdog: heap %d MB\n", ms.HeapAlloc>>20)
				buf := make([]byte, 1<<14)
				n := runtime.Stack(buf, true)
				os.Stderr.Write(buf[:n])
				os.Exit(4)
			}
		}
	}()
	tpl.ShowConflict(false)
	cl, err := tpl.New(k.Text) // a panic here kills the child with the usual dump
	if err != nil {
		fmt.Println("rejected:", err)
		os.Exit(3)
	}
	if k.Input != compileOnly {
		cl.Match("", k.Input, nil)
		cl.ParseExpr(k.Input, nil)
		cl.Parse("", k.Input, nil)
	}
	fmt.Println("terminated")
	os.Exit(0)
}

type soloResult struct {
	outcome string // terminated | rejected | crash
	fail    *engine.Failure
}

type capWriter struct{ b bytes.Buffer }

func (w *capWriter) Write(p []byte) (int, error) {
	if room := 16<<10 - w.b.Len(); room > 0 {
		if room > len(p) {
			room = len(p)
		}
		w.b.Write(p[:room])
	}
	return len(p), nil
}

func runSolo(k Case) soloResult {
	raw, _ := json.Marshal(Case{Text: k.Text, Input: k.Input})
	cmd := exec.Command(os.Args[0], "quick")
	cmd.Env = append(os.Environ(), "C28_SOLO="+string(raw), "GOTRACEBACK=single")
	var errb capWriter
	cmd.Stderr = &errb
	if err := cmd.Start(); err != nil {
		return soloResult{outcome: "crash", fail: &engine.Failure{Key: "harness", What: "cannot start solo child: " + err.Error()}}
	}
	done := make(chan error, 1)
	go func() { done <- cmd.Wait() }()
	hang := false
	var err error
	select {
	case err = <-done:
	case <-time.After(itemTimeout):
		hang = true
		cmd.Process.Kill()
		err = <-done
	}
	if err == nil {
		return soloResult{outcome: "terminated"}
	}
	if ee, ok := err.(*exec.ExitError); ok && !hang && ee.ExitCode() == 3 {
		return soloResult{outcome: "rejected"}
	}
	return soloResult{outcome: "crash", fail: engine.ClassifyCrash(errb.b.String(), hang)}
}

// ---- inputs ----

var words = []string{"a", "1", ","}

func inputs() (out [][]string) {
	out = append(out, nil)
	for n := 1; n <= 3; n++ {
		idx := make([]int, n)
		for {
			w := make([]string, n)
			for i, v := range idx {
				w[i] = words[v]
			}
			out = append(out, w)
			i := n - 1
			for ; i >= 0; i-- {
				idx[i]++
				if idx[i] < len(words) {
					break
				}
				idx[i] = 0
			}
			if i < 0 {
				break
			}
		}
	}
	return
}

var allClasses = []string{
	"left-recursion:direct", "left-recursion:indirect", "left-recursion:through-nullable-prefix",
	"nullable-repetition-body:*", "nullable-repetition-body:+", "nullable-repetition-body:%",
}

func main() {
	if os.Getenv("C28_SOLO") != "" {
		soloChild()
	}
	c := engine.New("C28", "exploration")
	if err := ref.SelfTest(); err != nil {
		c.Fatal("tplref self-test: %v", err)
	}
	if c.IsReplay() {
		var k Case
		c.LoadReplay(&k)
		r := runSolo(k)
		if r.outcome != "crash" {
			c.ReplayResult(nil)
		}
		key := k.Class
		if key == "" || strings.Contains(key, ",") {
			if k.G != nil {
				if cls := ref.Analyze(k.G).Classes(); len(cls) > 0 {
					key = strings.Join(cls, ",")
				}
			}
			if key == "" {
				key = "unexplained-nontermination"
			}
		}
		r.fail.Key = key
		r.fail.Detail = fmt.Sprintf("grammar: %q input: %q\n%s", k.Text, k.Input, r.fail.Detail)
		c.ReplayResult(r.fail)
	}
	max1, max2, nConfirmInputs := 3, 2, 1
	if c.Thorough() {
		max1, max2, nConfirmInputs = 4, 3, 2
	}
	sp := ref.NewSpace(max1, max2)
	ins := inputs()
	inTexts := make([]string, len(ins))
	inToks := make([][]ref.Token, len(ins))
	for i, w := range ins {
		inToks[i], inTexts[i] = ref.Toks(w, nil)
	}

	// ---- steps 1+2 (parent only): pick and run the confirmation items ----
	confirmed := map[string]int{}
	if !c.IsWorker() {
		type cand struct {
			g     *ref.Grammar
			text  string
			class string
		}
		cands := map[string][]cand{}
		need := len(allClasses)
		for idx := int64(0); idx < sp.Total() && need > 0; idx++ {
			g, keep := sp.At(idx)
			if !keep {
				continue
			}
			cls := ref.Analyze(g).Classes()
			if len(cls) != 1 || len(cands[cls[0]]) >= 12 {
				continue
			}
			cands[cls[0]] = append(cands[cls[0]], cand{g, g.Text(), cls[0]})
			if len(cands[cls[0]]) == 12 {
				need--
			}
		}
		var mu sync.Mutex
		pool := func(n int, jobs []func()) {
			var wg sync.WaitGroup
			ch := make(chan func())
			for i := 0; i < n; i++ {
				wg.Add(1)
				go func() {
					defer wg.Done()
					for f := range ch {
						f()
					}
				}()
			}
			for _, j := range jobs {
				ch <- j
			}
			close(ch)
			wg.Wait()
		}
		// wave 1: which candidates compile (in a child: a compiler crash must not take the parent down)
		compiles := map[string]string{}
		type pending struct {
			k Case
			f *engine.Failure
		}
		compileFails := map[string]pending{}
		var jobs []func()
		for _, class := range allClasses {
			for _, cd := range cands[class] {
				cd := cd
				jobs = append(jobs, func() {
					k := Case{Text: cd.text, G: cd.g, Input: compileOnly, Class: cd.class}
					r := runSolo(k)
					mu.Lock()
					defer mu.Unlock()
					c.Eval(1)
					compiles[cd.text] = r.outcome
					if r.outcome == "crash" {
						r.fail.What = fmt.Sprintf("compiling the grammar does not terminate (%s; %s)", r.fail.Key, r.fail.What)
						r.fail.Key = "compile:" + cd.class
						r.fail.Detail = fmt.Sprintf("grammar: %q (compile only)\n%s", cd.text, r.fail.Detail)
						compileFails[cd.text] = pending{k, r.fail}
					}
				})
			}
		}
		pool(12, jobs)
		for _, class := range allClasses { // report in enumeration order, independent of scheduling
			for _, cd := range cands[class] {
				if p, ok := compileFails[cd.text]; ok {
					c.Violate(p.k, p.f)
				}
			}
		}
		// wave 2: the 3 simplest compiling grammars of each class on 1-2 inputs that reach the construct
		jobs = nil
		type confirmRow struct {
			Class, Grammar, Input, Outcome string
			k                              Case
			f                              *engine.Failure
		}
		var rows []confirmRow
		for _, class := range allClasses {
			n := 0
			for _, cd := range cands[class] {
				if compiles[cd.text] != "terminated" {
					if compiles[cd.text] == "rejected" {
						c.Hist("confirm_candidate_rejected_at_compile:"+class, 1)
					}
					continue
				}
				if n++; n > 3 {
					break
				}
				var chosen []int
				for i := range ins {
					if v := ref.Judge(cd.g, inToks[i]); v.Diverged && len(chosen) < nConfirmInputs {
						chosen = append(chosen, i)
					}
				}
				for i := 0; len(chosen) < nConfirmInputs; i++ {
					chosen = append(chosen, i)
				}
				for _, i := range chosen {
					cd, i := cd, i
					jobs = append(jobs, func() {
						k := Case{Text: cd.text, G: cd.g, Input: inTexts[i], Class: cd.class}
						r := runSolo(k)
						mu.Lock()
						defer mu.Unlock()
						c.Eval(1)
						c.NontrivialN(1)
						row := confirmRow{Class: cd.class, Grammar: strings.TrimSpace(cd.text), Input: inTexts[i], Outcome: r.outcome, k: k}
						defer func() { rows = append(rows, row) }()
						if r.outcome == "crash" {
							confirmed[cd.class]++
							c.Hist("confirmed_nonterminating:"+cd.class, 1)
							what := r.fail.What
							r.fail.What = fmt.Sprintf("matching does not terminate (%s; %s)", r.fail.Key, what)
							r.fail.Key = cd.class
							r.fail.Detail = fmt.Sprintf("grammar: %q input: %q\n%s", cd.text, inTexts[i], r.fail.Detail)
							row.f = r.fail
						} else {
							c.Hist("confirmation_run_"+r.outcome+":"+cd.class, 1)
						}
					})
				}
			}
		}
		pool(9, jobs)
		sort.Slice(rows, func(i, j int) bool {
			if rows[i].Class != rows[j].Class {
				return rows[i].Class < rows[j].Class
			}
			if len(rows[i].Grammar) != len(rows[j].Grammar) {
				return len(rows[i].Grammar) < len(rows[j].Grammar)
			}
			return rows[i].Grammar+rows[i].Input < rows[j].Grammar+rows[j].Input
		})
		for _, r := range rows { // report in sorted order, independent of scheduling
			if r.f != nil {
				c.Violate(r.k, r.f)
			}
		}
		c.Extra["confirmation_runs"] = rows
		var skip []string
		for cl := range confirmed {
			skip = append(skip, cl)
		}
		sort.Strings(skip)
		os.Setenv("C28_SKIP", strings.Join(skip, ";"))
		for _, cl := range skip {
			c.Cap(fmt.Sprintf("class %s: confirmed non-terminating on %d confirmation runs; the other grammars of this class are compiled but not matched (outcome_histogram: predicted_nonterminating_not_run)", cl, confirmed[cl]))
		}
	}

	// ---- step 3: bulk ----
	skip := map[string]bool{}
	for _, s := range strings.Split(os.Getenv("C28_SKIP"), ";") {
		if s != "" {
			skip[s] = true
		}
	}
	const chunk = 2000
	job := &engine.Job{NumBlocks: int((sp.Total() + chunk - 1) / chunk), ItemTimeout: itemTimeout, MemLimitMB: memLimitMB}
	job.RunBlock = func(w *engine.W, b int) {
		tpl.ShowConflict(false)
		runtime.GOMAXPROCS(2) // 16 workers x 16 GC threads on tiny heaps only fight each other
		debug.SetGCPercent(400)
		lo, hi := int64(b)*chunk, int64(b+1)*chunk
		if hi > sp.Total() {
			hi = sp.Total()
		}
		for idx := lo; idx < hi; idx++ {
			g, keep := sp.At(idx)
			if !keep {
				w.Hist("grammars_skipped_aux_unreferenced")
				continue
			}
			cls := ref.Analyze(g).Classes()
			class := strings.Join(cls, ",")
			text := g.Text()
			k := Case{Text: text, G: g, Input: compileOnly, Class: class}
			if !w.Item(k) {
				continue
			}
			cl, err, f := compile(text)
			if f != nil {
				f.Detail = fmt.Sprintf("grammar: %q (compile)\n%s", text, f.Detail)
				w.Fail(k, f)
				continue
			}
			if err != nil {
				w.Hist("rejected_at_compile")
				if !strings.Contains(class, "left-recursion") { // cross-check of the static analysis, not a verdict
					w.Hist("rejected_at_compile_without_left_recursion_per_tplref")
				}
				continue
			}
			skipped := false
			for _, cn := range cls {
				skipped = skipped || skip[cn]
			}
			if skipped {
				w.Hist("predicted_nonterminating_not_run")
				for _, cn := range cls {
					w.Hist("not_run_having:" + cn)
				}
				continue
			}
			if class == "" {
				w.Hist("grammars_run:no-class")
			} else {
				for _, cn := range cls {
					w.Hist("grammars_run_having:" + cn)
				}
			}
			w.Nontrivial()
			for _, in := range inTexts {
				k := Case{Text: text, G: g, Input: in, Class: class}
				if !w.Item(k) {
					continue
				}
				if f := runItem(&cl, in); f != nil {
					f.Detail = fmt.Sprintf("grammar: %q input: %q\n%s", text, in, f.Detail)
					w.Fail(k, f)
				}
			}
			if idx%50021 == 0 {
				w.Sample(Case{Text: text, Input: "a , 1", Class: class})
			}
		}
	}
	job.Run(c)
	c.Rule = fmt.Sprintf("every grammar `doc = e` with <=%d operator nodes over leaves {\"a\", INT, \",\", doc} and every grammar `doc = e1; aux = e2` (doc mentions aux) with <=%d operator nodes in total over {\"a\", INT, \",\", doc, aux}; operators: n-ary sequence and choice (k-1 nodes), * + ? %% ++; including nullable repetition bodies and direct/indirect/nullable-prefix left recursion. Each compiled grammar x every input of 0..3 tokens over {a, 1, \",\"} (%d inputs, single blanks) x {ParseExpr, Parse} (both run Compiler.Match). Evaluations = compile items + (grammar, input) items + confirmation runs; distinct_nontrivial = grammars that compiled and were matched on all inputs (+ confirmation runs)", max1, max2, len(ins))
	c.Assumptions = []string{
		"non-termination is observed as: no completion within 20 s for one (grammar, input) item, a fatal stack overflow, or a heap above 1500 MB (all three are unbounded growth of a match that should take microseconds; no shorter wall-clock limit is used)",
		"defect classes come from tplref's static analysis (least-fixpoint nullability; rules reachable at the same input position, through nullable prefixes or not); violations of a confirmed class are keyed by the class (compile:<class> if already compiling hangs); a crash in the bulk part means a grammar outside every confirmed class did not terminate (unexplained by the analysis) and carries the engine's kind@site key, its replay reports it as unexplained-nontermination",
		"2-rule grammars whose root rule does not mention aux are skipped (aux unreachable; they match like the corresponding 1-rule grammar)",
	}
	c.Extra["bound"] = map[string]any{"max_ops_1rule": max1, "max_ops_2rule_total": max2, "grammar_indices": sp.Total(), "inputs": len(ins), "max_input_tokens": 3}
	c.Finish()
}

// C23: import sorting keeps the import set.
// Mode E: every import block built from a fixed menu of specs (plain, named,
// blank, dot, with trailing line / block comment), every grouping by blank
// lines, block and one-import-per-declaration form, an optional doc comment
// line, with and without a package clause, is run through format.Source. The
// oracle reads the OUTPUT with its own line-based import reader (not with the
// XGo parser or ast package) and compares it with the generator's ground truth.
package main

import (
	"fmt"
	"sort"
	"strings"

	"github.com/goplus/xgo/format"
	"github.com/goplus/xgo/parser"
	"github.com/goplus/xgo/token"
	"verif/engine"
)

// ---- generator ----

type specT struct {
	Name, Path, Comment, Text string
}

var menu = []specT{
	{"", "a", "", `"a"`},
	{"", "b", "", `"b"`},
	{"", "c/d", "", `"c/d"`},
	{"x", "a", "", `x "a"`},
	{"_", "c", "", `_ "c"`},
	{".", "d", "", `. "d"`},
	{"", "a", "//k", `"a" //k`},
	{"", "b", "/*k*/", `"b" /*k*/`},
}

const docText = "// doc"

type Case struct {
	Specs []int  // indices into menu
	Gaps  []bool // len(Specs)-1; true = blank line between spec i and i+1
	Block bool   // import ( ... ) vs. one import declaration per spec
	Doc   int    // -1, or index of the spec preceded by a "// doc" line
	Pkg   bool   // with "package p" clause
}

func (k Case) src() string {
	var sb strings.Builder
	if k.Pkg {
		sb.WriteString("package p\n\n")
	}
	ind := ""
	if k.Block {
		sb.WriteString("import (\n")
		ind = "\t"
	}
	for i, s := range k.Specs {
		if i > 0 && k.Gaps[i-1] {
			sb.WriteString("\n")
		}
		if k.Doc == i {
			sb.WriteString(ind + docText + "\n")
		}
		if k.Block {
			sb.WriteString(ind + menu[s].Text + "\n")
		} else {
			sb.WriteString("import " + menu[s].Text + "\n")
		}
	}
	if k.Block {
		sb.WriteString(")\n")
	}
	sb.WriteString("\nfunc f() {}\n")
	return sb.String()
}

// ---- independent reader of a formatted import section ----

type outSpec struct {
	Name, Path string
	Block      bool // inside import ( ... )
	Group      int  // contiguous group number (new group after blank / comment-only line / declaration end)
}

type outFile struct {
	Specs    []outSpec
	Comments []string // normalised comment texts
}

func normComment(s string) string {
	s = strings.TrimSpace(s)
	if strings.HasPrefix(s, "//") {
		return "//" + strings.TrimSpace(s[2:])
	}
	if strings.HasPrefix(s, "/*") && strings.HasSuffix(s, "*/") {
		return "/*" + strings.TrimSpace(s[2:len(s)-2]) + "*/"
	}
	return s
}

// lexLine splits one line into tokens: comments, strings, words, ( and ).
func lexLine(l string) (toks []string, ok bool) {
	i := 0
	for i < len(l) {
		ch := l[i]
		switch {
		case ch == ' ' || ch == '\t':
			i++
		case strings.HasPrefix(l[i:], "//"):
			toks = append(toks, l[i:])
			i = len(l)
		case strings.HasPrefix(l[i:], "/*"):
			j := strings.Index(l[i+2:], "*/")
			if j < 0 {
				return nil, false
			}
			toks = append(toks, l[i:i+2+j+2])
			i += 2 + j + 2
		case ch == '"':
			j := strings.IndexByte(l[i+1:], '"')
			if j < 0 {
				return nil, false
			}
			toks = append(toks, l[i:i+1+j+1])
			i += 1 + j + 1
		case ch == '(' || ch == ')':
			toks = append(toks, string(ch))
			i++
		default:
			j := i
			for j < len(l) && !strings.ContainsRune(" \t\"()", rune(l[j])) && !strings.HasPrefix(l[j:], "//") && !strings.HasPrefix(l[j:], "/*") {
				j++
			}
			if j == i {
				return nil, false
			}
			toks = append(toks, l[i:j])
			i = j
		}
	}
	return toks, true
}

func isComment(t string) bool { return strings.HasPrefix(t, "//") || strings.HasPrefix(t, "/*") }

// readImports reads everything up to the line "func f() {}".
func readImports(out string, wantPkg bool) (*outFile, string) {
	f := &outFile{}
	lines := strings.Split(out, "\n")
	inBlock := false
	group := 0
	sawFunc := false
	sawPkg := false
	for _, l := range lines {
		toks, ok := lexLine(l)
		if !ok {
			return nil, "cannot lex line " + fmt.Sprintf("%q", l)
		}
		// strip and record comments
		var code []string
		for _, t := range toks {
			if isComment(t) {
				f.Comments = append(f.Comments, normComment(t))
			} else {
				code = append(code, t)
			}
		}
		if len(code) == 0 { // blank or comment-only line
			group++
			continue
		}
		if !inBlock {
			switch code[0] {
			case "package":
				if len(code) != 2 || code[1] != "p" || sawPkg {
					return nil, fmt.Sprintf("unexpected package line %q", l)
				}
				sawPkg = true
				continue
			case "func":
				if strings.Join(code, " ") != "func f ( ) {}" && strings.TrimSpace(l) != "func f() {}" {
					return nil, fmt.Sprintf("unexpected func line %q", l)
				}
				sawFunc = true
			case "import":
				code = code[1:]
				if len(code) == 1 && code[0] == "(" {
					inBlock = true
					group++
					continue
				}
				if len(code) >= 1 && code[0] == "(" { // import ("a") on one line is not gofmt style
					return nil, fmt.Sprintf("unexpected one-line block %q", l)
				}
				sp, msg := readSpec(code)
				if msg != "" {
					return nil, msg + fmt.Sprintf(" in %q", l)
				}
				group++
				sp.Group = group
				group++
				f.Specs = append(f.Specs, sp)
				continue
			default:
				return nil, fmt.Sprintf("unexpected line %q", l)
			}
			if sawFunc {
				break
			}
			continue
		}
		if len(code) == 1 && code[0] == ")" {
			inBlock = false
			group++
			continue
		}
		sp, msg := readSpec(code)
		if msg != "" {
			return nil, msg + fmt.Sprintf(" in %q", l)
		}
		sp.Block = true
		sp.Group = group
		f.Specs = append(f.Specs, sp)
	}
	if !sawFunc {
		return nil, "func f() {} is missing"
	}
	if inBlock {
		return nil, "unterminated import block"
	}
	if sawPkg != wantPkg {
		return nil, fmt.Sprintf("package clause present=%v, want %v", sawPkg, wantPkg)
	}
	return f, ""
}

func readSpec(code []string) (outSpec, string) {
	var sp outSpec
	switch len(code) {
	case 1:
	case 2:
		sp.Name = code[0]
		code = code[1:]
	default:
		return sp, "unexpected import spec shape"
	}
	p := code[0]
	if len(p) < 2 || p[0] != '"' || p[len(p)-1] != '"' {
		return sp, "import path is not a string"
	}
	sp.Path = p[1 : len(p)-1]
	if sp.Name != "" && sp.Name != "_" && sp.Name != "." {
		for _, r := range sp.Name {
			if !(r >= 'a' && r <= 'z') {
				return sp, "import name is not an identifier"
			}
		}
	}
	return sp, ""
}

// ---- oracle ----

type key struct{ Name, Path string }

func multiset(xs []string) map[string]int {
	m := map[string]int{}
	for _, x := range xs {
		m[x]++
	}
	return m
}

type verdict struct {
	collapsed        int
	dupKeys          int
	commentedRemoved int // copies carrying a trailing comment that were removed (comment text itself kept)
}

func eval(k Case) *engine.Failure { f, _ := evalV(k); return f }

func evalV(k Case) (*engine.Failure, verdict) {
	var v verdict
	src := k.src()
	var out []byte
	var err error
	if f := engine.Guard(func() { out, err = format.Source([]byte(src), false, "a.xgo") }); f != nil {
		return f, v
	}
	form := "decls"
	if k.Block {
		form = "block"
	}
	if err != nil {
		return &engine.Failure{Key: "format-error:" + form, What: "format.Source rejects a valid file", Detail: fmt.Sprintf("src=%q err=%v", src, err)}, v
	}
	det := func(extra string) string {
		return fmt.Sprintf("%s\n--- input ---\n%s--- output ---\n%s", extra, src, out)
	}
	got, msg := readImports(string(out), k.Pkg)
	if msg != "" {
		return &engine.Failure{Key: "unreadable-output:" + form, What: "formatted import section has an unexpected shape: " + msg, Detail: det("")}, v
	}

	// ground truth of the input
	in := map[key]int{}
	inCommented := map[key]int{}
	inNames, inPaths := map[string]bool{}, map[string]bool{}
	var inComments []string
	for i, s := range k.Specs {
		m := menu[s]
		in[key{m.Name, m.Path}]++
		inNames[m.Name] = true
		inPaths[m.Path] = true
		if m.Comment != "" {
			inCommented[key{m.Name, m.Path}]++
			inComments = append(inComments, normComment(m.Comment))
		}
		if k.Doc == i {
			inComments = append(inComments, normComment(docText))
		}
	}
	outm := map[key]int{}
	for _, s := range got.Specs {
		outm[key{s.Name, s.Path}]++
	}

	// (2) + (1a): no pair that the input does not have
	for kk, n := range outm {
		if in[kk] == 0 {
			if inNames[kk.Name] && inPaths[kk.Path] {
				return &engine.Failure{Key: "name-moved-to-other-path:" + form, What: "an import name is attached to a different path after formatting", Detail: det(fmt.Sprintf("pair %q %q is not in the input", kk.Name, kk.Path))}, v
			}
			return &engine.Failure{Key: "import-added:" + form, What: "formatting added an import", Detail: det(fmt.Sprintf("pair %q %q is not in the input", kk.Name, kk.Path))}, v
		}
		if n > in[kk] {
			return &engine.Failure{Key: "import-multiplied:" + form, What: "formatting added a copy of an import", Detail: det(fmt.Sprintf("pair %q %q: %d in input, %d in output", kk.Name, kk.Path, in[kk], n))}, v
		}
	}
	// (1b): every pair of the input survives at least once; only copies may go
	for kk, n := range in {
		if n > 1 {
			v.dupKeys++
		}
		if outm[kk] == 0 {
			what := "formatting removed an import that is not a duplicate"
			kn := "import-removed:"
			if n > 1 {
				what = "formatting removed every copy of a duplicated import"
				kn = "import-removed-all-copies:"
			}
			return &engine.Failure{Key: kn + form, What: what, Detail: det(fmt.Sprintf("pair %q %q: %d in input, 0 in output", kk.Name, kk.Path, n))}, v
		}
		v.collapsed += n - outm[kk]
		if outm[kk] < inCommented[kk] {
			v.commentedRemoved++
		}
	}
	if !k.Block && v.collapsed > 0 {
		// SortImports is documented to touch import blocks only
		return &engine.Failure{Key: "dedup-outside-block", What: "an import declaration outside a block was removed", Detail: det("")}, v
	}
	// (4) comments: the multiset of comment texts is kept (this is the "without data loss" condition for dedup)
	ic, oc := multiset(inComments), multiset(got.Comments)
	for t, n := range ic {
		if oc[t] < n {
			return &engine.Failure{Key: "comment-lost:" + form + ":" + t[:2], What: "a comment of the import section is lost", Detail: det(fmt.Sprintf("comment %q: %d in input, %d in output", t, n, oc[t]))}, v
		}
	}
	for t, n := range oc {
		if ic[t] < n {
			return &engine.Failure{Key: "comment-added:" + form, What: "a comment appears that the input does not have", Detail: det(fmt.Sprintf("comment %q: %d in input, %d in output", t, ic[t], n))}, v
		}
	}
	// (3) every contiguous group of a block is sorted by path
	for i := 1; i < len(got.Specs); i++ {
		a, b := got.Specs[i-1], got.Specs[i]
		if a.Block && b.Block && a.Group == b.Group && a.Path > b.Path {
			return &engine.Failure{Key: "group-not-sorted", What: "a contiguous group of an import block is not sorted by path", Detail: det(fmt.Sprintf("%q before %q", a.Path, b.Path))}, v
		}
	}
	// cross-check the reader against the XGo parser (output must parse, same spec list)
	fset := token.NewFileSet()
	pf, perr := parser.ParseFile(fset, "a.xgo", out, parser.ParseComments)
	if perr != nil {
		return &engine.Failure{Key: "output-does-not-parse:" + form, What: "formatted file is not accepted by the parser", Detail: det(perr.Error())}, v
	}
	if len(pf.Imports) != len(got.Specs) {
		return &engine.Failure{Key: "HARNESS:reader-disagrees-with-parser", What: "line reader and parser see different import lists", Detail: det("")}, v
	}
	for i, im := range pf.Imports {
		n := ""
		if im.Name != nil {
			n = im.Name.Name
		}
		if n != got.Specs[i].Name || im.Path.Value != `"`+got.Specs[i].Path+`"` {
			return &engine.Failure{Key: "HARNESS:reader-disagrees-with-parser", What: "line reader and parser see different import lists", Detail: det("")}, v
		}
	}
	return nil, v
}

// nontrivial: a block in which some input run has >= 2 specs that are unsorted or contain a duplicate pair.
func nontrivial(k Case) bool {
	if !k.Block {
		return false
	}
	start := 0
	for i := 0; i <= len(k.Specs); i++ {
		if i == len(k.Specs) || (i > 0 && (k.Gaps[i-1] || k.Doc == i)) {
			if i > start {
				run := k.Specs[start:i]
				seen := map[key]bool{}
				for j, s := range run {
					kk := key{menu[s].Name, menu[s].Path}
					if seen[kk] {
						return true
					}
					seen[kk] = true
					if j > 0 && menu[run[j-1]].Path > menu[s].Path {
						return true
					}
				}
			}
			start = i
		}
	}
	return false
}

func main() {
	c := engine.New("C23", "exploration")
	if c.IsReplay() {
		var k Case
		c.LoadReplay(&k)
		c.ReplayResult(eval(k))
	}
	maxLen := 3
	if c.Thorough() {
		maxLen = 4
	}
	c.Rule = fmt.Sprintf("every sequence of 1..%d import specs over a menu of %d (plain, named, _, ., trailing //k, trailing /*k*/; repetition allowed) x every blank-line grouping x {import block, one declaration per spec} x {no doc comment, doc comment line before spec i} x {with, without package clause}; non-trivial = block form in which some run is unsorted or holds a duplicate (name,path) pair", maxLen, len(menu))
	c.Assumptions = []string{
		"go/ast SortImports contract (the XGo function is a port): only runs of consecutive lines inside import ( ... ) blocks are sorted and de-duplicated; 'one import per declaration' files are only checked for set preservation (sortedness excluded and counted)",
		"'without data loss' is read as: every (name,path) pair of the input survives at least once, no pair gains copies, and the multiset of comment texts is unchanged; which copy survives and where comments end up is not judged",
		"dedup is never demanded, only allowed",
	}
	// self-test of the reader on the generator's own text (identity must be readable)
	for _, k := range []Case{{Specs: []int{3, 6, 7}, Gaps: []bool{true, false}, Block: true, Doc: 1, Pkg: true}, {Specs: []int{5, 4}, Gaps: []bool{false}, Doc: 0}} {
		g, msg := readImports(k.src(), k.Pkg)
		if msg != "" || len(g.Specs) != len(k.Specs) {
			c.Fatal("reader self-test failed: %s on %q", msg, k.src())
		}
		for i, s := range k.Specs {
			if g.Specs[i].Name != menu[s].Name || g.Specs[i].Path != menu[s].Path {
				c.Fatal("reader self-test: spec %d differs on %q", i, k.src())
			}
		}
	}
	var names []string
	for n := 1; n <= maxLen && !c.Expired(); n++ {
		idx := make([]int, n)
		for {
			for g := 0; g < 1<<(n-1); g++ {
				gaps := make([]bool, n-1)
				for i := range gaps {
					gaps[i] = g>>i&1 == 1
				}
				for _, block := range []bool{true, false} {
					for doc := -1; doc < n; doc++ {
						for _, pkg := range []bool{true, false} {
							k := Case{Specs: append([]int(nil), idx...), Gaps: gaps, Block: block, Doc: doc, Pkg: pkg}
							c.Eval(1)
							nt := nontrivial(k)
							if nt {
								c.NontrivialN(1)
								if n == 3 && doc == 1 && g == 1 {
									c.Sample(k.src())
								}
							}
							f, v := evalV(k)
							if f != nil {
								if f2 := eval(k); f2 == nil || f2.Key != f.Key {
									c.Fatal("non-deterministic evaluation for %q", k.src())
								}
								if strings.HasPrefix(f.Key, "HARNESS:") {
									c.Fatal("%s: %s", f.What, f.Detail)
								}
								c.Violate(k, f)
								c.Hist("violating_cases", 1)
								continue
							}
							if v.commentedRemoved > 0 {
								// the statement does not say whether a copy that carries a comment counts as an
								// "exact duplicate"; the comment text itself is still required to survive (checked above)
								c.Hist("excluded_undetermined:copy_with_comment_removed_but_comment_text_kept", 1)
							}
							if !block {
								c.Hist("excluded_sortedness_not_judged_outside_block", 1)
							}
							if v.dupKeys > 0 && block {
								if v.collapsed > 0 {
									c.Hist("block_with_duplicates:some_copy_collapsed", 1)
								} else {
									c.Hist("block_with_duplicates:all_copies_kept(allowed,not_judged)", 1)
								}
							}
							c.Hist(fmt.Sprintf("ok_len%d", n), 1)
						}
					}
				}
			}
			i := n - 1
			for ; i >= 0; i-- {
				idx[i]++
				if idx[i] < len(menu) {
					break
				}
				idx[i] = 0
			}
			if i < 0 {
				break
			}
		}
	}
	if c.Expired() {
		c.Cap("internal deadline reached before the enumeration finished")
	}
	for _, m := range menu {
		names = append(names, m.Text)
	}
	sort.Strings(names)
	c.Extra["bound"] = map[string]any{"max_specs": maxLen}
	c.Extra["menu"] = names
	c.Finish()
}

// C13: the parser never panics or hangs and reports sorted errors; nil error => no Bad nodes.
// Mode E: (E1) every token sequence up to length N over a 64-token alphabet x entry points,
// (E1f) all 512 mode-flag combinations on the <=2-token sequences, (E2) every byte string up to
// length 3 over the scanner alphabet, (E3) every 1-edit neighbour of corpus and hand-written seeds.
package main

import (
	"fmt"
	"os"
	"path/filepath"
	"sort"
	"strings"
	vcorpus "verif/corpus"

	"github.com/goplus/xgo/ast"
	"github.com/goplus/xgo/parser"
	"github.com/goplus/xgo/scanner"
	"github.com/goplus/xgo/token"
	"verif/astx"
	"verif/engine"
	"verif/scanx"
)

var alpha = []string{
	"a", "b", "_", "in", "1", "1.5", `"s"`, "'c'", "`r`", "1ms", "3r", `"${a}"`, `c"s"`, "x.y",
	"break", "case", "chan", "const", "continue", "default", "defer", "else", "fallthrough", "for", "func", "go", "goto",
	"if", "import", "interface", "map", "package", "range", "return", "select", "struct", "switch", "type", "var",
	"+", "-", "*", "&", "|", "<", "=", "!", "(", ")", "[", "]", "{", "}", ",", ";", ".", ":", ":=", "...", "<-", "->", "<>", "=>", "?", "$", "++", "==", "+=", "~",
	"\n", "#k\n", "//k\n", "/*k*/",
}

var byteAlpha = []byte("a10x_.\"'`\\/*#\n\r ${}!-><=")

type Case struct {
	Src  string `json:"src"`
	EP   string `json:"ep"` // file name ("a.xgo", "a.gox", "a.go") or "expr"
	Mode uint   `json:"mode"`
}

var eps = []Case{
	{"", "a.xgo", 0},
	{"", "a.xgo", uint(parser.ParseComments | parser.AllErrors)},
	{"", "a.gox", uint(parser.ParseGoPlusClass | parser.ParseComments)},
	{"", "expr", 0},
}

var flagBits = []parser.Mode{parser.PackageClauseOnly, parser.ImportsOnly, parser.ParseComments, parser.Trace, parser.DeclarationErrors,
	parser.AllErrors, parser.ParseGoAsGoPlus, parser.ParseGoPlusClass, parser.SaveAbsFile}

func eval(k Case) *engine.Failure {
	var node ast.Node
	var err error
	g := engine.Guard(func() {
		if k.EP == "expr" {
			var e ast.Expr
			e, err = parser.ParseExprFrom(token.NewFileSet(), "", []byte(k.Src), parser.Mode(k.Mode))
			if e != nil {
				node = e
			}
		} else {
			var f *ast.File
			f, err = parser.ParseFile(token.NewFileSet(), k.EP, []byte(k.Src), parser.Mode(k.Mode))
			if f == nil {
				panic("verif: ParseFile returned a nil *ast.File")
			}
			node = f
		}
	})
	if g != nil {
		return g
	}
	det := fmt.Sprintf("src=%q ep=%s mode=%#x err=%v", k.Src, k.EP, k.Mode, err)
	if err != nil {
		el, ok := err.(scanner.ErrorList)
		if !ok {
			return &engine.Failure{Key: "error-type", What: "error is not a scanner.ErrorList", Detail: det}
		}
		if !sort.SliceIsSorted(el, func(i, j int) bool {
			a, b := el[i].Pos, el[j].Pos
			if a.Filename != b.Filename {
				return a.Filename < b.Filename
			}
			if a.Line != b.Line {
				return a.Line < b.Line
			}
			return a.Column < b.Column
		}) {
			return &engine.Failure{Key: "unsorted-errors", What: "error list is not sorted by position", Detail: det}
		}
		return nil
	}
	if node != nil {
		bad := ""
		g := engine.Guard(func() {
			astx.Walk(node, true, func(n, _ ast.Node) {
				switch n.(type) {
				case *ast.BadExpr, *ast.BadStmt, *ast.BadDecl:
					bad = fmt.Sprintf("%T", n)
				}
			})
		})
		if g != nil {
			g.Key = "walk-" + g.Key
			return g
		}
		if bad != "" {
			return &engine.Failure{Key: "nil-error-with-bad-node:" + bad, What: "nil error but the tree contains a Bad node", Detail: det}
		}
	}
	return nil
}

// ---- seeds ----
var handSeeds = []string{
	"x := [1, 2, 3]", "x := {\"a\": 1}", "y := [v*v for v <- x if v > 1]", "z := {k: v for k, v <- m}", "b := {for v <- x if v > 2}",
	"v, ok := {v for v <- x if v > 2}", "for i <- 0:10:2 {\n}", "for i, v <- x {\n}", "for v <- x if v > 1 {\n}", "a <- 1, 2", "a <- b...",
	"echo \"hi\", 1", "println [1, 2; 3, 4]", "f x => x * 2", "f (x, y) => {\n\treturn x\n}", "f => 1", "f => {\nL:\n\tfor {\n\t\tbreak L\n\t}\n}", "x := f()!", "y := f()?", "z := f()?:1",
	"n := 1r + 2.5r", "d := 3ms", "s := \"a${b}c$$\"", "e := ${HOME}", "t := x -> y", "u := x <> y", "func (p *T) m(a int) (r int, err error) {\n}",
	"func f[T any](x T) T {\n\treturn x\n}", "type T struct {\n\tA int `json:\"a\"`\n\t*B\n}", "type I interface {\n\tm() int\n\tE\n}", "var (\n\ta = 1\n\tb, c int\n)",
	"const (\n\tx = iota\n\ty\n)", "import \"fmt\"", "import (\n\tf \"fmt\"\n\t_ \"os\"\n)", "package p\n", "switch x := y.(type) {\ncase int:\ndefault:\n}",
	"switch {\ncase a > 1:\n\tfallthrough\ndefault:\n}", "select {\ncase v := <-c:\ncase c <- 1:\ndefault:\n}", "go f()", "defer f()", "L:\n\tfor {\n\t\tbreak L\n\t}",
	"goto L", "for a, b, c <- x {\n}", "if x := f(); x > 0 {\n} else if y {\n} else {\n}", "x.y.z(1)(2)[3][1:2:3]", "x = []int{1, 2}", "m = map[string]int{\"a\": 1}",
	"p = &T{A: 1}", "f(a...)", "c = x.(int)", "a, b = b, a", "i++", "x <<= 2", "f = func(a, b int) int { return a + b }", "var a [2]int", "var c chan<- int",
	"var f func(int) (string, error)", "x := *p", "tpl`a = INT`", "json`{\"a\": 1}`", "func f(a int, b ...string)", "func (T).m()", "func onStart = (\n\tfunc() {}\n\tf2\n)",
	"func add = (addInt; addFloat)", "func (Foo).add = (\n\t(Foo).a\n\t(Foo).b\n)", "x := a[1:]", "x := a[:2]", "x := a[:]", "echo x[1]", "echo -1", "echo (1+2)*3",
	"var x = [[1, 2], [3]]", "for range 3 {\n}", "for i := range 10 {\n}", "for i := 0; i < 3; i++ {\n\tcontinue\n}", "x |> f", "echo [x for x <- 1:3]",
	"type A = B", "type G[T any] struct{ x T }", "var v G[int]", "echo {1: 2}[1]", "a.b <- c", "!x", "x := ^y &^ z", "return 1, 2",
}

func corpus(maxBytes int) []string {
	var out []string
	for _, pat := range []string{"parser/_testdata/*/*.xgo", "parser/_testdata/*/*.gox", "parser/_nofmt/*/*.xgo", "cl/_testgop/*/in.xgo", "demo/*/*.xgo", "demo/*/*.gox"} {
		ms, _ := filepath.Glob(filepath.Join("/repo", pat))
		sort.Strings(ms)
		for _, m := range ms {
			b, err := os.ReadFile(m)
			if err == nil && len(b) <= maxBytes && len(b) > 0 {
				out = append(out, string(b))
			}
		}
	}
	return out
}

type span struct{ off, end int }

func tokenSpans(src string) []span {
	r := scanx.XGo([]byte(src), true, nil)
	var sp []span
	for _, t := range r.Toks {
		ext, _ := scanx.Extent([]byte(src), t)
		if ext > 0 {
			sp = append(sp, span{t.Off, t.Off + ext})
		}
	}
	return sp
}

// neighbours calls f with every 1-edit neighbour of src (token level).
func neighbours(src string, f func(string)) {
	sp := tokenSpans(src)
	for i, s := range sp {
		f(src[:s.off] + src[s.end:])                          // delete
		f(src[:s.end] + " " + src[s.off:s.end] + src[s.end:]) // duplicate
		for _, a := range alpha {
			f(src[:s.off] + a + src[s.end:])       // replace
			f(src[:s.off] + a + " " + src[s.off:]) // insert before
		}
		_ = i
	}
	for _, a := range alpha {
		f(src + " " + a) // append
	}
}

func main() {
	c := engine.New("C13", "exploration")
	if c.IsReplay() {
		var k Case
		c.LoadReplay(&k)
		c.ReplayResult(eval(k))
	}
	maxTok, maxSeed := 3, 300
	if c.Thorough() {
		maxTok, maxSeed = 4, 1500
	}
	seeds := append([]string{}, handSeeds...)
	have := map[string]bool{}
	for _, s := range seeds {
		have[s] = true
	}
	for _, s := range vcorpus.HandSeeds { // the shared seed list grows with every strengthening of the front-end checks
		if !have[s] {
			have[s] = true
			seeds = append(seeds, s)
		}
	}
	seeds = append(seeds, corpus(maxSeed)...)
	A := len(alpha)
	nE1, nFlag, nByte := A+1, A+1, len(byteAlpha)
	job := &engine.Job{NumBlocks: nE1 + nFlag + nByte + len(seeds)}
	run := func(w *engine.W, k Case) {
		if !w.Item(k) {
			return
		}
		if f := eval(k); f != nil {
			w.Fail(k, f)
		}
	}
	job.RunBlock = func(w *engine.W, b int) {
		switch {
		case b < nE1: // E1 token sequences starting with alpha[b]
			if b == A {
				for _, ep := range eps {
					ep.Src = ""
					run(w, ep)
				}
				return
			}
			for n := 1; n <= maxTok; n++ {
				idx := make([]int, n-1)
				parts := make([]string, n)
				parts[0] = alpha[b]
				for {
					for i, v := range idx {
						parts[1+i] = alpha[v]
					}
					src := strings.Join(parts, " ")
					for _, ep := range eps {
						ep.Src = src
						run(w, ep)
					}
					w.Nontrivial()
					i := len(idx) - 1
					for ; i >= 0; i-- {
						idx[i]++
						if idx[i] < A {
							break
						}
						idx[i] = 0
					}
					if i < 0 {
						break
					}
				}
			}
			w.Sample(Case{alpha[b] + " " + alpha[(b*7)%A] + " " + alpha[(b*13)%A], "a.xgo", 0})
		case b < nE1+nFlag: // all 512 flag combinations on <=2-token sequences
			b -= nE1
			var srcs []string
			if b == A {
				srcs = []string{""}
			} else {
				srcs = append(srcs, alpha[b])
				for _, a := range alpha {
					srcs = append(srcs, alpha[b]+" "+a)
				}
			}
			for _, src := range srcs {
				for m := 0; m < 512; m++ {
					var mode parser.Mode
					for i, fb := range flagBits {
						if m&(1<<i) != 0 {
							mode |= fb
						}
					}
					for _, ep := range []string{"a.xgo", "a.gox", "expr"} {
						run(w, Case{src, ep, uint(mode)})
					}
				}
				w.Nontrivial()
			}
		case b < nE1+nFlag+nByte: // E2 bytes
			b -= nE1 + nFlag
			B := len(byteAlpha)
			for n := 1; n <= 3; n++ {
				s := make([]byte, n)
				s[0] = byteAlpha[b]
				idx := make([]int, n-1)
				for {
					for i, v := range idx {
						s[1+i] = byteAlpha[v]
					}
					for _, ep := range eps {
						ep.Src = string(s)
						run(w, ep)
					}
					w.Nontrivial()
					i := len(idx) - 1
					for ; i >= 0; i-- {
						idx[i]++
						if idx[i] < B {
							break
						}
						idx[i] = 0
					}
					if i < 0 {
						break
					}
				}
			}
		default: // E3 neighbourhoods
			seed := seeds[b-nE1-nFlag-nByte]
			for _, ep := range eps {
				ep.Src = seed
				run(w, ep)
			}
			neighbours(seed, func(s string) {
				for _, ep := range eps[:3] {
					ep.Src = s
					run(w, ep)
				}
				w.Nontrivial()
			})
			if b%40 == 0 {
				w.Sample(Case{seed, "a.xgo", 0})
			}
		}
	}
	job.Run(c)
	c.Rule = fmt.Sprintf("(E1) every sequence of 0..%d tokens over a %d-token alphabet (all keywords, literal kinds incl. XGo ones, operator representatives, newline, three comment forms) x 4 entry points (file mode 0, ParseComments|AllErrors, class file, ParseExpr); (E1f) all 512 combinations of the nine mode flags x 3 entry points on all sequences of <=2 tokens; (E2) every byte string of length 1..3 over %q x 4 entry points; (E3) every 1-edit token-level neighbour (delete, duplicate, replace by / insert each alphabet token) of %d seeds (%d hand-written, one per production, + corpus files <=%d bytes) x 3 entry points. distinct_nontrivial = distinct source texts", maxTok, A, string(byteAlpha), len(seeds), len(handSeeds), maxSeed)
	c.Assumptions = []string{"termination: a worker that makes no progress for 60 s on one input (300 s per block) is a hang; runaway allocation above 3 GB is an OOM verdict", "errors are compared by (filename, line, column) as scanner.ErrorList.Sort orders them"}
	c.Extra["bound"] = map[string]any{"max_tokens": maxTok, "seeds": len(seeds), "seed_max_bytes": maxSeed}
	c.Finish()
}

// C24: function hoisting only reorders top-level chunks.
// Mode E: every script of up to N chunks from a fixed menu (declarations,
// function/method declarations, func-literal calls, statements with nested
// braces / semicolons / strings, comments, import, package), with and without
// a final newline, is given to formatutil.RearrangeFuncs. The oracle is a
// reference model (rearrangeref) built on its own character-level top-level
// splitter; the scanner and splitStmts of the repository are not used.
package main

import (
	"fmt"
	"runtime"
	"sort"
	"strings"
	"sync"

	"github.com/goplus/xgo/format"
	"github.com/goplus/xgo/format/formatutil"
	"verif/engine"
)

// ---- generator ----

type menuT struct{ Kind, Tmpl string }

var menu = []menuT{
	{"var", "var a%d = 1"},
	{"const", "const c%d = 2"},
	{"type", "type T%d struct{}"},
	{"funcdecl", "func f%d() {\n\tprintln(1)\n}"},
	{"method", "func (t T) m%d() {}"},
	{"funclit", "func() {\n\t_ = %d\n}()"},
	{"stmt:call", "println(\"x;}%d\")"},
	{"stmt:block", "{\n\tx := %d\n\t_ = x\n}"},
	{"comment-line", "// line comment %d"},
	{"comment-block", "/* block ; { } comment %d */"},
	{"stmt:if", "if a { b(); c%d() }"},
	{"import", "import x%d \"fmt\""},
	{"package", "package p%d"},
	{"funclit-result", "func(x int) int {\n\treturn x\n}(%d)"},
}

type Case struct {
	Items []int // indices into menu; chunk i carries the suffix i
	NL    bool  // final newline
}

func (k Case) chunks() []string {
	out := make([]string, len(k.Items))
	for i, m := range k.Items {
		out[i] = fmt.Sprintf(menu[m].Tmpl, i)
	}
	return out
}

func (k Case) src() string {
	s := strings.Join(k.chunks(), "\n")
	if k.NL && len(k.Items) > 0 {
		s += "\n"
	}
	return s
}

// ---- rearrangeref: own splitter + classifier + model ----

type chunk struct {
	Text  string
	Start int // byte offset of the first byte of Text in the source
	Kind  string
}

// split cuts src at newlines and semicolons that are outside (), [], {}, strings,
// runes and comments. Domain: the generated scripts (every chunk is a complete
// statement; a newline at depth 0 therefore always ends a statement).
func split(src string) []chunk {
	var out []chunk
	depth := 0
	start := -1
	flush := func(end int) {
		if start >= 0 {
			t := strings.TrimRight(src[start:end], " \t\r\n")
			if t != "" {
				out = append(out, chunk{Text: t, Start: start, Kind: classify(t)})
			}
		}
		start = -1
	}
	i := 0
	for i < len(src) {
		ch := src[i]
		if start < 0 && ch != ' ' && ch != '\t' && ch != '\r' && ch != '\n' && ch != ';' {
			start = i
		}
		switch {
		case strings.HasPrefix(src[i:], "//"):
			j := strings.IndexByte(src[i:], '\n')
			if j < 0 {
				i = len(src)
			} else {
				i += j // the newline itself is handled below on the next round
			}
			continue
		case strings.HasPrefix(src[i:], "/*"):
			j := strings.Index(src[i+2:], "*/")
			if j < 0 {
				i = len(src)
			} else {
				i += 2 + j + 2
			}
			continue
		case ch == '"' || ch == '\'':
			j := i + 1
			for j < len(src) && src[j] != ch && src[j] != '\n' {
				if src[j] == '\\' {
					j++
				}
				j++
			}
			i = j + 1
			continue
		case ch == '`':
			j := strings.IndexByte(src[i+1:], '`')
			if j < 0 {
				i = len(src)
			} else {
				i += 1 + j + 1
			}
			continue
		case ch == '(' || ch == '[' || ch == '{':
			depth++
		case ch == ')' || ch == ']' || ch == '}':
			if depth > 0 {
				depth--
			}
		case (ch == '\n' || ch == ';') && depth == 0:
			flush(i)
		}
		i++
	}
	flush(len(src))
	return out
}

func skipSpace(s string) string { return strings.TrimLeft(s, " \t\r\n") }

func skipComments(s string) string {
	for {
		s = skipSpace(s)
		switch {
		case strings.HasPrefix(s, "//"):
			j := strings.IndexByte(s, '\n')
			if j < 0 {
				return ""
			}
			s = s[j+1:]
		case strings.HasPrefix(s, "/*"):
			j := strings.Index(s[2:], "*/")
			if j < 0 {
				return ""
			}
			s = s[2+j+2:]
		default:
			return s
		}
	}
}

func word(s string) (w, rest string) {
	j := 0
	for j < len(s) && (s[j] == '_' || s[j] >= 'a' && s[j] <= 'z' || s[j] >= 'A' && s[j] <= 'Z' || s[j] >= '0' && s[j] <= '9') {
		j++
	}
	return s[:j], s[j:]
}

// matchParen: s starts with '('; returns what follows the matching ')'.
func matchParen(s string) (string, bool) {
	d := 0
	for i := 0; i < len(s); i++ {
		switch s[i] {
		case '(':
			d++
		case ')':
			d--
			if d == 0 {
				return s[i+1:], true
			}
		}
	}
	return "", false
}

var typeKeywords = map[string]bool{"func": true, "map": true, "chan": true, "struct": true, "interface": true}

// classify names the syntactic kind of one chunk (Go spec: FunctionDecl, MethodDecl, FunctionLit).
func classify(t string) string {
	if strings.HasPrefix(t, "//") && skipComments(t) == "" {
		return "comment-line"
	}
	if strings.HasPrefix(t, "/*") && skipComments(t) == "" {
		return "comment-block"
	}
	s := skipComments(t)
	w, rest := word(s)
	switch w {
	case "var", "const", "type", "import", "package":
		return w
	case "if":
		return "stmt:if"
	case "func":
		rest = skipSpace(rest)
		if !strings.HasPrefix(rest, "(") {
			return "funcdecl" // func Name ...
		}
		after, ok := matchParen(rest)
		if !ok {
			return "stmt:other"
		}
		after = skipSpace(after)
		if strings.HasPrefix(after, "{") {
			return "funclit" // func (params) { ... }
		}
		n, r2 := word(after)
		if n != "" && !typeKeywords[n] && strings.HasPrefix(skipSpace(r2), "(") {
			return "method" // func (recv) Name (
		}
		return "funclit-result" // func (params) Result { ... }
	case "":
		if strings.HasPrefix(s, "{") {
			return "stmt:block"
		}
		return "stmt:other"
	}
	return "stmt:call"
}

// variant fixes the classifications on which the documentation is silent.
type variant struct {
	PkgDecl, ImpDecl bool
	Comment          int // 0 goes with the next chunk, 1 with the previous one, 2 statement of its own, 3 transparent chunk of its own
	// diagnosis only: pretend chunk kind OvKind belongs to class OvClass
	OvKind  string
	OvClass byte
}

var baseline = variant{PkgDecl: false, ImpDecl: false, Comment: 0}

type item struct {
	chunks []int
	class  byte // 'd' declaration (var/const/type...), 'f' function declaration, 's' other statement
}

func classOf(kind string, v variant) byte {
	if v.OvKind != "" && kind == v.OvKind {
		return v.OvClass
	}
	switch kind {
	case "var", "const", "type":
		return 'd'
	case "funcdecl", "method":
		return 'f'
	case "package":
		if v.PkgDecl {
			return 'd'
		}
		return 's'
	case "import":
		if v.ImpDecl {
			return 'd'
		}
		return 's'
	}
	return 's'
}

func isCommentKind(k string) bool { return strings.HasPrefix(k, "comment-") }

func build(chs []chunk, v variant) []item {
	var items []item
	var pending []int
	for i, c := range chs {
		if isCommentKind(c.Kind) {
			switch v.Comment {
			case 0:
				pending = append(pending, i)
			case 1:
				if len(items) > 0 {
					items[len(items)-1].chunks = append(items[len(items)-1].chunks, i)
				} else {
					items = append(items, item{[]int{i}, 'd'})
				}
			case 2:
				items = append(items, item{[]int{i}, 's'})
			case 3:
				items = append(items, item{[]int{i}, 'd'})
			}
			continue
		}
		items = append(items, item{append(pending, i), classOf(c.Kind, v)})
		pending = nil
	}
	if len(pending) > 0 { // trailing comments: nothing follows, they stay with what precedes
		if len(items) > 0 {
			items[len(items)-1].chunks = append(items[len(items)-1].chunks, pending...)
		} else {
			items = append(items, item{pending, 'd'})
		}
	}
	return items
}

// expected returns the chunk order demanded by the property and the byte offset
// up to which the source must be untouched (len(src) if nothing moves).
func expected(chs []chunk, v variant, srcLen int) (order []int, prefix int) {
	items := build(chs, v)
	first := -1
	for i, it := range items {
		if it.class == 's' {
			first = i
			break
		}
	}
	if first < 0 {
		for i := range chs {
			order = append(order, i)
		}
		return order, srcLen
	}
	for _, it := range items[:first] {
		order = append(order, it.chunks...)
	}
	for _, it := range items[first:] {
		if it.class == 'f' {
			order = append(order, it.chunks...)
		}
	}
	for _, it := range items[first:] {
		if it.class != 'f' {
			order = append(order, it.chunks...)
		}
	}
	return order, chs[items[first].chunks[0]].Start
}

func texts(chs []chunk, order []int) []string {
	out := make([]string, len(order))
	for i, o := range order {
		out[i] = chs[o].Text
	}
	return out
}

func eqs(a, b []string) bool {
	if len(a) != len(b) {
		return false
	}
	for i := range a {
		if a[i] != b[i] {
			return false
		}
	}
	return true
}

func nonNLBytes(s string) string {
	b := []byte(strings.ReplaceAll(s, "\n", ""))
	sort.Slice(b, func(i, j int) bool { return b[i] < b[j] })
	return string(b)
}

func sortedCopy(a []string) []string {
	b := append([]string(nil), a...)
	sort.Strings(b)
	return b
}

type verdict struct {
	ambiguous  bool // variants demand different results: accepted either way
	reordered  bool // baseline model moves something
	matched    int  // number of variants that accept the result
	srcOK      bool
	rearrOK    bool
	exOK       bool
	rearranged bool
	flips      []string // diagnosis of an order failure: every single re-classification of a chunk kind that explains the result
}

func eval(k Case) *engine.Failure { f, _ := evalV(k); return f }

func evalV(k Case) (*engine.Failure, verdict) {
	var v verdict
	src := k.src()
	var out []byte
	var err error
	if f := engine.Guard(func() { out, err = formatutil.RearrangeFuncs([]byte(src), "a.xgo") }); f != nil {
		return f, v
	}
	nl := "final-newline"
	if !k.NL {
		nl = "no-final-newline"
	}
	det := func(extra string) string {
		return fmt.Sprintf("%s\ninput  = %q\noutput = %q", extra, src, out)
	}
	if err != nil {
		return &engine.Failure{Key: "rearrange-error", What: "RearrangeFuncs returns an error", Detail: det(err.Error())}, v
	}
	in := split(src)
	got := split(string(out))
	gotTexts := make([]string, len(got))
	for i, g := range got {
		gotTexts[i] = g.Text
	}
	v.rearranged = string(out) != src

	// (1a) bytes
	if a, b := nonNLBytes(src), nonNLBytes(string(out)); a != b {
		kk := "bytes-added"
		if len(b) < len(a) {
			kk = "bytes-lost"
		}
		return &engine.Failure{Key: kk + ":" + nl, What: "the result is not made of the bytes of the source", Detail: det("")}, v
	}
	// (1b) same chunks
	inTexts := make([]string, len(in))
	for i, c := range in {
		inTexts[i] = c.Text
	}
	if !eqs(sortedCopy(inTexts), sortedCopy(gotTexts)) {
		return &engine.Failure{Key: "not-a-permutation-of-chunks:" + nl, What: "the top-level chunks of the result are not the top-level chunks of the source (chunk boundary lost or chunk cut)",
			Detail: det(fmt.Sprintf("source chunks = %q\nresult chunks = %q", inTexts, gotTexts))}, v
	}
	// (2)(3)(4) order, under every reading of the silent classifications
	seen := map[string]bool{}
	var prefixOnly bool
	for _, pd := range []bool{false, true} {
		for _, id := range []bool{false, true} {
			for cm := 0; cm < 4; cm++ {
				va := variant{PkgDecl: pd, ImpDecl: id, Comment: cm}
				order, prefix := expected(in, va, len(src))
				want := texts(in, order)
				seen[strings.Join(want, "\x00")] = true
				if eqs(want, gotTexts) {
					if len(out) >= prefix && string(out[:prefix]) == src[:prefix] {
						v.matched++
					} else {
						prefixOnly = true
					}
				}
			}
		}
	}
	v.ambiguous = len(seen) > 1
	bo, _ := expected(in, baseline, len(src))
	bwant := texts(in, bo)
	v.reordered = !eqs(bwant, inTexts)
	if v.matched == 0 {
		if prefixOnly {
			return &engine.Failure{Key: "prefix-changed:" + nl, What: "the part before the first non-declaration statement is not byte-identical", Detail: det("")}, v
		}
		// diagnosis: which single chunk kind, put into another class, explains the result?
		culprit := "unexplained"
		className := map[byte]string{'d': "declaration", 'f': "function-declaration", 's': "statement"}
		for _, m := range menu {
			if isCommentKind(m.Kind) {
				continue
			}
			for _, cl := range []byte{'f', 's', 'd'} {
				if cl == classOf(m.Kind, baseline) {
					continue
				}
				for cm := 0; cm < 4; cm++ {
					order, _ := expected(in, variant{Comment: cm, OvKind: m.Kind, OvClass: cl}, len(src))
					if eqs(texts(in, order), gotTexts) {
						v.flips = append(v.flips, m.Kind+"-treated-as-"+className[cl])
						break
					}
				}
			}
		}
		if len(v.flips) > 0 {
			culprit = v.flips[0]
		}
		return &engine.Failure{Key: "order:" + culprit, What: "the result is a permutation of the chunks but not the one the property describes (function declarations first, each class in source order) under any reading of package/import/comment chunks",
			Detail: det(fmt.Sprintf("result chunks = %q\nmodel (comments go with the next chunk, package/import are statements) = %q", gotTexts, bwant))}, v
	}

	// (5) SourceEx succeeds whenever Source succeeds on the original or on the rearrangement
	var e1, e2, e3 error
	var o1, o2, o3 []byte
	if f := engine.Guard(func() { o1, e1 = format.Source([]byte(src), false, "a.xgo") }); f != nil {
		return f, v
	}
	if f := engine.Guard(func() { o2, e2 = format.Source(out, false, "a.xgo") }); f != nil {
		return f, v
	}
	if f := engine.Guard(func() { o3, e3 = formatutil.SourceEx([]byte(src), false, "a.xgo") }); f != nil {
		return f, v
	}
	v.srcOK, v.rearrOK, v.exOK = e1 == nil, e2 == nil, e3 == nil
	if (e1 == nil || e2 == nil) && e3 != nil {
		return &engine.Failure{Key: "sourceex-fails-where-source-succeeds", What: "SourceEx fails although Source succeeds on the original or on the rearrangement", Detail: det(fmt.Sprintf("Source(orig) err=%v\nSource(rearranged) err=%v\nSourceEx err=%v", e1, e2, e3))}, v
	}
	if e3 == nil && len(o3) == 0 && strings.TrimSpace(src) != "" {
		return &engine.Failure{Key: "sourceex-success-without-result", What: "SourceEx reports success but returns no formatted text for a non-blank source", Detail: det(fmt.Sprintf("Source(orig) err=%v\nSource(rearranged) err=%v", e1, e2))}, v
	}
	_, _ = o1, o2
	return nil, v
}

func main() {
	c := engine.New("C24", "exploration")
	if c.IsReplay() {
		var k Case
		c.LoadReplay(&k)
		c.ReplayResult(eval(k))
	}
	maxLen := 4
	if c.Thorough() {
		maxLen = 5
	}
	c.Rule = fmt.Sprintf("every sequence of 0..%d chunks over a menu of %d chunk kinds joined by newlines, with and without final newline; non-trivial = the reference model moves at least one chunk", maxLen, len(menu))
	c.Assumptions = []string{
		"top-level chunk = maximal piece between newlines/semicolons outside (), [], {}, strings and comments (valid for the generated scripts, in which every chunk is a complete statement); verified per case against the generator's own chunk list",
		"function declaration = Go spec FunctionDecl/MethodDecl; 'func (params) {' and 'func (params) Result {' are function literals, i.e. statements",
		"the documentation is silent on package clauses, import declarations and comments: the result is accepted if it matches the model under any of 2x2x4 readings (package/import = declaration or statement; a comment goes with the next chunk, with the previous chunk, is a statement, or is a transparent chunk); such cases are counted as accepted_either_way",
		"newlines are only compared inside chunks and in the untouched prefix (newline normalisation at chunk boundaries would be accepted); all other bytes must be preserved exactly",
	}
	var kinds []string
	for _, m := range menu {
		kinds = append(kinds, m.Kind)
	}
	type pending struct {
		k     Case
		f     *engine.Failure
		flips []string
		n     int64
	}
	pend := map[string]*pending{}
	var pendOrder []string
	seenKey := map[string]bool{}
	type result struct {
		f *engine.Failure
		v verdict
	}
	process := func(k Case, r result) {
		n := len(k.Items)
		f, v := r.f, r.v
		c.Eval(1)
		if v.reordered {
			c.NontrivialN(1)
			if n == 3 {
				c.Sample(k.src())
			}
		}
		if f != nil {
			sig := f.Key + "#" + strings.Join(v.flips, "|")
			if !seenKey[sig] { // determinism is re-checked on the first case of every failure signature
				seenKey[sig] = true
				if f2 := eval(k); f2 == nil || f2.Key != f.Key {
					c.Fatal("non-deterministic evaluation for %q", k.src())
				}
			}
			if len(v.flips) > 0 {
				// several re-classifications can explain one small case; the defect key is
				// chosen after the enumeration (fewest explanations for all failing cases)
				p := pend[sig]
				if p == nil {
					p = &pending{k: k, f: f, flips: v.flips}
					pend[sig] = p
					pendOrder = append(pendOrder, sig)
				}
				p.n++
				return
			}
			c.Violate(k, f)
			c.Hist("violating_cases:"+f.Key, 1)
			return
		}
		if v.ambiguous {
			c.Hist("accepted_either_way(readings_of_package/import/comment_differ)", 1)
		} else {
			c.Hist("judged_by_single_model", 1)
		}
		if v.exOK && !v.srcOK && !v.rearrOK {
			c.Hist("not_judged:sourceex_succeeds_where_both_source_calls_fail", 1) // converse is not part of the statement
		}
		switch {
		case v.srcOK:
			c.Hist("sourceex:original_formats", 1)
		case v.rearrOK:
			c.Hist("sourceex:only_rearrangement_formats", 1)
		default:
			c.Hist("sourceex:neither_formats(clause_5_vacuous)", 1)
		}
	}
	// cases are evaluated in parallel (eval is pure) and processed strictly in enumeration order
	var batch []Case
	flush := func() {
		res := make([]result, len(batch))
		var wg sync.WaitGroup
		nw := runtime.GOMAXPROCS(0)
		if nw > 8 {
			nw = 8
		}
		for w := 0; w < nw; w++ {
			wg.Add(1)
			go func(w int) {
				defer wg.Done()
				for i := w; i < len(batch); i += nw {
					f, v := evalV(batch[i])
					res[i] = result{f, v}
				}
			}(w)
		}
		wg.Wait()
		for i, k := range batch {
			process(k, res[i])
		}
		batch = batch[:0]
	}
	for n := 0; n <= maxLen && !c.Expired(); n++ {
		idx := make([]int, n)
		for {
			for _, nl := range []bool{true, false} {
				if n == 0 && !nl {
					continue
				}
				k := Case{Items: append([]int(nil), idx...), NL: nl}
				// harness self-check: the splitter must recover the generator's chunks and kinds
				chs := split(k.src())
				gen := k.chunks()
				if len(chs) != len(gen) {
					c.Fatal("splitter self-check: %d chunks from %q, generator made %d", len(chs), k.src(), len(gen))
				}
				for i := range gen {
					if chs[i].Text != gen[i] || chs[i].Kind != menu[k.Items[i]].Kind {
						c.Fatal("splitter self-check: chunk %d of %q is %q/%s, generator made %q/%s", i, k.src(), chs[i].Text, chs[i].Kind, gen[i], menu[k.Items[i]].Kind)
					}
				}
				batch = append(batch, k)
				if len(batch) >= 8192 {
					flush()
					if c.Expired() {
						break
					}
				}
			}
			if c.Expired() {
				break
			}
			i := n - 1
			for ; i >= 0; i-- {
				idx[i]++
				if idx[i] < len(menu) {
					break
				}
				idx[i] = 0
			}
			if i < 0 {
				break
			}
		}
	}
	if !c.Expired() {
		flush()
	}
	// greedy minimum set of explanations covering all order failures: one key per defect
	for len(pendOrder) > 0 {
		score := map[string]int64{}
		for _, sig := range pendOrder {
			for _, fl := range pend[sig].flips {
				score[fl] += pend[sig].n
			}
		}
		best := ""
		for fl, sc := range score {
			if best == "" || sc > score[best] || (sc == score[best] && fl < best) {
				best = fl
			}
		}
		var rest []string
		reported := false
		for _, sig := range pendOrder { // pendOrder is simplest-first
			p := pend[sig]
			has := false
			for _, fl := range p.flips {
				has = has || fl == best
			}
			if !has {
				rest = append(rest, sig)
				continue
			}
			c.Hist("violating_cases:order:"+best, p.n)
			if !reported {
				p.f.Key = "order:" + best
				c.Violate(p.k, p.f)
				reported = true
			}
		}
		pendOrder = rest
	}
	if c.Expired() {
		c.Cap("internal deadline reached before the enumeration finished")
	}
	c.Extra["bound"] = map[string]any{"max_chunks": maxLen}
	c.Extra["menu"] = kinds
	c.Finish()
}

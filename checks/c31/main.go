// C31: TPL grammar text parses with the documented operator precedence.
//
// Mode E (bounded-exhaustive): every grammar-expression tree with at most N
// nodes over leaves {identifier, string literal, char literal} and operators
// {sequence, choice, *e, +e, ?e, e1 % e2, e1 ++ e2} is printed by our own
// printer (minimal parentheses according to the documented precedence
// unary > ++ > % > sequence > |, and two fully parenthesised forms), parsed
// by the real tpl/parser and the resulting tpl/ast tree compared with the
// tree that was printed. Then every leaf token of the minimal and the fully
// parenthesised text is deleted in turn: our own recogniser of the documented
// grammar decides whether the remaining text is still an expression (then the
// tree must again match) or lacks a factor (then the parser must report an
// error, never a rule with nil error, and never panic).
package main

import (
	"fmt"
	"strings"

	"github.com/goplus/xgo/tpl/ast"
	"github.com/goplus/xgo/tpl/parser"
	"github.com/goplus/xgo/tpl/token"
	"verif/engine"
)

// ---- grammar-expression ADT ----

// Node kinds: id str chr (leaves), seq alt (n-ary), * + ? (prefix unary), % ++ (binary).
type Node struct {
	K    string  `json:"k"`
	Name string  `json:"n,omitempty"` // leaf text as written in the grammar
	Kids []*Node `json:"c,omitempty"`
}

func (n *Node) isLeaf() bool { return n.K == "id" || n.K == "str" || n.K == "chr" }

func (n *Node) String() string {
	if n == nil {
		return "<nil>"
	}
	if n.isLeaf() {
		return n.Name
	}
	parts := make([]string, len(n.Kids))
	for i, k := range n.Kids {
		parts[i] = k.String()
	}
	return n.K + "[" + strings.Join(parts, ", ") + "]"
}

func equal(a, b *Node) bool {
	if a == nil || b == nil {
		return a == b
	}
	if a.K != b.K || a.Name != b.Name || len(a.Kids) != len(b.Kids) {
		return false
	}
	for i := range a.Kids {
		if !equal(a.Kids[i], b.Kids[i]) {
			return false
		}
	}
	return true
}

// firstDiff names the topmost place where want and got differ (kinds only), so
// that one precedence defect maps to few keys.
func firstDiff(want, got *Node) string {
	if want == nil || got == nil {
		return fmt.Sprintf("want %s got %s", kindOf(want), kindOf(got))
	}
	if want.K != got.K || len(want.Kids) != len(got.Kids) {
		return fmt.Sprintf("want %s got %s", kindOf(want), kindOf(got))
	}
	if want.Name != got.Name {
		return "leaf text/order"
	}
	for i := range want.Kids {
		if !equal(want.Kids[i], got.Kids[i]) {
			return fmt.Sprintf("in %s: %s", want.K, firstDiff(want.Kids[i], got.Kids[i]))
		}
	}
	return "equal"
}

func kindOf(n *Node) string {
	if n == nil {
		return "nil"
	}
	if n.isLeaf() {
		return "leaf"
	}
	if n.K == "seq" || n.K == "alt" {
		return fmt.Sprintf("%s/%d", n.K, len(n.Kids))
	}
	return n.K
}

// ---- documented precedence: unary > ++ > % > sequence > | ----

const (
	pAlt = iota + 1
	pSeq
	pList
	pAdj
	pUnary
	pLeaf
)

func prec(n *Node) int {
	switch n.K {
	case "alt":
		return pAlt
	case "seq":
		return pSeq
	case "%":
		return pList
	case "++":
		return pAdj
	case "*", "+", "?":
		return pUnary
	}
	return pLeaf
}

// tok is one token of the printed text. leaf is true for identifier/literal tokens.
type tok struct {
	s    string
	leaf bool
}

// printer modes
const (
	mMin      = "min"      // minimal parentheses
	mFull     = "full"     // parentheses around every composite operand
	mFullLeaf = "fullleaf" // parentheses around every operand and the whole expression
)

func emit(n *Node, mode string, out *[]tok) {
	child := func(c *Node, need int) {
		var paren bool
		switch mode {
		case mMin:
			paren = prec(c) < need
		case mFull:
			paren = !c.isLeaf()
		default:
			paren = true
		}
		if paren {
			*out = append(*out, tok{"(", false})
		}
		emit(c, mode, out)
		if paren {
			*out = append(*out, tok{")", false})
		}
	}
	switch n.K {
	case "id", "str", "chr":
		*out = append(*out, tok{n.Name, true})
	case "alt":
		for i, c := range n.Kids {
			if i > 0 {
				*out = append(*out, tok{"|", false})
			}
			child(c, pSeq) // an unparenthesised choice inside a choice would merge
		}
	case "seq":
		for _, c := range n.Kids {
			child(c, pList) // an unparenthesised sequence inside a sequence would merge
		}
	case "%": // left-associative
		child(n.Kids[0], pList)
		*out = append(*out, tok{"%", false})
		child(n.Kids[1], pAdj)
	case "++": // left-associative
		child(n.Kids[0], pAdj)
		*out = append(*out, tok{"++", false})
		child(n.Kids[1], pUnary)
	case "*", "+", "?": // prefix, operand is a factor
		*out = append(*out, tok{n.K, false})
		child(n.Kids[0], pUnary)
	}
}

func render(n *Node, mode string) []tok {
	var out []tok
	if mode == mFullLeaf {
		out = append(out, tok{"(", false})
	}
	emit(n, mode, &out)
	if mode == mFullLeaf {
		out = append(out, tok{")", false})
	}
	return out
}

func text(ts []tok) string {
	ss := make([]string, len(ts))
	for i, t := range ts {
		ss[i] = t.s
	}
	return strings.Join(ss, " ") // always blank-separated: "+ +a" must not become "++a"
}

// ---- reference recogniser of the documented grammar (works on our own tokens) ----
//
//	expr   = seq   % "|"
//	seq    = +list
//	list   = adj   % "%"      (left-associative)
//	adj    = factor % "++"    (left-associative)
//	factor = leaf | ("*"|"+"|"?") factor | "(" expr ")"
type refParser struct {
	ts  []tok
	pos int
}

type refErr struct{ msg string }

func (p *refParser) peek() string {
	if p.pos < len(p.ts) {
		return p.ts[p.pos].s
	}
	return ""
}

func (p *refParser) startsFactor() bool {
	if p.pos >= len(p.ts) {
		return false
	}
	t := p.ts[p.pos]
	return t.leaf || t.s == "*" || t.s == "+" || t.s == "?" || t.s == "("
}

func (p *refParser) factor() *Node {
	if !p.startsFactor() {
		panic(refErr{"missing factor"})
	}
	t := p.ts[p.pos]
	p.pos++
	switch {
	case t.leaf:
		return leafNode(t.s)
	case t.s == "(":
		e := p.expr()
		if p.peek() != ")" {
			panic(refErr{"missing )"})
		}
		p.pos++
		return e
	default:
		return &Node{K: t.s, Kids: []*Node{p.factor()}}
	}
}

func (p *refParser) binary(op string, sub func() *Node) *Node {
	x := sub()
	for p.peek() == op {
		p.pos++
		x = &Node{K: op, Kids: []*Node{x, sub()}}
	}
	return x
}

func (p *refParser) adj() *Node  { return p.binary("++", p.factor) }
func (p *refParser) list() *Node { return p.binary("%", p.adj) }

func (p *refParser) seq() *Node {
	items := []*Node{p.list()}
	for p.startsFactor() {
		items = append(items, p.list())
	}
	if len(items) == 1 {
		return items[0]
	}
	return &Node{K: "seq", Kids: items}
}

func (p *refParser) expr() *Node {
	opts := []*Node{p.seq()}
	for p.peek() == "|" {
		p.pos++
		opts = append(opts, p.seq())
	}
	if len(opts) == 1 {
		return opts[0]
	}
	return &Node{K: "alt", Kids: opts}
}

func refParse(ts []tok) (n *Node, ok bool) {
	defer func() {
		if e := recover(); e != nil {
			if _, is := e.(refErr); !is {
				panic(e)
			}
			n, ok = nil, false
		}
	}()
	p := &refParser{ts: ts}
	n = p.expr()
	if p.pos != len(ts) {
		return nil, false
	}
	return n, true
}

func leafNode(s string) *Node {
	switch s[0] {
	case '"':
		return &Node{K: "str", Name: s}
	case '\'':
		return &Node{K: "chr", Name: s}
	}
	return &Node{K: "id", Name: s}
}

// ---- conversion of the real tpl/ast ----

func conv(e ast.Expr) *Node {
	switch e := e.(type) {
	case nil:
		return &Node{K: "nil"}
	case *ast.Ident:
		if e == nil {
			return &Node{K: "nil"}
		}
		return &Node{K: "id", Name: e.Name}
	case *ast.BasicLit:
		switch e.Kind {
		case token.STRING:
			return &Node{K: "str", Name: e.Value}
		case token.CHAR:
			return &Node{K: "chr", Name: e.Value}
		}
		return &Node{K: "lit?" + e.Kind.String(), Name: e.Value}
	case *ast.Sequence:
		n := &Node{K: "seq"}
		for _, it := range e.Items {
			n.Kids = append(n.Kids, conv(it))
		}
		return n
	case *ast.Choice:
		n := &Node{K: "alt"}
		for _, it := range e.Options {
			n.Kids = append(n.Kids, conv(it))
		}
		return n
	case *ast.UnaryExpr:
		return &Node{K: opName(e.Op), Kids: []*Node{conv(e.X)}}
	case *ast.BinaryExpr:
		return &Node{K: opName(e.Op), Kids: []*Node{conv(e.X), conv(e.Y)}}
	}
	return &Node{K: fmt.Sprintf("unknown:%T", e)}
}

func opName(t token.Token) string {
	switch t {
	case token.MUL:
		return "*"
	case token.ADD:
		return "+"
	case token.QUESTION:
		return "?"
	case token.REM:
		return "%"
	case token.INC:
		return "++"
	}
	return "op?" + t.String()
}

// hasEmpty reports a nil operand or an empty sequence/choice anywhere in n.
func hasEmpty(n *Node) bool {
	if n == nil || n.K == "nil" {
		return true
	}
	if !n.isLeaf() && len(n.Kids) == 0 {
		return true
	}
	for _, k := range n.Kids {
		if hasEmpty(k) {
			return true
		}
	}
	return false
}

// ---- case ----

type Case struct {
	Tree *Node  `json:"tree"`
	Mode string `json:"mode"`          // min | full | fullleaf
	Del  int    `json:"del,omitempty"` // 0: parse as printed; k>0: delete the k-th leaf token first
}

type outcome struct {
	class string // ok | still-valid | missing-factor
}

func parseReal(src string) (rules []*Node, names []string, err error, fail *engine.Failure) {
	fail = engine.Guard(func() {
		fset := token.NewFileSet()
		var f *ast.File
		f, err = parser.ParseFile(fset, "g.tpl", src, nil)
		if f != nil {
			for _, d := range f.Decls {
				if r, ok := d.(*ast.Rule); ok && r != nil {
					rules = append(rules, conv(r.Expr))
					if r.Name != nil {
						names = append(names, r.Name.Name)
					} else {
						names = append(names, "<nil>")
					}
				} else {
					rules = append(rules, &Node{K: fmt.Sprintf("decl:%T", d)})
					names = append(names, "?")
				}
			}
		}
	})
	return
}

func eval(k Case) (*engine.Failure, outcome) {
	ts := render(k.Tree, k.Mode)
	want := k.Tree
	ctx, ctxDetail := "", ""
	if k.Del > 0 {
		seen, at := 0, -1
		for i, t := range ts {
			if t.leaf {
				seen++
				if seen == k.Del {
					at = i
					break
				}
			}
		}
		if at < 0 {
			return nil, outcome{"no-such-leaf"}
		}
		prev, next := "=", "EOL"
		if at > 0 {
			prev = tokClass(ts[at-1])
		}
		if at+1 < len(ts) {
			next = tokClass(ts[at+1])
		}
		// key by the grammar position that lacks its operand, detail keeps both neighbours
		switch prev {
		case "=", "(", "|":
			ctx = "empty sequence"
		case "*", "+", "?":
			ctx = "prefix operator without operand"
		case "%", "++":
			ctx = "right operand of " + prev
		default: // hole after an operand: the following operator lacks its left operand
			ctx = "left operand of " + next
		}
		ctxDetail = prev + " _ " + next
		ts = append(append([]tok(nil), ts[:at]...), ts[at+1:]...)
		var ok bool
		want, ok = refParse(ts)
		if !ok {
			want = nil
		}
	} else {
		// self-check of the harness: our recogniser must read back what our printer wrote
		back, ok := refParse(ts)
		if !ok || !equal(back, k.Tree) {
			chk.Fatal("printer/recogniser disagree on %q: %v", text(ts), back)
		}
	}
	src := "doc = " + text(ts) + "\n"
	rules, names, err, fail := parseReal(src)
	if fail != nil {
		fail.Detail = "grammar: " + src + fail.Detail
		return fail, outcome{}
	}
	if want == nil { // a factor is missing
		if err == nil {
			empty := false
			for _, r := range rules {
				empty = empty || hasEmpty(r)
			}
			return &engine.Failure{Key: "missing-factor-accepted: " + ctx,
				What:   "grammar text with a missing factor parses without error",
				Detail: fmt.Sprintf("grammar: %q (hole at: %s)\nrules: %v (empty/nil expression inside: %v)\nerr: nil", src, ctxDetail, rules, empty)}, outcome{}
		}
		return nil, outcome{"missing-factor"}
	}
	cls := "ok"
	if k.Del > 0 {
		cls = "still-valid"
	}
	if err != nil {
		return &engine.Failure{Key: "valid-expression-rejected: " + rootPair(want),
			What:   "a well-formed grammar expression is rejected",
			Detail: fmt.Sprintf("grammar: %q\nwant tree: %v\nerr: %v", src, want, err)}, outcome{}
	}
	if len(rules) != 1 || names[0] != "doc" {
		return &engine.Failure{Key: "rule-count",
			What:   "one rule written, a different set of rules returned",
			Detail: fmt.Sprintf("grammar: %q\nrules: %v names: %v", src, rules, names)}, outcome{}
	}
	if got := rules[0]; !equal(got, want) {
		return &engine.Failure{Key: "tree(" + k.Mode + "): " + firstDiff(want, got),
			What:   "parsed tree differs from the tree implied by the documented precedence",
			Detail: fmt.Sprintf("grammar: %q\nwant: %v\ngot:  %v", src, want, got)}, outcome{}
	}
	return nil, outcome{cls}
}

func tokClass(t tok) string {
	if t.leaf {
		return "leaf"
	}
	return t.s
}

func rootPair(n *Node) string {
	s := kindOf(n)
	for _, k := range n.Kids {
		if !k.isLeaf() {
			return s + " over " + kindOf(k)
		}
	}
	return s
}

// ---- enumeration ----

var leafKinds = []string{"id", "str", "chr"}
var unaryOps = []string{"*", "+", "?"}
var binaryOps = []string{"%", "++"}
var naryOps = []string{"seq", "alt"}

// shapes[n] holds every tree with exactly n nodes (leaves unlabelled). Subtrees are shared.
var shapes = map[int][]*Node{}

func build(n int) []*Node {
	if s, ok := shapes[n]; ok {
		return s
	}
	var out []*Node
	if n == 1 {
		for _, k := range leafKinds {
			out = append(out, &Node{K: k})
		}
		shapes[n] = out
		return out
	}
	for _, op := range unaryOps {
		for _, c := range build(n - 1) {
			out = append(out, &Node{K: op, Kids: []*Node{c}})
		}
	}
	for _, op := range binaryOps {
		for l := 1; l <= n-2; l++ {
			for _, a := range build(l) {
				for _, b := range build(n - 1 - l) {
					out = append(out, &Node{K: op, Kids: []*Node{a, b}})
				}
			}
		}
	}
	for _, op := range naryOps {
		for arity := 2; arity <= n-1; arity++ {
			forests(n-1, arity, nil, func(kids []*Node) {
				out = append(out, &Node{K: op, Kids: append([]*Node(nil), kids...)})
			})
		}
	}
	shapes[n] = out
	return out
}

// forests enumerates every ordered forest of `arity` trees with `total` nodes.
func forests(total, arity int, acc []*Node, yield func([]*Node)) {
	if arity == 1 {
		for _, t := range build(total) {
			yield(append(acc, t))
		}
		return
	}
	for first := 1; first <= total-(arity-1); first++ {
		for _, t := range build(first) {
			forests(total-first, arity-1, append(acc, t), yield)
		}
	}
}

// label copies a shape and names its leaves a, b, c ... in source order, so that any
// reordering of operands is visible.
func label(n *Node, next *int) *Node {
	if n.isLeaf() {
		name := string(rune('a' + *next))
		*next++
		switch n.K {
		case "str":
			name = `"` + name + `"`
		case "chr":
			name = "'" + name + "'"
		}
		return &Node{K: n.K, Name: name}
	}
	c := &Node{K: n.K, Kids: make([]*Node, len(n.Kids))}
	for i, k := range n.Kids {
		c.Kids[i] = label(k, next)
	}
	return c
}

func composites(n *Node) int {
	if n.isLeaf() {
		return 0
	}
	s := 1
	for _, k := range n.Kids {
		s += composites(k)
	}
	return s
}

var chk *engine.Check

func main() {
	c := engine.New("C31", "exploration")
	chk = c
	if c.IsReplay() {
		var k Case
		c.LoadReplay(&k)
		f, _ := eval(k)
		c.ReplayResult(f)
	}
	maxNodes := 6
	if c.Thorough() {
		maxNodes = 7
	}
	c.Rule = fmt.Sprintf("every expression tree with 1..%d nodes over 3 leaf kinds, 3 prefix operators, %% and ++, n-ary sequence and choice; each tree parsed in 3 printed forms and with every single leaf token deleted from the minimal and the fully parenthesised form; non-trivial = tree with >=2 operator nodes (a precedence or grouping decision exists)", maxNodes)
	c.Assumptions = []string{
		"tokens are separated by blanks (so '+ +a' is two prefix operators, not '++'); one rule per grammar, terminated by a newline",
		"a parenthesised sequence inside a sequence (or choice inside a choice) is a nested node: the parser has no flattening, and the printed tree always carries those parentheses",
		"% and ++ are left-associative (README: R1 % R2 and R1 ++ R2 chains as in the calculator example `operand % (\"*\"|\"/\") % (\"+\"|\"-\")`)",
	}
	trees := int64(0)
	stop := false
	run := func(k Case) {
		c.Eval(1)
		f, o := eval(k)
		if f != nil {
			f2, _ := eval(k)
			if f2 == nil || f2.Key != f.Key {
				c.Fatal("non-deterministic evaluation for %v", k.Tree)
			}
			c.Violate(k, f)
			c.Hist("violating", 1)
			return
		}
		c.Hist(o.class, 1)
	}
	for n := 1; n <= maxNodes && !stop; n++ {
		for _, shape := range build(n) {
			if c.Expired() {
				c.Cap(fmt.Sprintf("deadline reached inside size %d", n))
				stop = true
				break
			}
			idx := 0
			tree := label(shape, &idx)
			trees++
			c.Hist(fmt.Sprintf("trees_size_%d", n), 1)
			if composites(tree) >= 2 {
				c.NontrivialN(1)
				if n == 4 && trees%37 == 0 {
					c.Sample(map[string]string{"tree": tree.String(), "min": text(render(tree, mMin)), "full": text(render(tree, mFull))})
				}
			}
			for _, m := range []string{mMin, mFull, mFullLeaf} {
				run(Case{Tree: tree, Mode: m})
			}
			for _, m := range []string{mMin, mFullLeaf} {
				for d := 1; d <= idx; d++ {
					run(Case{Tree: tree, Mode: m, Del: d})
				}
			}
		}
	}
	c.Extra["bound"] = map[string]any{"max_nodes": maxNodes}
	c.Extra["trees"] = trees
	c.Finish()
}

// C20: formatter check over the shared pool (see verif/fmtx): corpus, hand seeds, enumerated grammar.
package main

import (
	"fmt"

	"verif/engine"
	"verif/fmtx"
)

func main() {
	c := engine.New("C20", "exploration")
	oracle := fmtx.Idempotent
	if c.IsReplay() {
		var k fmtx.Src
		c.LoadReplay(&k)
		f, _ := oracle(k)
		c.ReplayResult(f)
	}
	pool := fmtx.Pool(c.Thorough())
	const B = 64
	job := &engine.Job{NumBlocks: (len(pool) + B - 1) / B}
	job.RunBlock = func(w *engine.W, b int) {
		for i := b * B; i < (b+1)*B && i < len(pool); i++ {
			k := pool[i]
			if !w.Item(k) {
				continue
			}
			f, premise := oracle(k)
			if !premise {
				w.Hist("excluded_does_not_parse")
				continue
			}
			w.Nontrivial()
			if f != nil {
				if len(k.Text) > 2000 {
					k.Text = "" // corpus file: the name identifies it
				}
				w.Fail(k, f)
			}
			if i%997 == 3 {
				w.Sample(fmtx.Src{Name: k.Name, Text: clip(k.Text)})
			}
		}
	}
	job.Run(c)
	c.Rule = fmt.Sprintf("pool of %d sources: hand seeds (one per production), every statement wrapping of the expression grammar closed to depth 1 (quick) / 2 (thorough), every XGo-family file of the repository; sources that do not parse are outside the premise (excluded, counted). distinct_nontrivial = sources that parse and were formatted", len(pool))
	c.Assumptions = []string{"byte equality of the first and second formatting pass"}
	c.Finish()
}

func clip(s string) string {
	if len(s) > 200 {
		return s[:200] + "…"
	}
	return s
}

// C30: TPL result helpers fold lists left to right.
//
// Mode E (bounded-exhaustive). Three families of cases, each judged against the
// source text itself (our own blank-split tokenisation of the generated input):
//
//	list: grammars `R % sep` (flat, mixed separators, nested, RetProc'd elements)
//	      are compiled with tpl.New, every input with 1..N elements is parsed and
//	      List / ListOp / RangeOp must return / visit the R results in source order.
//	fold: BinaryOp / BinaryOpR / BinaryOpNR with a non-commutative, non-associative
//	      callback (it builds "(x op@offset y)" strings) and BinaryExpr / BinaryExprR /
//	      BinaryExprNR (tpl/ast trees rendered the same way) are compared with our own
//	      left fold, one, two and three list levels deep, recursive and not.
//	calc: the README calculator grammar (and two variants: with the parenExpr rule of
//	      demo/tpl-vcalc, and split into expr/term rules that use the non-recursive
//	      BinaryOp), driven through Go RetProcs that call the helpers, evaluates every
//	      generated arithmetic expression like our precedence-climbing evaluator.
package main

import (
	"fmt"
	"math"
	"strconv"
	"strings"

	"github.com/goplus/xgo/tpl"
	"github.com/goplus/xgo/tpl/ast"
	"github.com/goplus/xgo/tpl/token"
	"verif/engine"
)

type Case struct {
	Part    string `json:"part"`    // list | fold | calc
	Grammar string `json:"grammar"` // key of the grammar table
	Input   string `json:"input"`   // blank-separated tokens
}

// ---- our own view of the input ----

type stok struct {
	s   string
	off int
}

func split(input string) []stok {
	var out []stok
	i := 0
	for i < len(input) {
		if input[i] == ' ' {
			i++
			continue
		}
		j := i
		for j < len(input) && input[j] != ' ' {
			j++
		}
		out = append(out, stok{input[i:j], i})
		i = j
	}
	return out
}

// ---- grammars ----

type grammar struct {
	text   string
	procs  []any
	levels [][]string // separator sets, innermost list level first (list/fold parts)
	elems  []string   // element tokens (list/fold parts)
	cl     tpl.Compiler
}

func arith(op *tpl.Token, x, y any) any {
	switch op.Tok {
	case '+':
		return x.(float64) + y.(float64)
	case '-':
		return x.(float64) - y.(float64)
	case '*':
		return x.(float64) * y.(float64)
	case '/':
		return x.(float64) / y.(float64)
	}
	panic("unexpected")
}

func floatLit(self any) any {
	v, err := strconv.ParseFloat(self.(*tpl.Token).Lit, 64)
	if err != nil {
		panic(err)
	}
	return v
}

func negate(self []any) any { return -(self[1].(float64)) }
func second(self []any) any { return self[1] }

// The calculator of tpl/README.md ("Building a Calculator"), grammar text verbatim, the
// XGo actions transliterated to Go closures.
const readmeCalc = `
expr = operand % ("*" | "/") % ("+" | "-")

operand = basicLit | unaryExpr

unaryExpr = "-" operand

basicLit = INT | FLOAT
`

// The same with the parenExpr rule of demo/tpl-vcalc.
const parenCalc = `
expr = operand % ("*" | "/") % ("+" | "-")

operand = basicLit | parenExpr | unaryExpr

parenExpr = "(" expr ")"

unaryExpr = "-" operand

basicLit = INT | FLOAT
`

// One rule per precedence level, each folding its own flat list (recursive=false).
const splitCalc = `
expr = term % ("+" | "-")

term = operand % ("*" | "/")

operand = basicLit | parenExpr | unaryExpr

parenExpr = "(" expr ")"

unaryExpr = "-" operand

basicLit = INT | FLOAT
`

var grammars = map[string]*grammar{
	// list part
	"ints":   {text: `doc = INT % ","`, levels: [][]string{{","}}, elems: []string{"1", "22", "3"}},
	"mixed":  {text: `doc = (INT | IDENT) % ("," | ":")`, levels: [][]string{{",", ":"}}, elems: []string{"1", "x", "22"}},
	"nested": {text: `doc = (INT % "*") % "+"`, levels: [][]string{{"*"}, {"+"}}, elems: []string{"1", "22", "3"}},
	"items": {text: "doc = item % \",\"\nitem = INT | IDENT", levels: [][]string{{","}}, elems: []string{"1", "x", "22"},
		procs: []any{"item", func(self any) any { t := self.(*tpl.Token); return fmt.Sprintf("%s@%d", t.Lit, int(t.Pos)) }}},
	// fold part
	"fold1": {text: `doc = INT % ("+" | "-")`, levels: [][]string{{"+", "-"}}, elems: []string{"1", "22", "3"}},
	"fold2": {text: `doc = INT % ("*" | "/") % ("+" | "-")`, levels: [][]string{{"*", "/"}, {"+", "-"}}, elems: []string{"1", "22", "3"}},
	"fold3": {text: `doc = INT % "^" % ("*" | "/") % ("+" | "-")`, levels: [][]string{{"^"}, {"*", "/"}, {"+", "-"}}, elems: []string{"1", "22"}},
	"expr1": {text: "doc = lit % (\"+\" | \"-\")\nlit = INT", levels: [][]string{{"+", "-"}}, elems: []string{"1", "22", "3"},
		procs: []any{"lit", func(self any) any { return tpl.BasicLit(self) }}},
	"expr2": {text: "doc = lit % (\"*\" | \"/\") % (\"+\" | \"-\")\nlit = INT", levels: [][]string{{"*", "/"}, {"+", "-"}}, elems: []string{"1", "22", "3"},
		procs: []any{"lit", func(self any) any { return tpl.BasicLit(self) }}},
	"expr3": {text: "doc = lit % \"^\" % (\"*\" | \"/\") % (\"+\" | \"-\")\nlit = INT", levels: [][]string{{"^"}, {"*", "/"}, {"+", "-"}}, elems: []string{"1", "22"},
		procs: []any{"lit", func(self any) any { return tpl.BasicLit(self) }}},
	// calc part
	"readme": {text: readmeCalc, procs: []any{
		"expr", func(self []any) any { return tpl.BinaryOp(true, self, arith) },
		"unaryExpr", negate, "basicLit", floatLit}},
	"paren": {text: parenCalc, procs: []any{
		"expr", func(self []any) any { return tpl.BinaryOp(true, self, arith) },
		"parenExpr", second, "unaryExpr", negate, "basicLit", floatLit}},
	"split": {text: splitCalc, procs: []any{
		"expr", func(self []any) any { return tpl.BinaryOp(false, self, arith) },
		"term", func(self []any) any { return tpl.BinaryOp(false, self, arith) },
		"parenExpr", second, "unaryExpr", negate, "basicLit", floatLit}},
}

func compile(name string) *grammar {
	g := grammars[name]
	if g == nil {
		chk.Fatal("unknown grammar %q", name)
	}
	if g.cl.Doc == nil {
		var err error
		f := engine.Guard(func() { g.cl, err = tpl.New(g.text, g.procs...) })
		if f != nil {
			chk.Fatal("compiling grammar %s panics: %s", name, f.What)
		}
		if err != nil {
			chk.Fatal("compiling grammar %s: %v", name, err)
		}
	}
	return g
}

// ---- reference: nested structure of the input ----

// ref is our own parse of "e sep e sep e ..." into list levels: a leaf, or a list
// node holding operands and the separators between them.
type ref struct {
	leaf *stok
	kids []*ref
	seps []stok
}

func level(ts []stok, levels [][]string, lv int) *ref {
	if lv < 0 {
		if len(ts) != 1 {
			panic("harness: bad element run")
		}
		return &ref{leaf: &ts[0]}
	}
	in := func(s string) bool {
		for _, x := range levels[lv] {
			if x == s {
				return true
			}
		}
		return false
	}
	r := &ref{}
	start := 0
	for i := 1; i < len(ts); i += 2 {
		if in(ts[i].s) {
			r.kids = append(r.kids, level(ts[start:i], levels, lv-1))
			r.seps = append(r.seps, ts[i])
			start = i + 1
		}
	}
	r.kids = append(r.kids, level(ts[start:], levels, lv-1))
	return r
}

// foldRef is the left fold "((k0 s0 k1) s1 k2) ..." with every level folded (deep) or with
// the operands of the top level rendered as raw groups (shallow).
func foldRef(r *ref, deep bool) string {
	if r.leaf != nil {
		return leafStr(r.leaf.s, r.leaf.off)
	}
	operand := func(k *ref) string {
		if deep {
			return foldRef(k, true)
		}
		return groupRef(k)
	}
	acc := operand(r.kids[0])
	for i, s := range r.seps {
		acc = "(" + acc + " " + opStr(s.s, s.off) + " " + operand(r.kids[i+1]) + ")"
	}
	return acc
}

// groupRef renders a list without folding: "[k0 s0 k1 s1 k2]".
func groupRef(r *ref) string {
	if r.leaf != nil {
		return leafStr(r.leaf.s, r.leaf.off)
	}
	var sb strings.Builder
	sb.WriteString("[" + groupRef(r.kids[0]))
	for i, s := range r.seps {
		sb.WriteString(" " + opStr(s.s, s.off) + " " + groupRef(r.kids[i+1]))
	}
	sb.WriteString("]")
	return sb.String()
}

func leafStr(s string, off int) string { return fmt.Sprintf("%s@%d", s, off) }
func opStr(s string, off int) string   { return fmt.Sprintf("%s@%d", s, off) }

// ---- rendering of real results ----

type world struct{ base int }

func (w world) off(p token.Pos) int { return int(p) - w.base }

func (w world) tokStr(t *tpl.Token) string {
	s := t.Lit
	if s == "" {
		s = t.Tok.String()
	}
	return fmt.Sprintf("%s@%d", s, w.off(t.Pos))
}

// groupReal renders a raw match result of nested `%` lists following the structure
// documented in the README: [first, [[sep, next], [sep, next], ...]].
func (w world) groupReal(v any) string {
	switch v := v.(type) {
	case *tpl.Token:
		return w.tokStr(v)
	case string:
		return v
	case []any:
		if len(v) != 2 {
			return fmt.Sprintf("<list of %d>", len(v))
		}
		rest, ok := v[1].([]any)
		if !ok {
			return fmt.Sprintf("<second element %T>", v[1])
		}
		var sb strings.Builder
		sb.WriteString("[" + w.groupReal(v[0]))
		for _, p := range rest {
			pair, ok := p.([]any)
			if !ok || len(pair) != 2 {
				return fmt.Sprintf("<pair %v>", p)
			}
			sb.WriteString(" " + w.groupReal(pair[0]) + " " + w.groupReal(pair[1]))
		}
		sb.WriteString("]")
		return sb.String()
	}
	return fmt.Sprintf("<%T>", v)
}

func (w world) exprStr(e ast.Expr) string {
	switch e := e.(type) {
	case *ast.BasicLit:
		return fmt.Sprintf("%s@%d", e.Value, w.off(e.ValuePos))
	case *ast.BinaryExpr:
		return "(" + w.exprStr(e.X) + " " + fmt.Sprintf("%s@%d", e.Op.String(), w.off(e.OpPos)) + " " + w.exprStr(e.Y) + ")"
	}
	return fmt.Sprintf("<%T>", e)
}

// ---- evaluation ----

func fail(key, what, detail string) *engine.Failure {
	return &engine.Failure{Key: key, What: what, Detail: detail}
}

func parse(g *grammar, input string) (raw any, w world, f *engine.Failure) {
	var err error
	w.base = 1 // a fresh FileSet starts at base 1
	if f = engine.Guard(func() { raw, err = g.cl.ParseExpr(input, nil) }); f != nil {
		f.Detail = fmt.Sprintf("grammar: %s\ninput: %q\n%s", g.text, input, f.Detail)
		return
	}
	if err != nil {
		f = fail("parse-error", "a well-formed input of the list grammar is rejected", fmt.Sprintf("grammar: %s\ninput: %q\nerr: %v", g.text, input, err))
	}
	return
}

func evalList(k Case) *engine.Failure {
	g := compile(k.Grammar)
	ts := split(k.Input)
	raw, w, f := parse(g, k.Input)
	if f != nil {
		return f
	}
	r := level(ts, g.levels, len(g.levels)-1)
	in, ok := raw.([]any)
	if !ok {
		return fail("list-result-shape", "match result of R % sep is not a list", fmt.Sprintf("input %q: %T", k.Input, raw))
	}
	// want: the R results of the top-level list in source order, each rendered as a group
	var want []string
	for _, kid := range r.kids {
		want = append(want, groupRef(kid))
	}
	show := func(v any) string {
		if s, ok := v.(string); ok { // RetProc'd element "lit@pos"
			i := strings.LastIndexByte(s, '@')
			p, _ := strconv.Atoi(s[i+1:])
			return fmt.Sprintf("%s@%d", s[:i], p-w.base)
		}
		return w.groupReal(v)
	}
	var got, gotOp, visited, ranged []string
	var opRet []string
	if f := engine.Guard(func() {
		for _, v := range tpl.List(in) {
			got = append(got, show(v))
		}
		opRet = tpl.ListOp(in, func(v any) string { s := show(v); visited = append(visited, s); return s })
		gotOp = append(gotOp, opRet...)
		tpl.RangeOp(in, func(v any) { ranged = append(ranged, show(v)) })
	}); f != nil {
		f.Detail = fmt.Sprintf("grammar: %s\ninput: %q\n%s", g.text, k.Input, f.Detail)
		return f
	}
	for _, c := range []struct {
		name string
		got  []string
	}{{"List", got}, {"ListOp(result)", gotOp}, {"ListOp(visit order)", visited}, {"RangeOp(visit order)", ranged}} {
		if d := diffSeq(want, c.got); d != "" {
			return fail(c.name+": "+d, c.name+" does not yield the R results in source order",
				fmt.Sprintf("grammar: %s\ninput: %q\nwant: %v\ngot:  %v", g.text, k.Input, want, c.got))
		}
	}
	// nested lists: every inner list flattens in order too
	if len(g.levels) > 1 {
		for i, v := range tpl.List(in) {
			inner, ok := v.([]any)
			if !ok {
				return fail("nested-result-shape", "inner list result is not a list", fmt.Sprintf("input %q: %T", k.Input, v))
			}
			var wantIn, gotIn []string
			for _, kid := range r.kids[i].kids {
				wantIn = append(wantIn, groupRef(kid))
			}
			if f := engine.Guard(func() {
				for _, x := range tpl.List(inner) {
					gotIn = append(gotIn, show(x))
				}
			}); f != nil {
				return f
			}
			if d := diffSeq(wantIn, gotIn); d != "" {
				return fail("List(inner): "+d, "List on an inner list does not yield the R results in source order",
					fmt.Sprintf("grammar: %s\ninput: %q group %d\nwant: %v\ngot:  %v", g.text, k.Input, i, wantIn, gotIn))
			}
		}
	}
	return nil
}

// diffSeq classifies the difference between two sequences (the class goes into the key).
func diffSeq(want, got []string) string {
	if len(want) != len(got) {
		return fmt.Sprintf("length off by %+d", len(got)-len(want))
	}
	same := true
	for i := range want {
		if want[i] != got[i] {
			same = false
		}
	}
	if same {
		return ""
	}
	perm := map[string]int{}
	for _, s := range want {
		perm[s]++
	}
	for _, s := range got {
		perm[s]--
	}
	for _, n := range perm {
		if n != 0 {
			return "wrong elements"
		}
	}
	return "order"
}

func evalFold(k Case) *engine.Failure {
	g := compile(k.Grammar)
	ts := split(k.Input)
	raw, w, f := parse(g, k.Input)
	if f != nil {
		return f
	}
	r := level(ts, g.levels, len(g.levels)-1)
	in, ok := raw.([]any)
	if !ok {
		return fail("list-result-shape", "match result of R % sep is not a list", fmt.Sprintf("input %q: %T", k.Input, raw))
	}
	deep, shallow := foldRef(r, true), foldRef(r, false)
	calls := 0
	cb := func(op *tpl.Token, x, y any) any {
		calls++
		return "(" + w.groupReal(x) + " " + w.tokStr(op) + " " + w.groupReal(y) + ")"
	}
	type variant struct {
		name string
		want string
		run  func() string
	}
	str := func(v any) string { return w.groupReal(v) }
	var vs []variant
	if strings.HasPrefix(k.Grammar, "fold") {
		vs = []variant{
			{"BinaryOp(true)", deep, func() string { return str(tpl.BinaryOp(true, in, cb)) }},
			{"BinaryOpR", deep, func() string { return str(tpl.BinaryOpR(in, cb)) }},
			{"BinaryOp(false)", shallow, func() string { return str(tpl.BinaryOp(false, in, cb)) }},
			{"BinaryOpNR", shallow, func() string { return str(tpl.BinaryOpNR(in, cb)) }},
		}
	} else { // exprN: operands are tpl/ast expressions
		vs = []variant{
			{"BinaryExpr(true)", deep, func() string { return w.exprStr(tpl.BinaryExpr(true, in)) }},
			{"BinaryExprR", deep, func() string { return w.exprStr(tpl.BinaryExprR(in)) }},
		}
		if len(g.levels) == 1 { // the non-recursive form is only defined on a flat list of expressions
			vs = append(vs,
				variant{"BinaryExpr(false)", deep, func() string { return w.exprStr(tpl.BinaryExpr(false, in)) }},
				variant{"BinaryExprNR", deep, func() string { return w.exprStr(tpl.BinaryExprNR(in)) }})
		}
	}
	for _, v := range vs {
		var got string
		if f := engine.Guard(func() { got = v.run() }); f != nil {
			f.Key = v.name + ": " + f.Key
			f.Detail = fmt.Sprintf("grammar: %s\ninput: %q\n%s", g.text, k.Input, f.Detail)
			return f
		}
		if got != v.want {
			return fail(v.name+": "+foldClass(v.want, got), v.name+" does not combine the operands left-associatively with the separators in order",
				fmt.Sprintf("grammar: %s\ninput: %q\nwant: %s\ngot:  %s", g.text, k.Input, v.want, got))
		}
	}
	return nil
}

// foldClass gives a coarse, input-independent class of a wrong fold.
func foldClass(want, got string) string {
	strip := func(s string) string {
		return strings.Map(func(r rune) rune {
			if r == '(' || r == ')' || r == '[' || r == ']' {
				return -1
			}
			return r
		}, s)
	}
	if strip(want) == strip(got) {
		return "grouping"
	}
	if len(strings.Fields(strip(want))) != len(strings.Fields(strip(got))) {
		return "operand count"
	}
	return "operand/separator order"
}

// ---- calculator reference: precedence climbing over our own tokens ----

type calcRef struct {
	ts      []stok
	pos     int
	divZero bool
}

func (p *calcRef) peek() string {
	if p.pos < len(p.ts) {
		return p.ts[p.pos].s
	}
	return ""
}

func binPrec(op string) int {
	switch op {
	case "+", "-":
		return 1
	case "*", "/":
		return 2
	}
	return 0
}

func (p *calcRef) unary() float64 {
	t := p.peek()
	p.pos++
	switch t {
	case "-":
		return -p.unary()
	case "(":
		v := p.expr(1)
		if p.peek() != ")" {
			panic("harness: missing )")
		}
		p.pos++
		return v
	}
	v, err := strconv.ParseFloat(t, 64)
	if err != nil {
		panic("harness: operand " + t)
	}
	return v
}

func (p *calcRef) expr(minPrec int) float64 {
	lhs := p.unary()
	for {
		op := p.peek()
		pr := binPrec(op)
		if pr == 0 || pr < minPrec {
			return lhs
		}
		p.pos++
		rhs := p.expr(pr + 1) // left-associative
		switch op {
		case "+":
			lhs += rhs
		case "-":
			lhs -= rhs
		case "*":
			lhs *= rhs
		case "/":
			if rhs == 0 {
				p.divZero = true
			}
			lhs /= rhs
		}
	}
}

func evalCalc(k Case) (f *engine.Failure, excluded bool) {
	g := compile(k.Grammar)
	p := &calcRef{ts: split(k.Input)}
	want := p.expr(1)
	if p.pos != len(p.ts) {
		chk.Fatal("reference evaluator did not consume %q", k.Input)
	}
	if p.divZero {
		return nil, true // the statement says nothing about division by zero
	}
	var raw any
	var err error
	if f := engine.Guard(func() { raw, err = g.cl.ParseExpr(k.Input, nil) }); f != nil {
		f.Detail = fmt.Sprintf("calculator %s\ninput: %q\n%s", k.Grammar, k.Input, f.Detail)
		return f, false
	}
	if err != nil {
		return fail("calc("+k.Grammar+"): error", "calculator rejects a well-formed expression",
			fmt.Sprintf("input: %q\nerr: %v\nwant: %v", k.Input, err, want)), false
	}
	got, ok := raw.(float64)
	if !ok {
		return fail("calc("+k.Grammar+"): result type", "calculator result is not a number",
			fmt.Sprintf("input: %q\nresult: %T %v\nwant: %v", k.Input, raw, raw, want)), false
	}
	if got != want && !(math.IsNaN(got) && math.IsNaN(want)) {
		return fail("calc("+k.Grammar+"): value", "calculator value differs from the precedence-climbing evaluator",
			fmt.Sprintf("input: %q\ngot:  %v\nwant: %v", k.Input, got, want)), false
	}
	return nil, false
}

func eval(k Case) (*engine.Failure, bool) {
	switch k.Part {
	case "list":
		return evalList(k), false
	case "fold":
		return evalFold(k), false
	case "calc":
		return evalCalc(k)
	}
	chk.Fatal("unknown part %q", k.Part)
	return nil, false
}

// ---- enumeration ----

// sequences yields every "e s e s ... e" with n elements over elems and seps.
func sequences(n int, elems, seps []string, yield func(string)) {
	parts := make([]string, 2*n-1)
	var rec func(i int)
	rec = func(i int) {
		if i == len(parts) {
			yield(strings.Join(parts, " "))
			return
		}
		set := elems
		if i%2 == 1 {
			set = seps
		}
		for _, s := range set {
			parts[i] = s
			rec(i + 1)
		}
	}
	rec(0)
}

// calcInputs yields every expression with n operands over values, optional unary minus on
// each operand, every operator string, and no parentheses or one parenthesised operand
// range i..j (optionally negated). withParens=false yields only the unparenthesised ones.
func calcInputs(n int, withParens bool, yield func(string)) {
	values := []string{"1", "2", "4"}
	ops := []string{"+", "-", "*", "/"}
	type group struct {
		i, j int
		neg  bool
	}
	groups := []group{{-1, -1, false}}
	if withParens {
		for i := 0; i < n; i++ {
			for j := i; j < n; j++ {
				groups = append(groups, group{i, j, false}, group{i, j, true})
			}
		}
	}
	val := make([]int, n)
	neg := make([]bool, n)
	op := make([]int, n-1+1)
	var recOp, recVal func(i int)
	emit := func() {
		for _, g := range groups {
			var sb []string
			for i := 0; i < n; i++ {
				if i > 0 {
					sb = append(sb, ops[op[i-1]])
				}
				if i == g.i {
					if g.neg {
						sb = append(sb, "-")
					}
					sb = append(sb, "(")
				}
				if neg[i] {
					sb = append(sb, "-")
				}
				sb = append(sb, values[val[i]])
				if i == g.j {
					sb = append(sb, ")")
				}
			}
			yield(strings.Join(sb, " "))
		}
	}
	recOp = func(i int) {
		if i == n-1 {
			emit()
			return
		}
		for o := range ops {
			op[i] = o
			recOp(i + 1)
		}
	}
	recVal = func(i int) {
		if i == n {
			recOp(0)
			return
		}
		for v := range values {
			for _, ng := range []bool{false, true} {
				val[i], neg[i] = v, ng
				recVal(i + 1)
			}
		}
	}
	recVal(0)
}

var chk *engine.Check

func main() {
	c := engine.New("C30", "exploration")
	chk = c
	tpl.ShowConflict(false)
	if c.IsReplay() {
		var k Case
		c.LoadReplay(&k)
		f, _ := eval(k)
		c.ReplayResult(f)
	}
	maxElems, maxOperands := 4, 3
	if c.Thorough() {
		maxElems, maxOperands = 5, 4
	}
	c.Rule = fmt.Sprintf("list/fold: every input with 1..%d elements over the grammar's element tokens and every separator choice, for 4 list grammars and 6 fold grammars (1-3 list levels); calc: every expression with 1..%d operands over {1,2,4} x optional unary minus x {+,-,*,/} x (no parentheses | one parenthesised operand range, optionally negated) through 3 calculator grammars; non-trivial = list with >=2 elements, fold/calc with >=2 binary operators (grouping is observable)", maxElems, maxOperands)
	c.Assumptions = []string{
		"inputs are blank-separated, so '- -1' is never scanned as '--'",
		"the calculator actions use float64 exactly as in tpl/README.md; expressions in which the reference meets a zero divisor are excluded and counted (statement silent)",
		"recursive=false hands the callback the raw inner results (not folded); BinaryExprNR is only exercised on a flat list of expressions",
		"README calculator has no parenthesis rule: it receives the unparenthesised expressions only; parentheses use the parenExpr rule of demo/tpl-vcalc",
	}
	stop := false
	run := func(k Case, nontrivial bool) {
		if stop {
			return
		}
		c.Eval(1)
		if nontrivial {
			c.NontrivialN(1)
		}
		f, excluded := eval(k)
		if excluded {
			c.Hist("excluded_division_by_zero", 1)
			return
		}
		if f != nil {
			f2, _ := eval(k)
			if f2 == nil || f2.Key != f.Key {
				c.Fatal("non-deterministic evaluation for %+v", k)
			}
			c.Violate(k, f)
			c.Hist(k.Part+"_violating", 1)
			return
		}
		c.Hist(k.Part+"_ok", 1)
	}
	nSample := 0
	for n := 1; n <= maxElems; n++ {
		for _, part := range []struct {
			part  string
			names []string
		}{{"list", []string{"ints", "mixed", "nested", "items"}}, {"fold", []string{"fold1", "fold2", "fold3", "expr1", "expr2", "expr3"}}} {
			for _, name := range part.names {
				g := compile(name)
				var seps []string
				for _, l := range g.levels {
					seps = append(seps, l...)
				}
				sequences(n, g.elems, seps, func(in string) {
					k := Case{part.part, name, in}
					nt := n >= 2
					if part.part == "fold" {
						nt = n >= 3
					}
					run(k, nt)
					if n == 3 && nSample%97 == 0 {
						c.Sample(k)
					}
					nSample++
				})
				if c.Expired() && !stop {
					c.Cap("deadline reached in list/fold part")
					stop = true
				}
			}
		}
	}
	for n := 1; n <= maxOperands; n++ {
		for _, name := range []string{"readme", "paren", "split"} {
			compile(name)
			cnt := 0
			calcInputs(n, name != "readme", func(in string) {
				cnt++
				if cnt&0xfff == 0 && !stop && c.Expired() {
					c.Cap("deadline reached in calc part")
					stop = true
				}
				k := Case{"calc", name, in}
				run(k, n >= 3)
				if n == 3 && cnt%4099 == 0 {
					c.Sample(k)
				}
			})
		}
	}
	c.Extra["bound"] = map[string]any{"max_list_elements": maxElems, "max_calc_operands": maxOperands}
	c.Finish()
}

// C04: a range expression start:end:step denotes the same integer sequence in every context.
// Mode E: the complete grid start,end in [-3..3], step in {-3,-2,-1,1,2,3,omitted}, start omitted,
// in seven syntactic contexts, with literal operands and with variable operands; expected sequences
// come from the reference rangeref (the mathematical sequence), computed by the harness.
package main

import (
	"fmt"
	"strings"

	"verif/engine"
	"verif/progs"
)

// rangeref: the sequence denoted by start:end:step.
func rangeref(start, end, step int) []int {
	var out []int
	if step > 0 {
		for i := start; i < end; i += step {
			out = append(out, i)
		}
	} else {
		for i := start; i > end; i += step {
			out = append(out, i)
		}
	}
	return out
}

type ctxt struct {
	name string
	// render the loop printing every element (as "i," on one line) for range expression r
	render func(r string) string
	filter func([]int) []int
}

var contexts = []ctxt{
	{"for-arrow", func(r string) string {
		return "for i <- " + r + " {\n\tfmt.Print(i, \",\")\n\tif guard++; guard > 12 {\n\t\tfmt.Print(\"...\")\n\t\tbreak\n\t}\n}"
	}, nil},
	{"for-in", func(r string) string {
		return "for i in " + r + " {\n\tfmt.Print(i, \",\")\n\tif guard++; guard > 12 {\n\t\tfmt.Print(\"...\")\n\t\tbreak\n\t}\n}"
	}, nil},
	{"for-range-define", func(r string) string {
		return "for i := range " + r + " {\n\tfmt.Print(i, \",\")\n\tif guard++; guard > 12 {\n\t\tfmt.Print(\"...\")\n\t\tbreak\n\t}\n}"
	}, nil},
	{"for-range-assign", func(r string) string {
		return "var j int\nfor j = range " + r + " {\n\tfmt.Print(j, \",\")\n\tif guard++; guard > 12 {\n\t\tfmt.Print(\"...\")\n\t\tbreak\n\t}\n}"
	}, nil},
	{"for-arrow-if", func(r string) string {
		return "for i <- " + r + " if even(i) {\n\tfmt.Print(i, \",\")\n\tif guard++; guard > 12 {\n\t\tfmt.Print(\"...\")\n\t\tbreak\n\t}\n}"
	}, func(s []int) []int {
		var o []int
		for _, v := range s {
			if v%2 == 0 {
				o = append(o, v)
			}
		}
		return o
	}},
	{"list-comprehension", func(r string) string {
		return "for _, i := range [i for i <- " + r + "] {\n\tfmt.Print(i, \",\")\n\tif guard++; guard > 12 {\n\t\tfmt.Print(\"...\")\n\t\tbreak\n\t}\n}"
	}, nil},
	{"comprehension-if", func(r string) string {
		return "for _, i := range [i for i <- " + r + " if even(i)] {\n\tfmt.Print(i, \",\")\n\tif guard++; guard > 12 {\n\t\tfmt.Print(\"...\")\n\t\tbreak\n\t}\n}"
	}, func(s []int) []int {
		var o []int
		for _, v := range s {
			if v%2 == 0 {
				o = append(o, v)
			}
		}
		return o
	}},
}

const omitted = 99

func rexpr(start, end, step int, lit func(int) string) string {
	s := ""
	if start != omitted {
		s = lit(start)
	}
	s += ":" + lit(end)
	if step != omitted {
		s += ":" + lit(step)
	}
	return s
}

func want(seq []int) string {
	var sb strings.Builder
	for _, v := range seq {
		fmt.Fprintf(&sb, "%d,", v)
	}
	return sb.String() + "\n"
}

type Case struct {
	Context string `json:"context"`
	Form    string `json:"form"` // literal | variable | call | mix:xyz (start/end/step each l, v or s = stateful call)
	Start   int    `json:"start"`
	End     int    `json:"end"`
	Step    int    `json:"step"`
	// Nest: where the loop stands: "" directly in the unit function; "closure" in a function literal called at
	// once; "overload-lambda" in a lambda passed to an overloaded function whose SECOND candidate matches
	// (the compiler then compiles the lambda body once per candidate it tries)
	Nest string `json:"nest,omitempty"`
}

// prelude: an overloaded function taking a callback, for the overload-lambda nesting.
const prelude = `func onInt(n int, f func(int)) {
	f(n)
}

func onStr(s string, f func(string)) {
	f(s)
}

func on = (
	onInt
	onStr
)
`

var opts = progs.Options{PerProgram: 400, Prelude: prelude}

func unitFor(k Case) progs.Unit {
	var c ctxt
	for _, x := range contexts {
		if x.name == k.Context {
			c = x
		}
	}
	st, sp := k.Start, k.Step
	if st == omitted {
		st = 0
	}
	if sp == omitted {
		sp = 1
	}
	seq := rangeref(st, k.End, sp)
	if c.filter != nil {
		seq = c.filter(seq)
	}
	var body string
	if k.Form == "literal" {
		body = c.render(rexpr(k.Start, k.End, k.Step, func(v int) string { return fmt.Sprint(v) }))
	} else {
		names := map[int]string{}
		decl := ""
		lit := func(v int) string { return names[v] }
		for i, v := range []int{k.Start, k.End, k.Step} {
			if v != omitted {
				n := []string{"a", "b", "c"}[i]
				names[v] = n
			}
		}
		// distinct variables even for equal values
		vs := []struct {
			n string
			v int
		}{{"a", k.Start}, {"b", k.End}, {"c", k.Step}}
		w := func(n string) string { return n }
		if k.Form == "call" { // computed operands: the lowering keeps them in _gop_end / _gop_step
			decl = "id := func(v int) int { return v }\n"
			w = func(n string) string { return "id(" + n + ")" }
		}
		if strings.HasPrefix(k.Form, "mix:") {
			// each operand independently a literal (l), a variable (v) or a call whose value changes from its
			// second evaluation on (s): a range expression denotes ONE sequence, so every operand is evaluated
			// once; a lowering that re-evaluates the end or the step per iteration walks a different sequence.
			decl = "seen := map[string]int{}\nid := func(name string, v int) int {\n\tseen[name]++\n\tif seen[name] > 1 {\n\t\treturn v + 1\n\t}\n\treturn v\n}\n_ = id\n"
			kinds := k.Form[4:]
			vals := map[string]int{"a": k.Start, "b": k.End, "c": k.Step}
			w = func(n string) string {
				switch kinds[strings.Index("abc", n)] {
				case 'l':
					return fmt.Sprint(vals[n])
				case 's':
					return "id(\"" + n + "\", " + n + ")"
				}
				return n
			}
		}
		r := ""
		if k.Start != omitted {
			r = w("a")
		}
		r += ":" + w("b")
		if k.Step != omitted {
			r += ":" + w("c")
		}
		for _, x := range vs {
			if x.v != omitted {
				decl += fmt.Sprintf("%s := %d\n_ = %s\n", x.n, x.v, x.n)
			}
		}
		_ = lit
		body = decl + c.render(r)
	}
	switch k.Nest {
	case "closure":
		body = "func() {\n" + body + "\n}()"
	case "overload-lambda":
		body = "on \"s\", s => {\n_ = s\n" + body + "\n}"
	}
	body = "guard, calls := 0, 0\neven := func(i int) bool {\n\tif calls++; calls > 40 {\n\t\tpanic(\"runaway loop\")\n\t}\n\treturn i%2 == 0\n}\n_ = even\n" + body + "\nfmt.Println()"
	return progs.Unit{Key: k.Context + "/" + k.Form, XGo: body, Want: want(seq)}
}

func stepClass(k Case) string {
	switch {
	case k.Step == omitted:
		return "step-omitted"
	case k.Step < 0:
		return "negative-step"
	}
	return "positive-step"
}

// formKey: the part of a violation key that names the operand form. For mixed forms only the kind of the
// step operand is kept (the recorded defect, a run-time negative step, depends on nothing else), so one
// defect does not spread over 25 keys while a defect in another step class or context stays visible.
func formKey(k Case) string {
	f := k.Form
	if strings.HasPrefix(k.Form, "mix:") {
		f = "mix/step=" + k.Form[6:7]
	}
	if k.Nest != "" {
		f += "@" + k.Nest
	}
	return f
}

func judge(k Case, r progs.UnitResult) *engine.Failure {
	det := fmt.Sprintf("case=%+v\nsource:\n%s\nwant=%q got=%q", k, unitFor(k).XGo, r.RefOut, r.Out)
	switch {
	case r.CompileErr != "":
		return &engine.Failure{Key: "does-not-compile:" + k.Context + "/" + formKey(k) + "/" + stepClass(k), What: "a range expression in this context is rejected by the compiler", Detail: r.CompileErr + "\n" + det}
	case r.BuildErr != "":
		return &engine.Failure{Key: "generated-go-does-not-build:" + k.Context + "/" + formKey(k), What: "the generated Go does not build", Detail: r.BuildErr + "\n" + det}
	case r.Out != r.RefOut:
		return &engine.Failure{Key: "wrong-sequence:" + k.Context + "/" + formKey(k) + "/" + stepClass(k), What: "the range expression enumerates a different sequence than start:end:step denotes", Detail: det}
	}
	return nil
}

func main() {
	c := engine.New("C04", "exploration")
	if c.IsReplay() {
		var k Case
		c.LoadReplay(&k)
		res, err := progs.RunUnits([]progs.Unit{unitFor(k)}, opts)
		if err != nil {
			c.Fatal("%v", err)
		}
		c.ReplayResult(judge(k, res[0]))
	}
	vals := []int{-3, -2, -1, 0, 1, 2, 3}
	steps := []int{-3, -2, -1, 1, 2, 3, omitted}
	var cases []Case
	for _, cx := range contexts {
		for _, form := range []string{"literal", "variable", "call"} {
			for _, st := range append([]int{omitted}, vals...) {
				for _, en := range vals {
					for _, sp := range steps {
						if c.Thorough() || (st == omitted || st%2 != 0 || st == 0) && en != 2 && en != -2 {
							cases = append(cases, Case{Context: cx.name, Form: form, Start: st, End: en, Step: sp})
						}
					}
				}
			}
		}
		// the loop nested in a function literal and in a lambda argument of an overloaded function
		if !strings.Contains(cx.name, "comprehension") {
			for _, nest := range []string{"closure", "overload-lambda"} {
				for _, st := range []int{omitted, 0, 3} {
					for _, en := range []int{-3, 0, 3} {
						for _, sp := range []int{-2, -1, 2, omitted} {
							cases = append(cases, Case{Context: cx.name, Form: "literal", Start: st, End: en, Step: sp, Nest: nest})
						}
					}
				}
			}
		}
		// mixed operand kinds on a smaller value grid: every combination of literal / variable / stateful call
		for _, x := range "lvs" {
			for _, y := range "lvs" {
				for _, z := range "lvs" {
					form := "mix:" + string(x) + string(y) + string(z)
					if form == "mix:lll" || form == "mix:vvv" {
						continue
					}
					for _, st := range []int{omitted, 0, 2} {
						for _, en := range []int{-5, 7} { // long enough for a changed step or end to show
							for _, sp := range []int{-2, 1, 2, omitted} {
								if !c.Thorough() && (st == 2 || sp == 1) {
									continue
								}
								cases = append(cases, Case{Context: cx.name, Form: form, Start: st, End: en, Step: sp})
							}
						}
					}
				}
			}
		}
	}
	units := make([]progs.Unit, len(cases))
	for i, k := range cases {
		units[i] = unitFor(k)
	}
	res, err := progs.RunUnits(units, opts)
	if err != nil {
		c.Fatal("%v", err)
	}
	notRun := 0
	for i, k := range cases {
		c.Eval(1)
		if len(rangeref(func() int {
			if k.Start == omitted {
				return 0
			}
			return k.Start
		}(), k.End, func() int {
			if k.Step == omitted {
				return 1
			}
			return k.Step
		}())) > 0 {
			c.NontrivialN(1)
		}
		c.Hist(k.Context, 1)
		if i%997 == 0 {
			c.Sample(map[string]any{"case": k, "source": units[i].XGo, "want": units[i].Want})
		}
		if !res[i].Ran && res[i].CompileErr == "" && res[i].BuildErr == "" {
			// queued behind a unit that never ended; not judged
			c.Hist("not_run_after_abnormal_end_of_an_earlier_unit", 1)
			notRun++
			continue
		}
		if f := judge(k, res[i]); f != nil {
			c.Violate(k, f)
		}
	}
	if notRun > 0 {
		c.Cap(fmt.Sprintf("%d cases were queued behind a non-terminating unit and were not run", notRun))
	}
	c.Rule = fmt.Sprintf("complete grid start in {omitted,-3..3} x end in -3..3 x step in {-3,-2,-1,1,2,3,omitted} x %d contexts (for <-, for in, for := range, for = range, for <- if, list comprehension, comprehension with if) x {literal operands, variable operands, computed (call) operands}, plus, for literal operands on a sub-grid, the loop nested in a function literal and in a lambda passed to an overloaded function (second candidate), plus on a smaller value grid every mixture of literal / variable / stateful-call operands (a stateful call returns another value from its second evaluation on); quick thins start/end values; distinct_nontrivial = cases whose sequence is non-empty", len(contexts))
	c.Assumptions = []string{"rangeref: step>0 counts up while i<end, step<0 counts down while i>end; omitted start = 0, omitted step = 1", "programs are compiled in-process by parser+cl+gogen, built by the Go toolchain in a scratch module (go 1.23) and run with GOMAXPROCS=1"}
	c.Finish()
}

// C40: watch mode never loses or duplicates a changed directory.
// Mode S: every schedule (bounded preemptions, every Cond.Signal choice) of producers calling
// FileChanged and consumers calling Fetch on the real x/watcher.Changes compiled against
// engine/vrt; each execution's call/return history is checked for linearizability against a
// set model with porcupine, and for liveness (no fetcher asleep while a change is pending).
package main

import (
	"fmt"
	"reflect"
	"sort"
	"strings"

	"github.com/anishathalye/porcupine"
	"github.com/goplus/xgo/x/watcher"
	"verif/engine"
	"verif/engine/smode"
	"verif/engine/vrt"
)

type opIn struct {
	Add bool
	Dir string
}

type hop struct {
	who       string
	in        opIn
	out       string
	call, ret int64
	done      bool
}

var (
	hist    []*hop
	clock   int64
	changes *watcher.Changes
)

func tick() int64 { vrt.Event("clock", "hist", 0); clock++; return clock }

func report(who, name string) {
	dir := name[:strings.LastIndex(name, "/")]
	h := &hop{who: who, in: opIn{Add: true, Dir: dir}, call: tick()}
	hist = append(hist, h)
	changes.FileChanged(name)
	h.ret, h.done = tick(), true
}

func fetch(who string) {
	h := &hop{who: who, call: tick()}
	hist = append(hist, h)
	d := changes.Fetch(false)
	h.out, h.ret, h.done = d, tick(), true
}

// setmodel: state = sorted, comma-joined set of pending directories.
var setModel = porcupine.Model{
	Init: func() interface{} { return "" },
	Step: func(state, input, output interface{}) (bool, interface{}) {
		set := map[string]bool{}
		for _, d := range strings.Split(state.(string), ",") {
			if d != "" {
				set[d] = true
			}
		}
		in := input.(opIn)
		if in.Add {
			set[in.Dir] = true
		} else {
			d := output.(string)
			if !set[d] {
				return false, state
			}
			delete(set, d)
		}
		var ds []string
		for d := range set {
			ds = append(ds, d)
		}
		sort.Strings(ds)
		return true, strings.Join(ds, ",")
	},
	Equal: func(a, b interface{}) bool { return a.(string) == b.(string) },
}

func pendingReal() int {
	v := reflect.ValueOf(changes).Elem().FieldByName("changed")
	return v.Len()
}

type script struct {
	producers [][]string // file names reported by each producer thread
	fetchers  []int      // number of Fetch calls of each consumer thread
}

func scenario(name string, sc script) *vrt.Scenario {
	return &vrt.Scenario{
		Name:  name,
		Reset: func() { hist, clock, changes = nil, 0, nil },
		Body: func() {
			changes = watcher.NewChanges("/root-of-watch")
			for i, files := range sc.producers {
				files := files
				who := fmt.Sprint("P", i+1)
				vrt.Go(who, func() {
					for _, f := range files {
						report(who, f)
					}
				})
			}
			for i, n := range sc.fetchers {
				n := n
				who := fmt.Sprint("F", i+1)
				vrt.Go(who, func() {
					for k := 0; k < n; k++ {
						fetch(who)
					}
				})
			}
		},
		Daemon: func(n string) bool { return strings.HasPrefix(n, "F") }, // a fetcher may wait forever when nothing is pending
		Observe: func() string {
			var sb strings.Builder
			for _, h := range hist {
				if h.in.Add {
					fmt.Fprintf(&sb, "%s+%s@%d-%d;", h.who, h.in.Dir, h.call, h.ret)
				} else {
					fmt.Fprintf(&sb, "%s=%s@%d-%d;", h.who, h.out, h.call, h.ret)
				}
			}
			return sb.String()
		},
		Check: func(s *vrt.Sched) *vrt.Verdict {
			var ops []porcupine.Operation
			for i, h := range hist {
				if !h.done {
					continue // a fetch that never returned has no effect
				}
				var out interface{}
				if !h.in.Add {
					out = h.out
				}
				ops = append(ops, porcupine.Operation{ClientId: i, Input: h.in, Call: h.call, Output: out, Return: h.ret})
			}
			if !porcupine.CheckOperations(setModel, ops) {
				return &vrt.Verdict{Key: "history-not-linearizable", What: "the history of FileChanged/Fetch calls is not explained by a set of pending directories (lost, duplicated or unreported directory)", Detail: describe()}
			}
			// liveness: at quiescence no fetcher may sleep while a change is pending
			for _, st := range s.Stuck {
				if strings.HasPrefix(st, "F") && pendingReal() > 0 {
					return &vrt.Verdict{Key: "fetcher-asleep-with-pending-change", What: "a Fetch is still waiting although a changed directory is pending", Detail: fmt.Sprintf("stuck=%v pending=%d %s", s.Stuck, pendingReal(), describe())}
				}
				if !strings.HasPrefix(st, "F") {
					return &vrt.Verdict{Key: "producer-stuck", What: "a FileChanged call never returned", Detail: fmt.Sprint(s.Stuck)}
				}
			}
			return nil
		},
	}
}

func describe() string {
	var sb strings.Builder
	for _, h := range hist {
		if h.in.Add {
			fmt.Fprintf(&sb, "%s FileChanged(%s) [%d,%d] ", h.who, h.in.Dir, h.call, h.ret)
		} else if h.done {
			fmt.Fprintf(&sb, "%s Fetch()=%s [%d,%d] ", h.who, h.out, h.call, h.ret)
		} else {
			fmt.Fprintf(&sb, "%s Fetch() pending since %d ", h.who, h.call)
		}
	}
	return sb.String()
}

func main() {
	c := engine.New("C40", "model_checking")
	scs := []*vrt.Scenario{
		scenario("2prod(1,2)+2fetch(1,1)", script{[][]string{{"d1/f"}, {"d2/f", "d1/g"}}, []int{1, 1}}),
		scenario("2prod(1,2)+2fetch(2,1)", script{[][]string{{"d1/f"}, {"d2/f", "d1/g"}}, []int{2, 1}}),
		scenario("3prod-same-dir+2fetch", script{[][]string{{"d1/a"}, {"d1/b"}, {"d1/c"}}, []int{1, 1}}),
		scenario("1prod(3 dirs)+3fetch", script{[][]string{{"d1/a", "d2/a", "d3/a"}}, []int{1, 1, 1}}),
	}
	smode.Main(c, scs, 1, 3,
		"Scenarios on the real x/watcher.Changes (rewritten onto vrt): 1-3 producer threads calling FileChanged on colliding and distinct directories, 2-3 consumer threads calling Fetch once or twice.",
		[]string{"oracle: porcupine linearizability of the call/return history against setmodel (FileChanged adds its directory, Fetch returns and removes a pending one) = returned by a later fetch, at most once per report, never unreported; liveness: at quiescence no fetcher sleeps while the real `changed` map is non-empty"})
}

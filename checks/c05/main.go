// C05: a string literal with ${expr} parts and $$ escapes equals the explicit concatenation.
// Mode E: all literals that are sequences of at most 2 (quick) / 3 (thorough) pieces from a fixed
// piece table (texts, escapes, $$, ${e} over int/string/float/error/traced call expressions), in
// "..." form and - without the escape pieces - in raw `...` form.  Reference = strlitref: the
// piece list is turned into an explicit Go concatenation (strconv.Itoa, strconv.FormatFloat(f,
// 'g', -1, 64), the string itself, err.Error(), $$ -> "$") that runs as the reference program;
// the harness computes the same value itself (both must agree).  A violation is keyed by the
// smallest failing shape (form + piece kinds); larger failing literals containing it are filed under it.
package main

import (
	"fmt"
	"os"
	"regexp"
	"strconv"
	"strings"
	"time"

	"verif/engine"
	"verif/models/gocheck"
	"verif/progs"
)

// piece of a literal.  src/raw: spelling inside "..." / `...` ("" = not available in that form);
// val: the text it denotes (for expressions: the string form of its value, values fixed by the prelude);
// goExpr: the Go expression strlitref emits for it ("" = a Go string literal of val).
type piece struct {
	id, kind string
	src, raw string
	val      string
	goExpr   string
	lastOnly bool
}

const traced = "expr-call"

var pieces = []piece{
	{id: "a", kind: "text", src: "a", raw: "a", val: "a"},
	{id: " b c", kind: "text", src: " b c", raw: " b c", val: " b c"},
	{id: "é", kind: "text", src: "é", raw: "é", val: "é"},
	{id: "%d", kind: "text", src: "%d", raw: "%d", val: "%d"},
	{id: "{", kind: "text", src: "{", raw: "{", val: "{"},
	{id: "}", kind: "text", src: "}", raw: "}", val: "}"},
	{id: `\n`, kind: "escape", src: `\n`, val: "\n"},
	{id: `\t`, kind: "escape", src: `\t`, val: "\t"},
	{id: `\\`, kind: "escape", src: `\\`, val: `\`},
	{id: `\"`, kind: "escape", src: `\"`, val: `"`},
	{id: `\x41`, kind: "escape", src: `\x41`, val: "A"},
	{id: `\u00e9`, kind: "escape", src: `\u00e9`, val: "é"},
	{id: `\101`, kind: "escape", src: `\101`, val: "A"},
	{id: `raw\n`, kind: "raw-backslash", raw: `\n`, val: `\n`}, // a backslash is not an escape in a raw literal
	{id: "$$", kind: "$$", src: "$$", raw: "$$", val: "$"},
	{id: "${i}", kind: "expr-int", src: "${i}", raw: "${i}", val: "7", goExpr: "strconv.Itoa(i)"},
	{id: "${-i}", kind: "expr-int", src: "${-i}", raw: "${-i}", val: "-7", goExpr: "strconv.Itoa(-i)"},
	{id: "${i+1}", kind: "expr-int", src: "${i+1}", raw: "${i+1}", val: "8", goExpr: "strconv.Itoa(i+1)"},
	{id: "${s}", kind: "expr-string", src: "${s}", raw: "${s}", val: "str", goExpr: "s"},
	{id: "${f}", kind: "expr-float", src: "${f}", raw: "${f}", val: "1.5", goExpr: "strconv.FormatFloat(f, 'g', -1, 64)"},
	{id: "${2.0}", kind: "expr-float-const", src: "${2.0}", raw: "${2.0}", val: "2", goExpr: "strconv.FormatFloat(2.0, 'g', -1, 64)"},
	// numeric constants: strconv formatting must not lose digits or change the notation
	{id: "${2.718281828459045}", kind: "expr-float-const", src: "${2.718281828459045}", raw: "${2.718281828459045}", val: "2.718281828459045", goExpr: "strconv.FormatFloat(2.718281828459045, 'g', -1, 64)"},
	{id: "${1234.56789}", kind: "expr-float-const", src: "${1234.56789}", raw: "${1234.56789}", val: "1234.56789", goExpr: "strconv.FormatFloat(1234.56789, 'g', -1, 64)"},
	{id: "${1e21}", kind: "expr-float-const", src: "${1e21}", raw: "${1e21}", val: "1e+21", goExpr: "strconv.FormatFloat(1e21, 'g', -1, 64)"},
	{id: "${0.000001234}", kind: "expr-float-const", src: "${0.000001234}", raw: "${0.000001234}", val: "1.234e-06", goExpr: "strconv.FormatFloat(0.000001234, 'g', -1, 64)"},
	{id: "${pi14}", kind: "expr-float-const", src: "${pi14}", raw: "${pi14}", val: "3.14159265358979", goExpr: "strconv.FormatFloat(pi14, 'g', -1, 64)"},
	{id: "${1<<40}", kind: "expr-int-const", src: "${1<<40}", raw: "${1<<40}", val: "1099511627776", goExpr: "strconv.Itoa(1<<40)"},
	{id: "${big}", kind: "expr-int", src: "${big}", raw: "${big}", val: "9007199254740993", goExpr: "strconv.Itoa(big)"},
	{id: "${err}", kind: "expr-error", src: "${err}", raw: "${err}", val: "oops", goExpr: "err.Error()"},
	{id: "${t(i)}", kind: traced}, // k-th occurrence in a literal is rendered as t(i), t(i*10), t(i*100)
	{id: "$", kind: "trailing-$", src: "$", raw: "$", val: "$", lastOnly: true},
}

var byID = map[string]piece{}

const prelude = `
var i = 7
var s = "str"
var f = 1.5
var big = 9007199254740993

const pi14 = 3.14159265358979
var err = errors.New("oops")
var b = true

func t(v int) int {
	fmt.Println("t", v)
	return v
}

func showS05(v string) {
	fmt.Printf("%q\n", v)
}

func callS05(f func() string) {
	fmt.Printf("%q\n", f())
}
`

// Case: one literal.
type Case struct {
	Form   string   `json:"form"`   // quoted | raw
	Pieces []string `json:"pieces"` // piece ids
	// Ctx: where the literal stands: "" right side of :=, "arg" call argument, "closure" result of a function
	// literal called at once, "lambda" result of a lambda passed to a helper
	Ctx string `json:"ctx,omitempty"`
}

type rendered struct {
	lit     string   // XGo source of the literal
	goExpr  string   // strlitref: explicit Go concatenation
	parts   []string // expected contribution of every piece
	kinds   []string
	traces  []string // expected trace lines, in order
	nonTriv bool
}

// render is strlitref: left-to-right over the pieces.
func render(k Case) rendered {
	var r rendered
	var src strings.Builder
	var terms []string
	nt := 0
	for _, id := range k.Pieces {
		p := byID[id]
		sp := p.src
		if k.Form == "raw" {
			sp = p.raw
		}
		val, expr := p.val, p.goExpr
		if p.kind == traced {
			arg, v := []string{"i", "i*10", "i*100"}[nt], []int{7, 70, 700}[nt]
			nt++
			sp = "${t(" + arg + ")}"
			val, expr = strconv.Itoa(v), "strconv.Itoa(t("+arg+"))"
			r.traces = append(r.traces, fmt.Sprintf("t %d", v))
		}
		if expr == "" {
			expr = strconv.Quote(val)
		}
		if strings.HasPrefix(p.kind, "expr") || p.kind == "$$" {
			r.nonTriv = true
		}
		src.WriteString(sp)
		terms = append(terms, expr)
		r.parts = append(r.parts, val)
		r.kinds = append(r.kinds, p.kind)
	}
	if k.Form == "raw" {
		r.lit = "`" + src.String() + "`"
	} else {
		r.lit = `"` + src.String() + `"`
	}
	if len(terms) == 0 {
		terms = []string{`""`}
	}
	r.goExpr = strings.Join(terms, " + ")
	return r
}

func want(r rendered) string {
	var sb strings.Builder
	for _, l := range r.traces {
		sb.WriteString(l + "\n")
	}
	fmt.Fprintf(&sb, "%q\n", strings.Join(r.parts, ""))
	return sb.String()
}

func unitFor(k Case) progs.Unit {
	r := render(k)
	x, g := "v := "+r.lit+"\nfmt.Printf(\"%q\\n\", v)", "v := "+r.goExpr+"\nfmt.Printf(\"%q\\n\", v)"
	switch k.Ctx {
	case "arg":
		x, g = "showS05("+r.lit+")", "showS05("+r.goExpr+")"
	case "closure":
		x = "v := func() string {\n\treturn " + r.lit + "\n}()\nfmt.Printf(\"%q\\n\", v)"
		g = "v := func() string {\n\treturn " + r.goExpr + "\n}()\nfmt.Printf(\"%q\\n\", v)"
	case "lambda":
		x = "callS05 => " + r.lit
		g = "callS05(func() string {\n\treturn " + r.goExpr + "\n})"
	}
	return progs.Unit{Key: k.Form, XGo: x, Go: g}
}

var opts = progs.Options{Prelude: prelude, Imports: []string{"errors", "strconv"}, PerProgram: 2000}

var (
	rePos = regexp.MustCompile(`(/vprog/)?main\.(xgo|go):\d+(:\d+)?:? ?`)
	reNum = regexp.MustCompile(`\d+`)
	reQ   = regexp.MustCompile("`[^`]*`|\"[^\"]*\"")
)

// normalise an error message into a defect class: no positions, numbers or quoted source text.
func normalise(msg string) string {
	if n := strings.Index(msg, " | "); n > 0 {
		msg = msg[:n]
	}
	msg = rePos.ReplaceAllString(msg, "")
	msg = reQ.ReplaceAllString(msg, "<src>")
	msg = reNum.ReplaceAllString(msg, "N")
	if len(msg) > 90 {
		msg = msg[:90]
	}
	return strings.TrimSpace(msg)
}

// blame finds the piece in whose expected contribution the first differing byte of the value lies.
func blame(r rendered, got string) string {
	exp := strings.Join(r.parts, "")
	n := 0
	for n < len(exp) && n < len(got) && exp[n] == got[n] {
		n++
	}
	off := 0
	for j, p := range r.parts {
		if n < off+len(p) {
			return r.kinds[j]
		}
		off += len(p)
	}
	if len(r.kinds) > 0 { // got is longer than expected: blame the last piece
		return r.kinds[len(r.kinds)-1]
	}
	return "empty"
}

// shape is the defect-class part of a key: the form and the piece kinds of the literal.  The
// enumeration is simplest first, and a failing literal that contains the kinds of an already
// reported failing literal as a contiguous sub-sequence is filed under that one (see roots), so
// the key names the smallest failing shape, not the input.
func shape(k Case, r rendered) string {
	return k.Form + "/[" + strings.Join(r.kinds, " ") + "]"
}

// abstractKinds: the classes used for "contains a smaller failing literal": every ${e} is "expr",
// texts, escapes and verbatim backslashes are "lit"; $$ and the trailing $ stay what they are.
func abstractKinds(r rendered) []string {
	out := make([]string, len(r.kinds))
	for i, kd := range r.kinds {
		switch {
		case strings.HasPrefix(kd, "expr"):
			kd = "expr"
		case kd == "text" || kd == "escape" || kd == "raw-backslash":
			kd = "lit"
		}
		out[i] = kd
	}
	return out
}

func contains(seq, sub []string) bool {
	for i := 0; i+len(sub) <= len(seq); i++ {
		ok := true
		for j := range sub {
			if seq[i+j] != sub[j] {
				ok = false
				break
			}
		}
		if ok {
			return true
		}
	}
	return false
}

func judge(k Case, res progs.UnitResult) *engine.Failure {
	r := render(k)
	det := fmt.Sprintf("case=%+v\nXGo: v := %s\nreference: v := %s\nwant:\n%sgot:\n%s", k, r.lit, r.goExpr, res.RefOut, res.Out)
	switch {
	case res.CompileErr != "":
		return &engine.Failure{Key: "does-not-compile:" + shape(k, r), What: "a string literal made of documented pieces (text, escapes, $$, ${expr}) is rejected by the compiler: " + normalise(res.CompileErr), Detail: res.CompileErr + "\n" + det}
	case res.BuildErr != "":
		return &engine.Failure{Key: "generated-go-does-not-build:" + shape(k, r), What: "the Go generated for an interpolated string literal does not build: " + normalise(res.BuildErr), Detail: res.BuildErr + "\n" + det}
	case res.Out != res.RefOut:
		gl := strings.Split(strings.TrimSuffix(res.Out, "\n"), "\n")
		wl := strings.Split(strings.TrimSuffix(res.RefOut, "\n"), "\n")
		if strings.Join(gl[:len(gl)-1], "\n") != strings.Join(wl[:len(wl)-1], "\n") {
			return &engine.Failure{Key: "wrong-evaluation-order-or-count:" + shape(k, r), What: "embedded expressions are not evaluated exactly once, left to right", Detail: det}
		}
		got, err := strconv.Unquote(gl[len(gl)-1])
		if err != nil {
			return &engine.Failure{Key: "abnormal-output:" + shape(k, r), What: "the unit did not print its value", Detail: det}
		}
		return &engine.Failure{Key: "wrong-value:" + shape(k, r), What: "the value of the literal differs from the concatenation of its pieces", Detail: "first differing byte lies in the contribution of a piece of kind " + blame(r, got) + "\n" + det}
	}
	return nil
}

// enumerate all piece sequences of length <= maxLen, shortest first, for one form.
func enumerate(form string, maxLen int) []Case {
	var avail []piece
	for _, p := range pieces {
		if form == "quoted" && p.src == "" && p.kind != traced || form == "raw" && p.raw == "" && p.kind != traced {
			continue
		}
		avail = append(avail, p)
	}
	var out []Case
	seen := map[string]bool{}
	var rec func(cur []string, n int)
	rec = func(cur []string, n int) {
		if len(cur) == n {
			k := Case{Form: form, Pieces: append([]string{}, cur...)}
			if lit := render(k).lit; !seen[lit] {
				seen[lit] = true
				out = append(out, k)
				if form == "quoted" && len(cur) >= 1 && len(cur) <= 2 { // the literal in other positions
					for _, cx := range []string{"arg", "closure", "lambda"} {
						kk := k
						kk.Ctx = cx
						out = append(out, kk)
					}
				}
			}
			return
		}
		for _, p := range avail {
			if p.lastOnly && len(cur) != n-1 {
				continue
			}
			rec(append(cur, p.id), n)
		}
	}
	for n := 0; n <= maxLen; n++ {
		rec(nil, n)
	}
	return out
}

func main() {
	for _, p := range pieces {
		byID[p.id] = p
	}
	c := engine.New("C05", "exploration")
	if c.IsReplay() {
		var k Case
		c.LoadReplay(&k)
		res, err := progs.RunUnits([]progs.Unit{unitFor(k)}, opts)
		if err != nil {
			c.Fatal("%v", err)
		}
		if res[0].RefBuildErr != "" {
			c.Fatal("reference does not build: %s", res[0].RefBuildErr)
		}
		c.ReplayResult(judge(k, res[0]))
	}
	maxLen := 2
	if c.Thorough() {
		maxLen = 3
	}
	// simplest first: by length, quoted before raw
	var cases []Case
	q, r := enumerate("quoted", maxLen), enumerate("raw", maxLen)
	for n := 0; n <= maxLen; n++ {
		for _, set := range [][]Case{q, r} {
			for _, k := range set {
				if len(k.Pieces) == n {
					cases = append(cases, k)
				}
			}
		}
	}
	if d := os.Getenv("C05_DUMP"); d != "" {
		for _, k := range cases {
			u := unitFor(k)
			fmt.Printf("%s\n\t%s\n", strings.Split(u.XGo, "\n")[0], strings.Split(u.Go, "\n")[0])
		}
		return
	}

	// bool parts: documented nowhere, rejected by the compiler today -> excluded and counted, not judged
	boolCompiles := map[string]bool{}
	for _, lit := range []string{`"${b}"`, "`${b}`"} {
		_, err := progs.CompileXGo("main.xgo", "var b = true\nv := "+lit+"\necho v\n", nil)
		boolCompiles[lit] = err == nil
		if err != nil {
			c.Extra["bool_part_compile_error "+lit] = normalise(err.Error())
		}
	}
	c.Extra["bool_part_compiles"] = boolCompiles
	for _, form := range []string{"quoted", "raw"} {
		n := 0 // pieces of this form without the last-only one
		for _, p := range pieces {
			if !p.lastOnly && (p.kind == traced || form == "quoted" && p.src != "" || form == "raw" && p.raw != "") {
				n++
			}
		}
		// sequences of length <= maxLen over n+1 pieces (with ${b}) minus those over n pieces, times (with or without trailing $)
		count := func(m, maxL int) int64 {
			var tot, pw int64 = 0, 1
			for l := 0; l <= maxL; l++ {
				tot += pw
				pw *= int64(m)
			}
			return tot
		}
		with := count(n+1, maxLen) + count(n+1, maxLen-1)
		without := count(n, maxLen) + count(n, maxLen-1)
		c.Hist("excluded_literal_with_bool_part_"+form, with-without)
	}

	const batch = 4000
	var roots [][]string // abstract kind sequences of the reported (smallest) failing literals
	var st gocheck.Stats
	notRun := 0
	for start := 0; start < len(cases); start += batch {
		// no new batch after 7.5 min (a batch takes 15 s on an idle machine, ~2 min under 10x load)
		reserve := 450 * time.Second
		if !c.Thorough() {
			reserve = 90 * time.Second // quick has a 240 s deadline in all
		}
		if c.Expired() || c.Remaining() < reserve && start > 0 {
			c.Cap(fmt.Sprintf("time budget: %d of %d literals evaluated (shortest first)", start, len(cases)))
			break
		}
		end := min(start+batch, len(cases))
		units := make([]progs.Unit, end-start)
		for j := range units {
			units[j] = unitFor(cases[start+j])
		}
		res, s, err := gocheck.RunUnits(units, opts, func(j int) string { return cases[start+j].Form })
		if err != nil {
			c.Fatal("%v", err)
		}
		st.Add(s)
		for j, rr := range res {
			k := cases[start+j]
			rd := render(k)
			if rr.RefBuildErr != "" {
				c.Fatal("harness bug: reference of %+v does not build: %s", k, rr.RefBuildErr)
			}
			c.Eval(1)
			if rd.nonTriv {
				c.NontrivialN(1)
			}
			c.Hist(fmt.Sprintf("%s literals of %d pieces", k.Form, len(k.Pieces)), 1)
			if len(rd.traces) >= 2 {
				c.Hist("literals with >= 2 traced calls (order observable)", 1)
			}
			if (start+j)%1999 == 0 {
				c.Sample(map[string]any{"case": k, "xgo": rd.lit, "reference": rd.goExpr, "want": want(rd)})
			}
			if !rr.Ran && rr.CompileErr == "" && rr.BuildErr == "" {
				c.Hist("not_run_after_abnormal_end_of_an_earlier_unit", 1)
				notRun++
				continue
			}
			if rr.Ran && rr.RefOut != want(rd) {
				// the two renderings of strlitref (Go reference program, harness computation) must agree
				c.Fatal("harness bug: reference program of %+v printed %q, harness expects %q", k, rr.RefOut, want(rd))
			}
			if f := judge(k, rr); f != nil {
				c.Hist("failing literals", 1)
				ak := abstractKinds(rd)
				explained := false
				for _, root := range roots {
					if len(root) > 0 && contains(ak, root) {
						explained = true
						break
					}
				}
				if explained {
					c.Hist("failing literals filed under a smaller failing literal", 1)
					continue
				}
				roots = append(roots, ak)
				c.Violate(k, f)
			}
		}
	}
	if notRun > 0 {
		c.Cap(fmt.Sprintf("%d literals were queued behind an abnormally ended unit and were not run", notRun))
	}
	c.Extra["max_pieces"] = maxLen
	c.Extra["xgo_compile_errors"] = st.CompileErrs
	c.Extra["generated_go_rejected_by_go_types"] = st.Suspects
	c.Rule = fmt.Sprintf("all literals that are sequences of <= %d pieces (quick 2, thorough 3) from: text {a, ' b c', é, %%d, {, }}, escapes {\\n \\t \\\\ \\\" \\x41 \\u00e9 \\101} (quoted form only), a verbatim backslash-n (raw form only), $$, ${e} with e in {i, -i, i+1, s, f=1.5, 2.0, err, t(..) traced call}, and a trailing lone $ (last piece only); both forms \"...\" and `...`; identical literal texts generated once; distinct_nontrivial = literals containing at least one ${e} or $$", maxLen)
	c.Assumptions = []string{
		"strlitref: left-to-right scan of the pieces; $$ -> $; ${e} -> strconv.Itoa (int), strconv.FormatFloat(v,'g',-1,64) (float64 and the untyped constant 2.0), the value itself (string), Error() (error); escapes denote what the Go spec says; in a raw literal a backslash is verbatim; emitted as an explicit Go concatenation that runs as the reference program, and computed again by the harness (both must agree)",
		"raw literals: interpolation applies (parser.stringLit is called for every STRING token; doc/classfile.md uses ${id} inside a raw literal)",
		"a lone $ is only generated as the very last character of a literal, where the parser keeps it as text ('no $ or end with $' in stringLitEx); $x in the middle of a literal is undocumented (the parser rejects it when the literal has other $-parts and keeps the literal verbatim otherwise) and is not generated",
		"${b} with a bool does not compile and is documented nowhere: literals with a bool part are excluded and counted, not judged",
		"the k-th traced call of a literal is t(i), t(i*10), t(i*100), so order and multiplicity of evaluation are visible in the trace lines",
		"programs are compiled in-process by parser+cl+gogen, built by the Go toolchain in a scratch module (go 1.23) and run with GOMAXPROCS=1",
	}
	c.Finish()
}

package main

import (
	"fmt"
	"strings"
)

// The declaration grid. Every group is enumerated completely within the bound
// stated in boundText; nothing is sampled. emit returns false to stop.

type emitFn func(group, file string, mayReject bool) bool

func fileOf(decl string) string {
	var b strings.Builder
	b.WriteString("package p\n\n")
	if strings.Contains(decl, "pkg.") && !strings.HasPrefix(decl, "import") {
		b.WriteString("import \"pkg\"\n\n")
	}
	b.WriteString(decl)
	b.WriteString("\n")
	return b.String()
}

func boundText(thorough bool) string {
	d, e := 2, 1
	if thorough {
		d, e = 3, 2
	}
	return fmt.Sprintf("func grid: {0,1,2 params} x {unnamed,named,grouped,variadic-last} x %d param types x results {none, one unnamed, two unnamed, two named} (result types: %s) x %d receivers; "+
		"type expressions: all compositions of %d unary type constructors over %d leaves up to depth %d, each in %d declaration forms; "+
		"type-parameter lists: %d constraints singly, grouped and in all ordered pairs, on %d func shapes and %d type shapes; "+
		"struct field lists and interface element lists: all sequences of length 0..3 over %d / %d elements; "+
		"value expressions: all compositions of %d expression constructors over %d leaves up to depth %d (depth<=1 in %d declaration forms); "+
		"import/const/var/type groups: all spec sequences of length 0..3; all ordered pairs of %d declarations in one file",
		len(paramTypes), map[bool]string{false: "3", true: "all param types"}[thorough], len(receivers),
		len(typeCons), len(typeLeaves), d, len(typeForms),
		len(constraints), len(genFuncShapes), len(genTypeShapes),
		len(structFields), len(ifaceElems),
		len(exprCons()), len(exprLeaves), e+1, len(valueForms), len(pairDecls))
}

var paramTypes = []string{
	"int", "string", "[]int", "map[string]int", "*T", "func(int) string", "chan int", "<-chan int", "chan<- int",
	"interface{ M() }", "struct{ A int `tag:\"x\"` }", "[3]int", "T[int]", "pkg.Type", "interface{}", "T[int, string]",
}

var receivers = []string{"", "(t T)", "(t *T)", "(T)", "(*T)", "(_ T)", "(t *G[K])", "(t G[K, V])", "(G[_])"}

var typeLeaves = []string{"int", "T", "pkg.Type"}

var typeCons = []func(string) string{
	func(x string) string { return "*" + x },
	func(x string) string { return "[]" + x },
	func(x string) string { return "[3]" + x },
	func(x string) string { return "[N]" + x },
	func(x string) string { return "chan " + x },
	func(x string) string { return "<-chan " + x },
	func(x string) string { return "chan<- " + x },
	func(x string) string { return "map[string]" + x },
	func(x string) string { return "map[" + x + "]int" },
	func(x string) string { return "func(" + x + ")" },
	func(x string) string { return "func(..." + x + ")" },
	func(x string) string { return "func() " + x },
	func(x string) string { return "func(a, b " + x + ") (r " + x + ", err error)" },
	func(x string) string { return "struct{ f " + x + " }" },
	func(x string) string { return "struct{ f " + x + " `k:\"v\"` }" },
	func(x string) string { return "interface{ M(" + x + ") " + x + " }" },
	func(x string) string { return "G[" + x + "]" },
	func(x string) string { return "G[" + x + ", string]" },
	func(x string) string { return "pkg.G[" + x + "]" },
	func(x string) string { return "(" + x + ")" },
}

var typeForms = []func(string) string{
	func(t string) string { return "type A " + t },
	func(t string) string { return "type A = " + t },
	func(t string) string { return "type A[P any] " + t },
	func(t string) string { return "var V " + t },
	func(t string) string { return "func F(a " + t + ", b ..." + t + ") (r " + t + ")" },
}

var constraints = []string{
	"any", "comparable", "~int | ~string", "interface{ ~int; M() }", "pkg.Con", "G[int]", "interface{ *T }", "~[]byte",
	"int | string | ~float64", "interface{ comparable; M() }", "interface{}", "G[int, string]",
}

// shapes use the type-parameter names T, U (K, V are used too; the check is syntactic)
var genFuncShapes = []string{"()", "(x T)", "(x T, ys ...T) T", "(f func(T) U) (r U, err error)", "(m map[T]U) []T"}
var genTypeShapes = []string{"struct{ x T }", "[]T", "map[T]U", "func(T) U", "interface{ M() T }", "chan T", "struct{ G[T]; u U }"}

var structFields = []string{
	"a int", "a, b int", "T", "*T", "pkg.T", "*pkg.T", "G[int]", "a int `k:\"v\"`", "T `k:\"v\"`", "_ int",
	"f func(x int) (y string)", "G[K, V]",
}

var ifaceElems = []string{
	"M()", "M(x int) string", "N(a, b int, c ...string) (r int, err error)", "E", "pkg.I", "~int", "~int | ~string",
	"int | pkg.T | ~[]byte", "comparable", "G[int]", "*T", "interface{ N() }", "G[K, V]",
}

var exprLeaves = []string{"x", "1", `"s"`, "'c'", "1.5", "2i", "`r`", "nil", "pkg.V", "iota", "0x1p-2"}

var binOps = []string{"+", "-", "*", "/", "%", "&", "|", "^", "<<", ">>", "&^", "&&", "||", "==", "!=", "<", "<=", ">", ">="}

func exprCons() []func(string) string {
	cs := []func(string) string{}
	w := func(pre, post string) {
		cs = append(cs, func(e string) string { return pre + e + post })
	}
	for _, op := range []string{"-", "+", "!", "^", "&", "<-", "*"} {
		w(op, "")
	}
	w("(", ")")
	for _, op := range binOps {
		w("", " "+op+" y")
		w("y "+op+" ", "")
	}
	w("f(", ")")
	w("f(", ", 2)")
	w("f(", "...)")
	w("f(1, ", "...)")
	w("pkg.F(", ")")
	w("T(", ")")
	w("[]byte(", ")")
	w("(*T)(", ")")
	w("(func(int) string)(", ")")
	w("(<-chan int)(", ")")
	w("", ".f")
	w("", ".(T)")
	w("", ".(interface{ M() })")
	w("", "[1]")
	w("a[", "]")
	w("", "[1:2]")
	w("", "[:2]")
	w("", "[1:]")
	w("", "[:]")
	w("", "[1:2:3]")
	w("a[", ":]")
	w("a[:", ":3]")
	w("F[int](", ")")
	w("F[int, string](", ")")
	w("pkg.F[int, string](", ", 2)")
	w("T{", "}")
	w("T{a: ", "}")
	w("&T{", ", 2}")
	w("[]int{", "}")
	w("[...]int{", "}")
	w("[3]int{0: ", "}")
	w("map[string]int{\"k\": ", "}")
	w("map[int]T{", ": {}}")
	w("[]T{{", "}}")
	w("[]*T{{a: ", "}, nil}")
	w("struct{ a int }{", "}")
	w("pkg.T{a: ", "}")
	w("G[int]{", "}")
	w("M[int, string]{", "}")
	w("&M[K, V]{a: ", "}")
	w("func() int { return ", " }")
	w("func(a int, b ...string) (r int) { return ", " }()")
	w("[]func(){func() { _ = ", " }, nil}")
	return cs
}

var valueForms = []func(string) string{
	func(e string) string { return "var X = " + e },
	func(e string) string { return "const X = " + e },
	func(e string) string { return "var X T = " + e },
	func(e string) string { return "var X, Y = " + e + ", " + e },
	func(e string) string { return "var (\n\tX = " + e + "\n\tY T = " + e + "\n)" },
	func(e string) string { return "const (\n\tA = " + e + "\n\tB\n)" },
	func(e string) string { return "var X [" + e + "]int" },
	func(e string) string { return "var X = [" + e + "]int{}" },
}

var importSpecs = []string{`"fmt"`, `f "fmt"`, `_ "fmt"`, `. "fmt"`, `"a/b"`, "`raw`", `"C"`}
var constSpecs = []string{"A = iota", "B", "C, D = iota, iota * 2", "E, F", "G T = 1 << iota", "_", "H string = \"s\"", "I, J int = 1, 2", "K = len(\"abc\")"}
var varSpecs = []string{"a int", "b, c string", "d = 1", "e, f = 1, \"s\"", "g T = T{}", "h, i = f()", "_ I = (*T)(nil)", "j func(int) string", "k = func(x int) string { return \"\" }", "l = M[int, string]{}"}
var typeSpecs = []string{"A int", "B = A", "C struct{ x int }", "D interface{ M() }", "E[T any] []T", "F[K comparable, V any] map[K]V", "G = F[string, int]", "H func(int) string", "I [3]chan<- int"}

var handDecls = []string{
	"type G[T any] int", "func F[T any]()", "var v G[int, string]", "type A[T any] = []T", "type (\n\tA[K comparable, V any] = map[K]V\n\tB = A[string, int]\n)", // minimal inputs of the known losses first
	"func init() {}", "func _() {}", "func f()", "func f(x int) int", "func (T) M()", "func main() { println(1) }",
	"func f() (int)", "func f() (_ int)", "func f(_ int, _ string)", "func f(int, ...string)", "func f(a int, _ ...string)",
	"func f() func(int) func(string) bool", "func f() (func(int), error)", "func (t *T) Get(k string) (v any, ok bool) { return nil, false }",
	"func F[T any](x T) T { return x }", "func F[S ~[]E, E any](s S) E", "func F[P *T]()", "func F[T any, PT interface{ *T; M() }](x PT)",
	"func F[T interface{ ~int | ~string }](x ...T)", "func (t *G[K]) Len() int", "func (t *G[K, V]) Get(k K) (v V)",
	"type A = B", "type A B", "type G[T any] struct{ x T }", "type G[T any, U comparable] struct {\n\tx T\n\ty map[U]T\n}",
	"type N1 = T1[int]", "type N2 = T2[string, int]", "type L[T any] struct {\n\tnext *L[T]\n\tv T\n}",
	"type T struct {\n\tA int `json:\"a\"`\n\t*B\n\tpkg.C\n\tD, E string `x:\"y\"`\n}",
	"type I interface {\n\tm() int\n\tE\n\tpkg.J\n}", "type Num interface{ ~int | ~int64 | float64 }",
	"type (\n\tA int\n\tB = A\n)", "type ()", "var ()", "const ()", "import ()", "var (\n\tx int\n)", "const (\n\tx = 1\n)", "type (\n\tA int\n)",
	"const c = (10 + 20) * 2", "const (\n\tA = iota\n\tB\n\tC\n)", "const (\n\t_ = 1 << (10 * iota)\n\tKB\n\tMB\n)",
	"const A, B = 1, 2", "const A int = 1", "const S = \"a\" + \"b\"", "const R = 'x'", "const F = 1e3", "const X = 0b1010 | 0o17 | 0x_F",
	"var X = M[int, string]{}", "var f = test[string, int](1, 2)", "var v G[int]", "var v = G[int]{x: 1}",
	"var b = &a{\n\tarr: &[2]func(){\n\t\tnil,\n\t\tfunc() {},\n\t},\n}", "var f = a.i.(func() (int))()",
	"var _ = struct{ A int }{1}", "var _ interface{ M() } = (*T)(nil)", "var x, y = <-c, -1", "var e = errors.New(\"x\")",
	"var m = map[string][]int{\"a\": {1, 2}, \"b\": nil}", "var a = [...]string{2: \"x\", \"y\"}", "var s = x[1:2:3]",
	"var f = func(a, b int) (c int) { return a + b }", "var g = func(fs ...func()) {}", "var p = (*int)(nil)",
	"var c chan<- <-chan int", "var c chan (<-chan int)", "var c <-chan chan<- int",
	"//go:linkname f g\nfunc f()", "// doc\ntype T struct {\n\t// field doc\n\tA int // line comment\n}",
}

var pairDecls = []string{
	"func f(x int) string", "func (t *T) M(a, b int) (r int, err error)", "func F[T any](x T) T", "func (t *G[K]) M()",
	"type A int", "type A = B", "type G[T any] struct{ x T }", "type S struct{ a int `k:\"v\"` }", "type I interface{ M(); E }",
	"type (\n\tA int\n\tB string\n)", "const A = 1", "const (\n\tA = iota\n\tB\n)", "var x int", "var x, y = 1, \"s\"",
	"var (\n\tx int\n\ty = T{a: 1}\n)", "var f = func(x int) int { return x }", "var c <-chan int", "var v = G[int]{}",
	"var X = M[int, string]{}", "func init() {}",
}

// seqs calls f with every sequence over elems of length lo..hi.
func seqs(elems []string, lo, hi int, f func([]string) bool) bool {
	var rec func(cur []string, n int) bool
	rec = func(cur []string, n int) bool {
		if len(cur) == n {
			return f(cur)
		}
		for _, e := range elems {
			if !rec(append(cur, e), n) {
				return false
			}
		}
		return true
	}
	for n := lo; n <= hi; n++ {
		if !rec(nil, n) {
			return false
		}
	}
	return true
}

func generate(thorough bool, emit emitFn) {
	ok := true
	out := func(group, decl string, mayReject bool) bool {
		if ok {
			ok = emit(group, fileOf(decl), mayReject)
		}
		return ok
	}

	// 0. hand-written declarations (one per known construct; includes the test files' own inputs)
	for _, d := range handDecls {
		if !out("hand", d, false) {
			return
		}
	}
	if !emit("hand", "package p\n", false) {
		return
	}

	// 1. imports
	for _, s := range importSpecs {
		if !out("import", "import "+s, false) {
			return
		}
	}
	group := func(name, kw string, specs []string, mayReject bool) bool {
		return seqs(specs, 0, 3, func(s []string) bool {
			if len(s) == 1 && !out(name, kw+" "+s[0], mayReject) {
				return false
			}
			return out(name, kw+" (\n\t"+strings.Join(s, "\n\t")+"\n)", mayReject)
		})
	}
	if !group("import", "import", importSpecs, false) {
		return
	}
	// a const spec without value is only legal after one with values, a lone `_` or `B` is not: go/parser decides
	if !group("const-group", "const", constSpecs, true) || !group("var-group", "var", varSpecs, false) || !group("type-group", "type", typeSpecs, false) {
		return
	}

	// 2. type expressions, all compositions up to depth d
	depth := 2
	if thorough {
		depth = 3
	}
	level := append([]string(nil), typeLeaves...)
	all := append([]string(nil), level...)
	for d := 1; d <= depth; d++ {
		var next []string
		for _, con := range typeCons {
			for _, x := range level {
				next = append(next, con(x))
			}
		}
		all = append(all, next...)
		level = next
	}
	for _, t := range all {
		for _, form := range typeForms {
			if !out("type-expr", form(t), false) {
				return
			}
		}
	}

	// 3. struct field lists and interface element lists
	if !seqs(structFields, 0, 3, func(s []string) bool {
		return out("struct-fields", "type S struct {\n\t"+strings.Join(s, "\n\t")+"\n}", false)
	}) {
		return
	}
	if !seqs(ifaceElems, 0, 3, func(s []string) bool {
		return out("interface-elems", "type I interface {\n\t"+strings.Join(s, "\n\t")+"\n}", false)
	}) {
		return
	}

	// 4. type-parameter lists
	var tpls []string
	for _, c := range constraints {
		tpls = append(tpls, "[T "+c+"]", "[T, U "+c+"]")
		for _, c2 := range constraints {
			tpls = append(tpls, "[T "+c+", U "+c2+"]")
		}
	}
	tpls = append(tpls, "[S ~[]E, E any]", "[T any, PT interface{ *T }]", "[_ any]", "[T, U any, V comparable]")
	for _, tp := range tpls {
		for _, sh := range genFuncShapes {
			if !out("generic-func", "func F"+tp+sh, false) {
				return
			}
		}
		for _, sh := range genTypeShapes {
			if !out("generic-type", "type G"+tp+" "+sh, false) {
				return
			}
			// a type spec with both optional parts: parameters and `=` (generic alias)
			if !out("generic-alias", "type G"+tp+" = "+sh, false) {
				return
			}
		}
	}

	// 5. value expressions
	leaves := exprLeaves
	cons := exprCons()
	lv := append([]string(nil), leaves...)
	for _, e := range lv {
		for _, form := range valueForms {
			if !out("value-expr", form(e), true) {
				return
			}
		}
	}
	var l1 []string
	for _, con := range cons {
		for _, e := range leaves {
			l1 = append(l1, con(e))
		}
	}
	for _, e := range l1 {
		for _, form := range valueForms {
			if !out("value-expr", form(e), true) {
				return
			}
		}
	}
	// depth 2: quick over the first three leaves, thorough over all
	base := l1
	if !thorough {
		base = nil
		for _, con := range cons {
			for _, e := range leaves[:3] {
				base = append(base, con(e))
			}
		}
	}
	for _, con := range cons {
		for _, e := range base {
			if !out("value-expr", "var X = "+con(e), true) {
				return
			}
		}
	}

	// 6. all ordered pairs of a small subset in one file (count and order of declarations)
	for _, a := range pairDecls {
		for _, b := range pairDecls {
			if !emit("pairs", "package p\n\n"+a+"\n\n"+b+"\n", false) {
				return
			}
		}
	}
	for _, a := range pairDecls {
		if !emit("pairs", "package p\n\nimport \"fmt\"\n\nimport (\n\t_ \"os\"\n\t. \"io\"\n)\n\n"+a+"\n", false) {
			return
		}
	}

	// 7. the func grid
	resTypes := []string{"int", "*T", "T[int]"}
	if thorough {
		resTypes = paramTypes
	}
	results := []string{""}
	for _, r := range resTypes {
		results = append(results, " "+r, " ("+r+", error)", " (r "+r+", err error)")
	}
	var params []string
	params = append(params, "()")
	for _, a := range paramTypes {
		params = append(params, "("+a+")", "(a "+a+")", "(..."+a+")", "(a ..."+a+")", "(a, b "+a+")")
	}
	for _, a := range paramTypes {
		for _, b := range paramTypes {
			params = append(params, "("+a+", "+b+")", "(a "+a+", b "+b+")", "("+a+", ..."+b+")", "(a "+a+", b ..."+b+")")
		}
	}
	for _, rc := range receivers {
		name := "f"
		if rc != "" {
			rc += " "
			name = "M"
		}
		for _, p := range params {
			for _, r := range results {
				if !out("func-grid", "func "+rc+name+p+r, false) {
					return
				}
			}
		}
	}
}

// C37: Go/XGo declaration trees convert without loss.
//
// Mode E (bounded-exhaustive enumeration). Inputs: (1) every .go file of the
// repository that go/parser accepts, (2) an exhaustively generated grid of
// single-declaration Go files (gen.go). For every file f the declarations of
// togo.ASTFile(fromgo.ASTFile(f, 0), 0) are compared, one by one and in order,
// with the declarations of f.
//
// Oracle (independent of the code under test: go/parser + go/printer only):
// both declaration trees are normalised (function bodies removed, func-literal
// bodies replaced by an empty block, comments removed, positions reduced to
// the three validity bits go/printer gives a meaning to) and printed with
// go/format.Node against an empty FileSet; the strings must be equal. A
// reflective structural diff of the two normalised trees is used *only* to key
// a mismatch by the construct that was lost ("FuncType.TypeParams:lost": node
// type, field, lost|added|changed|length-changed; first difference of the
// declaration in source order), so one defect yields one key whatever the
// input was. Panics are keyed by site plus the panic message, which names the
// unsupported node type. An empty non-nil Names slice in the converted tree
// (printed as "func f() (int)") is normalised and counted, not judged.
package main

import (
	"bytes"
	"encoding/json"
	"fmt"
	"go/ast"
	"go/format"
	"go/parser"
	"go/token"
	"io"
	"log"
	"os"
	"reflect"
	"strings"

	"github.com/goplus/xgo/ast/fromgo"
	"github.com/goplus/xgo/ast/togo"
	"verif/corpus"
	"verif/engine"
)

// Case is one Go source file. Corpus files carry only their path.
type Case struct {
	Kind  string `json:"kind"`  // corpus | grid
	Group string `json:"group"` // generator group (grid) or "" (corpus)
	Path  string `json:"path,omitempty"`
	Src   string `json:"src,omitempty"`
}

type outcome struct {
	rejected   bool // go/parser does not accept the file: excluded
	decls      int
	declOK     int
	bodyless   int // func declarations without body (the converted one gets "{}": bodies are not compared)
	emptyNames int // converted declarations carrying an empty non-nil slice where the original has nil
	structOnly []string
	printed    []string // normalised original declarations (non-triviality keys)
	fails      []*engine.Failure
}

// ---------------------------------------------------------------- normalise

var (
	tPos     = reflect.TypeOf(token.NoPos)
	tCG      = reflect.TypeOf((*ast.CommentGroup)(nil))
	tObj     = reflect.TypeOf((*ast.Object)(nil))
	tScope   = reflect.TypeOf((*ast.Scope)(nil))
	tFuncDcl = reflect.TypeOf(ast.FuncDecl{})
	tFuncLit = reflect.TypeOf(ast.FuncLit{})
)

// positions whose *validity* changes what go/printer prints
var semanticPos = map[string]bool{"TypeSpec.Assign": true, "CallExpr.Ellipsis": true, "GenDecl.Lparen": true}

// normalize rewrites the tree under v in place.
func normalize(v reflect.Value) {
	switch v.Kind() {
	case reflect.Interface, reflect.Ptr:
		if !v.IsNil() {
			normalize(v.Elem())
		}
	case reflect.Slice:
		for i := 0; i < v.Len(); i++ {
			normalize(v.Index(i))
		}
	case reflect.Struct:
		t := v.Type()
		for i := 0; i < t.NumField(); i++ {
			f := v.Field(i)
			ft := t.Field(i)
			switch {
			case f.Kind() == reflect.Slice && !f.IsNil() && f.Len() == 0:
				// goIdents/gopIdents turn a nil Names into an empty slice; go/printer then writes
				// "func f() (int)" for "func f() int". Same header, and the repository's own tests
				// pin that output (TestMethod: "func (a foo) Str() (string) {}"): counted, not judged.
				emptySlices++
				f.Set(reflect.Zero(ft.Type))
			case ft.Type == tPos:
				if semanticPos[t.Name()+"."+ft.Name] && token.Pos(f.Int()).IsValid() {
					f.SetInt(1)
				} else {
					f.SetInt(0)
				}
			case ft.Type == tCG, ft.Type == tObj, ft.Type == tScope:
				f.Set(reflect.Zero(ft.Type))
			case t == tFuncDcl && ft.Name == "Body":
				f.Set(reflect.Zero(ft.Type))
			case t == tFuncLit && ft.Name == "Body":
				f.Set(reflect.ValueOf(&ast.BlockStmt{}))
			default:
				normalize(f)
			}
		}
	}
}

var emptySlices int // empty non-nil slices replaced by nil during the last normalize calls

var emptyFset = token.NewFileSet()

// printDecl never panics: a converted tree go/printer cannot walk (nil identifier ...) prints as an
// error marker, which is unequal to every original and so reported through the structural diff.
func printDecl(d ast.Decl) (s string) {
	defer func() {
		if e := recover(); e != nil {
			s = fmt.Sprintf("<<go/printer panics on this tree: %v>>", e)
		}
	}()
	var b bytes.Buffer
	if err := format.Node(&b, emptyFset, d); err != nil {
		return "<<format.Node error: " + err.Error() + ">>"
	}
	return b.String()
}

// ---------------------------------------------------------------- structural diff (keys only)

func isNilable(v reflect.Value) bool {
	return v.Kind() == reflect.Interface || v.Kind() == reflect.Ptr
}

// diff appends "Node.Field:what" for every place where conv (b) differs from orig (a).
func diff(where string, a, b reflect.Value, out *[]string) {
	if isNilable(a) {
		an, bn := a.IsNil(), b.IsNil()
		switch {
		case an && bn:
			return
		case bn:
			*out = append(*out, where+":lost")
			return
		case an:
			*out = append(*out, where+":added")
			return
		}
		if a.Kind() == reflect.Interface && a.Elem().Type() != b.Elem().Type() {
			*out = append(*out, where+":changed") // node kinds go to the detail, not into the key
			return
		}
		diff(where, a.Elem(), b.Elem(), out)
		return
	}
	switch a.Kind() {
	case reflect.Slice:
		if a.Len() != b.Len() {
			*out = append(*out, where+":length-changed")
			return
		}
		for i := 0; i < a.Len(); i++ {
			diff(where, a.Index(i), b.Index(i), out)
		}
	case reflect.Struct:
		t := a.Type()
		leaf := t.Name() == "Ident" || t.Name() == "BasicLit" // a changed leaf is a change of the field holding it
		for i := 0; i < t.NumField(); i++ {
			if t.Field(i).Name == "Incomplete" {
				continue
			}
			if leaf {
				diff(where, a.Field(i), b.Field(i), out)
			} else {
				diff(t.Name()+"."+t.Field(i).Name, a.Field(i), b.Field(i), out)
			}
		}
	case reflect.String:
		if a.String() != b.String() {
			*out = append(*out, where+":changed")
		}
	case reflect.Bool:
		if a.Bool() != b.Bool() {
			*out = append(*out, where+":changed")
		}
	case reflect.Int, reflect.Int8, reflect.Int16, reflect.Int32, reflect.Int64:
		if a.Int() != b.Int() {
			*out = append(*out, where+":changed")
		}
	}
}

// uniq removes duplicates, keeping the order of first occurrence.
func uniq(s []string) []string {
	seen := map[string]bool{}
	o := s[:0]
	for _, x := range s {
		if !seen[x] {
			seen[x] = true
			o = append(o, x)
		}
	}
	return o
}

// ---------------------------------------------------------------- eval

func convert(f *ast.File) (out *ast.File, fail *engine.Failure) {
	fail = engine.Guard(func() {
		out = togo.ASTFile(fromgo.ASTFile(f, 0), 0)
	})
	if fail != nil {
		// the panic value names the unsupported node type: part of the defect, not of the input
		msg := strings.TrimSpace(strings.TrimPrefix(fail.What, "panic: "))
		fail.Key += ":" + msg
	}
	return
}

func source(k Case) (string, error) {
	if k.Kind == "corpus" && k.Src == "" {
		b, err := os.ReadFile(k.Path)
		return string(b), err
	}
	return k.Src, nil
}

func eval(k Case) (o outcome) {
	src, err := source(k)
	if err != nil {
		o.rejected = true
		return
	}
	f, err := parser.ParseFile(token.NewFileSet(), "a.go", src, parser.ParseComments|parser.SkipObjectResolution)
	if err != nil {
		o.rejected = true
		return
	}
	o.decls = len(f.Decls)
	for _, d := range f.Decls {
		if fd, ok := d.(*ast.FuncDecl); ok && fd.Body == nil {
			o.bodyless++
		}
	}
	add := func(fl *engine.Failure) {
		for _, x := range o.fails {
			if x.Key == fl.Key {
				return
			}
		}
		o.fails = append(o.fails, fl)
	}

	conv := make([]ast.Decl, len(f.Decls))
	whole, wfail := convert(f)
	if wfail == nil {
		if whole == nil || len(whole.Decls) != len(f.Decls) {
			n := -1
			if whole != nil {
				n = len(whole.Decls)
			}
			add(&engine.Failure{Key: "File.Decls:count-changed", What: "number of declarations changed by the round trip",
				Detail: fmt.Sprintf("original %d, converted %d", len(f.Decls), n)})
			return
		}
		copy(conv, whole.Decls)
	} else {
		// attribute the panic(s) declaration by declaration; the others are still compared
		for i, d := range f.Decls {
			one, fl := convert(&ast.File{Package: f.Package, Name: f.Name, Decls: []ast.Decl{d}})
			if fl != nil {
				dd := d
				normalize(reflect.ValueOf(&dd).Elem())
				fl.Detail = "declaration (bodies/comments removed):\n" + printDecl(dd) + "\n" + fl.Detail
				add(fl)
				continue
			}
			if len(one.Decls) != 1 {
				add(&engine.Failure{Key: "File.Decls:count-changed", What: "number of declarations changed by the round trip"})
				continue
			}
			conv[i] = one.Decls[0]
		}
		if len(o.fails) == 0 {
			add(wfail) // whole file panics but no single declaration does
		}
	}

	for i, d := range f.Decls {
		if conv[i] == nil {
			continue
		}
		a, b := d, conv[i]
		normalize(reflect.ValueOf(&a).Elem())
		emptySlices = 0
		normalize(reflect.ValueOf(&b).Elem())
		if emptySlices > 0 {
			o.emptyNames++
		}
		pa, pb := printDecl(a), printDecl(b)
		o.printed = append(o.printed, pa)
		var ds []string
		diff("Decl", reflect.ValueOf(&a).Elem(), reflect.ValueOf(&b).Elem(), &ds)
		ds = uniq(ds)
		if pa == pb {
			o.declOK++
			o.structOnly = append(o.structOnly, ds...)
			continue
		}
		if len(ds) == 0 {
			ds = []string{"print-differs:no-structural-difference"}
		}
		// the key is the first difference in source order (one defect -> one key); the rest is in the detail
		key := ds[0]
		add(&engine.Failure{Key: key, What: "declaration printed after fromgo+togo differs from the original: " + key,
			Detail: "original:\n" + pa + "\nconverted:\n" + pb + "\nall differences (first is the key): " + strings.Join(ds, ", ")})
	}
	return
}

// ---------------------------------------------------------------- main

func replayKey(fn string) string {
	b, _ := os.ReadFile(fn)
	var rf struct {
		Key string `json:"key"`
	}
	json.Unmarshal(b, &rf)
	return rf.Key
}

func main() {
	log.SetOutput(io.Discard) // the code under test announces its panics through log.Panicln
	c := engine.New("C37", "exploration")
	if c.IsReplay() {
		var k Case
		c.LoadReplay(&k)
		o := eval(k)
		want := replayKey(c.ReplayFn)
		var res *engine.Failure
		for _, fl := range o.fails {
			if res == nil || fl.Key == want {
				res = fl
			}
			if fl.Key == want {
				break
			}
		}
		c.ReplayResult(res)
	}

	files, rejected := 0, 0
	groupN := map[string]int{}
	groupRej := map[string]int{}
	run := func(k Case, mayReject bool) {
		c.Eval(1)
		o := eval(k)
		if o.rejected {
			rejected++
			groupRej[k.Group]++
			if k.Kind == "corpus" {
				c.Hist("excluded_corpus_go_parser_rejects", 1)
				return
			}
			if !mayReject {
				c.Fatal("generator group %q produced a file go/parser rejects:\n%s", k.Group, k.Src)
			}
			c.Hist("excluded_generated_go_parser_rejects", 1)
			return
		}
		files++
		groupN[k.Group]++
		c.Hist("decl_compared", int64(len(o.printed)))
		c.Hist("decl_equal", int64(o.declOK))
		c.Hist("note_bodyless_func_decl_body_not_compared", int64(o.bodyless))
		c.Hist("note_decl_with_empty_nonnil_Names_slice_normalised", int64(o.emptyNames))
		for _, p := range o.printed {
			c.Nontrivial(p)
		}
		for _, s := range o.structOnly {
			c.Hist("note_structural_only_"+s, 1)
		}
		if k.Kind == "corpus" {
			c.Hist("corpus_decl_compared", int64(len(o.printed)))
			if len(o.fails) == 0 {
				c.Hist("corpus_file_ok", 1)
			}
			for _, fl := range o.fails {
				c.Hist("corpus_fail_"+fl.Key, 1)
			}
		}
		if len(o.fails) == 0 {
			c.Hist("file_ok", 1)
			if k.Kind == "grid" && groupN[k.Group] == 1 {
				c.Sample(k)
			}
			return
		}
		c.Hist("file_with_mismatch_or_panic", 1)
		for _, fl := range o.fails {
			c.Hist("fail_"+fl.Key, 1)
			c.Violate(k, fl)
		}
	}

	// (2) generated grid first: simplest inputs first, so the replay of a key is a one-line declaration
	gridN := 0
	generate(c.Thorough(), func(group, file string, mayReject bool) bool {
		if c.Expired() {
			return false
		}
		gridN++
		run(Case{Kind: "grid", Group: group, Src: file}, mayReject)
		return true
	})
	if c.Expired() {
		c.Cap("deadline reached inside the generated grid")
	}

	// (1) every .go file of the repository
	names, _ := corpus.AllGo(4 << 20)
	corpusN := 0
	for _, n := range names {
		if c.Expired() {
			c.Cap("deadline reached inside the repository corpus")
			break
		}
		corpusN++
		run(Case{Kind: "corpus", Path: n}, true)
	}

	for g, n := range groupRej {
		// a generator whose output is mostly rejected would silently test nothing
		if g != "" && n > 0 && n*2 > n+groupN[g] {
			c.Fatal("generator group %q: %d of %d files rejected by go/parser", g, n, n+groupN[g])
		}
	}
	gs := map[string]any{}
	for g, n := range groupN {
		name := g
		if g == "" {
			name = "corpus"
		}
		gs[name] = map[string]int{"accepted": n, "rejected_by_go_parser": groupRej[g]}
	}
	c.Extra["groups"] = gs
	c.Extra["bound"] = boundText(c.Thorough())
	c.Extra["grid_files"] = gridN
	c.Extra["corpus_files"] = corpusN
	c.Extra["files_accepted_by_go_parser"] = files
	c.Extra["files_rejected_by_go_parser"] = rejected
	c.Rule = "evaluation = one Go source file; non-trivial = distinct normalised original declaration (printed text) that was converted Go->XGo->Go and compared; files go/parser rejects are excluded and counted"
	c.Assumptions = []string{
		"function bodies are outside the property (both ASTFile functions document that bodies are not kept): FuncDecl.Body is removed and FuncLit bodies are emptied on both sides; a body-less func declaration and one with a body are therefore not distinguished",
		"comments/doc groups and source positions are outside the property; of the positions only the validity of TypeSpec.Assign (alias), CallExpr.Ellipsis and GenDecl.Lparen (grouping) is kept because go/printer prints different text for it",
		"generated declarations are syntactically valid Go (go/parser is the judge), not necessarily type-correct: the conversion is purely syntactic",
		"only the round trip is judged, not the intermediate XGo tree (e.g. whether XGo token numbers equal Go token numbers)",
	}
	c.Finish()
}

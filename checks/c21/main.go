// C21: formatting keeps every comment, in order.
// Mode E: every pool source as is, and, for every pool source of <= 40 tokens, a comment of each
// style (/*k*/, //k, # k) inserted at every token boundary (variants that no longer parse are
// outside the premise).
package main

import (
	"fmt"

	"verif/corpus"
	"verif/engine"
	"verif/fmtx"
)

type Case struct {
	Name string `json:"name"`
	Text string `json:"text"`
	At   int    `json:"at"`   // insertion offset, -1 = none
	Kind string `json:"kind"` // inserted comment text
	// second insertion (pairs of comments): offset in the ORIGINAL text, At2 >= At; -1/0 with empty Kind2 = none
	At2   int    `json:"at2,omitempty"`
	Kind2 string `json:"kind2,omitempty"`
}

var inserts = []string{"/*k*/ ", "//k\n", "# k\n"}

// non-ASCII comment texts, among them characters whose last UTF-8 byte is 0x85 or 0xA0 (bytes that look like
// white space when taken for code points); inserted into small sources only
var insertsUnicode = []string{"//voil\u00e0\n", "# \u00c5\n", "/*\u4f60\n\u00e0*/ ", "//\u00e9 \u597d\n"}

func (k Case) src() fmtx.Src {
	if k.At < 0 {
		return fmtx.Src{Name: k.Name, Text: k.Text}
	}
	if k.Kind2 != "" {
		return fmtx.Src{Name: k.Name, Text: k.Text[:k.At] + k.Kind + k.Text[k.At:k.At2] + k.Kind2 + k.Text[k.At2:]}
	}
	return fmtx.Src{Name: k.Name, Text: k.Text[:k.At] + k.Kind + k.Text[k.At:]}
}

// pairs of comments: the first is always a block comment, the second a block or a line comment
var pairInserts = [][2]string{{"/*k*/ ", "/*m*/ "}, {"/*k*/ ", "//m\n"}}

func main() {
	c := engine.New("C21", "exploration")
	if c.IsReplay() {
		var k Case
		c.LoadReplay(&k)
		f, _, _ := fmtx.CommentsPreserved(k.src())
		c.ReplayResult(f)
	}
	pool := fmtx.Pool(c.Thorough())
	maxTok := 40
	maxPair := 7
	if c.Thorough() {
		maxPair = 10
	}
	nSeeds := len(corpus.HandSeeds)
	const B = 32
	job := &engine.Job{NumBlocks: (len(pool) + B - 1) / B}
	job.RunBlock = func(w *engine.W, b int) {
		for i := b * B; i < (b+1)*B && i < len(pool); i++ {
			s := pool[i]
			run := func(k Case) {
				if !w.Item(k) {
					return
				}
				f, premise, n := fmtx.CommentsPreserved(k.src())
				if !premise {
					w.Hist("excluded_does_not_parse")
					return
				}
				if n > 0 {
					w.Nontrivial()
				}
				if f != nil {
					w.Fail(k, f)
				}
			}
			run(Case{Name: s.Name, Text: s.Text, At: -1})
			bs := fmtx.Boundaries(s.Text)
			if len(bs) > maxTok+1 {
				w.Hist("no_insertion_more_than_40_tokens")
				continue
			}
			for _, at := range bs {
				for _, ins := range inserts {
					run(Case{Name: s.Name, Text: s.Text, At: at, Kind: ins})
				}
				if len(bs) <= 13 || i < nSeeds {
					for _, ins := range insertsUnicode {
						run(Case{Name: s.Name, Text: s.Text, At: at, Kind: ins})
					}
				}
			}
			// two comments at every pair of boundaries (small sources and all hand seeds): the printer's
			// comment look-ahead has state that one comment alone does not exercise
			if len(bs) <= maxPair+1 || i < nSeeds && len(bs) <= 25 {
				for x, at := range bs {
					for _, at2 := range bs[x:] {
						for _, pi := range pairInserts {
							run(Case{Name: s.Name, Text: s.Text, At: at, Kind: pi[0], At2: at2, Kind2: pi[1]})
							w.Hist("comment_pairs")
						}
					}
				}
			}
			if i%499 == 1 && len(bs) > 2 {
				w.Sample(Case{Name: s.Name, Text: s.Text, At: bs[1], Kind: inserts[0]})
			}
		}
	}
	job.Run(c)
	c.Rule = fmt.Sprintf("pool of %d sources (hand seeds, enumerated grammar depth 1 quick / 2 thorough, all repository XGo files), each formatted as is; for every source of <= %d tokens additionally one comment of each style {/*k*/, //k, # k} inserted at every token boundary; and, for every source of <= %d tokens and every hand seed, two comments (block+block, block+line) at every pair of token boundaries; variants that do not parse are excluded and counted. distinct_nontrivial = formatted variants containing at least one comment", len(pool), maxTok, maxPair)
	c.Assumptions = []string{"comment texts are compared as sequences after trimming every line (the printer re-indents block comments and strips trailing blanks by design)", "when the output does not parse (C19's business) comments are searched textually, in order"}
	c.Finish()
}

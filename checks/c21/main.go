// C21: formatting keeps every comment, in order.
// Mode E: every pool source as is, and, for every pool source of <= 40 tokens, a comment of each
// style (/*k*/, //k, # k) inserted at every token boundary (variants that no longer parse are
// outside the premise).
package main

import (
	"fmt"

	"verif/engine"
	"verif/fmtx"
)

type Case struct {
	Name string `json:"name"`
	Text string `json:"text"`
	At   int    `json:"at"`   // insertion offset, -1 = none
	Kind string `json:"kind"` // inserted comment text
}

var inserts = []string{"/*k*/ ", "//k\n", "# k\n"}

func (k Case) src() fmtx.Src {
	if k.At < 0 {
		return fmtx.Src{Name: k.Name, Text: k.Text}
	}
	return fmtx.Src{Name: k.Name, Text: k.Text[:k.At] + k.Kind + k.Text[k.At:]}
}

func main() {
	c := engine.New("C21", "exploration")
	if c.IsReplay() {
		var k Case
		c.LoadReplay(&k)
		f, _, _ := fmtx.CommentsPreserved(k.src())
		c.ReplayResult(f)
	}
	pool := fmtx.Pool(c.Thorough())
	maxTok := 40
	const B = 32
	job := &engine.Job{NumBlocks: (len(pool) + B - 1) / B}
	job.RunBlock = func(w *engine.W, b int) {
		for i := b * B; i < (b+1)*B && i < len(pool); i++ {
			s := pool[i]
			run := func(k Case) {
				if !w.Item(k) {
					return
				}
				f, premise, n := fmtx.CommentsPreserved(k.src())
				if !premise {
					w.Hist("excluded_does_not_parse")
					return
				}
				if n > 0 {
					w.Nontrivial()
				}
				if f != nil {
					w.Fail(k, f)
				}
			}
			run(Case{s.Name, s.Text, -1, ""})
			bs := fmtx.Boundaries(s.Text)
			if len(bs) > maxTok+1 {
				w.Hist("no_insertion_more_than_40_tokens")
				continue
			}
			for _, at := range bs {
				for _, ins := range inserts {
					run(Case{s.Name, s.Text, at, ins})
				}
			}
			if i%499 == 1 && len(bs) > 2 {
				w.Sample(Case{s.Name, s.Text, bs[1], inserts[0]})
			}
		}
	}
	job.Run(c)
	c.Rule = fmt.Sprintf("pool of %d sources (hand seeds, enumerated grammar depth 1 quick / 2 thorough, all repository XGo files), each formatted as is; for every source of <= %d tokens additionally one comment of each style {/*k*/, //k, # k} inserted at every token boundary; variants that do not parse are excluded and counted. distinct_nontrivial = formatted variants containing at least one comment", len(pool), maxTok)
	c.Assumptions = []string{"comment texts are compared as sequences after trimming every line (the printer re-indents block comments and strips trailing blanks by design)", "when the output does not parse (C19's business) comments are searched textually, in order"}
	c.Finish()
}

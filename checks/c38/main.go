// C38: JSON-RPC header framing round-trips any message stream; malformed
// streams yield errors, never panics, never reads past the declared length.
//
// Mode E (bounded exhaustive) with the reference model verif/models/framingref.
//
//	phase seq:    every sequence (length <= 2 quick, <= 3 thorough) over a menu of
//	              calls / notifications / result responses / error responses is
//	              written by HeaderFramer().Writer into one buffer; the bytes are
//	              judged by the reference parser (writer side) and read back by
//	              HeaderFramer().Reader in two chunkings (reader side).
//	phase stream: hand-made byte streams (truncations, single byte substitutions,
//	              a header menu, trailing sentinels) are read until the first
//	              error; every Read is judged against framingref.Parse of the
//	              remaining bytes (accept / reject / unsure = excluded).
//	phase huge:   Content-Length values >= 2^28 run in worker subprocesses
//	              (engine.Job) under a memory watchdog.
package main

import (
	"bytes"
	"context"
	"encoding/json"
	"errors"
	"fmt"
	"io"
	"math"
	"os"
	"runtime"
	"sort"
	"strconv"
	"strings"
	"sync"

	"github.com/goplus/xgo/x/jsonrpc2"
	"verif/engine"
	ref "verif/models/framingref"
)

var ctx = context.Background()

// ---------------------------------------------------------------- cases

type MsgSpec struct {
	Kind    string `json:"kind"` // call | notification | result | error
	Method  string `json:"method,omitempty"`
	IDKind  string `json:"id_kind,omitempty"` // int | str
	ID      string `json:"id,omitempty"`      // decimal text or the string id
	Payload string `json:"payload,omitempty"` // raw JSON text put into Params / Result, "" = absent
	Err     string `json:"err,omitempty"`     // plain | wire | wiredata | wrapped
}

type Case struct {
	Mode   string    `json:"mode"` // seq | stream | huge
	Msgs   []MsgSpec `json:"msgs,omitempty"`
	Stream []byte    `json:"stream,omitempty"`
	Text   string    `json:"text,omitempty"` // the stream, Go-quoted, for the reader of the replay file
	Desc   string    `json:"desc,omitempty"`
}

func streamCase(desc string, s []byte) Case {
	return Case{Mode: "stream", Stream: s, Text: strconv.Quote(string(s)), Desc: desc}
}

// ---------------------------------------------------------------- menu

type idSpec struct{ kind, text string }

var idMenu = []idSpec{
	{"int", "0"}, {"int", "1"}, {"int", "-1"},
	{"int", "9007199254740992"},     // 2^53
	{"int", "9007199254740993"},     // 2^53+1
	{"int", "9223372036854775807"},  // MaxInt64
	{"int", "-9223372036854775808"}, // MinInt64
	{"str", ""}, {"str", "a"},
}

var payloadMenu = []string{"", "null", "{}", "[1]", `{ "a" : 1 }`, "[\"<é>\", 1.50]"}
var errMenu = []string{"plain", "wire", "wiredata", "wrapped"}
var notifMethods = []string{"m", "$/a b\"\\\n<é>"}

func fullMenu() []MsgSpec {
	var m []MsgSpec
	for _, p := range payloadMenu {
		for _, me := range notifMethods {
			m = append(m, MsgSpec{Kind: "notification", Method: me, Payload: p})
		}
	}
	for _, id := range idMenu {
		for _, p := range payloadMenu {
			m = append(m, MsgSpec{Kind: "call", Method: "m", IDKind: id.kind, ID: id.text, Payload: p})
		}
	}
	for _, id := range idMenu {
		for _, p := range payloadMenu {
			m = append(m, MsgSpec{Kind: "result", IDKind: id.kind, ID: id.text, Payload: p})
		}
	}
	for _, id := range idMenu {
		for _, e := range errMenu {
			m = append(m, MsgSpec{Kind: "error", IDKind: id.kind, ID: id.text, Err: e})
		}
	}
	return m
}

// ---------------------------------------------------------------- building real messages

const dataErrBody = `{"jsonrpc":"2.0","id":1,"error":{"code":7,"message":"with data","data":{"k":[1,2]}}}`

var (
	dataErrOnce sync.Once
	dataErr     error
	dataErrFail *engine.Failure
)

// wireDataError obtains a wire error carrying a data member. The type is not
// exported and NewError has no data argument, so the only public way is to
// decode one.
func wireDataError() (error, *engine.Failure) {
	dataErrOnce.Do(func() {
		var m jsonrpc2.Message
		var err error
		if f := engine.Guard(func() { m, err = jsonrpc2.DecodeMessage([]byte(dataErrBody)) }); f != nil {
			dataErrFail = f
			return
		}
		r, ok := m.(*jsonrpc2.Response)
		if err != nil || !ok || r.Error == nil {
			dataErrFail = &engine.Failure{Key: "decode:rejects-wellformed-error-response", What: "DecodeMessage does not return an error response for a well-formed one", Detail: fmt.Sprintf("body=%s msg=%#v err=%v", dataErrBody, m, err)}
			return
		}
		dataErr = r.Error
	})
	return dataErr, dataErrFail
}

func idOf(s MsgSpec) jsonrpc2.ID {
	if s.IDKind == "int" {
		v, _ := strconv.ParseInt(s.ID, 10, 64)
		return jsonrpc2.Int64ID(v)
	}
	return jsonrpc2.StringID(s.ID)
}

func raw(p string) json.RawMessage {
	if p == "" {
		return nil
	}
	return json.RawMessage(p)
}

func build(s MsgSpec) (jsonrpc2.Message, *engine.Failure) {
	switch s.Kind {
	case "call":
		r, _ := jsonrpc2.NewCall(idOf(s), s.Method, nil)
		r.Params = raw(s.Payload)
		return r, nil
	case "notification":
		r, _ := jsonrpc2.NewNotification(s.Method, nil)
		r.Params = raw(s.Payload)
		return r, nil
	case "result":
		r, _ := jsonrpc2.NewResponse(idOf(s), nil, nil)
		r.Result = raw(s.Payload)
		return r, nil
	case "error":
		var e error
		switch s.Err {
		case "plain":
			e = errors.New("plain failure")
		case "wire":
			e = jsonrpc2.NewError(-32601, "method not found")
		case "wrapped":
			e = fmt.Errorf("ctx: %w", jsonrpc2.NewError(-32000, "inner"))
		case "wiredata":
			var f *engine.Failure
			if e, f = wireDataError(); f != nil {
				return nil, f
			}
		}
		r, _ := jsonrpc2.NewResponse(idOf(s), nil, e)
		return r, nil
	}
	panic("bad spec kind " + s.Kind)
}

// expected is the abstract content the specification of the message denotes.
func expected(s MsgSpec) *ref.Msg {
	m := &ref.Msg{Kind: s.Kind, Method: s.Method, Payload: s.Payload}
	if s.Kind != "notification" {
		m.IDKind, m.IDText = s.IDKind, s.ID
		if s.IDKind == "int" {
			m.IDInt, _ = strconv.ParseInt(s.ID, 10, 64)
		}
	}
	switch s.Err {
	case "plain":
		m.ErrMsg, m.CodeFree = "plain failure", true
	case "wire":
		m.ErrCode, m.ErrMsg = -32601, "method not found"
	case "wrapped": // errors.Is(e, NewError(-32000, _)) holds for e, e.Error() is "ctx: inner"
		m.ErrCode, m.ErrMsg = -32000, "ctx: inner"
	case "wiredata":
		m.ErrCode, m.ErrMsg, m.ErrData = 7, "with data", `{"k":[1,2]}`
	}
	return m
}

// ---------------------------------------------------------------- comparing

func fail(key, what, detail string) *engine.Failure {
	return &engine.Failure{Key: key, What: what, Detail: detail}
}

const two53 = int64(1) << 53

func kindOf(m jsonrpc2.Message) string {
	switch v := m.(type) {
	case *jsonrpc2.Request:
		if v == nil {
			return "nil-request"
		}
		if v.IsCall() {
			return "call"
		}
		return "notification"
	case *jsonrpc2.Response:
		if v == nil {
			return "nil-response"
		}
		if v.Error != nil {
			return "error"
		}
		return "result"
	case nil:
		return "nil"
	}
	return fmt.Sprintf("%T", m)
}

func show(m jsonrpc2.Message) string {
	switch v := m.(type) {
	case *jsonrpc2.Request:
		if v != nil {
			return fmt.Sprintf("Request{ID:%#v Method:%q Params:%q}", v.ID.Raw(), v.Method, string(v.Params))
		}
	case *jsonrpc2.Response:
		if v != nil {
			return fmt.Sprintf("Response{ID:%#v Result:%q Error:%v}", v.ID.Raw(), string(v.Result), v.Error)
		}
	}
	return fmt.Sprintf("%#v", m)
}

func payloadClass(p string) string {
	switch p {
	case "":
		return "absent"
	case "null":
		return "null"
	}
	return "value"
}

// compare lists the differences between the abstract message want and the
// message got that the library produced. where prefixes the detail.
func compare(want *ref.Msg, got jsonrpc2.Message, st *stats, where func() string) []*engine.Failure {
	var fs []*engine.Failure
	add := func(key, what string) {
		if st.quiet(key) { // already reported with full detail in this block
			fs = append(fs, fail(key, what, ""))
			return
		}
		fs = append(fs, fail(key, what, fmt.Sprintf("%s\nwant %+v\ngot  %s", where(), *want, show(got))))
	}
	gk := kindOf(got)
	if gk != want.Kind {
		add("msg-kind:"+want.Kind+"->"+gk, "a "+want.Kind+" message is read back as "+gk)
		return fs
	}
	var id jsonrpc2.ID
	var payload json.RawMessage
	field := "params"
	switch v := got.(type) {
	case *jsonrpc2.Request:
		id, payload = v.ID, v.Params
		if v.Method != want.Method {
			add("method-roundtrip", "method differs")
		}
	case *jsonrpc2.Response:
		id, payload, field = v.ID, v.Result, "result"
	}
	switch want.IDKind {
	case "":
		if id.IsValid() {
			add("id-roundtrip:notification-has-id", "notification read back with an id")
		}
	case "int":
		g, ok := id.Raw().(int64)
		switch {
		case !ok:
			add("id-roundtrip:type", fmt.Sprintf("integer id read back as %T", id.Raw()))
		case g != want.IDInt && (want.IDInt > two53 || want.IDInt < -two53):
			add("id-roundtrip:int>2^53", "integer id of magnitude above 2^53 is not read back exactly (decoded through float64)")
		case g != want.IDInt:
			add("id-roundtrip:int", "integer id differs")
		}
	case "str":
		g, ok := id.Raw().(string)
		switch {
		case !ok:
			add("id-roundtrip:type", fmt.Sprintf("string id read back as %T", id.Raw()))
		case g != want.IDText:
			add("id-roundtrip:str", "string id differs")
		}
	}
	switch {
	case want.Payload == "" && len(payload) != 0:
		add("payload-roundtrip:"+field+":absent", "absent "+field+" read back as present")
	case want.Payload != "" && !ref.JSONEqual(want.Payload, string(payload)):
		add("payload-roundtrip:"+field+":"+payloadClass(want.Payload), field+" is not JSON-equal")
	}
	if want.Kind == "error" {
		e := got.(*jsonrpc2.Response).Error
		if e.Error() != want.ErrMsg {
			add("error-roundtrip:message", "error message differs")
		}
		if !want.CodeFree && !errors.Is(e, jsonrpc2.NewError(want.ErrCode, "")) {
			add("error-roundtrip:code", fmt.Sprintf("error code differs (errors.Is(err, NewError(%d, _)) is false)", want.ErrCode))
		}
		// data is only observable by encoding the message again
		var body []byte
		var err error
		if f := engine.Guard(func() { body, err = jsonrpc2.EncodeMessage(got) }); f != nil {
			fs = append(fs, f)
		} else if err == nil {
			var w struct {
				Error struct {
					Data json.RawMessage `json:"data"`
				} `json:"error"`
			}
			if json.Unmarshal(body, &w) == nil {
				switch {
				case want.ErrData == "" && len(w.Error.Data) != 0:
					add("error-roundtrip:data", "error without data read back with data")
				case want.ErrData != "" && !ref.JSONEqual(want.ErrData, string(w.Error.Data)):
					add("error-roundtrip:data", "error data is not JSON-equal")
				}
			}
		}
	}
	return fs
}

// refDiff compares two abstract messages (writer side check).
func refDiff(want, got *ref.Msg) string {
	switch {
	case got == nil:
		return "shape"
	case want.Kind != got.Kind:
		return "kind"
	case want.Method != got.Method:
		return "method"
	case want.IDKind != got.IDKind || want.IDText != got.IDText:
		return "id"
	case (want.Payload == "") != (got.Payload == "") || want.Payload != "" && !ref.JSONEqual(want.Payload, got.Payload):
		return "payload"
	case want.ErrMsg != got.ErrMsg:
		return "error-message"
	case !want.CodeFree && want.ErrCode != got.ErrCode:
		return "error-code"
	case (want.ErrData == "") != (got.ErrData == "") || want.ErrData != "" && !ref.JSONEqual(want.ErrData, got.ErrData):
		return "error-data"
	}
	return ""
}

// ---------------------------------------------------------------- byte source

// source hands out at most chunk bytes per Read (0 = everything) and counts.
// With chunk 1 a buffering reader can never hold more bytes than it was forced
// to request, so pos is exactly what the framer needed to see.
type source struct {
	data  []byte
	pos   int
	chunk int
}

func (s *source) Read(p []byte) (int, error) {
	if s.pos >= len(s.data) {
		return 0, io.EOF
	}
	n := len(s.data) - s.pos
	if n > len(p) {
		n = len(p)
	}
	if s.chunk > 0 && n > s.chunk {
		n = s.chunk
	}
	copy(p, s.data[s.pos:s.pos+n])
	s.pos += n
	return n, nil
}

type readResult struct {
	msg jsonrpc2.Message
	n   int64
	err error
}

func guardedRead(r jsonrpc2.Reader) (res readResult, f *engine.Failure) {
	f = engine.Guard(func() { res.msg, res.n, res.err = r.Read(ctx) })
	return
}

func isNilMsg(m jsonrpc2.Message) bool {
	switch v := m.(type) {
	case nil:
		return true
	case *jsonrpc2.Request:
		return v == nil
	case *jsonrpc2.Response:
		return v == nil
	}
	return false
}

// ---------------------------------------------------------------- phase seq

type stats struct {
	hist map[string]int64
	seen map[string]bool       // failure keys already reported by this block
	memo map[string]*ref.Frame // reference verdicts of complete strict frames, by frame bytes
}

func newStats() *stats {
	return &stats{hist: map[string]int64{}, seen: map[string]bool{}, memo: map[string]*ref.Frame{}}
}

func (s *stats) add(k string) {
	if s != nil {
		s.hist[k]++
	}
}

func (s *stats) quiet(key string) bool { return s != nil && s.seen[key] }

// parse is ref.Parse, memoised for streams that start with a complete frame
// under the strict grammar: the verdict then depends on the frame bytes only.
func (s *stats) parse(rest []byte) *ref.Frame {
	if s != nil {
		if he, l, ok := ref.StrictHeader(rest); ok && int64(he)+l <= int64(len(rest)) {
			fb := rest[:he+int(l)]
			if fr, ok := s.memo[string(fb)]; ok {
				return fr
			}
			fr := ref.Parse(fb)
			if len(s.memo) < 1<<16 {
				s.memo[string(fb)] = &fr
			}
			return &fr
		}
	}
	fr := ref.Parse(rest)
	return &fr
}

func evalSeq(specs []MsgSpec, st *stats) []*engine.Failure {
	var fs []*engine.Failure
	desc := func() string { b, _ := json.Marshal(specs); return string(b) }
	var buf bytes.Buffer
	w := jsonrpc2.HeaderFramer().Writer(&buf)
	want := make([]*ref.Msg, len(specs))
	for i, s := range specs {
		msg, bf := build(s)
		if bf != nil {
			return []*engine.Failure{bf}
		}
		want[i] = expected(s)
		before := buf.Len()
		var n int64
		var err error
		if f := engine.Guard(func() { n, err = w.Write(ctx, msg) }); f != nil {
			return []*engine.Failure{f}
		}
		if err != nil {
			return []*engine.Failure{fail("write:error:"+s.Kind, "Write fails for a well-formed message", fmt.Sprintf("msgs=%s #%d err=%v", desc(), i, err))}
		}
		if n != int64(buf.Len()-before) {
			fs = append(fs, fail("write:count", "Write reports a byte count different from what it wrote", fmt.Sprintf("msgs=%s #%d n=%d wrote=%d", desc(), i, n, buf.Len()-before)))
		}
	}
	stream := buf.Bytes()
	// writer side: the reference parser must find exactly these messages
	ends := make([]int, len(specs))
	pos := 0
	for i := range specs {
		fr := st.parse(stream[pos:])
		if !fr.HeaderStrict || fr.Class == ref.Reject || fr.Body.Msg == nil {
			fs = append(fs, fail("write:malformed-frame:"+fr.Reason, "the writer's output is not a well-formed frame for the reference parser", fmt.Sprintf("msgs=%s #%d at offset %d stream=%q", desc(), i, pos, stream)))
			return fs
		}
		if d := refDiff(want[i], fr.Body.Msg); d != "" {
			fs = append(fs, fail("write:wrong-"+d, "the written frame does not denote the message ("+d+")", fmt.Sprintf("msgs=%s #%d want %+v reference read %+v stream=%q", desc(), i, *want[i], *fr.Body.Msg, stream)))
		}
		pos += fr.FrameLen()
		ends[i] = pos
	}
	if pos != len(stream) {
		fs = append(fs, fail("write:trailing-bytes", "bytes after the last frame", fmt.Sprintf("msgs=%s stream=%q", desc(), stream)))
	}
	// reader side
	for _, chunk := range []int{0, 1} {
		src := &source{data: stream, chunk: chunk}
		r := jsonrpc2.HeaderFramer().Reader(src)
		ok := true
		for i := range specs {
			where := func() string { return fmt.Sprintf("msgs=%s #%d chunk=%d stream=%q", desc(), i, chunk, stream) }
			res, f := guardedRead(r)
			if f != nil {
				return append(fs, f)
			}
			if res.err != nil {
				fs = append(fs, fail("roundtrip:read-error:"+specs[i].Kind, "reading back a written "+specs[i].Kind+" fails", where()+fmt.Sprintf("\nerr=%v", res.err)))
				ok = false
				break
			}
			if isNilMsg(res.msg) {
				fs = append(fs, fail("read:nil-message-nil-error", "Read returns neither a message nor an error", where()))
				ok = false
				break
			}
			fs = append(fs, compare(want[i], res.msg, st, where)...)
			if chunk == 1 && src.pos != ends[i] {
				key := "read:past-content-length"
				if src.pos < ends[i] {
					key = "read:short-consumption"
				}
				fs = append(fs, fail(key, "after Read the framer has requested a different number of bytes than the frame has", where()+fmt.Sprintf("\nconsumed=%d frame end=%d", src.pos, ends[i])))
			}
		}
		if !ok {
			continue
		}
		res, f := guardedRead(r)
		if f != nil {
			return append(fs, f)
		}
		switch {
		case res.err == nil:
			fs = append(fs, fail("read:phantom-message-at-eof", "Read after the last message returns no error", fmt.Sprintf("msgs=%s chunk=%d got %s", desc(), chunk, show(res.msg))))
		case res.err == io.EOF:
			st.add("seq_end_io.EOF")
		default:
			st.add("seq_end_other_error")
		}
	}
	return fs
}

// ---------------------------------------------------------------- phase stream

const maxSteps = 5

type step struct {
	accepted bool
	want     *ref.Msg // judged content, nil = not judged
}

func evalStream(stream []byte, st *stats) []*engine.Failure {
	var fs []*engine.Failure
	detail := func(stepNo, pos, chunk int, extra string) string {
		return fmt.Sprintf("stream=%q step=%d offset=%d chunk=%d %s", stream, stepNo, pos, chunk, extra)
	}
	// primary run: one byte per underlying Read, so consumption is exact
	var steps []step
	src := &source{data: stream, chunk: 1}
	r := jsonrpc2.HeaderFramer().Reader(src)
	pos := 0
	for i := 0; i < maxSteps; i++ {
		rest := stream[pos:]
		fr := st.parse(rest)
		res, f := guardedRead(r)
		if f != nil {
			return append(fs, f)
		}
		consumed := src.pos - pos
		if res.n != int64(consumed) {
			st.add("obs_n_differs_from_consumed") // the count is not documented: not judged
		}
		if res.err == nil && isNilMsg(res.msg) {
			return append(fs, fail("read:nil-message-nil-error", "Read returns neither a message nor an error", detail(i, pos, 1, "")))
		}
		if res.err != nil && !isNilMsg(res.msg) {
			st.add("obs_message_with_error")
		}
		acc := res.err == nil
		s := step{accepted: acc}
		switch fr.Class {
		case ref.Accept:
			st.add("ref_accept")
			if !acc {
				fs = append(fs, fail("read:rejects-wellformed:"+fr.Msg.Kind, "a well-formed frame with valid JSON-RPC content is refused", detail(i, pos, 1, fmt.Sprintf("err=%v", res.err))))
				break
			}
			s.want = fr.Msg
			fs = append(fs, compare(fr.Msg, res.msg, st, func() string { return detail(i, pos, 1, "") })...)
			if consumed != fr.FrameLen() {
				key := "read:past-content-length"
				if consumed < fr.FrameLen() {
					key = "read:short-consumption"
				}
				fs = append(fs, fail(key, "after Read the framer has requested a different number of bytes than the frame has", detail(i, pos, 1, fmt.Sprintf("consumed=%d frame=%d", consumed, fr.FrameLen()))))
				acc = false // the stream position is no longer the reference's: stop judging this stream
			}
		case ref.Reject:
			st.add("ref_reject:" + fr.Reason)
			if acc {
				key := "read:accepts-malformed:" + fr.Reason
				if len(rest) == 0 {
					key = "read:phantom-message-at-eof"
				}
				fs = append(fs, fail(key, "a malformed stream ("+fr.Reason+") yields a message instead of an error", detail(i, pos, 1, "got "+show(res.msg))))
				break
			}
			if len(rest) == 0 {
				if res.err == io.EOF {
					st.add("stream_end_io.EOF")
				} else {
					st.add("stream_end_other_error")
				}
			}
			if fr.MaxEnd >= 0 && consumed > fr.MaxEnd {
				fs = append(fs, fail("read:past-content-length", "a failing Read requested bytes beyond header + declared length", detail(i, pos, 1, fmt.Sprintf("consumed=%d bound=%d", consumed, fr.MaxEnd))))
			}
		case ref.Unsure:
			st.add("excluded_unsure:" + fr.Reason)
			if acc {
				st.add("obs_unsure_accepted")
			} else {
				st.add("obs_unsure_refused")
			}
			if !acc {
				if fr.MaxEnd >= 0 && consumed > fr.MaxEnd {
					fs = append(fs, fail("read:past-content-length", "a failing Read requested bytes beyond header + declared length", detail(i, pos, 1, fmt.Sprintf("consumed=%d bound=%d", consumed, fr.MaxEnd))))
				}
				break
			}
			// conditional facts: what was returned must be the content of a declared length
			matched := false
			for _, l := range fr.Cands {
				if int64(consumed) == int64(fr.HeaderEnd)+l {
					matched = true
					b := ref.DecodeBody(rest[fr.HeaderEnd:consumed])
					switch b.Class {
					case ref.Reject:
						fs = append(fs, fail("read:accepts-malformed:"+b.Reason, "a frame whose body is malformed ("+b.Reason+") yields a message", detail(i, pos, 1, "got "+show(res.msg))))
					case ref.Accept:
						s.want = b.Msg
						fs = append(fs, compare(b.Msg, res.msg, st, func() string { return detail(i, pos, 1, "") })...)
					}
					break
				}
			}
			if !matched {
				st.add("excluded_unsure_accepted_at_undeclared_length")
				acc = false // position unknown to the reference: stop judging this stream
			}
		}
		steps = append(steps, s)
		if !acc {
			break
		}
		pos = src.pos
	}
	// secondary runs: the outcome must not depend on how the transport chunks the bytes
	for _, chunk := range []int{0, 5} {
		r := jsonrpc2.HeaderFramer().Reader(&source{data: stream, chunk: chunk})
		for i, s := range steps {
			res, f := guardedRead(r)
			if f != nil {
				return append(fs, f)
			}
			if (res.err == nil) != s.accepted {
				fs = append(fs, fail("read:chunking-dependent", "the same bytes are accepted or refused depending on the chunking of the underlying reader", detail(i, -1, chunk, fmt.Sprintf("accepted with chunk 1: %v, now err=%v", s.accepted, res.err))))
				break
			}
			if res.err == nil && isNilMsg(res.msg) {
				fs = append(fs, fail("read:nil-message-nil-error", "Read returns neither a message nor an error", detail(i, -1, chunk, "")))
				break
			}
			if s.accepted && s.want != nil {
				fs = append(fs, compare(s.want, res.msg, st, func() string { return detail(i, -1, chunk, "") })...)
			}
		}
	}
	return fs
}

// ---------------------------------------------------------------- stream generators

var subst = []byte{0x00, '\r', '\n', ':', ' ', '9', '-', 'x', 0xff}

const (
	bodyCall   = `{"jsonrpc":"2.0","id":1,"method":"m","params":{"a":[1,"b"]}}`
	bodyErr    = `{"jsonrpc":"2.0","id":"a","error":{"code":-32601,"message":"method not found"}}`
	bodyNotif  = `{"jsonrpc":"2.0","method":"n"}`
	bodyResult = `{"jsonrpc":"2.0","id":12,"result":[true,null]}`
)

func frame(b string) []byte { return ref.FrameBytes([]byte(b)) }

func cat(parts ...[]byte) []byte {
	var out []byte
	for _, p := range parts {
		out = append(out, p...)
	}
	return out
}

func baseStreams() map[string][]byte {
	return map[string][]byte{
		"call":       frame(bodyCall),
		"error-resp": frame(bodyErr),
		"two":        cat(frame(bodyNotif), frame(bodyResult)),
	}
}

// mutations of one base stream: every truncation, every single substitution
func mutate(name string, base []byte, emit func(Case)) {
	for i := 0; i <= len(base); i++ {
		emit(streamCase(fmt.Sprintf("%s truncated to %d", name, i), append([]byte(nil), base[:i]...)))
	}
	for i := range base {
		for _, c := range subst {
			if base[i] == c {
				continue
			}
			m := append([]byte(nil), base...)
			m[i] = c
			emit(streamCase(fmt.Sprintf("%s byte %d -> %q", name, i, string(c)), m))
		}
	}
}

// header menu; %d is the body length, %+d variants are spelled out.
func headerMenu() []Case {
	body := bodyCall
	n := len(body)
	next := frame(bodyNotif)
	type hv struct{ desc, head, body string }
	d := strconv.Itoa
	hs := []hv{
		{"canonical", "Content-Length: " + d(n) + "\r\n\r\n", body},
		{"missing Content-Length, blank line only", "\r\n", body},
		{"no header at all", "", body},
		{"header not terminated by blank line", "Content-Length: " + d(n) + "\r\n", body},
		{"leading blank line", "\r\nContent-Length: " + d(n) + "\r\n\r\n", body},
		{"zero", "Content-Length: 0\r\n\r\n", body},
		{"zero zero", "Content-Length: 00\r\n\r\n", body},
		{"minus zero", "Content-Length: -0\r\n\r\n", body},
		{"negative one", "Content-Length: -1\r\n\r\n", body},
		{"negative length", "Content-Length: -" + d(n) + "\r\n\r\n", body},
		{"non numeric", "Content-Length: abc\r\n\r\n", body},
		{"digits then letter", "Content-Length: " + d(n) + "x\r\n\r\n", body},
		{"hex", "Content-Length: 0x3c\r\n\r\n", body},
		{"exponent", "Content-Length: 6e1\r\n\r\n", body},
		{"decimal point", "Content-Length: " + d(n) + ".0\r\n\r\n", body},
		{"empty value", "Content-Length:\r\n\r\n", body},
		{"blank value", "Content-Length:   \r\n\r\n", body},
		{"inner space", "Content-Length: 6 0\r\n\r\n", body},
		{"underscore", "Content-Length: 6_0\r\n\r\n", body},
		{"fullwidth digits", "Content-Length: ６０\r\n\r\n", body},
		{"plus sign", "Content-Length: +" + d(n) + "\r\n\r\n", body},
		{"leading zero", "Content-Length: 0" + d(n) + "\r\n\r\n", body},
		{"one too many", "Content-Length: " + d(n+1) + "\r\n\r\n", body},
		{"one too few", "Content-Length: " + d(n-1) + "\r\n\r\n", body},
		{"duplicate same", "Content-Length: " + d(n) + "\r\nContent-Length: " + d(n) + "\r\n\r\n", body},
		{"duplicate short then right", "Content-Length: " + d(n-1) + "\r\nContent-Length: " + d(n) + "\r\n\r\n", body},
		{"duplicate right then short", "Content-Length: " + d(n) + "\r\nContent-Length: " + d(n-1) + "\r\n\r\n", body},
		{"duplicate bad then right", "Content-Length: x\r\nContent-Length: " + d(n) + "\r\n\r\n", body},
		{"duplicate right then bad", "Content-Length: " + d(n) + "\r\nContent-Length: x\r\n\r\n", body},
		{"duplicate bad bad", "Content-Length: x\r\nContent-Length: -3\r\n\r\n", body},
		{"duplicate right then zero", "Content-Length: " + d(n) + "\r\nContent-Length: 0\r\n\r\n", body},
		{"LF only", "Content-Length: " + d(n) + "\n\n", body},
		{"CRLF then LF", "Content-Length: " + d(n) + "\r\n\n", body},
		{"LF then CRLF", "Content-Length: " + d(n) + "\n\r\n", body},
		{"CR only", "Content-Length: " + d(n) + "\r\r", body},
		{"Content-Type after", "Content-Length: " + d(n) + "\r\nContent-Type: application/vscode-jsonrpc; charset=utf-8\r\n\r\n", body},
		{"Content-Type before", "Content-Type: application/vscode-jsonrpc; charset=utf-8\r\nContent-Length: " + d(n) + "\r\n\r\n", body},
		{"unknown header", "X-Unknown: 1\r\nContent-Length: " + d(n) + "\r\n\r\n", body},
		{"unknown header with colons", "X-Unknown: a:b:c\r\nContent-Length: " + d(n) + "\r\n\r\n", body},
		{"unknown header empty value", "X-Unknown:\r\nContent-Length: " + d(n) + "\r\n\r\n", body},
		{"no colon", "Content-Length " + d(n) + "\r\n\r\n", body},
		{"no-colon line before", "garbage\r\nContent-Length: " + d(n) + "\r\n\r\n", body},
		{"no-colon line after", "Content-Length: " + d(n) + "\r\ngarbage\r\n\r\n", body},
		{"empty name only", ": " + d(n) + "\r\n\r\n", body},
		{"empty name extra", ": x\r\nContent-Length: " + d(n) + "\r\n\r\n", body},
		{"lower case name", "content-length: " + d(n) + "\r\n\r\n", body},
		{"upper case name", "CONTENT-LENGTH: " + d(n) + "\r\n\r\n", body},
		{"no space after colon", "Content-Length:" + d(n) + "\r\n\r\n", body},
		{"spaces around value", "Content-Length:   " + d(n) + "  \r\n\r\n", body},
		{"tab after colon", "Content-Length:\t" + d(n) + "\r\n\r\n", body},
		{"space before colon", "Content-Length : " + d(n) + "\r\n\r\n", body},
		{"leading tab", "\tContent-Length: " + d(n) + "\r\n\r\n", body},
		{"similar name", "Content-Lengths: " + d(n) + "\r\n\r\n", body},
		{"body with white space", "Content-Length: " + d(n+4) + "\r\n\r\n", " " + body + " \r\n"},
	}
	for _, b := range []struct{ desc, body string }{
		{"body is array", "[]"}, {"body is number", "7"}, {"body is null", "null"}, {"body is string", `"x"`},
		{"body without version", `{"id":1,"method":"m"}`},
		{"body version 1.0", `{"jsonrpc":"1.0","id":1,"method":"m"}`},
		{"body version number", `{"jsonrpc":2.0,"id":1,"method":"m"}`},
		{"body version null", `{"jsonrpc":null,"id":1,"method":"m"}`},
		{"body empty object", "{}"},
		{"body two values", bodyNotif + bodyNotif},
		{"body trailing comma", `{"jsonrpc":"2.0","id":1,"method":"m",}`},
		{"body result null", `{"jsonrpc":"2.0","id":1,"result":null}`},
		{"body result false", `{"jsonrpc":"2.0","id":"","result":false}`},
		{"body error with data", dataErrBody},
		{"body id fraction", `{"jsonrpc":"2.0","id":1.5,"method":"m"}`},
		{"body id null", `{"jsonrpc":"2.0","id":null,"method":"m"}`},
		{"body id bool", `{"jsonrpc":"2.0","id":true,"method":"m"}`},
		{"body upper case keys", `{"JSONRPC":"2.0","ID":1,"METHOD":"m"}`},
		{"body duplicate id", `{"jsonrpc":"2.0","id":1,"id":2,"method":"m"}`},
	} {
		hs = append(hs, hv{b.desc, "Content-Length: " + d(len(b.body)) + "\r\n\r\n", b.body})
	}
	var out []Case
	for _, h := range hs {
		out = append(out, streamCase("header menu: "+h.desc, []byte(h.head+h.body)))
		out = append(out, streamCase("header menu: "+h.desc+" + valid frame", cat([]byte(h.head+h.body), next)))
		// the same header block as a LATER frame of one reader: after a valid frame whose body has the same length
		// (whatever the reader remembers from the first frame would fit the second), after one of another length,
		// and between two valid frames
		out = append(out, streamCase("valid frame of the same length + header menu: "+h.desc, cat(frame(bodyCall), []byte(h.head+h.body))))
		out = append(out, streamCase("valid frame of another length + header menu: "+h.desc, cat(next, []byte(h.head+h.body))))
		out = append(out, streamCase("valid frame + header menu: "+h.desc+" + valid frame", cat(frame(bodyCall), []byte(h.head+h.body), next)))
	}
	// (d) a valid frame followed by a sentinel
	for _, s := range []string{"X", "\r\n", "\n", "{", "\xde\xad\xbe\xef", "Content-Length: 1\r\n\r\n", "Content-Length: 1\r\n\r\n{", string(frame(bodyErr)), string(frame(bodyErr)) + "\x00"} {
		out = append(out, streamCase("valid frame + sentinel "+strconv.Quote(s), cat(frame(bodyCall), []byte(s))))
	}
	return out
}

// hugeCases: declared lengths a reader cannot satisfy from a short stream.
func hugeCases() []Case {
	var out []Case
	n := len(bodyCall)
	for _, v := range []string{
		"268435456", "1073741824", "2147483647", "2147483648", "4294967296", "4294967297",
		strconv.FormatInt(4294967296+int64(n), 10), // wraps to the true length in 32 bits
		"99999999999", "9223372036854775807", "9223372036854775808", "18446744073709551616",
		strconv.FormatUint(1<<63+uint64(n), 10), strconv.FormatUint(math.MaxUint64, 10),
		"99999999999999999999", "999999999999999999999999999999999999999",
	} {
		k := streamCase("huge Content-Length "+v, []byte("Content-Length: "+v+"\r\n\r\n"+bodyCall))
		k.Mode = "huge"
		out = append(out, k)
	}
	return out
}

// ---------------------------------------------------------------- driver

// evalHuge judges a stream whose declared length is far beyond its size with a
// single Read (every further Read of evalStream would allocate again).
func evalHuge(stream []byte, st *stats) []*engine.Failure {
	fr := ref.Parse(stream)
	if fr.Class != ref.Reject {
		return []*engine.Failure{fail("harness:huge-case-not-rejected-by-reference", "harness error", fmt.Sprintf("stream=%q class=%v", stream, fr.Class))}
	}
	r := jsonrpc2.HeaderFramer().Reader(&source{data: stream})
	res, f := guardedRead(r)
	if f != nil {
		return []*engine.Failure{f}
	}
	st.add("ref_reject:" + fr.Reason)
	if res.err == nil {
		return []*engine.Failure{fail("read:accepts-malformed:"+fr.Reason, "a frame declaring more bytes than the stream holds yields a message", fmt.Sprintf("stream=%q got %s", stream, show(res.msg)))}
	}
	return nil
}

func eval(k Case, st *stats) []*engine.Failure {
	switch k.Mode {
	case "seq":
		return evalSeq(k.Msgs, st)
	case "huge":
		return evalHuge(k.Stream, st)
	}
	return evalStream(k.Stream, st)
}

// The enumeration is cut into blocks that run in single-threaded worker
// processes (many small processes are much faster here than one process with
// many goroutines, whose garbage collector cycles dominate).
//
//	[0, M)            seq: all sequences whose first message is menu[b]
//	[M, M+3)          stream: truncations and substitutions of one base stream
//	M+3               stream: header menu and sentinels
//	thorough only:
//	[M+4, 2M+4)       stream: truncations and substitutions of one menu message
//	[2M+4, 2M+4+hl)   stream: pairs of substitutions in the header, first position fixed
type plan struct {
	menu   []MsgSpec
	maxLen int
	names  []string
	bases  map[string][]byte
	hl     int
	blocks int
}

func newPlan(thorough bool) *plan {
	p := &plan{menu: fullMenu(), maxLen: 2, bases: baseStreams()}
	for n := range p.bases {
		p.names = append(p.names, n)
	}
	sort.Strings(p.names)
	M := len(p.menu)
	p.blocks = M + len(p.names) + 1
	if thorough {
		p.maxLen = 3
		p.hl = bytes.Index(p.bases["call"], []byte("\r\n\r\n")) + 4
		p.blocks += M + p.hl
	}
	return p
}

func (p *plan) runBlock(w *engine.W, b int) {
	runtime.GOMAXPROCS(1)
	st := newStats()
	M := len(p.menu)
	report := func(k Case, fs []*engine.Failure) {
		for _, f := range fs {
			st.hist["fail_occurrences:"+f.Key]++
			if !st.seen[f.Key] {
				st.seen[f.Key] = true
				w.Fail(k, f)
			}
		}
	}
	nStream := 0
	seenStream := map[string]bool{}
	runStream := func(k Case) {
		if seenStream[string(k.Stream)] {
			return
		}
		seenStream[string(k.Stream)] = true
		if !w.Item(k) {
			return
		}
		w.Nontrivial()
		nStream++
		if nStream%1499 == 7 {
			w.Sample(Case{Mode: "stream", Text: k.Text, Desc: k.Desc})
		}
		report(k, evalStream(k.Stream, st))
	}
	switch {
	case b < M:
		run := func(idx ...int) {
			specs := make([]MsgSpec, len(idx))
			mixed := false
			for i, v := range idx {
				specs[i] = p.menu[v]
				if specs[i].Kind != specs[0].Kind {
					mixed = true
				}
			}
			k := Case{Mode: "seq", Msgs: specs}
			if !w.Item(k) {
				return
			}
			st.hist["seq_len"+strconv.Itoa(len(idx))]++
			if mixed {
				w.Nontrivial()
				if b == 3 && len(idx) == 2 && idx[1]%50 == 49 {
					w.Sample(k)
				}
			}
			fs := evalSeq(specs, st)
			for _, f := range fs { // report the single message that already shows the defect, if one does
				if st.seen[f.Key] || len(specs) == 1 {
					continue
				}
				for _, one := range specs {
					for _, g := range evalSeq([]MsgSpec{one}, nil) {
						if g.Key == f.Key && !st.seen[g.Key] {
							report(Case{Mode: "seq", Msgs: []MsgSpec{one}}, []*engine.Failure{g})
							st.hist["fail_occurrences:"+g.Key]--
						}
					}
				}
			}
			report(k, fs)
		}
		// the sequence (b) alone is evaluated by the parent process, see main
		for x := 0; x < M && p.maxLen >= 2; x++ {
			run(b, x)
		}
		for x := 0; x < M && p.maxLen >= 3; x++ {
			for y := 0; y < M; y++ {
				run(b, x, y)
			}
		}
	case b < M+len(p.names):
		n := p.names[b-M]
		mutate(n, p.bases[n], runStream)
	case b == M+len(p.names):
		seenStream[string(p.bases["call"])] = true // already in the block of the base stream
		for _, k := range headerMenu() {
			runStream(k)
		}
	case b < 2*M+len(p.names)+1:
		i := b - (M + len(p.names) + 1)
		m := expected(p.menu[i])
		mutate(fmt.Sprintf("menu[%d]", i), ref.FrameBytes(ref.EncodeBody(*m)), runStream)
	default:
		i := b - (2*M + len(p.names) + 1)
		base := p.bases["call"]
		for _, ci := range subst {
			for j := i + 1; j < p.hl; j++ {
				for _, cj := range subst {
					if base[i] == ci || base[j] == cj {
						continue
					}
					m := append([]byte(nil), base...)
					m[i], m[j] = ci, cj
					runStream(streamCase(fmt.Sprintf("call bytes %d,%d -> %q,%q", i, j, string(ci), string(cj)), m))
				}
			}
		}
	}
	st.hist["streams"] += int64(nStream)
	for h, n := range st.hist {
		w.HistN(h, n)
	}
}

func main() {
	c := engine.New("C38", "exploration")
	if c.IsReplay() {
		var k Case
		c.LoadReplay(&k)
		key := ""
		if b, err := os.ReadFile(c.ReplayFn); err == nil {
			var rf engine.ReplayFile
			if json.Unmarshal(b, &rf) == nil {
				key = rf.Key
			}
		}
		fs := eval(k, nil)
		var hit *engine.Failure
		for _, f := range fs {
			if f.Key == key {
				hit = f
			}
		}
		if hit == nil && len(fs) > 0 && !c.IsKnown(fs[0].Key) {
			hit = fs[0]
		}
		c.ReplayResult(hit)
	}

	p := newPlan(c.Thorough())
	mainJob := &engine.Job{NumBlocks: p.blocks, RunBlock: p.runBlock}

	// one process per huge case: the memory it may allocate is fresh from the OS
	huge := hugeCases()
	hugeJob := &engine.Job{NumBlocks: len(huge), Procs: len(huge), MemLimitMB: 8000}
	hugeJob.RunBlock = func(w *engine.W, b int) {
		k := huge[b]
		if !w.Item(k) {
			return
		}
		st := newStats()
		var m0, m1 runtime.MemStats
		runtime.ReadMemStats(&m0)
		fs := evalHuge(k.Stream, st)
		runtime.ReadMemStats(&m1)
		for _, f := range fs {
			w.Fail(k, f)
		}
		for h, n := range st.hist {
			w.HistN(h, n)
		}
		// observation, not judged: what one Read allocates for a frame whose body never arrives
		w.Hist("obs_huge_alloc_per_read:" + allocClass(m1.TotalAlloc-m0.TotalAlloc))
		w.Nontrivial()
	}
	if c.IsWorker() {
		if os.Getenv("C38_JOB") == "huge" {
			hugeJob.Run(c)
		}
		mainJob.Run(c)
	}

	// single messages first, in this process and in menu order, so that the case
	// recorded for a defect visible on one message is the same on every run
	st := newStats()
	for _, m := range p.menu {
		k := Case{Mode: "seq", Msgs: []MsgSpec{m}}
		c.Eval(1)
		st.hist["seq_len1"]++
		for _, f := range evalSeq(k.Msgs, st) {
			st.hist["fail_occurrences:"+f.Key]++
			st.seen[f.Key] = true
			c.Violate(k, f)
		}
	}
	for h, n := range st.hist {
		c.Hist(h, n)
	}
	os.Setenv("C38_JOB", "main")
	mainJob.Run(c)
	os.Setenv("C38_JOB", "huge")
	hugeJob.Run(c)

	M := len(p.menu)
	c.Rule = fmt.Sprintf("seq: every sequence of length 1..%d over a menu of %d messages (2 notification methods x 6 payloads; call, result x 9 ids x 6 payloads; error x 9 ids x 4 error kinds); non-trivial = sequence mixing message kinds. stream: every truncation and every single-byte substitution from %d bytes of 3 base streams%s, a header/body menu of %d streams, %d huge Content-Length values; every distinct stream counts as non-trivial",
		p.maxLen, M, len(subst), map[bool]string{false: "", true: " and of every menu message, plus every pair of substitutions inside one header"}[c.Thorough()], len(headerMenu()), len(huge))
	c.Assumptions = []string{
		"a frame is well-formed (must be accepted) only under the strict grammar: CRLF line ends, token field names, exactly one 'Content-Length: <1..2^31-1 without sign or leading zero>', optionally Content-Type, complete body that is a JSON object with jsonrpc \"2.0\" and an unambiguous request/response shape",
		"a stream is malformed (must be refused) only if it fails both the strict grammar and the most lenient reading (LF line ends, trimmed white space, any case of the header name, any one of several Content-Length headers); everything in between is excluded and counted (excluded_unsure:*)",
		"read-ahead of the internal bufio.Reader is not judged (a Reader owns its stream); 'reading past the declared length' is judged with a transport that delivers one byte per Read, where the bytes consumed are exactly the bytes the framer asked for",
		"the int64 byte count returned by Read/Write: Write's count is compared with the bytes written, Read's count is undocumented and only observed",
		"plain Go errors have no code: only their message is compared; error data is observed by encoding the read message again",
		"a declared length up to 2^31-1 is allocated by the reader before the body arrives (observed in obs_huge_alloc_per_read:*); the property statement does not bound allocation, so only a crash / watchdog kill (8 GB) would be reported",
	}
	c.Extra["bound"] = map[string]any{"max_sequence_length": p.maxLen, "menu": M, "substitution_bytes": len(subst), "max_reads_per_stream": maxSteps, "blocks": p.blocks}
	c.Finish()
}

func allocClass(n uint64) string {
	switch {
	case n >= 1<<31-1:
		return ">=2GiB"
	case n >= 1<<30:
		return ">=1GiB"
	case n >= 1<<28:
		return ">=256MiB"
	case n >= 1<<20:
		return ">=1MiB"
	}
	return "<1MiB"
}

var _ = strings.TrimSpace

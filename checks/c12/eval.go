package main

import (
	"fmt"
	goast "go/ast"
	goparser "go/parser"
	"go/types"
	"reflect"
	"regexp"
	"sort"
	"strings"

	"github.com/goplus/xgo/ast"
	"github.com/goplus/xgo/token"
	"github.com/goplus/xgo/x/typesutil"

	"verif/engine"
)

var reOverloadMember = regexp.MustCompile(`__[0-9a-z]+$`)

// names the compiler makes up
func isSynthName(s string) bool {
	return strings.HasPrefix(s, "_gop_") || strings.HasPrefix(s, "_xgo_") || strings.HasPrefix(s, "_autoGo_") || strings.HasPrefix(s, "Gopo_") ||
		s == "self" || reOverloadMember.MatchString(s)
}

func evalCase(k Case) (res result) {
	res.counts = map[string]int64{}
	var files []*ast.File
	var info *typesutil.Info
	var status, errText string
	// membership is decided on the trees as parsed and again as the checker leaves them (cl removes
	// and adds nodes, e.g. the parameter of a unary operator function, the receiver of a class
	// method): a node of either tree belongs to the file
	nodes := map[ast.Node]nodeInfo{}
	before := func(fs []*ast.File) {
		for _, f := range fs {
			fileNodes(nodes, f)
		}
	}
	if pf := engine.Guard(func() { files, info, _, status, errText = xgoCheck(k, before) }); pf != nil {
		res.status, res.errText = "panic", pf.Key+": "+pf.What
		return
	}
	if status != "checked" {
		res.status, res.errText = status, errText
		return
	}
	res.status = "checked"
	tf := xfset.File(files[0].Pos()) // offsets: first file (the Go-compatible family has one file)
	srcOf := map[*token.File]string{}
	for i, f := range files {
		srcOf[xfset.File(f.Pos())] = k.Files[i].Src
		fileNodes(nodes, f)
	}
	offOf := func(p token.Pos) int {
		if !p.IsValid() || xfset.File(p) != tf {
			return -1
		}
		return tf.Offset(p)
	}
	add := func(key, what, detail string) {
		res.findings = append(res.findings, finding{key, what, detail})
	}
	at := func(id *ast.Ident) string {
		pf := xfset.File(id.Pos())
		src, ok := srcOf[pf]
		if !id.Pos().IsValid() || !ok {
			return fmt.Sprintf("%q at a position outside the checked files (%v)", id.Name, xfset.Position(id.Pos()))
		}
		return fmt.Sprintf("%q at %v in `%s`", id.Name, xfset.Position(id.Pos()), snippet(src, pf.Offset(id.Pos())))
	}
	member := func(n ast.Node) bool { _, ok := nodes[n]; return ok }
	identClass := func(id *ast.Ident) string {
		if !member(id) {
			if isSynthName(id.Name) {
				return "(synthetic identifier " + synthClass(id.Name) + ")"
			}
			return "(identifier outside the file)"
		}
		return declClass(nodes, id)
	}

	// deterministic order over the maps: by position, then name
	sortedIdents := func(m map[*ast.Ident]types.Object) []*ast.Ident {
		ids := make([]*ast.Ident, 0, len(m))
		for id := range m {
			ids = append(ids, id)
		}
		sort.Slice(ids, func(i, j int) bool {
			if ids[i].Pos() != ids[j].Pos() {
				return ids[i].Pos() < ids[j].Pos()
			}
			return ids[i].Name < ids[j].Name
		})
		return ids
	}

	// ---- invariant 3: every key of Types / Scopes / Defs / Uses is a node of the checked file ----
	foreignClass := func(n ast.Node) string {
		if id, ok := n.(*ast.Ident); ok {
			if isSynthName(id.Name) {
				return "Ident(" + synthClass(id.Name) + ")"
			}
			return "Ident(other)"
		}
		if n == nil || reflect.ValueOf(n).IsNil() {
			return "nil-key"
		}
		return typeName(n)
	}
	// loops over a range expression (for i <- a:b:c, for i := range a:b, comprehension phrases): cl
	// lowers them to a synthetic *ast.ForStmt (toForStmt); nodes of that lowering carry positions of
	// the loop header
	type span struct{ lo, hi token.Pos }
	var rangeLoops []span
	for n := range nodes {
		var x ast.Expr
		var hi token.Pos
		switch v := n.(type) {
		case *ast.ForPhraseStmt:
			x = v.X
			if v.Body != nil {
				hi = v.Body.Lbrace
			}
		case *ast.RangeStmt:
			x = v.X
			if v.Body != nil {
				hi = v.Body.Lbrace
			}
		case *ast.ForPhrase:
			x, hi = v.X, v.End()
		}
		if _, ok := x.(*ast.RangeExpr); ok {
			rangeLoops = append(rangeLoops, span{n.Pos(), hi})
		}
	}
	inRangeLoopHeader := func(n ast.Node) bool {
		p := safePos(n)
		for _, sp := range rangeLoops {
			if p.IsValid() && p >= sp.lo && p <= sp.hi {
				return true
			}
		}
		if !p.IsValid() { // the synthetic block around the filter of `for i <- a:b if cond` has no position
			if _, ok := n.(*ast.BlockStmt); ok && len(rangeLoops) > 0 {
				return true
			}
		}
		return false
	}
	type foreign struct {
		m string
		n ast.Node
	}
	var foreigns []foreign
	for n := range info.Types {
		if !member(n) {
			foreigns = append(foreigns, foreign{"Types", n})
		}
	}
	for n := range info.Scopes {
		if !member(n) {
			foreigns = append(foreigns, foreign{"Scopes", n})
		}
	}
	for n := range info.Defs {
		if !member(n) {
			foreigns = append(foreigns, foreign{"Defs", n})
		}
	}
	for n := range info.Uses {
		if !member(n) {
			foreigns = append(foreigns, foreign{"Uses", n})
		}
	}
	sort.Slice(foreigns, func(i, j int) bool {
		a, b := foreigns[i], foreigns[j]
		if a.m != b.m {
			return a.m < b.m
		}
		if pa, pb := safePos(a.n), safePos(b.n); pa != pb {
			return pa < pb
		}
		if ca, cb := foreignClass(a.n), foreignClass(b.n); ca != cb {
			return ca < cb
		}
		return safeRange(a.n)+typeName(a.n) < safeRange(b.n)+typeName(b.n)
	})
	for _, fr := range foreigns {
		name := ""
		if id, ok := fr.n.(*ast.Ident); ok {
			name = " " + id.Name
		}
		cls := foreignClass(fr.n)
		if cls != "nil-key" && inRangeLoopHeader(fr.n) {
			cls = "node of the range-expression loop lowering"
		}
		add("membership:"+fr.m+":"+cls,
			"a node recorded in Info."+fr.m+" is not a node of the checked file",
			fmt.Sprintf("Info.%s has a key *ast.%s%s (%s) that is not reachable from the *ast.File by a reflection walk over all node fields", fr.m, typeName(fr.n), name, safeRange(fr.n)))
	}
	for n := range info.Implicits {
		if !member(n) {
			res.counts["unjudged_foreign_key_in_Implicits:"+typeName(n)]++
		}
	}
	for n := range info.Selections {
		if !member(n) {
			res.counts["unjudged_foreign_key_in_Selections"]++
		}
	}

	// ---- invariant 1: Defs[id] == nil || Defs[id].Pos() == id.Pos() ----
	for _, id := range sortedIdents(info.Defs) {
		obj := info.Defs[id]
		if obj == nil {
			res.counts["defs_nil_entries"]++
			continue
		}
		res.counts["defs_checked"]++
		if obj.Pos() != id.Pos() {
			cls := identClass(id)
			if !member(id) && inRangeLoopHeader(id) {
				cls = "synthetic identifier of the range-expression loop lowering"
			}
			add("defs-pos:"+cls,
				"Defs[id].Pos() != id.Pos() (invariant quoted in the Info.Defs doc comment)",
				fmt.Sprintf("identifier %s: Defs holds %s %q whose Pos() is %v", at(id), kindOf(obj), obj.Name(), xfset.Position(obj.Pos())))
		}
	}
	// ---- invariant 2: Uses[id].Pos() != id.Pos() ----
	for _, id := range sortedIdents(info.Uses) {
		obj := info.Uses[id]
		if obj == nil {
			add("uses-nil:"+identClass(id), "Uses holds a nil object (Uses[id].Pos() cannot be evaluated)", "identifier "+at(id))
			continue
		}
		res.counts["uses_checked"]++
		if obj.Pos() == id.Pos() {
			cls := identClass(id)
			switch {
			case !id.Pos().IsValid():
				cls = "identifier without position@" + cls
			case inRangeLoopHeader(id):
				cls = "loop variable of a range-expression loop"
			}
			add("uses-pos:"+cls,
				"Uses[id].Pos() == id.Pos(): a use refers to an object declared at that very identifier (invariant quoted in the Info.Uses doc comment)",
				fmt.Sprintf("identifier %s: Uses holds %s %q declared at the same position", at(id), kindOf(obj), obj.Name()))
		}
	}
	res.counts["types_entries"] += int64(len(info.Types))
	res.counts["scopes_entries"] += int64(len(info.Scopes))
	res.idents = len(info.Defs) + len(info.Uses)

	if k.Family != "go" {
		return
	}

	// ---- part 2: go/types on the same text, identifiers matched by byte offset ----
	gf, err := goparser.ParseFile(gofset, "/c12go/"+k.Files[0].Name, k.Files[0].Src, goparser.ParseComments)
	if err != nil {
		res.status, res.errText = "go-rejects", "go/parser: "+err.Error()
		return
	}
	ginfo := &types.Info{
		Types: map[goast.Expr]types.TypeAndValue{},
		Defs:  map[*goast.Ident]types.Object{},
		Uses:  map[*goast.Ident]types.Object{},
	}
	var gerrs []string
	gconf := &types.Config{Importer: goimp, Error: func(e error) { gerrs = append(gerrs, e.Error()) }}
	gconf.Check("main", gofset, []*goast.File{gf}, ginfo)
	if len(gerrs) > 0 {
		res.status, res.errText = "go-rejects", "go/types: "+strings.Join(gerrs, "\n")
		return
	}
	res.idents = 0
	gtf := gofset.File(gf.Pos())
	xByOff := map[int]*ast.Ident{}
	for n := range nodes {
		if id, ok := n.(*ast.Ident); ok {
			if o := offOf(id.Pos()); o >= 0 {
				// two identifier nodes at one offset do not occur in parsed Go-compatible files; if the
				// checker adds one, prefer the recorded one (deterministic either way: counted below)
				if old := xByOff[o]; old != nil && old != id {
					res.counts["two_identifier_nodes_at_one_offset"]++
					_, d1 := info.Defs[old]
					_, u1 := info.Uses[old]
					if d1 || u1 {
						continue
					}
				}
				xByOff[o] = id
			}
		}
	}
	// where go/types declares an object, as a construct class of the XGo tree
	declOf := func(o types.Object) string {
		if o == nil {
			return "none"
		}
		if o.Pkg() == nil {
			return "universe"
		}
		if p := o.Pos(); p.IsValid() && gofset.File(p) == gtf {
			if xid := xByOff[gtf.Offset(p)]; xid != nil {
				return declClass(nodes, xid)
			}
			return "(no identifier at the declaring position)"
		}
		return "imported"
	}
	type gent struct {
		id       *goast.Ident
		def, use types.Object
		hasDef   bool
		hasUse   bool
	}
	byOff := map[int]*gent{}
	var offs []int
	get := func(id *goast.Ident) *gent {
		o := gtf.Offset(id.Pos())
		g := byOff[o]
		if g == nil {
			g = &gent{id: id}
			byOff[o] = g
			offs = append(offs, o)
		}
		return g
	}
	for id, o := range ginfo.Defs {
		g := get(id)
		g.def, g.hasDef = o, true
	}
	for id, o := range ginfo.Uses {
		g := get(id)
		g.use, g.hasUse = o, true
	}
	sort.Ints(offs)

	reported := map[types.Object]bool{} // go objects whose declaration already differs: their uses follow from it
	compare := func(gfield string, gobj types.Object, xfield string, xobj types.Object, xid *ast.Ident, gid *goast.Ident) {
		res.idents++
		if gfield == "Uses" && gobj != nil && reported[gobj] {
			res.counts["uses_of_an_object_whose_declaration_differs"]++
			return
		}
		add := func(key, what, detail string) {
			if gfield == "Defs" && gobj != nil {
				reported[gobj] = true
			}
			add(key, what, detail)
		}
		where := "identifier " + at(xid)
		gk, xk := kindOf(gobj), kindOf(xobj)
		said := fmt.Sprintf("%s: go/types %s = %s; typesutil %s = %s", where, gfield, describe(gobj), xfield, describe(xobj))
		var ctx string
		if gfield == "Defs" {
			ctx = "@" + declClass(nodes, xid)
		} else {
			ctx = " declared@" + declOf(gobj)
		}
		if gk != xk {
			key := fmt.Sprintf("%s.kind:go=%s,xgo=%s", gfield, gk, xk)
			if !(gk == "Builtin" || gk == "Nil") {
				key += ctx
			}
			add(key, "the object recorded for an identifier differs in kind from what go/types records for the same text", said)
			return
		}
		if gobj == nil {
			return
		}
		if xobj.Name() != gobj.Name() {
			add(fmt.Sprintf("%s.name:%s%s", gfield, gk, ctx), "the object recorded for an identifier differs in name from what go/types records for the same text", said)
			return
		}
		if hasType(gk) {
			if gt, xt := typeStr(gobj.Type()), typeStr(xobj.Type()); gt != xt {
				add(fmt.Sprintf("%s.type:%s%s go=%s xgo=%s", gfield, gk, ctx, noDigits(gt), noDigits(xt)), "the object recorded for an identifier differs in type from what go/types records for the same text", said)
				return
			}
		}
		res.counts["idents_agree:"+gk]++
		// The type recorded for the identifier as an expression (Info.Types), judged where the
		// identifier denotes a variable, function or type: there the expression has the object's
		// type, no untyped conversion and no call-site specific signature is involved.
		if gtv, ok := ginfo.Types[gid]; ok {
			xtv, xok := info.Types[xid]
			switch {
			case !xok:
				res.counts["unjudged_ident_not_in_Types:"+gk]++
			case gk == "Var" || gk == "Func" || gk == "TypeName":
				if gs, xs := typeStr(gtv.Type), typeStr(xtv.Type); gs != xs {
					add(fmt.Sprintf("Types.type:%s@%s go=%s xgo=%s", gk, useClass(nodes, xid), noDigits(gs), noDigits(xs)),
						"the type recorded in Info.Types for an identifier differs from what go/types records for the same text",
						fmt.Sprintf("%s: go/types Types[%s].Type = %s; typesutil Types[%s].Type = %s", where, gid.Name, gs, gid.Name, xs))
				} else {
					res.counts["ident_expression_types_agree"]++
				}
			default:
				if typeStr(gtv.Type) != typeStr(xtv.Type) {
					res.counts["unjudged_ident_expression_type_differs:"+gk]++
				}
			}
		}
	}

	var order []int
	for _, off := range offs {
		if byOff[off].hasDef {
			order = append(order, off)
		}
	}
	for _, off := range offs {
		if !byOff[off].hasDef {
			order = append(order, off)
		}
	}
	for _, off := range order {
		g := byOff[off]
		xid := xByOff[off]
		if xid == nil || xid.Name != g.id.Name {
			res.counts["unjudged_no_xgo_identifier_at_offset"]++
			continue
		}
		xdef, inDefs := info.Defs[xid]
		xuse, inUses := info.Uses[xid]
		missing := func(field string, gobj types.Object) {
			if gobj == nil {
				res.counts["unjudged_nil_entry_not_recorded:"+field+"@"+useClass(nodes, xid)]++
				return
			}
			if pc := promisedClass(field, gobj, g.id, g.hasDef && g.hasUse); pc != "" {
				if g.id.Name == "_" {
					pc += "@" + declClass(nodes, xid)
				}
				// The statement only constrains what is recorded: an identifier that is absent from
				// the maps is not a violation, whatever the doc comment lists. Counted as exclusion.
				res.counts["excluded_not_recorded:"+field+":"+pc]++
				return
			}
			res.counts["unjudged_not_recorded:"+field+":"+kindOf(gobj)+"@"+useClass(nodes, xid)]++
		}
		switch {
		case g.hasDef && g.hasUse: // embedded field: both maps on both sides
			if inDefs {
				compare("Defs", g.def, "Defs", xdef, xid, g.id)
			} else {
				missing("Defs", g.def)
			}
			if inUses {
				compare("Uses", g.use, "Uses", xuse, xid, g.id)
			} else {
				missing("Uses", g.use)
			}
		case g.hasDef:
			switch {
			case inDefs:
				compare("Defs", g.def, "Defs", xdef, xid, g.id)
			case inUses:
				res.counts["recorded_in_Uses_where_go_has_Defs"]++
				compare("Defs", g.def, "Uses", xuse, xid, g.id)
			default:
				missing("Defs", g.def)
			}
		case g.hasUse:
			switch {
			case inUses:
				compare("Uses", g.use, "Uses", xuse, xid, g.id)
			case inDefs:
				res.counts["recorded_in_Defs_where_go_has_Uses"]++
				compare("Uses", g.use, "Defs", xdef, xid, g.id)
			default:
				missing("Uses", g.use)
			}
		}
	}
	// identifiers recorded by XGo but not by go/types: counted
	for id := range info.Defs {
		if o := offOf(id.Pos()); o >= 0 && member(id) && byOff[o] == nil {
			res.counts["unjudged_recorded_by_xgo_only:Defs@"+useClass(nodes, id)]++
		}
	}
	for id := range info.Uses {
		if o := offOf(id.Pos()); o >= 0 && member(id) && byOff[o] == nil {
			res.counts["unjudged_recorded_by_xgo_only:Uses@"+useClass(nodes, id)]++
		}
	}
	return
}

// promisedClass names the identifier classes which the Info doc comment lists explicitly; their
// absence is counted under its own exclusion class (never judged): Defs "including package names, dots of dot-imports, and blank
// identifiers"; "for an embedded field, Defs returns the field *Var it defines" and "Uses returns
// the *TypeName it denotes". Everything else that is absent is only counted.
func promisedClass(field string, obj types.Object, id *goast.Ident, embedded bool) string {
	switch field {
	case "Defs":
		if _, ok := obj.(*types.PkgName); ok {
			if id.Name == "." {
				return "dot of a dot-import"
			}
			return "import name"
		}
		if v, ok := obj.(*types.Var); ok && v.Embedded() {
			return "embedded field (the *Var it defines)"
		}
		if id.Name == "_" {
			return "blank identifier (" + kindOf(obj) + ")"
		}
	case "Uses":
		if _, ok := obj.(*types.TypeName); ok && embedded {
			return "embedded field (the *TypeName it denotes)"
		}
	}
	return ""
}

// synthetic nodes may be incomplete (nil children): Pos/End can panic
func safePos(n ast.Node) (p token.Pos) {
	defer func() {
		if recover() != nil {
			p = token.NoPos
		}
	}()
	if n == nil || reflect.ValueOf(n).IsNil() {
		return token.NoPos
	}
	return n.Pos()
}

func safeRange(n ast.Node) (s string) {
	defer func() {
		if r := recover(); r != nil {
			s = fmt.Sprintf("Pos %v, End() panics: %v", xfset.Position(safePos(n)), r)
		}
	}()
	if n == nil || reflect.ValueOf(n).IsNil() {
		return "a nil node"
	}
	return fmt.Sprintf("Pos %v, End %v", xfset.Position(n.Pos()), xfset.Position(n.End()))
}

// noDigits makes a type string independent of the slot numbers in generated names.
func noDigits(s string) string {
	var sb strings.Builder
	prev := false
	for _, r := range s {
		if r >= '0' && r <= '9' {
			if !prev {
				sb.WriteByte('#')
			}
			prev = true
			continue
		}
		prev = false
		sb.WriteRune(r)
	}
	return sb.String()
}

// synthClass: the fixed prefix of a compiler-made name (Gopo_add -> Gopo_*)
func synthClass(name string) string {
	if strings.HasPrefix(name, "Gopo_") {
		return "Gopo_*"
	}
	if reOverloadMember.MatchString(name) {
		return "*__N"
	}
	return name
}

package main

import (
	"sort"
	"strings"
)

// The Go-compatible family: declaration templates x use templates.
//
// A declaration template introduces one entity $N of a sort (an int value, a struct field, a
// method, a type, a function, an imported package, a label) at a certain syntactic place and has
// a hole $USE inside the scope of the entity. A use template consumes an entity of that sort in
// one syntactic way. A file = package clause + imports + one or two filled (declaration, use)
// slots; $S is the slot number, which keeps the names of two slots apart.

type declT struct {
	id    string
	sort  string
	name  string            // pattern of $N ("" = "n$S")
	imp   string            // import declaration owned by the template (pkg sorts)
	code  string            // top-level text, $USE inside a function body
	vars  map[string]string // $V, $LT, $ME, $MA, $IV, $Q
	flags string            // capabilities: "addr" assignable/addressable, "lit" composite-literal key, "named", ...
}

type useT struct {
	id      string
	sort    string
	need    string // capability the declaration must have ("" = none)
	stmts   string
	top     string
	imports []string
}

func local(pre, post string) string {
	s := "func f$S() {\n"
	if pre != "" {
		s += pre + "\n"
	}
	s += "$USE\n"
	if post != "" {
		s += post + "\n"
	}
	return s + "}"
}

const two = "\nfunc two$S() (int, error) { return 1, nil }"

var intDecls = []declT{
	{id: "pkgvar", code: "var $N = 1\n" + local("", ""), flags: "addr"},
	{id: "pkgvar-typed", code: "var $N int\n" + local("", ""), flags: "addr"},
	{id: "pkgvar-typed-init", code: "var $N int = 1\n" + local("", ""), flags: "addr"},
	{id: "pkgvar-group", code: "var (\n\tq$S string\n\t$N int = 2\n)\n" + local("_ = q$S", ""), flags: "addr"},
	{id: "pkgvar-multi-first", code: "var $N, q$S = 1, \"s\"\n" + local("_ = q$S", ""), flags: "addr"},
	{id: "pkgvar-multi-second", code: "var q$S, $N = \"s\", 1\n" + local("_ = q$S", ""), flags: "addr"},
	{id: "pkgvar-multi-typed", code: "var q$S, $N int\n" + local("_ = q$S", ""), flags: "addr"},
	{id: "pkgvar-from-call", code: "var $N, e$S = two$S()" + two + "\n" + local("_ = e$S", ""), flags: "addr"},
	{id: "pkgvar-after-use", code: local("", "") + "\nvar $N = 1", flags: "addr"},
	{id: "localvar", code: local("var $N = 1", "_ = $N"), flags: "addr"},
	{id: "localvar-typed", code: local("var $N int", "_ = $N"), flags: "addr"},
	{id: "localvar-multi", code: local("var q$S, $N = \"s\", 1\n_ = q$S", "_ = $N"), flags: "addr"},
	{id: "localvar-group", code: local("var (\n\tq$S string\n\t$N int\n)\n_ = q$S", "_ = $N"), flags: "addr"},
	{id: "define", code: local("$N := 1", "_ = $N"), flags: "addr"},
	{id: "define-multi", code: local("q$S, $N := \"s\", 1\n_ = q$S", "_ = $N"), flags: "addr"},
	{id: "define-redeclare", code: local("q$S := \"s\"\nq$S, $N := \"t\", 1\n_ = q$S", "_ = $N"), flags: "addr"},
	{id: "define-from-call", code: local("$N, e$S := two$S()\n_ = e$S", "_ = $N") + two, flags: "addr"},
	{id: "define-in-nested-block", code: local("{\n$N := 1", "_ = $N\n}"), flags: "addr"},
	{id: "param", code: "func f$S($N int) {\n$USE\n}", flags: "addr"},
	{id: "param-grouped", code: "func f$S(q$S, $N int) {\n_ = q$S\n$USE\n}", flags: "addr"},
	{id: "param-after-string", code: "func f$S(q$S string, $N int) {\n_ = q$S\n$USE\n}", flags: "addr"},
	{id: "named-result", code: "func f$S() ($N int) {\n$USE\nreturn\n}", flags: "addr"},
	{id: "named-result-second", code: "func f$S() (e$S error, $N int) {\n$USE\nreturn\n}", flags: "addr"},
	{id: "method-param", code: "type R$S struct{}\n\nfunc (r R$S) m$S($N int) {\n$USE\n}", flags: "addr"},
	{id: "ptr-method-param", code: "type R$S struct{}\n\nfunc (r *R$S) m$S($N int) {\n$USE\n}", flags: "addr"},
	{id: "funclit-param", code: "func f$S() {\ng$S := func($N int) {\n$USE\n}\ng$S(1)\n}", flags: "addr"},
	{id: "funclit-result", code: "func f$S() {\ng$S := func() ($N int) {\n$USE\nreturn\n}\n_ = g$S()\n}", flags: "addr"},
	{id: "closure-captured", code: "func f$S() {\n$N := 1\nfunc() {\n$USE\n}()\n_ = $N\n}", flags: "addr"},
	{id: "pkg-funclit-param", code: "var g$S = func($N int) int {\n$USE\nreturn $N\n}", flags: "addr"},
	{id: "range-key", code: local("for $N := range []string{\"a\"} {", "_ = $N\n}"), flags: "addr"},
	{id: "range-value", code: local("for _, $N := range []int{1} {", "_ = $N\n}"), flags: "addr"},
	{id: "range-key-value", code: local("for q$S, $N := range []int{1} {\n_ = q$S", "_ = $N\n}"), flags: "addr"},
	{id: "range-map-key", code: local("for $N := range map[int]string{1: \"a\"} {", "_ = $N\n}"), flags: "addr"},
	{id: "range-map-value", code: local("for _, $N := range map[string]int{\"a\": 1} {", "_ = $N\n}"), flags: "addr"},
	{id: "range-string-key", code: local("for $N := range \"ab\" {", "_ = $N\n}"), flags: "addr"},
	{id: "range-chan", code: local("ch$S := make(chan int, 1)\nch$S <- 1\nclose(ch$S)\nfor $N := range ch$S {", "_ = $N\n}"), flags: "addr"},
	{id: "range-array-ptr", code: local("arr$S := [2]int{1, 2}\nfor $N := range &arr$S {", "_ = $N\n}"), flags: "addr"},
	{id: "range-assign", code: local("var $N int\nfor $N = range []int{1} {", "}\n_ = $N"), flags: "addr"},
	{id: "for-init", code: local("for $N := 0; $N < 1; $N++ {", "}"), flags: "addr"},
	{id: "if-init", code: local("if $N := 1; $N > 0 {", "}"), flags: "addr"},
	{id: "if-init-else", code: local("if $N := 1; $N < 0 {\n} else {", "}"), flags: "addr"},
	{id: "switch-init", code: local("switch $N := 1; $N {\ncase 1:", "}"), flags: "addr"},
	{id: "typeswitch-init", code: local("switch $N := 1; q$S := any($N).(type) {\ncase int:\n_ = q$S", "}"), flags: "addr"},
	{id: "select-recv", code: local("ch$S := make(chan int, 1)\nch$S <- 1\nselect {\ncase $N := <-ch$S:", "_ = $N\n}"), flags: "addr"},
	{id: "select-recv-ok", code: local("ch$S := make(chan int, 1)\nch$S <- 1\nselect {\ncase $N, ok$S := <-ch$S:\n_ = ok$S", "_ = $N\n}"), flags: "addr"},
	{id: "typeswitch-bind", code: local("var a$S any = 1\nswitch $N := a$S.(type) {\ncase int:", "_ = $N\n}"), flags: "addr"},
	{id: "typeswitch-bind-second-clause", code: local("var a$S any = 1\nswitch $N := a$S.(type) {\ncase string:\n_ = $N\ncase int:", "_ = $N\n}"), flags: "addr"},
	{id: "pkgconst", code: "const $N = 1\n" + local("", "")},
	{id: "pkgconst-typed", code: "const $N int = 1\n" + local("", "")},
	{id: "pkgconst-iota", code: "const (\n\ta$S = iota\n\t$N\n)\n" + local("_ = a$S", "")},
	{id: "pkgconst-multi", code: "const q$S, $N = \"s\", 1\n" + local("_ = q$S", "")},
	{id: "pkgconst-implicit-repeat", code: "const (\n\ta$S int = 1\n\t$N\n)\n" + local("_ = a$S", "")},
	{id: "pkgconst-after-use", code: local("", "") + "\nconst $N = 1"},
	{id: "localconst", code: local("const $N = 1", "")},
	{id: "localconst-typed", code: local("const $N int = 1", "")},
	{id: "localconst-iota", code: local("const (\n\ta$S = iota\n\t$N\n)\n_ = a$S", "")},
}

var intUses = []useT{
	{id: "ident", stmts: "_ = $N"},
	{id: "binary-left", stmts: "_ = $N + 1"},
	{id: "binary-right", stmts: "_ = 1 + $N"},
	{id: "shift-count", stmts: "var w$S uint8 = 1\n_ = w$S << $N"},
	{id: "binary-two-idents", stmts: "var w$S int = 1\n_ = w$S*$N + $N"},
	{id: "unary", stmts: "_ = -$N"},
	{id: "paren", stmts: "_ = ($N)"},
	{id: "compare", stmts: "_ = $N == 1"},
	{id: "call-arg", stmts: "_ = id$S($N)", top: "func id$S(x int) int { return x }"},
	{id: "call-variadic-arg", stmts: "_ = sum$S(1, $N)", top: "func sum$S(xs ...int) int { return len(xs) }"},
	{id: "conversion", stmts: "_ = float64($N)"},
	{id: "named-conversion", stmts: "_ = My$S($N)", top: "type My$S int"},
	{id: "builtin-make", stmts: "_ = make([]int, $N)"},
	{id: "builtin-append", stmts: "_ = append([]int{}, $N)"},
	{id: "builtin-println", stmts: "println($N)"},
	{id: "builtin-min", stmts: "_ = min($N, 2)"},
	{id: "builtin-complex", stmts: "_ = real(complex(float64($N), 0))"},
	{id: "slice-elem", stmts: "_ = []int{$N}"},
	{id: "map-key", stmts: "_ = map[int]string{$N: \"a\"}"},
	{id: "map-value", stmts: "_ = map[string]int{\"a\": $N}"},
	{id: "struct-value-keyed", stmts: "_ = pt$S{X: $N}", top: "type pt$S struct{ X, Y int }"},
	{id: "struct-value-unkeyed", stmts: "_ = pt$S{$N, 2}", top: "type pt$S struct{ X, Y int }"},
	{id: "index", stmts: "xs$S := []int{1, 2, 3}\n_ = xs$S[$N]"},
	{id: "slice-bound", stmts: "xs$S := []int{1, 2, 3}\n_ = xs$S[$N:]"},
	{id: "closure-return", stmts: "_ = func() int { return $N }()"},
	{id: "nested-closure", stmts: "_ = func() func() int { return func() int { return $N } }()"},
	{id: "send", stmts: "c$S := make(chan int, 1)\nc$S <- $N"},
	{id: "switch-tag", stmts: "switch $N {\ncase 1:\n}"},
	{id: "case-expr", stmts: "switch x$S := 1; x$S {\ncase $N:\n}"},
	{id: "if-cond", stmts: "if $N > 0 {\n}"},
	{id: "for-cond", stmts: "for i$S := 0; i$S < $N; i$S++ {\n}"},
	{id: "defer-arg", stmts: "defer id$S($N)", top: "func id$S(x int) int { return x }"},
	{id: "go-arg", stmts: "go id$S($N)", top: "func id$S(x int) int { return x }"},
	{id: "nested-block", stmts: "{\n{\n_ = $N\n}\n}"},
	{id: "var-init", stmts: "var z$S = $N\n_ = z$S"},
	{id: "var-typed-init", stmts: "var z$S int = $N\n_ = z$S"},
	{id: "define-init", stmts: "z$S := $N\n_ = z$S"},
	{id: "assign-rhs", stmts: "var z$S int\nz$S = $N\n_ = z$S"},
	{id: "op-assign-rhs", stmts: "var z$S int\nz$S += $N\n_ = z$S"},
	{id: "tuple-assign-rhs", stmts: "var y$S, z$S int\ny$S, z$S = $N, $N\n_, _ = y$S, z$S"},
	{id: "fmt-arg", stmts: "fmt.Println($N)", imports: []string{"fmt"}},
	{id: "strconv-arg", stmts: "_ = strconv.Itoa($N)", imports: []string{"strconv"}},
	{id: "any-assert", stmts: "_ = any($N).(int)"},
	{id: "rune-conversion", stmts: "_ = string(rune($N))"},
	{id: "method-arg", stmts: "_ = rc$S{}.m($N)", top: "type rc$S struct{}\n\nfunc (rc$S) m(x int) int { return x }"},
	// only for variables
	{id: "assign", need: "addr", stmts: "$N = 2"},
	{id: "incdec", need: "addr", stmts: "$N++"},
	{id: "op-assign", need: "addr", stmts: "$N += 1"},
	{id: "address", need: "addr", stmts: "_ = &$N"},
	{id: "tuple-assign", need: "addr", stmts: "$N, _ = 1, 2"},
	{id: "range-assign-key", need: "addr", stmts: "for $N = range []int{1} {\n}"},
	{id: "closure-assign", need: "addr", stmts: "func() { $N = 3 }()"},
	{id: "pointer-deref", need: "addr", stmts: "p$S := &$N\n*p$S = 1"},
	{id: "scan-into", need: "addr", stmts: "fmt.Sscan(\"1\", &$N)", imports: []string{"fmt"}},
}

func fld(body, pre string) string {
	return body + "\n\n" + local(pre, "_ = v$S")
}

var fieldDecls = []declT{
	{id: "field", sort: "field", code: fld("type T$S struct {\n\t$N int\n}", "var v$S T$S"), vars: map[string]string{"V": "v$S", "LT": "T$S"}, flags: "addr lit"},
	{id: "field-exported", sort: "field", name: "Fx$S", code: fld("type T$S struct {\n\t$N int\n}", "var v$S T$S"), vars: map[string]string{"V": "v$S", "LT": "T$S"}, flags: "addr lit"},
	{id: "field-grouped-second", sort: "field", code: fld("type T$S struct {\n\tA$S, $N int\n}", "var v$S T$S"), vars: map[string]string{"V": "v$S", "LT": "T$S"}, flags: "addr lit"},
	{id: "field-tagged", sort: "field", code: fld("type T$S struct {\n\t$N int `json:\"n\"`\n}", "var v$S T$S"), vars: map[string]string{"V": "v$S", "LT": "T$S"}, flags: "addr lit"},
	{id: "field-via-pointer", sort: "field", code: fld("type T$S struct {\n\t$N int\n}", "v$S := &T$S{}"), vars: map[string]string{"V": "v$S", "LT": "T$S"}, flags: "addr lit"},
	{id: "field-promoted", sort: "field", code: fld("type In$S struct {\n\t$N int\n}\n\ntype T$S struct {\n\tIn$S\n}", "var v$S T$S\n_ = v$S.In$S.$N"), vars: map[string]string{"V": "v$S", "LT": "In$S"}, flags: "addr lit"},
	{id: "field-promoted-ptr", sort: "field", code: fld("type In$S struct {\n\t$N int\n}\n\ntype T$S struct {\n\t*In$S\n}", "v$S := T$S{&In$S{}}"), vars: map[string]string{"V": "v$S", "LT": "In$S"}, flags: "addr lit"},
	{id: "field-promoted-twice", sort: "field", code: fld("type In$S struct {\n\t$N int\n}\n\ntype Mid$S struct {\n\tIn$S\n}\n\ntype T$S struct {\n\tMid$S\n}", "var v$S T$S"), vars: map[string]string{"V": "v$S", "LT": "In$S"}, flags: "addr lit"},
	{id: "field-anon-struct", sort: "field", code: local("var v$S struct{ $N int }", "_ = v$S"), vars: map[string]string{"V": "v$S", "LT": "struct{ $N int }"}, flags: "addr lit"},
	{id: "field-pkg-anon-struct", sort: "field", code: "var v$S struct{ $N int }\n\n" + local("", ""), vars: map[string]string{"V": "v$S", "LT": "struct{ $N int }"}, flags: "addr lit"},
	{id: "field-local-type", sort: "field", code: local("type T$S struct {\n\t$N int\n}\nvar v$S T$S", "_ = v$S"), vars: map[string]string{"V": "v$S", "LT": "T$S"}, flags: "addr lit"},
	{id: "field-of-call-result", sort: "field", code: "type T$S struct {\n\t$N int\n}\n\nfunc mk$S() T$S { return T$S{} }\n\n" + local("", ""), vars: map[string]string{"V": "mk$S()", "LT": "T$S"}, flags: "lit"},
	{id: "field-of-slice-elem", sort: "field", code: fld("type T$S struct {\n\t$N int\n}", "v$S := []T$S{{}}"), vars: map[string]string{"V": "v$S[0]", "LT": "T$S"}, flags: "addr lit"},
	{id: "field-of-map-elem", sort: "field", code: fld("type T$S struct {\n\t$N int\n}", "v$S := map[string]T$S{}"), vars: map[string]string{"V": "v$S[\"a\"]", "LT": "T$S"}, flags: "lit"},
	{id: "field-generic", sort: "field", code: fld("type T$S[E any] struct {\n\t$N E\n}", "var v$S T$S[int]"), vars: map[string]string{"V": "v$S", "LT": "T$S[int]"}, flags: "addr lit"},
	{id: "field-of-receiver", sort: "field", code: "type T$S struct {\n\t$N int\n}\n\nfunc (r *T$S) m$S() {\n$USE\n}", vars: map[string]string{"V": "r", "LT": "T$S"}, flags: "addr lit"},
	{id: "field-of-value-receiver", sort: "field", code: "type T$S struct {\n\t$N int\n}\n\nfunc (r T$S) m$S() {\n$USE\n}", vars: map[string]string{"V": "r", "LT": "T$S"}, flags: "addr lit"},
	{id: "field-of-param", sort: "field", code: "type T$S struct {\n\t$N int\n}\n\nfunc f$S(a$S *T$S) {\n$USE\n}", vars: map[string]string{"V": "a$S", "LT": "T$S"}, flags: "addr lit"},
	{id: "field-nested-struct", sort: "field", code: fld("type T$S struct {\n\tinner struct {\n\t\t$N int\n\t}\n}", "var v$S T$S"), vars: map[string]string{"V": "v$S.inner"}, flags: "addr"},
}

var fieldUses = []useT{
	{id: "sel-read", sort: "field", stmts: "_ = $V.$N"},
	{id: "sel-binary", sort: "field", stmts: "_ = $V.$N + 1"},
	{id: "sel-call-arg", sort: "field", stmts: "_ = id$S($V.$N)", top: "func id$S(x int) int { return x }"},
	{id: "sel-paren", sort: "field", stmts: "_ = ($V).$N"},
	{id: "sel-closure", sort: "field", stmts: "_ = func() int { return $V.$N }()"},
	{id: "sel-index", sort: "field", stmts: "_ = []int{1, 2}[$V.$N]"},
	{id: "sel-assign", sort: "field", need: "addr", stmts: "$V.$N = 1"},
	{id: "sel-incdec", sort: "field", need: "addr", stmts: "$V.$N++"},
	{id: "sel-address", sort: "field", need: "addr", stmts: "_ = &$V.$N"},
	{id: "lit-key", sort: "field", need: "lit", stmts: "_ = $LT{$N: 1}"},
	{id: "lit-key-ptr", sort: "field", need: "lit", stmts: "_ = &$LT{$N: 1}"},
	{id: "lit-key-in-slice", sort: "field", need: "lit", stmts: "_ = []$LT{{$N: 1}}"},
	{id: "lit-key-in-map", sort: "field", need: "lit", stmts: "_ = map[string]$LT{\"a\": {$N: 1}}"},
	{id: "lit-key-in-ptr-slice", sort: "field", need: "lit", stmts: "_ = []*$LT{{$N: 1}}"},
}

func mth(types, pre string) string {
	return types + "\n\n" + local(pre, "_ = v$S")
}

var methodDecls = []declT{
	{id: "method-value-recv", sort: "method", code: mth("type T$S struct{ X int }\n\nfunc (t T$S) $N() int { return t.X }", "var v$S T$S"), vars: map[string]string{"V": "v$S", "ME": "T$S.$N", "MA": "v$S", "IV": "v$S"}},
	{id: "method-exported", sort: "method", name: "Mx$S", code: mth("type T$S struct{ X int }\n\nfunc (t T$S) $N() int { return t.X }", "var v$S T$S"), vars: map[string]string{"V": "v$S", "ME": "T$S.$N", "MA": "v$S", "IV": "v$S"}},
	{id: "method-ptr-recv", sort: "method", code: mth("type T$S struct{ X int }\n\nfunc (t *T$S) $N() int { return t.X }", "var v$S T$S"), vars: map[string]string{"V": "v$S", "ME": "(*T$S).$N", "MA": "&v$S", "IV": "&v$S"}},
	{id: "method-ptr-recv-on-pointer", sort: "method", code: mth("type T$S struct{ X int }\n\nfunc (t *T$S) $N() int { return t.X }", "v$S := &T$S{}"), vars: map[string]string{"V": "v$S", "ME": "(*T$S).$N", "MA": "v$S", "IV": "v$S"}},
	{id: "method-on-int-type", sort: "method", code: mth("type T$S int\n\nfunc (t T$S) $N() int { return int(t) }", "var v$S T$S"), vars: map[string]string{"V": "v$S", "ME": "T$S.$N", "MA": "v$S", "IV": "v$S"}},
	{id: "method-on-slice-type", sort: "method", code: mth("type T$S []int\n\nfunc (t T$S) $N() int { return len(t) }", "var v$S T$S"), vars: map[string]string{"V": "v$S", "ME": "T$S.$N", "MA": "v$S", "IV": "v$S"}},
	{id: "method-on-func-type", sort: "method", code: mth("type T$S func() int\n\nfunc (t T$S) $N() int { return t() }", "var v$S T$S = func() int { return 1 }"), vars: map[string]string{"V": "v$S", "ME": "T$S.$N", "MA": "v$S", "IV": "v$S"}},
	{id: "method-unnamed-recv", sort: "method", code: mth("type T$S struct{}\n\nfunc (T$S) $N() int { return 1 }", "var v$S T$S"), vars: map[string]string{"V": "v$S", "ME": "T$S.$N", "MA": "v$S", "IV": "v$S"}},
	{id: "method-before-type", sort: "method", code: "func (t T$S) $N() int { return t.X }\n\n" + local("var v$S T$S", "_ = v$S") + "\n\ntype T$S struct{ X int }", vars: map[string]string{"V": "v$S", "ME": "T$S.$N", "MA": "v$S", "IV": "v$S"}},
	{id: "method-promoted", sort: "method", code: mth("type In$S struct{}\n\nfunc (In$S) $N() int { return 1 }\n\ntype T$S struct {\n\tIn$S\n}", "var v$S T$S"), vars: map[string]string{"V": "v$S", "ME": "T$S.$N", "MA": "v$S", "IV": "v$S"}},
	{id: "method-promoted-ptr", sort: "method", code: mth("type In$S struct{}\n\nfunc (*In$S) $N() int { return 1 }\n\ntype T$S struct {\n\t*In$S\n}", "v$S := T$S{&In$S{}}"), vars: map[string]string{"V": "v$S", "ME": "T$S.$N", "MA": "v$S", "IV": "v$S"}},
	{id: "method-interface", sort: "method", code: mth("type T$S interface {\n\t$N() int\n}\n\ntype impl$S struct{}\n\nfunc (impl$S) $N() int { return 1 }", "var v$S T$S = impl$S{}"), vars: map[string]string{"V": "v$S", "ME": "T$S.$N", "MA": "v$S", "IV": "v$S"}},
	{id: "method-embedded-interface", sort: "method", code: mth("type B$S interface {\n\t$N() int\n}\n\ntype T$S interface {\n\tB$S\n}\n\ntype impl$S struct{}\n\nfunc (impl$S) $N() int { return 1 }", "var v$S T$S = impl$S{}"), vars: map[string]string{"V": "v$S", "ME": "T$S.$N", "MA": "v$S", "IV": "v$S"}},
	{id: "method-interface-in-struct", sort: "method", code: mth("type B$S interface {\n\t$N() int\n}\n\ntype T$S struct {\n\tB$S\n}\n\ntype impl$S struct{}\n\nfunc (impl$S) $N() int { return 1 }", "v$S := T$S{impl$S{}}"), vars: map[string]string{"V": "v$S", "ME": "T$S.$N", "MA": "v$S", "IV": "v$S"}},
	{id: "method-anon-interface", sort: "method", code: local("var v$S interface{ $N() int } = impl$S{}", "_ = v$S") + "\n\ntype impl$S struct{}\n\nfunc (impl$S) $N() int { return 1 }", vars: map[string]string{"V": "v$S", "ME": "impl$S.$N", "MA": "impl$S{}", "IV": "v$S"}},
	{id: "method-generic-recv", sort: "method", code: mth("type T$S[E any] struct{ x E }\n\nfunc (t T$S[E]) $N() int { return 1 }", "var v$S T$S[int]"), vars: map[string]string{"V": "v$S", "ME": "T$S[int].$N", "MA": "v$S", "IV": "v$S"}},
	{id: "method-on-call-result", sort: "method", code: "type T$S struct{ X int }\n\nfunc (t T$S) $N() int { return t.X }\n\nfunc mk$S() T$S { return T$S{} }\n\n" + local("", ""), vars: map[string]string{"V": "mk$S()", "ME": "T$S.$N", "MA": "mk$S()", "IV": "mk$S()"}},
	{id: "method-on-composite", sort: "method", code: "type T$S struct{ X int }\n\nfunc (t T$S) $N() int { return t.X }\n\n" + local("", ""), vars: map[string]string{"V": "T$S{X: 1}", "ME": "T$S.$N", "MA": "T$S{}", "IV": "T$S{}"}},
}

var methodUses = []useT{
	{id: "call", sort: "method", stmts: "_ = $V.$N()"},
	{id: "call-stmt", sort: "method", stmts: "$V.$N()"},
	{id: "method-value", sort: "method", stmts: "g$S := $V.$N\n_ = g$S()"},
	{id: "method-expr", sort: "method", stmts: "_ = $ME($MA)"},
	{id: "method-expr-value", sort: "method", stmts: "h$S := $ME\n_ = h$S"},
	{id: "defer-call", sort: "method", stmts: "defer $V.$N()"},
	{id: "go-call", sort: "method", stmts: "go $V.$N()"},
	{id: "as-arg", sort: "method", stmts: "_ = ap$S($V.$N)", top: "func ap$S(f func() int) int { return f() }"},
	{id: "via-interface", sort: "method", stmts: "var i$S interface{ $N() int } = $IV\n_ = i$S.$N()"},
	{id: "call-in-expr", sort: "method", stmts: "_ = $V.$N() + 1"},
	{id: "call-in-closure", sort: "method", stmts: "func() { _ = $V.$N() }()"},
	{id: "call-paren", sort: "method", stmts: "_ = ($V).$N()"},
}

var itypeDecls = []declT{
	{id: "pkgtype", sort: "itype", name: "Ty$S", code: "type $N int\n\n" + local("", ""), flags: "named"},
	{id: "pkgtype-lowercase", sort: "itype", name: "ty$S", code: "type $N int\n\n" + local("", ""), flags: "named"},
	{id: "pkgtype-group", sort: "itype", name: "Ty$S", code: "type (\n\tQ$S string\n\t$N  int\n)\n\n" + local("", ""), flags: "named"},
	{id: "pkgtype-alias", sort: "itype", name: "Ty$S", code: "type $N = int\n\n" + local("", "")},
	{id: "pkgtype-of-named", sort: "itype", name: "Ty$S", code: "type B$S int\n\ntype $N B$S\n\n" + local("", ""), flags: "named"},
	{id: "pkgtype-alias-of-named", sort: "itype", name: "Ty$S", code: "type B$S int\n\ntype $N = B$S\n\n" + local("", "")},
	{id: "pkgtype-after-use", sort: "itype", name: "Ty$S", code: local("", "") + "\n\ntype $N int", flags: "named"},
	{id: "localtype", sort: "itype", name: "Ty$S", code: local("type $N int", ""), flags: "named"},
	{id: "localtype-alias", sort: "itype", name: "Ty$S", code: local("type $N = int", "")},
	{id: "pkgtype-with-method", sort: "itype", name: "Ty$S", code: "type $N int\n\nfunc (t $N) m$S() $N { return t }\n\n" + local("", ""), flags: "named"},
}

var itypeUses = []useT{
	{id: "conversion", sort: "itype", stmts: "_ = $N(1)"},
	{id: "paren-conversion", sort: "itype", stmts: "_ = ($N)(1)"},
	{id: "conversion-of-var", sort: "itype", stmts: "x$S := 2\n_ = $N(x$S)"},
	{id: "var-decl", sort: "itype", stmts: "var z$S $N\n_ = z$S"},
	{id: "var-decl-init", sort: "itype", stmts: "var z$S $N = 1\n_ = z$S"},
	{id: "funclit-param-type", sort: "itype", stmts: "_ = func(a $N) {}"},
	{id: "funclit-result-type", sort: "itype", stmts: "_ = func() $N { return 0 }"},
	{id: "slice-literal-type", sort: "itype", stmts: "_ = []$N{1}"},
	{id: "map-key-type", sort: "itype", stmts: "_ = map[$N]string{}"},
	{id: "map-value-type", sort: "itype", stmts: "_ = map[string]$N{\"a\": 1}"},
	{id: "type-assert", sort: "itype", stmts: "_ = any($N(1)).($N)"},
	{id: "typeswitch-case", sort: "itype", stmts: "switch any(1).(type) {\ncase $N:\n}"},
	{id: "typeswitch-case-bound", sort: "itype", stmts: "switch z$S := any(1).(type) {\ncase $N:\n_ = z$S\n}"},
	{id: "new", sort: "itype", stmts: "_ = new($N)"},
	{id: "pointer-type", sort: "itype", stmts: "var p$S *$N\n_ = p$S"},
	{id: "pointer-conversion", sort: "itype", stmts: "_ = (*$N)(nil)"},
	{id: "struct-field-type", sort: "itype", stmts: "_ = struct{ f $N }{}"},
	{id: "embedded-field", sort: "itype", stmts: "_ = struct{ $N }{}"},
	{id: "array-type", sort: "itype", stmts: "_ = [2]$N{}"},
	{id: "chan-type", sort: "itype", stmts: "_ = make(chan $N)"},
	{id: "func-type", sort: "itype", stmts: "var ft$S func($N) $N\n_ = ft$S"},
	{id: "typed-const", sort: "itype", stmts: "const k$S $N = 1\n_ = k$S"},
	{id: "generic-arg", sort: "itype", stmts: "_ = G$S[$N]{}", top: "type G$S[E any] struct{ x E }"},
	{id: "local-type-of", sort: "itype", stmts: "type L$S $N\n_ = L$S(1)"},
	{id: "local-alias-of", sort: "itype", stmts: "type L$S = $N\nvar z$S L$S\n_ = z$S"},
	{id: "interface-method-result", sort: "itype", stmts: "var iq$S interface{ m() $N }\n_ = iq$S"},
	{id: "variadic-param-type", sort: "itype", stmts: "_ = func(a ...$N) {}"},
	{id: "make-slice", sort: "itype", stmts: "_ = make([]$N, 1)"},
}

var stypeDecls = []declT{
	{id: "pkgstruct", sort: "stype", name: "St$S", code: "type $N struct{ X int }\n\n" + local("", "")},
	{id: "pkgstruct-two-fields", sort: "stype", name: "St$S", code: "type $N struct {\n\tX int\n}\n\n" + local("", "")},
	{id: "pkgstruct-alias", sort: "stype", name: "St$S", code: "type B$S struct{ X int }\n\ntype $N = B$S\n\n" + local("", "")},
	{id: "pkgstruct-of-named", sort: "stype", name: "St$S", code: "type B$S struct{ X int }\n\ntype $N B$S\n\n" + local("", "")},
	{id: "pkgstruct-after-use", sort: "stype", name: "St$S", code: local("", "") + "\n\ntype $N struct{ X int }"},
	{id: "localstruct", sort: "stype", name: "St$S", code: local("type $N struct{ X int }", "")},
	{id: "pkgstruct-embedding", sort: "stype", name: "St$S", code: "type B$S struct{ X int }\n\ntype $N struct{ B$S }\n\n" + local("", ""), flags: "embeds"},
}

var stypeUses = []useT{
	{id: "lit-keyed", sort: "stype", need: "!embeds", stmts: "_ = $N{X: 1}"},
	{id: "lit-unkeyed", sort: "stype", need: "!embeds", stmts: "_ = $N{1}"},
	{id: "lit-empty", sort: "stype", stmts: "_ = $N{}"},
	{id: "lit-address", sort: "stype", stmts: "_ = &$N{}"},
	{id: "new-field", sort: "stype", stmts: "_ = new($N).X"},
	{id: "slice-elided", sort: "stype", need: "!embeds", stmts: "_ = []$N{{1}, {X: 2}}"},
	{id: "map-value-elided", sort: "stype", need: "!embeds", stmts: "_ = map[string]$N{\"a\": {1}}"},
	{id: "map-key-elided", sort: "stype", need: "!embeds", stmts: "_ = map[$N]int{{1}: 2}"},
	{id: "ptr-slice-elided", sort: "stype", need: "!embeds", stmts: "_ = []*$N{{1}}"},
	{id: "array-elided", sort: "stype", need: "!embeds", stmts: "_ = [...]$N{{1}}"},
	{id: "var-field", sort: "stype", stmts: "var z$S $N\n_ = z$S.X"},
	{id: "embedded-promotion", sort: "stype", stmts: "_ = struct{ $N }{}.X"},
	{id: "embedded-pointer", sort: "stype", stmts: "e$S := struct{ *$N }{&$N{}}\n_ = e$S.X"},
	{id: "lit-field-select", sort: "stype", stmts: "_ = $N{}.X"},
	{id: "compare", sort: "stype", stmts: "_ = $N{} == $N{}"},
	{id: "conversion", sort: "stype", need: "!embeds", stmts: "_ = $N(struct{ X int }{1})"},
	{id: "param-type", sort: "stype", stmts: "_ = func(a $N) int { return a.X }"},
}

var ifaceDecls = []declT{
	{id: "pkginterface", sort: "iface", name: "If$S", code: "type $N interface {\n\tM() int\n}\n\ntype impl$S struct{}\n\nfunc (impl$S) M() int { return 1 }\n\n" + local("", "")},
	{id: "pkginterface-embedding", sort: "iface", name: "If$S", code: "type B$S interface {\n\tM() int\n}\n\ntype $N interface {\n\tB$S\n}\n\ntype impl$S struct{}\n\nfunc (impl$S) M() int { return 1 }\n\n" + local("", "")},
	{id: "pkginterface-alias", sort: "iface", name: "If$S", code: "type $N = interface {\n\tM() int\n}\n\ntype impl$S struct{}\n\nfunc (impl$S) M() int { return 1 }\n\n" + local("", "")},
	{id: "localinterface", sort: "iface", name: "If$S", code: "type impl$S struct{}\n\nfunc (impl$S) M() int { return 1 }\n\n" + local("type $N interface {\n\tM() int\n}", "")},
}

var ifaceUses = []useT{
	{id: "var-call", sort: "iface", stmts: "var z$S $N = impl$S{}\n_ = z$S.M()"},
	{id: "assert", sort: "iface", stmts: "_ = any(impl$S{}).($N)"},
	{id: "assert-comma-ok", sort: "iface", stmts: "_, ok$S := any(impl$S{}).($N)\n_ = ok$S"},
	{id: "typeswitch-case", sort: "iface", stmts: "switch z$S := any(impl$S{}).(type) {\ncase $N:\n_ = z$S.M()\n}"},
	{id: "conversion", sort: "iface", stmts: "_ = $N(impl$S{})"},
	{id: "local-embedding", sort: "iface", stmts: "type J$S interface {\n\t$N\n}\nvar jv$S J$S = impl$S{}\n_ = jv$S.M()"},
	{id: "slice-of", sort: "iface", stmts: "_ = []$N{impl$S{}}"},
	{id: "method-expr", sort: "iface", stmts: "_ = $N.M"},
	{id: "struct-embedded", sort: "iface", stmts: "e$S := struct{ $N }{impl$S{}}\n_ = e$S.M()"},
}

const fbody = "(x int) int { return x }"

var funcDecls = []declT{
	{id: "pkgfunc", sort: "func", name: "fn$S", code: "func $N" + fbody + "\n\n" + local("", "")},
	{id: "pkgfunc-exported", sort: "func", name: "Fn$S", code: "func $N" + fbody + "\n\n" + local("", "")},
	{id: "pkgfunc-after-use", sort: "func", name: "fn$S", code: local("", "") + "\n\nfunc $N" + fbody},
	{id: "pkgfunc-var", sort: "func", name: "fn$S", code: "var $N = func" + fbody + "\n\n" + local("", "")},
	{id: "local-closure", sort: "func", name: "fn$S", code: local("$N := func"+fbody, "_ = $N")},
	{id: "local-func-var", sort: "func", name: "fn$S", code: local("var $N func(int) int = func"+fbody, "_ = $N")},
	{id: "func-param", sort: "func", name: "fn$S", code: "func f$S($N func(int) int) {\n$USE\n}"},
	{id: "method-value-var", sort: "func", name: "fn$S", code: "type R$S struct{}\n\nfunc (R$S) m" + fbody + "\n\n" + local("$N := R$S{}.m", "_ = $N")},
	{id: "func-from-call", sort: "func", name: "fn$S", code: "func mkf$S() func(int) int { return func" + fbody + " }\n\n" + local("$N := mkf$S()", "_ = $N")},
	{id: "named-func-type-var", sort: "func", name: "fn$S", code: "type Fty$S func(int) int\n\nvar $N Fty$S = func" + fbody + "\n\n" + local("", "")},
	{id: "recursive-func", sort: "func", name: "fn$S", code: "func $N(x int) int {\n\tif x > 0 {\n\t\treturn $N(x - 1)\n\t}\n\treturn 0\n}\n\n" + local("", "")},
}

var funcUses = []useT{
	{id: "call", sort: "func", stmts: "_ = $N(1)"},
	{id: "call-stmt", sort: "func", stmts: "$N(1)"},
	{id: "func-value", sort: "func", stmts: "g$S := $N\n_ = g$S"},
	{id: "as-arg", sort: "func", stmts: "_ = ap$S($N)", top: "func ap$S(f func(int) int) int { return f(1) }"},
	{id: "defer", sort: "func", stmts: "defer $N(1)"},
	{id: "go", sort: "func", stmts: "go $N(1)"},
	{id: "in-slice", sort: "func", stmts: "_ = []func(int) int{$N}"},
	{id: "nested-call", sort: "func", stmts: "_ = $N($N(1))"},
	{id: "in-closure", sort: "func", stmts: "_ = func() int { return $N(2) }()"},
	{id: "paren-call", sort: "func", stmts: "_ = ($N)(1)"},
	{id: "in-struct-field", sort: "func", stmts: "_ = struct{ f func(int) int }{f: $N}"},
}

func pkgDecls(path, name string) []declT {
	sortName := "pkg:" + path
	return []declT{
		{id: "import-" + name, sort: sortName, imp: "import \"" + path + "\"", code: local("", ""), vars: map[string]string{"Q": name + "."}},
		{id: "import-renamed-" + name, sort: sortName, imp: "import al$S \"" + path + "\"", code: local("", ""), vars: map[string]string{"Q": "al$S."}, flags: "renamed"},
		{id: "import-dot-" + name, sort: sortName, imp: "import . \"" + path + "\"", code: local("", ""), vars: map[string]string{"Q": ""}},
		{id: "import-group-" + name, sort: sortName, imp: "import (\n\t\"" + path + "\"\n)", code: local("", ""), vars: map[string]string{"Q": name + "."}},
		{id: "import-group-renamed-" + name, sort: sortName, imp: "import (\n\tal$S \"" + path + "\"\n)", code: local("", ""), vars: map[string]string{"Q": "al$S."}, flags: "renamed"},
	}
}

var pkgUses = []useT{
	{id: "pkg-func-call", sort: "pkg:strings", stmts: "_ = $QToUpper(\"a\")"},
	{id: "pkg-func-value", sort: "pkg:strings", stmts: "g$S := $QToUpper\n_ = g$S"},
	{id: "pkg-type-var", sort: "pkg:strings", stmts: "var b$S $QBuilder\n_ = b$S.Len()"},
	{id: "pkg-type-literal", sort: "pkg:strings", stmts: "_ = $QBuilder{}"},
	{id: "pkg-type-new", sort: "pkg:strings", stmts: "_ = new($QBuilder)"},
	{id: "pkg-constructor-method", sort: "pkg:strings", stmts: "r$S := $QNewReader(\"a\")\n_ = r$S.Len()"},
	{id: "pkg-type-in-slice", sort: "pkg:strings", stmts: "_ = []$QBuilder{}"},
	{id: "pkg-type-in-funclit", sort: "pkg:strings", stmts: "_ = func(b *$QBuilder) {}"},
	{id: "pkg-method-expr", sort: "pkg:strings", stmts: "_ = (*$QBuilder).Len"},
	{id: "pkg-func-as-arg", sort: "pkg:strings", stmts: "_ = aps$S($QToUpper)", top: "func aps$S(f func(string) string) string { return f(\"a\") }"},
	{id: "pkg-const", sort: "pkg:math", stmts: "_ = $QPi"},
	{id: "pkg-const-expr", sort: "pkg:math", stmts: "_ = $QMaxInt8 + 1"},
	{id: "pkg-const-in-const", sort: "pkg:math", stmts: "const k$S = $QPi\n_ = k$S"},
	{id: "pkg-const-array-len", sort: "pkg:math", stmts: "var a$S [$QMaxInt8]int\n_ = a$S"},
	{id: "pkg-func-call-float", sort: "pkg:math", stmts: "_ = $QSqrt(2)"},
	{id: "pkg-var", sort: "pkg:os", stmts: "_ = $QArgs"},
	{id: "pkg-var-len", sort: "pkg:os", stmts: "_ = len($QArgs)"},
	{id: "pkg-var-assign", sort: "pkg:os", stmts: "$QArgs = nil"},
	{id: "pkg-var-address", sort: "pkg:os", stmts: "_ = &$QArgs"},
	{id: "pkg-var-pointer", sort: "pkg:os", stmts: "_ = $QStdout"},
	{id: "pkg-var-method", sort: "pkg:os", stmts: "_ = $QStdout.Name()"},
	{id: "pkg-type-pointer", sort: "pkg:os", stmts: "var fl$S *$QFile\n_ = fl$S"},
	{id: "pkg-error-var", sort: "pkg:os", stmts: "_ = $QErrNotExist"},
	{id: "pkg-const-flag", sort: "pkg:os", stmts: "_ = $QO_RDONLY"},
}

var labelDecls = []declT{
	{id: "label-for", sort: "label:loop", name: "Lb$S", code: local("$N:\nfor i$S := 0; i$S < 2; i$S++ {", "}")},
	{id: "label-for-nested", sort: "label:loop", name: "Lb$S", code: local("$N:\nfor i$S := 0; i$S < 2; i$S++ {\nfor j$S := 0; j$S < 2; j$S++ {", "}\n}")},
	{id: "label-range", sort: "label:loop", name: "Lb$S", code: local("$N:\nfor range []int{1} {", "}")},
	{id: "label-lowercase", sort: "label:loop", name: "lb$S", code: local("$N:\nfor {", "}")},
	{id: "label-switch", sort: "label:break", name: "Lb$S", code: local("$N:\nswitch {\ncase true:", "}")},
	{id: "label-select", sort: "label:break", name: "Lb$S", code: local("$N:\nselect {\ndefault:", "}")},
	{id: "label-typeswitch", sort: "label:break", name: "Lb$S", code: local("$N:\nswitch any(1).(type) {\ncase int:", "}")},
}

var labelUses = []useT{
	{id: "break-label", sort: "label:loop", stmts: "break $N"},
	{id: "continue-label", sort: "label:loop", stmts: "continue $N"},
	{id: "break-label-in-if", sort: "label:loop", stmts: "if true {\nbreak $N\n}"},
	{id: "break-label-in-switch", sort: "label:loop", stmts: "switch {\ncase true:\ncontinue $N\n}"},
	{id: "break-label", sort: "label:break", stmts: "break $N"},
	{id: "break-label-in-if", sort: "label:break", stmts: "if true {\nbreak $N\n}"},
}

// closed templates: complete declarations with the use built in
var closedDecls = []declT{
	{id: "typeswitch-default-clause", code: local("var a$S any = 1\nswitch t$S := a$S.(type) {\ncase int:\n_ = t$S\ndefault:\n_ = t$S\n}", "")},
	{id: "typeswitch-multi-type-clause", code: local("var a$S any = 1\nswitch t$S := a$S.(type) {\ncase int, string:\n_ = t$S\n}", "")},
	{id: "typeswitch-nil-clause", code: local("var a$S any\nswitch t$S := a$S.(type) {\ncase nil:\n_ = t$S\ncase error:\n_ = t$S\n}", "")},
	{id: "typeswitch-on-named-interface", code: "type I$S interface{ M() int }\n\n" + local("var a$S I$S\nswitch t$S := a$S.(type) {\ncase interface{ N() }:\n_ = t$S\ndefault:\n_ = t$S\n}", "")},
	{id: "typeswitch-no-binding", code: local("var a$S any = 1\nswitch a$S.(type) {\ncase int:\ncase nil:\n}", "")},
	{id: "goto-label", code: local("x$S := 0\nLg$S:\nx$S++\nif x$S < 2 {\ngoto Lg$S\n}", "")},
	{id: "goto-forward", code: local("goto Le$S\nLe$S:", "")},
	{id: "universe-values", code: local("var b$S bool = true\nb$S = false\nvar p$S *int = nil\n_, _ = b$S, p$S", "")},
	{id: "universe-nil-compare", code: local("var p$S *int\n_ = p$S == nil\nvar e$S error\n_ = e$S != nil\nvar m$S map[string]int\n_ = m$S == nil", "")},
	{id: "universe-types", code: local("var (\n\ta$S int8\n\tb$S uint16\n\tc$S float32\n\td$S complex128\n\te$S string\n\tf$S byte\n\tg$S rune\n\th$S error\n\ti$S any\n\tj$S uintptr\n\tk$S bool\n)\n_, _, _, _, _, _, _, _, _, _, _ = a$S, b$S, c$S, d$S, e$S, f$S, g$S, h$S, i$S, j$S, k$S", "")},
	{id: "universe-iota", code: "const (\n\tA$S = iota * 2\n\tB$S\n\tC$S = iota\n)\n"},
	{id: "builtin-len-cap", code: local("xs$S := []int{1}\n_ = len(xs$S) + cap(xs$S)\n_ = len(\"abc\")", "")},
	{id: "builtin-append", code: local("xs$S := []int{1}\nxs$S = append(xs$S, 2, 3)\nxs$S = append(xs$S, xs$S...)", "")},
	{id: "builtin-copy", code: local("xs$S := []int{1}\n_ = copy(xs$S, xs$S)", "")},
	{id: "builtin-delete", code: local("m$S := map[string]int{}\ndelete(m$S, \"a\")", "")},
	{id: "builtin-make", code: local("_ = make([]int, 1, 2)\n_ = make(map[string]int)\n_ = make(chan int, 1)", "")},
	{id: "builtin-new", code: local("_ = new(int)", "")},
	{id: "builtin-panic-recover", code: local("defer func() {\n_ = recover()\n}()\npanic(\"x\")", "")},
	{id: "builtin-print", code: local("print(1)\nprintln(\"a\", 2)", "")},
	{id: "builtin-close", code: local("c$S := make(chan int)\nclose(c$S)", "")},
	{id: "builtin-complex", code: local("z$S := complex(1.0, 2.0)\n_ = real(z$S) + imag(z$S)", "")},
	{id: "builtin-min-max", code: local("_ = min(1, 2) + max(3, 4)", "")},
	{id: "builtin-clear", code: local("m$S := map[string]int{}\nclear(m$S)", "")},
	{id: "builtin-as-value-shadowed", code: local("len$S := 3\n_ = len$S", "")},
	{id: "shadow-package-var", code: "var sh$S = 1\n\n" + local("sh$S := \"s\"\n_ = sh$S", "")},
	{id: "shadow-in-nested-block", code: local("sh$S := 1\n{\nsh$S := \"s\"\n_ = sh$S\n}\n_ = sh$S", "")},
	{id: "shadow-type-by-param", code: "type Sh$S int\n\nfunc f$S(Sh$S string) string { return Sh$S }"},
	{id: "shadow-universe-type", code: local("type int$S = int\nvar string$S int$S\n_ = string$S", "")},
	{id: "shadow-builtin", code: local("len := func(s string) int { return 1 }\n_ = len(\"a\")", "")},
	{id: "shadow-universe-value", code: local("true := 1\n_ = true", "")},
	{id: "shadow-if-else-chain", code: local("if x$S := 1; x$S > 1 {\n} else if y$S := x$S; y$S > 0 {\n_ = x$S\n} else {\n_, _ = x$S, y$S\n}", "")},
	{id: "recursive-type", code: "type Nd$S struct {\n\tnext *Nd$S\n\tval  int\n}\n\n" + local("n$S := &Nd$S{}\n_ = n$S.next.next.val", "")},
	{id: "mutually-recursive-types", code: "type Aa$S struct{ b *Bb$S }\n\ntype Bb$S struct{ a *Aa$S }\n\n" + local("var a$S Aa$S\n_ = a$S.b.a", "")},
	{id: "mutually-recursive-funcs", code: "func ev$S(n int) bool {\n\tif n == 0 {\n\t\treturn true\n\t}\n\treturn od$S(n - 1)\n}\n\nfunc od$S(n int) bool {\n\tif n == 0 {\n\t\treturn false\n\t}\n\treturn ev$S(n - 1)\n}"},
	{id: "method-calls-method", code: "type Mc$S struct{ x int }\n\nfunc (m *Mc$S) a() int { return m.b() + m.x }\n\nfunc (m *Mc$S) b() int { return 1 }"},
	{id: "init-funcs", code: "var iv$S int\n\nfunc init() { iv$S = 1 }\n\nfunc init() { iv$S = 2 }"},
	{id: "blank-var", code: "var _ = 5\n\nvar _ int\n\nvar _, bv$S = 1, 2"},
	{id: "blank-const", code: "const _ = 1\n\nconst (\n\t_ = iota\n\tbc$S\n)"},
	{id: "blank-func", code: "func _() {}\n\nfunc _(a int) int { return a }"},
	{id: "blank-type", code: "type _ struct{}\n\ntype _ int"},
	{id: "blank-type-and-var", code: "type _ struct{}\n\nvar _ = 5"},
	{id: "blank-func-and-const", code: "func _() {}\n\nconst _ = 1"},
	{id: "blank-params-and-fields", code: "type Bl$S struct {\n\t_ int\n\tX int\n}\n\nfunc bl$S(_ int, _ string) (_ int) { return 0 }"},
	{id: "blank-in-define", code: local("_, b$S := 1, 2\n_ = b$S\nfor _, v$S := range []int{1} {\n_ = v$S\n}\nfor _ = range []int{1} {\n}", "")},
	{id: "unnamed-params-results", code: "func un$S(int, string) (int, error) { return 0, nil }\n\ntype Fu$S func(int) string\n\ntype Iu$S interface {\n\tM(int) string\n}"},
	{id: "embedded-fields", code: "type Ea$S struct{ X int }\n\ntype Eb$S struct{ Y int }\n\ntype Ec$S struct {\n\tEa$S\n\t*Eb$S\n\tany$S\n}\n\ntype any$S = interface{}\n\n" + local("var c$S Ec$S\n_ = c$S.Ea$S\n_ = c$S.Eb$S\n_ = c$S.X", "")},
	{id: "embedded-imported-type", imp: "import \"strings\"", code: "type Es$S struct {\n\tstrings.Builder\n\t*strings.Reader\n}\n\n" + local("var e$S Es$S\n_ = e$S.Builder.Len()\n_ = e$S.Cap()", "")},
	{id: "embedded-interface-in-interface", code: "type Ia$S interface{ A() }\n\ntype Ib$S interface {\n\tIa$S\n\tB()\n}\n\n" + local("var b$S Ib$S\nif b$S != nil {\nb$S.A()\nb$S.B()\n}", "")},
	{id: "embedded-error-interface", code: "type Ie$S interface {\n\terror\n\tCode() int\n}\n\n" + local("var e$S Ie$S\nif e$S != nil {\n_ = e$S.Error()\n}", "")},
	{id: "struct-tags-and-anonymous", code: local("v$S := struct {\n\tA int `k:\"a\"`\n\tB, C string\n}{A: 1, B: \"b\"}\n_ = v$S.C", "")},
	{id: "multi-value-call", code: "func mv$S() (int, string) { return 1, \"a\" }\n\nfunc tk$S(a int, b string) {}\n\n" + local("tk$S(mv$S())\na$S, b$S := mv$S()\n_, _ = a$S, b$S", "")},
	{id: "variadic-call-forms", code: "func va$S(p string, xs ...int) int { return len(xs) }\n\n" + local("_ = va$S(\"a\")\n_ = va$S(\"a\", 1, 2)\n_ = va$S(\"a\", []int{1}...)", "")},
	{id: "const-expressions", code: "const (\n\tca$S       = 1 << 3\n\tcb$S int64 = ca$S * 2\n\tcc$S       = \"s\" + \"t\"\n\tcd$S       = len(cc$S)\n\tce$S       = ca$S > 2\n\tcf$S       = 1.5 * ca$S\n)"},
	{id: "labeled-continue-nested", code: local("Lo$S:\nfor i$S := 0; i$S < 2; i$S++ {\nfor j$S := 0; j$S < 2; j$S++ {\nif j$S == 1 {\ncontinue Lo$S\n}\nif i$S == 1 {\nbreak Lo$S\n}\n}\n}", "")},
	{id: "closure-captures-loop-var", code: local("var fs$S []func() int\nfor i$S := 0; i$S < 2; i$S++ {\nfs$S = append(fs$S, func() int { return i$S })\n}\n_ = fs$S", "")},
	{id: "defer-recover-closure", code: "func dr$S() (err error) {\n\tdefer func() {\n\t\tif r := recover(); r != nil {\n\t\t\terr = nil\n\t\t}\n\t}()\n\treturn nil\n}"},
	{id: "type-alias-chain", code: "type Ta$S = int\n\ntype Tb$S = Ta$S\n\ntype Tc$S Tb$S\n\n" + local("var a$S Tb$S = 1\nvar c$S Tc$S = Tc$S(a$S)\n_ = c$S", "")},
	{id: "array-and-slices-of-structs", code: "type Pt$S struct{ X, Y int }\n\n" + local("g$S := [2][]Pt$S{{{1, 2}}, {{X: 3}}}\n_ = g$S[0][0].X\nfor _, row$S := range g$S {\nfor _, p$S := range row$S {\n_ = p$S.Y\n}\n}", "")},
	{id: "struct-conversion", code: "type Sa$S struct{ X int }\n\ntype Sb$S struct{ X int }\n\n" + local("a$S := Sa$S{1}\nb$S := Sb$S(a$S)\n_ = b$S.X", "")},
	{id: "interface-satisfaction", code: "type Is$S interface{ M() int }\n\ntype Im$S struct{}\n\nfunc (Im$S) M() int { return 1 }\n\nvar _ Is$S = Im$S{}\n\nvar _ Is$S = (*Im$S)(nil)"},
	{id: "generic-type", code: "type Gp$S[K comparable, V any] struct {\n\tk K\n\tv V\n}\n\nfunc (p Gp$S[K, V]) key() K { return p.k }\n\n" + local("p$S := Gp$S[string, int]{k: \"a\", v: 1}\n_ = p$S.key()\n_ = p$S.v", "")},
	{id: "generic-type-alias-instance", code: "type Gl$S[T any] []T\n\ntype Gi$S = Gl$S[int]\n\n" + local("var l$S Gi$S\nl$S = append(l$S, 1)\n_ = l$S[0]", "")},
	{id: "select-all-forms", code: local("c$S := make(chan int, 1)\nd$S := make(chan string, 1)\nselect {\ncase v$S := <-c$S:\n_ = v$S\ncase s$S, ok$S := <-d$S:\n_, _ = s$S, ok$S\ncase c$S <- 1:\ndefault:\n}", "")},
	{id: "select-assign-recv", code: local("c$S := make(chan int, 1)\nvar v$S int\nvar ok$S bool\nselect {\ncase v$S = <-c$S:\ncase v$S, ok$S = <-c$S:\ndefault:\n}\n_, _ = v$S, ok$S", "")},
	{id: "switch-forms", code: local("x$S := 1\nswitch y$S := x$S + 1; {\ncase y$S > 1, x$S > 2:\nfallthrough\ncase x$S == 0:\ndefault:\n}", "")},
	{id: "func-returning-func", code: "func rf$S(a int) func(b int) int {\n\treturn func(b int) int { return a + b }\n}\n\n" + local("_ = rf$S(1)(2)", "")},
	{id: "method-value-from-pointer-embedded", code: "type Pe$S struct{}\n\nfunc (*Pe$S) m() int { return 1 }\n\ntype Po$S struct{ *Pe$S }\n\n" + local("o$S := Po$S{&Pe$S{}}\nf$S := o$S.m\n_ = f$S()\n_ = (*Pe$S).m(o$S.Pe$S)", "")},
	{id: "stringer-method-and-fmt", imp: "import \"fmt\"", code: "type Sg$S int\n\nfunc (s Sg$S) String() string { return fmt.Sprint(int(s)) }\n\n" + local("var s$S fmt.Stringer = Sg$S(1)\nfmt.Println(s$S.String())", "")},
	{id: "error-type", imp: "import \"errors\"", code: "type Er$S struct{ msg string }\n\nfunc (e *Er$S) Error() string { return e.msg }\n\n" + local("var e$S error = &Er$S{\"m\"}\nvar t$S *Er$S\nif errors.As(e$S, &t$S) {\n_ = t$S.msg\n}", "")},
	{id: "blank-import", imp: "import _ \"os\"", code: local("", "")},
	{id: "map-of-funcs", code: local("m$S := map[string]func(int) int{\n\"inc\": func(x int) int { return x + 1 },\n}\n_ = m$S[\"inc\"](1)", "")},
	{id: "chan-directions", code: "func cd$S(in <-chan int, out chan<- int) {\n\tfor v := range in {\n\t\tout <- v\n\t}\n}"},
	{id: "pointer-to-array-and-index", code: local("a$S := [3]int{1, 2, 3}\np$S := &a$S\n_ = p$S[1]\n_ = len(p$S)\ns$S := p$S[:]\n_ = s$S", "")},
	{id: "const-typed-enum-with-method", code: "type En$S int\n\nconst (\n\tEa$S En$S = iota\n\tEb$S\n)\n\nfunc (e En$S) next() En$S { return e + 1 }\n\n" + local("_ = Ea$S.next() == Eb$S", "")},
}

type slot struct {
	d declT
	u *useT
}

func (s slot) origin() string {
	if s.u == nil {
		return s.d.id
	}
	return s.d.id + " x " + s.u.id
}

func subst(s string, n int, d declT) string {
	name := d.name
	if name == "" {
		name = "n$S"
	}
	// the variables of the declaration may themselves mention $N and $S
	for _, k := range []string{"LT", "ME", "MA", "IV", "V", "Q"} {
		if v, ok := d.vars[k]; ok {
			s = strings.ReplaceAll(s, "$"+k, v)
		}
	}
	s = strings.ReplaceAll(s, "$N", name)
	return strings.ReplaceAll(s, "$S", itoa(n))
}

func itoa(n int) string {
	if n == 0 {
		return "0"
	}
	s := ""
	for n > 0 {
		s = string(rune('0'+n%10)) + s
		n /= 10
	}
	return s
}

// compatible reports whether use u applies to declaration d.
func compatible(d declT, u useT) bool {
	ds, us := d.sort, u.sort
	if ds == "" {
		ds = "int"
	}
	if us == "" {
		us = "int"
	}
	if ds != us {
		return false
	}
	if u.need == "" {
		return true
	}
	if strings.HasPrefix(u.need, "!") {
		return !strings.Contains(" "+d.flags+" ", " "+u.need[1:]+" ")
	}
	return strings.Contains(" "+d.flags+" ", " "+u.need+" ")
}

func allDecls() []declT {
	var ds []declT
	ds = append(ds, intDecls...)
	ds = append(ds, fieldDecls...)
	ds = append(ds, methodDecls...)
	ds = append(ds, itypeDecls...)
	ds = append(ds, stypeDecls...)
	ds = append(ds, ifaceDecls...)
	ds = append(ds, funcDecls...)
	ds = append(ds, pkgDecls("strings", "strings")...)
	ds = append(ds, pkgDecls("math", "math")...)
	ds = append(ds, pkgDecls("os", "os")...)
	ds = append(ds, labelDecls...)
	for _, c := range closedDecls {
		c.sort = "closed"
		ds = append(ds, c)
	}
	return ds
}

func allUses() []useT {
	var us []useT
	us = append(us, intUses...)
	us = append(us, fieldUses...)
	us = append(us, methodUses...)
	us = append(us, itypeUses...)
	us = append(us, stypeUses...)
	us = append(us, ifaceUses...)
	us = append(us, funcUses...)
	us = append(us, pkgUses...)
	us = append(us, labelUses...)
	return us
}

// render builds the file text for one or two slots.
func render(slots []slot) string {
	imports := map[string]bool{}
	var impOrder []string
	addImp := func(s string) {
		if !imports[s] {
			imports[s] = true
			impOrder = append(impOrder, s)
		}
	}
	var body strings.Builder
	tops := map[string]bool{}
	for i, sl := range slots {
		n := i + 1
		if sl.d.imp != "" {
			addImp(subst(sl.d.imp, n, sl.d))
		}
		code := sl.d.code
		if sl.u != nil {
			for _, im := range sl.u.imports {
				addImp("import \"" + im + "\"")
			}
			code = strings.Replace(code, "$USE", sl.u.stmts, 1)
			if sl.u.top != "" {
				t := subst(sl.u.top, n, sl.d)
				if !tops[t] {
					tops[t] = true
					code += "\n\n" + sl.u.top
				}
			}
		} else {
			code = strings.Replace(code, "$USE\n", "", 1)
		}
		body.WriteString(subst(code, n, sl.d))
		body.WriteString("\n\n")
	}
	var sb strings.Builder
	sb.WriteString("package main\n\n")
	sort.Strings(impOrder)
	for _, im := range impOrder {
		sb.WriteString(im + "\n")
	}
	if len(impOrder) > 0 {
		sb.WriteString("\n")
	}
	sb.WriteString(body.String())
	return indent(sb.String())
}

// indent re-indents by brace depth (cosmetic: witnesses in reports are readable).
func indent(src string) string {
	var out strings.Builder
	depth := 0
	inRaw := false
	for _, line := range strings.Split(src, "\n") {
		t := strings.TrimSpace(line)
		if t == "" {
			out.WriteString("\n")
			continue
		}
		d := depth
		if strings.HasPrefix(t, "}") || strings.HasPrefix(t, ")") {
			d--
		}
		if strings.HasPrefix(t, "case ") || strings.HasPrefix(t, "default:") {
			d--
		}
		if d < 0 {
			d = 0
		}
		out.WriteString(strings.Repeat("\t", d) + t + "\n")
		for _, r := range t {
			switch {
			case r == '`':
				inRaw = !inRaw
			case inRaw:
			case r == '{' || r == '(':
				depth++
			case r == '}' || r == ')':
				depth--
			}
		}
		if depth < 0 {
			depth = 0
		}
	}
	return strings.TrimRight(out.String(), "\n") + "\n"
}

// pairConflict: two import declarations of one package that Go rejects in one file.
func pairConflict(a, b declT) bool {
	if a.imp == "" || b.imp == "" {
		return false
	}
	pa, pb := importPath(a.imp), importPath(b.imp)
	if pa != pb {
		return false
	}
	if strings.Contains(a.flags, "renamed") || strings.Contains(b.flags, "renamed") {
		return false
	}
	return a.imp != b.imp
}

func importPath(imp string) string {
	i := strings.Index(imp, "\"")
	j := strings.LastIndex(imp, "\"")
	if i < 0 || j <= i {
		return ""
	}
	return imp[i+1 : j]
}

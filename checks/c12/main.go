// C12: type information recorded through x/typesutil obeys the invariants quoted in the Info doc
// comment (Defs[id] == nil || Defs[id].Pos() == id.Pos(); Uses[id].Pos() != id.Pos(); every node
// recorded in Types/Scopes/Defs/Uses belongs to the checked files), and for Go-compatible programs
// every identifier's recorded object agrees in name, kind and type with go/types on the same text.
//
// Mode E, in-process: (a) the Go-compatible family = declaration templates x use templates
// (gen.go), each combination its own file, thorough adds files with two combinations; (b) the
// XGo-only family = hand-written snippets per XGo construct, the corpus hand seeds inside a
// prelude, and the repository's own XGo files — only those that type-check (xgo.go).
package main

import (
	"encoding/json"
	"fmt"
	"os"
	"sort"
	"strings"
	"time"

	"verif/engine"
)

func toFailure(k Case, fd finding) *engine.Failure {
	var sb strings.Builder
	sb.WriteString(fd.detail + "\norigin: " + k.Origin)
	for _, f := range k.Files {
		sb.WriteString("\n--- " + f.Name + " ---\n" + f.Src)
	}
	return &engine.Failure{Key: fd.key, What: fd.what, Detail: sb.String()}
}

type goGen struct {
	decls  []declT
	uses   []useT
	compat [][]int
}

func newGoGen() *goGen {
	g := &goGen{decls: allDecls(), uses: allUses()}
	g.compat = make([][]int, len(g.decls))
	for di, d := range g.decls {
		for ui, u := range g.uses {
			if d.sort != "closed" && compatible(d, u) {
				g.compat[di] = append(g.compat[di], ui)
			}
		}
	}
	return g
}

func mkCase(slots []slot) Case {
	var o []string
	for _, s := range slots {
		o = append(o, s.origin())
	}
	return Case{Family: "go", Origin: strings.Join(o, " + "), Files: []SrcFile{{Name: "main.xgo", Src: render(slots)}}}
}

// singles, simplest first: closed templates and every compatible (declaration, use) combination.
// declOf[i] = index of the declaration template of case i.
func (g *goGen) singles(thorough bool) (cases []Case, declOf []int) {
	for di, d := range g.decls {
		if d.sort == "closed" {
			cases, declOf = append(cases, mkCase([]slot{{d: d}})), append(declOf, di)
			continue
		}
		for j, ui := range g.compat[di] {
			// quick thins the largest product (int values) to a third, keeping every declaration and every use
			if !thorough && (d.sort == "" || d.sort == "int") && (di+j)%3 != 0 {
				continue
			}
			u := g.uses[ui]
			cases, declOf = append(cases, mkCase([]slot{{d: d, u: &u}})), append(declOf, di)
		}
	}
	return
}

// pairs: every ordered pair of declaration templates in one file, uses chosen by rotation.
// skip = declaration templates that the XGo front end rejects in every single (they would only
// turn every pair file into an excluded one).
func (g *goGen) pairs(skip map[int]bool) (cases []Case) {
	for i1, d1 := range g.decls {
		for i2, d2 := range g.decls {
			if skip[i1] || skip[i2] || pairConflict(d1, d2) {
				continue
			}
			s1, s2 := slot{d: d1}, slot{d: d2}
			if c := g.compat[i1]; len(c) > 0 {
				u := g.uses[c[i2%len(c)]]
				s1.u = &u
			}
			if c := g.compat[i2]; len(c) > 0 {
				u := g.uses[c[(i1+i2/7)%len(c)]]
				s2.u = &u
			}
			cases = append(cases, mkCase([]slot{s1, s2}))
		}
	}
	return
}

func main() {
	c := engine.New("C12", "exploration")
	if c.IsReplay() {
		var k Case
		c.LoadReplay(&k)
		res := evalCase(k)
		// a case can show several defects: the replay is about the key stored in the replay file
		want := os.Getenv("C12_KEY")
		if b, err := os.ReadFile(c.ReplayFn); err == nil && want == "" {
			var rf struct {
				Key string `json:"key"`
			}
			if json.Unmarshal(b, &rf) == nil {
				want = rf.Key
			}
		}
		for _, fd := range res.findings {
			if want == "" || fd.key == want {
				c.ReplayResult(toFailure(k, fd))
			}
		}
		if res.status != "checked" {
			fmt.Printf("replay: case status %s: %s\n", res.status, res.errText)
		}
		c.ReplayResult(nil)
	}
	if p := os.Getenv("C12_PROBE"); p != "" { // development aid: evaluate one file, print everything
		probe(c, p)
	}

	gen := newGoGen()
	singles, declOf := gen.singles(c.Thorough())
	xc := xgoCases(c.Thorough())
	tp := time.Now()
	preloadImports(xc)
	preloadSecs := time.Since(tp).Seconds()

	var goRejects, xgoRejects []string
	sampled, total := 0, 0
	declSeen, declOK := map[int]int{}, map[int]int{}
	run := func(k Case, declIdx int) bool {
		if c.Expired() {
			return false
		}
		total++
		res := evalCase(k)
		c.Eval(1)
		c.Hist("family_"+k.Family+":"+res.status, 1)
		if declIdx >= 0 {
			declSeen[declIdx]++
		}
		switch res.status {
		case "checked":
		case "go-rejects":
			goRejects = append(goRejects, k.Origin+": "+res.errText)
			return true
		default:
			if k.Family == "go" {
				xgoRejects = append(xgoRejects, k.Origin+": "+firstLine(res.errText))
				c.Hist("excluded_go_program_rejected_by_xgo", 1)
			} else {
				c.Hist("excluded_xgo_source_does_not_type_check", 1)
				if os.Getenv("C12_LIST_REJECTS") != "" {
					fmt.Println("XGO-FAMILY-REJECTED", k.Origin+": "+firstLine(res.errText))
				}
			}
			return true
		}
		if declIdx >= 0 {
			declOK[declIdx]++
		}
		if res.idents > 0 {
			c.NontrivialN(1)
		}
		if k.Family == "go" {
			c.Hist("identifiers_compared_with_go/types", int64(res.idents))
		} else {
			c.Hist("identifiers_recorded_in_xgo_family", int64(res.idents))
		}
		for name, n := range res.counts {
			c.Hist(name, n)
		}
		for _, fd := range res.findings {
			c.Hist("finding:"+fd.key, 1)
			c.Violate(k, toFailure(k, fd))
		}
		if len(res.findings) == 0 && sampled < 8 && total%211 == 1 {
			sampled++
			c.Sample(map[string]any{"origin": k.Origin, "family": k.Family, "file": k.Files[0].Name, "src": k.Files[0].Src, "identifiers": res.idents})
		}
		return true
	}
	phase := map[string]float64{}
	t0 := time.Now()
	lap := func(name string) {
		phase[name] = float64(int(time.Since(t0).Seconds()*10)) / 10
		t0 = time.Now()
	}
	done := true
	for i, k := range singles {
		if done = run(k, declOf[i]); !done {
			break
		}
	}
	lap("go_family_singles")
	for _, k := range xc {
		if !done {
			break
		}
		done = run(k, -1)
	}
	lap("xgo_family")
	npairs := 0
	if c.Thorough() && done {
		skip := map[int]bool{}
		for di, n := range declSeen {
			if declOK[di] == 0 && n > 0 {
				skip[di] = true
			}
		}
		pairs := gen.pairs(skip)
		npairs = len(pairs)
		for _, k := range pairs {
			if done = run(k, -1); !done {
				break
			}
		}
	}
	lap("go_family_pairs")
	phase["locate_export_data"] = float64(int(preloadSecs*10)) / 10
	c.Extra["phase_seconds"] = phase
	if !done {
		c.Cap(fmt.Sprintf("stopped at the internal deadline after %d files", total))
	}
	if len(goRejects) > 0 {
		// the generator promises Go-valid programs: a harness error, never a verdict
		sort.Strings(goRejects)
		c.Fatal("%d generated programs are rejected by go/parser or go/types (generator defect), first: %s", len(goRejects), strings.Join(goRejects[:min(5, len(goRejects))], "\n"))
	}
	if os.Getenv("C12_LIST_REJECTS") != "" {
		for _, r := range xgoRejects {
			fmt.Println("XGO-REJECTS", r)
		}
	}
	// Go programs the XGo front end rejects are another property's business (C06/C14): excluded
	// here, listed by error class with one example each
	rejClasses := map[string]map[string]any{}
	for _, r := range xgoRejects {
		origin, msg, _ := strings.Cut(r, ": ")
		cls := msg
		if i := strings.Index(cls, ": "); i >= 0 && strings.HasPrefix(cls, "/c12/") {
			cls = cls[i+2:]
		}
		cls = noDigits(cls)
		if e, ok := rejClasses[cls]; ok {
			e["files"] = e["files"].(int) + 1
		} else {
			rejClasses[cls] = map[string]any{"files": 1, "first": origin}
		}
	}
	if len(rejClasses) > 0 {
		c.Extra["go_programs_rejected_by_xgo"] = rejClasses
	}
	c.Extra["bound"] = map[string]any{
		"declaration_templates": len(gen.decls), "use_templates": len(gen.uses),
		"go_family_single_files": len(singles), "go_family_pair_files": npairs, "xgo_family_files": len(xc),
	}
	c.Rule = "one file per compatible (declaration template, use template) combination of the Go-compatible grammar in gen.go (quick: a third of the int-value product, everything else complete; thorough: all combinations plus one file per ordered pair of declaration templates), plus the XGo-only family (hand-written snippets per construct, corpus hand seeds in a prelude, repository XGo files) restricted to sources that type-check; distinct_nontrivial = files that type-check and record at least one identifier"
	c.Assumptions = []string{
		"a node belongs to the checked files iff it is reachable from an *ast.File by the reflection walk of verif/astx (plus the name of a file without package clause and the signature of a shadow entry, which astx leaves out)",
		"go/types (source importer) on the same text parsed by go/parser is the reference for the Go-compatible family; identifiers are matched by byte offset; type strings use package names as qualifier and treat interface{} and any as equal",
		"the type in Info.Types of an identifier is judged only where it denotes a variable, function or type (no untyped conversion, no call-site specific builtin signature)",
		"identifiers absent from Defs/Uses are never judged (the statement constrains recorded entries only); they are counted, the classes named in the Info doc comment (import names, dots of dot-imports, blank identifiers, embedded fields) under excluded_not_recorded:*",
		"programs rejected by the XGo front end or type checker are excluded and counted",
	}
	c.Finish()
}

func firstLine(s string) string {
	if i := strings.IndexByte(s, '\n'); i >= 0 {
		return s[:i]
	}
	return s
}

func probe(c *engine.Check, p string) {
	b, err := os.ReadFile(p)
	if err != nil {
		c.Fatal("%v", err)
	}
	fam := "go"
	name := "main.xgo"
	if !strings.HasSuffix(p, ".go") {
		fam = "xgo"
		name = p[strings.LastIndex(p, "/")+1:]
	}
	res := evalCase(Case{Family: fam, Origin: p, Files: []SrcFile{{Name: name, Src: string(b)}}})
	fmt.Println("status:", res.status, res.errText, "identifiers:", res.idents)
	for _, fd := range res.findings {
		fmt.Printf("FINDING %s\n   %s\n   %s\n", fd.key, fd.what, fd.detail)
	}
	var ks []string
	for k := range res.counts {
		ks = append(ks, k)
	}
	sort.Strings(ks)
	for _, k := range ks {
		fmt.Printf("  %-70s %d\n", k, res.counts[k])
	}
	os.Exit(0)
}

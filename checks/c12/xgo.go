package main

import (
	"os"
	"path/filepath"
	"sort"
	"strings"

	"verif/corpus"
	"verif/progs"
)

// The XGo-only family: sources using the XGo extensions. Only the three invariants are judged
// (go/types cannot read these files). Sources that do not type-check are excluded and counted.

type snip struct {
	name  string
	files []SrcFile
}

func one(name, src string) snip {
	return snip{name, []SrcFile{{Name: "main.xgo", Src: src}}}
}

// hand-written, self-contained snippets: one or more per XGo construct
var xgoSnippets = []snip{
	one("slice-literal", "x := [1, 2, 3]\necho x\n"),
	one("slice-literal-mixed", "x := [1, 2.5, 3]\ny := [\"a\", \"b\"]\necho x, y\n"),
	one("slice-literal-nested", "x := [[1, 2], [3]]\necho x[0][1]\n"),
	one("map-literal", "m := {\"a\": 1, \"b\": 2}\necho m[\"a\"]\n"),
	one("map-literal-nested", "m := {\"a\": [1, 2], \"b\": [3]}\necho m[\"a\"][0]\n"),
	one("empty-literals", "var a []int = []\nvar m map[string]int = {}\necho a, m\n"),
	one("list-comprehension", "x := [1, 2, 3]\ny := [v*v for v <- x]\necho y\n"),
	one("list-comprehension-if", "x := [1, 2, 3]\ny := [v*v for v <- x if v > 1]\necho y\n"),
	one("list-comprehension-index", "x := [1, 2, 3]\ny := [i+v for i, v <- x]\necho y\n"),
	one("list-comprehension-nested", "x := [[1, 2], [3]]\ny := [v for v <- row for row <- x]\necho y\n"),
	one("list-comprehension-of-comprehension", "x := [1, 2]\ny := [[a*b for a <- x] for b <- x]\necho y\n"),
	one("map-comprehension", "m := {\"a\": 1}\nr := {v: k for k, v <- m}\necho r\n"),
	one("map-comprehension-if", "x := [1, 2, 3]\nr := {v: i for i, v <- x if v > 1}\necho r\n"),
	one("select-comprehension", "x := [1, 2, 3]\nv, ok := {v for v <- x if v > 2}\necho v, ok\n"),
	one("exists-comprehension", "x := [1, 2, 3]\nb := {for v <- x if v > 2}\necho b\n"),
	one("comprehension-range-expr", "y := [i*2 for i <- 0:5]\necho y\n"),
	one("for-in-arrow", "x := [1, 2, 3]\nfor v <- x {\n\techo v\n}\n"),
	one("for-in-arrow-index", "x := [1, 2, 3]\nfor i, v <- x {\n\techo i, v\n}\n"),
	one("for-in-arrow-if", "x := [1, 2, 3]\nfor v <- x if v > 1 {\n\techo v\n}\n"),
	one("for-in-keyword", "x := [1, 2, 3]\nfor v in x {\n\techo v\n}\n"),
	one("for-in-map", "m := {\"a\": 1}\nfor k, v <- m {\n\techo k, v\n}\n"),
	one("for-in-string", "for i, c <- \"ab\" {\n\techo i, c\n}\n"),
	one("for-in-blank", "x := [1, 2]\nfor _, v <- x {\n\techo v\n}\n"),
	one("range-expr-arrow", "for i <- 0:10:2 {\n\techo i\n}\n"),
	one("range-expr-arrow-two", "for i <- 1:4 {\n\techo i\n}\n"),
	one("range-expr-arrow-nostart", "for i <- :3 {\n\techo i\n}\n"),
	one("range-expr-in", "for i in 0:3 {\n\techo i\n}\n"),
	one("range-expr-range-define", "for i := range 0:3 {\n\techo i\n}\n"),
	one("range-expr-range-assign", "var j int\nfor j = range 0:3 {\n\techo j\n}\n"),
	one("range-expr-range-blank", "for range :3 {\n\techo \"x\"\n}\n"),
	one("range-expr-computed", "n := 4\nfor i <- 0:n+1:n/2 {\n\techo i\n}\n"),
	one("range-expr-computed-assign", "n := 4\nvar j int\nfor j = range 0:n+1:n/2 {\n\techo j\n}\n"),
	one("range-expr-negative-step", "for i <- 5:0:-1 {\n\techo i\n}\n"),
	one("range-expr-if", "for i <- 0:10 if i%2 == 0 {\n\techo i\n}\n"),
	one("range-expr-variables", "a, b, c := 0, 6, 2\nfor i <- a:b:c {\n\techo i\n}\n"),
	one("lambda-single", "func apply(f func(int) int, v int) int {\n\treturn f(v)\n}\n\necho apply(x => x * 2, 3)\n"),
	one("lambda-two-params", "func apply2(f func(int, int) int) int {\n\treturn f(1, 2)\n}\n\necho apply2((x, y) => x + y)\n"),
	one("lambda-no-param", "func call(f func() int) int {\n\treturn f()\n}\n\necho call(=> 1)\n"),
	one("lambda-block", "func apply(f func(int) int, v int) int {\n\treturn f(v)\n}\n\necho apply(x => {\n\ty := x + 1\n\treturn y * 2\n}, 3)\n"),
	one("lambda-command-style", "func each(xs []int, f func(int)) {\n\tfor x <- xs {\n\t\tf(x)\n\t}\n}\n\neach [1, 2], x => {\n\techo x\n}\n"),
	one("lambda-assigned", "var f func(int) int = x => x + 1\necho f(1)\n"),
	one("lambda-multi-result", "func pair(f func(int) (int, error)) {\n\techo f(1)\n}\n\npair x => (x, nil)\n"),
	one("lambda-capture", "func apply(f func(int) int) int {\n\treturn f(1)\n}\n\nn := 3\necho apply(x => x + n)\n"),
	one("errwrap-panic", "import \"strconv\"\n\nx := strconv.atoi(\"1\")!\necho x\n"),
	one("errwrap-default", "import \"strconv\"\n\nx := strconv.atoi(\"a\")?:-1\necho x\n"),
	one("errwrap-return", "import \"strconv\"\n\nfunc conv(s string) (int, error) {\n\tv := strconv.atoi(s)?\n\treturn v * 2, nil\n}\n\necho conv(\"2\")\n"),
	one("errwrap-return-only-error", "import \"os\"\n\nfunc rm(name string) error {\n\tos.remove(name)?\n\treturn nil\n}\n\necho rm(\"x\")\n"),
	one("errwrap-user-func", "func two() (int, error) {\n\treturn 2, nil\n}\n\nv := two()!\necho v\n"),
	one("string-interpolation", "name := \"w\"\nn := 2\necho \"hello ${name} ${n+1} $$\"\n"),
	one("string-interpolation-call", "import \"strings\"\n\ns := \"a\"\necho \"${strings.toUpper(s)}!\"\n"),
	one("string-interpolation-field", "type P struct {\n\tX int\n}\n\np := P{1}\necho \"x=${p.X}\"\n"),
	one("command-call", "echo \"hi\", 1\nprintln \"a\"\nprint \"b\"\n"),
	one("command-call-user", "func greet(name string, n int) {\n\techo name, n\n}\n\ngreet \"x\", 2\n"),
	one("command-call-method", "type T struct{}\n\nfunc (T) say(s string) {\n\techo s\n}\n\nt := T{}\nt.say \"hi\"\n"),
	one("command-call-variadic", "xs := []any{1, 2}\necho xs...\n"),
	one("lowercase-exported-call", "import \"strings\"\n\necho strings.toUpper(\"a\"), strings.repeat(\"b\", 2)\n"),
	one("builtin-string-methods", "s := \"a,b\"\necho s.split(\",\"), s.toUpper, s.len\n"),
	one("builtin-int-methods", "n := 3\necho n.string, \"12\".int!\n"),
	one("auto-property", "type T struct{}\n\nfunc (T) Name() string {\n\treturn \"n\"\n}\n\nt := T{}\necho t.name\n"),
	one("overload-funcs", "func addInt(a, b int) int {\n\treturn a + b\n}\n\nfunc addFloat(a, b float64) float64 {\n\treturn a + b\n}\n\nfunc add = (\n\taddInt\n\taddFloat\n)\n\nx, y := 1, 2\necho add(x, y)\nf, g := 1.5, 2.5\necho add(f, g)\n"),
	one("overload-literals", "func mul = (\n\tfunc(a, b int) int {\n\t\treturn a * b\n\t}\n\tfunc(a, b string) string {\n\t\treturn a + b\n\t}\n)\n\nx, y := 2, 3\necho mul(x, y)\ns, t := \"a\", \"b\"\necho mul(s, t)\n"),
	one("overload-methods", "type Foo struct{}\n\nfunc (Foo) addI(a int) int {\n\treturn a\n}\n\nfunc (Foo) addS(a string) string {\n\treturn a\n}\n\nfunc (Foo).add = (\n\t(Foo).addI\n\t(Foo).addS\n)\n\nvar v Foo\nn := 1\necho v.add(n)\ns := \"s\"\necho v.add(s)\n"),
	one("overload-operator", "type Vec struct {\n\tx int\n}\n\nfunc (a Vec) + (b Vec) Vec {\n\treturn Vec{a.x + b.x}\n}\n\nfunc -(a Vec) Vec {\n\treturn Vec{-a.x}\n}\n\nu, v := Vec{1}, Vec{2}\necho (u + v).x, (-u).x\n"),
	one("rational-literals", "a := 1r << 65\nb := 4/5r\necho a, b, a + 1r\n"),
	one("append-send", "xs := [1, 2]\nxs <- 3, 4\nys := [5]\nxs <- ys...\necho xs\n"),
	one("domain-text-tpl", "import \"xgo/tpl\"\n\ncl := tpl`expr = INT % \",\"`!\necho cl.parseExpr(\"1, 2\", nil)\n"),
	one("domain-text-json", "echo json`{\"a\": 1}`!\n"),
	one("func-with-top-level-stmts", "func double(x int) int {\n\treturn x * 2\n}\n\nvar g = 3\n\nn := double(g)\nif n > 2 {\n\techo n\n}\n"),
	one("main-func-explicit", "func main() {\n\tx := [1, 2]\n\tfor v <- x {\n\t\techo v\n\t}\n}\n"),
	one("package-clause-xgo", "package main\n\nfunc main() {\n\techo [v for v <- 0:3]\n}\n"),
	one("typed-comprehension-in-func", "func sq(xs []int) []int {\n\treturn [x*x for x <- xs]\n}\n\necho sq([1, 2])\n"),
	one("closure-over-for-in", "fs := []func() int{}\nfor v <- [1, 2] {\n\tfs = append(fs, func() int { return v })\n}\necho len(fs)\n"),
	one("struct-methods-xgo-style", "type Rect struct {\n\tw, h int\n}\n\nfunc (r *Rect) area() int {\n\treturn r.w * r.h\n}\n\nr := &Rect{2, 3}\necho r.area, r.area()\n"),
	one("switch-typeswitch-xgo", "var a any = [1, 2]\nswitch v := a.(type) {\ncase []int:\n\techo v[0]\ncase nil:\n\techo \"nil\"\ndefault:\n\techo v\n}\n"),
	one("select-xgo", "c := make(chan int, 1)\nc <- 1\nselect {\ncase v := <-c:\n\techo v\ndefault:\n}\n"),
	one("defer-go-xgo", "func work(n int) {\n\techo n\n}\n\ndefer work(1)\ngo work(2)\n"),
	one("labels-xgo", "outer:\n\tfor i <- 0:3 {\n\t\tfor j <- 0:3 {\n\t\t\tif j == 1 {\n\t\t\t\tcontinue outer\n\t\t\t}\n\t\t\tif i == 2 {\n\t\t\t\tbreak outer\n\t\t\t}\n\t\t}\n\t}\n"),
	one("multi-var-decls-xgo", "var a, b = 1, \"s\"\nc, d := 2.5, true\nconst e, f = 1, 2\necho a, b, c, d, e, f\n"),
	one("imports-xgo", "import (\n\t\"strings\"\n\tst \"strconv\"\n\t. \"math\"\n)\n\necho strings.ToUpper(\"a\"), st.Itoa(1), Sqrt(4)\n"),
	one("c-string", "import \"c\"\n\nc.printf c\"hi\\n\"\n"),
	{"class-gox", []SrcFile{
		{Name: "Rect.gox", Src: "var (\n\tWidth, Height float64\n\tname          string\n)\n\nfunc Area() float64 {\n\treturn Width * Height\n}\n\nfunc setName(n string) {\n\tname = n\n}\n\nfunc describe() string {\n\treturn \"${name}: ${Area()}\"\n}\n"},
		{Name: "main.xgo", Src: "r := &Rect{Width: 2, Height: 3}\nr.setName \"r\"\necho r.area, r.describe()\n"},
	}},
	{"class-gox-embedded", []SrcFile{
		{Name: "Base.gox", Src: "var (\n\tid int\n)\n\nfunc ident() int {\n\treturn id\n}\n"},
		{Name: "Item.gox", Src: "var (\n\tBase\n\ttags []string\n)\n\nfunc addTag(t string) {\n\ttags <- t\n}\n\nfunc count() int {\n\treturn len(tags) + ident()\n}\n"},
		{Name: "main.xgo", Src: "it := &Item{}\nit.addTag \"a\"\necho it.count, it.id\n"},
	}},
	{"class-gox-only", []SrcFile{
		{Name: "Counter.gox", Src: "var (\n\tn int\n)\n\nfunc inc() {\n\tn++\n}\n\nfunc get() int {\n\tfor i <- 0:2 {\n\t\tinc\n\t}\n\treturn n\n}\n"},
	}},
	{"two-xgo-files", []SrcFile{
		{Name: "a.xgo", Src: "package main\n\nfunc helper(xs []int) []int {\n\treturn [x+1 for x <- xs]\n}\n"},
		{Name: "main.xgo", Src: "package main\n\nfunc main() {\n\techo helper([1, 2])\n}\n"},
	}},
}

// prelude for the corpus hand seeds: declares the free names most seeds use
const seedPrelude = `import "errors"

type T struct {
	A int
	B *T
}

type Foo struct {
	n int
}

func (Foo) a() {}
func (Foo) b() {}

var (
	y   = 2
	a   = [1, 2]
	b   = "s"
	c   = make(chan int, 1)
	d   = [[1], [2]]
	m   = {"a": 1}
	z   = 3
	p   *T
	i   = 0
	j   = 1
	err = errors.New("e")
)

func f(args ...any) (int, error) {
	return len(args), nil
}

func f2() {}

func addInt(a, b int) int {
	return a + b
}

func addFloat(a, b float64) float64 {
	return a + b
}

`

func xgoCases(thorough bool) (cases []Case) {
	for _, s := range xgoSnippets {
		cases = append(cases, Case{Family: "xgo", Origin: "snippet:" + s.name, Files: s.files})
	}
	for i, seed := range corpus.HandSeeds {
		o := "corpus.HandSeeds[" + itoa(i) + "]"
		cases = append(cases, Case{Family: "xgo", Origin: o, Files: []SrcFile{{Name: "main.xgo", Src: seed + "\n"}}})
		if !strings.HasPrefix(seed, "package ") && !strings.HasPrefix(seed, "import ") {
			cases = append(cases, Case{Family: "xgo", Origin: o + " after x := [1, 2, 3]", Files: []SrcFile{{Name: "main.xgo", Src: "x := [1, 2, 3]\n" + seed + "\n"}}})
			cases = append(cases, Case{Family: "xgo", Origin: o + " in prelude", Files: []SrcFile{{Name: "main.xgo", Src: seedPrelude + "x := [1, 2, 3]\n" + seed + "\n"}}})
		}
	}
	cases = append(cases, repoCases(thorough)...)
	return
}

// repoCases: the repository's own XGo sources, one package per directory (XGo-family files only).
// quick: the compiler's test inputs (cl/_testgop) and demo/; thorough: every directory.
func repoCases(thorough bool) (cases []Case) {
	root := progs.RepoDir()
	exts := map[string]bool{".xgo": true, ".gop": true, ".gox": true}
	dirs := map[string][]string{}
	filepath.WalkDir(root, func(path string, d os.DirEntry, err error) error {
		if err != nil {
			return nil
		}
		if d.IsDir() {
			if d.Name() == ".git" {
				return filepath.SkipDir
			}
			return nil
		}
		if exts[filepath.Ext(path)] && !strings.HasPrefix(d.Name(), "_") {
			dirs[filepath.Dir(path)] = append(dirs[filepath.Dir(path)], path)
		}
		return nil
	})
	var names []string
	for d := range dirs {
		names = append(names, d)
	}
	sort.Strings(names)
	for _, d := range names {
		rel, _ := filepath.Rel(root, d)
		if !thorough && !(strings.HasPrefix(rel, "cl/_testgop/") || strings.HasPrefix(rel, "demo/")) {
			continue
		}
		files := dirs[d]
		sort.Strings(files)
		k := Case{Family: "xgo", Origin: "repo:" + rel, Mod: "repo"}
		size := 0
		for _, f := range files {
			b, err := os.ReadFile(f)
			if err != nil {
				continue
			}
			size += len(b)
			k.Files = append(k.Files, SrcFile{Name: filepath.Base(f), Src: string(b)})
		}
		if len(k.Files) > 0 && size <= 200<<10 {
			cases = append(cases, k)
		}
	}
	return
}

package main

import (
	"bytes"
	"fmt"
	goimporter "go/importer"
	gotoken "go/token"
	"go/types"
	"io"
	"os"
	"os/exec"
	"path/filepath"
	"reflect"
	"strings"
	"sync"

	"github.com/goplus/gogen/packages"
	"github.com/goplus/mod/xgomod"
	"github.com/goplus/xgo/ast"
	"github.com/goplus/xgo/parser"
	"github.com/goplus/xgo/token"
	"github.com/goplus/xgo/x/typesutil"

	"verif/astx"
	"verif/progs"
)

// Case is one checked file (one package of one file).
type Case struct {
	Family string    `json:"family"`        // "go" (Go-compatible, one file, both oracle parts) | "xgo" (invariants only)
	Origin string    `json:"origin"`        // template names or corpus path
	Files  []SrcFile `json:"files"`         // the files of the package (one directory)
	Mod    string    `json:"mod,omitempty"` // "repo": class-file kinds registered in the repository's go.mod apply
}

// SrcFile: the file name decides class-file handling (extension), as in the production parser.
type SrcFile struct {
	Name string `json:"name"`
	Src  string `json:"src"`
}

// finding = one judged discrepancy inside a case.
type finding struct {
	key, what, detail string
}

// result of evaluating one case.
type result struct {
	status   string // "checked" | "xgo-parse-error" | "xgo-type-error" | "go-rejects" | "panic"
	errText  string
	findings []finding
	counts   map[string]int64 // histogram contributions (unjudged classes and sizes)
	idents   int              // identifiers compared with go/types
}

// One file set and one importer per side for the whole process. Both sides read the compiler's
// export data (the XGo side through gogen's packages.Importer, the production importer; the
// reference side through go/importer "gc"), each with its own file set and its own type universe.
// Locating export data costs one `go list -export` per package (seconds on a busy machine), so
// the usual packages are located by a single call at start-up; others fall back to one call each.
var (
	xfset    = token.NewFileSet()
	ximp     types.Importer
	gofset   = gotoken.NewFileSet()
	goimp    types.Importer
	initOnce sync.Once
	exports  = &exportCache{files: map[string]string{}}
)

var preload = []string{"fmt", "os", "reflect", "strconv", "strings", "sort", "math", "errors", "io", "bytes", "time", "unicode",
	"github.com/qiniu/x/osx", "github.com/qiniu/x/xgo", "github.com/qiniu/x/xgo/ng", "github.com/qiniu/x/stringutil",
	"github.com/qiniu/x/stringslice", "github.com/qiniu/x/errors"}

// packages the compiler imports on its own for XGo constructs (rational literals, domain text
// literals, c/py strings, test class files); only loaded when the XGo family has such sources
var preloadXGo = []string{"math/big", "encoding/json", "regexp", "testing", "github.com/goplus/xgo/tpl/...", "github.com/goplus/xgo/test",
	"github.com/goplus/lib/c", "github.com/goplus/lib/py", "github.com/goplus/cobra/xcmd"}

type exportCache struct {
	mu    sync.Mutex
	files map[string]string
}

// goList runs `go list` inside a throw-away module that requires the checked-out repository, so
// that the go command may complete a go.mod there (GOFLAGS=-mod=mod) and never touches /verif/go.mod.
func goList(args ...string) ([]byte, error) {
	dir, err := os.MkdirTemp("", "verif-c12-mod-")
	if err != nil {
		return nil, err
	}
	defer os.RemoveAll(dir)
	gomod := "module c12scratch\n\ngo 1.23\n\nrequire github.com/goplus/xgo v0.0.0\n\nreplace github.com/goplus/xgo => " + progs.RepoDir() + "\n"
	if err := os.WriteFile(filepath.Join(dir, "go.mod"), []byte(gomod), 0o644); err != nil {
		return nil, err
	}
	var sum []byte
	for _, f := range []string{filepath.Join(progs.RepoDir(), "go.sum"), filepath.Join("/verif", "go.sum")} {
		b, _ := os.ReadFile(f)
		sum = append(append(sum, b...), '\n')
	}
	os.WriteFile(filepath.Join(dir, "go.sum"), sum, 0o644)
	cmd := exec.Command("go", args...)
	cmd.Dir = dir
	cmd.Env = append(os.Environ(), "GOFLAGS=-mod=mod", "GOPROXY=off", "GOSUMDB=off", "GOTOOLCHAIN=local")
	var stderr bytes.Buffer
	cmd.Stderr = &stderr
	out, err := cmd.Output()
	if err != nil && len(out) == 0 {
		return nil, fmt.Errorf("go %s: %v: %s", strings.Join(args, " "), err, stderr.String())
	}
	return out, nil
}

func (c *exportCache) load(pkgs ...string) {
	out, err := goList(append([]string{"list", "-e", "-export", "-f", "{{.ImportPath}}\t{{.Export}}"}, pkgs...)...)
	if err != nil {
		return
	}
	for _, l := range strings.Split(string(out), "\n") {
		if i := strings.IndexByte(l, '\t'); i > 0 && l[i+1:] != "" {
			c.files[l[:i]] = l[i+1:]
		}
	}
}

// Find implements packages.Cache.
func (c *exportCache) Find(dir, pkgPath string) (io.ReadCloser, error) {
	c.mu.Lock()
	defer c.mu.Unlock()
	f, ok := c.files[pkgPath]
	if !ok {
		c.load(pkgPath)
		if f, ok = c.files[pkgPath]; !ok {
			c.files[pkgPath] = ""
		}
	}
	if f == "" {
		return nil, fmt.Errorf("no export data for %q", pkgPath)
	}
	return os.Open(f)
}

func initImporters() {
	initOnce.Do(func() {
		if len(exports.files) == 0 { // not yet located together with the imports of the XGo family
			exports.load(preload...)
		}
		xi := packages.NewImporter(xfset)
		xi.SetCache(exports)
		ximp = xi
		goimp = goimporter.ForCompiler(gofset, "gc", func(path string) (io.ReadCloser, error) { return exports.Find("", path) })
	})
}

func newInfo() *typesutil.Info {
	return &typesutil.Info{
		Types:      make(map[ast.Expr]types.TypeAndValue),
		Instances:  make(map[*ast.Ident]types.Instance),
		Defs:       make(map[*ast.Ident]types.Object),
		Uses:       make(map[*ast.Ident]types.Object),
		Implicits:  make(map[ast.Node]types.Object),
		Selections: make(map[*ast.SelectorExpr]*types.Selection),
		Scopes:     make(map[ast.Node]*types.Scope),
		Overloads:  make(map[*ast.Ident]types.Object),
	}
}

// ---- membership: the set of nodes that belong to a file, by reflection (astx), never ast.Inspect ----

type nodeInfo struct {
	parent ast.Node
}

// fileNodes returns every node reachable from f. astx.Children leaves out the parts documented as
// synthetic (name of a file without package clause, signature of a shadow entry); those still are
// nodes of the file for the membership question, so they are added here.
func fileNodes(set map[ast.Node]nodeInfo, f *ast.File) {
	visited := map[ast.Node]bool{} // per walk: the same file is walked before and after checking
	var add func(n, p ast.Node)
	add = func(n, p ast.Node) {
		if n == nil || reflect.ValueOf(n).IsNil() || visited[n] {
			return
		}
		astx.Walk(n, false, func(c, cp ast.Node) {
			visited[c] = true
			if cp == nil {
				cp = p
			}
			if _, ok := set[c]; !ok {
				set[c] = nodeInfo{parent: cp}
			}
			switch x := c.(type) {
			case *ast.File:
				if x.Name != nil {
					if _, ok := set[x.Name]; !ok {
						set[x.Name] = nodeInfo{parent: x}
					}
				}
			case *ast.FuncDecl:
				if x.Shadow {
					for _, s := range []ast.Node{x.Name, x.Type, x.Recv} {
						if s != nil && !reflect.ValueOf(s).IsNil() {
							add(s, x)
						}
					}
				}
			case *ast.DomainTextLit:
				// tpl`...`: Extra holds a *tpl/ast.File whose rules carry XGo lambdas (RetProc);
				// astx does not enter foreign node types, the XGo nodes inside still belong to the file
				if x.Extra != nil {
					for _, sub := range embeddedXGoNodes(reflect.ValueOf(x.Extra), map[uintptr]bool{}, 0) {
						add(sub, x)
					}
				}
			}
		})
	}
	add(f, nil)
}

var xgoNodeType = reflect.TypeOf((*ast.Node)(nil)).Elem()

// embeddedXGoNodes finds the outermost XGo AST nodes inside a value of foreign types.
func embeddedXGoNodes(v reflect.Value, seen map[uintptr]bool, depth int) (out []ast.Node) {
	if depth > 40 {
		return
	}
	switch v.Kind() {
	case reflect.Interface:
		if !v.IsNil() {
			out = embeddedXGoNodes(v.Elem(), seen, depth+1)
		}
	case reflect.Ptr:
		if v.IsNil() || seen[v.Pointer()] {
			return
		}
		seen[v.Pointer()] = true
		if v.Type().Implements(xgoNodeType) && v.Type().Elem().PkgPath() == "github.com/goplus/xgo/ast" {
			return []ast.Node{v.Interface().(ast.Node)}
		}
		out = embeddedXGoNodes(v.Elem(), seen, depth+1)
	case reflect.Struct:
		for i := 0; i < v.NumField(); i++ {
			if v.Type().Field(i).IsExported() {
				out = append(out, embeddedXGoNodes(v.Field(i), seen, depth+1)...)
			}
		}
	case reflect.Slice, reflect.Array:
		for i := 0; i < v.Len(); i++ {
			out = append(out, embeddedXGoNodes(v.Index(i), seen, depth+1)...)
		}
	}
	return
}

// fieldOf names the field of parent that holds child ("Lhs", "Key", ...) and, for a slice field, the index.
func fieldOf(parent, child ast.Node) (string, int) {
	v := reflect.ValueOf(parent)
	if v.Kind() == reflect.Ptr {
		v = v.Elem()
	}
	if v.Kind() != reflect.Struct {
		return "?", -1
	}
	idx := -1
	target := reflect.ValueOf(child).Pointer()
	var holds func(x reflect.Value, depth int) bool
	holds = func(x reflect.Value, depth int) bool {
		switch x.Kind() {
		case reflect.Interface:
			if x.IsNil() {
				return false
			}
			return holds(x.Elem(), depth)
		case reflect.Ptr:
			if x.IsNil() {
				return false
			}
			if x.Pointer() == target && x.Type() == reflect.TypeOf(child) {
				return true
			}
			// transparent containers (StringLitEx ...)
			if depth < 2 && x.Elem().Kind() == reflect.Struct && !x.Type().Implements(reflect.TypeOf((*ast.Node)(nil)).Elem()) {
				for i := 0; i < x.Elem().NumField(); i++ {
					if x.Elem().Type().Field(i).IsExported() && holds(x.Elem().Field(i), depth+1) {
						return true
					}
				}
			}
		case reflect.Slice:
			for i := 0; i < x.Len(); i++ {
				if holds(x.Index(i), depth) {
					if depth == 0 {
						idx = i
					}
					return true
				}
			}
		}
		return false
	}
	t := v.Type()
	for i := 0; i < v.NumField(); i++ {
		if !t.Field(i).IsExported() || t.Field(i).Name == "Obj" {
			continue
		}
		if holds(v.Field(i), 0) {
			return t.Field(i).Name, idx
		}
	}
	return "?", -1
}

func typeName(n any) string {
	s := fmt.Sprintf("%T", n)
	if i := strings.LastIndex(s, "."); i >= 0 {
		s = s[i+1:]
	}
	return s
}

// useClass = the syntactic position of a node, one level: "<Parent>.<Field>".
func useClass(set map[ast.Node]nodeInfo, n ast.Node) string {
	ni, ok := set[n]
	if !ok || ni.parent == nil {
		return "(no parent)"
	}
	return edge(ni.parent, n, false)
}

func edge(p, n ast.Node, index bool) string {
	s := typeName(p)
	switch x := p.(type) {
	case *ast.GenDecl:
		s += "(" + x.Tok.String() + ")"
	case *ast.AssignStmt:
		s += "(" + x.Tok.String() + ")"
	case *ast.FuncDecl:
		if x.Recv != nil {
			s += "(method)"
		}
	}
	fld, idx := fieldOf(p, n)
	s += "." + fld
	if index && idx >= 0 {
		switch p.(type) {
		case *ast.ValueSpec, *ast.AssignStmt, *ast.Field:
			if idx == 0 {
				s += "[0]"
			} else {
				s += "[1+]"
			}
		}
	}
	return s
}

// declClass = the syntactic position of a declaring identifier with one level of context, e.g.
// "GenDecl(var).Specs/ValueSpec.Names[1+]", "FuncType.Params/Field.Names[0]",
// "TypeSwitchStmt.Assign/AssignStmt(:=).Lhs[0]", "stmt-list/RangeStmt.Key". Field lists are
// transparent; statement lists (block, case and comm clause bodies) are one class.
func declClass(set map[ast.Node]nodeInfo, n ast.Node) string {
	var parts []string
	cur := n
	for len(parts) < 2 {
		ni, ok := set[cur]
		if !ok || ni.parent == nil {
			break
		}
		p := ni.parent
		if _, isList := p.(*ast.FieldList); isList {
			cur = p
			continue
		}
		e := edge(p, cur, len(parts) == 0)
		switch e {
		case "BlockStmt.List", "CaseClause.Body", "CommClause.Body":
			e = "stmt-list"
		case "IfStmt.Init", "ForStmt.Init", "SwitchStmt.Init", "TypeSwitchStmt.Init":
			e = "init-stmt"
		}
		parts = append([]string{e}, parts...)
		cur = p
	}
	if len(parts) == 0 {
		return "(no parent)"
	}
	return strings.Join(parts, "/")
}

// ---- object description ----

func kindOf(o types.Object) string {
	switch o.(type) {
	case nil:
		return "none"
	case *types.Var:
		return "Var"
	case *types.Const:
		return "Const"
	case *types.TypeName:
		return "TypeName"
	case *types.Func:
		return "Func"
	case *types.PkgName:
		return "PkgName"
	case *types.Label:
		return "Label"
	case *types.Builtin:
		return "Builtin"
	case *types.Nil:
		return "Nil"
	}
	return "other(" + fmt.Sprintf("%T", o) + ")"
}

func qual(p *types.Package) string { return p.Name() }

func normType(s string) string {
	// `any` is an alias of interface{}; the two printers spell it differently.
	s = strings.ReplaceAll(s, "interface{}", "any")
	return s
}

func typeStr(t types.Type) string {
	if t == nil {
		return "<nil>"
	}
	return normType(types.TypeString(t, qual))
}

// hasType: object kinds whose Type() is part of the comparison (PkgName, Label, Builtin, Nil carry none).
func hasType(kind string) bool {
	switch kind {
	case "Var", "Const", "TypeName", "Func":
		return true
	}
	return false
}

// ---- evaluation ----

var (
	repoModOnce sync.Once
	repoMod     *xgomod.Module
)

func modFor(name string) *xgomod.Module {
	if name != "repo" {
		return nil
	}
	repoModOnce.Do(func() {
		if m, err := xgomod.Load(progs.RepoDir()); err == nil {
			if err := m.ImportClasses(); err == nil {
				repoMod = m
			}
		}
	})
	return repoMod
}

// parsed, if not nil, sees the files after parsing and before type checking (cl edits the trees).
func xgoCheck(k Case, parsed func([]*ast.File)) (files []*ast.File, info *typesutil.Info, pkg *types.Package, status, errText string) {
	initImporters()
	mod := modFor(k.Mod)
	pconf := parser.Config{Mode: parser.ParseComments}
	if mod != nil {
		pconf.ClassKind = mod.ClassKind
	}
	for _, sf := range k.Files {
		f, err := parser.ParseEntry(xfset, "/c12/"+sf.Name, sf.Src, pconf)
		if err != nil {
			return nil, nil, nil, "xgo-parse-error", err.Error()
		}
		if len(files) > 0 && f.Name.Name != files[0].Name.Name {
			return nil, nil, nil, "xgo-parse-error", "files of different packages in one directory"
		}
		files = append(files, f)
	}
	if parsed != nil {
		parsed(files)
	}
	var errs []string
	conf := &types.Config{Importer: ximp, Error: func(e error) { errs = append(errs, e.Error()) }}
	pkg = types.NewPackage("main", files[0].Name.Name)
	info = newInfo()
	chk := typesutil.NewChecker(conf, &typesutil.Config{Types: pkg, Fset: xfset, Mod: mod}, nil, info)
	if err := chk.Files(nil, files); err != nil || len(errs) > 0 {
		if err != nil {
			errs = append(errs, err.Error())
		}
		return files, info, pkg, "xgo-type-error", strings.Join(errs, "\n")
	}
	return files, info, pkg, "checked", ""
}

// fullImportPath expands the short import paths of XGo ("xgo/tpl", "c", "c/os", "py/std", "cpp/std").
func fullImportPath(p string) string {
	switch {
	case strings.HasPrefix(p, "xgo/") || strings.HasPrefix(p, "gop/"):
		return "github.com/goplus/xgo/" + p[4:]
	case p == "c" || p == "py" || p == "cpp":
		return "github.com/goplus/lib/" + p
	case strings.HasPrefix(p, "c/") || strings.HasPrefix(p, "py/") || strings.HasPrefix(p, "cpp/"):
		return "github.com/goplus/lib/" + p
	}
	return p
}

// preloadImports locates the export data of every package imported by the cases with one `go list`.
func preloadImports(cases []Case) {
	defer initImporters()
	seen := map[string]bool{}
	var paths []string
	fs := token.NewFileSet()
	for _, k := range cases {
		for _, sf := range k.Files {
			f, err := parser.ParseEntry(fs, "/c12/"+sf.Name, sf.Src, parser.Config{Mode: parser.ImportsOnly})
			if f == nil || err != nil && len(f.Imports) == 0 {
				continue
			}
			for _, im := range f.Imports {
				p := strings.Trim(im.Path.Value, "\"`")
				p = fullImportPath(p)
				if p == "" || p == "C" || p == "c" || p == "unsafe" || strings.Contains(p, " ") || seen[p] {
					continue
				}
				seen[p] = true
				paths = append(paths, p)
			}
		}
	}
	exports.mu.Lock()
	defer exports.mu.Unlock()
	var need []string
	for _, p := range append(append(paths, preloadXGo...), preload...) {
		if _, ok := exports.files[p]; !ok {
			need = append(need, p)
		}
	}
	if len(need) > 0 {
		exports.load(need...)
	}
}

func snippet(src string, off int) string {
	lo := strings.LastIndexByte(src[:min(off, len(src))], '\n') + 1
	hi := strings.IndexByte(src[min(off, len(src)):], '\n')
	if hi < 0 {
		hi = len(src)
	} else {
		hi += off
	}
	return strings.TrimSpace(src[lo:hi])
}

func describe(o types.Object) string {
	if o == nil {
		return "nil"
	}
	k := kindOf(o)
	s := k + " " + o.Name()
	if hasType(k) {
		s += " " + typeStr(o.Type())
	}
	return s
}

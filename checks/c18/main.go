// C18: ast.Walk / ast.Inspect visit every non-nil child exactly once, parents first,
// nil after each node's children, on every node kind.
// Mode E: (a) every parsed corpus / seed file; (b) synthesised trees: for every node type,
// every subset of its optional child fields populated (finite, complete).
package main

import (
	"fmt"
	goast "go/ast"
	goparser "go/parser"
	gotoken "go/token"
	"reflect"
	"sort"
	"strings"

	"github.com/goplus/xgo/ast"
	"github.com/goplus/xgo/parser"
	"github.com/goplus/xgo/token"
	"verif/astx"
	"verif/corpus"
	"verif/engine"
)

// ---------------- event recording ----------------
type rec struct {
	node     ast.Node
	children []*rec
}

type visitor struct {
	stack []*rec
	root  *rec
	err   string
}

func (v *visitor) Visit(n ast.Node) ast.Visitor {
	if n == nil {
		if len(v.stack) == 0 {
			v.err = "Visit(nil) without an open node"
			return v
		}
		v.stack = v.stack[:len(v.stack)-1]
		return v
	}
	r := &rec{node: n}
	if len(v.stack) == 0 {
		if v.root != nil {
			v.err = "second root"
		}
		v.root = r
	} else {
		p := v.stack[len(v.stack)-1]
		p.children = append(p.children, r)
	}
	v.stack = append(v.stack, r)
	return v
}

func name(n ast.Node) string { return strings.TrimPrefix(fmt.Sprintf("%T", n), "*ast.") }

// compare checks the recorded visit tree against the reflection-derived tree.
func compare(r *rec, checkOrder bool) (key, detail string) {
	want := astx.Children(r.node, true)
	got := r.children
	cnt := map[ast.Node]int{}
	for _, g := range got {
		cnt[g.node]++
	}
	for _, w := range want {
		switch cnt[w] {
		case 1:
		case 0:
			return "child-not-visited:" + name(r.node) + "." + fieldOf(r.node, w), fmt.Sprintf("%s: child %s (%T) is never visited", name(r.node), fieldOf(r.node, w), w)
		default:
			return "child-visited-twice:" + name(r.node) + "." + fieldOf(r.node, w), fmt.Sprintf("%s: child %T visited %d times", name(r.node), w, cnt[w])
		}
		delete(cnt, w)
	}
	for extra := range cnt {
		return "non-child-visited:" + name(r.node), fmt.Sprintf("%s: visits %T which is not one of its children", name(r.node), extra)
	}
	if checkOrder {
		var prev ast.Node
		for _, g := range got {
			if _, isDoc := g.node.(*ast.CommentGroup); isDoc {
				continue
			}
			if _, isFT := g.node.(*ast.FuncType); isFT {
				continue // FuncType.Pos() is the "func" keyword, which precedes receiver and name by convention (as in go/ast)
			}
			if !g.node.Pos().IsValid() {
				continue
			}
			if prev != nil && g.node.Pos() < prev.Pos() {
				return "sibling-order:" + name(r.node) + "." + fieldOf(r.node, g.node) + "<" + fieldOf(r.node, prev), fmt.Sprintf("%s: child %s (pos %d) visited after %s (pos %d)", name(r.node), fieldOf(r.node, g.node), g.node.Pos(), fieldOf(r.node, prev), prev.Pos())
			}
			prev = g.node
		}
	}
	for _, g := range got {
		if k, d := compare(g, checkOrder); k != "" {
			return k, d
		}
	}
	return "", ""
}

// fieldOf names the field of parent holding child (for keys).
func fieldOf(parent, child ast.Node) string {
	v := reflect.ValueOf(parent).Elem()
	t := v.Type()
	for i := 0; i < v.NumField(); i++ {
		var out []ast.Node
		f := v.Field(i)
		if !t.Field(i).IsExported() {
			continue
		}
		collect(f, &out, 0)
		for _, o := range out {
			if o == child {
				return t.Field(i).Name
			}
		}
	}
	return "?"
}

func collect(v reflect.Value, out *[]ast.Node, d int) {
	switch v.Kind() {
	case reflect.Interface, reflect.Ptr:
		if v.IsNil() {
			return
		}
		if n, ok := v.Interface().(ast.Node); ok {
			*out = append(*out, n)
			return
		}
		if v.Kind() == reflect.Interface {
			collect(v.Elem(), out, d)
		} else if v.Elem().Kind() == reflect.Struct && d < 3 {
			for i := 0; i < v.Elem().NumField(); i++ {
				if v.Elem().Type().Field(i).IsExported() {
					collect(v.Elem().Field(i), out, d+1)
				}
			}
		}
	case reflect.Slice:
		for i := 0; i < v.Len(); i++ {
			collect(v.Index(i), out, d)
		}
	}
}

func checkTree(root ast.Node, checkOrder bool) *engine.Failure {
	for _, how := range []string{"Walk", "Inspect"} {
		v := &visitor{}
		g := engine.Guard(func() {
			if how == "Walk" {
				ast.Walk(v, root)
			} else {
				ast.Inspect(root, func(n ast.Node) bool { v.Visit(n); return true })
			}
		})
		if g != nil {
			if i := strings.Index(g.What, "unexpected node type"); i >= 0 {
				g.Key += ":" + strings.TrimSpace(g.What[i+len("unexpected node type"):])
			}
			g.What = how + ": " + g.What
			return g
		}
		if v.err != "" {
			return &engine.Failure{Key: "nil-protocol", What: how + ": " + v.err}
		}
		if len(v.stack) != 0 {
			return &engine.Failure{Key: "nil-protocol", What: how + ": missing Visit(nil) for " + name(v.stack[len(v.stack)-1].node)}
		}
		if v.root == nil || v.root.node != root {
			return &engine.Failure{Key: "root", What: how + ": root not visited first"}
		}
		if k, d := compare(v.root, checkOrder); k != "" {
			return &engine.Failure{Key: k, What: how + " does not visit the tree's children exactly once in order", Detail: d}
		}
	}
	return nil
}

// ---------------- synthesised trees ----------------
var protos = []ast.Node{
	&ast.ArrayType{}, &ast.AssignStmt{}, &ast.BadDecl{}, &ast.BadExpr{}, &ast.BadStmt{}, &ast.BasicLit{}, &ast.BinaryExpr{}, &ast.BlockStmt{}, &ast.BranchStmt{},
	&ast.CallExpr{}, &ast.CaseClause{}, &ast.ChanType{}, &ast.CommClause{}, &ast.Comment{}, &ast.CommentGroup{}, &ast.CompositeLit{}, &ast.ComprehensionExpr{}, &ast.DeclStmt{},
	&ast.DeferStmt{}, &ast.DomainTextLit{}, &ast.ElemEllipsis{}, &ast.Ellipsis{}, &ast.EmptyStmt{}, &ast.EnvExpr{}, &ast.ErrWrapExpr{}, &ast.ExprStmt{}, &ast.Field{},
	&ast.FieldList{}, &ast.File{}, &ast.ForPhrase{}, &ast.ForPhraseStmt{}, &ast.ForStmt{}, &ast.FuncDecl{}, &ast.FuncLit{}, &ast.FuncType{}, &ast.GenDecl{}, &ast.GoStmt{},
	&ast.Ident{}, &ast.IfStmt{}, &ast.ImportSpec{}, &ast.IncDecStmt{}, &ast.IndexExpr{}, &ast.IndexListExpr{}, &ast.InterfaceType{}, &ast.KeyValueExpr{}, &ast.LabeledStmt{},
	&ast.LambdaExpr{}, &ast.LambdaExpr2{}, &ast.MapType{}, &ast.MatrixLit{}, &ast.NumberUnitLit{}, &ast.OverloadFuncDecl{}, &ast.Package{}, &ast.ParenExpr{}, &ast.RangeExpr{},
	&ast.RangeStmt{}, &ast.ReturnStmt{}, &ast.SelectStmt{}, &ast.SelectorExpr{}, &ast.SendStmt{}, &ast.SliceExpr{}, &ast.SliceLit{}, &ast.StarExpr{}, &ast.StructType{},
	&ast.SwitchStmt{}, &ast.TypeAssertExpr{}, &ast.TypeSpec{}, &ast.TypeSwitchStmt{}, &ast.UnaryExpr{}, &ast.ValueSpec{},
}

// optional[type][field] = true when the field's comment in ast/*.go says "or nil" / "optional"
// or the field is a slice (nil slice = no children).
var optional = map[string]map[string]bool{}

func loadOptional() error {
	fset := gotoken.NewFileSet()
	for _, fn := range []string{"/repo/ast/ast.go", "/repo/ast/ast_gop.go"} {
		f, err := goparser.ParseFile(fset, fn, nil, goparser.ParseComments)
		if err != nil {
			return err
		}
		for _, d := range f.Decls {
			gd, ok := d.(*goast.GenDecl)
			if !ok {
				continue
			}
			for _, s := range gd.Specs {
				ts, ok := s.(*goast.TypeSpec)
				if !ok {
					continue
				}
				st, ok := ts.Type.(*goast.StructType)
				if !ok {
					continue
				}
				m := map[string]bool{}
				for _, fld := range st.Fields.List {
					txt := fld.Comment.Text() + fld.Doc.Text()
					opt := strings.Contains(txt, "or nil") || strings.Contains(txt, "optional") || strings.Contains(txt, "if any") || strings.Contains(txt, "may be nil")
					for _, n := range fld.Names {
						m[n.Name] = opt
					}
				}
				optional[ts.Name.Name] = m
			}
		}
	}
	return nil
}

var (
	tExpr = reflect.TypeOf((*ast.Expr)(nil)).Elem()
	tStmt = reflect.TypeOf((*ast.Stmt)(nil)).Elem()
	tDecl = reflect.TypeOf((*ast.Decl)(nil)).Elem()
	tSpec = reflect.TypeOf((*ast.Spec)(nil)).Elem()
	tNode = reflect.TypeOf((*ast.Node)(nil)).Elem()
	tAny  = reflect.TypeOf((*any)(nil)).Elem()
)

var counter int

// filler returns a fresh well-formed leaf value assignable to t, or an invalid Value.
func filler(t reflect.Type, depth int) reflect.Value {
	counter++
	id := &ast.Ident{Name: fmt.Sprintf("x%d", counter)}
	switch t {
	case tExpr, tNode:
		return reflect.ValueOf(id)
	case tStmt:
		return reflect.ValueOf(&ast.EmptyStmt{})
	case tDecl:
		return reflect.ValueOf(&ast.GenDecl{Tok: token.VAR})
	case tSpec:
		return reflect.ValueOf(&ast.ImportSpec{Path: &ast.BasicLit{Kind: token.STRING, Value: `"p"`}})
	}
	if t.Kind() == reflect.Ptr && t.Implements(tNode) && depth < 4 {
		return minimal(t.Elem(), depth+1)
	}
	return reflect.Value{}
}

// minimal builds a node of struct type st with all required child fields filled.
func minimal(st reflect.Type, depth int) reflect.Value {
	p := reflect.New(st)
	opt := optional[st.Name()]
	for i := 0; i < st.NumField(); i++ {
		f := st.Field(i)
		if !f.IsExported() || skip[f.Name] {
			continue
		}
		if opt[f.Name] || f.Type.Kind() == reflect.Slice || f.Type.Kind() == reflect.Map || f.Type == tAny {
			continue
		}
		if v := filler(f.Type, depth); v.IsValid() {
			p.Elem().Field(i).Set(v)
		}
	}
	switch n := p.Interface().(type) {
	case *ast.CommentGroup:
		n.List = []*ast.Comment{{Text: "//c"}}
	case *ast.Ident:
		n.Name = "y"
	}
	return p
}

var skip = map[string]bool{"GoFiles": true, "Obj": true, "Scope": true, "Unresolved": true, "Imports": true, "Comments": true, "Code": true, "ShadowEntry": true}

type Case struct {
	Type   string   `json:"type"`
	Fields []string `json:"fields,omitempty"` // populated optional fields
	Src    string   `json:"src,omitempty"`
	File   string   `json:"file,omitempty"`
}

// optionalFields lists the optional child-bearing fields of st.
func optionalFields(st reflect.Type) []int {
	var out []int
	opt := optional[st.Name()]
	for i := 0; i < st.NumField(); i++ {
		f := st.Field(i)
		if !f.IsExported() || skip[f.Name] {
			continue
		}
		isOpt := opt[f.Name] || f.Type.Kind() == reflect.Slice || f.Type.Kind() == reflect.Map || f.Type == tAny
		if !isOpt {
			continue
		}
		if canFill(f.Type) {
			out = append(out, i)
		}
	}
	return out
}

func canFill(t reflect.Type) bool {
	switch t.Kind() {
	case reflect.Slice:
		return canFill(t.Elem()) || t.Elem() == tAny
	case reflect.Map:
		return t.Elem().Kind() == reflect.Ptr && t.Elem().Implements(tNode)
	}
	if t == tAny {
		return true
	}
	return t == tExpr || t == tStmt || t == tDecl || t == tSpec || t == tNode || (t.Kind() == reflect.Ptr && t.Implements(tNode)) ||
		(t.Kind() == reflect.Ptr && t.Elem().Kind() == reflect.Struct && t.Elem().PkgPath() == "github.com/goplus/xgo/ast")
}

func fill(field reflect.Value, parent string) {
	t := field.Type()
	switch {
	case t.Kind() == reflect.Slice:
		s := reflect.MakeSlice(t, 0, 2)
		for k := 0; k < 2; k++ {
			if t.Elem() == tAny {
				if k == 0 {
					s = reflect.Append(s, reflect.ValueOf("txt"))
				} else {
					s = reflect.Append(s, filler(tExpr, 0))
				}
				continue
			}
			if v := filler(t.Elem(), 0); v.IsValid() {
				s = reflect.Append(s, v)
			}
		}
		field.Set(s)
	case t.Kind() == reflect.Map:
		m := reflect.MakeMap(t)
		m.SetMapIndex(reflect.ValueOf("a.xgo"), minimal(t.Elem().Elem(), 0))
		field.Set(m)
	case t == tAny:
		if parent == "DomainTextLit" {
			field.Set(reflect.ValueOf(&ast.DomainTextLitEx{Args: []ast.Expr{filler(tExpr, 0).Interface().(ast.Expr), filler(tExpr, 0).Interface().(ast.Expr)}}))
		}
	case t.Kind() == reflect.Ptr && !t.Implements(tNode): // *StringLitEx
		if t.Elem().Name() == "StringLitEx" {
			field.Set(reflect.ValueOf(&ast.StringLitEx{Parts: []any{"a", filler(tExpr, 0).Interface(), "b", filler(tExpr, 0).Interface()}}))
		}
	default:
		if v := filler(t, 0); v.IsValid() {
			field.Set(v)
		}
	}
}

func synth(k Case) ast.Node {
	for _, p := range protos {
		st := reflect.TypeOf(p).Elem()
		if st.Name() != k.Type {
			continue
		}
		n := minimal(st, 0)
		for _, fn := range k.Fields {
			f, _ := st.FieldByName(fn)
			fill(n.Elem().FieldByIndex(f.Index), st.Name())
		}
		return n.Interface().(ast.Node)
	}
	return nil
}

func eval(k Case) *engine.Failure {
	if k.Type != "" {
		n := synth(k)
		if n == nil {
			return nil
		}
		return checkTree(n, false)
	}
	fn := k.File
	if fn == "" {
		fn = "a.xgo"
	}
	mode := parser.ParseComments
	if strings.HasSuffix(fn, ".gox") || strings.HasSuffix(fn, ".spx") || strings.HasSuffix(fn, ".gmx") {
		mode |= parser.ParseGoPlusClass
	}
	f, err := parser.ParseFile(token.NewFileSet(), fn, []byte(k.Src), mode)
	if err != nil || f == nil {
		return nil // only cleanly parsed trees are judged
	}
	return checkTree(f, true)
}

func main() {
	c := engine.New("C18", "exploration")
	if err := loadOptional(); err != nil {
		c.Fatal("cannot read /repo/ast: %v", err)
	}
	if c.IsReplay() {
		var k Case
		c.LoadReplay(&k)
		c.ReplayResult(eval(k))
	}
	var cases []Case
	for _, p := range protos {
		st := reflect.TypeOf(p).Elem()
		opts := optionalFields(st)
		for m := 0; m < 1<<len(opts); m++ {
			k := Case{Type: st.Name()}
			for i, fi := range opts {
				if m&(1<<i) != 0 {
					k.Fields = append(k.Fields, st.Field(fi).Name)
				}
			}
			cases = append(cases, k)
		}
	}
	nSynth := len(cases)
	for _, s := range corpus.HandSeeds {
		cases = append(cases, Case{Src: s})
	}
	names, srcs := corpus.AllXGo(200000)
	for i := range names {
		cases = append(cases, Case{Src: srcs[i], File: names[i]})
	}
	parsed := 0
	for i, k := range cases {
		c.Eval(1)
		f := eval(k)
		if k.Type != "" {
			c.Nontrivial(fmt.Sprint(k.Type, k.Fields))
			c.Hist("synthesised", 1)
			if i%97 == 0 {
				c.Sample(k)
			}
		} else {
			mode := parser.ParseComments
			if _, err := parser.ParseFile(token.NewFileSet(), "a.xgo", []byte(k.Src), mode); err == nil {
				parsed++
				c.Nontrivial(k.Src)
				c.Hist("parsed_files", 1)
			} else {
				c.Hist("skipped_parse_errors", 1)
			}
		}
		if f != nil {
			kk := k
			if kk.File != "" {
				kk.Src = ""
			}
			c.Violate(kk, f)
		}
	}
	sort.Strings(nil)
	c.Rule = fmt.Sprintf("(b) %d synthesised trees: for each of the %d node types, every subset of its optional child fields (\"or nil\" in ast/*.go, slices, maps, Extra) populated with fresh leaf nodes, required fields always populated; (a) %d hand seeds + every XGo-family file of the repository that parses cleanly. Oracle: children by reflection == children visited by Walk and by Inspect, exactly once, nil after each node; sibling order (by Pos, ties and doc comments ignored) on parsed trees only", nSynth, len(protos), len(corpus.HandSeeds))
	c.Assumptions = []string{"a field is optional iff its comment in ast/ast.go or ast/ast_gop.go says so or it is a slice/map/any", "File.Comments, Imports, Obj/Scope, ShadowEntry are not syntax children (Walk documents that comments are reached through nodes)"}
	c.Finish()
}

package main

import (
	"fmt"
	"strings"
)

// ---- for-in family (docs.md "for..in": slice for, map for, for/<-/if) ----
//   for x in C / for x <- C         every element in order (value for maps)
//   for i, x in C / for i, x <- C   index/key and element
//   for k, _ in M                   keys only
//   for ... <- C if F { B }         B only for the elements that satisfy F (documented for the <- form)

func genForIn(thorough bool, ex map[string]int) []Case {
	var out []Case
	var conts []cont
	if thorough {
		conts = append(append(append(conts, intConts...), strConts...), mapConts...)
	} else {
		conts = append(conts, intConts[0], intConts[1], intConts[2], strConts[2], mapConts[0], mapConts[1], mapConts[2])
	}
	type form struct {
		name    string
		two     bool
		keyOnly bool
		op      string // "in" or "<-"
	}
	forms := []form{
		{"x-in", false, false, "in"}, {"i,x-in", true, false, "in"},
		{"x-arrow", false, false, "<-"}, {"i,x-arrow", true, false, "<-"},
		{"k,_-in", true, true, "in"}, {"k,_-arrow", true, true, "<-"},
	}
	bodies := []string{"print", "sum", "break", "continue", "collect"}
	for _, c := range conts {
		for _, fm := range forms {
			if fm.keyOnly && !c.isMap {
				continue // documented for maps
			}
			v, kv := "x", ""
			if fm.two {
				kv = "i"
				if c.isMap {
					kv = "k"
				}
			}
			var fs []filt
			switch {
			case fm.op == "in":
				fs = filters(c.vt, c.kt, v, kv)[:1] // `if` is documented for the <- form only
			case fm.keyOnly:
				fs = []filt{{"none", "", false, func(k, x any) bool { return true }},
					{"keygta", kv + ` > "a"`, false, func(k, x any) bool { return k.(string) > "a" }}}
			default:
				fs = filters(c.vt, c.kt, v, kv)
			}
			for _, f := range fs {
				for _, body := range bodies {
					// variables the body prints / collects
					var vars []string
					var vtypes []string
					if kv != "" {
						vars, vtypes = append(vars, kv), append(vtypes, c.kt)
					}
					if !fm.keyOnly {
						vars, vtypes = append(vars, v), append(vtypes, c.vt)
					}
					orderFree := body == "collect" || body == "sum"
					if c.isMap && c.n() >= 2 {
						if f.traced {
							ex["excluded_map_iteration_order_visible_in_trace"]++
							continue
						}
						if !orderFree {
							ex["excluded_map_iteration_order_visible_in_body"]++
							continue
						}
					}
					var pre, in, post []string
					switch body {
					case "print":
						in = append(in, fmt.Sprintf(`fmt.Println("b", %s)`, strings.Join(vars, ", ")))
					case "sum":
						// order-insensitive accumulation: integers are added, strings contribute their length
						pre = append(pre, "acc, cnt := 0, 0")
						for i, n := range vars {
							if vtypes[i] == "int" {
								in = append(in, "acc += "+n)
							} else {
								in = append(in, "acc += len("+n+")")
							}
						}
						in = append(in, "cnt++")
						post = append(post, "fmt.Println(acc, cnt)")
					case "break", "continue":
						pre = append(pre, "cnt := 0")
						in = append(in, "cnt++", "if cnt == 2 {", "\t"+body, "}",
							fmt.Sprintf(`fmt.Println("b", %s)`, strings.Join(vars, ", ")))
						post = append(post, "fmt.Println(cnt)")
					case "collect":
						for i, n := range vars {
							pre = append(pre, fmt.Sprintf("var got%d []%s", i, vtypes[i]))
							in = append(in, fmt.Sprintf("got%d = append(got%d, %s)", i, i, n))
							srt := "sortInts"
							if vtypes[i] == "string" {
								srt = "sortStrs"
							}
							if c.isMap {
								post = append(post, fmt.Sprintf("%s(got%d)", srt, i))
							}
							post = append(post, fmt.Sprintf("fmt.Println(got%d)", i))
						}
					}
					var x, g gob
					x.ln("c0 := %s", c.xgo)
					g.ln("c0 := %s", c.gol)
					for _, l := range pre {
						x.ln("%s", l)
						g.ln("%s", l)
					}
					// XGo head
					head := "for "
					switch {
					case fm.keyOnly:
						head += kv + ", _"
					case fm.two:
						head += kv + ", " + v
					default:
						head += v
					}
					head += " " + fm.op + " c0"
					if f.text != "" {
						head += " if " + f.text
					}
					x.open("%s", head)
					for _, l := range in {
						x.ln("%s", l)
					}
					x.close()
					// Go expansion
					switch {
					case fm.keyOnly:
						g.open("for %s := range c0", kv)
					default:
						g.open("%s", rangeHead(kv, v, "c0"))
					}
					if f.text != "" {
						g.open("if %s", f.text)
					}
					for _, l := range in {
						g.ln("%s", l)
					}
					if f.text != "" {
						g.close()
					}
					g.close()
					for _, l := range post {
						x.ln("%s", l)
						g.ln("%s", l)
					}
					// every declared loop variable is used by every body (bodies use all of vars); a
					// value variable hidden by `_` is not declared.
					kind := "slice"
					if c.isMap {
						kind = "map"
					}
					cls := "for-in/" + kind
					if f.text != "" {
						cls = "for-arrow-if/" + kind
					}
					out = append(out, Case{
						ID:         fmt.Sprintf("forin/%s/%s/filter=%s/body=%s", fm.name, c.name, f.name, body),
						Family:     "for-in",
						Class:      cls,
						XGo:        x.String(),
						Go:         g.String(),
						Nontrivial: matches(c, f) > 0,
					})
				}
			}
		}
	}
	return out
}

// ---- append family (README "a <- 4 / a <- 5, 6, 7  ==  a = append(a, 4) / a = append(a, 5, 6, 7)",
//      cl/stmt.go issue #2107: `a <- v`, `foo.a <- v`) ----

func genAppend(thorough bool, ex map[string]int) (out []Case) {
	type target struct {
		name     string
		lhs      string
		xgoSetup func(initX string) string
		goSetup  func(initG string) string
		typ      string
	}
	mk := func(f string) func(string) string {
		return func(init string) string { return fmt.Sprintf(f, init) }
	}
	targets := []target{
		{"local", "a", mk("var a []int = %s\n"), mk("var a []int = %s\n"), "[]int"},
		{"field", "s.f", mk("var s rec02\ns.f = %s\n"), mk("var s rec02\ns.f = %s\n"), "[]int"},
		{"ptr-field", "p.f", mk("p := &rec02{}\np.f = %s\n"), mk("p := &rec02{}\np.f = %s\n"), "[]int"},
		{"global", "gl02", mk("gl02 = %s\n"), mk("gl02 = %s\n"), "[]int"},
	}
	type initT struct{ name, x, g string }
	inits := []initT{{"nil", "nil", "nil"}, {"empty", "[]int{}", "[]int{}"}, {"one", "[1]", "[]int{1}"}, {"three", "[3, 1, 2]", "[]int{3, 1, 2}"}}
	if !thorough {
		inits = []initT{inits[0], inits[2], inits[3]}
	}
	type valT struct {
		name   string
		pre    string // setup (same text both sides) ; may use list sugar only through preX
		preX   string
		preG   string
		x      string // after `<- `
		g      string // arguments of append after the slice
		traced bool
	}
	vals := []valT{
		{"lit", "", "", "", "4", "4", false},
		{"traced", "", "", "", "tr(5)", "tr(5)", true},
		{"expr", "k := 3\n", "", "", "k*k", "k*k", false},
		{"two", "", "", "", "4, 5", "4, 5", false},
		{"two-traced", "", "", "", "tr(4), tr(5)", "tr(4), tr(5)", true},
		{"three-mixed", "", "", "", "4, tr(5), 6", "4, tr(5), 6", true},
		{"spread-nil", "var b []int\n", "", "", "b...", "b...", false},
		{"spread-one", "", "b := [7]\n", "b := []int{7}\n", "b...", "b...", false},
		{"spread-two", "", "b := [7, 8]\n", "b := []int{7, 8}\n", "b...", "b...", false},
		{"spread-literal", "", "", "", "[7, 8]...", "[]int{7, 8}...", false},
		{"spread-self", "", "", "", "%s...", "%s...", false},
	}
	for _, t := range targets {
		for _, in := range inits {
			for _, v := range vals {
				vx, vg := v.x, v.g
				if v.name == "spread-self" {
					vx, vg = fmt.Sprintf(v.x, t.lhs), fmt.Sprintf(v.g, t.lhs)
				}
				show := fmt.Sprintf("fmt.Println(len(%s), %s, %s == nil)\n", t.lhs, t.lhs, t.lhs)
				xg := t.xgoSetup(in.x) + v.pre + v.preX + fmt.Sprintf("%s <- %s\n", t.lhs, vx) + show
				gg := t.goSetup(in.g) + v.pre + v.preG + fmt.Sprintf("%s = append(%s, %s)\n", t.lhs, t.lhs, vg) + show
				out = append(out, Case{
					ID: fmt.Sprintf("append/%s/init=%s/%s", t.name, in.name, v.name), Family: "append",
					Class: "append-send/" + t.name, XGo: xg, Go: gg, Nontrivial: true,
				})
			}
		}
	}
	fixed := []struct{ name, class, x, g string }{
		{"string-elems", "append-send/local",
			"a := [\"p\"]\na <- \"q\"\na <- trs(\"r\"), \"s\"\nvar s rec02\ns.g <- \"t\"\ns.g <- a...\nfmt.Println(a, s.g)\n",
			"a := []string{\"p\"}\na = append(a, \"q\")\na = append(a, trs(\"r\"), \"s\")\nvar s rec02\ns.g = append(s.g, \"t\")\ns.g = append(s.g, a...)\nfmt.Println(a, s.g)\n"},
		{"any-elems", "append-send/local",
			"a := []\na <- 1, \"a\"\na <- 2.5\nfmt.Printf(\"%T %v\\n\", a, a)\n",
			"a := []any{}\na = append(a, 1, \"a\")\na = append(a, 2.5)\nfmt.Printf(\"%T %v\\n\", a, a)\n"},
		{"repeated", "append-send/local",
			"var a []int\na <- 1\na <- 2, 3\na <- a...\na <- tr(len(a))\nfmt.Println(a)\n",
			"var a []int\na = append(a, 1)\na = append(a, 2, 3)\na = append(a, a...)\na = append(a, tr(len(a)))\nfmt.Println(a)\n"},
		{"in-loop", "append-send/local",
			"c0 := [3, 1, 2]\nvar a []int\nfor x <- c0 {\n\ta <- x*x\n}\nfmt.Println(a)\n",
			"c0 := []int{3, 1, 2}\nvar a []int\nfor _, x := range c0 {\n\ta = append(a, x*x)\n}\nfmt.Println(a)\n"},
		{"shared-array", "append-send/local",
			"base := [1, 2, 3]\na := base[:1]\na <- 9\nfmt.Println(base, a, len(a), cap(a))\n",
			"base := []int{1, 2, 3}\na := base[:1]\na = append(a, 9)\nfmt.Println(base, a, len(a), cap(a))\n"},
		{"value-reads-target", "append-send/local",
			"a := [1, 2]\na <- len(a), a[0]+a[1]\nfmt.Println(a)\n",
			"a := []int{1, 2}\na = append(a, len(a), a[0]+a[1])\nfmt.Println(a)\n"},
		{"closure-param", "append-send/local",
			"add := func(a []int, v int) []int {\n\ta <- v\n\treturn a\n}\nfmt.Println(add(nil, 1), add([]int{1}, 2))\n",
			"add := func(a []int, v int) []int {\n\ta = append(a, v)\n\treturn a\n}\nfmt.Println(add(nil, 1), add([]int{1}, 2))\n"},
		{"named-slice-type", "append-send/local",
			"type ints []int\nvar a ints\na <- 1, 2\nfmt.Printf(\"%T %v\\n\", a, a)\n",
			"type ints []int\nvar a ints\na = append(a, 1, 2)\nfmt.Printf(\"%T %v\\n\", a, a)\n"},
		// a channel operand keeps the Go meaning of the send statement
		{"chan-local", "send-to-channel",
			"ch := make(chan int, 2)\nch <- 1\nch <- tr(2)\nfmt.Println(<-ch, <-ch)\n",
			"ch := make(chan int, 2)\nch <- 1\nch <- tr(2)\nfmt.Println(<-ch, <-ch)\n"},
		{"chan-field", "send-to-channel",
			"var s rec02\ns.c = make(chan int, 1)\ns.c <- tr(3)\nfmt.Println(<-s.c)\n",
			"var s rec02\ns.c = make(chan int, 1)\ns.c <- tr(3)\nfmt.Println(<-s.c)\n"},
		{"chan-indexed", "send-to-channel",
			"chs := []chan int{make(chan int, 1), make(chan int, 1)}\nchs[tr(1)] <- 5\nfmt.Println(len(chs[0]), len(chs[1]), <-chs[1])\n",
			"chs := []chan int{make(chan int, 1), make(chan int, 1)}\nchs[tr(1)] <- 5\nfmt.Println(len(chs[0]), len(chs[1]), <-chs[1])\n"},
	}
	for _, f := range fixed {
		out = append(out, Case{ID: "append/fixed/" + f.name, Family: "append", Class: f.class, XGo: f.x, Go: f.g, Nontrivial: true})
	}
	// forms that are not documented as append targets: rejecting them is fine; if they are accepted,
	// the target operand must be evaluated exactly once (reference: take the address once).
	tol := []struct{ name, x, g string }{
		{"index-traced",
			"xs := [][]int{{1}, {2}}\nxs[tr(0)] <- 5\nfmt.Println(xs)\n",
			"xs := [][]int{{1}, {2}}\nq := &xs[tr(0)]\n*q = append(*q, 5)\nfmt.Println(xs)\n"},
		{"map-index-traced",
			"m := map[string][]int{}\nm[trs(\"k\")] <- 5\nfmt.Println(m)\n",
			"m := map[string][]int{}\nkk := trs(\"k\")\nm[kk] = append(m[kk], 5)\nfmt.Println(m)\n"},
		{"call-result-field",
			"getrec().f <- 5\nfmt.Println(\"done\")\n",
			"q := getrec()\nq.f = append(q.f, 5)\nfmt.Println(\"done\")\n"},
		{"nested-field",
			"o := &rec02{nx: &rec02{}}\no.nx.f <- 5\nfmt.Println(o.nx.f)\n",
			"o := &rec02{nx: &rec02{}}\no.nx.f = append(o.nx.f, 5)\nfmt.Println(o.nx.f)\n"},
		{"deref",
			"a := []int{1}\nq := &a\n*q <- 2\nfmt.Println(a)\n",
			"a := []int{1}\nq := &a\n*q = append(*q, 2)\nfmt.Println(a)\n"},
	}
	for _, f := range tol {
		out = append(out, Case{ID: "append/undocumented-target/" + f.name, Family: "append", Class: "append-send/undocumented-target", XGo: f.x, Go: f.g, Tolerant: true, Nontrivial: true})
	}
	return out
}

// ---- command-style calls (docs.md "Hello World": command style; goodbye-printf.md `printf "..", age`;
//      README lambda row `onStart => {...}`; docs.md "Lambda expressions") ----
// `f a, b` is the call f(a, b); `o.m a` is o.m(a); a lambda argument `x => e` is func(x T) R { return e }.

func genCommand(thorough bool, ex map[string]int) (out []Case) {
	type argT struct {
		name, x, g string
		first      bool // usable as the first argument (no leading token that continues the callee expression)
	}
	ints := []argT{
		{"lit", "1", "1", true},
		{"var", "k", "k", true},
		{"traced", "tr(2)", "tr(2)", true},
		{"sum", "k+1", "k+1", true},
		{"paren-first", "(k+1)*2", "(k+1)*2", true},
		{"paren-call", "(tr(3))", "(tr(3))", true},
		{"neg", "-4", "-4", false},
		{"index", "c0[1]", "c0[1]", true},
		{"len", "len(c0)", "len(c0)", true},
	}
	if !thorough {
		ints = []argT{ints[0], ints[2], ints[3], ints[4], ints[5], ints[6]}
	}
	setupX := "k := 7\nc0 := [3, 1, 2]\n_, _ = k, c0\n"
	setupG := "k := 7\nc0 := []int{3, 1, 2}\n_, _ = k, c0\n"
	add := func(id, class, x, g string) {
		out = append(out, Case{ID: "command/" + id, Family: "command", Class: "command-call/" + class, XGo: setupX + x + "\n", Go: setupG + g + "\n", Nontrivial: true})
	}
	for _, a := range ints {
		if !a.first {
			continue
		}
		add("show1/"+a.name, "func", "show1 "+a.x, "show1("+a.g+")")
		add("vm/"+a.name, "method", "o := obj02{n: 5}\no.vm "+a.x, "o := obj02{n: 5}\no.vm("+a.g+")")
		add("pm/"+a.name, "method", "q := &obj02{n: 5}\nq.pm "+a.x+", \"s\"\nq.pm "+a.x+", \"v=${k}\"", "q := &obj02{n: 5}\nq.pm("+a.g+", \"s\")\nq.pm("+a.g+", \"v=\"+itoa(k))")
		add("println/"+a.name, "builtin", "println "+a.x+"\necho "+a.x, "fmt.Println("+a.g+")\nfmt.Println("+a.g+")")
		add("apply-lambda-expr/"+a.name, "trailing-lambda", "apply "+a.x+", x => x*x", "apply("+a.g+", func(x int) int { return x * x })")
		add("apply-lambda-block/"+a.name, "trailing-lambda", "apply "+a.x+", x => {\n\treturn x + k\n}", "apply("+a.g+", func(x int) int {\n\treturn x + k\n})")
		for _, b := range ints {
			add("show2/"+a.name+","+b.name, "func", "show2 "+a.x+", "+b.x, "show2("+a.g+", "+b.g+")")
			add("printf/"+a.name+","+b.name, "builtin", "printf \"%d-%d\\n\", "+a.x+", "+b.x, "fmt.Printf(\"%d-%d\\n\", "+a.g+", "+b.g+")")
			add("pkgfunc/"+a.name+","+b.name, "func", "fmt.Println "+a.x+", "+b.x, "fmt.Println("+a.g+", "+b.g+")")
			add("variadic/"+a.name+","+b.name, "func", "sumv "+a.x+", "+b.x+", 9", "sumv("+a.g+", "+b.g+", 9)")
			if thorough {
				for _, c := range ints {
					add("show3/"+a.name+","+b.name+","+c.name, "func", "show3 "+a.x+", "+b.x+", "+c.x, "show3("+a.g+", "+b.g+", "+c.g+")")
				}
			} else {
				add("show3/"+a.name+","+b.name+",traced", "func", "show3 "+a.x+", "+b.x+", tr(8)", "show3("+a.g+", "+b.g+", tr(8))")
			}
		}
	}
	fixed := []struct{ name, class, x, g string }{
		{"variadic-spread", "func", "sumv c0...", "sumv(c0...)"},
		{"variadic-none-args", "func", "sumv 1", "sumv(1)"},
		{"string-first", "func", "shows \"a\", 1\nshows \"k=${k}\", tr(2)", "shows(\"a\", 1)\nshows(\"k=\"+itoa(k), tr(2))"},
		{"list-arg", "func", "showl 1, [2, 3]\nshowl tr(1), [k, tr(2)]", "showl(1, []int{2, 3})\nshowl(tr(1), []int{k, tr(2)})"},
		{"map-arg", "func", "showm 1, {\"a\": 2}", "showm(1, map[string]int{\"a\": 2})"},
		{"multi-line-args", "func", "show3 1,\n\t2,\n\t3", "show3(1,\n\t2,\n\t3)"},
		{"lambda-no-param", "trailing-lambda", "run02 => {\n\tfmt.Println(\"in\", k)\n}", "run02(func() {\n\tfmt.Println(\"in\", k)\n})"},
		{"lambda-first-arg", "trailing-lambda", "onEach x => {\n\tfmt.Println(\"each\", x+k)\n}", "onEach(func(x int) {\n\tfmt.Println(\"each\", x+k)\n})"},
		{"lambda-two-params", "trailing-lambda", "each2 c0, (i, x) => {\n\tfmt.Println(i, x)\n}", "each2(c0, func(i int, x int) {\n\tfmt.Println(i, x)\n})"},
		{"lambda-two-params-expr", "trailing-lambda", "fold c0, (acc, x) => acc*10+x", "fold(c0, func(acc int, x int) int { return acc*10 + x })"},
		{"lambda-captures-and-mutates", "trailing-lambda", "n := 0\neach2 c0, (i, x) => {\n\tn += i * x\n}\nfmt.Println(n)", "n := 0\neach2(c0, func(i int, x int) {\n\tn += i * x\n})\nfmt.Println(n)"},
		{"command-in-lambda-body", "trailing-lambda", "onEach x => {\n\tshow2 x, k\n}", "onEach(func(x int) {\n\tshow2(x, k)\n})"},
		{"command-in-for-in", "func", "for i, x in c0 {\n\tshow2 i, x\n}", "for i, x := range c0 {\n\tshow2(i, x)\n}"},
		{"command-with-comprehension-arg", "func", "showl 1, [x*x for x <- c0 if x > 1]", "var r []int\nfor _, x := range c0 {\n\tif x > 1 {\n\t\tr = append(r, x*x)\n\t}\n}\nshowl(1, r)"},
	}
	for _, f := range fixed {
		add("fixed/"+f.name, f.class, f.x, f.g)
	}
	return out
}

// ---- literal typing table (docs.md "Slices", "Maps") ----

func genLiterals(thorough bool, ex map[string]int) (out []Case) {
	rows := []struct{ name, x, g string }{
		// the rows of docs.md, verbatim
		{"doc-ints", "[1, 2, 3]", "[]int{1, 2, 3}"},
		{"doc-floats", "[1, 2, 3.4]", "[]float64{1, 2, 3.4}"},
		{"doc-strings", `["Hi"]`, `[]string{"Hi"}`},
		{"doc-mixed", `["Hi", 10]`, `[]any{"Hi", 10}`},
		{"doc-empty", "[]", "[]any{}"},
		{"doc-cast", "[]float64([1, 2, 3])", "[]float64{1, 2, 3}"},
		{"doc-map-int", `{"Hello": 1, "xsw": 3}`, `map[string]int{"Hello": 1, "xsw": 3}`},
		{"doc-map-float", `{"Hello": 1, "xsw": 3.4}`, `map[string]float64{"Hello": 1, "xsw": 3.4}`},
		{"doc-map-mixed", `{"Hello": 1, "xsw": "XGo"}`, `map[string]any{"Hello": 1, "xsw": "XGo"}`},
		{"doc-map-empty", "{}", "map[string]any{}"},
		// the same rows with other lengths / positions of the deciding element
		{"ints-1", "[7]", "[]int{7}"},
		{"ints-2", "[7, -1]", "[]int{7, -1}"},
		{"floats-first", "[1.5, 2]", "[]float64{1.5, 2}"},
		{"floats-middle", "[1, 2.5, 3]", "[]float64{1, 2.5, 3}"},
		{"floats-only", "[0.5]", "[]float64{0.5}"},
		{"strings-3", `["a", "b", "c"]`, `[]string{"a", "b", "c"}`},
		{"mixed-int-first", `[10, "Hi"]`, `[]any{10, "Hi"}`},
		{"mixed-three", `[1, 2.5, "a"]`, `[]any{1, 2.5, "a"}`},
		{"cast-ints-to-float", "[]float64([4])", "[]float64{4}"},
		{"map-int-1", `{"a": 1}`, `map[string]int{"a": 1}`},
		{"map-float-first", `{"a": 1.5, "b": 2}`, `map[string]float64{"a": 1.5, "b": 2}`},
		{"map-mixed-first", `{"a": "s", "b": 2}`, `map[string]any{"a": "s", "b": 2}`},
		{"map-strings", `{"a": "s", "b": "t"}`, `map[string]string{"a": "s", "b": "t"}`},
	}
	for _, r := range rows {
		for _, ctx := range []string{"define", "argument"} {
			var x, g string
			if ctx == "define" {
				x = fmt.Sprintf("v := %s\nfmt.Printf(\"%%T %%v %%d\\n\", v, v, len(v))\n", r.x)
				g = fmt.Sprintf("v := %s\nfmt.Printf(\"%%T %%v %%d\\n\", v, v, len(v))\n", r.g)
			} else {
				x = fmt.Sprintf("fmt.Printf(\"%%T %%v\\n\", %s, %s)\n", r.x, r.x)
				g = fmt.Sprintf("fmt.Printf(\"%%T %%v\\n\", %s, %s)\n", r.g, r.g)
			}
			out = append(out, Case{ID: "literal/" + r.name + "/" + ctx, Family: "literal", Class: "literal-typing/" + strings.SplitN(r.name, "-", 2)[0], XGo: x, Go: g, Nontrivial: true})
		}
	}
	return out
}

// ---- the examples of docs.md with the outputs the documentation prints next to them ----

func genDocs(thorough bool, ex map[string]int) (out []Case) {
	docs := []struct{ name, class, x, want, decls, godecls string }{
		{"slices", "docs/slices",
			"nums := [1, 2, 3]\nprintln nums\nprintln nums[0]\nprintln nums[1:3]\nprintln nums[:2]\nprintln nums[2:]\nnums[1] = 5\nprintln nums\n",
			"[1 2 3]\n1\n[2 3]\n[1 2]\n[3]\n[1 5 3]\n", "", ""},
		{"map-missing-key", "docs/maps",
			"a := {\"Hello\": 1, \"xsw\": 3}\nc := {\"Hello\": 1, \"xsw\": \"XGo\"}\nprintln a[\"bad_key\"]\nprintln c[\"bad_key\"]\nif v, ok := a[\"xsw\"]; ok {\n\tprintln \"its value is\", v\n}\n",
			"0\n<nil>\nits value is 3\n", "", ""},
		{"slice-for", "docs/for-in",
			"numbers := [1, 3, 5, 7, 11, 13, 17]\nsum := 0\nfor x in numbers {\n\tsum += x\n}\nprintln sum\nnames := [\"Sam\", \"Peter\"]\nfor i, name in names {\n\tprintln i, name\n}\n",
			"57\n0 Sam\n1 Peter\n", "", ""},
		{"for-arrow-if", "docs/for-arrow-if",
			"numbers := [0, 1, 2, 3, 4, 5, 6, 7, 8, 9]\nfor num <- numbers if num%3 == 0 {\n\tprintln num\n}\n",
			"0\n3\n6\n9\n", "", ""},
		{"variadic-sum", "docs/for-in",
			"println sumD(2, 3, 5)\n", "10\n",
			"func sumD(a ...int) int {\n\ttotal := 0\n\tfor x <- a {\n\t\ttotal += x\n\t}\n\treturn total\n}\n", ""},
		{"transform", "docs/list-comprehension",
			"y := transformD([1, 2, 3], square)\nprintln y\nz := transformD([-3, 1, -5], x => {\n\tif x < 0 {\n\t\treturn -x\n\t}\n\treturn x\n})\nprintln z\nw := transformD([1, 2, 3], x => x*x)\nprintln w\n",
			"[1 4 9]\n[3 1 5]\n[1 4 9]\n",
			"func transformD(a []float64, f func(float64) float64) []float64 {\n\treturn [f(x) for x <- a]\n}\n", ""},
		{"select-students", "docs/select-comprehension",
			"type student struct {\n\tname  string\n\tscore int\n}\nstudents := [student{\"Ken\", 90}, student{\"Jason\", 80}, student{\"Lily\", 85}]\nunknownScore, ok := {x.score for x <- students if x.name == \"Unknown\"}\njasonScore := {x.score for x <- students if x.name == \"Jason\"}\nprintln unknownScore, ok\nprintln jasonScore\n",
			"0 false\n80\n", "", ""},
	}
	for _, d := range docs {
		out = append(out, Case{ID: "docs/" + d.name, Family: "docs", Class: d.class, XGo: d.x, Want: d.want, Decls: d.decls, GoDecls: d.godecls, Nontrivial: true})
	}
	// examples whose value the documentation does not print: judged against the expansion
	exp := []struct{ name, class, x, g string }{
		{"list-comprehension-section", "docs/list-comprehension",
			"a := [x*x for x <- [1, 3, 5, 7, 11]]\nb := [x*x for x <- [1, 3, 5, 7, 11] if x > 3]\nc := [i+v for i, v <- [1, 3, 5, 7, 11] if i%2 == 1]\narr := [1, 2, 3, 4, 5, 6]\nd := [[a, b] for a <- arr if a < b for b <- arr if b > 2]\nx := {x: i for i, x <- [1, 3, 5, 7, 11]}\ny := {x: i for i, x <- [1, 3, 5, 7, 11] if i%2 == 1}\nz := {v: k for k, v <- {1: \"Hello\", 3: \"Hi\", 5: \"xsw\", 7: \"XGo\"} if k > 3}\nfmt.Println(a, b, c)\nfmt.Println(d)\nfmt.Println(x, y, z)\n",
			`src := []int{1, 3, 5, 7, 11}
var a, b, c []int
for _, x := range src {
	a = append(a, x*x)
}
for _, x := range src {
	if x > 3 {
		b = append(b, x*x)
	}
}
for i, v := range src {
	if i%2 == 1 {
		c = append(c, i+v)
	}
}
arr := []int{1, 2, 3, 4, 5, 6}
var d [][]int
for _, b := range arr {
	if b > 2 {
		for _, a := range arr {
			if a < b {
				d = append(d, []int{a, b})
			}
		}
	}
}
x := map[int]int{}
for i, x2 := range src {
	x[x2] = i
}
y := map[int]int{}
for i, x2 := range src {
	if i%2 == 1 {
		y[x2] = i
	}
}
z := map[string]int{}
for k, v := range map[int]string{1: "Hello", 3: "Hi", 5: "xsw", 7: "XGo"} {
	if k > 3 {
		z[v] = k
	}
}
fmt.Println(a, b, c)
fmt.Println(d)
fmt.Println(x, y, z)
`},
		{"exists-students", "docs/exists-comprehension",
			"type student struct {\n\tname  string\n\tscore int\n}\nstudents := [student{\"Ken\", 90}, student{\"Jason\", 80}, student{\"Lily\", 85}]\nhasJason := {for x <- students if x.name == \"Jason\"}\nhasFailed := {for x <- students if x.score < 60}\nfmt.Println(hasJason, hasFailed)\n",
			"type student struct {\n\tname  string\n\tscore int\n}\nstudents := []student{{\"Ken\", 90}, {\"Jason\", 80}, {\"Lily\", 85}}\nhasJason, hasFailed := false, false\nfor _, x := range students {\n\tif x.name == \"Jason\" {\n\t\thasJason = true\n\t\tbreak\n\t}\n}\nfor _, x := range students {\n\tif x.score < 60 {\n\t\thasFailed = true\n\t\tbreak\n\t}\n}\nfmt.Println(hasJason, hasFailed)\n"},
		{"map-for", "docs/for-in",
			"m := {\"one\": 1, \"two\": 2}\nvar ks, ks2 []string\nvar vs, vs2 []int\nfor key, val in m {\n\tks <- key\n\tvs <- val\n}\nfor key, _ in m {\n\tks2 <- key\n}\nfor val in m {\n\tvs2 <- val\n}\nfmt.Println(sortStrs(ks), sortInts(vs), sortStrs(ks2), sortInts(vs2))\n",
			"m := map[string]int{\"one\": 1, \"two\": 2}\nvar ks, ks2 []string\nvar vs, vs2 []int\nfor key, val := range m {\n\tks = append(ks, key)\n\tvs = append(vs, val)\n}\nfor key := range m {\n\tks2 = append(ks2, key)\n}\nfor _, val := range m {\n\tvs2 = append(vs2, val)\n}\nfmt.Println(sortStrs(ks), sortInts(vs), sortStrs(ks2), sortInts(vs2))\n"},
	}
	for _, d := range exp {
		out = append(out, Case{ID: "docs/" + d.name, Family: "docs", Class: d.class, XGo: d.x, Go: d.g, Nontrivial: true})
	}
	return out
}

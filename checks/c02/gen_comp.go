package main

import (
	"fmt"
	"strings"
)

// ---- comprehension family ----
//
// Documented semantics used by the expansion (doc/docs.md "List comprehension", "Select data from a
// collection", "Check if data exists in a collection", "for..in"):
//   [E for v <- C if F]            list of E for every element v of C, in order, for which F holds
//   {K: V for ...}                 map filled by the same loop
//   {E for ...}                    E of the first element for which F holds (zero value when there is none);
//                                  the two-value form also reports whether there was one
//   {for ...}                      whether any element satisfies F
//   several for-phrases:           the LAST phrase is the OUTERMOST loop, so the filter of an earlier phrase
//                                  may refer to the variable of a later one
//   for k, v <- C                  index/key and element; one variable = the element (value for maps)
// F guards E: E is not evaluated for an element that F rejects, and F is evaluated before E.

type phraseSpec struct {
	kv, v string // key variable ("" = none) and value variable
	cvar  string // container variable
	c     cont
	f     filt
}

// loopNest writes the nested loops, outermost (= last phrase) first, calls body at the innermost
// level and closes everything again.
func loopNest(b *gob, ph []phraseSpec, body func()) {
	opened := 0
	for i := len(ph) - 1; i >= 0; i-- {
		p := ph[i]
		b.open("%s", rangeHead(p.kv, p.v, p.cvar))
		opened++
		if p.f.text != "" {
			b.open("if %s", p.f.text)
			opened++
		}
	}
	body()
	for ; opened > 0; opened-- {
		b.close()
	}
}

type compSpec struct {
	shape string // list | map-ek | map-ev | select1 | select2 | exists
	ph    []phraseSpec
	e     elt
	other string // the plain variable used as value (map-ek) or key (map-ev)
	otype string
	sort  string // "", "int", "string": sort the list result (map container with >= 2 entries)
}

func (s compSpec) texts() (xgo, gosrc string) {
	var x, g gob
	for _, p := range s.ph {
		x.ln("%s := %s", p.cvar, p.c.xgo)
		g.ln("%s := %s", p.cvar, p.c.gol)
	}
	var phs []string
	for _, p := range s.ph {
		phs = append(phs, phrase(p.kv, p.v, p.cvar, p.f.text))
	}
	fors := strings.Join(phs, " ")
	brk := "break"
	if len(s.ph) > 1 {
		// leaving all loops at once
		brk = "break all"
	}
	label := func() {
		if brk == "break all" {
			g.ln("all:")
		}
	}
	switch s.shape {
	case "list":
		x.ln("r := [%s %s]", s.e.x, fors)
		g.ln("var r []%s", s.e.t)
		loopNest(&g, s.ph, func() { g.ln("r = append(r, %s)", s.e.g) })
		switch s.sort {
		case "int":
			x.ln("sortInts(r)")
			g.ln("sortInts(r)")
		case "string":
			x.ln("sortStrs(r)")
			g.ln("sortStrs(r)")
		}
		x.raw(`fmt.Printf("%T %v\n", r, r)`)
		g.raw(`fmt.Printf("%T %v\n", r, r)`)
	case "map-ek":
		x.ln("r := {%s: %s %s}", s.e.x, s.other, fors)
		g.ln("r := map[%s]%s{}", s.e.t, s.otype)
		loopNest(&g, s.ph, func() { g.ln("r[%s] = %s", s.e.g, s.other) })
		x.raw(`fmt.Printf("%T %v\n", r, r)`)
		g.raw(`fmt.Printf("%T %v\n", r, r)`)
	case "map-ev":
		x.ln("r := {%s: %s %s}", s.other, s.e.x, fors)
		g.ln("r := map[%s]%s{}", s.otype, s.e.t)
		loopNest(&g, s.ph, func() { g.ln("r[%s] = %s", s.other, s.e.g) })
		x.raw(`fmt.Printf("%T %v\n", r, r)`)
		g.raw(`fmt.Printf("%T %v\n", r, r)`)
	case "select1":
		x.ln("r := {%s %s}", s.e.x, fors)
		g.ln("var r %s", s.e.t)
		label()
		loopNest(&g, s.ph, func() { g.ln("r = %s", s.e.g); g.raw(brk) })
		x.raw(`fmt.Printf("%T %v\n", r, r)`)
		g.raw(`fmt.Printf("%T %v\n", r, r)`)
	case "select2":
		x.ln("r, ok := {%s %s}", s.e.x, fors)
		g.ln("var r %s", s.e.t)
		g.ln("ok := false")
		label()
		loopNest(&g, s.ph, func() { g.ln("r, ok = %s, true", s.e.g); g.raw(brk) })
		x.raw(`fmt.Printf("%T %v %v\n", r, r, ok)`)
		g.raw(`fmt.Printf("%T %v %v\n", r, r, ok)`)
	case "exists":
		x.ln("r := {%s}", fors)
		g.ln("r := false")
		label()
		loopNest(&g, s.ph, func() { g.ln("r = true"); g.raw(brk) })
		x.raw(`fmt.Printf("%T %v\n", r, r)`)
		g.raw(`fmt.Printf("%T %v\n", r, r)`)
	}
	return x.String(), g.String()
}

// allVarsUsed: both languages (via the generated Go) reject a declared and unused loop variable, so a
// well-formed unit uses every variable it declares (checked on the XGo text, independent of cl).
func (s compSpec) allVarsUsed() bool {
	texts := []string{}
	if s.shape != "exists" {
		texts = append(texts, s.e.x)
	}
	if s.shape == "map-ek" || s.shape == "map-ev" {
		texts = append(texts, s.other)
	}
	for _, p := range s.ph {
		texts = append(texts, p.f.text)
	}
	for _, p := range s.ph {
		if !uses(p.v, texts...) || (p.kv != "" && !uses(p.kv, texts...)) {
			return false
		}
	}
	return true
}

var shapes = []string{"list", "map-ek", "map-ev", "select1", "select2", "exists"}

func matches(c cont, f filt) int {
	n := 0
	for i := range c.vals {
		if f.eval(c.keys[i], c.vals[i]) {
			n++
		}
	}
	return n
}

func genComprehension1(thorough bool, ex map[string]int) []Case {
	var out []Case
	pick := func(cs []cont, quick ...int) []cont {
		if thorough {
			return cs
		}
		var r []cont
		for _, i := range quick {
			r = append(r, cs[i])
		}
		return r
	}
	var conts []cont
	conts = append(conts, pick(intConts, 0, 1, 2)...)
	conts = append(conts, pick(strConts, 1, 2)...)
	conts = append(conts, pick(mapConts, 0, 1, 2)...)
	for _, c := range conts {
		for _, two := range []bool{false, true} {
			v, kv := "x", ""
			if two {
				kv = "i"
				if c.isMap {
					kv = "k"
				}
			}
			for _, f := range filters(c.vt, c.kt, v, kv) {
				es := elts(c.vt, c.kt, v, kv)
				for _, shape := range shapes {
					list := es
					if shape == "exists" {
						list = []elt{{name: "-"}}
					}
					for _, e := range list {
						s := compSpec{shape: shape, e: e, ph: []phraseSpec{{kv, v, "c0", c, f}}}
						switch shape {
						case "map-ek":
							if !e.comparable() {
								continue
							}
							s.other, s.otype = v, c.vt
							if two {
								s.other, s.otype = kv, c.kt
							}
						case "map-ev":
							if e.name == "x" {
								continue
							}
							s.other, s.otype = v, c.vt
						}
						if !s.allVarsUsed() {
							ex["skipped_unused_loop_variable(ill-formed in Go too)"]++
							continue
						}
						// iteration order of a map with >= 2 entries is unspecified
						if c.isMap && c.n() >= 2 {
							if f.traced || e.traced {
								ex["excluded_map_iteration_order_visible_in_trace"]++
								continue
							}
							switch shape {
							case "list":
								if e.t != "int" && e.t != "string" {
									ex["excluded_map_iteration_order_unsortable_result"]++
									continue
								}
								s.sort = e.t
							case "select1", "select2":
								if matches(c, f) > 1 {
									ex["excluded_map_iteration_order_select_with_several_matches"]++
									continue
								}
							}
						}
						xg, gg := s.texts()
						vars := "1var"
						if two {
							vars = "2var"
						}
						kind := "slice"
						if c.isMap {
							kind = "map"
						}
						out = append(out, Case{
							ID:         fmt.Sprintf("comp1/%s/%s/%s/filter=%s/elt=%s", shape, c.name, vars, f.name, e.name),
							Family:     "comprehension",
							Class:      fmt.Sprintf("%s-comprehension/1-phrase/%s", shape, kind),
							XGo:        xg,
							Go:         gg,
							Nontrivial: matches(c, f) > 0,
						})
					}
				}
			}
		}
	}
	return out
}

// two for-phrases: `E for a <- c0 if F1 for b <- c1 if F2`; b (last phrase) is the outer loop
func genComprehension2(thorough bool, ex map[string]int) []Case {
	var out []Case
	type pairT struct{ a, b cont }
	var pairs []pairT
	if thorough {
		for _, a := range intConts {
			for _, b := range intConts {
				pairs = append(pairs, pairT{a, b})
			}
		}
	} else {
		for _, ij := range [][2]int{{1, 1}, {1, 2}, {2, 1}, {2, 2}, {0, 2}, {2, 0}} {
			pairs = append(pairs, pairT{intConts[ij[0]], intConts[ij[1]]})
		}
	}
	inner := []filt{
		{"none", "", false, nil},
		{"lt-outer", "a < b", false, nil}, // the inner filter refers to the outer variable, as in docs.md
		{"gt1", "a > 1", false, nil},
		{"traced", "fin(a, b)", true, nil},
	}
	outer := []filt{
		{"none", "", false, nil},
		{"gt1", "b > 1", false, nil},
		{"traced", "fout(b)", true, nil},
	}
	type eltV struct {
		e   elt
		idx bool // phrases declare index variables i, j as well
	}
	es := []eltV{
		{elt{"pair", "[a, b]", "[]int{a, b}", "[]int", false}, false},
		{elt{"arith", "a*10+b", "a*10 + b", "int", false}, false},
		{elt{"traced", "pr(a, b)", "pr(a, b)", "int", true}, false},
		{elt{"interp", `"${a}-${b}"`, `itoa(a) + "-" + itoa(b)`, "string", false}, false},
		{elt{"quad", "[i, a, j, b]", "[]int{i, a, j, b}", "[]int", false}, true},
	}
	for _, p := range pairs {
		for _, fi := range inner {
			for _, fo := range outer {
				for _, shape := range shapes {
					for _, ev := range es {
						e := ev.e
						if shape == "exists" {
							if ev.e.name != "pair" {
								continue
							}
							e = elt{name: "-"}
						}
						ph := []phraseSpec{{"", "a", "c0", p.a, fi}, {"", "b", "c1", p.b, fo}}
						if ev.idx && shape != "exists" {
							ph[0].kv, ph[1].kv = "i", "j"
						}
						s := compSpec{shape: shape, e: e, ph: ph}
						switch shape {
						case "map-ek":
							if !e.comparable() {
								continue
							}
							s.other, s.otype = "a", "int"
						case "map-ev":
							s.other, s.otype = "b", "int"
						}
						if !s.allVarsUsed() {
							ex["skipped_unused_loop_variable(ill-formed in Go too)"]++
							continue
						}
						xg, gg := s.texts()
						out = append(out, Case{
							ID:         fmt.Sprintf("comp2/%s/%s-%s/inner=%s/outer=%s/elt=%s", shape, p.a.name, p.b.name, fi.name, fo.name, e.name),
							Family:     "comprehension",
							Class:      fmt.Sprintf("%s-comprehension/2-phrase", shape),
							XGo:        xg,
							Go:         gg,
							Nontrivial: p.a.n() > 0 && p.b.n() > 0,
						})
					}
				}
			}
		}
	}
	// mixed element types: inner over strings, outer over ints (the inner filter still refers to the outer variable)
	strs := strConts[1:]
	ints := []cont{intConts[1], intConts[2]}
	if thorough {
		strs = strConts
		ints = intConts
	}
	for _, a := range strs {
		for _, b := range ints {
			for _, fi := range []filt{{"none", "", false, nil}, {"len-lt-outer", "len(a) < b", false, nil}} {
				for _, fo := range outer {
					for _, shape := range []string{"list", "select2", "map-ek"} {
						for _, e := range []elt{
							{"pair", "[a, b]", "[]any{a, b}", "[]any", false},
							{"interp", `"${a}${b}"`, "a + itoa(b)", "string", false},
						} {
							s := compSpec{shape: shape, e: e, ph: []phraseSpec{{"", "a", "c0", a, fi}, {"", "b", "c1", b, fo}}}
							if shape == "map-ek" {
								if !e.comparable() {
									continue
								}
								s.other, s.otype = "b", "int"
							}
							xg, gg := s.texts()
							out = append(out, Case{
								ID:         fmt.Sprintf("comp2/%s/%s-%s/inner=%s/outer=%s/elt=%s", shape, a.name, b.name, fi.name, fo.name, e.name),
								Family:     "comprehension",
								Class:      fmt.Sprintf("%s-comprehension/2-phrase", shape),
								XGo:        xg,
								Go:         gg,
								Nontrivial: a.n() > 0 && b.n() > 0,
							})
						}
					}
				}
			}
		}
	}
	return out
}

package main

// The mini-IR of C02: containers, filters and element expressions with TWO printers each
// (XGo sugar text / plain-Go text) plus the Go type of every expression, so that the explicit-loop
// expansion can be written without asking any compiler. Nothing here knows package cl.

import (
	"fmt"
	"regexp"
	"strings"
)

// Case is one unit of the grid. It carries the texts, so a replay evaluates exactly the same input.
type Case struct {
	ID       string `json:"id"`
	Family   string `json:"family"` // comprehension | for-in | append | command | literal | docs
	Class    string `json:"class"`  // construct class: part of the violation key
	XGo      string `json:"xgo"`    // body of the unit in XGo (the sugar under test)
	Go       string `json:"go,omitempty"`
	Want     string `json:"want,omitempty"` // expected stdout when the documentation states it literally
	Decls    string `json:"decls,omitempty"`
	GoDecls  string `json:"go_decls,omitempty"`
	Tolerant bool   `json:"tolerant,omitempty"`
	// Tolerant: the form is not documented as an append form; rejecting it (by cl or by the Go
	// toolchain) is fine, but if it is accepted it must behave like the single-evaluation expansion.
	Nontrivial bool `json:"nontrivial"`
}

// ---- containers ----

type cont struct {
	name  string
	xgo   string // literal in XGo (list/map literal sugar where the documented typing gives the wanted type)
	gol   string // the same value as a Go composite literal
	kt    string // key type: int for slices
	vt    string // element/value type
	isMap bool
	keys  []any
	vals  []any
}

func (c cont) n() int { return len(c.vals) }

var intConts = []cont{
	{"i0", "[]int{}", "[]int{}", "int", "int", false, nil, nil},
	{"i1", "[1]", "[]int{1}", "int", "int", false, []any{0}, []any{1}},
	{"i3", "[3, 1, 2]", "[]int{3, 1, 2}", "int", "int", false, []any{0, 1, 2}, []any{3, 1, 2}},
	{"i5", "[1, 3, 5, 7, 11]", "[]int{1, 3, 5, 7, 11}", "int", "int", false, []any{0, 1, 2, 3, 4}, []any{1, 3, 5, 7, 11}},
}

var strConts = []cont{
	{"s0", "[]string{}", "[]string{}", "int", "string", false, nil, nil},
	{"s1", `["a"]`, `[]string{"a"}`, "int", "string", false, []any{0}, []any{"a"}},
	{"s3", `["b", "a", "cc"]`, `[]string{"b", "a", "cc"}`, "int", "string", false, []any{0, 1, 2}, []any{"b", "a", "cc"}},
}

var mapConts = []cont{
	{"m0", "map[string]int{}", "map[string]int{}", "string", "int", true, nil, nil},
	{"m1", `{"a": 1}`, `map[string]int{"a": 1}`, "string", "int", true, []any{"a"}, []any{1}},
	{"m2", `{"a": 1, "b": 2}`, `map[string]int{"a": 1, "b": 2}`, "string", "int", true, []any{"a", "b"}, []any{1, 2}},
}

// ---- filters: plain Go expressions, same text on both sides ----

type filt struct {
	name   string
	text   string // "" = no filter
	traced bool
	eval   func(k, v any) bool
}

// filters over value variable v (type vt) and, when kv != "", key variable kv (type kt)
func filters(vt, kt, v, kv string) []filt {
	var fs []filt
	fs = append(fs, filt{"none", "", false, func(k, x any) bool { return true }})
	if vt == "int" {
		fs = append(fs,
			filt{"gt1", v + " > 1", false, func(k, x any) bool { return x.(int) > 1 }},
			filt{"even", v + "%2 == 0", false, func(k, x any) bool { return x.(int)%2 == 0 }},
			filt{"false", "false", false, func(k, x any) bool { return false }},
			filt{"traced", "tf(" + v + ")", true, func(k, x any) bool { return x.(int)%3 != 0 }},
		)
	} else {
		fs = append(fs,
			filt{"gta", v + ` > "a"`, false, func(k, x any) bool { return x.(string) > "a" }},
			filt{"evenlen", "len(" + v + ")%2 == 0", false, func(k, x any) bool { return len(x.(string))%2 == 0 }},
			filt{"false", "false", false, func(k, x any) bool { return false }},
			filt{"traced", "tfs(" + v + ")", true, func(k, x any) bool { return x.(string) != "b" }},
		)
	}
	if kv != "" {
		if kt == "int" {
			fs = append(fs, filt{"oddkey", kv + "%2 == 1", false, func(k, x any) bool { return k.(int)%2 == 1 }})
		} else {
			fs = append(fs, filt{"keygta", kv + ` > "a"`, false, func(k, x any) bool { return k.(string) > "a" }})
		}
	}
	return fs
}

// ---- element expressions ----

type elt struct {
	name   string
	x, g   string // XGo text, Go text
	t      string // Go type
	traced bool
}

func (e elt) comparable() bool { return e.t == "int" || e.t == "string" }

func elts(vt, kt, v, kv string) []elt {
	var es []elt
	if vt == "int" {
		es = append(es,
			elt{"x", v, v, "int", false},
			elt{"sq", v + "*" + v, v + "*" + v, "int", false},
			elt{"traced", "tr(" + v + ")", "tr(" + v + ")", "int", true},
			elt{"interp", `"<${` + v + `}>"`, `"<" + itoa(` + v + `) + ">"`, "string", false},
		)
		switch {
		case kv == "":
			es = append(es, elt{"pair", "[" + v + ", " + v + "+1]", "[]int{" + v + ", " + v + " + 1}", "[]int", false})
		case kt == "int":
			es = append(es,
				elt{"pair", "[" + v + ", " + kv + "]", "[]int{" + v + ", " + kv + "}", "[]int", false},
				elt{"keyplus", kv + "+" + v, kv + " + " + v, "int", false})
		default:
			es = append(es,
				elt{"pair", "[" + v + ", " + kv + "]", "[]any{" + v + ", " + kv + "}", "[]any", false},
				elt{"keyinterp", `"${` + kv + `}=${` + v + `}"`, kv + ` + "=" + itoa(` + v + `)`, "string", false})
		}
	} else {
		es = append(es,
			elt{"x", v, v, "string", false},
			elt{"dbl", v + "+" + v, v + " + " + v, "string", false},
			elt{"traced", "trs(" + v + ")", "trs(" + v + ")", "string", true},
			elt{"interp", `"<${` + v + `}>"`, `"<" + ` + v + ` + ">"`, "string", false},
		)
		if kv == "" {
			es = append(es, elt{"pair", "[" + v + ", " + v + `+"!"]`, "[]string{" + v + ", " + v + ` + "!"}`, "[]string", false})
		} else {
			es = append(es,
				elt{"pair", "[" + v + ", " + kv + "]", "[]any{" + v + ", " + kv + "}", "[]any", false},
				elt{"keyinterp", `"${` + kv + `}:${` + v + `}"`, "itoa(" + kv + `) + ":" + ` + v, "string", false})
		}
	}
	return es
}

// ---- helpers ----

var wordRe = map[string]*regexp.Regexp{}

// uses reports whether identifier name occurs as a word in any of the texts (XGo side; ${name} counts).
func uses(name string, texts ...string) bool {
	re := wordRe[name]
	if re == nil {
		re = regexp.MustCompile(`\b` + regexp.QuoteMeta(name) + `\b`)
		wordRe[name] = re
	}
	for _, t := range texts {
		if re.MatchString(t) {
			return true
		}
	}
	return false
}

// code builder with indentation for the Go expansion
type gob struct {
	sb  strings.Builder
	ind int
}

func (b *gob) ln(f string, a ...any) { b.raw(fmt.Sprintf(f, a...)) }

// raw writes one line verbatim (no format verbs are interpreted)
func (b *gob) raw(s string) {
	b.sb.WriteString(strings.Repeat("\t", b.ind))
	b.sb.WriteString(s)
	b.sb.WriteString("\n")
}
func (b *gob) open(f string, a ...any) { b.ln(f+" {", a...); b.ind++ }
func (b *gob) close()                  { b.ind--; b.ln("}") }
func (b *gob) String() string          { return b.sb.String() }

// rangeHead is the documented Go loop head of one for-phrase `for [k,] v <- c`:
// one variable = the element (the value for maps), two variables = index/key and element.
func rangeHead(kv, v, c string) string {
	if kv == "" {
		return fmt.Sprintf("for _, %s := range %s", v, c)
	}
	return fmt.Sprintf("for %s, %s := range %s", kv, v, c)
}

func phrase(kv, v, c, cond string) string {
	s := "for "
	if kv != "" {
		s += kv + ", "
	}
	s += v + " <- " + c
	if cond != "" {
		s += " if " + cond
	}
	return s
}

func zeroOf(t string) string {
	switch t {
	case "int":
		return "0"
	case "string":
		return `""`
	case "bool":
		return "false"
	}
	return "nil"
}

// Prelude: shared by subject and reference, plain Go (valid XGo as well). Traced helpers print.
const prelude = `
type rec02 struct {
	f  []int
	g  []string
	c  chan int
	nx *rec02
}

var gl02 []int

func tr(x int) int {
	fmt.Println("t", x)
	return x
}

func trs(x string) string {
	fmt.Println("ts", x)
	return x
}

func tf(x int) bool {
	fmt.Println("f", x)
	return x%3 != 0
}

func tfs(x string) bool {
	fmt.Println("fs", x)
	return x != "b"
}

func fin(a, b int) bool {
	fmt.Println("fi", a, b)
	return a < b
}

func fout(b int) bool {
	fmt.Println("fo", b)
	return b > 1
}

func pr(a, b int) int {
	fmt.Println("p", a, b)
	return a*10 + b
}

func itoa(i int) string { return strconv.Itoa(i) }

func sortInts(a []int) []int {
	sort.Ints(a)
	return a
}

func sortStrs(a []string) []string {
	sort.Strings(a)
	return a
}

func getrec() *rec02 {
	fmt.Println("getrec")
	return &rec02{}
}

type obj02 struct {
	n int
}

func (o obj02) vm(a int) { fmt.Println("vm", o.n, a) }

func (o *obj02) pm(a int, b string) {
	o.n += a
	fmt.Println("pm", o.n, a, b)
}

func show1(a int)                     { fmt.Println("show1", a) }
func show2(a, b int)                  { fmt.Println("show2", a, b) }
func show3(a, b, c int)               { fmt.Println("show3", a, b, c) }
func shows(a string, b int)           { fmt.Println("shows", a, b) }
func showl(a int, b []int)            { fmt.Println("showl", a, b) }
func showm(a int, b map[string]int)   { fmt.Println("showm", a, len(b), b["a"]) }
func sumv(a ...int)                   { fmt.Println("sumv", len(a), a) }
func apply(x int, f func(int) int)    { fmt.Println("apply", f(x)) }
func run02(f func())                  { fmt.Println("run"); f() }
func onEach(f func(int))              { f(1); f(2) }
func each2(xs []int, f func(int, int)) {
	for i := 0; i < len(xs); i++ {
		f(i, xs[i])
	}
}
func fold(xs []int, f func(int, int) int) {
	acc := 0
	for i := 0; i < len(xs); i++ {
		acc = f(acc, xs[i])
	}
	fmt.Println("fold", acc)
}
func square(x float64) float64 { return x * x }
`

// C02: XGo collection sugar evaluates like its documented Go expansion.
// Mode E (bounded-exhaustive program grid): every unit is a small XGo function body using one sugar
// construct (list/map/select/exists comprehension with 1-2 for-phrases, `a <- v` append, for-in with
// `if` filter, command-style call, list/map literal); next to it the generator (ir.go, gen_*.go) emits
// the explicit-loop plain-Go expansion that doc/docs.md describes. Both are built and run; outputs
// (results, %T of results, and the trace lines of every traced element/filter/argument call) must be equal.
// The expansion printer is written from the documentation and does not consult package cl.
package main

import (
	"fmt"
	"regexp"
	"sort"
	"strings"

	"verif/engine"
	"verif/progs"
)

func genAll(thorough bool) ([]Case, map[string]int) {
	ex := map[string]int{}
	var all []Case
	// simplest first: literals, append, commands, for-in, 1-phrase then 2-phrase comprehensions
	all = append(all, genLiterals(thorough, ex)...)
	all = append(all, genDocs(thorough, ex)...)
	all = append(all, genAppend(thorough, ex)...)
	all = append(all, genCommand(thorough, ex)...)
	all = append(all, genForIn(thorough, ex)...)
	all = append(all, genComprehension1(thorough, ex)...)
	all = append(all, genComprehension2(thorough, ex)...)
	all = append(all, asOverloadArgument(all)...)
	return all, ex
}

var (
	reListComp = regexp.MustCompile(`(?m)^r := (\[.* for .*\])$`)
	reListType = regexp.MustCompile(`(?m)^var r (\[\].*)$`)
)

// asOverloadArgument derives, from every list-comprehension unit, a unit in which the comprehension is an
// argument of an overloaded function whose SECOND candidate matches: the compiler compiles the arguments once
// per candidate it tries, so the comprehension node is lowered twice. The function returns its argument; the
// documented expansion (and therefore the reference text) is unchanged.
func asOverloadArgument(cases []Case) []Case {
	var out []Case
	for _, k := range cases {
		if k.Family != "comprehension" || !strings.Contains(k.Class, "list-comprehension") {
			continue
		}
		mx, mt := reListComp.FindStringSubmatch(k.XGo), reListType.FindStringSubmatch(k.Go)
		if mx == nil || mt == nil || k.Decls != "" {
			continue
		}
		n := len(out)
		t := mt[1]
		// the candidates differ in the type of a callback: a lambda argument has to be compiled against each
		// candidate's parameter type, which is what makes the compiler lower all arguments again
		goDecls := fmt.Sprintf("func pickS%d(v %s, f func(string) string) %s { return v }\n\nfunc pickI%d(v %s, f func(int) int) %s { return v }\n", n, t, t, n, t, t)
		d := k
		d.ID = k.ID + "/as-argument-of-second-overload-candidate"
		d.Class = k.Class + "/overload-argument"
		d.XGo = strings.Replace(k.XGo, mx[0], fmt.Sprintf("r := pick%d(%s, q => q + 1)", n, mx[1]), 1)
		d.GoDecls = goDecls
		d.Decls = goDecls + fmt.Sprintf("\nfunc pick%d = (\n\tpickS%d\n\tpickI%d\n)\n", n, n, n)
		out = append(out, d)
	}
	return out
}

// units shown in the evidence file (besides the first unit of every other family)
var sampleIDs = map[string]bool{
	"comp1/list/i3/1var/filter=traced/elt=traced":              true,
	"comp2/list/i3-i3/inner=lt-outer/outer=gt1/elt=pair":       true,
	"comp2/select2/i3-i3/inner=traced/outer=traced/elt=traced": true,
}

func unitOf(k Case) progs.Unit {
	return progs.Unit{Key: k.Class, XGo: k.XGo, Go: k.Go, Want: k.Want, Decls: k.Decls, GoDecls: k.GoDecls}
}

var opts = progs.Options{Prelude: prelude, Imports: []string{"sort", "strconv"}, PerProgram: 200}

func detail(k Case, r progs.UnitResult) string {
	ref := k.Go
	if ref == "" {
		ref = "(expected output stated by the documentation)"
	}
	return fmt.Sprintf("unit %s\n--- XGo ---\n%s--- documented expansion ---\n%s--- want ---\n%s--- got ---\n%s", k.ID, k.XGo, ref, r.RefOut, r.Out)
}

// judge returns the failure of one unit, or nil; class is the outcome class for the histogram.
func judge(k Case, r progs.UnitResult) (f *engine.Failure, class string) {
	rejected := r.CompileErr != "" || r.BuildErr != ""
	if k.Tolerant && rejected {
		return nil, "undocumented_append_target_rejected(accepted_outcome)"
	}
	switch {
	case r.CompileErr != "":
		return &engine.Failure{Key: "does-not-compile:" + k.Class, What: "a documented use of the construct is rejected by the XGo compiler", Detail: r.CompileErr + "\n" + detail(k, r)}, "violation"
	case r.BuildErr != "":
		return &engine.Failure{Key: "generated-go-does-not-build:" + k.Class, What: "the Go code generated for a documented use of the construct does not build", Detail: r.BuildErr + "\n" + detail(k, r)}, "violation"
	case r.Out != r.RefOut:
		sym := "differs-from-expansion:"
		switch {
		case strings.Contains(r.Out, "PANIC:") && !strings.Contains(r.RefOut, "PANIC:"):
			sym = "panics-unlike-expansion:"
		case strings.Contains(r.Out, "<TIMEOUT>"):
			sym = "does-not-terminate:"
		case k.Tolerant:
			sym = "target-operand-not-evaluated-once:"
		}
		return &engine.Failure{Key: sym + k.Class, What: "the construct does not evaluate like its documented explicit Go expansion (values, order, multiplicity or filtering differ)", Detail: detail(k, r)}, "violation"
	}
	return nil, "equal_to_expansion"
}

func main() {
	c := engine.New("C02", "exploration")
	if c.IsReplay() {
		var k Case
		c.LoadReplay(&k)
		o := opts
		o.PerProgram = 1
		res, err := progs.RunUnits([]progs.Unit{unitOf(k)}, o)
		if err != nil {
			c.Fatal("%v", err)
		}
		if res[0].RefBuildErr != "" {
			c.Fatal("reference of %s does not build: %s", k.ID, res[0].RefBuildErr)
		}
		f, _ := judge(k, res[0])
		c.ReplayResult(f)
	}
	cases, excluded := genAll(c.Thorough())
	ids := map[string]bool{}
	for _, k := range cases {
		if ids[k.ID] {
			c.Fatal("duplicate unit id %s", k.ID)
		}
		ids[k.ID] = true
	}
	// tolerant units may legitimately fail to build: they get programs of their own
	var main, tol []int
	for i, k := range cases {
		if k.Tolerant {
			tol = append(tol, i)
		} else {
			main = append(main, i)
		}
	}
	results := make([]progs.UnitResult, len(cases))
	run := func(idx []int, o progs.Options) {
		if len(idx) == 0 {
			return
		}
		us := make([]progs.Unit, len(idx))
		for j, i := range idx {
			us[j] = unitOf(cases[i])
		}
		res, err := progs.RunUnits(us, o)
		if err != nil {
			c.Fatal("%v", err)
		}
		for j, i := range idx {
			results[i] = res[j]
		}
	}
	run(main, opts)
	o1 := opts
	o1.PerProgram = 1
	run(tol, o1)

	notRun := 0
	famCount := map[string]int{}
	for i, k := range cases {
		r := results[i]
		if r.RefBuildErr != "" {
			c.Fatal("harness bug: the reference expansion of %s does not build:\n%s\n%s", k.ID, r.RefBuildErr, k.Go)
		}
		if strings.Contains(r.RefOut, "%!") || (r.RefOut != "" && !strings.HasSuffix(r.RefOut, "\n")) || strings.Contains(r.RefOut, "<EXIT") {
			c.Fatal("harness bug: the reference of %s prints a malformed record: %q", k.ID, r.RefOut)
		}
		c.Eval(1)
		if k.Nontrivial {
			c.Nontrivial(k.ID)
		}
		c.Hist("family:"+k.Family, 1)
		famCount[k.Family]++
		if (famCount[k.Family] == 1 && k.Family != "comprehension") || sampleIDs[k.ID] {
			c.Sample(map[string]any{"id": k.ID, "xgo": k.XGo, "expansion": k.Go, "want": r.RefOut})
		}
		if !r.Ran && r.CompileErr == "" && r.BuildErr == "" {
			c.Hist("not_run_after_abnormal_end_of_an_earlier_unit", 1)
			notRun++
			continue
		}
		f, class := judge(k, r)
		c.Hist(class, 1)
		if f != nil {
			c.Violate(k, f)
		}
	}
	var exk []string
	for n := range excluded {
		exk = append(exk, n)
	}
	sort.Strings(exk)
	for _, n := range exk {
		c.Hist(n, int64(excluded[n]))
	}
	if notRun > 0 {
		c.Cap(fmt.Sprintf("%d units were queued behind a unit that ended abnormally and were not run", notRun))
	}
	c.Rule = "complete grid: containers ([]int {[],[1],[3,1,2],[1,3,5,7,11]}, []string {[],[a],[b,a,cc]}, map[string]int {{},{a:1},{a:1,b:2}}) x 1-/2-variable phrase x filters (none, x>1, x%2==0, false, traced, key filter) x element expressions (x, x*x, traced, [x,i], \"${x}\", key+x) x shapes (list, map with the element as key or as value, select 1-/2-value, exists); 2 for-phrases over all pairs of int containers x inner filter (none, a<b referring to the outer variable, a>1, traced) x outer filter (none, b>1, traced) x 5 element expressions, plus string x int pairs; append statements (4 targets x 4 initial slices x 11 value forms + fixed units incl. channel sends and undocumented targets); for-in (6 forms x containers x filters x 5 bodies); command-style calls (argument forms^arity for 1-3 arguments, methods, builtins, variadic, lambdas); the literal typing rows of docs.md x 2 contexts; the examples of docs.md with their printed outputs. quick drops the largest int container, [] of strings, some argument forms and some container pairs. distinct_nontrivial = units in which the loop body/element is evaluated at least once (all units of the non-loop families)"
	c.Assumptions = []string{
		"the reference of every unit is the explicit plain-Go loop/call emitted by this check's generator from doc/docs.md and README.md (last for-phrase outermost; the filter guards and precedes the element; select = first match, zero value and false when there is none; exists = any match; one loop variable = element/value, two = index/key and element; a <- v... = a = append(a, v...))",
		"the one-value select comprehension without a match yields the zero value (docs.md prints this for the two-value form only)",
		"iteration order over a map with >= 2 entries is unspecified: such units are generated only in order-insensitive form (sorted results, untraced, select with <= 1 match); the others are excluded and counted",
		"units whose loop variable would be unused are not generated (Go rejects them on both sides)",
		"append targets other than `a` and `s.f` (index, call result, nested field, dereference) are not documented: rejecting them is accepted; if accepted the target operand must be evaluated once",
		"`if` filters are generated for the `<-` form of the for statement only (docs.md documents them for that form); `{for x <- c}` without `if` is not generated",
		"programs are compiled in-process by parser+cl+gogen, built by the Go toolchain in a scratch module (go 1.23) and run with GOMAXPROCS=1",
	}
	c.Extra["bound"] = map[string]any{"units": len(cases), "for_phrases": "1..2", "largest_container": 5}
	c.Finish()
}

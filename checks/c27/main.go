// C27: compiling a TPL grammar never panics: every source yields a compiler or an error.
//
// Mode E (bounded-exhaustive), evaluated in engine.Job worker subprocesses so that a fatal
// stack overflow, os.Exit, runaway allocation or hang is attributed to one input.
//
//	lit    doc = '\xNN' and doc = "\xNN" for all 256 byte values, doc = <byte> for all 256 bytes
//	ops    every 2- and 3-byte string over {* + ? % | ( ) " ' ` = ; , \n space a 1}, as a whole
//	       source and as the body of `doc = ...`
//	toks   every sequence of 0..N tokens over a 19-token alphabet (rule syntax included)
//	body   doc = <every sequence of 1..N tokens over a 14-token body alphabet> followed by a rule
//	       `e = INT` (so references to doc and e resolve: recursion shapes reach the compiler)
//	menu   rule-shape menu: duplicate / undefined / unreachable rules, empty file, missing body,
//	       direct and mutual recursion, RetProc lambdas ...
//
// Each source goes through seven entry points (tpl.New and tpl.NewEx with conflicts shown and
// hidden; parser.ParseFile + cl.NewEx with nil and non-nil Config; parser with a RetProc parser
// + cl.New). Oracle: no panic / fatal error / hang, and err == nil implies a usable compiler
// (Doc != nil).
package main

import (
	"fmt"
	"strings"

	"github.com/goplus/xgo/tpl"
	"github.com/goplus/xgo/tpl/ast"
	"github.com/goplus/xgo/tpl/cl"
	"github.com/goplus/xgo/tpl/parser"
	"github.com/goplus/xgo/tpl/scanner"
	"github.com/goplus/xgo/tpl/token"
	"verif/engine"
)

type Case struct {
	Src string `json:"src"`
	EP  string `json:"ep"`
}

var eps = []string{"tpl.New", "tpl.New/conflicts-hidden", "tpl.NewEx", "tpl.NewEx/conflicts-hidden",
	"parser+cl.NewEx(nil)", "parser+cl.NewEx(conf)", "parser(retproc)+cl.New"}

type result struct {
	parsed   bool // parser accepted (cl entry points only)
	compiled bool
}

func eval(k Case) (*engine.Failure, result) {
	var res result
	var err error
	var doc any
	var haveDoc bool
	g := engine.Guard(func() {
		switch k.EP {
		case "tpl.New", "tpl.New/conflicts-hidden":
			tpl.ShowConflict(k.EP == "tpl.New")
			var c tpl.Compiler
			c, err = tpl.New(k.Src)
			doc, haveDoc = c.Doc, c.Doc != nil
		case "tpl.NewEx", "tpl.NewEx/conflicts-hidden":
			tpl.ShowConflict(k.EP == "tpl.NewEx")
			var c tpl.Compiler
			c, err = tpl.NewEx(k.Src, "g.tpl", 3, 5)
			doc, haveDoc = c.Doc, c.Doc != nil
		case "parser+cl.NewEx(nil)", "parser+cl.NewEx(conf)", "parser(retproc)+cl.New":
			fset := token.NewFileSet()
			var pconf *parser.Config
			if k.EP == "parser(retproc)+cl.New" {
				pconf = &parser.Config{ParseRetProc: func(file *token.File, src []byte, offset int) (ast.Node, scanner.ErrorList) {
					return nil, nil
				}}
			}
			var f *ast.File
			f, err = parser.ParseFile(fset, "g.tpl", k.Src, pconf)
			if err != nil {
				return
			}
			if f == nil {
				panic("verif: ParseFile returned nil file and nil error")
			}
			res.parsed = true
			var r cl.Result
			switch k.EP {
			case "parser+cl.NewEx(nil)":
				r, err = cl.NewEx(nil, fset, f)
			case "parser+cl.NewEx(conf)":
				conf := &cl.Config{RetProcs: map[string]any{"doc": func(v any) any { return v }},
					OnConflict: func(fset *token.FileSet, c *ast.Choice, firsts [][]any, i, at int) {
						_ = fmt.Sprint(fset.Position(c.Options[i].Pos()), firsts[i], firsts[at])
					}}
				r, err = cl.NewEx(conf, fset, f)
			default:
				r, err = cl.New(fset, f)
			}
			doc, haveDoc = r.Doc, r.Doc != nil
		default:
			panic("verif: unknown entry point " + k.EP)
		}
		if err != nil {
			_ = err.Error() // the error must be printable
		}
	})
	if g != nil {
		g.Detail = fmt.Sprintf("src=%q ep=%s\n%s", k.Src, k.EP, g.Detail)
		return g, res
	}
	if err == nil {
		if !haveDoc {
			return &engine.Failure{Key: "nil-compiler-without-error@" + k.EP, What: "nil error but the result has no root rule",
				Detail: fmt.Sprintf("src=%q ep=%s doc=%v", k.Src, k.EP, doc)}, res
		}
		res.compiled = true
	}
	return nil, res
}

var opAlpha = []string{"*", "+", "?", "%", "|", "(", ")", `"`, "'", "`", "=", ";", ",", "\n", " ", "a", "1"}

var tokAlpha = []string{"a", "doc", "=", ";", "|", "*", "+", "?", "%", "++", "(", ")", `"x"`, "'c'", "INT", "=>", "{", "}", "\n"}

var bodyAlpha = []string{"doc", "e", `"x"`, "'c'", "INT", `""`, "|", "*", "+", "?", "%", "++", "(", ")"}

// auxRules: the second rule of the body block. The first is valid; the others each fail to compile differently.
var auxRules = []string{"e = INT", "e = 'c'", `e = "=+"`, `e = ""`, "e = x", "e = e \"x\"", "e = doc", `e = ?"x"`}

var menu = []string{
	"", "\n", ";", "doc", "doc =", "doc = ;", "= \"a\"", "doc \"a\"", "doc = \"a\"", "doc = \"a\";", "doc = \"a\";;", "doc = \"a\" doc2 = \"b\"",
	"doc = \"a\"\ndoc = \"b\"", "doc = \"a\"\ndoc = \"b\"\ndoc = \"c\"", "doc = x\ndoc = \"b\"", // duplicates
	"doc = x", "doc = x y", "doc = x | y", "doc = *x", "doc = x % y", "doc = x ++ y", "doc = \"a\" x", // undefined
	"doc = \"a\"\nu = \"b\"", "doc = \"a\"\nu = u", "doc = \"a\"\nu = x", "doc = \"a\"\nu = u | \"b\"", // unreachable
	"doc = doc", "doc = doc doc", "doc = doc | doc", "doc = *doc", "doc = ?doc", "doc = +doc", "doc = doc % doc", "doc = doc ++ doc", // recursion a = a
	"doc = doc \"a\" | \"b\"", "doc = \"b\" | doc \"a\"", "doc = ?\"a\" doc | \"b\"", "doc = (doc | \"a\") \"b\"", "doc = \"a\" doc | \"b\"",
	"doc = e\ne = doc", "doc = e | \"a\"\ne = doc | \"b\"", "doc = e \"a\"\ne = doc \"b\" | INT", "doc = e\ne = f\nf = doc | \"x\"", "doc = *e | \"a\"\ne = ?doc", // mutual
	"doc = e | f\ne = f | \"a\"\nf = e | \"b\"", "doc = (e | \"a\") % (f | \",\")\ne = f\nf = e",
	"doc = \"a\" => { }", "doc = \"a\" => {", "doc = \"a\" => }", "doc = \"a\" =>", "doc = \"a\" => { { } }", "doc = \"a\" => { return self }\ne = INT => { x }", "doc = => { }",
	"doc = \"\"", "doc = \"\" | \"\"", "doc = *\"\"", "doc = \"\" ++ \"\"", "doc = ''", "doc = 'ab'", "doc = '\\''", "doc = '\\u00e9'", "doc = \"\\u00e9\"", "doc = \"é\"", "doc = 'é'",
	"doc = \"if\"", "doc = \"<<=\"", "doc = \"<<<\"", "doc = \"+ \"", "doc = \" \"", "doc = \"1\"", "doc = \"1a\"", "doc = \"_\"", "doc = `a`", "doc = `+`", "doc = ``", "doc = `\n`",
	"doc = EOF", "doc = COMMENT", "doc = IDENT", "doc = INT | FLOAT | IMAG | CHAR | STRING | RAT | UNIT", "doc = LPAREN RPAREN LBRACK RBRACK LBRACE RBRACE",
	"doc = RAWSTRING", "doc = QSTRING", "doc = SPACE", "doc = RAWSTRING | QSTRING | STRING", "doc = SPACE | SPACE", "doc = *SPACE", "doc = SPACE ++ SPACE",
	"INT = \"a\"", "SPACE = \"a\"\ndoc = SPACE", "doc = INT\nINT = doc", "_ = \"a\"", "doc = _",
	"doc = 1", "doc = 1.5", "doc = a.b", "doc = \"a\" // c\n", "doc = \"a\" /* c */ \"b\"", "doc = \"a\" /* c", "doc = \"a\" # c\n", "doc = \"a", "doc = 'a", "doc = `a",
	"doc = ()", "doc = (())", "doc = (", "doc = )", "doc = (\"a\"", "doc = \"a\")", "doc = |", "doc = \"a\" |", "doc = | \"a\"", "doc = \"a\" | | \"b\"",
	"doc = %", "doc = \"a\" %", "doc = % \"a\"", "doc = ++", "doc = \"a\" ++", "doc = ++ \"a\"", "doc = *", "doc = +", "doc = ?", "doc = * | \"a\"", "doc = (*) \"a\"",
	"doc = \"a\" % % \"b\"", "doc = \"a\" ++ ++ \"b\"", "doc = \"a\" +++ \"b\"", "doc = **\"a\"", "doc = \"a\" ** \"b\"", "doc = \"a\" ! \"b\"", "doc = \"a\" - \"b\"",
	"doc = \"a\"\n\n\ne = \"b\"\n", "doc = \"a\"\r\ne = \"b\"\r\n", "\ufeffdoc = \"a\"", "doc = \"a\"\x00", "\x00", "doc = \"a\" \xff",
}

func main() {
	c := engine.New("C27", "exploration")
	if c.IsReplay() {
		var k Case
		c.LoadReplay(&k)
		f, _ := eval(k)
		c.ReplayResult(f)
	}
	maxTok := 4
	if c.Thorough() {
		maxTok = 5
	}
	T := len(tokAlpha)
	B := len(bodyAlpha)
	nLit, nOps, nTok, nBody, nMenu := 3, len(opAlpha), 1+T*T, B*B, 1
	job := &engine.Job{NumBlocks: nLit + nOps + nTok + nBody + nMenu, ItemTimeout: 30e9, MemLimitMB: 1500}
	run := func(w *engine.W, src string) {
		reached := false
		for _, ep := range eps {
			k := Case{src, ep}
			if !w.Item(k) {
				continue
			}
			f, r := eval(k)
			if f != nil {
				w.Fail(k, f)
				w.Hist("violating:" + ep)
				continue
			}
			if ep == "parser+cl.NewEx(nil)" {
				switch {
				case r.compiled:
					w.Hist("compiled")
				case r.parsed:
					w.Hist("compile_error")
				default:
					w.Hist("parse_error")
				}
				reached = r.parsed
			}
		}
		if reached {
			w.Nontrivial()
		}
	}
	job.RunBlock = func(w *engine.W, b int) {
		switch {
		case b < nLit:
			for v := 0; v < 256; v++ {
				switch b {
				case 0:
					run(w, fmt.Sprintf("doc = '\\x%02x'", v))
				case 1:
					run(w, fmt.Sprintf("doc = \"\\x%02x\"", v))
				default:
					run(w, "doc = "+string([]byte{byte(v)}))
				}
			}
			if b == 0 {
				w.Sample(Case{"doc = '\\x9e'", "tpl.New"})
			}
		case b < nLit+nOps:
			first := opAlpha[b-nLit]
			for _, s2 := range opAlpha {
				run(w, first+s2)
				run(w, "doc = "+first+s2)
				for _, s3 := range opAlpha {
					run(w, first+s2+s3)
					run(w, "doc = "+first+s2+s3)
				}
			}
		case b < nLit+nOps+nTok:
			b -= nLit + nOps
			if b == 0 { // sequences of length 0 and 1
				run(w, "")
				for _, t := range tokAlpha {
					run(w, t)
				}
				return
			}
			b--
			parts := []string{tokAlpha[b/T], tokAlpha[b%T]}
			var rec func(parts []string)
			rec = func(parts []string) {
				run(w, strings.Join(parts, " "))
				if len(parts) == maxTok {
					return
				}
				for _, t := range tokAlpha {
					rec(append(parts, t))
				}
			}
			rec(parts)
			if b%60 == 0 {
				w.Sample(Case{strings.Join(append(parts, tokAlpha[(b*7)%T], tokAlpha[(b*11)%T]), " "), "tpl.NewEx"})
			}
		case b < nLit+nOps+nTok+nBody:
			b -= nLit + nOps + nTok
			// the second rule is valid (e = INT) or fails to compile in one of several ways: a reference to a
			// rule that could not be compiled must still end in an error, never in a panic
			for ai, aux := range auxRules {
				max := maxTok
				if ai > 0 {
					max = maxTok - 1
				}
				if b < B { // bodies of length 1
					run(w, "doc = "+bodyAlpha[b]+"\n"+aux)
					run(w, aux+"\ndoc = "+bodyAlpha[b])
				}
				var rec func(parts []string)
				rec = func(parts []string) {
					run(w, "doc = "+strings.Join(parts, " ")+"\n"+aux)
					if ai > 0 && len(parts) <= 3 {
						run(w, aux+"\ndoc = "+strings.Join(parts, " "))
					}
					if len(parts) >= max {
						return
					}
					for _, t := range bodyAlpha {
						rec(append(parts, t))
					}
				}
				rec([]string{bodyAlpha[b/B], bodyAlpha[b%B]})
			}
		default:
			for _, s := range menu {
				run(w, s)
			}
		}
	}
	job.Run(c)
	c.Rule = fmt.Sprintf("(lit) doc = '\\xNN', doc = \"\\xNN\" and doc = <raw byte NN> for all 256 NN; (ops) every 2- and 3-byte string over the %d-symbol operator alphabet %q, as whole source and as `doc = <s>`; (toks) every sequence of 0..%d tokens over the %d-token alphabet %q joined by blanks; (body) `doc = <s>` + newline + a second rule from {e = INT, e = 'c', e = \"=+\", e = \"\", e = x, e = e \"x\", e = doc, e = ?\"x\"} (one token shorter for the failing ones, both rule orders) for every sequence s of 1..%d tokens over %q; (menu) %d hand-written rule shapes (duplicate/undefined/unreachable rules, empty file, missing body, direct and mutual recursion, RetProc lambdas, literal and token-name edge cases); every source x %d entry points %q. distinct_nontrivial = sources accepted by tpl/parser (the compiler proper ran)",
		len(opAlpha), strings.Join(opAlpha, ""), maxTok, T, tokAlpha, maxTok, bodyAlpha, len(menu), len(eps), eps)
	c.Assumptions = []string{
		"a worker making no progress for 30 s on one source is a hang; heap above 1500 MB is an OOM verdict (both would be violations)",
		"tpl.New's variadic RetProc parameters are not varied (an odd count panics by documented contract)",
	}
	c.Extra["bound"] = map[string]any{"max_tokens": maxTok, "token_alphabet": T, "body_alphabet": B, "op_alphabet": len(opAlpha), "menu": len(menu), "entry_points": len(eps)}
	c.Finish()
}

package main

import (
	"fmt"
	"regexp"
	"strconv"
	"strings"
)

// ---- the grid: statement kinds x placement contexts x pads ----
//
// Template placeholders: `@` = unit number, `#k` = mark/entry id (unit*100+k).
// A template line ending in ` ~E#k` declares that the function literal starting on this line
// has entry id #k (used when the callf(...) that reports the entry is written elsewhere).

type kindT struct {
	Name   string
	Level  string   // "stmt": inside a function body; "pkg": package level
	Stmt   []string // the statement under test (its first call is mark*(#1) on its first line)
	Post   []string // lines after the statement (keep Go happy: use variables, drain channels)
	Driver []string // extra driver lines (package-level kinds)
	Go     bool     // the text is valid Go as written
	NoTop  bool     // cannot stand at the top level of a file (return)
	Why    string   // non-empty: observed but not judged, with the reason
	Class  string   // name used in violation keys when several kinds are one AST statement class
	After  []string // top-level declarations written after the unit function (forward references)
	NoRecv bool     // not placed in class files (the declarations of After would become methods)
}

type ctxT struct {
	Name   string
	Level  string   // "stmt" or "pkg"
	File   string   // main | n (second file, compiled after main.xgo) | Rect (class file)
	Fn     string   // func | method | classmethod | shadow | none
	Header []string // function header override (multi-line signature)
	Call   string   // driver call override
	Open   []string
	Close  []string
	Go     bool
}

func L(s ...string) []string { return s }

var kinds = []kindT{
	// ---- Go-compatible statement kinds ----
	{Name: "expr", Go: true, Stmt: L("mark(#1)")},
	{Name: "expr-trailing-comment", Go: true, Stmt: L("mark(#1) // t")},
	{Name: "assign", Go: true, Stmt: L("gi = mark(#1)")},
	{Name: "assign-pair", Go: true, Stmt: L("gi, gj = mark(#1), mark(#2)")},
	{Name: "define", Go: true, Stmt: L("x@ := mark(#1)"), Post: L("_ = x@")},
	{Name: "define-pair", Go: true, Stmt: L("x@, y@ := mark(#1), mark(#2)"), Post: L("_, _ = x@, y@")},
	{Name: "op-assign", Go: true, Stmt: L("gi += mark(#1)")},
	{Name: "incdec", Go: true, Stmt: L("ga[mark(#1)-#1]++")},
	{Name: "index-assign", Go: true, Stmt: L("ga[mark(#1)-#1] = 1")},
	{Name: "call-arg", Go: true, Stmt: L("take(mark(#1), 2)")},
	{Name: "call-nested", Go: true, Stmt: L("take(take(mark(#1)))")},
	{Name: "multiline-call", Go: true, Stmt: L("take(mark(#1),", "\t7,", "\t8)")},
	{Name: "multiline-call-trailing-comma", Go: true, Stmt: L("take(mark(#1),", "\t7,", ")")},
	{Name: "method-call", Go: true, Stmt: L("gt.id(mark(#1))")},
	{Name: "composite-arg", Go: true, Stmt: L("gs = []int{mark(#1), 2}")},
	{Name: "local-var", Class: "local-var-decl", Go: true, Stmt: L("var v@ = mark(#1)"), Post: L("_ = v@")},
	{Name: "local-var-typed", Class: "local-var-decl", Go: true, Stmt: L("var v@ int = mark(#1)"), Post: L("_ = v@")},
	{Name: "if-cond", Go: true, Stmt: L("if mark(#1) > 0 {", "\tnop()", "}")},
	{Name: "if-init", Go: true, Stmt: L("if v := mark(#1); v > 0 {", "\tnop()", "}")},
	{Name: "if-else-if", Go: true, Stmt: L("if mark(#1) < 0 {", "\tnop()", "} else if mark(#2) > 0 {", "\tmark(#3)", "}")},
	{Name: "if-chain", Go: true, Stmt: L("if mark(#1) < 0 {", "\tnop()", "} else if mark(#2) < 0 {", "\tnop()", "} else if mark(#3) > 0 {", "\tmark(#4)", "} else {", "\tnop()", "}")},
	{Name: "for-clause-init", Go: true, Stmt: L("for i := mark(#1) - #1; i < 1; i++ {", "\tnop()", "}")},
	{Name: "for-clause-cond", Go: true, Stmt: L("for i := 0; i < mark(#1)-#1+1; i++ {", "\tnop()", "}")},
	{Name: "for-clause-post", Go: true, Stmt: L("for i := 0; i < 1; i += mark(#1) {", "\tnop()", "}")},
	{Name: "for-cond", Go: true, Stmt: L("for mark(#1) < 0 {", "\tnop()", "}")},
	{Name: "for-range", Go: true, Stmt: L("for _, v := range markS(#1) {", "\t_ = v", "}")},
	{Name: "for-range-key", Go: true, Stmt: L("for k := range markS(#1) {", "\t_ = k", "}")},
	{Name: "for-range-assign", Go: true, Stmt: L("for gi = range markS(#1) {", "\tnop()", "}")},
	{Name: "for-range-novar", Go: true, Stmt: L("for range markS(#1) {", "\tnop()", "}")},
	{Name: "switch-tag", Go: true, Stmt: L("switch mark(#1) {", "case 0:", "\tnop()", "}")},
	{Name: "switch-init", Go: true, Stmt: L("switch v := mark(#1); v {", "case 0:", "\tnop()", "}")},
	{Name: "switch-case-expr", Go: true, Stmt: L("switch gone {", "case mark(#1) - #1 + 1:", "\tmark(#2)", "}")},
	{Name: "switch-case-expr-second", Go: true, Stmt: L("switch gone {", "case 5:", "\tnop()", "case mark(#1) - #1 + 1:", "\tmark(#2)", "}")},
	{Name: "switch-case-expr-gap", Go: true, Stmt: L("switch gone {", "", "// c", "case mark(#1) - #1 + 1:", "", "\tmark(#2)", "}")},
	{Name: "switch-case-list", Go: true, Stmt: L("switch gone {", "case mark(#1) - #1 + 7, mark(#2) - #2 + 1:", "\tmark(#3)", "}")},
	{Name: "switch-tagless", Go: true, Stmt: L("switch {", "case mark(#1) < 0:", "\tnop()", "case mark(#2) > 0:", "\tmark(#3)", "}")},
	{Name: "switch-default-body", Go: true, Stmt: L("switch gone {", "case 2:", "\tnop()", "default:", "\tmark(#1)", "}")},
	{Name: "switch-fallthrough", Go: true, Stmt: L("switch gone {", "case 1:", "\tmark(#1)", "\tfallthrough", "case 2:", "\tmark(#2)", "}")},
	{Name: "typeswitch", Go: true, Stmt: L("switch v := markI(#1).(type) {", "case int:", "\t_ = v", "\tmark(#2)", "}")},
	{Name: "typeswitch-novar", Go: true, Stmt: L("switch markI(#1).(type) {", "case string:", "\tnop()", "default:", "\tmark(#2)", "}")},
	{Name: "select-send", Go: true, Stmt: L("select {", "case gch <- mark(#1):", "\tmark(#2)", "default:", "\tnop()", "}"), Post: L("<-gch")},
	{Name: "select-recv", Go: true, Stmt: L("select {", "case v := <-markC(#1):", "\t_ = v", "\tmark(#2)", "}")},
	{Name: "select-default", Go: true, Stmt: L("select {", "case <-gch:", "\tnop()", "default:", "\tmark(#1)", "}")},
	{Name: "return", Go: true, NoTop: true, Stmt: L("return mark(#1)")},
	{Name: "return-expr", Go: true, NoTop: true, Stmt: L("return take(mark(#1))")},
	{Name: "send", Go: true, Stmt: L("gch <- mark(#1)"), Post: L("<-gch")},
	{Name: "recv", Go: true, Stmt: L("<-markC(#1)")},
	{Name: "recv-define", Go: true, Stmt: L("v@ := <-markC(#1)"), Post: L("_ = v@")},
	{Name: "defer-arg", Go: true, Stmt: L("defer take(mark(#1))")},
	{Name: "go-arg", Go: true, Stmt: L("go take(mark(#1))")},
	{Name: "labeled-for", Go: true, Stmt: L("L@:", "\tfor i := mark(#1) - #1; i < 1; i++ {", "\t\tcontinue L@", "\t}")},
	{Name: "labeled-same-line", Go: true, Stmt: L("L@: for i := mark(#1) - #1; i < 1; i++ {", "\t\tcontinue L@", "\t}")},
	// a label on its own line in front of every statement class whose header can carry a call (the labeled
	// statement must get its own directive, not the label's); plain statements are goto targets
	{Name: "labeled-for-cond", Class: "labeled", Go: true, Stmt: L("L@:", "\tfor mark(#1) < 0 {", "\t\tbreak L@", "\t}")},
	{Name: "labeled-for-range", Class: "labeled", Go: true, Stmt: L("L@:", "\tfor _, v := range markS(#1) {", "\t\t_ = v", "\t\tcontinue L@", "\t}")},
	{Name: "labeled-for-clause-cond", Class: "labeled", Go: true, Stmt: L("L@:", "\tfor ; mark(#1) < 0; {", "\t\tbreak L@", "\t}")},
	{Name: "labeled-switch", Class: "labeled", Go: true, Stmt: L("L@:", "\tswitch mark(#1) {", "\tcase 0:", "\t\tbreak L@", "\t}")},
	{Name: "labeled-typeswitch", Class: "labeled", Go: true, Stmt: L("L@:", "\tswitch markI(#1).(type) {", "\tcase int:", "\t\tbreak L@", "\t}")},
	{Name: "labeled-select", Class: "labeled", Go: true, Stmt: L("L@:", "\tselect {", "\tcase v := <-markC(#1):", "\t\t_ = v", "\t\tbreak L@", "\t}")},
	{Name: "labeled-expr-goto", Class: "labeled", Go: true, Stmt: L("if gone != 1 {", "\tgoto L@", "}", "L@:", "\tmark(#1)")},
	{Name: "labeled-assign-goto", Class: "labeled", Go: true, Stmt: L("if gone != 1 {", "\tgoto L@", "}", "L@:", "\tgi = mark(#1)")},
	{Name: "labeled-if-goto", Class: "labeled", Go: true, Stmt: L("if gone != 1 {", "\tgoto L@", "}", "L@:", "\tif mark(#1) > 0 {", "\t\tnop()", "\t}")},
	{Name: "labeled-block-goto", Class: "labeled", Go: true, Stmt: L("if gone != 1 {", "\tgoto L@", "}", "L@:", "\t{", "\t\tmark(#1)", "\t}")},
	{Name: "labeled-for-cond-gap", Class: "labeled", Go: true, Stmt: L("L@:", "", "\t// c", "\tfor mark(#1) < 0 {", "\t\tbreak L@", "\t}")},
	{Name: "labeled-twice", Class: "labeled", Go: true, Stmt: L("if gone != 1 {", "\tgoto L@", "}", "L@:", "M@:", "\tfor mark(#1) < 0 {", "\t\tbreak M@", "\t}")},
	{Name: "labeled-same-line-for-cond", Class: "labeled", Go: true, Stmt: L("L@: for mark(#1) < 0 {", "\t\tbreak L@", "\t}")},
	{Name: "block-stmt", Go: true, Stmt: L("{", "\tmark(#1)", "}")},
	{Name: "closure-call", Go: true, Stmt: L("func() {", "\tmark(#1)", "}()")},
	{Name: "closure-value", Go: true, Stmt: L("callf(#9, func() int {", "\treturn mark(#1)", "})")},
	{Name: "closure-one-line", Go: true, Stmt: L("callf(#9, func() int { return mark(#1) })")},
	{Name: "closure-assigned", Go: true, Stmt: L("f@ := func() int { ~E#9", "\tmark(#1)", "\treturn 0", "}"), Post: L("callf(#9, f@)")},
	{Name: "closure-nested", Go: true, Stmt: L("callf(#9, func() int {", "\treturn callf(#8, func() int {", "\t\treturn mark(#1)", "\t})", "})")},

	// forward references: the statement is the first reference to a function / variable declared later
	{Name: "forward-call", Class: "forward-function-reference", Go: true, Stmt: L("fwd@(#1)"), After: L("func fwd@(id int) int {", "\tnop()", "\treturn up(id)", "}")},
	{Name: "forward-call-arg", Class: "forward-function-reference", Go: true, Stmt: L("take(fwd@(#1))"), After: L("func fwd@(id int) int {", "\tnop()", "\treturn up(id)", "}")},
	{Name: "forward-func-value", Class: "forward-function-reference", Go: true, NoRecv: true, Stmt: L("gi = mark(#1) + callg(#9, ff@)"), After: L("func ff@() int { ~E#9", "\treturn mark(#2)", "}")},
	{Name: "forward-var", Go: true, NoRecv: true, Stmt: L("gi = mark(#1) + fv@"), After: L("var fv@ = take(1)")},
	{Name: "forward-var-closure", Go: true, NoRecv: true, Stmt: L("gi = mark(#1) + fvc@()"), After: L("var fvc@ = func() int {", "\tnop()", "\treturn mark(#2)", "}")},

	// ---- XGo-only statement kinds ----
	{Name: "command", Stmt: L("mark #1")},
	{Name: "command-args", Stmt: L("take mark(#1), 2")},
	{Name: "command-multiline", Stmt: L("take mark(#1),", "\t2,", "\t3")},
	{Name: "command-method", Stmt: L("gt.id mark(#1)")},
	{Name: "echo", Stmt: L("echo mark(#1)")},
	{Name: "append-send", Stmt: L("gs <- mark(#1)")},
	{Name: "forphrase", Stmt: L("for v <- markS(#1) {", "\t_ = v", "}")},
	{Name: "forphrase-kv", Stmt: L("for k, v <- markS(#1) {", "\t_, _ = k, v", "}")},
	{Name: "forphrase-cond", Stmt: L("for v <- markS(#1) if v > 0 {", "\tmark(#2)", "}")},
	{Name: "forphrase-cond-mark", Stmt: L("for v <- gone1 if mark(#1) > 0 {", "\t_ = v", "}")},
	{Name: "for-in", Stmt: L("for v in markS(#1) {", "\t_ = v", "}")},
	{Name: "labeled-forphrase", Class: "labeled", Stmt: L("L@:", "\tfor v <- markS(#1) {", "\t\t_ = v", "\t\tcontinue L@", "\t}")},
	{Name: "labeled-forphrase-cond", Class: "labeled", Stmt: L("L@:", "\tfor v <- markS(#1) if v > 0 {", "\t\tmark(#2)", "\t\tcontinue L@", "\t}")},
	{Name: "labeled-for-in", Class: "labeled", Stmt: L("L@:", "\tfor v in markS(#1) {", "\t\t_ = v", "\t\tcontinue L@", "\t}")},
	{Name: "labeled-range-expr", Class: "labeled", Stmt: L("L@:", "\tfor i <- mark(#1)-#1:1 {", "\t\t_ = i", "\t\tcontinue L@", "\t}")},
	{Name: "labeled-command-goto", Class: "labeled", Stmt: L("if gone != 1 {", "\tgoto L@", "}", "L@:", "\tmark #1")},
	{Name: "labeled-listcomp-goto", Class: "labeled", Stmt: L("if gone != 1 {", "\tgoto L@", "}", "L@:", "\tgs = [mark(#1)+v for v <- gone1]")},
	{Name: "range-expr-phrase", Stmt: L("for i <- mark(#1)-#1:1 {", "\t_ = i", "}")},
	{Name: "range-expr-range", Stmt: L("for i := range mark(#1)-#1:1 {", "\t_ = i", "}")},
	{Name: "range-expr-end", Stmt: L("for i <- 0:mark(#1)-#1+1 {", "\t_ = i", "}")},
	{Name: "listcomp", Stmt: L("gs = [mark(#1)+v for v <- gone1]")},
	{Name: "listcomp-cond", Stmt: L("gs = [v for v <- gone1 if mark(#1) > 0]")},
	{Name: "listcomp-src", Stmt: L("gs = [v for v <- markS(#1)]")},
	{Name: "listcomp-nested", Stmt: L("gs = [mark(#1)+v+w for v <- gone1 for w <- gone1]")},
	{Name: "mapcomp", Stmt: L("gm = {v: mark(#1) for v <- gone1}")},
	{Name: "selectcomp", Stmt: L("gi = {mark(#1)+v for v <- gone1 if v > 0}")},
	{Name: "existscomp", Stmt: L("gb = {for v <- gone1 if mark(#1) > v}")},
	{Name: "lambda", Stmt: L("callf(#9, () => mark(#1))")},
	{Name: "lambda-block", Stmt: L("callf(#9, () => {", "\treturn mark(#1)", "})")},
	{Name: "lambda-arg", Stmt: L("callf1(#9, x => mark(#1) + x)")},
	{Name: "lambda-block-two-stmts", Stmt: L("callf1(#9, x => {", "\tmark(#1)", "\treturn mark(#2) + x", "})")},
	{Name: "lambda-in-lambda", Stmt: L("callf(#9, () => callf(#8, () => mark(#1)))")},
	{Name: "errwrap-panic", Stmt: L("markE(#1)!")},
	{Name: "errwrap-panic-value", Stmt: L("gi = markIE(#1)!")},
	{Name: "errwrap-default", Stmt: L("gi = markIE(#1)?:5")},
	{Name: "string-interpolation", Stmt: L("gstr = \"a${mark(#1)}b\"")},

	// ---- observed, not judged: the first call is not on the statement's first line, or Go itself
	// attributes the call elsewhere ----
	{Name: "x-call-arg-on-second-line", Go: true, Why: "first call is not on the statement's first line", Stmt: L("take(", "\tmark(#1),", "\t2)")},
	{Name: "x-composite-multiline", Go: true, Why: "first call is not on the statement's first line", Stmt: L("gs = []int{", "\tmark(#1),", "\tmark(#2),", "}")},
	{Name: "x-chain-multiline", Go: true, Why: "calls of a chain continue on later lines", Stmt: L("gt.", "\tself(mark(#1)).", "\tself(mark(#2))")},
	{Name: "x-local-var-group", Go: true, Why: "first call is not on the statement's first line", Stmt: L("var (", "\tv@ = mark(#1)", ")"), Post: L("_ = v@")},
	{Name: "x-defer-call", Go: true, Why: "Go attributes a deferred call to the end of the function", Stmt: L("defer mark(#1)")},

	// ---- package level ----
	{Name: "pkgvar", Level: "pkg", Go: true, Stmt: L("var gv@ = mark(#1)")},
	{Name: "pkgvar-typed", Level: "pkg", Go: true, Stmt: L("var gv@ int = mark(#1)")},
	{Name: "pkgvar-pair", Level: "pkg", Go: true, Stmt: L("var gv@, gw@ = mark(#1), mark(#2)")},
	{Name: "pkgvar-closure", Level: "pkg", Go: true, Stmt: L("var gf@ = func() int { ~E#9", "\treturn mark(#1)", "}"), Driver: L("callf(#9, gf@)")},
	{Name: "x-pkgvar-group", Level: "pkg", Go: true, Why: "first call is not on the declaration's first line", Stmt: L("var (", "\tgv@ = mark(#1)", ")")},
}

var contexts = []ctxT{
	{Name: "top", Go: true, File: "main", Fn: "func"},
	{Name: "after-stmt", Go: true, File: "main", Fn: "func", Open: L("nop()")},
	{Name: "if-body", Go: true, File: "main", Fn: "func", Open: L("if gone == 1 {"), Close: L("}")},
	{Name: "else-body", Go: true, File: "main", Fn: "func", Open: L("if gone != 1 {", "\tnop()", "} else {"), Close: L("}")},
	{Name: "else-if-body", Go: true, File: "main", Fn: "func", Open: L("if gone != 1 {", "\tnop()", "} else if gone == 1 {"), Close: L("}")},
	{Name: "for-body", Go: true, File: "main", Fn: "func", Open: L("for ci := 0; ci < 1; ci++ {"), Close: L("}")},
	{Name: "range-body", Go: true, File: "main", Fn: "func", Open: L("for _, cv := range gone1 {", "\t_ = cv"), Close: L("}")},
	{Name: "switch-case-body", Go: true, File: "main", Fn: "func", Open: L("switch gone {", "case 1:"), Close: L("}")},
	{Name: "switch-default-body", Go: true, File: "main", Fn: "func", Open: L("switch gone {", "case 2:", "\tnop()", "default:"), Close: L("}")},
	{Name: "typeswitch-case-body", Go: true, File: "main", Fn: "func", Open: L("switch gany.(type) {", "case int:"), Close: L("}")},
	{Name: "select-case-body", Go: true, File: "main", Fn: "func", Open: L("gch2 <- 1", "select {", "case cv := <-gch2:", "\t_ = cv"), Close: L("}")},
	{Name: "select-default-body", Go: true, File: "main", Fn: "func", Open: L("select {", "case <-gch2:", "\tnop()", "default:"), Close: L("}")},
	{Name: "block-body", Go: true, File: "main", Fn: "func", Open: L("{"), Close: L("}")},
	{Name: "closure-body", Go: true, File: "main", Fn: "func", Open: L("callf(#98, func() int {"), Close: L("\treturn 0", "})")},
	{Name: "nested-body", Go: true, File: "main", Fn: "func", Open: L("for ci := 0; ci < 1; ci++ {", "\tif gone == 1 {", "\t\tswitch gone {", "\t\tcase 1:"), Close: L("\t\t}", "\t}", "}")},
	{Name: "method", Go: true, File: "main", Fn: "method"},
	{Name: "second-file", Go: true, File: "n", Fn: "func"},
	{Name: "second-file-method-if-body", Go: true, File: "n", Fn: "method", Open: L("if gone == 1 {"), Close: L("}")},
	{Name: "multiline-signature", Go: true, File: "main", Fn: "func", Header: L("func u@(", "\ta int,", ") int {"), Call: "u@(0)"},
	{Name: "forphrase-body", File: "main", Fn: "func", Open: L("for cv <- gone1 {", "\t_ = cv"), Close: L("}")},
	{Name: "forphrase-cond-body", File: "main", Fn: "func", Open: L("for cv <- gone1 if cv > 0 {"), Close: L("}")},
	{Name: "range-expr-body", File: "main", Fn: "func", Open: L("for ci <- :1 {", "\t_ = ci"), Close: L("}")},
	{Name: "lambda-body", File: "main", Fn: "func", Open: L("callf(#98, () => {"), Close: L("\treturn 0", "})")},
	{Name: "classfile-method", File: "Rect", Fn: "classmethod"},
	{Name: "classfile-method-for-body", File: "Rect", Fn: "classmethod", Open: L("for ci := 0; ci < 1; ci++ {"), Close: L("}")},
	{Name: "shadow-main", File: "main", Fn: "shadow"},
	{Name: "shadow-main-if-body", File: "main", Fn: "shadow", Open: L("if gone == 1 {"), Close: L("}")},
	{Name: "pkg-main", Level: "pkg", Go: true, File: "main", Fn: "none"},
	{Name: "pkg-second-file", Level: "pkg", Go: true, File: "n", Fn: "none"},
}

type padT struct {
	Name  string
	Lines []string
	Class string // name used in violation keys
}

var pads = []padT{
	{"none", nil, "none"},
	{"blank1", L(""), "blank-lines"},
	{"blank2", L("", ""), "blank-lines"},
	{"line-comment1", L("// c"), "line-comment"},
	{"line-comment2", L("// c", "// d"), "line-comment"},
	{"block-comment1", L("/* c */"), "block-comment"},
	{"block-comment2", L("/* c", "d */"), "block-comment"},
	{"line-comment-then-blank", L("// c", ""), "detached-line-comment"},
}

func kindByName(n string) *kindT {
	for i := range kinds {
		if kinds[i].Name == n {
			return &kinds[i]
		}
	}
	return nil
}

func ctxByName(n string) *ctxT {
	for i := range contexts {
		if contexts[i].Name == n {
			return &contexts[i]
		}
	}
	return nil
}

func padByName(n string) *padT {
	for i := range pads {
		if pads[i].Name == n {
			return &pads[i]
		}
	}
	return nil
}

func level(s string) string {
	if s == "" {
		return "stmt"
	}
	return s
}

// compatible reports whether the (kind, context) pair is generated at all.
func compatible(k *kindT, x *ctxT) bool {
	if level(k.Level) != level(x.Level) {
		return false
	}
	if k.NoTop && x.Fn == "shadow" {
		return false // a return with an operand cannot stand in main
	}
	if len(k.After) > 0 && x.Fn == "shadow" {
		return false // declarations cannot follow the top-level statements of a file
	}
	if k.NoRecv && x.Fn == "classmethod" {
		return false
	}
	return true
}

// ---- program assembly ----

const prelude = `package main

import (
	"fmt"
	"reflect"
	"runtime"
)

func mark(id int) int {
	_, file, line, _ := runtime.Caller(1)
	fmt.Printf("M%d %s:%d\n", id, file, line)
	return id
}

func markS(id int) []int {
	_, file, line, _ := runtime.Caller(1)
	fmt.Printf("M%d %s:%d\n", id, file, line)
	return []int{1}
}

func markI(id int) interface{} {
	_, file, line, _ := runtime.Caller(1)
	fmt.Printf("M%d %s:%d\n", id, file, line)
	return id
}

func markC(id int) chan int {
	_, file, line, _ := runtime.Caller(1)
	fmt.Printf("M%d %s:%d\n", id, file, line)
	c := make(chan int, 1)
	c <- 1
	return c
}

func markE(id int) error {
	_, file, line, _ := runtime.Caller(1)
	fmt.Printf("M%d %s:%d\n", id, file, line)
	return nil
}

func markIE(id int) (int, error) {
	_, file, line, _ := runtime.Caller(1)
	fmt.Printf("M%d %s:%d\n", id, file, line)
	return id, nil
}

func entry(id int, f interface{}) {
	fn := runtime.FuncForPC(reflect.ValueOf(f).Pointer())
	file, line := fn.FileLine(fn.Entry())
	fmt.Printf("E%d %s:%d\n", id, file, line)
}

func callf(id int, f func() int) int {
	entry(id, f)
	return f()
}

func callg(id int, f func() int) int {
	entry(id, f)
	return f()
}

func up(id int) int {
	_, file, line, _ := runtime.Caller(2)
	fmt.Printf("M%d %s:%d\n", id, file, line)
	return id
}

func callf1(id int, f func(int) int) int {
	entry(id, f)
	return f(1)
}

func take(a ...int) int {
	return len(a)
}

func nop() {
}

type GT struct {
}

func (GT) id(a ...int) int {
	return 0
}

func (g GT) self(a int) GT {
	return g
}

var gt GT
var gi, gj int
var ga [2]int
var gs []int
var gm map[int]int
var gb bool
var gstr string
var gch = make(chan int, 1)
var gch2 = make(chan int, 1)
var gone = 1
var gone1 = []int{1}
var gany interface{} = 1
`

type expect struct {
	Key    string // M<id> or E<id>
	File   string // main | n | Rect
	Line   int
	Role   string // stmt | closure-entry | func-entry
	Judged bool
}

type unit struct {
	P     *program
	N     int
	Kind  string
	Ctx   string
	Pad   string
	Go    bool
	Exp   []*expect
	File  string
	Start int // first line of the unit in File (1-based)
	End   int
}

type spec struct{ Kind, Ctx, Pad string }

type program struct {
	Name    string
	XGo     map[string]string // main.xgo, n.xgo, Rect.gox
	GoRef   map[string]string // main.go, n.go (empty when no unit is Go compatible)
	Units   []*unit
	byKey   map[string]*unit
	expects map[string]*expect
	lines   map[string][]string // XGo text per logical file, for details
}

type fileB struct {
	name  string
	lines []string
	goL   []string // Go reference rendering (XGo-only units blanked)
}

func (f *fileB) add(line string, goOK bool) int {
	f.lines = append(f.lines, line)
	if goOK {
		f.goL = append(f.goL, line)
	} else {
		f.goL = append(f.goL, "")
	}
	return len(f.lines)
}

var (
	reMark  = regexp.MustCompile(`\b(?:mark[A-Z]*|fwd\d+)[ (](\d+)`)
	reCallf = regexp.MustCompile(`\bcallf1?\((\d+),`)
	reAnnot = regexp.MustCompile(` ~E(\d+)$`)
	reID    = regexp.MustCompile(`#(\d+)`)
)

func subst(line string, n int) string {
	line = reID.ReplaceAllStringFunc(line, func(m string) string {
		k, _ := strconv.Atoi(m[1:])
		return strconv.Itoa(n*100 + k)
	})
	return strings.ReplaceAll(line, "@", strconv.Itoa(n))
}

// assemble builds one program from the given (kind, context, pad) triples.
func assemble(name string, specs []spec) *program {
	p := &program{Name: name, XGo: map[string]string{}, GoRef: map[string]string{}, byKey: map[string]*unit{}, expects: map[string]*expect{}, lines: map[string][]string{}}
	files := map[string]*fileB{"main": {name: "main"}, "n": {name: "n"}, "Rect": {name: "Rect"}}
	for _, l := range strings.Split(strings.TrimRight(prelude, "\n"), "\n") {
		files["main"].add(l, true)
	}
	files["main"].add("", true)
	files["n"].add("package main", true)
	files["n"].add("", true)
	var driverX, driverG []string // shadow main body (XGo) and func main body (Go)
	type shadowU struct {
		u     *unit
		k     *kindT
		x     *ctxT
		pd    *padT
		lines []string
	}
	var shadows []shadowU
	anyGo := false
	for i, sp := range specs {
		k, x, pd := kindByName(sp.Kind), ctxByName(sp.Ctx), padByName(sp.Pad)
		n := i + 1
		u := &unit{P: p, N: n, Kind: k.Name, Ctx: x.Name, Pad: pd.Name, Go: k.Go && x.Go, File: x.File}
		p.Units = append(p.Units, u)
		if u.Go {
			anyGo = true
		}
		if x.Fn == "shadow" {
			shadows = append(shadows, shadowU{u: u, k: k, x: x, pd: pd})
			continue
		}
		f := files[x.File]
		judged := k.Why == ""
		reg := func(key string, line int, role string, j bool) {
			if _, dup := p.expects[key]; dup {
				return
			}
			e := &expect{Key: key, File: f.name, Line: line, Role: role, Judged: j}
			p.expects[key] = e
			p.byKey[key] = u
			u.Exp = append(u.Exp, e)
		}
		pkgFirst := false // the first line of a package-level declaration: no statement, role pkgvar-init
		emit := func(tmpl string, isStmt bool) {
			line := subst(tmpl, n)
			annot := ""
			if m := reAnnot.FindStringSubmatch(line); m != nil {
				annot = m[1]
				line = reAnnot.ReplaceAllString(line, "")
			}
			ln := f.add(line, u.Go)
			if u.Start == 0 {
				u.Start = ln
			}
			u.End = ln
			rs, re := "stmt", "closure-entry"
			if pkgFirst {
				rs, re = "pkgvar-init", "pkgvar-init"
			}
			if annot != "" {
				reg("E"+annot, ln, re, judged || !isStmt)
			}
			for _, m := range reMark.FindAllStringSubmatch(line, -1) {
				reg("M"+m[1], ln, rs, judged || !isStmt)
			}
			for _, m := range reCallf.FindAllStringSubmatch(line, -1) {
				reg("E"+m[1], ln, re, judged || !isStmt)
			}
		}
		// pad before the declaration (a doc comment when it is a comment directly above)
		for _, l := range pd.Lines {
			emit(l, false)
		}
		if level(k.Level) == "pkg" {
			for j, l := range k.Stmt {
				pkgFirst = j == 0
				emit(l, true)
			}
			pkgFirst = false
			f.add("", true)
			for _, l := range k.Driver {
				d := subst(l, n)
				driverX = append(driverX, d)
				if u.Go {
					driverG = append(driverG, d)
				}
			}
			continue
		}
		var hdr []string
		var call, ent string
		switch x.Fn {
		case "func":
			hdr = L("func u@() int {")
			call, ent = "u@()", "u@"
		case "method":
			hdr = L("func (p *T@) u@() int {")
			call, ent = "(&T@{}).u@()", "(*T@).u@"
		case "classmethod":
			hdr = L("func u@() int {")
			call, ent = "new(Rect).u@()", "(*Rect).u@"
		}
		if x.Header != nil {
			hdr = x.Header
		}
		if x.Call != "" {
			call = x.Call
		}
		for j, l := range hdr {
			emit(l, false)
			if j == 0 {
				reg(fmt.Sprintf("E%d", n*100), u.End, "func-entry", true)
			}
		}
		for _, l := range x.Open {
			emit("\t"+l, false)
		}
		for _, l := range pd.Lines {
			emit(tabIf(l), false)
		}
		for _, l := range k.Stmt {
			emit("\t"+l, true)
		}
		for _, l := range k.Post {
			emit("\t"+l, false)
		}
		for _, l := range x.Close {
			emit("\t"+l, false)
		}
		emit("\treturn 0", false)
		emit("}", false)
		if x.Fn == "method" {
			emit("", false)
			emit("type T@ struct {", false)
			emit("}", false)
		}
		if len(k.After) > 0 {
			emit("", false)
			for _, l := range k.After {
				emit(l, true)
			}
		}
		f.add("", true)
		d1, d2 := subst("entry(#0, "+ent+")", n), subst(call, n)
		driverX = append(driverX, d1, d2)
		if u.Go {
			driverG = append(driverG, d1, d2)
		}
	}
	// the driver: top-level statements in XGo (shadow main), func main in the Go reference.
	m := files["main"]
	for _, d := range driverX {
		m.lines = append(m.lines, d)
	}
	for _, s := range shadows {
		u, k, x, pd := s.u, s.k, s.x, s.pd
		judged := k.Why == ""
		reg := func(key string, line int, role string, j bool) {
			if _, dup := p.expects[key]; dup {
				return
			}
			e := &expect{Key: key, File: "main", Line: line, Role: role, Judged: j}
			p.expects[key] = e
			p.byKey[key] = u
			u.Exp = append(u.Exp, e)
		}
		emit := func(tmpl string, isStmt bool) {
			line := subst(tmpl, u.N)
			annot := ""
			if mm := reAnnot.FindStringSubmatch(line); mm != nil {
				annot = mm[1]
				line = reAnnot.ReplaceAllString(line, "")
			}
			m.lines = append(m.lines, line)
			ln := len(m.lines)
			if u.Start == 0 {
				u.Start = ln
			}
			u.End = ln
			if annot != "" {
				reg("E"+annot, ln, "closure-entry", judged || !isStmt)
			}
			for _, mm := range reMark.FindAllStringSubmatch(line, -1) {
				reg("M"+mm[1], ln, "stmt", judged || !isStmt)
			}
			for _, mm := range reCallf.FindAllStringSubmatch(line, -1) {
				reg("E"+mm[1], ln, "closure-entry", judged || !isStmt)
			}
		}
		for _, l := range x.Open {
			emit(l, false)
		}
		for _, l := range pd.Lines {
			emit(l, false)
		}
		for _, l := range k.Stmt {
			emit(l, true)
		}
		for _, l := range k.Post {
			emit(l, false)
		}
		for _, l := range x.Close {
			emit(l, false)
		}
	}
	m.goL = append(m.goL, "func main() {")
	for _, d := range driverG {
		m.goL = append(m.goL, "\t"+d)
	}
	m.goL = append(m.goL, "}")
	hasUnits := map[string]bool{}
	for _, u := range p.Units {
		hasUnits[u.File] = true
	}
	p.XGo["main.xgo"] = strings.Join(m.lines, "\n") + "\n"
	p.lines["main"] = m.lines
	if hasUnits["n"] {
		p.XGo["n.xgo"] = strings.Join(files["n"].lines, "\n") + "\n"
		p.lines["n"] = files["n"].lines
	}
	if hasUnits["Rect"] {
		p.XGo["Rect.gox"] = strings.Join(files["Rect"].lines, "\n") + "\n"
		p.lines["Rect"] = files["Rect"].lines
	}
	if anyGo {
		p.GoRef["main.go"] = strings.Join(m.goL, "\n") + "\n"
		if hasUnits["n"] {
			p.GoRef["n.go"] = strings.Join(files["n"].goL, "\n") + "\n"
		}
	}
	return p
}

func tabIf(l string) string {
	if l == "" {
		return l
	}
	return "\t" + l
}

// listing renders the unit's source lines with their line numbers.
func (p *program) listing(u *unit) string {
	var sb strings.Builder
	ext := fileExt[u.File]
	ls := p.lines[u.File]
	for i := u.Start; i <= u.End && i <= len(ls); i++ {
		fmt.Fprintf(&sb, "%s:%d\t%s\n", ext, i, ls[i-1])
	}
	return sb.String()
}

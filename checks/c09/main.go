// C09: line directives map every statement back to its XGo source line.
//
// Bounded-exhaustive grid: statement kind x placement context x pad (blank/comment lines in front) x
// compiler configuration. Every statement under test is written so that its first call is mark(id) on
// the statement's first line; mark prints runtime.Caller(1). Function and closure entries are read with
// runtime.FuncForPC(reflect.ValueOf(f).Pointer()).FileLine(entry). The generator records the (file, line)
// where it writes each mark / func line, so the expected output is known without a reference compiler;
// for Go-compatible units the same text is additionally built as .go by the Go toolchain, and a construct
// whose position Go itself reports elsewhere is excluded and counted instead of judged.
package main

import (
	"bytes"
	"fmt"
	"path"
	"path/filepath"
	"regexp"
	"sort"
	"strconv"
	"strings"
	"time"

	"github.com/goplus/gogen/packages"
	"github.com/goplus/xgo/cl"
	"github.com/goplus/xgo/parser"
	"github.com/goplus/xgo/parser/fsx/memfs"
	"github.com/goplus/xgo/token"
	"github.com/goplus/xgo/x/build"

	"verif/engine"
	"verif/progs"
)

// ---- compiler configurations ----

type confT struct {
	Name    string
	Tool    bool   // parser mode of the xgo command (ParseComments|SaveAbsFile) instead of x/build's
	RelBase string // cl.Config.RelativeBase ("" = unset)
}

var confs = []confT{
	{"build-abs", false, ""},
	{"build-rel", false, "/vprog"},
	{"tool-rel", true, "/"},
	{"tool-abs", true, ""},
}

func confByName(n string) *confT {
	for i := range confs {
		if confs[i].Name == n {
			return &confs[i]
		}
	}
	return nil
}

var fileExt = map[string]string{"main": "main.xgo", "n": "n.xgo", "Rect": "Rect.gox"}

// wantFile is the file name the directive must carry: the memfs path of the source file, made
// relative to RelativeBase when that is set (cl/stmt.go fileLineFile).
func wantFile(cf *confT, logical string) string {
	fn := fileExt[logical]
	switch cf.RelBase {
	case "":
		return "/vprog/" + fn
	case "/vprog":
		return fn
	case "/":
		return "vprog/" + fn
	}
	panic("unknown RelativeBase")
}

// One file set and one importer for the whole process (loading export data costs a `go list` per package).
var (
	fset = token.NewFileSet()
	imp  *packages.Importer
)

// compile runs the production pipeline in-process. x/build mode is x/build.Context.ParseFSDir +
// ToSource (what progs.CompileXGoFiles does); tool mode is the same pipeline with the parser mode of
// the xgo command (tool/load.go: ParseComments|SaveAbsFile), which x/build does not expose.
func compile(cf *confT, files map[string]string) (out []byte, err error) {
	defer func() {
		if r := recover(); r != nil {
			err = fmt.Errorf("PANIC: %v", r)
		}
	}()
	if imp == nil {
		imp = packages.NewImporter(fset)
	}
	tweak := func(c *cl.Config) {
		c.NoFileLine = false
		c.RelativeBase = cf.RelBase
	}
	dir := "/vprog"
	var names []string
	m := map[string]string{}
	for n, t := range files {
		names = append(names, n)
		m[filepath.Join(dir, n)] = t
	}
	sort.Strings(names)
	mfs := memfs.New(map[string][]string{dir: names}, m)
	if !cf.Tool {
		ctx := build.NewContext(imp, fset)
		ctx.LoadConfig = tweak
		pkg, err := ctx.ParseFSDir(mfs, dir)
		if err != nil {
			return nil, err
		}
		return pkg.ToSource()
	}
	pkgs, err := parser.ParseFSDir(fset, mfs, dir, parser.Config{ClassKind: build.ClassKind, Mode: parser.ParseComments | parser.SaveAbsFile})
	if err != nil {
		return nil, err
	}
	c := &cl.Config{Fset: fset, Importer: imp}
	tweak(c)
	pkg, err := cl.NewPackage("", pkgs["main"], c)
	if err != nil {
		return nil, err
	}
	var buf bytes.Buffer
	if err = pkg.WriteTo(&buf); err != nil {
		return nil, err
	}
	return buf.Bytes(), nil
}

// scratch modules are removed on every way out (engine.Fatal and Finish leave through os.Exit).
var cleanups []func()

func cleanup() {
	for _, f := range cleanups {
		f()
	}
	cleanups = nil
}

func fatal(c *engine.Check, format string, a ...any) {
	cleanup()
	c.Fatal(format, a...)
}

// ---- observation ----

type obs struct {
	File string
	Line int
}

var reOut = regexp.MustCompile(`^([ME]\d+) (.*):(\d+)$`)

func parseOut(out string) map[string][]obs {
	res := map[string][]obs{}
	for _, l := range strings.Split(out, "\n") {
		if m := reOut.FindStringSubmatch(l); m != nil {
			n, _ := strconv.Atoi(m[3])
			res[m[1]] = append(res[m[1]], obs{m[2], n})
		}
	}
	return res
}

// calibration: how the local Go toolchain reports the file name of a //line directive.
const calibSrc = `package main

import (
	"fmt"
	"runtime"
)

func where() {
	_, f, l, _ := runtime.Caller(1)
	fmt.Printf("%s:%d\n", f, l)
}

func main() {
//line rel.xgo:100:1
	where()
//line vprog/rel.xgo:200:1
	where()
//line /vprog/abs.xgo:300:1
	where()
}
`

type fileRule struct{ exactRel, exactAbs bool }

func (r fileRule) match(got, want string) bool {
	exact := r.exactRel
	if strings.HasPrefix(want, "/") {
		exact = r.exactAbs
	}
	if exact {
		return got == want
	}
	return path.Base(got) == path.Base(want)
}

// ---- cases ----

type Case struct {
	Kind string `json:"kind"`
	Ctx  string `json:"context"`
	Pad  string `json:"pad"`
	Conf string `json:"conf"`
}

type mismatch struct {
	u    *unit
	e    *expect
	got  obs
	want obs
}

// judgeSubject compares the observations of one subject program with the generator's expectations.
// skip: expectations the Go reference itself reports elsewhere.
func judgeSubject(p *program, cf *confT, fr fileRule, out string, skip map[string]bool) (mm []mismatch, missing []string) {
	o := parseOut(out)
	for _, u := range p.Units {
		for _, e := range u.Exp {
			got := o[e.Key]
			if len(got) == 0 {
				missing = append(missing, fmt.Sprintf("%s (unit %d %s/%s/%s)", e.Key, u.N, u.Kind, u.Ctx, u.Pad))
				continue
			}
			if !e.Judged || skip[e.Key] {
				continue
			}
			want := obs{wantFile(cf, e.File), e.Line}
			for _, g := range got {
				if !fr.match(g.File, want.File) || g.Line != want.Line {
					mm = append(mm, mismatch{u, e, g, want})
					break
				}
			}
		}
	}
	return
}

// judgeRef: expectations on which Go itself (same text built as .go) disagrees with the generator.
func judgeRef(p *program, out string) (disagree map[string]obs, missing []string) {
	o := parseOut(out)
	disagree = map[string]obs{}
	for _, u := range p.Units {
		if !u.Go {
			continue
		}
		for _, e := range u.Exp {
			got := o[e.Key]
			if len(got) == 0 {
				missing = append(missing, fmt.Sprintf("%s (unit %d %s/%s/%s)", e.Key, u.N, u.Kind, u.Ctx, u.Pad))
				continue
			}
			wantBase := map[string]string{"main": "main.go", "n": "n.go"}[e.File]
			for _, g := range got {
				if path.Base(g.File) != wantBase || g.Line != e.Line {
					disagree[e.Key] = g
					break
				}
			}
		}
	}
	return
}

func fnClass(x *ctxT) string {
	s := x.Fn
	if x.Header != nil {
		s += "-multiline-signature"
	}
	if x.File == "n" {
		s += "-in-second-file"
	}
	return s
}

func cut(gosrc string) string {
	if i := strings.Index(gosrc, "var gany interface{} = 1\n"); i >= 0 {
		gosrc = gosrc[i+len("var gany interface{} = 1\n"):]
	}
	if len(gosrc) > 1800 {
		gosrc = gosrc[:1800] + "…"
	}
	return gosrc
}

// single builds, runs and judges one case alone (replay, and the generated Go shown in details).
func single(c *engine.Check, k Case, run bool) (p *program, gosrc string, mm []mismatch, note string) {
	cf := confByName(k.Conf)
	kd, x, pd := kindByName(k.Kind), ctxByName(k.Ctx), padByName(k.Pad)
	if cf == nil || kd == nil || x == nil || pd == nil || !compatible(kd, x) {
		fatal(c, "unknown case %+v", k)
	}
	p = assemble("one", []spec{{k.Kind, k.Ctx, k.Pad}})
	out, err := compile(cf, p.XGo)
	if err != nil {
		fatal(c, "case %+v does not compile: %v", k, err)
	}
	gosrc = string(out)
	if !run {
		return
	}
	s, err := progs.NewScratch()
	if err != nil {
		fatal(c, "%v", err)
	}
	cleanups = append(cleanups, s.Remove)
	defer cleanup()
	subj := &progs.Prog{Name: "s0", GoSrc: out}
	cal := &progs.Prog{Name: "cal", GoSrc: []byte(calibSrc)}
	all := []*progs.Prog{subj, cal}
	var ref *progs.Prog
	if len(p.GoRef) > 0 && p.Units[0].Go {
		ref = refProg("r0", p)
		all = append(all, ref)
	}
	if err := s.BuildAll(all); err != nil {
		fatal(c, "%v", err)
	}
	for _, q := range all {
		if !q.BuildOK {
			fatal(c, "program %s does not build: %s", q.Name, q.BuildErr)
		}
	}
	s.RunAll(all)
	fr := calibrate(c, cal)
	skip := map[string]bool{}
	if ref != nil {
		dis, miss := judgeRef(p, ref.Stdout)
		if len(miss) > 0 {
			fatal(c, "Go reference did not execute %v", miss)
		}
		for key := range dis {
			skip[key] = true
			note += "Go reference reports " + key + " elsewhere: not judged\n"
		}
	}
	mm, miss := judgeSubject(p, cf, fr, subj.Stdout, skip)
	if len(miss) > 0 || subj.Exit != 0 {
		fatal(c, "subject exit=%d stderr=%s not executed: %v", subj.Exit, subj.Stderr, miss)
	}
	return
}

func refProg(name string, p *program) *progs.Prog {
	r := &progs.Prog{Name: name, GoSrc: []byte(p.GoRef["main.go"])}
	if b, ok := p.GoRef["n.go"]; ok {
		r.Extra = map[string][]byte{"n.go": []byte(b)}
	}
	return r
}

func calibrate(c *engine.Check, cal *progs.Prog) fileRule {
	if !cal.BuildOK || cal.Exit != 0 {
		fatal(c, "calibration program failed: %s %s", cal.BuildErr, cal.Stderr)
	}
	l := strings.Split(strings.TrimSpace(cal.Stdout), "\n")
	if len(l) != 3 {
		fatal(c, "calibration output: %q", cal.Stdout)
	}
	for i, sfx := range []string{"rel.xgo:100", "rel.xgo:200", "abs.xgo:300"} {
		if !strings.HasSuffix(l[i], sfx) {
			fatal(c, "the Go toolchain does not honour //line directives as assumed: %q", cal.Stdout)
		}
	}
	return fileRule{exactRel: l[0] == "rel.xgo:100" && l[1] == "vprog/rel.xgo:200", exactAbs: l[2] == "/vprog/abs.xgo:300"}
}

func what(role string) string {
	switch role {
	case "func-entry":
		return "the entry of a function is not attributed to the line of its func declaration in the XGo source"
	case "pkgvar-init":
		return "the first call (or function literal) of a package-level variable initialiser is not attributed to the source line of the declaration"
	case "closure-entry":
		return "the entry of a function literal / lambda is not attributed to the source line where it is written"
	}
	return "the first call of a statement is not attributed to the XGo source file and line where the statement is written"
}

func main() {
	c := engine.New("C09", "exploration")
	if c.IsReplay() {
		var k Case
		c.LoadReplay(&k)
		p, gosrc, mm, note := single(c, k, true)
		if len(mm) == 0 {
			c.ReplayResult(nil)
		}
		m := mm[0]
		for _, x := range mm { // a statement position first, if any
			if x.e.Role == "stmt" {
				m = x
				break
			}
		}
		c.ReplayResult(&engine.Failure{
			Key:    fmt.Sprintf("wrong-line:%s:kind=%s,ctx=%s,pad=%s/conf=%s", m.e.Role, k.Kind, k.Ctx, k.Pad, k.Conf),
			What:   what(m.e.Role),
			Detail: fmt.Sprintf("%s%s: want %s:%d got %s:%d\nsource:\n%s\ngenerated Go:\n%s", note, m.e.Key, m.want.File, m.want.Line, m.got.File, m.got.Line, p.listing(p.Units[0]), cut(gosrc)),
		})
	}

	// ---- the grid ----
	// "cross" of a pad = every kind in the core contexts + the core kinds in every context.
	// thorough: one program per pad; pads "none" and "block-comment2": the full product kinds x contexts;
	// the six other pads: the cross.
	// quick: one program; pad "none": the cross; three further pads: every kind at the top of a
	// function and two kinds in every context.
	coreCtx := map[string]bool{"top": true, "else-if-body": true, "switch-case-body": true, "select-case-body": true, "closure-body": true, "method": true,
		"second-file": true, "forphrase-cond-body": true, "lambda-body": true, "classfile-method": true, "shadow-main": true, "pkg-main": true, "pkg-second-file": true}
	coreKind := map[string]bool{"expr": true, "define": true, "local-var": true, "multiline-call": true, "if-else-if": true, "switch-case-expr": true, "return": true,
		"closure-value": true, "command": true, "forphrase-cond": true, "listcomp": true, "lambda": true, "pkgvar": true, "pkgvar-closure": true}
	var usePads []padT
	var progSpecs [][]spec
	nNA := 0
	for _, pd := range pads {
		quickPad := pd.Name == "none" || pd.Name == "blank2" || pd.Name == "line-comment1" || pd.Name == "block-comment2"
		if !c.Thorough() && !quickPad {
			continue
		}
		usePads = append(usePads, pd)
		var specs []spec
		for xi := range contexts {
			for ki := range kinds {
				k, x := &kinds[ki], &contexts[xi]
				if !compatible(k, x) {
					if level(k.Level) == level(x.Level) && pd.Name == "none" {
						nNA++
					}
					continue
				}
				inCross := coreCtx[x.Name] || coreKind[k.Name]
				if c.Thorough() {
					if pd.Name != "none" && pd.Name != "block-comment2" && !inCross {
						continue
					}
				} else {
					if pd.Name == "none" && !inCross {
						continue
					}
					if pd.Name != "none" && !(x.Name == "top" || x.Name == "pkg-main" || k.Name == "expr" || k.Name == "local-var") {
						continue
					}
				}
				specs = append(specs, spec{k.Name, x.Name, pd.Name})
			}
		}
		if c.Thorough() || len(progSpecs) == 0 {
			progSpecs = append(progSpecs, specs)
		} else {
			progSpecs[0] = append(progSpecs[0], specs...)
		}
	}
	var programs []*program
	nUnits := 0
	for pi, specs := range progSpecs {
		programs = append(programs, assemble(fmt.Sprintf("p%d", pi), specs))
		nUnits += len(specs)
	}
	c.Hist("not_applicable_return_with_operand_at_top_level_of_a_file", int64(nNA))

	// ---- compile, build, run ----
	s, err := progs.NewScratch()
	if err != nil {
		fatal(c, "%v", err)
	}
	cleanups = append(cleanups, s.Remove)
	type runT struct {
		p    *program
		cf   *confT
		prog *progs.Prog
	}
	phase := map[string]float64{}
	t0 := time.Now()
	lap := func(name string) {
		phase[name] = float64(int(time.Since(t0).Seconds()*10)) / 10
		t0 = time.Now()
	}
	var runs []runT
	var all []*progs.Prog
	refs := map[*program]*progs.Prog{}
	totalLines := 0
	for pi, p := range programs {
		for _, ls := range p.lines {
			totalLines += len(ls)
		}
		for ci := range confs {
			cf := &confs[ci]
			out, err := compile(cf, p.XGo)
			if err != nil {
				// find the units at fault: a harness error, never a verdict
				var bad []string
				for _, u := range p.Units {
					q := assemble("one", []spec{{u.Kind, u.Ctx, u.Pad}})
					if _, e := compile(cf, q.XGo); e != nil && len(bad) < 12 {
						bad = append(bad, fmt.Sprintf("%s/%s/%s: %v", u.Kind, u.Ctx, u.Pad, strings.SplitN(e.Error(), "\n", 2)[0]))
					}
				}
				fatal(c, "program %s does not compile under %s: %.600v\nunits failing alone: %s", p.Name, cf.Name, err, strings.Join(bad, "\n  "))
			}
			pr := &progs.Prog{Name: fmt.Sprintf("s%dc%d", pi, ci), GoSrc: out}
			runs = append(runs, runT{p, cf, pr})
			all = append(all, pr)
		}
		if len(p.GoRef) > 0 {
			r := refProg(fmt.Sprintf("r%d", pi), p)
			refs[p] = r
			all = append(all, r)
		}
	}
	cal := &progs.Prog{Name: "cal", GoSrc: []byte(calibSrc)}
	all = append(all, cal)
	lap("xgo_compile_in_process_including_importer_warm_up")
	if err := s.BuildAll(all); err != nil {
		fatal(c, "%v", err)
	}
	for _, q := range all {
		if !q.BuildOK {
			fatal(c, "program %s does not build (generator at fault): %s", q.Name, q.BuildErr)
		}
	}
	lap("go_build")
	s.RunAll(all)
	lap("run")
	for _, q := range all {
		if q.TimedOut { // a loaded machine: the programs need well under a second of CPU; once more, alone
			q.TimedOut, q.Exit = false, 0
			s.RunAll([]*progs.Prog{q})
		}
		if q.Exit != 0 || q.TimedOut {
			fatal(c, "program %s ended abnormally: exit=%d %s", q.Name, q.Exit, progs.PanicHeader(q.Stderr))
		}
	}
	fr := calibrate(c, cal)
	cleanup() // all outputs are in memory
	c.Hist("excluded_entry_of_the_implicit_main_function_(no_func_line_in_the_source)", int64(len(runs)))
	if !fr.exactRel || !fr.exactAbs {
		c.Hist("file_names_judged_by_base_name_only", 1)
	}

	// ---- the Go reference validates the expectations ----
	skips := map[*program]map[string]bool{}
	for _, p := range programs {
		skips[p] = map[string]bool{}
		r := refs[p]
		if r == nil {
			continue
		}
		dis, miss := judgeRef(p, r.Stdout)
		if len(miss) > 0 {
			fatal(c, "Go reference %s did not execute %d marks, e.g. %v", r.Name, len(miss), miss[:min(5, len(miss))])
		}
		for key, g := range dis {
			skips[p][key] = true
			e, u := p.expects[key], p.byKey[key]
			if e.Judged {
				c.Hist("excluded_go_itself_reports_another_line:"+u.Kind+"/"+u.Ctx, 1)
				_ = g
			}
		}
	}

	// ---- judge ----
	type cell struct{ conf, kind, ctx, pad string }
	fails := map[cell][]mismatch{}     // statement / closure-entry mismatches per case
	efails := map[[3]string]mismatch{} // conf, fnclass, pad -> func-entry mismatch
	ecase := map[[3]string]Case{}
	var order []cell
	pkgFails := map[string][]mismatch{} // conf -> mismatches on the first line of package-level var declarations
	for _, r := range runs {
		mm, miss := judgeSubject(r.p, r.cf, fr, r.prog.Stdout, skips[r.p])
		if len(miss) > 0 {
			fatal(c, "subject %s (%s) did not execute %d marks, e.g. %v", r.prog.Name, r.cf.Name, len(miss), miss[:min(5, len(miss))])
		}
		o := parseOut(r.prog.Stdout)
		for _, u := range r.p.Units {
			c.Eval(1)
			c.Hist("conf:"+r.cf.Name, 1)
			judged := 0
			for _, e := range u.Exp {
				switch {
				case !e.Judged:
					rel := "equals"
					for _, g := range o[e.Key] {
						if g.Line != e.Line {
							rel = "differs_from"
						}
					}
					c.Hist("excluded_not_judged:"+u.Kind+":reported_line_"+rel+"_line_where_the_call_is_written", 1)
				case skips[r.p][e.Key]:
				case e.Role == "pkgvar-init":
					c.Hist("excluded_not_a_statement:package_level_var_initialiser_observed", 1)
				default:
					judged++
					c.Hist("judged_"+e.Role+"_positions", 1)
				}
			}
			if judged > 0 {
				c.NontrivialN(1)
			}
			if u.N%211 == 0 && r.cf.Name == "tool-rel" {
				c.Sample(map[string]any{"case": Case{u.Kind, u.Ctx, u.Pad, r.cf.Name}, "source": r.p.listing(u)})
			}
		}
		for _, m := range mm {
			x := ctxByName(m.u.Ctx)
			if m.e.Role == "pkgvar-init" {
				pkgFails[r.cf.Name] = append(pkgFails[r.cf.Name], m)
				continue
			}
			if m.e.Role == "func-entry" {
				k3 := [3]string{r.cf.Name, fnClass(x), m.u.Pad}
				if _, ok := efails[k3]; !ok {
					efails[k3] = m
					ecase[k3] = Case{m.u.Kind, m.u.Ctx, m.u.Pad, r.cf.Name}
				}
				continue
			}
			cl := cell{r.cf.Name, m.u.Kind, m.u.Ctx, m.u.Pad}
			if _, ok := fails[cl]; !ok {
				order = append(order, cl)
			}
			fails[cl] = append(fails[cl], m)
		}
	}

	// ---- keys: blame the smallest set of grid coordinates that fails on its own ----
	confSuffix := func(failing func(conf string) bool) string {
		var in []string
		for _, cf := range confs {
			if failing(cf.Name) {
				in = append(in, cf.Name)
			}
		}
		if len(in) == len(confs) {
			return ""
		}
		return "/conf=" + strings.Join(in, "+")
	}
	detail := func(k Case, m mismatch) string {
		p := m.u.P
		_, gosrc, _, _ := single(c, k, false)
		return fmt.Sprintf("case=%+v\n%s: want %s:%d got %s:%d (positions in the packed program %s)\nsource of the unit in the packed program:\n%s\ngenerated Go of the unit compiled alone (replay layout):\n%s",
			k, m.e.Key, m.want.File, m.want.Line, m.got.File, m.got.Line, p.Name, p.listing(m.u), cut(gosrc))
	}
	// simplest first: pads in declaration order, then contexts, then kinds (the enumeration order)
	rank := func(cl cell) int {
		r := 0
		for i, pd := range pads {
			if pd.Name == cl.pad {
				r += i * 1000000
			}
		}
		for i := range contexts {
			if contexts[i].Name == cl.ctx {
				r += i * 1000
			}
		}
		for i := range kinds {
			if kinds[i].Name == cl.kind {
				r += i
			}
		}
		return r
	}
	sort.SliceStable(order, func(i, j int) bool { return rank(order[i]) < rank(order[j]) })
	for _, cl := range order {
		f := func(k, x, p string) bool { return len(fails[cell{cl.conf, k, x, p}]) > 0 }
		baseK, baseX := "expr", "top"
		if level(kindByName(cl.kind).Level) == "pkg" {
			baseK, baseX = "pkgvar", "pkg-main"
		}
		kn := cl.kind
		if cls := kindByName(cl.kind).Class; cls != "" {
			kn = cls
		}
		padc := padByName(cl.pad).Class
		var blame string
		switch {
		case f(baseK, baseX, "none"):
			blame = "every-statement" // even the simplest statement at the top of a function is off
		case f(cl.kind, baseX, "none"):
			blame = "kind=" + kn
		case f(baseK, cl.ctx, "none"):
			blame = "ctx=" + cl.ctx
		case f(baseK, baseX, cl.pad):
			blame = "pad=" + padc
		case f(cl.kind, cl.ctx, "none"):
			blame = "kind=" + kn + ",ctx=" + cl.ctx
		case f(cl.kind, baseX, cl.pad):
			blame = "kind=" + kn + ",pad=" + padc
		case f(baseK, cl.ctx, cl.pad):
			blame = "ctx=" + cl.ctx + ",pad=" + padc
		default:
			blame = "kind=" + kn + ",ctx=" + cl.ctx + ",pad=" + padc
		}
		m := fails[cl][0]
		k := Case{cl.kind, cl.ctx, cl.pad, cl.conf}
		key := "wrong-line:" + m.e.Role + ":" + blame + confSuffix(func(cn string) bool { return len(fails[cell{cn, cl.kind, cl.ctx, cl.pad}]) > 0 })
		c.Hist("cases_with_wrong_position", 1)
		c.Violate(k, &engine.Failure{Key: key, What: what(m.e.Role), Detail: detail(k, m)})
	}
	// package-level var declarations carry no statement: one key for the whole class
	for _, cf := range confs {
		mm := pkgFails[cf.Name]
		if len(mm) == 0 {
			continue
		}
		sort.SliceStable(mm, func(i, j int) bool {
			return rank(cell{kind: mm[i].u.Kind, ctx: mm[i].u.Ctx, pad: mm[i].u.Pad}) < rank(cell{kind: mm[j].u.Kind, ctx: mm[j].u.Ctx, pad: mm[j].u.Pad})
		})
		m := mm[0]
		k := Case{m.u.Kind, m.u.Ctx, m.u.Pad, cf.Name}
		// A package-level variable declaration is neither a statement nor a function entry, which is all
		// the property speaks about (cl emits no directive for it): observed and counted, not judged.
		c.Hist("excluded_not_a_statement:package_level_var_initialiser_reports_another_line", int64(len(mm)))
		_, _ = k, m
	}
	var ekeys [][3]string
	for k3 := range efails {
		ekeys = append(ekeys, k3)
	}
	sort.Slice(ekeys, func(i, j int) bool {
		a, b := ekeys[i], ekeys[j]
		ra, rb := rank(cell{pad: a[2]}), rank(cell{pad: b[2]})
		if ra != rb {
			return ra < rb
		}
		return a[0]+a[1] < b[0]+b[1]
	})
	for _, k3 := range ekeys {
		m := efails[k3]
		blame := "fn=" + k3[1]
		if _, ok := efails[[3]string{k3[0], "func", "none"}]; ok {
			blame = "every-function" // even a plain function without anything in front of it is off
		} else if _, ok := efails[[3]string{k3[0], k3[1], "none"}]; !ok {
			blame += ",pad=" + padByName(k3[2]).Class
		}
		key := "wrong-line:func-entry:" + blame + confSuffix(func(cn string) bool { _, ok := efails[[3]string{cn, k3[1], k3[2]}]; return ok })
		c.Hist("function_classes_with_wrong_entry_position", 1)
		c.Violate(ecase[k3], &engine.Failure{Key: key, What: what("func-entry"), Detail: detail(ecase[k3], m)})
	}

	nk, nx := 0, 0
	for _, k := range kinds {
		if k.Why == "" {
			nk++
		}
	}
	for range contexts {
		nx++
	}
	c.Extra["phase_seconds"] = phase
	c.Extra["bound"] = map[string]any{"statement_kinds_judged": nk, "statement_kinds_observed_only": len(kinds) - nk, "contexts": nx, "pads": len(usePads), "configurations": len(confs),
		"units_per_configuration": nUnits, "programs_built": len(all), "xgo_source_lines_per_configuration": totalLines}
	c.Rule = fmt.Sprintf("grid of %d statement kinds x %d placement contexts (pairs of matching level; a return with operand and forward declarations are not placed at file top level) x %d pads in front of the function and of the statement (thorough: full product for pads none and block-comment2, for the other pads every kind in the 13 core contexts and the 14 core kinds in every context; quick: that cross for pad none, every kind at function top and 2 kinds in every context for 3 more pads) x %d compiler configurations {x/build parser mode, xgo-command parser mode (comments parsed)} x {RelativeBase unset, set}; one case = one unit function in one configuration; distinct_nontrivial = cases with at least one judged position (statement mark, closure entry or function entry)", len(kinds), len(contexts), len(usePads), len(confs))
	c.Assumptions = []string{
		"expected position = the file and line where the generator wrote the mark call (always the first line of the statement under test) or the func keyword; file name = memfs path /vprog/<file>, relative to RelativeBase when set; the calibration program shows the Go toolchain reports //line file names verbatim, otherwise only base names are compared",
		"for Go-compatible units the same text is built as .go; a position Go itself reports on another line is excluded and counted, not judged",
		"not judged (observed and counted): calls not on the first line of their statement, deferred calls, the entry of the implicit main function; go statements only through their (synchronously evaluated) arguments",
		"programs: parser+cl+gogen in-process (NoFileLine=false), built by the Go toolchain in a scratch module (go 1.23), run with GOMAXPROCS=1",
	}
	c.Finish()
}

package main

import (
	"fmt"
	"sort"
	"strings"
)

// connmodel: the reference state machine of a jsonrpc2 Connection at quiescence (DESIGN appendix H),
// written from the comments of x/jsonrpc2/conn.go. All values are plain; nothing here looks at
// the implementation. The harness's handler blocks every synchronous request until the
// HandlerDone event (or a cancellation) and returns ErrAsyncResponse for method "async".

type evKind int

const (
	evCall evKind = iota
	evNotify
	evPeerResp  // arg: id answered (1.. or 9 = unknown)
	evPeerCall  // arg: id (7, 8)
	evPeerAsync // arg: id (7, 8): a call whose handler answers asynchronously
	evPeerNotif // a notification for the handler
	evHandlerDone
	evRespond // arg: id
	evCancel  // arg: id
	evCloseStart
	evPeerEOF
	evWriteFail
)

var evNames = []string{"Call", "Notify", "PeerResp", "PeerCall", "PeerAsync", "PeerNotif", "HandlerDone", "Respond", "Cancel", "CloseStart", "PeerEOF", "WriteFail"}

type event struct {
	K   evKind
	Arg int64
}

func (e event) String() string {
	switch e.K {
	case evPeerResp, evPeerCall, evPeerAsync, evRespond, evCancel:
		return fmt.Sprintf("%s(%d)", evNames[e.K], e.Arg)
	}
	return evNames[e.K]
}

// encode/decode for replay files (Case.Choices)
func (e event) code() int  { return int(e.K)*100 + int(e.Arg) }
func decodeEv(c int) event { return event{evKind(c / 100), int64(c % 100)} }

type phase int

const (
	queued phase = iota
	running
	async
)

type inReq struct {
	isCall    bool
	id        int64
	asyncKind bool
	ph        phase
	cancelled bool
}

type model struct {
	closing, reading, readErr, writeErr, closerClosed, done bool
	seq                                                     int64
	outgoing                                                map[int64]bool
	incoming                                                []*inReq // arrival order; the running one (if any) is among them
	handlerRunning                                          bool
	// environment
	closeStarted, peerClosed, failing bool
	// observables
	calls        map[int64]string // id -> "pending" | "ok" | "ErrClientClosing" | "EOF" | "write-error"
	wire         []string         // messages the peer has received
	internalErrs int
	lastRet      string // result of the last Notify / Respond: "ok" | "err" | ""
}

func newModel() *model {
	return &model{reading: true, outgoing: map[int64]bool{}, calls: map[int64]string{}}
}

func (m *model) shuttingDown() bool { return m.closing || m.readErr || m.writeErr }
func (m *model) idle() bool         { return len(m.outgoing) == 0 && len(m.incoming) == 0 && !m.handlerRunning }

func (m *model) byID(id int64) *inReq {
	for _, r := range m.incoming {
		if r.isCall && r.id == id {
			return r
		}
	}
	return nil
}

func (m *model) runningReq() *inReq {
	for _, r := range m.incoming {
		if r.ph == running {
			return r
		}
	}
	return nil
}

func (m *model) remove(r *inReq) {
	for i, x := range m.incoming {
		if x == r {
			m.incoming = append(m.incoming[:i:i], m.incoming[i+1:]...)
			return
		}
	}
}

// write models Connection.write: it succeeds while the stream is intact; the first failure records
// writeErr and cancels the contexts of all incoming calls.
func (m *model) write(msg string) bool {
	if m.failing || m.peerClosed || m.closerClosed {
		if !m.writeErr {
			m.writeErr = true
			for _, r := range m.incoming {
				if r.isCall {
					r.cancelled = true
				}
			}
		}
		return false
	}
	m.wire = append(m.wire, msg)
	return true
}

// finish models processResult for a request that produced a result or an error.
func (m *model) finish(r *inReq, ok bool) {
	if r.isCall {
		// removed from the by-id map first, then the response is written
		r.isCall = false
		kind := "err"
		if ok {
			kind = "ok"
		}
		m.write(fmt.Sprintf("resp:%d:%s", r.id, kind))
	}
	m.remove(r)
}

// settle runs the handler goroutine until it blocks or exits, then applies the shutdown rule.
func (m *model) settle() {
	for {
		if r := m.runningReq(); r != nil {
			if r.cancelled {
				m.finish(r, false) // the blocked handler saw ctx.Done and returned ctx.Err()
				continue
			}
			break // blocked in the handler
		}
		if !m.handlerRunning {
			break
		}
		// the handler goroutine takes the next queued request
		var next *inReq
		for _, r := range m.incoming {
			if r.ph == queued {
				next = r
				break
			}
		}
		if next == nil {
			m.handlerRunning = false
			break
		}
		switch {
		case next.cancelled:
			m.finish(next, false) // "only deliver to the Handler if not already canceled"
		case next.asyncKind:
			next.ph = async
		default:
			next.ph = running
		}
	}
	m.shutdownRule()
}

// shutdownRule: "closer is closed when the state is idle and one of: connClosing is true, readErr is
// non-nil, or writeErr is non-nil"; closing the stream ends the reader, after which the connection is done.
func (m *model) shutdownRule() {
	if m.done || !m.idle() || !m.shuttingDown() {
		return
	}
	m.closerClosed = true
	if m.reading {
		m.reading = false
		m.readErr = true
	}
	m.done = true
}

func (m *model) readerEnds() {
	m.reading = false
	m.readErr = true
	for id := range m.outgoing {
		m.calls[id] = "EOF"
	}
	m.outgoing = map[int64]bool{}
}

// enabled lists the events the search may apply in this state (bounds: maxCalls outgoing calls over
// the whole history, maxIn requests in flight).
func (m *model) enabled(maxCalls int64, maxIn int) []event {
	var evs []event
	if m.seq < maxCalls {
		evs = append(evs, event{evCall, 0})
	}
	evs = append(evs, event{evNotify, 0})
	if !m.peerClosed && !m.closerClosed {
		for id := int64(1); id <= maxCalls; id++ {
			evs = append(evs, event{evPeerResp, id})
		}
		evs = append(evs, event{evPeerResp, 9})
		if len(m.incoming) < maxIn {
			evs = append(evs, event{evPeerCall, 7}, event{evPeerCall, 8}, event{evPeerAsync, 7}, event{evPeerAsync, 8}, event{evPeerNotif, 0})
		}
	}
	if m.runningReq() != nil {
		evs = append(evs, event{evHandlerDone, 0})
	}
	for _, id := range []int64{7, 8} {
		// Respond "must be called exactly once for any message for which a handler returns
		// ErrAsyncResponse [and] not for any other message": legal for async-phase calls; an id that
		// is not in flight at all is the documented internal-error case.
		if r := m.byID(id); r == nil || r.ph == async {
			evs = append(evs, event{evRespond, id})
		}
		evs = append(evs, event{evCancel, id})
	}
	if !m.closeStarted {
		evs = append(evs, event{evCloseStart, 0})
	}
	if !m.peerClosed {
		evs = append(evs, event{evPeerEOF, 0})
	}
	if !m.failing {
		evs = append(evs, event{evWriteFail, 0})
	}
	return evs
}

// apply performs one event and lets the connection settle.
func (m *model) apply(e event) {
	m.lastRet = ""
	switch e.K {
	case evCall:
		m.seq++
		id := m.seq
		switch {
		case m.shuttingDown():
			m.calls[id] = "ErrClientClosing"
		default:
			m.outgoing[id] = true
			m.calls[id] = "pending"
			if !m.write(fmt.Sprintf("call:%d", id)) {
				delete(m.outgoing, id)
				m.calls[id] = "write-error"
			}
		}
	case evNotify:
		if len(m.outgoing) == 0 && m.numByID() == 0 && m.shuttingDown() {
			m.lastRet = "err"
			break
		}
		if m.write("notif") {
			m.lastRet = "ok"
		} else {
			m.lastRet = "err"
		}
	case evPeerResp:
		if !m.reading {
			break
		}
		if m.outgoing[e.Arg] {
			delete(m.outgoing, e.Arg)
			m.calls[e.Arg] = "ok"
		}
	case evPeerCall, evPeerAsync, evPeerNotif:
		if !m.reading {
			break
		}
		r := &inReq{isCall: e.K != evPeerNotif, id: e.Arg, asyncKind: e.K == evPeerAsync}
		if r.isCall && m.byID(r.id) != nil {
			break // "request ID already in use": dropped, the error is not attributed to the existing request
		}
		m.incoming = append(m.incoming, r)
		if m.shuttingDown() {
			// calls "receive immediate responses with ErrServerClosing, and no new requests (not even
			// notifications!) will be enqueued to the Handler"
			m.finish(r, false)
			break
		}
		r.ph = queued
		m.handlerRunning = true
	case evHandlerDone:
		if r := m.runningReq(); r != nil {
			m.finish(r, true)
		}
	case evRespond:
		r := m.byID(e.Arg)
		if r == nil {
			m.internalErrs++
			m.lastRet = "err"
			break
		}
		m.finish(r, true)
		m.lastRet = "ok"
	case evCancel:
		if r := m.byID(e.Arg); r != nil {
			r.cancelled = true
		}
	case evCloseStart:
		m.closeStarted = true
		m.closing = true
	case evPeerEOF:
		m.peerClosed = true
		if m.reading {
			m.readerEnds()
		}
	case evWriteFail:
		m.failing = true
	}
	m.settle()
}

func (m *model) numByID() int {
	n := 0
	for _, r := range m.incoming {
		if r.isCall {
			n++
		}
	}
	return n
}

// proj is what is compared with the implementation after every event.
type proj struct {
	Closing, Reading, ReadErr, WriteErr, CloserNil, Done bool
	Outgoing                                             []int64
	OutNotifs, Incoming                                  int
	ByID                                                 []int64
	Queue                                                int
	HandlerRunning                                       bool
	CloseReturned                                        bool
	Calls                                                string
	Wire                                                 string
	InternalErrs                                         int
	LastRet                                              string
}

func (p proj) String() string { type plain proj; return fmt.Sprintf("%+v", plain(p)) }

func (m *model) project() proj {
	p := proj{Closing: m.closing, Reading: m.reading, ReadErr: m.readErr, WriteErr: m.writeErr, CloserNil: m.closerClosed, Done: m.done,
		Incoming: len(m.incoming), HandlerRunning: m.handlerRunning, CloseReturned: m.closeStarted && m.done,
		InternalErrs: m.internalErrs, LastRet: m.lastRet}
	for id := range m.outgoing {
		p.Outgoing = append(p.Outgoing, id)
	}
	sort.Slice(p.Outgoing, func(i, j int) bool { return p.Outgoing[i] < p.Outgoing[j] })
	for _, r := range m.incoming {
		if r.isCall {
			p.ByID = append(p.ByID, r.id)
		}
		if r.ph == queued {
			p.Queue++
		}
	}
	sort.Slice(p.ByID, func(i, j int) bool { return p.ByID[i] < p.ByID[j] })
	var cs []string
	for id := int64(1); id <= m.seq; id++ {
		cs = append(cs, fmt.Sprintf("%d=%s", id, m.calls[id]))
	}
	p.Calls = strings.Join(cs, ",")
	p.Wire = strings.Join(m.wire, " ")
	return p
}

// key is the canonical state for duplicate detection: everything a future event can depend on.
// The wire log and finished calls are history (checked when they happened), except that the
// outcome of a call stays observable, so it is kept. The count of internal errors only ever grows
// and is compared when it changes; it is not part of the state.
func (m *model) key() string {
	var sb strings.Builder
	fmt.Fprintf(&sb, "%v%v%v%v%v%v|%d|", m.closing, m.reading, m.readErr, m.writeErr, m.closerClosed, m.done, m.seq)
	p := m.project()
	fmt.Fprintf(&sb, "%v|%s|", p.Outgoing, p.Calls)
	for _, r := range m.incoming {
		fmt.Fprintf(&sb, "(%v %d %v %d %v)", r.isCall, r.id, r.asyncKind, r.ph, r.cancelled)
	}
	fmt.Fprintf(&sb, "|%v|%v%v%v", m.handlerRunning, m.closeStarted, m.peerClosed, m.failing)
	return sb.String()
}

package main

// Mode B for C39 (DESIGN appendix H): breadth-first search over event sequences. Every transition
// executes one event on a fresh real Connection (the shortest path to the state is replayed first,
// live connections cannot be copied), lets all threads run to quiescence under the scheduler, and
// compares the private in-flight state (read by reflection), the outcome of every Await, the wire
// log seen by the peer and the return values with the reference model of model.go. Invariants are
// evaluated on the implementation's own state in every state reached.

import (
	"errors"
	"fmt"
	"io"
	"reflect"
	"sort"
	"strings"
	"unsafe"

	"github.com/goplus/xgo/x/jsonrpc2"
	"verif/engine/vrt"
	context "verif/engine/vrt/vcontext"
)

// bfsRun is the observation record of one execution of an event sequence.
type bfsRun struct {
	c             *jsonrpc2.Connection
	connEnd       *pipeEnd
	calls         map[int64]string
	nCalls        int64
	wire          []string
	internalErrs  int
	lastRet       string
	closeReturned bool
	rels          []*relEntry         // one per handler body that blocked, in start order
	peerMu        *vrt.Chan[struct{}] // harness lock: two threads never interleave frames on the peer's writer
	peerSent      map[int64]int       // incoming call id -> requests sent with it
	pe            *pipeEnd            // the peer's end
	p             *peer
	d2done        bool
	pairClass     string
	// result
	step     int    // events completed (quiescent state compared)
	mismatch string // first difference with the model / violated invariant
	projs    []proj // implementation projection after every event
}

type relEntry struct {
	ch               *vrt.Chan[struct{}]
	closed, returned bool
}

var B *bfsRun

func field(v reflect.Value, name string) reflect.Value {
	f := v.FieldByName(name)
	if !f.IsValid() {
		panic("C39 bfs: field " + name + " not found (conn.go changed shape)")
	}
	return reflect.NewAt(f.Type(), unsafe.Pointer(f.UnsafeAddr())).Elem()
}

func idsOf(m reflect.Value) []int64 {
	var out []int64
	for _, k := range m.MapKeys() {
		id, _ := idOf(k.Interface().(jsonrpc2.ID))
		out = append(out, id)
	}
	sort.Slice(out, func(i, j int) bool { return out[i] < out[j] })
	return out
}

// snapshot projects the real connection onto the model's observables.
func (b *bfsRun) snapshot() proj {
	cv := reflect.ValueOf(b.c).Elem()
	st := field(cv, "state")
	p := proj{
		Closing:        field(st, "connClosing").Bool(),
		Reading:        field(st, "reading").Bool(),
		ReadErr:        !field(st, "readErr").IsNil(),
		WriteErr:       !field(st, "writeErr").IsNil(),
		CloserNil:      field(st, "closer").IsNil(),
		Outgoing:       idsOf(field(st, "outgoingCalls")),
		OutNotifs:      int(field(st, "outgoingNotifications").Int()),
		Incoming:       int(field(st, "incoming").Int()),
		ByID:           idsOf(field(st, "incomingByID")),
		Queue:          field(st, "handlerQueue").Len(),
		HandlerRunning: field(st, "handlerRunning").Bool(),
		CloseReturned:  b.closeReturned,
		InternalErrs:   b.internalErrs,
		LastRet:        b.lastRet,
	}
	p.Done = field(cv, "done").Interface().(*vrt.Chan[struct{}]).Closed()
	var cs []string
	for id := int64(1); id <= b.nCalls; id++ {
		cs = append(cs, fmt.Sprintf("%d=%s", id, b.calls[id]))
	}
	p.Calls = strings.Join(cs, ",")
	p.Wire = strings.Join(b.wire, " ")
	return p
}

// invariants on the implementation's own state (independent of the model).
func invariants(p proj) string {
	idle := len(p.Outgoing) == 0 && p.OutNotifs == 0 && p.Incoming == 0 && !p.HandlerRunning
	shutting := p.Closing || p.ReadErr || p.WriteErr
	switch {
	case p.Done && !idle:
		return "done although not idle"
	case p.Done && (!p.CloserNil || p.Reading):
		return "done although the stream was not closed or the reader is still running"
	case idle && shutting && !p.Done:
		return "idle and shutting down at quiescence, yet not done"
	case p.ReadErr && len(p.Outgoing) > 0:
		return "reader has ended, yet outgoing calls are still registered (they can never be answered)"
	case p.Incoming < len(p.ByID) || p.Incoming < p.Queue:
		return "incoming count smaller than the requests it must cover"
	case p.CloseReturned && !p.Done:
		return "Close returned before the connection was done"
	case p.OutNotifs != 0:
		return "outgoing notification count non-zero at quiescence"
	case p.Queue > 0 && !p.HandlerRunning:
		return "requests queued but no handler goroutine"
	}
	return ""
}

func classify(err error) string {
	switch {
	case err == nil:
		return "ok"
	case errors.Is(err, jsonrpc2.ErrClientClosing):
		return "ErrClientClosing"
	case errors.Is(err, io.EOF):
		return "EOF"
	case errors.Is(err, errBrokenPipe), errors.Is(err, io.ErrClosedPipe):
		return "write-error"
	}
	return "err:" + err.Error()
}

// extraInvariants need the observation record: every Await returns exactly once and a call is pending
// exactly while it is registered as outgoing; no incoming id receives more responses than requests.
func (b *bfsRun) extraInvariants(p proj) string {
	out := map[int64]bool{}
	for _, id := range p.Outgoing {
		out[id] = true
	}
	for id := int64(1); id <= b.nCalls; id++ {
		st := b.calls[id]
		switch {
		case st == "":
			return fmt.Sprintf("call ids are not consecutive: %d missing of %d", id, b.nCalls)
		case strings.Contains(st, "returned-again") || strings.HasPrefix(st, "answer "):
			return fmt.Sprintf("call %d: %s", id, st)
		case st == "pending" && !out[id] && !strings.Contains(st, "issuing"):
			return fmt.Sprintf("call %d is still awaited but no longer registered as outgoing: it can never complete", id)
		case st != "pending" && out[id]:
			return fmt.Sprintf("call %d completed (%s) but is still registered as outgoing", id, st)
		}
	}
	resp := map[int64]int{}
	for _, w := range b.wire {
		var id int64
		var kind string
		if n, _ := fmt.Sscanf(strings.ReplaceAll(w, ":", " "), "resp %d %s", &id, &kind); n == 2 {
			resp[id]++
		}
	}
	for id, n := range resp {
		if n > b.peerSent[id] {
			return fmt.Sprintf("incoming id %d: %d responses on the wire for %d requests", id, n, b.peerSent[id])
		}
	}
	return ""
}

// setup dials a fresh connection over an in-memory pipe with the blocking/async handler and starts the peer's reader.
func (b *bfsRun) setup() {
	a, pe := newPipe()
	b.connEnd, b.pe = a, pe
	b.peerMu = vrt.NewChan[struct{}](1)
	c, err := jsonrpc2.Dial(context.Background(), dialer{a}, jsonrpc2.BinderFunc(func(ctx context.Context, c *jsonrpc2.Connection) jsonrpc2.ConnectionOptions {
		return jsonrpc2.ConnectionOptions{
			Handler: jsonrpc2.HandlerFunc(func(ctx context.Context, req *jsonrpc2.Request) (any, error) {
				if req.Method == "async" {
					return nil, jsonrpc2.ErrAsyncResponse
				}
				vrt.Event("rec", "rec", 0)
				rel := &relEntry{ch: vrt.NewChan[struct{}](0)}
				b.rels = append(b.rels, rel)
				sel := vrt.NewSel(false)
				vrt.AddRecv(sel, rel.ch)
				vrt.AddRecv(sel, ctx.Done())
				i := sel.Run()
				vrt.Event("rec", "rec", 0)
				rel.returned = true
				if i == 1 {
					return nil, ctx.Err()
				}
				if !req.IsCall() {
					return nil, nil
				}
				id, _ := idOf(req.ID)
				return id, nil
			}),
			OnInternalError: func(error) { vrt.Event("rec", "rec", 0); b.internalErrs++ },
		}
	}), nil)
	if err != nil {
		panic(err)
	}
	b.c = c
	p := newPeer(pe)
	b.p = p
	vrt.Go("P", func() {
		for {
			m, _, err := p.rd.Read(context.Background())
			if err != nil {
				return
			}
			vrt.Event("rec", "rec", 0)
			switch m := m.(type) {
			case *jsonrpc2.Request:
				if m.IsCall() {
					id, _ := idOf(m.ID)
					b.wire = append(b.wire, fmt.Sprintf("call:%d", id))
				} else {
					b.wire = append(b.wire, "notif")
				}
			case *jsonrpc2.Response:
				id, _ := idOf(m.ID)
				kind := "ok"
				if m.Error != nil {
					kind = "err"
				}
				b.wire = append(b.wire, fmt.Sprintf("resp:%d:%s", id, kind))
			}
		}
	})
}

// replay applies evs one by one, each followed by quiescence and the comparison with the model.
func (b *bfsRun) replay(m *model, evs []event) bool {
	vrt.Quiesce()
	if d := diff(m.project(), b.snapshot()); d != "" {
		b.mismatch = "initial state: " + d
		return false
	}
	for i, e := range evs {
		b.lastRet = ""
		b.exec(e, true)
		vrt.Quiesce()
		m.apply(e)
		got := b.snapshot()
		b.projs = append(b.projs, got)
		if d := diff(m.project(), got); d != "" {
			b.mismatch = fmt.Sprintf("after event %d %v: %s", i, e, d)
			return false
		}
		if inv := invariants(got); inv != "" {
			b.mismatch = fmt.Sprintf("after event %d %v: invariant: %s; state %v", i, e, inv, got)
			return false
		}
		if inv := b.extraInvariants(got); inv != "" {
			b.mismatch = fmt.Sprintf("after event %d %v: invariant: %s; state %v", i, e, inv, got)
			return false
		}
		b.step = i + 1
	}
	return true
}

// bfsBody runs the event sequence evs against a fresh connection, comparing with the model after each event.
func bfsBody(evs []event) func() {
	return func() {
		B.setup()
		B.replay(newModel(), evs)
	}
}

// pairBody reaches the state after evs, then starts e1 and e2 concurrently and judges the quiescent state
// by the invariants (the outcome need not equal either sequential order; whether it does is recorded).
func pairBody(evs []event, e1, e2 event) func() {
	return func() {
		b := B
		b.setup()
		m := newModel()
		if !b.replay(m, evs) {
			return
		}
		b.step = 0
		vrt.Go("D2", func() {
			b.exec(e2, false)
			vrt.Event("rec", "rec", 0)
			b.d2done = true
		})
		b.exec(e1, false)
		vrt.Quiesce()
		got := b.snapshot()
		b.projs = append(b.projs, got)
		if inv := invariants(got); inv != "" {
			b.mismatch = fmt.Sprintf("after %v || %v: invariant: %s; state %v", e1, e2, inv, got)
			return
		}
		if inv := b.extraInvariants(got); inv != "" {
			b.mismatch = fmt.Sprintf("after %v || %v: invariant: %s; state %v", e1, e2, inv, got)
			return
		}
		if !b.d2done {
			return
		}
		b.step = 1
		// classification only: does the result equal one of the two sequential orders?
		got.LastRet = ""
		b.pairClass = "neither"
		for k, order := range [][2]event{{e1, e2}, {e2, e1}} {
			mm := newModel()
			for _, e := range evs {
				mm.apply(e)
			}
			mm.apply(order[0])
			mm.apply(order[1])
			want := mm.project()
			want.LastRet = ""
			want.Wire, got.Wire = sortedWords(want.Wire), sortedWords(got.Wire)
			if reflect.DeepEqual(want, got) {
				b.pairClass = []string{"as-e1;e2", "as-e2;e1"}[k]
				break
			}
		}
	}
}

func sortedWords(s string) string {
	w := strings.Fields(s)
	sort.Strings(w)
	return strings.Join(w, " ")
}

func diff(want, got proj) string {
	if reflect.DeepEqual(want, got) {
		return ""
	}
	wv, gv := reflect.ValueOf(want), reflect.ValueOf(got)
	var ds []string
	for i := 0; i < wv.NumField(); i++ {
		if !reflect.DeepEqual(wv.Field(i).Interface(), gv.Field(i).Interface()) {
			ds = append(ds, fmt.Sprintf("%s: model %v, implementation %v", wv.Type().Field(i).Name, wv.Field(i).Interface(), gv.Field(i).Interface()))
		}
	}
	return strings.Join(ds, "; ")
}

func (b *bfsRun) peerWrite(m jsonrpc2.Message) {
	b.peerMu.Send(struct{}{})
	b.p.wr.Write(context.Background(), m)
	b.peerMu.Recv()
}

// exec performs one event through the public API / the peer's end of the pipe. sequential says that no
// other event runs concurrently (call ids are then predictable).
func (b *bfsRun) exec(e event, sequential bool) {
	c := b.c
	switch e.K {
	case evCall:
		ac := c.Call(context.Background(), "m", nil)
		id, _ := idOf(ac.ID())
		vrt.Event("rec", "rec", 0)
		if id > b.nCalls {
			b.nCalls = id
		}
		b.calls[id] = "pending"
		if ac.IsReady() {
			// failed to send: already retired; still awaited below to see that Await agrees
		}
		vrt.Go(fmt.Sprintf("A%d", id), func() {
			var res int64 = -1
			err := ac.Await(context.Background(), &res)
			vrt.Event("rec", "rec", 0)
			if b.calls[id] != "pending" {
				b.calls[id] += "+returned-again"
				return
			}
			b.calls[id] = classify(err)
			if err == nil && res != id {
				b.calls[id] = fmt.Sprintf("answer %d", res)
			}
		})
	case evNotify:
		err := c.Notify(context.Background(), "n", nil)
		vrt.Event("rec", "rec", 0)
		if err != nil {
			b.lastRet = "err"
		} else {
			b.lastRet = "ok"
		}
	case evPeerResp:
		resp, _ := jsonrpc2.NewResponse(jsonrpc2.Int64ID(e.Arg), e.Arg, nil)
		b.peerWrite(resp)
	case evPeerCall, evPeerAsync:
		method := "work"
		if e.K == evPeerAsync {
			method = "async"
		}
		vrt.Event("rec", "rec", 0)
		b.peerSent[e.Arg]++
		m, _ := jsonrpc2.NewCall(jsonrpc2.Int64ID(e.Arg), method, nil)
		b.peerWrite(m)
	case evPeerNotif:
		m, _ := jsonrpc2.NewNotification("work", nil)
		b.peerWrite(m)
	case evHandlerDone:
		vrt.SchedPoint("handler-done")
		vrt.Event("rec", "rec", 0)
		for _, r := range b.rels {
			if !r.closed && !r.returned {
				r.closed = true
				r.ch.Close()
				break
			}
		}
	case evRespond:
		err := c.Respond(jsonrpc2.Int64ID(e.Arg), e.Arg, nil)
		vrt.Event("rec", "rec", 0)
		if err != nil {
			b.lastRet = "err"
		} else {
			b.lastRet = "ok"
		}
	case evCancel:
		c.Cancel(jsonrpc2.Int64ID(e.Arg))
	case evCloseStart:
		vrt.Go("Closer", func() {
			c.Close()
			vrt.Event("rec", "rec", 0)
			b.closeReturned = true
		})
	case evPeerEOF:
		vrt.SchedPoint("peer-eof")
		b.pe.Close()
	case evWriteFail:
		vrt.SchedPoint("fail-writes")
		vrt.Event("pipe-fail", b.connEnd.out, 0)
		*b.connEnd.failWrites = true
	}
}

func newRun() { B = &bfsRun{calls: map[int64]string{}, peerSent: map[int64]int{}} }

func lastObs() string {
	if len(B.projs) == 0 {
		return B.pairClass
	}
	return B.pairClass + B.projs[len(B.projs)-1].String()
}

func bfsScenario(evs []event) *vrt.Scenario {
	return &vrt.Scenario{
		Name: "BFS", Reset: newRun, Body: bfsBody(evs), Observe: lastObs,
		Daemon: func(string) bool { return true }, // parked readers, awaiters and handlers are the normal end of a sequence
		Check: func(s *vrt.Sched) *vrt.Verdict {
			if B.mismatch != "" {
				return &vrt.Verdict{Key: "state-model-mismatch", What: "the connection's state after an event differs from the reference model or violates an invariant", Detail: fmt.Sprintf("events %v: %s", evs, B.mismatch)}
			}
			if B.step != len(evs) {
				return &vrt.Verdict{Key: "event-did-not-complete", What: "an event did not return although every other thread was blocked", Detail: fmt.Sprintf("completed %d of %v; stuck=%v", B.step, evs, s.Stuck)}
			}
			return nil
		},
		MaxSteps: 20000,
	}
}

func pairScenario(evs []event, e1, e2 event) *vrt.Scenario {
	return &vrt.Scenario{
		Name: "PAIR", Reset: newRun, Body: pairBody(evs, e1, e2), Observe: lastObs,
		Daemon: func(string) bool { return true },
		Check: func(s *vrt.Sched) *vrt.Verdict {
			if B.mismatch != "" {
				return &vrt.Verdict{Key: "concurrent-events-invariant", What: "two concurrent events left the connection in a state that violates an invariant", Detail: fmt.Sprintf("after %v: %s", evs, B.mismatch)}
			}
			if B.step != 1 {
				return &vrt.Verdict{Key: "event-did-not-complete", What: "a concurrent event did not return although every other thread was blocked", Detail: fmt.Sprintf("after %v: %v || %v; stuck=%v", evs, e1, e2, s.Stuck)}
			}
			return nil
		},
		MaxSteps: 20000,
	}
}

// ---------------- the search ----------------

type stateNode struct {
	path  []event
	depth int
}

// enumerate lists the model's reachable states in breadth-first order with a shortest path to each.
// The graph is defined by the model (enabledness and canonical keys); every transition of it is then
// executed on the implementation (see item kinds below), which is what binds the model to the code.
func enumerate(depth int, maxCalls int64, maxIn int) (nodes []stateNode, transitions int) {
	root := newModel()
	seen := map[string]bool{root.key(): true}
	nodes = []stateNode{{nil, 0}}
	for i := 0; i < len(nodes); i++ {
		n := nodes[i]
		if n.depth >= depth {
			continue
		}
		m := newModel()
		for _, e := range n.path {
			m.apply(e)
		}
		for _, e := range m.enabled(maxCalls, maxIn) {
			transitions++
			m2 := newModel()
			seq := append(append([]event{}, n.path...), e)
			for _, x := range seq {
				m2.apply(x)
			}
			if k := m2.key(); !seen[k] {
				seen[k] = true
				nodes = append(nodes, stateNode{seq, n.depth + 1})
			}
		}
	}
	return
}

func pairOK(e1, e2 event) bool {
	if e1 == e2 {
		switch e1.K {
		case evCall, evNotify, evPeerNotif:
			return true
		}
		return false
	}
	// Respond is only legal for a request whose handler returned ErrAsyncResponse; racing it with the
	// arrival of a request of the same id would make the harness misuse the API in some schedules.
	for _, p := range [][2]event{{e1, e2}, {e2, e1}} {
		if p[0].K == evRespond && (p[1].K == evPeerCall || p[1].K == evPeerAsync) && p[0].Arg == p[1].Arg {
			return false
		}
	}
	return true
}

type bfsParams struct {
	depth    int   // BFS depth (large = to the fixpoint)
	maxCalls int64 // outgoing calls per history
	maxIn    int   // incoming requests in flight
	schedDep int   // states up to this depth: all schedules of their shortest path ...
	schedB   int   // ... with at most this many preemptions
	pairDep  int   // states up to this depth: every ordered pair of enabled events concurrently ...
	pairB    int   // ... under all schedules with at most this many preemptions
}

type bfsFound struct {
	Kind    string
	Events  []event
	Choices []int
	V       *vrt.Verdict
}

type bfsStats struct {
	Transitions, SchedExecs, PairExecs, Pairs, SchedStates int64
	PairClasses                                            map[string]int64
	Found                                                  []bfsFound
	Capped                                                 bool
}

func (st *bfsStats) add(kind string, evs []event, choices []int, v *vrt.Verdict) {
	for _, f := range st.Found {
		if f.V.Key == v.Key && len(st.Found) >= 3 {
			return
		}
	}
	if len(st.Found) < 12 {
		st.Found = append(st.Found, bfsFound{kind, evs, choices, v})
	}
}

// runShard executes the work items i with i % n == k: the transitions out of a state, the schedule
// exploration of a state's path, the concurrent pairs out of a state.
func runShard(nodes []stateNode, pr bfsParams, k, n int, stop func() bool) *bfsStats {
	st := &bfsStats{PairClasses: map[string]int64{}}
	item := 0
	mine := func() bool { item++; return (item-1)%n == k }
	for _, nd := range nodes {
		if stop != nil && stop() {
			st.Capped = true
			return st
		}
		m := newModel()
		for _, e := range nd.path {
			m.apply(e)
		}
		en := m.enabled(pr.maxCalls, pr.maxIn)
		if nd.depth < pr.depth && mine() {
			for _, e := range en {
				seq := append(append([]event{}, nd.path...), e)
				st.Transitions++
				if _, v := vrt.RunOnce(bfsScenario(seq), nil); v != nil {
					st.add("BFS", seq, nil, v)
				}
			}
		}
		if nd.depth >= 1 && nd.depth <= pr.schedDep && mine() {
			sc := bfsScenario(nd.path)
			ex := vrt.NewExplorer(pr.schedB)
			ex.Cache = vrt.NewCache()
			ex.Explore(sc, nil)
			st.SchedStates++
			st.SchedExecs += ex.Stats.Executions
			for _, f := range ex.Stats.Found {
				st.add("BFS", nd.path, f.Choices, &vrt.Verdict{Key: f.Key, What: f.What, Detail: f.Detail})
			}
		}
		if nd.depth <= pr.pairDep {
			for _, e1 := range en {
				for _, e2 := range en {
					if !pairOK(e1, e2) || !mine() {
						continue
					}
					sc := pairScenario(nd.path, e1, e2)
					ex := vrt.NewExplorer(pr.pairB)
					ex.Cache = vrt.NewCache()
					ex.Explore(sc, nil)
					st.Pairs++
					st.PairExecs += ex.Stats.Executions
					for o, c := range ex.Stats.Outcomes {
						cls := "neither"
						if strings.HasPrefix(o, "as-") {
							cls = "serialisable"
						}
						st.PairClasses[cls] += c
					}
					for _, f := range ex.Stats.Found {
						st.add("PAIR", append(append([]event{}, nd.path...), e1, e2), f.Choices, &vrt.Verdict{Key: f.Key, What: f.What, Detail: f.Detail})
					}
				}
			}
		}
	}
	return st
}

// C39: every JSON-RPC call completes exactly once with its own answer; incoming calls are
// answered at most once; Close returns once in-flight handlers finish.
// Mode S: every schedule (bounded preemptions, all select tie-breaks) of client threads, a
// scripted peer, handlers, cancellation, asynchronous responses, disconnects, write failures and
// Close on the real x/jsonrpc2 Connection compiled against engine/vrt.
package main

import (
	"encoding/json"
	"errors"
	"fmt"
	"io"
	"os"
	"sort"
	"strings"
	"time"

	"github.com/goplus/xgo/x/jsonrpc2"
	"verif/engine"
	"verif/engine/smode"
	"verif/engine/vrt"
	context "verif/engine/vrt/vcontext"
)

// ---------------- per-execution record ----------------
type awaitRec struct {
	who      string
	id       int64
	returned int
	result   int64
	err      error
}

type rec struct {
	awaits            []*awaitRec
	peerGot           []string       // requests the peer read: "call:<id>:<method>" / "notif:<method>"
	peerResponses     map[string]int // response id -> count seen on the wire by the peer
	peerSent          map[string]int // call id -> number of calls the peer sent with it
	closedCh          *vrt.Chan[struct{}]
	handlerActive     int            // handler bodies currently running
	handlerRuns       map[string]int // per incoming id
	closeReturned     bool
	closeWhileHandler bool
	notes             []string
	internalErrs      []string
}

var R *rec

func note(f string, a ...any) {
	vrt.Event("note", "rec", 0)
	R.notes = append(R.notes, fmt.Sprintf(f, a...))
}

type dialer struct{ end *pipeEnd }

func (d dialer) Dial(ctx context.Context) (io.ReadWriteCloser, error) { return d.end, nil }

// options for the connection under test
type connOpts struct {
	handler   func(c *jsonrpc2.Connection) jsonrpc2.HandlerFunc
	preempter func(c *jsonrpc2.Connection) jsonrpc2.PreempterFunc
}

func dial(end *pipeEnd, o connOpts) *jsonrpc2.Connection {
	c, err := jsonrpc2.Dial(context.Background(), dialer{end}, jsonrpc2.BinderFunc(func(ctx context.Context, c *jsonrpc2.Connection) jsonrpc2.ConnectionOptions {
		var opt jsonrpc2.ConnectionOptions
		if o.handler != nil {
			opt.Handler = o.handler(c)
		}
		if o.preempter != nil {
			opt.Preempter = o.preempter(c)
		}
		return opt
	}), nil)
	if err != nil {
		panic(err)
	}
	return c
}

// call issues a Call, awaits it and records the outcome; the payload of every reply encodes the id it answers.
func call(c *jsonrpc2.Connection, who string) {
	ac := c.Call(context.Background(), "m", who)
	id, _ := idOf(ac.ID())
	a := &awaitRec{who: who, id: id}
	vrt.Event("rec", "rec", 0)
	R.awaits = append(R.awaits, a)
	var res int64 = -1
	err := ac.Await(context.Background(), &res)
	vrt.Event("rec", "rec", 0)
	a.returned++
	a.result, a.err = res, err
}

func idOf(id jsonrpc2.ID) (int64, bool) {
	b, _ := json.Marshal(id.Raw())
	var n int64
	if json.Unmarshal(b, &n) == nil {
		return n, true
	}
	return 0, false
}

// ---------------- scripted peer ----------------
type peer struct {
	end *pipeEnd
	rd  jsonrpc2.Reader
	wr  jsonrpc2.Writer
}

func newPeer(end *pipeEnd) *peer {
	return &peer{end: end, rd: jsonrpc2.HeaderFramer().Reader(end), wr: jsonrpc2.HeaderFramer().Writer(end)}
}

// read reads one message from the connection under test; nil on EOF.
func (p *peer) read() jsonrpc2.Message {
	m, _, err := p.rd.Read(context.Background())
	if err != nil {
		return nil
	}
	vrt.Event("rec", "rec", 0)
	switch m := m.(type) {
	case *jsonrpc2.Request:
		if m.IsCall() {
			id, _ := idOf(m.ID)
			R.peerGot = append(R.peerGot, fmt.Sprintf("call:%d:%s", id, m.Method))
		} else {
			R.peerGot = append(R.peerGot, "notif:"+m.Method)
		}
	case *jsonrpc2.Response:
		id, _ := idOf(m.ID)
		R.peerResponses[fmt.Sprint(id)]++
	}
	return m
}

func (p *peer) reply(id int64) {
	resp, _ := jsonrpc2.NewResponse(jsonrpc2.Int64ID(id), id, nil)
	p.wr.Write(context.Background(), resp)
}
func (p *peer) sendCall(id int64, method string) {
	vrt.Event("rec", "rec", 0)
	R.peerSent[fmt.Sprint(id)]++
	m, _ := jsonrpc2.NewCall(jsonrpc2.Int64ID(id), method, nil)
	p.wr.Write(context.Background(), m)
}
func (p *peer) sendNotif(method string, params any) {
	m, _ := jsonrpc2.NewNotification(method, params)
	p.wr.Write(context.Background(), m)
}

// drain reads until EOF so that responses written by the connection are counted.
func (p *peer) drain() {
	for p.read() != nil {
	}
}

// ---------------- oracle ----------------
func check(allowed func(a *awaitRec) string) func(s *vrt.Sched) *vrt.Verdict {
	return func(s *vrt.Sched) *vrt.Verdict {
		if len(R.internalErrs) > 0 {
			return &vrt.Verdict{Key: "internal-error", What: "the connection reported an internal error", Detail: strings.Join(R.internalErrs, "; ")}
		}
		for _, a := range R.awaits {
			if a.returned != 1 {
				return &vrt.Verdict{Key: "await-not-returned-once", What: "an Await did not return exactly once", Detail: fmt.Sprintf("%+v stuck=%v notes=%v", *a, s.Stuck, R.notes)}
			}
			if a.err == nil && a.result != a.id {
				return &vrt.Verdict{Key: "await-wrong-answer", What: "an Await returned the answer to a different call", Detail: fmt.Sprintf("%+v notes=%v", *a, R.notes)}
			}
			if allowed != nil {
				if why := allowed(a); why != "" {
					return &vrt.Verdict{Key: "await-outcome-not-allowed", What: why, Detail: fmt.Sprintf("%+v notes=%v", *a, R.notes)}
				}
			}
		}
		for id, n := range R.peerResponses {
			if n > R.peerSent[id] {
				return &vrt.Verdict{Key: "incoming-call-answered-twice", What: "an incoming call received more responses than requests were sent with its id", Detail: fmt.Sprintf("id %s: %d requests, %d responses; notes=%v", id, R.peerSent[id], n, R.notes)}
			}
		}
		if R.closeWhileHandler {
			return &vrt.Verdict{Key: "close-returned-while-handler-running", What: "Close returned while a handler body was still running", Detail: fmt.Sprint(R.notes)}
		}
		if len(s.Stuck) > 0 {
			return &vrt.Verdict{Key: "thread-stuck", What: "a thread is still blocked at the end of the execution", Detail: fmt.Sprintf("%v notes=%v", s.Stuck, R.notes)}
		}
		return nil
	}
}

func closeConn(c *jsonrpc2.Connection) {
	c.Close()
	vrt.Event("rec", "rec", 0)
	R.closeReturned = true
	if R.handlerActive > 0 {
		R.closeWhileHandler = true
	}
	note("close-returned")
	R.closedCh.Close()
}

func observe() string {
	var sb strings.Builder
	for _, a := range R.awaits {
		e := "ok"
		if a.err != nil {
			e = "err"
			switch {
			case errors.Is(a.err, jsonrpc2.ErrClientClosing):
				e = "ErrClientClosing"
			case errors.Is(a.err, io.EOF):
				e = "EOF"
			}
		}
		fmt.Fprintf(&sb, "%s#%d=%d/%s x%d;", a.who, a.id, a.result, e, a.returned)
	}
	ids := []string{}
	for id, n := range R.peerResponses {
		ids = append(ids, fmt.Sprintf("%s:%d", id, n))
	}
	sort.Strings(ids)
	fmt.Fprintf(&sb, "peerGot=%v resp=%v runs=%v closeRet=%v notes=%v", R.peerGot, ids, R.handlerRuns, R.closeReturned, R.notes)
	return sb.String()
}

func reset() {
	R = &rec{peerResponses: map[string]int{}, handlerRuns: map[string]int{}, peerSent: map[string]int{}}
}

func scen(name string, body func(), allowed func(a *awaitRec) string) *vrt.Scenario {
	inner := body
	body = func() { R.closedCh = vrt.NewChan[struct{}](0); inner() }
	return &vrt.Scenario{Name: name, Reset: reset, Body: body, Observe: observe, Check: check(allowed), MaxSteps: 5000}
}

// an Await may end with its own reply or with an error; errors are not further restricted unless a scenario says so
func scenarios() []*vrt.Scenario {
	var scs []*vrt.Scenario

	// S1: two concurrent calls, the peer answers in reverse order, then disconnects.
	scs = append(scs, scen("S1-two-calls-reverse-replies", func() {
		a, b := newPipe()
		c := dial(a, connOpts{})
		p := newPeer(b)
		vrt.Go("T1", func() { call(c, "T1") })
		vrt.Go("T2", func() { call(c, "T2") })
		vrt.Go("P", func() {
			var ids []int64
			for i := 0; i < 2; i++ {
				if m, ok := p.read().(*jsonrpc2.Request); ok {
					id, _ := idOf(m.ID)
					ids = append(ids, id)
				}
			}
			for i := len(ids) - 1; i >= 0; i-- {
				p.reply(ids[i])
			}
			b.Close()
		})
	}, func(a *awaitRec) string {
		if a.err != nil {
			return "both calls were written and answered before the disconnect, yet Await returned an error: " + a.err.Error()
		}
		return ""
	}))

	// S2: Call || Close; the peer answers what it reads and goes away when the connection closes.
	scs = append(scs, scen("S2-call-vs-close", func() {
		a, b := newPipe()
		c := dial(a, connOpts{})
		p := newPeer(b)
		vrt.Go("T1", func() { call(c, "T1") })
		vrt.Go("T2", func() { closeConn(c) })
		vrt.Go("P", func() {
			for {
				m := p.read()
				if m == nil {
					break
				}
				if rq, ok := m.(*jsonrpc2.Request); ok && rq.IsCall() {
					id, _ := idOf(rq.ID)
					p.reply(id)
				}
			}
			b.Close()
		})
	}, nil))

	// S3: Call || peer disconnect (before reading, after reading, after replying).
	for _, mode := range []string{"eof-first", "read-then-eof", "reply-then-eof"} {
		mode := mode
		scs = append(scs, scen("S3-call-vs-disconnect-"+mode, func() {
			a, b := newPipe()
			c := dial(a, connOpts{})
			p := newPeer(b)
			vrt.Go("T1", func() { call(c, "T1") })
			vrt.Go("P", func() {
				switch mode {
				case "eof-first":
				case "read-then-eof":
					p.read()
				case "reply-then-eof":
					if m, ok := p.read().(*jsonrpc2.Request); ok {
						id, _ := idOf(m.ID)
						p.reply(id)
					}
				}
				b.Close()
			})
		}, func(a *awaitRec) string {
			if mode == "reply-then-eof" && a.err != nil {
				return "the call was answered before the disconnect, yet Await returned an error: " + a.err.Error()
			}
			if mode != "reply-then-eof" && a.err == nil {
				return "nobody answered, yet Await returned success"
			}
			return ""
		}))
	}

	// S4: incoming call with a blocking handler || cancel notification (Preempter -> Cancel) || release || Close.
	scs = append(scs, scen("S4-handler-cancel-close", func() {
		a, b := newPipe()
		release := vrt.NewChan[struct{}](0)
		c := dial(a, connOpts{
			handler: func(c *jsonrpc2.Connection) jsonrpc2.HandlerFunc {
				return func(ctx context.Context, req *jsonrpc2.Request) (any, error) {
					id, _ := idOf(req.ID)
					vrt.Event("rec", "rec", 0)
					R.handlerActive++
					R.handlerRuns[fmt.Sprint(id)]++
					sel := vrt.NewSel(false)
					vrt.AddRecv(sel, release)
					vrt.AddRecv(sel, ctx.Done())
					i := sel.Run()
					vrt.Event("rec", "rec", 0)
					R.handlerActive--
					if i == 1 {
						return nil, ctx.Err()
					}
					return id, nil
				}
			},
			preempter: func(c *jsonrpc2.Connection) jsonrpc2.PreempterFunc {
				return func(ctx context.Context, req *jsonrpc2.Request) (any, error) {
					if req.Method == "cancel" {
						var id int64
						json.Unmarshal(req.Params, &id)
						c.Cancel(jsonrpc2.Int64ID(id))
						return nil, nil
					}
					return nil, jsonrpc2.ErrNotHandled
				}
			},
		})
		p := newPeer(b)
		vrt.Go("P", func() {
			p.sendCall(7, "work")
			p.sendNotif("cancel", 7)
			p.drain()
			b.Close()
		})
		vrt.Go("T1", func() { release.Close() })
		vrt.Go("T2", func() { closeConn(c) })
	}, nil))

	// S5: ErrAsyncResponse + Respond || Close.
	scs = append(scs, scen("S5-async-respond-vs-close", func() {
		a, b := newPipe()
		got := vrt.NewChan[struct{}](1)
		c := dial(a, connOpts{handler: func(c *jsonrpc2.Connection) jsonrpc2.HandlerFunc {
			return func(ctx context.Context, req *jsonrpc2.Request) (any, error) {
				vrt.Event("rec", "rec", 0)
				R.handlerRuns["7"]++
				got.Send(struct{}{})
				return nil, jsonrpc2.ErrAsyncResponse
			}
		}})
		p := newPeer(b)
		vrt.Go("P", func() {
			p.sendCall(7, "work")
			p.drain()
			b.Close()
		})
		vrt.Go("T1", func() {
			// respond once the handler has returned ErrAsyncResponse; give up when Close has returned
			sel := vrt.NewSel(false)
			vrt.AddRecv(sel, got)
			vrt.AddRecv(sel, R.closedCh)
			if sel.Run() == 0 {
				c.Respond(jsonrpc2.Int64ID(7), 7, nil)
			}
		})
		vrt.Go("T2", func() { closeConn(c) })
	}, nil))

	// S7: Notify || Close.
	scs = append(scs, scen("S7-notify-vs-close", func() {
		a, b := newPipe()
		c := dial(a, connOpts{})
		p := newPeer(b)
		vrt.Go("T1", func() {
			err := c.Notify(context.Background(), "n", 1)
			note("notify-err=%v", err != nil)
		})
		vrt.Go("T2", func() { closeConn(c) })
		vrt.Go("P", func() { p.drain(); b.Close() })
	}, nil))

	// S8: the peer sends an unknown response id and a duplicate of the right one.
	scs = append(scs, scen("S8-unknown-and-duplicate-responses", func() {
		a, b := newPipe()
		c := dial(a, connOpts{})
		p := newPeer(b)
		vrt.Go("T1", func() { call(c, "T1") })
		vrt.Go("P", func() {
			if m, ok := p.read().(*jsonrpc2.Request); ok {
				id, _ := idOf(m.ID)
				p.reply(99)
				p.reply(id)
				p.reply(id)
			}
			b.Close()
		})
	}, func(a *awaitRec) string {
		if a.err != nil {
			return "the call was answered, yet Await returned an error: " + a.err.Error()
		}
		return ""
	}))

	// S9: the peer reuses a request id while the first request is still being handled.
	scs = append(scs, scen("S9-reused-request-id", func() {
		a, b := newPipe()
		release := vrt.NewChan[struct{}](0)
		_ = dial(a, connOpts{handler: func(c *jsonrpc2.Connection) jsonrpc2.HandlerFunc {
			return func(ctx context.Context, req *jsonrpc2.Request) (any, error) {
				id, _ := idOf(req.ID)
				vrt.Event("rec", "rec", 0)
				R.handlerRuns[fmt.Sprint(id)]++
				if id == 7 {
					release.Recv()
				}
				return id, nil
			}
		}})
		p := newPeer(b)
		vrt.Go("P", func() {
			p.sendCall(7, "work")
			p.sendCall(7, "work")
			p.sendCall(8, "work")
			release.Close()
			// two or three responses arrive (the duplicate is dropped while the first 7 is in flight,
			// and answered if the first one had already completed): read until the handler for 8 answered
			for R.peerResponses["8"] == 0 {
				if p.read() == nil {
					break
				}
			}
			b.Close()
		})
	}, nil))

	// S10: the write side breaks under a caller.
	scs = append(scs, scen("S10-write-failure", func() {
		a, b := newPipe()
		c := dial(a, connOpts{})
		vrt.Go("T1", func() { call(c, "T1") })
		vrt.Go("T2", func() {
			vrt.SchedPoint("fail-writes")
			vrt.Event("pipe-fail", a.out, 0)
			*a.failWrites = true
		})
		vrt.Go("P", func() {
			p := newPeer(b)
			if m, ok := p.read().(*jsonrpc2.Request); ok && m.IsCall() {
				id, _ := idOf(m.ID)
				p.reply(id)
			}
			b.Close()
		})
	}, nil))

	// S6: two real connections back to back; a call that calls back; both closed.
	scs = append(scs, scen("S6-two-connections-callback", func() {
		a, b := newPipe()
		var C, D *jsonrpc2.Connection
		C = dial(a, connOpts{handler: func(c *jsonrpc2.Connection) jsonrpc2.HandlerFunc {
			return func(ctx context.Context, req *jsonrpc2.Request) (any, error) { return 42, nil }
		}})
		D = dial(b, connOpts{handler: func(d *jsonrpc2.Connection) jsonrpc2.HandlerFunc {
			return func(ctx context.Context, req *jsonrpc2.Request) (any, error) {
				var r int64
				if err := d.Call(ctx, "pong", nil).Await(ctx, &r); err != nil {
					return nil, err
				}
				return r, nil
			}
		}})
		vrt.Go("T1", func() {
			var r int64 = -1
			err := C.Call(context.Background(), "ping", nil).Await(context.Background(), &r)
			note("ping=%d err=%v", r, err != nil)
			if err == nil && r != 42 {
				R.internalErrs = append(R.internalErrs, fmt.Sprintf("ping returned %d", r))
			}
		})
		vrt.Go("T2", func() { closeConn(C) })
		vrt.Go("T3", func() { D.Close() })
	}, nil))
	scs[len(scs)-1].BoundDelta = -1 // two full connections: one preemption less than the others
	return scs
}

func main() {
	if os.Getenv("C39_BFS_TRY") != "" {
		var pr bfsParams
		var mc int
		fmt.Sscanf(os.Getenv("C39_BFS_TRY"), "%d,%d,%d,%d,%d,%d,%d", &pr.depth, &mc, &pr.maxIn, &pr.schedDep, &pr.schedB, &pr.pairDep, &pr.pairB)
		pr.maxCalls = int64(mc)
		t0 := time.Now()
		nodes, tr := enumerate(pr.depth, pr.maxCalls, pr.maxIn)
		fmt.Printf("model: states=%d transitions=%d maxdepth=%d in %v\n", len(nodes), tr, nodes[len(nodes)-1].depth, time.Since(t0))
		st := runShard(nodes, pr, 0, 1, nil)
		fmt.Printf("impl: transitions=%d schedStates=%d schedExecs=%d pairs=%d pairExecs=%d classes=%v in %v\n", st.Transitions, st.SchedStates, st.SchedExecs, st.Pairs, st.PairExecs, st.PairClasses, time.Since(t0))
		for _, f := range st.Found {
			fmt.Printf("FOUND %s %v %v: %s\n   %s\n", f.Kind, f.Events, f.Choices, f.V.Key, f.V.Detail)
		}
		return
	}
	c := engine.New("C39", "model_checking")
	smode.Extras = append(smode.Extras, bfsExtra())
	smode.Main(c, scenarios(), 1, 2,
		"Scenarios on the real x/jsonrpc2 Connection (rewritten onto vrt) through its public API over an in-memory pipe: S1 two concurrent calls answered in reverse order; S2 Call || Close; S3 Call || disconnect (3 timings); S4 blocking handler || cancel notification via Preempter || release || Close; S5 ErrAsyncResponse + Respond || Close; S6 two connections with a call-back, both closed; S7 Notify || Close; S8 unknown and duplicate response ids; S9 reused request id; S10 write failure. "+
			"Explicit-state search (appendix H): the reachable states of the connection state machine under the event menu {Call, Notify, peer response (own ids, unknown id), peer call / asynchronously answered call (ids 7, 8), peer notification, handler completion, Respond, Cancel, Close, peer EOF, write failure} are enumerated breadth-first to the fixpoint; every transition is executed on a fresh real Connection (shortest path replayed, then the event, then quiescence) and the private in-flight state read by reflection, every Await outcome, the wire log and the return values are compared with the reference model after every event; shallow states are additionally run under every schedule within the preemption bound, and every ordered pair of enabled events is started concurrently from every shallow state and judged by the state invariants.",
		[]string{"oracle per execution: every Await returns exactly once, with an error or the reply carrying its own id (and the scenario's allowed outcomes); no internal error/panic; every incoming id is answered at most once on the wire; Close never returns while a handler body runs; no thread is left blocked",
			"the two map iterations of conn.go that only retire/cancel entries are iterated in sorted order (their order is not observable to the property)",
			"explicit-state search: states are identified by the reference model's canonical state, which is sound because every state reached on the implementation is first checked to project exactly onto that model state; bounds: outgoing calls per history and incoming requests in flight as recorded in bfs_bounds; Respond is issued only where the API allows it (asynchronously answered calls) or for an id that is not in flight (documented internal error)"})
}

// ---------------- explicit-state search as extra blocks of the same job ----------------

const bfsShards = 48

func bfsTier(thorough bool) bfsParams {
	if thorough {
		return bfsParams{depth: 99, maxCalls: 3, maxIn: 4, schedDep: 4, schedB: 1, pairDep: 2, pairB: 1}
	}
	return bfsParams{depth: 99, maxCalls: 2, maxIn: 3, schedDep: 3, schedB: 1, pairDep: 1, pairB: 1}
}

func encodeEvs(evs []event) []int {
	out := make([]int, len(evs))
	for i, e := range evs {
		out[i] = e.code()
	}
	return out
}

func bfsExtra() *smode.Extra {
	return &smode.Extra{
		Name:      "B-",
		NumBlocks: bfsShards,
		Run: func(w *engine.W, blk int, thorough bool, deadline time.Time) {
			if !w.Item(smode.Case{Scenario: fmt.Sprintf("B-shard-%d", blk)}) {
				return
			}
			pr := bfsTier(thorough)
			nodes, tr := enumerate(pr.depth, pr.maxCalls, pr.maxIn)
			st := runShard(nodes, pr, blk, bfsShards, func() bool { return time.Now().After(deadline) })
			if blk == 0 {
				w.HistN("bfs:model_states", int64(len(nodes)))
				w.HistN("bfs:model_transitions", int64(tr))
				w.HistN("bfs:max_depth", int64(nodes[len(nodes)-1].depth))
				w.HistN(fmt.Sprintf("bfs:bounds:maxCalls=%d,maxIncoming=%d,scheduleDepth=%d/bound=%d,pairDepth=%d/bound=%d", pr.maxCalls, pr.maxIn, pr.schedDep, pr.schedB, pr.pairDep, pr.pairB), 1)
			}
			w.HistN("bfs:transitions_executed", st.Transitions)
			w.HistN("bfs:schedule_states", st.SchedStates)
			w.HistN("bfs:schedule_executions", st.SchedExecs)
			w.HistN("bfs:pairs", st.Pairs)
			w.HistN("bfs:pair_executions", st.PairExecs)
			for k, v := range st.PairClasses {
				w.HistN("bfs:pair_outcome_"+k, v)
			}
			if st.Capped {
				w.HistN("capped:bfs-deadline", 1)
			}
			for i := int64(1); i < st.Transitions+st.SchedExecs+st.PairExecs; i++ {
				w.CountEval()
			}
			for _, f := range st.Found {
				sc := "B-BFS"
				evs := f.Events
				if f.Kind == "PAIR" {
					sc = "B-PAIR"
				}
				w.Fail(smode.Case{Scenario: sc, Events: encodeEvs(evs), Choices: f.Choices},
					&engine.Failure{Key: sc + ":" + f.V.Key, What: f.V.What, Detail: fmt.Sprintf("events=%v choices=%v\n%s", evs, f.Choices, f.V.Detail)})
			}
		},
		Replay: func(k smode.Case) *engine.Failure {
			var evs []event
			for _, c := range k.Events {
				evs = append(evs, decodeEv(c))
			}
			var sc *vrt.Scenario
			if k.Scenario == "B-PAIR" && len(evs) >= 2 {
				sc = pairScenario(evs[:len(evs)-2], evs[len(evs)-2], evs[len(evs)-1])
			} else {
				sc = bfsScenario(evs)
			}
			if _, v := vrt.RunOnce(sc, k.Choices); v != nil {
				return &engine.Failure{Key: k.Scenario + ":" + v.Key, What: v.What, Detail: v.Detail}
			}
			return nil
		},
		Traces: func(h map[string]int64) int64 {
			return h["bfs:transitions_executed"] + h["bfs:schedule_executions"] + h["bfs:pair_executions"]
		},
		Fold: func(c *engine.Check, h map[string]int64) {
			c.Extra["bfs_model_states"] = h["bfs:model_states"]
			c.Extra["bfs_model_transitions"] = h["bfs:model_transitions"]
			c.Extra["bfs_transitions_executed_on_implementation"] = h["bfs:transitions_executed"]
			c.Extra["bfs_max_depth_fixpoint"] = h["bfs:max_depth"]
			c.Extra["bfs_schedule_states"] = h["bfs:schedule_states"]
			c.Extra["bfs_schedule_executions"] = h["bfs:schedule_executions"]
			c.Extra["bfs_concurrent_pairs"] = h["bfs:pairs"]
			c.Extra["bfs_concurrent_pair_executions"] = h["bfs:pair_executions"]
			c.Extra["bfs_pair_outcomes_equal_to_a_sequential_order"] = h["bfs:pair_outcome_serialisable"]
			c.Extra["bfs_pair_outcomes_equal_to_neither_order_(judged_by_invariants_only)"] = h["bfs:pair_outcome_neither"]
			for k := range h {
				if strings.HasPrefix(k, "bfs:bounds:") {
					c.Extra["bfs_bounds"] = strings.TrimPrefix(k, "bfs:bounds:")
				}
			}
			if h["bfs:model_transitions"] != h["bfs:transitions_executed"] {
				c.Cap(fmt.Sprintf("explicit-state search: %d of %d model transitions were executed on the implementation", h["bfs:transitions_executed"], h["bfs:model_transitions"]))
			}
		},
	}
}

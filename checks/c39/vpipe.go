package main

import (
	"errors"
	"io"

	"verif/engine/vrt"
)

// vpipe: an in-memory full-duplex byte pipe built on vrt primitives only.
type half struct {
	q      *vrt.Chan[[]byte]
	closed *vrt.Chan[struct{}]
	isShut bool
	rest   []byte
}

type pipeEnd struct {
	name       string
	in, out    *half
	failWrites *bool
	wrote      *[]string // raw frames written through this end (for the wire log)
}

func newPipe() (a, b *pipeEnd) {
	ab := &half{q: vrt.NewChan[[]byte](64), closed: vrt.NewChan[struct{}](0)}
	ba := &half{q: vrt.NewChan[[]byte](64), closed: vrt.NewChan[struct{}](0)}
	fa, fb := new(bool), new(bool)
	return &pipeEnd{name: "conn", in: ba, out: ab, failWrites: fa, wrote: new([]string)},
		&pipeEnd{name: "peer", in: ab, out: ba, failWrites: fb, wrote: new([]string)}
}

func (h *half) shut() {
	if !h.isShut {
		h.isShut = true
		h.closed.Close()
	}
}

func (p *pipeEnd) Read(b []byte) (int, error) {
	h := p.in
	if len(h.rest) == 0 {
		if h.q.Len() > 0 { // data written before a close is delivered before EOF
			h.rest = h.q.Recv()
		} else {
			sel := vrt.NewSel(false)
			r := vrt.AddRecv(sel, h.q)
			vrt.AddRecv(sel, h.closed)
			if sel.Run() != 0 {
				if h.q.Len() > 0 {
					h.rest = h.q.Recv()
				} else {
					return 0, io.EOF
				}
			} else {
				h.rest = r.Val()
			}
		}
	}
	n := copy(b, h.rest)
	h.rest = h.rest[n:]
	return n, nil
}

var errBrokenPipe = errors.New("vpipe: write failed (injected)")

func (p *pipeEnd) Write(b []byte) (int, error) {
	vrt.SchedPoint("pipe.Write")
	vrt.Event("pipe-write", p.out, 0)
	if *p.failWrites {
		return 0, errBrokenPipe
	}
	if p.out.isShut {
		return 0, io.ErrClosedPipe
	}
	*p.wrote = append(*p.wrote, string(b))
	p.out.q.Send(append([]byte(nil), b...))
	return len(b), nil
}

// Close closes both directions (like closing a socket).
func (p *pipeEnd) Close() error {
	p.in.shut()
	p.out.shut()
	return nil
}

//go:build linux && amd64

// C26: `xgo fmt` never loses a file at any crash point and keeps its mode.
//
// Fault / crash-point enumeration on the REAL binary. The command is built from
// the tree the check itself is linked against, run under a ptrace tracer
// (verif/engine/ptracer), and for every file-system-mutating system call k that
// concerns the target directory the whole process tree is SIGKILLed once at the
// entry stop of call k (the call is NOT executed) and once at its exit stop (it
// has completed). After each kill the directory is inspected:
//
//	every target path exists and holds exactly the original or exactly the
//	formatted bytes (for -mvgo: the old path holds the complete original OR the
//	new path holds the complete formatted content), with the original mode.
//
// After an unkilled successful run every target holds the formatted bytes
// (computed independently in-process by the formatting library, not taken from
// the command's own output) and still has its original permission bits.
package main

import (
	"bytes"
	"fmt"
	"go/parser"
	"go/token"
	"os"
	"os/exec"
	"os/signal"
	"path/filepath"
	"runtime/debug"
	"sort"
	"strconv"
	"strings"
	"syscall"
	"time"

	goformat "go/format"

	"github.com/goplus/xgo/format"
	xformat "github.com/goplus/xgo/x/format"
	"verif/engine"
	"verif/engine/ptracer"
)

// ---------------------------------------------------------------- test data

type kindSpec struct {
	Name  string
	Ext   string
	Flags []string
	Mvgo  bool
	Srcs  [3]string // [0] is the single-file content; all three for a directory run
}

var kinds = []kindSpec{
	{"xgo", ".xgo", nil, false, [3]string{
		"x:=1\nprintln  x\n",
		"import \"fmt\"\nfunc  f( a int ){\nfmt.Println(a)\n}\nf  2\n",
		"var  s=[1,2,3]\nfor v<-s{\nprintln v\n}\n"}},
	{"gox", ".gox", nil, false, [3]string{
		"var (\n  x int\n)\nfunc  onStart() {\nprintln  x\n}\n",
		"func  onInit(){\n}\n",
		"var (\n n  int\n)\nfunc  step( d int ){\nn+=d\n}\n"}},
	{"go", ".go", nil, false, [3]string{
		"package main\nimport \"fmt\"\nfunc main() {\nfmt.Println( \"hi\" )\n}\n",
		"package main\nfunc  add(a,b int)int{return a+b}\n",
		"package main\nvar  x  =  1\n"}},
	{"xgo-smart", ".xgo", []string{"--smart"}, false, [3]string{
		"package main\nimport \"fmt\"\nfunc main() {\nfmt.Println(\"hi\")\n}\n",
		"import \"fmt\"\nfmt.Println(\"a\", 1)\n",
		"package main\nimport \"fmt\"\nfunc f() {\nfmt.Printf(\"%d\\n\", 1)\n}\nfunc main() {\nf()\n}\n"}},
	{"go-smart-mvgo", ".go", []string{"--smart", "-mvgo"}, true, [3]string{
		"package main\n\nimport \"fmt\"\n\nfunc main() {\n\tfmt.Println(\"hi\")\n}\n",
		"package main\n\nimport \"fmt\"\n\nfunc main() {\n\tfmt.Println(\"a\", 1)\n}\n",
		"package main\n\nimport \"fmt\"\n\nfunc f() {\n\tfmt.Printf(\"%d\\n\", 1)\n}\n\nfunc main() {\n\tf()\n}\n"}},
}

// original modes; several carry bits that the usual umask (022, set explicitly in main) masks out, so an
// implementation that creates the replacement file with the original mode instead of chmod-ing it shows up
var modes = []uint32{0o644, 0o600, 0o755, 0o444, 0o664, 0o666, 0o775, 0o777, 0o640}

func kindByName(n string) *kindSpec {
	for i := range kinds {
		if kinds[i].Name == n {
			return &kinds[i]
		}
	}
	return nil
}

// expected computes the formatted bytes with the library, independently of the
// command's file-writing code (which is what is under test).
func expected(k *kindSpec, src []byte, path string) ([]byte, error) {
	switch {
	case k.Mvgo || (len(k.Flags) > 0 && k.Ext != ".go"):
		return xformat.GopstyleSource(src, path)
	case k.Ext == ".go":
		fset := token.NewFileSet()
		f, err := parser.ParseFile(fset, path, src, parser.ParseComments)
		if err != nil {
			return nil, err
		}
		var buf bytes.Buffer
		if err = goformat.Node(&buf, fset, f); err != nil {
			return nil, err
		}
		return buf.Bytes(), nil
	default:
		return format.Source(src, k.Ext == ".gox", path)
	}
}

// ---------------------------------------------------------------- cases

// Config is one (file kind, original mode, single file / directory) setting.
type Config struct {
	Kind string `json:"kind"`
	Mode uint32 `json:"mode"`
	Dir  bool   `json:"dir"`
}

func (g Config) String() string {
	s := fmt.Sprintf("%s/%04o/", g.Kind, g.Mode)
	if g.Dir {
		return s + "dir3"
	}
	return s + "file"
}

// Case is one run: K=0 is the unkilled run, otherwise kill at the entry or
// exit stop of the K-th FS-mutating call on the target directory.
type Case struct {
	Config
	K      int    `json:"k"`
	Moment string `json:"moment"` // "entry" | "exit" | "none"
}

type target struct {
	name, newName string // newName != "" only for -mvgo
	orig, want    []byte
}

// ---------------------------------------------------------------- syscall tracking

const atFdCwd = -100

// call is one FS-mutating system call that concerns the watched directory.
type call struct {
	Name string `json:"name"`
	Obj  string `json:"obj"` // normalised object: base name, "<tmp>", "a→b"
	Ret  int64  `json:"ret"`
	done bool
}

type fdKey struct{ tgid, fd int }

type tracker struct {
	root    string           // watched directory (absolute, clean)
	cwd     string           // cwd of the traced command
	known   map[string]bool  // base names that are not temp files
	fds     map[fdKey]string // fds opened for writing on watched paths
	pending map[int]int      // tid → index into calls of the call it is inside
	opening map[int]string   // tid → path being opened
	calls   []call
	killK   int
	killAt  string
	killed  *call
}

func newTracker(root, cwd string, known map[string]bool, k int, moment string) *tracker {
	return &tracker{root: filepath.Clean(root), cwd: cwd, known: known, fds: map[fdKey]string{},
		pending: map[int]int{}, opening: map[int]string{}, killK: k, killAt: moment}
}

func (t *tracker) resolve(tid int, dirfd int32, p string) string {
	if p == "" {
		return ""
	}
	if !filepath.IsAbs(p) {
		base := t.cwd
		if int(dirfd) != atFdCwd {
			if l, err := os.Readlink(fmt.Sprintf("/proc/%d/fd/%d", tid, dirfd)); err == nil {
				base = l
			}
		}
		p = filepath.Join(base, p)
	}
	return filepath.Clean(p)
}

func (t *tracker) inside(p string) bool {
	return p == t.root || strings.HasPrefix(p, t.root+"/")
}

func (t *tracker) norm(p string) string {
	if p == t.root {
		return "."
	}
	b := filepath.Base(p)
	if t.known[b] {
		return b
	}
	return "<tmp>"
}

// classify decides at an entry stop whether the call mutates the watched
// directory; it returns the normalised object or ok=false.
func (t *tracker) classify(tr ptracer.Tracer, s *ptracer.Stop) (obj string, ok bool) {
	str := func(i int) string { return tr.ReadString(s.Tid, s.Args[i]) }
	path := func(dfd int32, i int) string { return t.resolve(s.Tid, dfd, str(i)) }
	one := func(p string) (string, bool) {
		if t.inside(p) {
			return t.norm(p), true
		}
		return "", false
	}
	two := func(a, b string) (string, bool) {
		if t.inside(a) || t.inside(b) {
			na, nb := "<outside>", "<outside>"
			if t.inside(a) {
				na = t.norm(a)
			}
			if t.inside(b) {
				nb = t.norm(b)
			}
			return na + "→" + nb, true
		}
		return "", false
	}
	const wr = syscall.O_CREAT | syscall.O_TRUNC | syscall.O_WRONLY | syscall.O_RDWR
	fd := func() (string, bool) {
		if p, ok := t.fds[fdKey{s.Tgid, int(int32(s.Args[0]))}]; ok {
			return t.norm(p), true
		}
		return "", false
	}
	switch s.Name() {
	case "open":
		if p := path(atFdCwd, 0); s.Args[1]&wr != 0 && t.inside(p) {
			t.opening[s.Tid] = p
			return t.norm(p), true
		}
	case "creat":
		if p := path(atFdCwd, 0); t.inside(p) {
			t.opening[s.Tid] = p
			return t.norm(p), true
		}
	case "openat":
		if p := path(int32(s.Args[0]), 1); s.Args[2]&wr != 0 && t.inside(p) {
			t.opening[s.Tid] = p
			return t.norm(p), true
		}
	case "openat2": // flags live in a struct; be conservative: every open of a watched path counts
		if p := path(int32(s.Args[0]), 1); t.inside(p) {
			t.opening[s.Tid] = p
			return t.norm(p), true
		}
	case "write", "pwrite64", "writev", "pwritev", "pwritev2", "ftruncate", "fsync", "fdatasync",
		"fchmod", "fchown", "fallocate", "close", "fsetxattr":
		return fd()
	case "rename":
		return two(path(atFdCwd, 0), path(atFdCwd, 1))
	case "renameat", "renameat2", "linkat":
		return two(path(int32(s.Args[0]), 1), path(int32(s.Args[2]), 3))
	case "link":
		return two(path(atFdCwd, 0), path(atFdCwd, 1))
	case "symlink":
		return one(path(atFdCwd, 1))
	case "symlinkat":
		return one(path(int32(s.Args[1]), 2))
	case "unlink", "rmdir", "chmod", "chown", "lchown", "truncate", "mkdir", "mknod", "setxattr", "lsetxattr", "utime", "utimes":
		return one(path(atFdCwd, 0))
	case "unlinkat", "fchmodat", "fchmodat2", "fchownat", "mkdirat", "mknodat", "utimensat", "futimesat":
		return one(path(int32(s.Args[0]), 1))
	}
	return "", false
}

// fsCalls are the system calls classify looks at (the seccomp filter of the
// tracer's filtered mode stops exactly these).
var fsCalls = []string{"open", "creat", "openat", "openat2", "write", "pwrite64", "writev", "pwritev", "pwritev2",
	"ftruncate", "fsync", "fdatasync", "fchmod", "fchown", "fallocate", "close", "fsetxattr", "rename", "renameat",
	"renameat2", "linkat", "link", "symlink", "symlinkat", "unlink", "rmdir", "chmod", "chown", "lchown", "truncate",
	"mkdir", "mknod", "setxattr", "lsetxattr", "utime", "utimes", "unlinkat", "fchmodat", "fchmodat2", "fchownat",
	"mkdirat", "mknodat", "utimensat", "futimesat"}

func (t *tracker) handle(tr ptracer.Tracer, s *ptracer.Stop) ptracer.Action {
	if s.Entry {
		obj, ok := t.classify(tr, s)
		if !ok {
			return ptracer.Continue
		}
		t.calls = append(t.calls, call{Name: s.Name(), Obj: obj})
		t.pending[s.Tid] = len(t.calls) - 1
		if t.killAt == "entry" && len(t.calls) == t.killK {
			t.killed = &t.calls[len(t.calls)-1]
			return ptracer.Kill
		}
		return ptracer.Continue
	}
	i, ok := t.pending[s.Tid]
	if !ok {
		return ptracer.Continue
	}
	delete(t.pending, s.Tid)
	t.calls[i].Ret, t.calls[i].done = s.Ret, true
	switch s.Name() {
	case "open", "openat", "openat2", "creat":
		if s.Ret >= 0 {
			t.fds[fdKey{s.Tgid, int(s.Ret)}] = t.opening[s.Tid]
		}
		delete(t.opening, s.Tid)
	case "close":
		if s.Ret == 0 {
			delete(t.fds, fdKey{s.Tgid, int(int32(s.Args[0]))})
		}
	}
	if t.killAt == "exit" && i+1 == t.killK {
		t.killed = &t.calls[i]
		return ptracer.Kill
	}
	return ptracer.Continue
}

func sig(cs []call) []string { // order-sensitive signature of a call list
	out := make([]string, len(cs))
	for i, c := range cs {
		out[i] = c.Name + "(" + c.Obj + ")"
	}
	return out
}

// ---------------------------------------------------------------- harness state

var (
	c        *engine.Check
	scratch  string
	xgoBin   string
	repoRoot string
	work     string // the directory handed to xgo fmt; same path in every run
	outLog   string
	listings = map[string][]call{} // config → reference list of FS-mutating calls
	finalBad = map[string]map[string]uint32{}

	totalStops, totalChecked int64 // syscall stops seen / cross-checked with PTRACE_GET_SYSCALL_INFO
	launcher                 string
	filterNrs                []int // nil: full tracing (every syscall stops); else seccomp-filtered tracing
)

func findRepo() string {
	if r := os.Getenv("C26_REPO"); r != "" {
		return r
	}
	if bi, ok := debug.ReadBuildInfo(); ok {
		for _, d := range bi.Deps {
			if d.Path == "github.com/goplus/xgo" && d.Replace != nil && filepath.IsAbs(d.Replace.Path) {
				return d.Replace.Path
			}
		}
	}
	return "/repo"
}

func setup() {
	var err error
	os.MkdirAll("/var/tmp", 0o1777)
	if scratch, err = os.MkdirTemp("/var/tmp", "verif-c26."); err != nil {
		die("scratch: %v", err)
	}
	repoRoot = findRepo()
	xgoBin = filepath.Join(scratch, "xgo")
	work = filepath.Join(scratch, "w")
	outLog = filepath.Join(scratch, "out.log")
	cmd := exec.Command("go", "build", "-o", xgoBin, "./cmd/xgo")
	cmd.Dir = repoRoot
	cmd.Env = append(os.Environ(), "GOFLAGS=-mod=mod", "GOPROXY=off", "GOSUMDB=off", "GOTOOLCHAIN=local")
	t0 := time.Now()
	if out, err := cmd.CombinedOutput(); err != nil {
		cleanup()
		fmt.Printf("BUILD-FAILED property=C26 (cmd/xgo of %s does not compile; no verdict)\n%s\n", repoRoot, tail(out, 2000))
		os.Exit(2)
	}
	c.Extra["xgo_build_s"] = float64(int(time.Since(t0).Seconds()*10)) / 10
	c.Extra["tree"] = repoRoot
}

// expired: the tiers have wall-clock limits (quick 200 s, thorough 10 min, both
// including the build of cmd/xgo). On a loaded machine a traced run can cost
// several times its normal 0.15 s, so the enumeration stops early (Cap,
// exhaustive=false) rather than overrun; single-file configurations come first.
func expired() bool {
	budget := 200 * time.Second
	if c.Thorough() {
		budget = 540 * time.Second
	}
	return c.Expired() || time.Since(startTime) > budget
}

var startTime = time.Now()

// die is a harness error (exit 2, no verdict); the scratch directory is removed first.
func die(format string, a ...any) {
	cleanup()
	c.Fatal(format, a...)
}

func cleanup() {
	if scratch != "" {
		os.RemoveAll(scratch)
	}
}

func tail(b []byte, n int) string {
	if len(b) > n {
		b = b[len(b)-n:]
	}
	return string(b)
}

func childEnv() []string {
	return []string{"PATH=" + os.Getenv("PATH"), "HOME=" + os.Getenv("HOME"), "XGOROOT=" + repoRoot,
		"GOFLAGS=-mod=mod", "GOPROXY=off", "GOSUMDB=off", "GOTOOLCHAIN=local"}
}

// populate recreates the work directory for g and returns its targets.
func populate(g Config) []target {
	k := kindByName(g.Kind)
	if k == nil {
		die("unknown kind %q", g.Kind)
	}
	os.RemoveAll(work)
	if err := os.Mkdir(work, 0o755); err != nil {
		die("mkdir: %v", err)
	}
	n := 1
	if g.Dir {
		n = 3
	}
	var ts []target
	for i := 0; i < n; i++ {
		t := target{name: string(rune('a'+i)) + k.Ext, orig: []byte(k.Srcs[i])}
		if k.Mvgo {
			t.newName = string(rune('a'+i)) + ".xgo"
		}
		p := filepath.Join(work, t.name)
		want, err := expected(k, t.orig, p)
		if err != nil {
			die("test data %s[%d] does not format: %v", k.Name, i, err)
		}
		t.want = want
		if len(want) == 0 || bytes.HasPrefix(want, t.orig) || bytes.HasPrefix(t.orig, want) {
			die("test data %s[%d]: original and formatted text are not distinguishable", k.Name, i)
		}
		if err := os.WriteFile(p, t.orig, 0o600); err != nil {
			die("write: %v", err)
		}
		if err := os.Chmod(p, os.FileMode(g.Mode)); err != nil {
			die("chmod: %v", err)
		}
		ts = append(ts, t)
	}
	return ts
}

func knownNames(ts []target) map[string]bool {
	m := map[string]bool{}
	for _, t := range ts {
		m[t.name] = true
		if t.newName != "" {
			m[t.newName] = true
		}
	}
	return m
}

// runTraced executes one traced run of xgo fmt on a fresh work directory.
func runTraced(g Config, k int, moment string) ([]target, *tracker, ptracer.Result) {
	ts := populate(g)
	kd := kindByName(g.Kind)
	arg := work
	if !g.Dir {
		arg = filepath.Join(work, ts[0].name)
	}
	argv := append([]string{xgoBin, "fmt"}, kd.Flags...)
	argv = append(argv, arg)
	os.Remove(outLog)
	tk := newTracker(work, scratch, knownNames(ts), k, moment)
	res, err := ptracer.Cmd{Argv: argv, Env: childEnv(), Dir: scratch, OutFile: outLog, Filter: filterNrs, Launcher: launcher}.Run(tk.handle)
	if err != nil {
		die("tracer: %v", err)
	}
	if len(res.Survivors) > 0 {
		die("traced processes survived the run: %v", res.Survivors)
	}
	totalStops += int64(res.Stops)
	totalChecked += int64(res.InfoChecks)
	return ts, tk, res
}

// ---------------------------------------------------------------- oracle

type finding struct {
	what   string // "path-missing" | "content-truncated" | "content-mixed" | "mode-changed"
	file   string
	detail string
	mode   uint32
}

func classifyContent(got []byte, t target) string {
	switch {
	case bytes.Equal(got, t.orig):
		return "original"
	case bytes.Equal(got, t.want):
		return "formatted"
	case bytes.HasPrefix(t.orig, got) || bytes.HasPrefix(t.want, got):
		return "content-truncated"
	}
	return "content-mixed"
}

// inspect judges the work directory. It returns the findings, the number of
// stray (temporary) files and per-target state labels.
func inspect(g Config, ts []target) (fs []finding, stray int, states []string) {
	known := knownNames(ts)
	if ents, err := os.ReadDir(work); err == nil {
		for _, e := range ents {
			if !known[e.Name()] {
				stray++
			}
		}
	}
	read := func(name string) (b []byte, mode uint32, ok bool) {
		p := filepath.Join(work, name)
		st, err := os.Lstat(p)
		if err != nil {
			return nil, 0, false
		}
		b, err = os.ReadFile(p)
		if err != nil {
			die("cannot read back %s: %v", p, err)
		}
		return b, uint32(st.Mode().Perm()), true
	}
	for _, t := range ts {
		if t.newName != "" { // -mvgo: old complete original OR new complete formatted
			ob, _, ook := read(t.name)
			nb, _, nok := read(t.newName)
			oldOK := ook && bytes.Equal(ob, t.orig)
			newOK := nok && bytes.Equal(nb, t.want)
			switch {
			case oldOK && newOK:
				states = append(states, "mvgo:both-complete")
			case oldOK:
				states = append(states, "mvgo:old-original(new:"+map[bool]string{true: "partial", false: "absent"}[nok]+")")
			case newOK:
				states = append(states, "mvgo:new-formatted")
			case !ook && !nok:
				states = append(states, "path-missing")
				fs = append(fs, finding{what: "path-missing", file: t.name, detail: "neither " + t.name + " nor " + t.newName + " exists"})
			default:
				got, nm := nb, t.newName
				if !nok {
					got, nm = ob, t.name
				}
				w := classifyContent(got, t)
				if w == "original" || w == "formatted" {
					w = "content-mixed" // complete text under the wrong name only
				}
				states = append(states, w)
				fs = append(fs, finding{what: w, file: nm, detail: fmt.Sprintf("old exists=%v %q, new exists=%v %q", ook, ob, nok, nb)})
			}
			continue
		}
		b, mode, ok := read(t.name)
		if !ok {
			states = append(states, "path-missing")
			fs = append(fs, finding{what: "path-missing", file: t.name, detail: t.name + " does not exist"})
			continue
		}
		w := classifyContent(b, t)
		states = append(states, w)
		if w != "original" && w != "formatted" {
			fs = append(fs, finding{what: w, file: t.name, detail: fmt.Sprintf("%s holds %d bytes %q; original %q; formatted %q", t.name, len(b), b, t.orig, t.want)})
			continue
		}
		if mode != g.Mode {
			fs = append(fs, finding{what: "mode-changed", file: t.name, mode: mode,
				detail: fmt.Sprintf("%s (%s content) has mode %04o, original mode %04o", t.name, w, mode, g.Mode)})
		}
	}
	return
}

func where(list []call, k int, moment string) string {
	nm := func(i int) string {
		if i < 1 {
			return "start"
		}
		if i > len(list) {
			return "end"
		}
		return list[i-1].Name
	}
	if moment == "entry" {
		return "between:" + nm(k-1) + "→" + nm(k)
	}
	return "between:" + nm(k) + "→" + nm(k+1)
}

// listing performs the unkilled reference run of g (twice: the second run must
// show the identical ordered call list) and judges the final state.
func listing(g Config) (list []call, fail []*engine.Failure) {
	ts, tk, res := runTraced(g, 0, "none")
	c.Eval(1)
	list = tk.calls
	ts2, tk2, res2 := runTraced(g, 0, "none")
	_ = ts2
	a, b := sig(list), sig(tk2.calls)
	if strings.Join(a, " ") != strings.Join(b, " ") || res.ExitCode != res2.ExitCode {
		die("listing of %v is not deterministic:\n %v\n %v", g, a, b)
	}
	c.Hist("listing_runs_identical", 1)
	// the second run's directory is the one on disk now; both runs are unkilled and equal
	fs, stray, states := inspect(g, ts)
	c.Hist("stray_temp_files_after_success", int64(stray))
	if !res.Exited {
		die("reference run of %v did not exit normally: %+v", g, res)
	}
	if res.Execs > 0 || len(res.Tgids) > 1 {
		c.Hist("runs_with_child_processes", 1)
	}
	bad := map[string]uint32{}
	finalBad[g.String()] = bad
	if res.ExitCode != 0 {
		c.Hist("command_failed_rc"+strconv.Itoa(res.ExitCode), 1)
		out, _ := os.ReadFile(outLog)
		for i, st := range states {
			if st != "original" && !strings.HasPrefix(st, "mvgo:old-original") && !g.Dir {
				fail = append(fail, &engine.Failure{Key: "failed-run-touched-file", What: "xgo fmt failed but the file is not untouched",
					Detail: fmt.Sprintf("config %v file %s state %s rc=%d output %q", g, ts[i].name, st, res.ExitCode, tail(out, 300))})
			}
		}
	} else {
		for i, st := range states {
			if st == "original" || strings.HasPrefix(st, "mvgo:old-original") || st == "mvgo:both-complete" {
				// the property speaks about files the command rewrites: this would be broken test data, not a verdict
				die("config %v: xgo fmt exited 0 but left %s in state %s", g, ts[i].name, st)
			}
		}
	}
	for _, f := range fs {
		if f.what == "mode-changed" {
			bad[f.file] = f.mode
			fail = append(fail, &engine.Failure{Key: fmt.Sprintf("mode-changed:orig→%04o:after-success", f.mode),
				What:   fmt.Sprintf("after a successful xgo fmt the file has mode %04o instead of its original mode (here %04o)", f.mode, g.Mode),
				Detail: fmt.Sprintf("config %v: %s; FS calls of the run: %v", g, f.detail, a)})
			continue
		}
		fail = append(fail, &engine.Failure{Key: f.what + ":after-success", What: "after an unkilled run: " + f.what,
			Detail: fmt.Sprintf("config %v: %s; FS calls: %v", g, f.detail, a)})
	}
	if kindByName(g.Kind).Mvgo {
		c.Hist("excluded_mode_of_new_path_mvgo", int64(len(ts)))
	}
	return
}

// eval runs one case. The listing of its configuration must be available.
func eval(k Case) []*engine.Failure {
	g := k.Config
	if k.K == 0 {
		_, fail := listing(g)
		return fail
	}
	list, ok := listings[g.String()]
	if !ok {
		list, _ = listing(g)
		listings[g.String()] = list
	}
	ts, tk, res := runTraced(g, k.K, k.Moment)
	c.Eval(1)
	if !res.Killed || tk.killed == nil {
		c.Hist("kill_point_not_reached", 1)
		c.Cap(fmt.Sprintf("%v k=%d %s: run ended before the crash point", g, k.K, k.Moment))
		return nil
	}
	// the calls seen up to the crash point must be the listing's prefix
	got, want := sig(tk.calls), sig(list)
	if len(got) != k.K || k.K > len(want) || strings.Join(got, " ") != strings.Join(want[:k.K], " ") {
		c.Hist("prefix_differs_from_listing", 1)
		c.Cap(fmt.Sprintf("%v k=%d %s: calls before the crash point %v differ from the listing %v", g, k.K, k.Moment, got, want))
		return nil
	}
	if k.Moment == "entry" && tk.killed.done {
		die("call %d was executed although killed at its entry", k.K)
	}
	if !(res.Signaled && res.Signal == int(syscall.SIGKILL)) {
		die("%v k=%d %s: process did not die from SIGKILL: %+v", g, k.K, k.Moment, res)
	}
	c.NontrivialN(1)
	c.Sample(map[string]any{"config": g.String(), "k": k.K, "moment": k.Moment, "syscall": tk.killed.Name + "(" + tk.killed.Obj + ")"})
	fs, stray, states := inspect(g, ts)
	if stray > 0 {
		c.Hist("crash_points_leaving_stray_temp_file", 1)
	}
	for _, s := range states {
		if i := strings.IndexByte(s, '('); i > 0 {
			s = s[:i]
		}
		c.Hist("state:"+s, 1)
	}
	w := where(list, k.K, k.Moment)
	var fail []*engine.Failure
	for _, f := range fs {
		if f.what == "mode-changed" {
			if finalBad[g.String()][f.file] == f.mode {
				// same wrong mode as after a successful run: that defect is reported once, there
				c.Hist("mode_wrong_at_crash_point_subsumed_by_after_success", 1)
				continue
			}
			fail = append(fail, &engine.Failure{Key: fmt.Sprintf("mode-changed:orig→%04o:%s", f.mode, w),
				What:   fmt.Sprintf("at a crash point the file has mode %04o instead of its original mode (here %04o)", f.mode, g.Mode),
				Detail: fmt.Sprintf("config %v, killed at %s of call %d %s(%s): %s; FS calls: %v", g, k.Moment, k.K, tk.killed.Name, tk.killed.Obj, f.detail, want)})
			continue
		}
		fail = append(fail, &engine.Failure{Key: f.what + ":" + w,
			What:   fmt.Sprintf("a crash %s leaves the file %s", strings.Replace(w, "between:", "between ", 1), map[string]string{"path-missing": "missing", "content-truncated": "truncated", "content-mixed": "with mixed content"}[f.what]),
			Detail: fmt.Sprintf("config %v, killed at %s of call %d %s(%s): %s; FS calls of the run: %v", g, k.Moment, k.K, tk.killed.Name, tk.killed.Obj, f.detail, want)})
	}
	return fail
}

// ---------------------------------------------------------------- tracer self-test

// helperMain is the traced toy program: create tmp, write, close, (spawn a
// sleeping child,) rename tmp over final.
func helperMain(args []string) {
	if len(args) > 0 && args[0] == "sleep" {
		time.Sleep(60 * time.Second)
		return
	}
	dir := args[0]
	f, err := os.OpenFile(filepath.Join(dir, "tmp"), os.O_CREATE|os.O_EXCL|os.O_WRONLY, 0o600)
	if err != nil {
		os.Exit(3)
	}
	f.Write([]byte("new-content"))
	f.Close()
	if len(args) > 1 && args[1] == "spawn" {
		cmd := exec.Command(os.Args[0], "c26-helper", "sleep")
		if cmd.Start() != nil {
			os.Exit(4)
		}
	}
	if os.Rename(filepath.Join(dir, "tmp"), filepath.Join(dir, "final")) != nil {
		os.Exit(5)
	}
}

func selftest() error {
	self, err := os.Executable()
	if err != nil {
		return err
	}
	var terr error
	dir := filepath.Join(scratch, "st")
	run := func(k int, moment string, spawn bool) (final, tmp string, res ptracer.Result, tk *tracker) {
		os.RemoveAll(dir)
		os.Mkdir(dir, 0o755)
		os.WriteFile(filepath.Join(dir, "final"), []byte("old-content"), 0o644)
		argv := []string{self, "c26-helper", dir}
		if spawn {
			argv = append(argv, "spawn")
		}
		tk = newTracker(dir, scratch, map[string]bool{"final": true, "tmp": true}, k, moment)
		res, err := ptracer.Cmd{Argv: argv, Env: childEnv(), Dir: scratch, Filter: filterNrs, Launcher: launcher}.Run(tk.handle)
		if err != nil && terr == nil {
			terr = fmt.Errorf("selftest tracer: %v", err)
		}
		rd := func(n string) string {
			b, err := os.ReadFile(filepath.Join(dir, n))
			if err != nil {
				return "<missing>"
			}
			return string(b)
		}
		return rd("final"), rd("tmp"), res, tk
	}
	final, tmp, res, tk := run(0, "none", false)
	if terr != nil {
		return terr
	}
	want := "openat(tmp) write(tmp) close(tmp) renameat(tmp→final)"
	if got := strings.Join(sig(tk.calls), " "); got != want || final != "new-content" || tmp != "<missing>" || !res.Exited || res.ExitCode != 0 {
		return fmt.Errorf("selftest listing: got %q final=%q tmp=%q res=%+v", got, final, tmp, res)
	}
	if res.InfoChecks == 0 {
		c.Hist("syscall_info_crosscheck_unavailable", 1)
	}
	type exp struct {
		k          int
		moment     string
		final, tmp string
	}
	for _, e := range []exp{
		{1, "entry", "old-content", "<missing>"}, {1, "exit", "old-content", ""},
		{2, "entry", "old-content", ""}, {2, "exit", "old-content", "new-content"},
		{3, "entry", "old-content", "new-content"}, {3, "exit", "old-content", "new-content"},
		{4, "entry", "old-content", "new-content"}, {4, "exit", "new-content", "<missing>"},
	} {
		final, tmp, res, tk := run(e.k, e.moment, false)
		if final != e.final || tmp != e.tmp || !res.Killed || !res.Signaled || res.Signal != int(syscall.SIGKILL) || len(res.Survivors) > 0 || len(tk.calls) != e.k {
			return fmt.Errorf("selftest kill at %s of call %d: final=%q tmp=%q (want %q %q) res=%+v", e.moment, e.k, final, tmp, e.final, e.tmp, res)
		}
		c.Hist("selftest_kill_points_ok", 1)
	}
	// a child process must die with the kill as well
	final, tmp, res, _ = run(4, "entry", true)
	if final != "old-content" || tmp != "new-content" || len(res.Tgids) < 2 || len(res.Survivors) > 0 || !res.Killed {
		return fmt.Errorf("selftest spawn: final=%q tmp=%q res=%+v", final, tmp, res)
	}
	for _, p := range res.Tgids {
		if b, err := os.ReadFile(fmt.Sprintf("/proc/%d/stat", p)); err == nil && !strings.Contains(string(b), ") Z ") {
			return fmt.Errorf("selftest spawn: process %d still runs after the kill", p)
		}
	}
	c.Hist("selftest_process_tree_killed", 1)
	os.RemoveAll(dir)
	return terr
}

// ---------------------------------------------------------------- main

func configs() []Config {
	var out []Config
	if !c.Thorough() {
		for _, k := range kinds[:3] {
			out = append(out, Config{k.Name, 0o644, false})
		}
		for _, m := range []uint32{0o664, 0o777, 0o600} {
			out = append(out, Config{"xgo", m, false})
		}
		return append(out, Config{"xgo", 0o644, true})
	}
	for _, dir := range []bool{false, true} {
		for _, k := range kinds {
			for _, m := range modes {
				out = append(out, Config{k.Name, m, dir})
			}
		}
	}
	return out
}

func main() {
	if len(os.Args) > 2 && os.Args[1] == "c26-helper" {
		helperMain(os.Args[2:])
		return
	}
	syscall.Umask(0o022) // the file-creation mask every traced xgo process inherits
	c = engine.New("C26", "fault_enumeration")
	c.Rule = "a (configuration, crash point) run counts as non-trivial when the tracer delivered SIGKILL at the requested stop " +
		"(entry or exit of the k-th FS-mutating call on the target directory), the process died from that SIGKILL, no traced " +
		"process survived, and the FS-mutating calls up to k equal the prefix of the unkilled listing run"
	c.Assumptions = []string{
		"crash = SIGKILL of the whole process tree at a system-call boundary; power loss / page-cache loss is not modelled (no fsync ordering is judged)",
		"crash points are the entry and the exit stop of every FS-mutating system call that names a path in, or a write-opened fd of, the target directory",
		fmt.Sprintf("the check runs as uid %d; for uid 0 a 0444 file is still replaceable, so the command does not fail on it", os.Getuid()),
		"formatted bytes are computed in-process with format.Source / go/format / x/format.GopstyleSource, not taken from the command's output",
		"for -mvgo the permission bits of the new .xgo path are not judged (the statement speaks of a file that keeps its path)",
	}
	sigc := make(chan os.Signal, 1)
	signal.Notify(sigc, syscall.SIGINT, syscall.SIGTERM)
	go func() { // the traced processes die with us (PTRACE_O_EXITKILL); remove the scratch directory
		<-sigc
		cleanup()
		os.Exit(2)
	}()
	setup()
	defer cleanup()
	if c.IsReplay() {
		var k Case
		c.LoadReplay(&k)
		fs := eval(k)
		cleanup()
		if len(fs) > 0 {
			c.ReplayResult(fs[0])
		}
		c.ReplayResult(nil)
	}
	// tracing mode: seccomp-filtered (fast) unless it does not work here or C26_TRACE=full
	mode := os.Getenv("C26_TRACE")
	if mode != "full" {
		for _, n := range fsCalls {
			if nr := ptracer.Number(n); nr >= 0 {
				filterNrs = append(filterNrs, nr)
			} else {
				die("no syscall number for %q", n)
			}
		}
		var err error
		if launcher, err = ptracer.BuildLauncher(scratch); err == nil {
			err = selftest()
		}
		if err != nil {
			if mode == "filtered" {
				die("%v", err)
			}
			c.Extra["filtered_tracing_unavailable"] = err.Error()
			filterNrs = nil
		}
	}
	if filterNrs == nil {
		if err := selftest(); err != nil {
			die("%v", err)
		}
		c.Extra["tracing_mode"] = "full: every system call of every thread stops at entry and exit (PTRACE_SYSCALL)"
	} else {
		c.Extra["tracing_mode"] = "filtered: a seccomp filter (SECCOMP_RET_TRACE) stops only the FS-mutating call numbers; entry = seccomp stop, exit = syscall-exit stop; cross-checked against full tracing once per file kind"
	}
	cfgs := configs()
	var names []string
	seen := map[string]int64{}
	listed := map[string][]string{}
	points := 0
	for _, g := range cfgs {
		if expired() {
			c.Cap("deadline reached before configuration " + g.String())
			break
		}
		names = append(names, g.String())
		list, fail := listing(g)
		listings[g.String()] = list
		listed[g.String()] = sig(list)
		for _, f := range fail {
			c.Violate(Case{g, 0, "none"}, f)
		}
		if filterNrs != nil && !g.Dir && g.Mode == 0o644 { // the filter must not hide any call full tracing sees
			saved := filterNrs
			filterNrs = nil
			_, tk, _ := runTraced(g, 0, "none")
			filterNrs = saved
			if a, b := strings.Join(sig(tk.calls), " "), strings.Join(sig(list), " "); a != b {
				die("%v: full tracing lists %q, filtered tracing lists %q", g, a, b)
			}
			c.Hist("filtered_listing_equals_full_listing", 1)
		}
		for _, cl := range list {
			seen[cl.Name]++
		}
		if len(list) == 0 {
			die("no FS-mutating call seen for %v: the tracker is blind or the command did nothing", g)
		}
	kills:
		for k := 1; k <= len(list); k++ {
			for _, m := range []string{"entry", "exit"} {
				if expired() {
					c.Cap("deadline reached inside configuration " + g.String())
					break kills
				}
				kase := Case{g, k, m}
				points++
				for _, f := range eval(kase) {
					c.Violate(kase, f)
				}
			}
		}
	}
	sort.Strings(names)
	c.Extra["configurations"] = names
	c.Extra["syscalls_seen"] = seen
	c.Extra["crash_points"] = points
	c.Extra["syscall_stops_traced"] = totalStops
	c.Extra["syscall_stops_entry_exit_crosschecked"] = totalChecked
	c.Extra["listings"] = listed
	c.Extra["bound"] = "every FS-mutating syscall of the run × {entry, exit} × configurations (kind × mode × file/dir3)"
	cleanup()
	c.Finish()
}

// C33: token spellings round-trip through the scanners (finite, enumerated completely).
package main

import (
	"fmt"
	gotoken "go/token"

	"github.com/goplus/xgo/token"
	tpltoken "github.com/goplus/xgo/tpl/token"
	"verif/engine"
	"verif/scanx"
)

type Case struct {
	Table string `json:"table"` // xgo | tpl | xgo-range | tpl-range | go
	Tok   int    `json:"tok"`
}

var semiAfter = map[string]bool{"break": true, "continue": true, "fallthrough": true, "return": true, "++": true, "--": true,
	")": true, "]": true, "}": true, "!": true, "?": true, "...": true}

func checkAlone(scan func([]byte, bool) scanx.Result, spelling string, wantSemi *bool) string {
	r := scan([]byte(spelling), false)
	if len(r.Toks) < 2 || r.Toks[0].Kind != spelling || r.Toks[0].Off != 0 {
		return fmt.Sprintf("scanning %q yields %+v", spelling, r.Toks)
	}
	rest := r.Toks[1:]
	hasSemi := false
	if rest[0].Kind == ";" && rest[0].Lit == "\n" {
		hasSemi = true
		rest = rest[1:]
	}
	if len(rest) != 1 || rest[0].Kind != "EOF" {
		return fmt.Sprintf("scanning %q yields more than one token: %+v", spelling, r.Toks)
	}
	if wantSemi != nil && *wantSemi != hasSemi {
		return fmt.Sprintf("scanning %q: inserted semicolon=%v, want %v", spelling, hasSemi, *wantSemi)
	}
	if len(r.Errs) > 0 {
		return fmt.Sprintf("scanning %q reports errors %+v", spelling, r.Errs)
	}
	return ""
}

func xgoScan(src []byte, cm bool) scanx.Result { return scanx.XGo(src, cm, nil) }

func eval(k Case) (f *engine.Failure, nontrivial bool) {
	fail := func(key, detail string) *engine.Failure {
		return &engine.Failure{Key: key, What: "token table / scanner round trip broken", Detail: detail}
	}
	var msg, key string
	g := engine.Guard(func() {
		switch k.Table {
		case "xgo-range": // every value: predicates are consistent and String never panics
			tok := token.Token(k.Tok)
			s := tok.String()
			if tok.Precedence() > token.LowestPrec && !tok.IsOperator() {
				key, msg = "xgo-precedence-not-operator:"+s, fmt.Sprintf("%s has precedence %d but IsOperator()==false", s, tok.Precedence())
			}
			if tok.IsKeyword() {
				nontrivial = true
				if token.Lookup(s) != tok {
					key, msg = "xgo-lookup:"+s, fmt.Sprintf("Lookup(%q)=%v", s, token.Lookup(s))
				}
			}
		case "xgo": // operators, keywords, additional tokens: spelling scans to the token
			tok := token.Token(k.Tok)
			s := tok.String()
			nontrivial = true
			want := semiAfter[s]
			if m := checkAlone(xgoScan, s, &want); m != "" {
				key, msg = "xgo-spelling:"+s, m
			}
		case "go": // every go/token operator and keyword spelling is an XGo token with the same spelling
			s := gotoken.Token(k.Tok).String()
			nontrivial = true
			want := semiAfter[s] && s != "!" && s != "..." && s != "?"
			if s == "..." || s == "!" {
				want = true // recorded XGo deviation (C16), not judged here
			}
			if m := checkAlone(xgoScan, s, &want); m != "" {
				key, msg = "xgo-spelling:"+s, m
			}
		case "tpl-range":
			tok := tpltoken.Token(k.Tok)
			_ = tok.String()
			_ = tok.Len()
		case "tpl":
			tok := tpltoken.Token(k.Tok)
			s := tok.String()
			nontrivial = true
			if tok.Len() != len(s) {
				key, msg = "tpl-len:"+s, fmt.Sprintf("Len()=%d for %q", tok.Len(), s)
				return
			}
			if m := checkAlone(scanx.TPL, s, nil); m != "" {
				key, msg = "tpl-spelling:"+s, m
			}
		}
	})
	if g != nil {
		g.Key = k.Table + "-" + g.Key
		return g, nontrivial
	}
	if msg != "" {
		return fail(key, msg), nontrivial
	}
	return nil, nontrivial
}

func main() {
	c := engine.New("C33", "exploration")
	if c.IsReplay() {
		var k Case
		c.LoadReplay(&k)
		f, _ := eval(k)
		c.ReplayResult(f)
	}
	var cases []Case
	for v := 0; v <= 0x120; v++ {
		cases = append(cases, Case{"xgo-range", v}, Case{"tpl-range", v})
		t := token.Token(v)
		if t.IsOperator() || t.IsKeyword() || t == token.TILDE || t == token.ENV {
			if s := t.String(); len(s) > 0 && s != "UNIT" && s[0] != 't' || t.IsKeyword() {
				cases = append(cases, Case{"xgo", v})
			}
		}
	}
	for t := gotoken.ADD; t <= gotoken.TILDE; t++ {
		if t.IsOperator() || t.IsKeyword() {
			cases = append(cases, Case{"go", int(t)})
		}
	}
	// TPL: single-character tokens with a spelling, and the multi-character operator block
	for v := 33; v < 0x80; v++ {
		if s := tpltoken.Token(v).String(); len(s) == 1 {
			cases = append(cases, Case{"tpl", v})
		}
	}
	tpltoken.ForEach(0, func(tok tpltoken.Token, lit string) int {
		cases = append(cases, Case{"tpl", int(tok)})
		return 0
	})
	for _, k := range cases {
		f, nt := eval(k)
		c.Eval(1)
		c.Hist(k.Table, 1)
		if nt {
			c.Nontrivial(fmt.Sprint(k))
			if k.Tok%7 == 0 {
				c.Sample(map[string]any{"table": k.Table, "tok": k.Tok})
			}
		}
		if f != nil {
			c.Violate(k, f)
		}
	}
	c.Rule = "complete enumeration: every XGo token value 0..0x120 (predicate consistency), every XGo operator/keyword/additional token, every go/token operator and keyword, every TPL token with a spelling, and Len()/String() on every TPL value 0..0x120; non-trivial = cases that scan a spelling"
	c.Assumptions = []string{"which tokens trigger semicolon insertion is taken from the Go specification plus the XGo additions '!', '?', '...'"}
	c.Finish()
}

// C34: directory parsing selects and classifies exactly the right files.
// Mode E: every directory of at most K entries over a stated universe of file
// names x contents, under every configuration (ClassKind x Mode x Filter),
// parsed through an in-memory FileSystem and compared with the reference
// model dirref (below), which is written from the doc comments of
// parser.ParseFSDir / ast.File / xgomod.Module.ClassKind and the property
// statement, not from the control flow of ParseFSDir.
package main

import (
	"errors"
	"fmt"
	"io/fs"
	"path"
	"sort"
	"strings"
	"sync"
	"time"

	"github.com/goplus/xgo/ast"
	"github.com/goplus/xgo/parser"
	"github.com/goplus/xgo/token"
	"verif/engine"
)

// ---------------------------------------------------------------------------
// universe

var stems = []string{"a", "_a", "gop_autogen", "gop_autogen_x", "main", "a_test", "main_yap", ".hidden"}
var exts = []string{".go", ".xgo", ".gop", ".gox", ".spx", ".gmx", ".gsh", ".txt", "", ".yap"}

// contents: index -> text. 2 has no package clause.
var contents = []string{"package main\n", "package foo\n", "var (\n\tx int\n)\n"}

const subDirName = "sub.xgo" // a directory whose name carries a recognised extension
const root = "/d"

type Ent struct {
	Name    string `json:"name"`
	Content int    `json:"content"` // index into contents; -1 for the sub-directory
}

type Case struct {
	Ents      []Ent  `json:"ents"`
	ClassKind string `json:"class_kind"` // default | yapext | yapgox | yapboth
	GoAsXGo   bool   `json:"parse_go_as_goplus"`
	Filter    bool   `json:"filter_no_test"`
}

// ---------------------------------------------------------------------------
// class-kind functions (inputs of the property, used by impl and model alike).
// Contract (xgomod.Module.ClassKind doc): "checks a fname is a known classfile
// or not. If it is, then it checks the fname is a project file or not."

type classKind func(fname string) (isProj, ok bool)

// refDefault is the documented default: spx (project file main.spx, every
// other .spx a work class), gmx and gsh (always project classes).
func refDefault(fname string) (bool, bool) {
	switch refExt(fname) {
	case ".spx":
		return fname == "main.spx", true
	case ".gmx", ".gsh":
		return true, true
	}
	return false, false
}

func yapExt(fname string) (bool, bool) { // ".yap" project/work class by extension
	if refExt(fname) == ".yap" {
		return fname == "main.yap", true
	}
	return false, false
}

func yapGox(fname string) (bool, bool) { // "_yap.gox" work class by suffix
	return false, strings.HasSuffix(fname, "_yap.gox")
}

func yapBoth(fname string) (bool, bool) {
	if refExt(fname) == ".yap" {
		return true, true
	}
	return false, strings.HasSuffix(fname, "_yap.gox")
}

var kinds = []string{"default", "yapext", "yapgox", "yapboth"}

func kindFunc(name string) (impl classKind, model classKind) {
	switch name {
	case "default":
		return nil, refDefault
	case "yapext":
		return yapExt, yapExt
	case "yapgox":
		return yapGox, yapGox
	case "yapboth":
		return yapBoth, yapBoth
	}
	panic("unknown class kind " + name)
}

func noTestFilter(fi fs.FileInfo) bool { return !strings.Contains(fi.Name(), "_test.") }

// ---------------------------------------------------------------------------
// dirref: the reference model

// refExt: the extension is the suffix starting at the last dot of the name.
func refExt(name string) string {
	if i := strings.LastIndexByte(name, '.'); i >= 0 {
		return name[i:]
	}
	return ""
}

type verdict struct {
	Include                      bool
	Reason                       string // why excluded (defect key component)
	Kind                         string // xgo | go | go-as-xgo | class-proj | class-work | normal-gox
	GoFile                       bool   // lands in Package.GoFiles (parsed by go/parser)
	Pkg                          string
	IsClass, IsProj, IsNormalGox bool
	ParseFails                   bool
}

func dirref(e Ent, ck classKind, goAsXGo, filter bool) (v verdict) {
	if e.Content < 0 {
		return verdict{Reason: "directory"}
	}
	name := e.Name
	ext := refExt(name)
	switch ext {
	case ".xgo", ".gop":
		v.Kind = "xgo"
	case ".go":
		if strings.HasPrefix(name, "gop_autogen") {
			return verdict{Reason: "autogen-go"}
		}
		if goAsXGo {
			v.Kind = "go-as-xgo"
		} else {
			v.Kind, v.GoFile = "go", true
		}
	default:
		isProj, ok := ck(name)
		switch {
		case ok && isProj:
			v.Kind, v.IsClass, v.IsProj = "class-proj", true, true
		case ok:
			v.Kind, v.IsClass = "class-work", true
		case ext == ".gox":
			v.Kind, v.IsClass, v.IsNormalGox = "normal-gox", true, true
		default:
			return verdict{Reason: "unknown-ext"}
		}
	}
	if strings.HasPrefix(name, "_") {
		return verdict{Reason: "underscore"}
	}
	if filter && strings.Contains(name, "_test.") {
		return verdict{Reason: "filtered"}
	}
	switch e.Content {
	case 0:
		v.Pkg = "main"
	case 1:
		v.Pkg = "foo"
	case 2: // no package clause: XGo files default to package main; not a Go file
		if v.GoFile {
			return verdict{Reason: "go-parse-error", Kind: "go", ParseFails: true}
		}
		v.Pkg = "main"
	}
	v.Include = true
	return
}

// ---------------------------------------------------------------------------
// in-memory file system (flat directory `root`)

type memFS struct{ ents []Ent } // sorted by name

type dirEnt struct{ e Ent }

func (d dirEnt) Name() string { return d.e.Name }
func (d dirEnt) IsDir() bool  { return d.e.Content < 0 }
func (d dirEnt) Type() fs.FileMode {
	if d.IsDir() {
		return fs.ModeDir
	}
	return 0
}
func (d dirEnt) Info() (fs.FileInfo, error) { return d, nil }
func (d dirEnt) Size() int64 {
	if d.IsDir() {
		return 0
	}
	return int64(len(contents[d.e.Content]))
}
func (d dirEnt) Mode() fs.FileMode  { return d.Type() | 0o644 }
func (d dirEnt) ModTime() time.Time { return time.Unix(1000000000, 0) }
func (d dirEnt) Sys() any           { return nil }

func (m *memFS) ReadDir(dirname string) ([]fs.DirEntry, error) {
	if dirname != root {
		return nil, &fs.PathError{Op: "readdir", Path: dirname, Err: fs.ErrNotExist}
	}
	out := make([]fs.DirEntry, len(m.ents))
	for i, e := range m.ents {
		out[i] = dirEnt{e}
	}
	return out, nil
}

func (m *memFS) ReadFile(filename string) ([]byte, error) {
	if strings.HasPrefix(filename, root+"/") {
		name := filename[len(root)+1:]
		for _, e := range m.ents {
			if e.Name == name {
				if e.Content < 0 {
					return nil, &fs.PathError{Op: "read", Path: filename, Err: errors.New("is a directory")}
				}
				return []byte(contents[e.Content]), nil
			}
		}
	}
	return nil, &fs.PathError{Op: "open", Path: filename, Err: fs.ErrNotExist}
}
func (m *memFS) Join(elem ...string) string   { return path.Join(elem...) }
func (m *memFS) Base(filename string) string  { return path.Base(filename) }
func (m *memFS) Abs(p string) (string, error) { return path.Join("/", p), nil }

// ---------------------------------------------------------------------------
// evaluation

type got struct {
	Pkg                          string
	Go                           bool
	IsClass, IsProj, IsNormalGox bool
}

type evalInfo struct {
	included, excluded int
	firstNotFirst      bool // observation only: returned error is not the first one in directory order
}

func eval(k Case) (*engine.Failure, evalInfo) {
	var info evalInfo
	ents := append([]Ent(nil), k.Ents...)
	sort.Slice(ents, func(i, j int) bool { return ents[i].Name < ents[j].Name })
	implCK, modelCK := kindFunc(k.ClassKind)
	conf := parser.Config{ClassKind: implCK}
	if k.GoAsXGo {
		conf.Mode = parser.ParseGoAsGoPlus
	}
	if k.Filter {
		conf.Filter = noTestFilter
	}
	var pkgs map[string]*ast.Package
	var first error
	if f := engine.Guard(func() { pkgs, first = parser.ParseFSDir(token.NewFileSet(), &memFS{ents}, root, conf) }); f != nil {
		return f, info
	}
	fail := func(key, what, detail string) *engine.Failure {
		return &engine.Failure{Key: key, What: what, Detail: fmt.Sprintf("%s; config=%s goAsXGo=%v filter=%v dir=%s", detail, k.ClassKind, k.GoAsXGo, k.Filter, descr(ents))}
	}
	if pkgs == nil {
		return fail("nil-map", "nil package map although the directory is readable", fmt.Sprintf("first=%v", first)), info
	}
	// flatten the result
	have := map[string]got{}
	for pname, p := range pkgs {
		if p == nil {
			return fail("nil-package", "nil *ast.Package in the map", pname), info
		}
		if p.Name != pname {
			return fail("package-name-field", "Package.Name differs from its map key", fmt.Sprintf("key=%q Name=%q", pname, p.Name)), info
		}
		if len(p.Files)+len(p.GoFiles) == 0 {
			return fail("empty-package", "package without any file in the map", pname), info
		}
		for fn, f := range p.Files {
			if _, dup := have[fn]; dup {
				return fail("file-in-two-places", "one file listed more than once", fn), info
			}
			if f == nil || f.Name == nil {
				return fail("nil-file", "nil file (or file without name) in Package.Files", fn), info
			}
			if f.Name.Name != pname {
				return fail("grouping:xgo", "file grouped under a package name that is not its own", fmt.Sprintf("%s: file package %q, map key %q", fn, f.Name.Name, pname)), info
			}
			have[fn] = got{Pkg: pname, IsClass: f.IsClass, IsProj: f.IsProj, IsNormalGox: f.IsNormalGox}
		}
		for fn, f := range p.GoFiles {
			if _, dup := have[fn]; dup {
				return fail("file-in-two-places", "one file listed more than once", fn), info
			}
			if f == nil || f.Name == nil {
				return fail("nil-file", "nil file in Package.GoFiles", fn), info
			}
			if f.Name.Name != pname {
				return fail("grouping:go", "Go file grouped under a package name that is not its own", fmt.Sprintf("%s: file package %q, map key %q", fn, f.Name.Name, pname)), info
			}
			have[fn] = got{Pkg: pname, Go: true}
		}
	}
	// compare with the model, in directory order
	wantErr := false
	nFail := 0
	for _, e := range ents {
		v := dirref(e, modelCK, k.GoAsXGo, k.Filter)
		fn := root + "/" + e.Name
		g, present := have[fn]
		delete(have, fn)
		if v.ParseFails {
			wantErr = true
			nFail++
		}
		if !v.Include {
			info.excluded++
			if present {
				return fail("unexpected-file:"+v.Reason, "directory parsing includes a file it must skip ("+v.Reason+")", fmt.Sprintf("%s present as %+v", e.Name, g)), info
			}
			continue
		}
		info.included++
		if !present {
			return fail("missing-file:"+v.Kind, "directory parsing drops a "+v.Kind+" file it must include", e.Name), info
		}
		if g.Go != v.GoFile {
			return fail("wrong-map:"+v.Kind, "file stored in the wrong map (Files vs GoFiles)", fmt.Sprintf("%s: in GoFiles=%v, want %v", e.Name, g.Go, v.GoFile)), info
		}
		if g.Pkg != v.Pkg {
			return fail("wrong-package:"+v.Kind, "file grouped under the wrong package name", fmt.Sprintf("%s: under %q, want %q", e.Name, g.Pkg, v.Pkg)), info
		}
		if g.IsClass != v.IsClass {
			return fail("flag:IsClass:"+v.Kind, "IsClass differs from the class-kind / extension rules", fmt.Sprintf("%s: IsClass=%v want %v", e.Name, g.IsClass, v.IsClass)), info
		}
		if g.IsProj != v.IsProj {
			return fail("flag:IsProj:"+v.Kind, "IsProj differs from the class-kind function", fmt.Sprintf("%s: IsProj=%v want %v", e.Name, g.IsProj, v.IsProj)), info
		}
		if g.IsNormalGox != v.IsNormalGox {
			return fail("flag:IsNormalGox:"+v.Kind, "IsNormalGox differs from the class-kind / extension rules", fmt.Sprintf("%s: IsNormalGox=%v want %v", e.Name, g.IsNormalGox, v.IsNormalGox)), info
		}
	}
	for fn, g := range have {
		return fail("phantom-file", "result lists a file that is not in the directory", fmt.Sprintf("%s %+v", fn, g)), info
	}
	if wantErr && first == nil {
		return fail("missing-error", "a Go file that does not parse is dropped silently (first == nil)", ""), info
	}
	if !wantErr && first != nil {
		for _, e := range ents { // an error that names a file which must be skipped: same defect as including it
			if v := dirref(e, modelCK, k.GoAsXGo, k.Filter); !v.Include && strings.Contains(first.Error(), root+"/"+e.Name+":") {
				return fail("unexpected-file:"+v.Reason, "directory parsing parses a file it must skip ("+v.Reason+")", "error "+first.Error()), info
			}
		}
		return fail("spurious-error", "error although every selected file parses", first.Error()), info
	}
	if nFail >= 2 && first != nil {
		// Doc: "the first error encountered"; not part of the property statement, so only observed.
		for _, e := range ents {
			if dirref(e, modelCK, k.GoAsXGo, k.Filter).ParseFails {
				info.firstNotFirst = !strings.Contains(first.Error(), root+"/"+e.Name+":")
				break
			}
		}
	}
	return nil, info
}

func descr(ents []Ent) string {
	var sb strings.Builder
	sb.WriteByte('[')
	for i, e := range ents {
		if i > 0 {
			sb.WriteByte(' ')
		}
		if e.Content < 0 {
			sb.WriteString(e.Name + "/")
		} else {
			fmt.Fprintf(&sb, "%s(%q)", e.Name, contents[e.Content])
		}
	}
	sb.WriteByte(']')
	return sb.String()
}

// ---------------------------------------------------------------------------
// enumeration

type config struct {
	kind            string
	goAsXGo, filter bool
}

type blockResult struct {
	evals, nontriv int64
	hist           map[string]int64
	fails          []failed
	samples        []Case
}

type failed struct {
	k Case
	f *engine.Failure
}

// runBlock evaluates every content assignment x configuration for one set of names.
func runBlock(names []string, configs []config, contentN int) (r blockResult) {
	r.hist = map[string]int64{}
	seen := map[string]bool{}
	n := len(names)
	idx := make([]int, n)
	lim := make([]int, n)
	for i, nm := range names {
		lim[i] = contentN
		if nm == subDirName {
			lim[i] = 1
		}
	}
	for {
		ents := make([]Ent, n)
		for i, nm := range names {
			ents[i] = Ent{nm, idx[i]}
			if nm == subDirName {
				ents[i].Content = -1
			}
		}
		for _, cf := range configs {
			k := Case{Ents: ents, ClassKind: cf.kind, GoAsXGo: cf.goAsXGo, Filter: cf.filter}
			f, info := eval(k)
			r.evals++
			if (info.included >= 1 && info.excluded >= 1) || info.included >= 2 {
				r.nontriv++
				if n >= 2 && len(r.samples) == 0 {
					r.samples = append(r.samples, k)
				}
			}
			r.hist[fmt.Sprintf("included_%d_of_%d", info.included, n)]++
			if info.firstNotFirst {
				r.hist["observed_returned_error_is_not_the_first_in_directory_order"]++
			}
			if f != nil && !seen[f.Key] {
				seen[f.Key] = true
				r.fails = append(r.fails, failed{k, f})
			}
		}
		i := n - 1
		for ; i >= 0; i-- {
			idx[i]++
			if idx[i] < lim[i] {
				break
			}
			idx[i] = 0
		}
		if i < 0 {
			return
		}
	}
}

func main() {
	c := engine.New("C34", "exploration")
	if c.IsReplay() {
		var k Case
		c.LoadReplay(&k)
		f, _ := eval(k)
		c.ReplayResult(f)
	}
	maxEnts := 2
	if c.Thorough() {
		maxEnts = 3
	}
	var names []string
	for _, s := range stems {
		for _, e := range exts {
			names = append(names, s+e)
		}
	}
	names = append(names, subDirName)
	var configs []config
	for _, kd := range kinds {
		for _, g := range []bool{false, true} {
			configs = append(configs, config{kd, g, false})
		}
	}
	configs = append(configs, config{"default", false, true}, config{"default", true, true})

	c.Rule = fmt.Sprintf("every directory of 0..%d entries with distinct names over %d names (%d stems x %d extensions, plus the sub-directory %q) x %d file contents (package main / package foo / no package clause), under %d configurations (ClassKind in %v x Mode in {0, ParseGoAsGoPlus}, plus Filter=reject *_test.* with the default ClassKind); non-trivial = at least one included and one excluded entry, or at least two included files",
		maxEnts, len(names), len(stems), len(exts), subDirName, len(contents), len(configs), kinds)
	c.Assumptions = []string{
		"recognised extensions are .xgo .gop .go .gox plus whatever the ClassKind function accepts; .gop (legacy Go+ extension) is taken from the code, the documentation does not list extensions",
		"gop_autogen Go files = .go files whose name starts with gop_autogen (tool writes gop_autogen.go, gop_autogen_test.go, gop_autogen2_test.go and gop_autogen_<file>.go)",
		"default class kinds read from defaultClassKind: .spx (project iff main.spx), .gmx and .gsh (project)",
		"a ClassKind function is only consulted for files that are not .xgo/.gop/.go; the test functions never claim such files",
		"which error is returned when several Go files fail to parse is documented (the first) but not part of the statement: observed in the histogram, not judged",
	}

	// blocks = name sets, simplest first
	var blocks [][]string
	blocks = append(blocks, []string{})
	for i := range names {
		blocks = append(blocks, []string{names[i]})
	}
	if maxEnts >= 2 {
		for i := range names {
			for j := i + 1; j < len(names); j++ {
				blocks = append(blocks, []string{names[i], names[j]})
			}
		}
	}
	if maxEnts >= 3 {
		for i := range names {
			for j := i + 1; j < len(names); j++ {
				for l := j + 1; l < len(names); l++ {
					blocks = append(blocks, []string{names[i], names[j], names[l]})
				}
			}
		}
	}

	results := make([]blockResult, len(blocks))
	done := make([]bool, len(blocks))
	var wg sync.WaitGroup
	var mu sync.Mutex
	next := 0
	capped := false
	for w := 0; w < 12; w++ {
		wg.Add(1)
		go func() {
			defer wg.Done()
			for {
				mu.Lock()
				b := next
				next++
				if b%256 == 0 && c.Expired() {
					capped = true
				}
				stop := capped
				mu.Unlock()
				if b >= len(blocks) || stop {
					return
				}
				r := runBlock(blocks[b], configs, len(contents))
				mu.Lock()
				results[b], done[b] = r, true
				mu.Unlock()
			}
		}()
	}
	wg.Wait()
	if capped {
		c.Cap("deadline reached before all name sets were evaluated")
	}
	nblocks := 0
	for b, r := range results {
		if !done[b] {
			continue
		}
		nblocks++
		c.Eval(r.evals)
		c.NontrivialN(r.nontriv)
		for h, n := range r.hist {
			c.Hist(h, n)
		}
		if len(blocks[b]) >= 2 && b%997 == 0 {
			for _, s := range r.samples {
				c.Sample(s)
			}
		}
		for _, fl := range r.fails {
			if f2, _ := eval(fl.k); f2 == nil || f2.Key != fl.f.Key {
				c.Fatal("non-deterministic evaluation for %+v", fl.k)
			}
			c.Violate(fl.k, fl.f)
		}
	}
	c.Extra["bound"] = map[string]any{"max_entries": maxEnts, "names": len(names), "contents": len(contents), "configurations": len(configs)}
	c.Extra["name_sets"] = nblocks
	c.Finish()
}

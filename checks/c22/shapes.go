package main

import (
	"strings"

	"github.com/goplus/xgo/ast"
	"github.com/goplus/xgo/token"
)

// T is a tree description: shape name + children. It is what cases and replay files carry; the
// ast is built fresh (no positions, no ParenExpr) for every evaluation.
type T struct {
	S string `json:"s"`
	K []*T   `json:"k,omitempty"`
}

func (t *T) String() string {
	if len(t.K) == 0 {
		return t.S
	}
	parts := make([]string, len(t.K))
	for i, k := range t.K {
		parts[i] = k.String()
	}
	return t.S + "(" + strings.Join(parts, ",") + ")"
}

func (t *T) depth() int {
	d := 0
	for _, k := range t.K {
		if kd := k.depth() + 1; kd > d {
			d = kd
		}
	}
	return d
}

// shape describes one way of building an expression node from child expressions.
type shape struct {
	Name   string
	Arity  int
	Kind   string   // ast node kind of the result
	Fields []string // name of the field that holds child i (for defect keys)
	Build  func(k []ast.Expr) ast.Expr
	// Ref renders the reference source; k[i] is the reference text of child i, already wrapped in
	// parentheses if the child is not a leaf (except for the positions listed in Bare).
	Ref  func(k []string) string
	Bare map[int]bool
}

func id(n string) *ast.Ident { return &ast.Ident{Name: n} }
func intLit(v string) *ast.BasicLit {
	return &ast.BasicLit{Kind: token.INT, Value: v}
}

const somePos = token.Pos(1) // a valid position used only as a flag (CallExpr.Ellipsis, CallExpr.NoParenEnd)

var shapes []*shape
var shapeByName = map[string]*shape{}

func add(s *shape) {
	shapes = append(shapes, s)
	shapeByName[s.Name] = s
}

func retBlock(x ast.Expr) *ast.BlockStmt {
	return &ast.BlockStmt{List: []ast.Stmt{&ast.ReturnStmt{Results: []ast.Expr{x}}}}
}

func forPhrase(x, cond ast.Expr) []*ast.ForPhrase {
	return []*ast.ForPhrase{{Value: id("v"), X: x, Cond: cond}}
}

func initShapes() {
	// leaves
	add(&shape{Name: "a", Kind: "Ident", Build: func([]ast.Expr) ast.Expr { return id("a") }, Ref: func([]string) string { return "a" }})
	add(&shape{Name: "b", Kind: "Ident", Build: func([]ast.Expr) ast.Expr { return id("b") }, Ref: func([]string) string { return "b" }})
	add(&shape{Name: "1", Kind: "BasicLit", Build: func([]ast.Expr) ast.Expr { return intLit("1") }, Ref: func([]string) string { return "1" }})
	add(&shape{Name: `"s"`, Kind: "BasicLit", Build: func([]ast.Expr) ast.Expr { return &ast.BasicLit{Kind: token.STRING, Value: `"s"`} }, Ref: func([]string) string { return `"s"` }})

	// unary operators
	for _, op := range []token.Token{token.SUB, token.ADD, token.NOT, token.XOR, token.AND, token.ARROW} {
		op := op
		add(&shape{Name: "u" + op.String(), Arity: 1, Kind: "UnaryExpr", Fields: []string{"X"},
			Build: func(k []ast.Expr) ast.Expr { return &ast.UnaryExpr{Op: op, X: k[0]} },
			Ref:   func(k []string) string { return op.String() + k[0] }})
	}
	add(&shape{Name: "star", Arity: 1, Kind: "StarExpr", Fields: []string{"X"},
		Build: func(k []ast.Expr) ast.Expr { return &ast.StarExpr{X: k[0]} },
		Ref:   func(k []string) string { return "*" + k[0] }})
	// calls
	add(&shape{Name: "call0", Arity: 1, Kind: "CallExpr", Fields: []string{"Fun"},
		Build: func(k []ast.Expr) ast.Expr { return &ast.CallExpr{Fun: k[0]} },
		Ref:   func(k []string) string { return k[0] + "()" }})
	add(&shape{Name: "callarg", Arity: 1, Kind: "CallExpr", Fields: []string{"Args"},
		Build: func(k []ast.Expr) ast.Expr { return &ast.CallExpr{Fun: id("f"), Args: []ast.Expr{k[0]}} },
		Ref:   func(k []string) string { return "f(" + k[0] + ")" }})
	add(&shape{Name: "callell", Arity: 1, Kind: "CallExpr", Fields: []string{"Args"},
		Build: func(k []ast.Expr) ast.Expr {
			return &ast.CallExpr{Fun: id("f"), Args: []ast.Expr{k[0]}, Ellipsis: somePos}
		},
		Ref: func(k []string) string { return "f(" + k[0] + "...)" }})
	// index, slice, selector, type assertion
	add(&shape{Name: "idxX", Arity: 1, Kind: "IndexExpr", Fields: []string{"X"},
		Build: func(k []ast.Expr) ast.Expr { return &ast.IndexExpr{X: k[0], Index: id("i")} },
		Ref:   func(k []string) string { return k[0] + "[i]" }})
	add(&shape{Name: "idxI", Arity: 1, Kind: "IndexExpr", Fields: []string{"Index"},
		Build: func(k []ast.Expr) ast.Expr { return &ast.IndexExpr{X: id("x"), Index: k[0]} },
		Ref:   func(k []string) string { return "x[" + k[0] + "]" }})
	add(&shape{Name: "slcX", Arity: 1, Kind: "SliceExpr", Fields: []string{"X"},
		Build: func(k []ast.Expr) ast.Expr { return &ast.SliceExpr{X: k[0], Low: id("i")} },
		Ref:   func(k []string) string { return k[0] + "[i:]" }})
	add(&shape{Name: "slcLo", Arity: 1, Kind: "SliceExpr", Fields: []string{"Low"},
		Build: func(k []ast.Expr) ast.Expr { return &ast.SliceExpr{X: id("x"), Low: k[0]} },
		Ref:   func(k []string) string { return "x[" + k[0] + ":]" }})
	add(&shape{Name: "slcHi", Arity: 1, Kind: "SliceExpr", Fields: []string{"High"},
		Build: func(k []ast.Expr) ast.Expr { return &ast.SliceExpr{X: id("x"), High: k[0]} },
		Ref:   func(k []string) string { return "x[:" + k[0] + "]" }})
	add(&shape{Name: "sel", Arity: 1, Kind: "SelectorExpr", Fields: []string{"X"},
		Build: func(k []ast.Expr) ast.Expr { return &ast.SelectorExpr{X: k[0], Sel: id("f")} },
		Ref:   func(k []string) string { return k[0] + ".f" }})
	add(&shape{Name: "tassert", Arity: 1, Kind: "TypeAssertExpr", Fields: []string{"X"},
		Build: func(k []ast.Expr) ast.Expr { return &ast.TypeAssertExpr{X: k[0], Type: id("T")} },
		Ref:   func(k []string) string { return k[0] + ".(T)" }})
	// error wrapping
	add(&shape{Name: "ew!", Arity: 1, Kind: "ErrWrapExpr", Fields: []string{"X"},
		Build: func(k []ast.Expr) ast.Expr { return &ast.ErrWrapExpr{X: k[0], Tok: token.NOT} },
		Ref:   func(k []string) string { return k[0] + "!" }})
	add(&shape{Name: "ew?", Arity: 1, Kind: "ErrWrapExpr", Fields: []string{"X"},
		Build: func(k []ast.Expr) ast.Expr { return &ast.ErrWrapExpr{X: k[0], Tok: token.QUESTION} },
		Ref:   func(k []string) string { return k[0] + "?" }})
	add(&shape{Name: "ew?:X", Arity: 1, Kind: "ErrWrapExpr", Fields: []string{"X"},
		Build: func(k []ast.Expr) ast.Expr {
			return &ast.ErrWrapExpr{X: k[0], Tok: token.QUESTION, Default: id("d")}
		},
		Ref: func(k []string) string { return k[0] + "?:d" }})
	add(&shape{Name: "ew?:D", Arity: 1, Kind: "ErrWrapExpr", Fields: []string{"Default"},
		Build: func(k []ast.Expr) ast.Expr {
			return &ast.ErrWrapExpr{X: id("x"), Tok: token.QUESTION, Default: k[0]}
		},
		Ref: func(k []string) string { return "x?:" + k[0] }})
	// lambdas (flags as the parser / x/format set them: LhsHasParen == len(Lhs) > 1)
	add(&shape{Name: "lam", Arity: 1, Kind: "LambdaExpr", Fields: []string{"Rhs"}, Bare: map[int]bool{0: true},
		Build: func(k []ast.Expr) ast.Expr { return &ast.LambdaExpr{Lhs: []*ast.Ident{id("x")}, Rhs: []ast.Expr{k[0]}} },
		Ref:   func(k []string) string { return "x => " + k[0] }})
	add(&shape{Name: "lamP", Arity: 1, Kind: "LambdaExpr", Fields: []string{"Rhs"}, Bare: map[int]bool{0: true},
		Build: func(k []ast.Expr) ast.Expr {
			return &ast.LambdaExpr{Lhs: []*ast.Ident{id("x")}, Rhs: []ast.Expr{k[0]}, RhsHasParen: true}
		},
		Ref: func(k []string) string { return "x => (" + k[0] + ")" }})
	add(&shape{Name: "lam0", Arity: 1, Kind: "LambdaExpr", Fields: []string{"Rhs"}, Bare: map[int]bool{0: true},
		Build: func(k []ast.Expr) ast.Expr { return &ast.LambdaExpr{Rhs: []ast.Expr{k[0]}} },
		Ref:   func(k []string) string { return "=> " + k[0] }})
	add(&shape{Name: "lamXY", Arity: 1, Kind: "LambdaExpr", Fields: []string{"Rhs"}, Bare: map[int]bool{0: true},
		Build: func(k []ast.Expr) ast.Expr {
			return &ast.LambdaExpr{Lhs: []*ast.Ident{id("x"), id("y")}, Rhs: []ast.Expr{k[0]}, LhsHasParen: true}
		},
		Ref: func(k []string) string { return "(x, y) => " + k[0] }})
	add(&shape{Name: "lam2", Arity: 1, Kind: "LambdaExpr2", Fields: []string{"Body"}, Bare: map[int]bool{0: true},
		Build: func(k []ast.Expr) ast.Expr { return &ast.LambdaExpr2{Lhs: []*ast.Ident{id("x")}, Body: retBlock(k[0])} },
		Ref:   func(k []string) string { return "x => {\nreturn " + k[0] + "\n}" }})
	add(&shape{Name: "funclit", Arity: 1, Kind: "FuncLit", Fields: []string{"Body"}, Bare: map[int]bool{0: true},
		Build: func(k []ast.Expr) ast.Expr {
			return &ast.FuncLit{Type: &ast.FuncType{Params: &ast.FieldList{}}, Body: retBlock(k[0])}
		},
		Ref: func(k []string) string { return "func() {\nreturn " + k[0] + "\n}" }})
	// literals
	add(&shape{Name: "slit1", Arity: 1, Kind: "SliceLit", Fields: []string{"Elts"},
		Build: func(k []ast.Expr) ast.Expr { return &ast.SliceLit{Elts: []ast.Expr{k[0]}} },
		Ref:   func(k []string) string { return "[" + k[0] + "]" }})
	add(&shape{Name: "clit1", Arity: 1, Kind: "CompositeLit", Fields: []string{"Elts"},
		Build: func(k []ast.Expr) ast.Expr { return &ast.CompositeLit{Type: id("T"), Elts: []ast.Expr{k[0]}} },
		Ref:   func(k []string) string { return "T{" + k[0] + "}" }})
	add(&shape{Name: "clitV", Arity: 1, Kind: "CompositeLit", Fields: []string{"Elts.Value"},
		Build: func(k []ast.Expr) ast.Expr {
			return &ast.CompositeLit{Type: id("T"), Elts: []ast.Expr{&ast.KeyValueExpr{Key: id("k"), Value: k[0]}}}
		},
		Ref: func(k []string) string { return "T{k: " + k[0] + "}" }})
	add(&shape{Name: "clitK", Arity: 1, Kind: "CompositeLit", Fields: []string{"Elts.Key"},
		Build: func(k []ast.Expr) ast.Expr {
			return &ast.CompositeLit{Type: id("T"), Elts: []ast.Expr{&ast.KeyValueExpr{Key: k[0], Value: id("v")}}}
		},
		Ref: func(k []string) string { return "T{" + k[0] + ": v}" }})
	add(&shape{Name: "maplit", Arity: 1, Kind: "CompositeLit", Fields: []string{"Elts.Value"},
		Build: func(k []ast.Expr) ast.Expr {
			return &ast.CompositeLit{Elts: []ast.Expr{&ast.KeyValueExpr{Key: id("k"), Value: k[0]}}}
		},
		Ref: func(k []string) string { return "{k: " + k[0] + "}" }})
	// comprehensions and range expressions (a range expression is only legal as the source of a for-phrase)
	add(&shape{Name: "compE", Arity: 1, Kind: "ComprehensionExpr", Fields: []string{"Elt"},
		Build: func(k []ast.Expr) ast.Expr {
			return &ast.ComprehensionExpr{Tok: token.LBRACK, Elt: k[0], Fors: forPhrase(id("c"), nil)}
		},
		Ref: func(k []string) string { return "[" + k[0] + " for v <- c]" }})
	add(&shape{Name: "compX", Arity: 1, Kind: "ComprehensionExpr", Fields: []string{"Fors.X"},
		Build: func(k []ast.Expr) ast.Expr {
			return &ast.ComprehensionExpr{Tok: token.LBRACK, Elt: id("e"), Fors: forPhrase(k[0], nil)}
		},
		Ref: func(k []string) string { return "[e for v <- " + k[0] + "]" }})
	add(&shape{Name: "compC", Arity: 1, Kind: "ComprehensionExpr", Fields: []string{"Fors.Cond"},
		Build: func(k []ast.Expr) ast.Expr {
			return &ast.ComprehensionExpr{Tok: token.LBRACK, Elt: id("e"), Fors: forPhrase(id("c"), k[0])}
		},
		Ref: func(k []string) string { return "[e for v <- c if " + k[0] + "]" }})
	add(&shape{Name: "rngF", Arity: 1, Kind: "RangeExpr", Fields: []string{"First"},
		Build: func(k []ast.Expr) ast.Expr {
			return &ast.ComprehensionExpr{Tok: token.LBRACK, Elt: id("e"), Fors: forPhrase(&ast.RangeExpr{First: k[0], Last: id("n")}, nil)}
		},
		Ref: func(k []string) string { return "[e for v <- " + k[0] + ":n]" }})
	add(&shape{Name: "rngL", Arity: 1, Kind: "RangeExpr", Fields: []string{"Last"},
		Build: func(k []ast.Expr) ast.Expr {
			return &ast.ComprehensionExpr{Tok: token.LBRACK, Elt: id("e"), Fors: forPhrase(&ast.RangeExpr{Last: k[0]}, nil)}
		},
		Ref: func(k []string) string { return "[e for v <- :" + k[0] + "]" }})

	// binary operators: one per precedence level (two for levels 4 and 5) plus the XGo arrows
	for _, op := range []token.Token{token.LOR, token.LAND, token.EQL, token.LSS, token.ADD, token.SUB, token.MUL, token.QUO, token.SHL, token.AND, token.SRARROW, token.BIDIARROW} {
		op := op
		add(&shape{Name: "b" + op.String(), Arity: 2, Kind: "BinaryExpr", Fields: []string{"X", "Y"},
			Build: func(k []ast.Expr) ast.Expr { return &ast.BinaryExpr{X: k[0], Op: op, Y: k[1]} },
			Ref:   func(k []string) string { return k[0] + " " + op.String() + " " + k[1] }})
	}
	add(&shape{Name: "idx2", Arity: 2, Kind: "IndexExpr", Fields: []string{"X", "Index"},
		Build: func(k []ast.Expr) ast.Expr { return &ast.IndexExpr{X: k[0], Index: k[1]} },
		Ref:   func(k []string) string { return k[0] + "[" + k[1] + "]" }})
	add(&shape{Name: "call2", Arity: 2, Kind: "CallExpr", Fields: []string{"Fun", "Args"},
		Build: func(k []ast.Expr) ast.Expr { return &ast.CallExpr{Fun: k[0], Args: []ast.Expr{k[1]}} },
		Ref:   func(k []string) string { return k[0] + "(" + k[1] + ")" }})
	add(&shape{Name: "callargs", Arity: 2, Kind: "CallExpr", Fields: []string{"Args", "Args"},
		Build: func(k []ast.Expr) ast.Expr { return &ast.CallExpr{Fun: id("f"), Args: []ast.Expr{k[0], k[1]}} },
		Ref:   func(k []string) string { return "f(" + k[0] + ", " + k[1] + ")" }})
	add(&shape{Name: "slc2", Arity: 2, Kind: "SliceExpr", Fields: []string{"Low", "High"},
		Build: func(k []ast.Expr) ast.Expr { return &ast.SliceExpr{X: id("x"), Low: k[0], High: k[1]} },
		Ref:   func(k []string) string { return "x[" + k[0] + ":" + k[1] + "]" }})
	add(&shape{Name: "ew?:2", Arity: 2, Kind: "ErrWrapExpr", Fields: []string{"X", "Default"},
		Build: func(k []ast.Expr) ast.Expr { return &ast.ErrWrapExpr{X: k[0], Tok: token.QUESTION, Default: k[1]} },
		Ref:   func(k []string) string { return k[0] + "?:" + k[1] }})
	add(&shape{Name: "clitKV", Arity: 2, Kind: "CompositeLit", Fields: []string{"Elts.Key", "Elts.Value"},
		Build: func(k []ast.Expr) ast.Expr {
			return &ast.CompositeLit{Type: id("T"), Elts: []ast.Expr{&ast.KeyValueExpr{Key: k[0], Value: k[1]}}}
		},
		Ref: func(k []string) string { return "T{" + k[0] + ": " + k[1] + "}" }})
	add(&shape{Name: "slit2", Arity: 2, Kind: "SliceLit", Fields: []string{"Elts", "Elts"},
		Build: func(k []ast.Expr) ast.Expr { return &ast.SliceLit{Elts: []ast.Expr{k[0], k[1]}} },
		Ref:   func(k []string) string { return "[" + k[0] + ", " + k[1] + "]" }})
}

func (t *T) build() ast.Expr {
	s := shapeByName[t.S]
	k := make([]ast.Expr, len(t.K))
	for i, c := range t.K {
		k[i] = c.build()
	}
	return s.Build(k)
}

// buildParen builds the tree with an explicit ParenExpr around the node reached by path (child indices).
func (t *T) buildParen(path []int) ast.Expr {
	s := shapeByName[t.S]
	k := make([]ast.Expr, len(t.K))
	for i, c := range t.K {
		if len(path) > 0 && path[0] == i {
			if len(path) == 1 {
				k[i] = &ast.ParenExpr{X: c.build()}
			} else {
				k[i] = c.buildParen(path[1:])
			}
		} else {
			k[i] = c.build()
		}
	}
	return s.Build(k)
}

// ref renders the reference source: every non-leaf child is wrapped in parentheses, except at the
// positions where parentheses would change the meaning (lambda right-hand sides, statement bodies).
func (t *T) ref() string {
	s := shapeByName[t.S]
	k := make([]string, len(t.K))
	for i, c := range t.K {
		k[i] = c.ref()
		if len(c.K) > 0 && !s.Bare[i] {
			k[i] = "(" + k[i] + ")"
		}
	}
	return s.Ref(k)
}

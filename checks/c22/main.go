// C22: printing a synthesized tree preserves its structure.
// Mode E: every expression tree over 4 leaves and 56 node-building shapes (37 with one operand, 19 with two) up to a depth bound (no
// positions, no ParenExpr), alone and inside twelve statement forms and three control clauses.
// Workers only count; the parent re-evaluates one canonical minimal case per defect key in sorted
// order, so that the printed violations and replay files are the same on every run.
// Premise (well-formed): a fully parenthesised reference rendering of the tree parses back to the tree.
// Oracle: printer.Fprint output parses, and the result equals the tree modulo ParenExpr nodes.
package main

import (
	"bytes"
	"fmt"
	"os"
	"sort"
	"strings"

	"github.com/goplus/xgo/ast"
	"github.com/goplus/xgo/parser"
	"github.com/goplus/xgo/printer"
	"github.com/goplus/xgo/token"
	"verif/astx"
	"verif/engine"
)

type Case struct {
	Form string `json:"form"` // "expr" or a statement form
	Tree *T     `json:"tree"`
	Y    *T     `json:"y,omitempty"` // second expression of two-hole statement forms
}

func (k Case) String() string {
	s := k.Form + ":" + k.Tree.String()
	if k.Y != nil {
		s += ";" + k.Y.String()
	}
	return s
}

// ---------------------------------------------------------------------------------------------
// statement forms

type form struct {
	Name  string
	Holes int
	Kind  string   // statement kind for keys
	Field []string // field per hole
	Build func(x, y ast.Expr) ast.Stmt
	// Refs: candidate reference renderings (x, y: reference text, wrapped unless leaf; bx, by: bare)
	Refs func(x, y, bx, by string) []string
}

var forms = []*form{
	{Name: "exprstmt", Holes: 1, Kind: "ExprStmt", Field: []string{"X"},
		Build: func(x, _ ast.Expr) ast.Stmt { return &ast.ExprStmt{X: x} },
		Refs:  func(x, _, bx, _ string) []string { return []string{bx, "(" + bx + ")"} }},
	{Name: "cmd1", Holes: 1, Kind: "CommandCall", Field: []string{"Args"},
		Build: func(x, _ ast.Expr) ast.Stmt {
			return &ast.ExprStmt{X: &ast.CallExpr{Fun: id("f"), Args: []ast.Expr{x}, NoParenEnd: somePos}}
		},
		Refs: func(x, _, bx, _ string) []string { return []string{"f " + bx, "f " + x} }},
	{Name: "cmd2", Holes: 2, Kind: "CommandCall", Field: []string{"Args", "Args"},
		Build: func(x, y ast.Expr) ast.Stmt {
			return &ast.ExprStmt{X: &ast.CallExpr{Fun: id("f"), Args: []ast.Expr{x, y}, NoParenEnd: somePos}}
		},
		Refs: func(x, y, bx, by string) []string { return []string{"f " + bx + ", " + by, "f " + x + ", " + y} }},
	{Name: "cmdsel", Holes: 1, Kind: "CommandCall", Field: []string{"Args"},
		Build: func(x, _ ast.Expr) ast.Stmt {
			return &ast.ExprStmt{X: &ast.CallExpr{Fun: &ast.SelectorExpr{X: id("o"), Sel: id("f")}, Args: []ast.Expr{x}, NoParenEnd: somePos}}
		},
		Refs: func(x, _, bx, _ string) []string { return []string{"o.f " + bx, "o.f " + x} }},
	{Name: "assign", Holes: 1, Kind: "AssignStmt", Field: []string{"Rhs"},
		Build: func(x, _ ast.Expr) ast.Stmt {
			return &ast.AssignStmt{Lhs: []ast.Expr{id("z")}, Tok: token.ASSIGN, Rhs: []ast.Expr{x}}
		},
		Refs: func(x, _, bx, _ string) []string { return []string{"z = " + bx, "z = " + x} }},
	{Name: "define2", Holes: 2, Kind: "AssignStmt", Field: []string{"Rhs", "Rhs"},
		Build: func(x, y ast.Expr) ast.Stmt {
			return &ast.AssignStmt{Lhs: []ast.Expr{id("z"), id("w")}, Tok: token.DEFINE, Rhs: []ast.Expr{x, y}}
		},
		Refs: func(x, y, bx, by string) []string {
			return []string{"z, w := " + bx + ", " + by, "z, w := " + x + ", " + y}
		}},
	{Name: "assignlhs", Holes: 1, Kind: "AssignStmt", Field: []string{"Lhs"},
		Build: func(x, _ ast.Expr) ast.Stmt {
			return &ast.AssignStmt{Lhs: []ast.Expr{x}, Tok: token.ASSIGN, Rhs: []ast.Expr{id("z")}}
		},
		Refs: func(x, _, bx, _ string) []string { return []string{bx + " = z", "(" + bx + ") = z"} }},
	{Name: "sendval", Holes: 1, Kind: "SendStmt", Field: []string{"Values"},
		Build: func(x, _ ast.Expr) ast.Stmt { return &ast.SendStmt{Chan: id("c"), Values: []ast.Expr{x}} },
		Refs:  func(x, _, bx, _ string) []string { return []string{"c <- " + bx, "c <- " + x} }},
	{Name: "sendchan", Holes: 1, Kind: "SendStmt", Field: []string{"Chan"},
		Build: func(x, _ ast.Expr) ast.Stmt { return &ast.SendStmt{Chan: x, Values: []ast.Expr{id("z")}} },
		Refs:  func(x, _, bx, _ string) []string { return []string{bx + " <- z", "(" + bx + ") <- z"} }},
	{Name: "incdec", Holes: 1, Kind: "IncDecStmt", Field: []string{"X"},
		Build: func(x, _ ast.Expr) ast.Stmt { return &ast.IncDecStmt{X: x, Tok: token.INC} },
		Refs:  func(x, _, bx, _ string) []string { return []string{bx + "++", "(" + bx + ")++"} }},
	{Name: "return1", Holes: 1, Kind: "ReturnStmt", Field: []string{"Results"},
		Build: func(x, _ ast.Expr) ast.Stmt { return &ast.ReturnStmt{Results: []ast.Expr{x}} },
		Refs:  func(x, _, bx, _ string) []string { return []string{"return " + bx, "return " + x} }},
	{Name: "return2", Holes: 2, Kind: "ReturnStmt", Field: []string{"Results", "Results"},
		Build: func(x, y ast.Expr) ast.Stmt { return &ast.ReturnStmt{Results: []ast.Expr{x, y}} },
		Refs: func(x, y, bx, by string) []string {
			return []string{"return " + bx + ", " + by, "return " + x + ", " + y}
		}},
	{Name: "if", Holes: 1, Kind: "IfStmt", Field: []string{"Cond"},
		Build: func(x, _ ast.Expr) ast.Stmt { return &ast.IfStmt{Cond: x, Body: &ast.BlockStmt{}} },
		Refs:  func(x, _, bx, _ string) []string { return []string{"if (" + bx + ") {\n}", "if " + bx + " {\n}"} }},
	{Name: "for", Holes: 1, Kind: "ForStmt", Field: []string{"Cond"},
		Build: func(x, _ ast.Expr) ast.Stmt { return &ast.ForStmt{Cond: x, Body: &ast.BlockStmt{}} },
		Refs:  func(x, _, bx, _ string) []string { return []string{"for (" + bx + ") {\n}", "for " + bx + " {\n}"} }},
	{Name: "switch", Holes: 1, Kind: "SwitchStmt", Field: []string{"Tag"},
		Build: func(x, _ ast.Expr) ast.Stmt { return &ast.SwitchStmt{Tag: x, Body: &ast.BlockStmt{}} },
		Refs: func(x, _, bx, _ string) []string {
			return []string{"switch (" + bx + ") {\n}", "switch " + bx + " {\n}"}
		}},
}

var formByName = map[string]*form{}

func init() {
	for _, f := range forms {
		formByName[f.Name] = f
	}
}

func wrapFile(stmt ast.Stmt) *ast.File {
	return &ast.File{Name: id("p"), Decls: []ast.Decl{&ast.FuncDecl{Name: id("f"),
		Type: &ast.FuncType{Params: &ast.FieldList{}}, Body: &ast.BlockStmt{List: []ast.Stmt{stmt}}}}}
}

func wrapSrc(stmt string) string { return "package p\n\nfunc f() {\n" + stmt + "\n}\n" }

func wrapped(t *T) string {
	if len(t.K) == 0 {
		return t.ref()
	}
	return "(" + t.ref() + ")"
}

// ---------------------------------------------------------------------------------------------
// evaluation

type verdict struct {
	status string // "ok", "excluded", "fail"
	what   string // failure class: "print-error", "reparse-fails", "tree-differs"
	detail string
	out    string
	ref    string // the reference source that established well-formedness
}

var eqOpt = astx.Options{StripParens: true}

// roundTrip prints node (an ast.Expr or *ast.File) and compares the re-parsed result with it.
func roundTrip(node ast.Node) verdict {
	var buf bytes.Buffer
	if err := printer.Fprint(&buf, token.NewFileSet(), node); err != nil {
		return verdict{status: "fail", what: "print-error", detail: err.Error()}
	}
	out := buf.String()
	var back ast.Node
	var err error
	if f, ok := node.(*ast.File); ok {
		_ = f
		back, err = parser.ParseFile(token.NewFileSet(), "a.xgo", out, 0)
	} else {
		back, err = parser.ParseExpr(out)
	}
	if err != nil {
		return verdict{status: "fail", what: "reparse-fails", detail: err.Error(), out: out}
	}
	if d := astx.Equal(node, back, eqOpt); d != "" {
		return verdict{status: "fail", what: "tree-differs", detail: d, out: out}
	}
	return verdict{status: "ok", out: out}
}

// expressible: does one of the reference renderings parse to the tree (modulo parentheses)? It returns that rendering.
func expressible(node ast.Node, refs []string) (string, bool) {
	for _, r := range refs {
		var back ast.Node
		var err error
		if _, ok := node.(*ast.File); ok {
			back, err = parser.ParseFile(token.NewFileSet(), "a.xgo", wrapSrc(r), 0)
		} else {
			back, err = parser.ParseExpr(r)
		}
		if err == nil && astx.Equal(node, back, eqOpt) == "" {
			return r, true
		}
	}
	return "", false
}

func (k Case) node() (ast.Node, []string) {
	if k.Form == "expr" {
		return k.Tree.build(), []string{k.Tree.ref()}
	}
	f := formByName[k.Form]
	var y ast.Expr
	var wy, by string
	if k.Y != nil {
		y = k.Y.build()
		wy, by = wrapped(k.Y), k.Y.ref()
	}
	return wrapFile(f.Build(k.Tree.build(), y)), f.Refs(wrapped(k.Tree), wy, k.Tree.ref(), by)
}

var memo = map[string]verdict{}

// judgeMemo caches the verdicts of the (heavily repeated) subtree and minimisation queries.
func judgeMemo(k Case) verdict {
	key := k.String()
	if v, ok := memo[key]; ok {
		return v
	}
	v := judge(k)
	if len(memo) < 200_000 {
		memo[key] = v
	}
	return v
}

func judge(k Case) verdict {
	var v verdict
	g := engine.Guard(func() {
		node, refs := k.node()
		ref, ok := expressible(node, refs)
		if !ok {
			v = verdict{status: "excluded"}
			return
		}
		v = roundTrip(node)
		v.ref = ref
	})
	if g != nil {
		v = verdict{status: "fail", what: g.Key, detail: g.What + "\n" + g.Detail}
	}
	return v
}

var leafA = &T{S: "a"}

// subtreeFails: does a proper subtree fail when printed alone (its defect is then reported there)?
func subtreeFails(t *T) bool {
	for _, c := range t.K {
		if len(c.K) == 0 {
			continue
		}
		if judgeMemo(Case{Form: "expr", Tree: c}).status == "fail" || subtreeFails(c) {
			return true
		}
	}
	return false
}

func clone(t *T) *T {
	n := &T{S: t.S}
	for _, c := range t.K {
		n.K = append(n.K, clone(c))
	}
	return n
}

// minimise replaces non-leaf subtrees by the leaf "a" as long as the case keeps failing in the same way.
func minimise(k Case, what string) Case {
	cur := Case{Form: k.Form, Tree: clone(k.Tree)}
	if k.Y != nil {
		cur.Y = clone(k.Y)
	}
	still := func(c Case) bool { return judgeMemo(c).status == "fail" }
	changed := true
	for changed {
		changed = false
		var visit func(t *T) bool
		visit = func(t *T) bool {
			for i, c := range t.K {
				if len(c.K) == 0 {
					continue
				}
				t.K[i] = leafA
				if still(cur) {
					return true
				}
				t.K[i] = c
				if visit(c) {
					return true
				}
			}
			return false
		}
		roots := []*T{cur.Tree}
		if cur.Y != nil {
			roots = append(roots, cur.Y)
		}
		for ri, r := range roots {
			if len(r.K) > 0 { // the whole hole expression
				save := r
				if ri == 0 {
					cur.Tree = leafA
				} else {
					cur.Y = leafA
				}
				if still(cur) {
					changed = true
					break
				}
				if ri == 0 {
					cur.Tree = save
				} else {
					cur.Y = save
				}
			}
			if visit(r) {
				changed = true
				break
			}
		}
	}
	return cur
}

// kinds renders the defect signature of a minimal failing tree: the outer node kind, the field of
// the child that matters and the innermost node kind; intermediate nodes are collapsed to "..",
// because the same defect shows through any chain of operand positions. Leaves are omitted.
func kinds(t *T) string {
	s := shapeByName[t.S]
	if len(t.K) == 0 {
		return ""
	}
	var inner []string
	for i, c := range t.K {
		if len(c.K) == 0 {
			continue
		}
		f := s.Fields[i]
		ck := innermost(c, 0)
		if f != "X" {
			ck = f + "=" + ck
		}
		inner = append(inner, ck)
	}
	if len(inner) == 0 {
		return s.Kind
	}
	return s.Kind + "(" + strings.Join(inner, ",") + ")"
}

// innermost follows the single non-leaf child chain below t.
func innermost(t *T, depth int) string {
	var nl []*T
	for _, c := range t.K {
		if len(c.K) > 0 {
			nl = append(nl, c)
		}
	}
	if len(nl) == 1 {
		return innermost(nl[0], depth+1)
	}
	k := shapeByName[t.S].Kind
	if len(nl) > 1 {
		k = kinds(t)
	}
	if depth > 0 {
		return ".." + k
	}
	return k
}

// parenFixes: does an explicit ParenExpr around some non-leaf subtree make the case pass?
func parenFixes(k Case) bool {
	var paths [][]int
	var walk func(t *T, p []int)
	walk = func(t *T, p []int) {
		for i, c := range t.K {
			if len(c.K) > 0 {
				q := append(append([]int{}, p...), i)
				paths = append(paths, q)
				walk(c, q)
			}
		}
	}
	try := func(x, y ast.Expr) bool {
		var node ast.Node
		if k.Form == "expr" {
			node = x
		} else {
			node = wrapFile(formByName[k.Form].Build(x, y))
		}
		ok := false
		engine.Guard(func() { ok = roundTrip(node).status == "ok" })
		return ok
	}
	var y ast.Expr
	if k.Y != nil {
		y = k.Y.build()
	}
	walk(k.Tree, nil)
	for _, p := range paths {
		if try(k.Tree.buildParen(p), y) {
			return true
		}
	}
	if k.Form != "expr" && len(k.Tree.K) > 0 && try(&ast.ParenExpr{X: k.Tree.build()}, y) {
		return true
	}
	if k.Y != nil {
		paths = nil
		walk(k.Y, nil)
		for _, p := range paths {
			if try(k.Tree.build(), k.Y.buildParen(p)) {
				return true
			}
		}
		if len(k.Y.K) > 0 && try(k.Tree.build(), &ast.ParenExpr{X: k.Y.build()}) {
			return true
		}
	}
	return false
}

// eval returns the failure of one case, keyed by the minimal (outer, inner) node-kind combination.
type failure struct {
	*engine.Failure
	min Case // the minimised, canonical case (what the replay file carries)
}

// signature: the defect signature of a minimal failing case (see kinds).
func signature(m Case) string {
	if m.Form == "expr" {
		return kinds(m.Tree)
	}
	f := formByName[m.Form]
	parts := []string{}
	if len(m.Tree.K) > 0 {
		parts = append(parts, f.Field[0]+"="+innermost(m.Tree, 0))
	}
	if m.Y != nil && len(m.Y.K) > 0 {
		parts = append(parts, f.Field[1]+"="+innermost(m.Y, 0))
	}
	return f.Kind + "(" + strings.Join(parts, ",") + ")"
}

// canonical replaces every node of a minimal failing case by the first shape of the same node kind,
// arity and child fields (and every leaf by a) as long as the case keeps failing with the same
// signature, so that one defect is represented by one case whatever input revealed it.
func canonical(m Case) Case {
	sig := signature(m)
	keeps := func(c Case) bool { // still failing, same signature, and still minimal (else the replacement switched to another defect)
		return judgeMemo(c).status == "fail" && signature(c) == sig && minimise(c, "").String() == c.String()
	}
	var visit func(t *T)
	visit = func(t *T) {
		cur := shapeByName[t.S]
		for _, alt := range shapes {
			if alt == cur {
				break
			}
			if alt.Kind != cur.Kind || alt.Arity != cur.Arity || strings.Join(alt.Fields, ",") != strings.Join(cur.Fields, ",") {
				if !(cur.Arity == 0 && alt.Arity == 0) {
					continue
				}
			}
			old := t.S
			t.S = alt.Name
			if keeps(m) {
				break
			}
			t.S = old
		}
		for _, c := range t.K {
			visit(c)
		}
	}
	m = Case{Form: m.Form, Tree: clone(m.Tree), Y: m.Y}
	if m.Y != nil {
		m.Y = clone(m.Y)
		visit(m.Y)
	}
	visit(m.Tree)
	return m
}

func eval(k Case) (*failure, string) {
	v := judge(k)
	if v.status != "fail" {
		return nil, v.status
	}
	if subtreeFails(k.Tree) || k.Y != nil && (subtreeFails(k.Y) || len(k.Y.K) > 0 && judgeMemo(Case{Form: "expr", Tree: k.Y}).status == "fail") {
		return nil, "fails_inherited_from_subtree"
	}
	if k.Form != "expr" && len(k.Tree.K) > 0 && judgeMemo(Case{Form: "expr", Tree: k.Tree}).status == "fail" {
		return nil, "fails_inherited_from_subtree"
	}
	m := canonical(minimise(k, v.what))
	mv := judge(m)
	class := "roundtrip"
	if strings.HasPrefix(mv.what, "panic@") {
		class = mv.what
	} else if parenFixes(m) {
		class = "lost-parens"
	}
	key := class + ":" + signature(m)
	what := map[string]string{"reparse-fails": "does not parse", "tree-differs": "parses to a different tree", "print-error": "could not be produced"}[mv.what]
	if what == "" {
		what = "could not be produced: " + mv.what
	}
	return &failure{&engine.Failure{Key: key, What: "printed source " + what,
		Detail: fmt.Sprintf("minimal tree %s\nreference source %q\nprinter output  %q\n%s", m.String(), mv.ref, strings.TrimSpace(mv.out), mv.detail)}, m}, "fail"
}

// parseCase is the inverse of Case.String.
func parseCase(s string) (Case, error) {
	form, rest, ok := strings.Cut(s, ":")
	if !ok || (form != "expr" && formByName[form] == nil) {
		return Case{}, fmt.Errorf("bad form")
	}
	pos := 0
	var parse func() (*T, error)
	parse = func() (*T, error) {
		start := pos
		for pos < len(rest) && !strings.ContainsRune("(),;", rune(rest[pos])) {
			pos++
		}
		t := &T{S: rest[start:pos]}
		if shapeByName[t.S] == nil {
			return nil, fmt.Errorf("unknown shape %q", t.S)
		}
		if pos < len(rest) && rest[pos] == '(' {
			for {
				pos++ // '(' or ','
				c, err := parse()
				if err != nil {
					return nil, err
				}
				t.K = append(t.K, c)
				if pos >= len(rest) {
					return nil, fmt.Errorf("unterminated")
				}
				if rest[pos] == ')' {
					pos++
					break
				}
				if rest[pos] != ',' {
					return nil, fmt.Errorf("unexpected %q", rest[pos])
				}
			}
		}
		if len(t.K) != shapeByName[t.S].Arity {
			return nil, fmt.Errorf("arity of %s", t.S)
		}
		return t, nil
	}
	k := Case{Form: form}
	var err error
	if k.Tree, err = parse(); err != nil {
		return k, err
	}
	if pos < len(rest) && rest[pos] == ';' {
		pos++
		if k.Y, err = parse(); err != nil {
			return k, err
		}
	}
	if pos != len(rest) {
		return k, fmt.Errorf("trailing text")
	}
	return k, nil
}

// ---------------------------------------------------------------------------------------------
// enumeration

var leaves, unary, binary []*shape

func setup() {
	initShapes()
	for _, s := range shapes {
		switch s.Arity {
		case 0:
			leaves = append(leaves, s)
		case 1:
			unary = append(unary, s)
		case 2:
			binary = append(binary, s)
		}
	}
}

func leafSet(names ...string) []*T {
	var out []*T
	for _, n := range names {
		out = append(out, &T{S: n})
	}
	return out
}

// depth1 returns all trees of depth <= 1 over the given leaves; binary shapes use every ordered pair.
func depth1(lv []*T) []*T {
	out := append([]*T{}, lv...)
	for _, s := range unary {
		for _, l := range lv {
			out = append(out, &T{S: s.Name, K: []*T{l}})
		}
	}
	for _, s := range binary {
		for _, l := range lv {
			for _, r := range lv {
				out = append(out, &T{S: s.Name, K: []*T{l, r}})
			}
		}
	}
	return out
}

// reduced depth-1 set: every shape once (leaves a / (a, b)) plus the four leaves.
func depth1Reduced() []*T {
	out := leafSet("a", "b", "1", `"s"`)
	for _, s := range unary {
		out = append(out, &T{S: s.Name, K: leafSet("a")})
	}
	for _, s := range binary {
		out = append(out, &T{S: s.Name, K: leafSet("a", "b")})
	}
	return out
}

// spine2: every shape with one child position filled from set and the other positions with leaves.
func spine(set []*T) []*T {
	var out []*T
	for _, s := range unary {
		for _, c := range set {
			out = append(out, &T{S: s.Name, K: []*T{c}})
		}
	}
	for _, s := range binary {
		for _, c := range set {
			if len(c.K) == 0 {
				continue
			}
			out = append(out, &T{S: s.Name, K: []*T{c, {S: "b"}}}, &T{S: s.Name, K: []*T{{S: "a"}, c}})
		}
	}
	return out
}

type block struct {
	name string
	gen  func(emit func(Case))
}

func blocks(thorough bool) []block {
	full := depth1(leafSet("a", "b", "1", `"s"`))
	red := depth1Reduced()
	isRed := map[string]bool{}
	for _, t := range red {
		isRed[t.String()] = true
	}
	var bl []block
	bl = append(bl, block{"depth<=1", func(emit func(Case)) {
		for _, t := range full {
			emit(Case{Form: "expr", Tree: t})
		}
	}})
	for _, s := range unary {
		s := s
		bl = append(bl, block{"depth2:" + s.Name, func(emit func(Case)) {
			for _, c := range full {
				if len(c.K) > 0 {
					emit(Case{Form: "expr", Tree: &T{S: s.Name, K: []*T{c}}})
				}
			}
		}})
	}
	for _, s := range binary {
		s := s
		bl = append(bl, block{"depth2:" + s.Name, func(emit func(Case)) {
			pair := func(x, y *T) {
				if len(x.K) > 0 || len(y.K) > 0 {
					emit(Case{Form: "expr", Tree: &T{S: s.Name, K: []*T{x, y}}})
				}
			}
			if !thorough {
				for _, x := range red {
					for _, y := range red {
						pair(x, y)
					}
				}
				return
			}
			for _, x := range full {
				for _, y := range red {
					pair(x, y)
				}
			}
			for _, x := range red {
				for _, y := range full {
					if !isRed[y.String()] {
						pair(x, y)
					}
				}
			}
		}})
	}
	// statement forms
	stmtSet := full
	var sp2 []*T
	if thorough {
		sp2 = spine(red)
		stmtSet = append(append([]*T{}, full...), sp2...)
	}
	for _, f := range forms {
		f := f
		bl = append(bl, block{"stmt:" + f.Name, func(emit func(Case)) {
			if f.Holes == 1 {
				for _, t := range stmtSet {
					emit(Case{Form: f.Name, Tree: t})
				}
				return
			}
			for _, x := range red {
				for _, y := range red {
					emit(Case{Form: f.Name, Tree: x, Y: y})
				}
			}
		}})
	}
	if thorough {
		// depth 3: every shape and child position over the depth-2 spine set
		var nonleaf []*T
		for _, t := range sp2 {
			if t.depth() == 2 {
				nonleaf = append(nonleaf, t)
			}
		}
		for _, s := range unary {
			s := s
			bl = append(bl, block{"depth3:" + s.Name, func(emit func(Case)) {
				for _, c := range nonleaf {
					emit(Case{Form: "expr", Tree: &T{S: s.Name, K: []*T{c}}})
				}
			}})
		}
		for _, s := range binary {
			for pos := 0; pos < 2; pos++ {
				s, pos := s, pos
				bl = append(bl, block{fmt.Sprintf("depth3:%s.%d", s.Name, pos), func(emit func(Case)) {
					for _, c := range nonleaf {
						if pos == 0 {
							emit(Case{Form: "expr", Tree: &T{S: s.Name, K: []*T{c, {S: "b"}}}})
						} else {
							emit(Case{Form: "expr", Tree: &T{S: s.Name, K: []*T{{S: "a"}, c}}})
						}
					}
				}})
			}
		}
	}
	return bl
}

func main() {
	setup()
	c := engine.New("C22", "exploration")
	if c.IsReplay() {
		var k Case
		c.LoadReplay(&k)
		f, _ := eval(k)
		if f == nil {
			c.ReplayResult(nil)
		}
		c.ReplayResult(f.Failure)
	}
	bl := blocks(c.Thorough())
	job := &engine.Job{NumBlocks: len(bl)}
	job.RunBlock = func(w *engine.W, b int) {
		n := 0
		bl[b].gen(func(k Case) {
			if !w.Item(k) {
				return
			}
			f, status := eval(k)
			root := k.Form
			if k.Form == "expr" {
				root = k.Tree.S
			}
			switch status {
			case "ok":
				w.Nontrivial()
				w.Hist("roundtrip_ok")
			case "excluded":
				w.Hist("excluded_not_expressible")
				w.Hist("excluded_not_expressible:" + root)
			case "fails_inherited_from_subtree":
				w.Nontrivial()
				w.Hist("fails_inherited_from_subtree")
			case "fail":
				w.Nontrivial()
				w.Hist("fails")
				// reported by the parent in sorted order (deterministic output): key and canonical case travel in the histogram
				w.Hist("case:" + f.Key + "\t" + f.min.String())
			}
			if n%997 == 5 {
				w.Sample(k.String())
			}
			n++
		})
	}
	if os.Getenv("C22_INPROC") != "" && !c.IsWorker() { // debugging aid: no crash isolation, prints every distinct key
		seen := map[string]bool{}
		for _, b := range bl {
			b.gen(func(k Case) {
				f, st := eval(k)
				if st == "excluded" && os.Getenv("C22_INPROC") == "excluded" {
					_, refs := k.node()
					fmt.Printf("EXCLUDED %s %q\n", k.String(), refs)
				}
				if f != nil && !seen[f.Key] {
					seen[f.Key] = true
					fmt.Printf("%s\n    %s\n", f.Key, strings.ReplaceAll(f.Detail, "\n", "\n    "))
				}
			})
		}
		os.Exit(0)
	}
	job.Run(c)
	// keep the evidence small: per-shape exclusion counts are summarised
	hs := c.HistSnapshot()
	byKey := map[string][]string{}
	for h, n := range hs {
		if rest, ok := strings.CutPrefix(h, "case:"); ok {
			key, cs, _ := strings.Cut(rest, "\t")
			byKey[key] = append(byKey[key], cs)
			c.Hist("key:"+key, n)
		}
	}
	c.DropHist("case:")
	var keys []string
	for k := range byKey {
		keys = append(keys, k)
	}
	sort.Strings(keys)
	for _, key := range keys {
		cs := byKey[key]
		sort.Slice(cs, func(i, j int) bool { return len(cs[i]) < len(cs[j]) || len(cs[i]) == len(cs[j]) && cs[i] < cs[j] })
		k, err := parseCase(cs[0])
		if err != nil {
			c.Fatal("case %q: %v", cs[0], err)
		}
		f, _ := eval(k)
		if f == nil {
			c.Fatal("case %q failed in a worker but not in the parent", cs[0])
		}
		if f.Key != key {
			c.Fatal("case %q: key %q in a worker, %q in the parent", cs[0], key, f.Key)
		}
		c.Violate(f.min, f.Failure)
	}
	var ex []string
	for k, v := range hs {
		if strings.HasPrefix(k, "excluded_not_expressible:") {
			ex = append(ex, fmt.Sprintf("%s=%d", strings.TrimPrefix(k, "excluded_not_expressible:"), v))
		}
	}
	sort.Strings(ex)
	c.DropHist("excluded_not_expressible:")
	c.Extra["excluded_by_root_shape"] = strings.Join(ex, " ")
	names := []string{}
	for _, s := range shapes {
		names = append(names, s.Name)
	}
	c.Extra["bound"] = map[string]any{"shapes": strings.Join(names, " "), "blocks": len(bl), "leaves": len(leaves), "unary_shapes": len(unary), "binary_shapes": len(binary), "statement_forms": len(forms)}
	depthRule := "all trees of depth <= 1 over 4 leaves; depth 2: every one-child shape over all depth-1 trees, every two-child shape over all ordered pairs of the reduced depth-1 set (each shape once + the 4 leaves)"
	if c.Thorough() {
		depthRule = "all trees of depth <= 1 over 4 leaves; depth 2: every one-child shape over all depth-1 trees, every two-child shape over (all depth-1 trees x reduced set) and (reduced set x all depth-1 trees); depth 3: every shape and child position over the depth-2 spine set (every shape and child position over the reduced depth-1 set, leaves elsewhere)"
	}
	c.Rule = fmt.Sprintf("expression trees without positions and without ParenExpr over %d leaves (a, b, 1, \"s\"), %d one-child and %d two-child shapes (unary - + ! ^ & <-, *, call, index, slice, selector, type assertion, ErrWrap ! ? ?:, LambdaExpr x4, LambdaExpr2, FuncLit, SliceLit, CompositeLit with key/value, map literal, comprehension element/source/condition, RangeExpr first/last, BinaryExpr || && == < + - * / << & -> <>): %s; %d statement forms (ExprStmt, three command-style calls, assignments, sends, inc, returns, if/for/switch clause) over the depth-1 set (thorough: + depth-2 spine set), two-hole forms over reduced x reduced. distinct_nontrivial = judged well-formed cases",
		len(leaves), len(unary), len(binary), depthRule, len(forms))
	c.Assumptions = []string{
		"well-formed (premise) = a reference rendering with parentheses around every non-leaf operand (bare only where parentheses change the meaning: lambda and return bodies) parses back to the tree modulo ParenExpr; other trees are excluded and counted",
		"equality: astx.Equal with StripParens (node kinds, names, literal values, operators, flags such as RhsHasParen / Ellipsis / NoParenEnd validity; positions ignored)",
		"a failing case is reported only if no proper subtree fails on its own; it is minimised by replacing subtrees with the leaf a, and keyed by the node kinds of the minimal tree; class lost-parens = an explicit ParenExpr around one subtree makes the round trip succeed",
	}
	c.Finish()
}

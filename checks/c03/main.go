// C03: the error-wrapping operators expr!, expr? and expr?:d behave as documented.
// Mode E: the complete grid callee arity x outcome x operator x use position x enclosing result
// list (x named/unnamed results); every cell is a small enclosing function written twice: in XGo with
// the operator and in plain Go as the documented expansion (errref below).  Callees count and print
// their evaluation, so "exactly once", "second call does not run" and the values/zero values
// returned are all visible in the output that is compared.
package main

import (
	"fmt"
	"os"
	"strings"

	"verif/engine"
	"verif/models/gocheck"
	"verif/progs"
)

// Case is one cell of the grid.
type Case struct {
	Arity   int    `json:"arity"`               // values returned by the callee besides the error: 0, 1, 2
	Outcome string `json:"outcome"`             // ok | err | err2 (two wrapped calls: the first succeeds, the second fails)
	Op      string `json:"op"`                  // "!" | "?" | "?:"
	Pos     string `json:"pos"`                 // stmt | define | assign | arg | return | binary | two
	Results int    `json:"results"`             // enclosing function returns: 1 = error, 2 = (int, error), 3 = (int, string, error)
	Named   bool   `json:"named"`               // enclosing results are named and hold non-zero values when the operator runs
	Multi   bool   `json:"multiline,omitempty"` // the wrapped call is written over several lines (the frame's line is where it starts)
}

var (
	// closure / lambda: the wrapped call sits in a function literal (or a lambda passed to a helper) nested in the
	// named enclosing function; only expr! is placed there (expr? would return from the literal itself)
	positions = []string{"stmt", "define", "assign", "arg", "return", "binary", "two", "closure", "lambda"}
	operators = []string{"!", "?", "?:"}
)

// prelude: shared by subject and reference (plain Go, also valid XGo).
const prelude = `
var orig = errors.New("boom-c")
var orig2 = errors.New("boom-d")
var cnt, cnt2 int

func c0(ok bool) error {
	cnt++
	fmt.Println("call c0")
	if ok {
		return nil
	}
	return orig
}

func c1(ok bool) (int, error) {
	cnt++
	fmt.Println("call c1")
	if ok {
		return 7, nil
	}
	return 99, orig
}

func c2(ok bool) (int, string, error) {
	cnt++
	fmt.Println("call c2")
	if ok {
		return 7, "seven", nil
	}
	return 99, "junk", orig
}

func d1(ok bool) (int, error) {
	cnt2++
	fmt.Println("call d1")
	if ok {
		return 20, nil
	}
	return 98, orig2
}

func dflt2() (int, string) {
	return 55, "dflt"
}

func use1(a int) {
	fmt.Println("use1", a)
}

func use2(a int, b string) {
	fmt.Println("use2", a, b)
}

// refFrame is the wrapper used by the hand-written expansion of expr! (reference side only).
type refFrame struct {
	err  error
	text string
}

func (p *refFrame) Error() string { return p.err.Error() + " @ main.xgo " + p.text }
func (p *refFrame) Unwrap() error { return p.err }

func each1(f func(n int)) { f(0) }

// wantLine: the line on which the wrapped expression under test starts (set by the enclosing function
// from runtime.Caller just before the statement; the subject's //line directives make that an XGo line).
var wantLine int

func here() int {
	_, _, l, _ := runtime.Caller(1)
	return l
}

func refWrap(err error, code string, fn string) error {
	return &refFrame{err, "main." + fn + " " + code}
}

func reaches(err error, target error) bool {
	for n := 0; err != nil && n < 20; n++ {
		if err == target {
			return true
		}
		err = errors.Unwrap(err)
	}
	return false
}

// reportPanic describes a recovered panic value by the documented facts only.
func reportPanic(e interface{}, target error, code string, fn string) {
	err, isErr := e.(error)
	if !isErr {
		fmt.Println("panic: value is not an error:", e)
		return
	}
	text := err.Error()
	fmt.Println("panic: errors.Is", errors.Is(err, target), "unwrap-reaches-original", reaches(err, target),
		"text-has-original", strings.Contains(text, target.Error()), "text-has-expr", strings.Contains(text, code),
		"text-has-func", strings.Contains(text, "main."+fn), "text-has-file", strings.Contains(text, "main.xgo"))
	_, isRef := err.(*refFrame)
	fmt.Println("panic: frame-line-is-where-the-expression-starts", isRef || strings.Contains(text, fmt.Sprintf("main.xgo:%d ", wantLine)))
}

func reportErr(err error, target error, code string) {
	if err == nil {
		fmt.Println("err: nil")
		return
	}
	fmt.Println("err: errors.Is", errors.Is(err, target), "unwrap-reaches-original", reaches(err, target))
	fmt.Println("INFO returned-error-carries-frame", strings.Contains(err.Error(), code))
	// a frame is allowed, not demanded; one that is there must locate the expression
	fmt.Println("err: frame-line-is-where-the-expression-starts", !strings.Contains(err.Error(), "main.xgo:") || strings.Contains(err.Error(), fmt.Sprintf("main.xgo:%d ", wantLine)))
}
`

// wellTyped is the generator's own typing: which cells are expressible in Go at all.
// reason "" = generated; otherwise the histogram class of the skipped cell.
func wellTyped(k Case) string {
	if k.Outcome == "err2" && k.Pos != "two" {
		return "skipped_outcome_err2_only_for_two_calls"
	}
	if k.Op == "?:" && k.Arity == 0 {
		return "skipped_not_typed_in_go:default_for_no_value"
	}
	switch k.Pos {
	case "stmt":
	case "closure", "lambda":
		if k.Op != "!" {
			return "skipped_nested_function_positions_only_for_panic_operator"
		}
		if k.Arity != 1 {
			return "skipped_nested_function_positions_only_for_one_value"
		}
	case "define", "assign", "arg":
		if k.Arity == 0 {
			return "skipped_not_typed_in_go:no_value_to_use"
		}
	case "return":
		if k.Arity != 1 || k.Results < 2 {
			return "skipped_not_typed_in_go:return_operand"
		}
	case "binary", "two":
		if k.Arity != 1 {
			return "skipped_not_typed_in_go:operand_must_be_single_value"
		}
	}
	return ""
}

func resultList(k Case) string {
	if k.Named {
		return []string{"", "(err error)", "(n int, err error)", "(n int, s string, err error)"}[k.Results]
	}
	return []string{"", "error", "(int, error)", "(int, string, error)"}[k.Results]
}

func zeroReturn(k Case, e string) string {
	return "return " + []string{"", "", "0, ", "0, \"\", "}[k.Results] + e
}

func okReturn(k Case) string {
	return "return " + []string{"", "nil", "1, nil", "1, \"fin\", nil"}[k.Results]
}

func returnWith(k Case, v string) string { // return position: the wrapped value is the first result
	return "return " + []string{"", "", v + ", nil", v + ", \"r\", nil"}[k.Results]
}

func preset(k Case) string {
	if !k.Named {
		return ""
	}
	return []string{"", "", "n = 5\n", "n = 5\ns = \"pre\"\n"}[k.Results]
}

// wrapped call in XGo
func xgoWrap(call, op, dflt string) string {
	if op == "?:" {
		return call + "?:" + dflt
	}
	return call + op
}

// errref: the documented expansion of one wrapped call into plain Go statements.
// vars are the temporaries receiving the values, e the error temporary.
func errref(k Case, fn, call string, vars []string, e string, dflt []string) string {
	var sb strings.Builder
	lhs := append(append([]string{}, vars...), e)
	fmt.Fprintf(&sb, "%s := %s\n", strings.Join(lhs, ", "), call)
	fmt.Fprintf(&sb, "if %s != nil {\n", e)
	switch k.Op {
	case "!":
		fmt.Fprintf(&sb, "\tpanic(refWrap(%s, %q, %q))\n", e, call, fn)
	case "?":
		fmt.Fprintf(&sb, "\t%s\n", zeroReturn(k, e))
	case "?:":
		if len(vars) == 2 {
			fmt.Fprintf(&sb, "\t%s, %s = dflt2()\n", vars[0], vars[1])
		} else {
			fmt.Fprintf(&sb, "\t%s = %s\n", vars[0], dflt[0])
		}
	}
	sb.WriteString("}\n")
	return sb.String()
}

func encName(i int) string { return fmt.Sprintf("enc%d", i) }

// build returns the enclosing function in XGo and in Go, and the unit body calling it.
func build(k Case, i int) (xgoDecl, goDecl, body string) {
	fn := encName(i)
	call := fmt.Sprintf("c%d(ok)", k.Arity)
	if k.Multi {
		call = fmt.Sprintf("c%d(\n\tok,\n)", k.Arity)
	}
	vars := []string{"v1", "w1"}[:k.Arity]
	dflt := "55"
	if k.Arity == 2 {
		dflt = "dflt2()"
	}
	w := xgoWrap(call, k.Op, dflt)
	exp := errref(k, fn, call, vars, "e1", []string{"55"})
	var x, g string // statement under test
	after := "fmt.Println(\"after\")\n" + okReturn(k) + "\n"
	switch k.Pos {
	case "stmt":
		x = w + "\n"
		g = exp
		for _, v := range vars {
			g += "_ = " + v + "\n"
		}
	case "define":
		if k.Arity == 1 {
			x = "x := " + w + "\nfmt.Println(\"got\", x)\n"
			g = exp + "x := v1\nfmt.Println(\"got\", x)\n"
		} else {
			x = "x, t := " + w + "\nfmt.Println(\"got\", x, t)\n"
			g = exp + "x, t := v1, w1\nfmt.Println(\"got\", x, t)\n"
		}
	case "assign":
		if k.Arity == 1 {
			x = "var x int = -1\nx = " + w + "\nfmt.Println(\"got\", x)\n"
			g = "var x int = -1\n" + exp + "x = v1\nfmt.Println(\"got\", x)\n"
		} else {
			x = "var x int = -1\nvar t string = \"old\"\nx, t = " + w + "\nfmt.Println(\"got\", x, t)\n"
			g = "var x int = -1\nvar t string = \"old\"\n" + exp + "x, t = v1, w1\nfmt.Println(\"got\", x, t)\n"
		}
	case "closure":
		x = "func() {\n\tx := " + w + "\n\tfmt.Println(\"got\", x)\n}()\n"
		g = "func() {\n" + indent(exp+"x := v1\nfmt.Println(\"got\", x)\n") + "}()\n"
	case "lambda":
		x = "each1 n => {\n\tx := " + w + "\n\tfmt.Println(\"got\", x+n)\n}\n"
		g = "each1(func(n int) {\n" + indent(exp+"x := v1\nfmt.Println(\"got\", x+n)\n") + "})\n"
	case "arg":
		x = fmt.Sprintf("use%d(%s)\n", k.Arity, w)
		g = exp + fmt.Sprintf("use%d(%s)\n", k.Arity, strings.Join(vars, ", "))
	case "return":
		x = returnWith(k, w) + "\n"
		g = exp + returnWith(k, "v1") + "\n"
		after = ""
	case "binary":
		x = "y := " + w + " + 100\nfmt.Println(\"got\", y)\n"
		g = exp + "y := v1 + 100\nfmt.Println(\"got\", y)\n"
	case "two":
		w2 := xgoWrap("d1(ok2)", k.Op, "66")
		x = "y := " + w + " + " + w2 + "\nfmt.Println(\"got\", y)\n"
		g = exp + errref(k, fn, "d1(ok2)", []string{"v2"}, "e2", []string{"66"}) + "y := v1 + v2\nfmt.Println(\"got\", y)\n"
	}
	head := fmt.Sprintf("func %s(ok bool, ok2 bool) %s {\n", fn, resultList(k))
	// the line of the wrapped expression relative to the statement that records it
	off := map[string]int{"closure": 1, "lambda": 1}[k.Pos]
	if k.Pos == "assign" {
		off = k.Arity
	}
	if k.Pos == "two" && k.Outcome == "err2" && k.Multi {
		off += 2 // the failing second call starts on the line that closes the first, multi-line one
	}
	mark := fmt.Sprintf("wantLine = here() + %d\n", off+1)
	xgoDecl = head + indent(preset(k)+mark+x+after) + "}\n"
	goDecl = head + indent(preset(k)+mark+g+after) + "}\n"

	ok, ok2 := k.Outcome == "ok" || k.Outcome == "err2", k.Outcome != "err2"
	target, code := "orig", call
	if k.Multi {
		code = fmt.Sprintf("c%d(", k.Arity) // the frame shows the source text; its first token is what is looked for
	}
	if k.Outcome == "err2" {
		target, code = "orig2", "d1(ok2)"
	}
	rs := []string{"", "err", "r1, err", "r1, r2, err"}[k.Results]
	show := []string{"", "", ", r1", ", r1, r2"}[k.Results]
	body = fmt.Sprintf(`cnt, cnt2 = 0, 0
func() {
	defer func() {
		if e := recover(); e != nil {
			reportPanic(e, %s, %q, %q)
		}
	}()
	%s := %s(%v, %v)
	fmt.Println("returned"%s)
	reportErr(err, %s, %q)
}()
fmt.Println("counters", cnt, cnt2)`, target, code, fn, rs, fn, ok, ok2, show, target, code)
	return
}

func indent(s string) string {
	lines := strings.Split(strings.TrimRight(s, "\n"), "\n")
	for i := range lines {
		lines[i] = "\t" + lines[i]
	}
	return strings.Join(lines, "\n") + "\n"
}

func className(k Case) string {
	return fmt.Sprintf("%s/%d-values/%s", k.Op, k.Arity, k.Pos)
}

func unitFor(k Case, i int) progs.Unit {
	x, g, body := build(k, i)
	return progs.Unit{Key: className(k), XGo: body, Go: body, Decls: x, GoDecls: g}
}

var opts = progs.Options{Prelude: prelude, Imports: []string{"errors", "strings", "runtime"}, PerProgram: 150}

// stripInfo removes the informational lines (not demanded by the statement) from an output.
func stripInfo(out string) (rest string, info []string) {
	var sb strings.Builder
	for _, l := range strings.SplitAfter(out, "\n") {
		if strings.HasPrefix(l, "INFO ") {
			info = append(info, strings.TrimSpace(l))
			continue
		}
		sb.WriteString(l)
	}
	return sb.String(), info
}

// symptom names the first line on which subject and reference differ by its label.
func symptom(got, want string) string {
	g, w := strings.Split(got, "\n"), strings.Split(want, "\n")
	for i := 0; i < len(g) || i < len(w); i++ {
		var a, b string
		if i < len(g) {
			a = g[i]
		}
		if i < len(w) {
			b = w[i]
		}
		if a == b {
			continue
		}
		la, lb := label(a), label(b)
		switch {
		case lb == "call" || la == "call" || lb == "counters":
			return "wrong-evaluation-count-or-order"
		case lb == "panic:" && la == "panic:":
			return "wrong-panic-value"
		case lb == "panic:":
			return "missing-panic"
		case la == "panic:" || strings.HasPrefix(a, "PANIC:") || strings.HasPrefix(a, "<EXIT"):
			return "unexpected-panic"
		case lb == "returned":
			return "wrong-returned-values"
		case lb == "err:":
			return "wrong-returned-error"
		case lb == "got" || lb == "use1" || lb == "use2":
			return "wrong-yielded-value"
		case lb == "after" || la == "after":
			return "wrong-control-flow"
		}
		return "wrong-output"
	}
	return "wrong-output"
}

func label(l string) string {
	if i := strings.IndexByte(l, ' '); i > 0 {
		return l[:i]
	}
	return l
}

func judge(k Case, u progs.Unit, r progs.UnitResult) *engine.Failure {
	got, _ := stripInfo(r.Out)
	want, _ := stripInfo(r.RefOut)
	det := fmt.Sprintf("case=%+v\nXGo source:\n%s\nreference expansion:\n%s\ndriver:\n%s\nwant:\n%s\ngot:\n%s", k, u.Decls, u.GoDecls, u.XGo, want, got)
	switch {
	case r.CompileErr != "":
		return &engine.Failure{Key: "does-not-compile:" + className(k), What: "an error-wrapping expression that is well typed per its documented expansion is rejected by the compiler", Detail: r.CompileErr + "\n" + det}
	case r.BuildErr != "":
		return &engine.Failure{Key: "generated-go-does-not-build:" + className(k), What: "the Go generated for an error-wrapping expression does not build", Detail: r.BuildErr + "\n" + det}
	case got != want:
		return &engine.Failure{Key: symptom(got, want) + ":" + k.Op, What: "the program behaves differently from the documented expansion of the error-wrapping operator", Detail: det}
	}
	return nil
}

func enumerate(thorough bool) (cases []Case, skipped map[string]int64) {
	skipped = map[string]int64{}
	// class-major order (arity, position, operator), simplest first: the units of one class are
	// neighbours, so a class whose generated Go does not build only splits its own packed program
	for arity := 0; arity <= 2; arity++ {
		for _, pos := range positions {
			for _, op := range operators {
				for results := 1; results <= 3; results++ {
					for _, named := range []bool{false, true} {
						for _, outcome := range []string{"ok", "err", "err2"} {
							for _, multi := range []bool{false, true} {
								k := Case{arity, outcome, op, pos, results, named, multi}
								if why := wellTyped(k); why != "" {
									if outcome != "err2" && !multi {
										skipped[why]++
									}
									continue
								}
								if multi && (op != "!" && op != "?" || outcome == "ok") {
									continue // the layout matters for the frame only: operators that build one, on the error path
								}
								cases = append(cases, k)
							}
						}
					}
				}
			}
		}
	}
	return
}

func main() {
	c := engine.New("C03", "exploration")
	if c.IsReplay() {
		var k Case
		c.LoadReplay(&k)
		u := unitFor(k, 0)
		res, err := progs.RunUnits([]progs.Unit{u}, opts)
		if err != nil {
			c.Fatal("%v", err)
		}
		if res[0].RefBuildErr != "" {
			c.Fatal("reference does not build: %s", res[0].RefBuildErr)
		}
		c.ReplayResult(judge(k, u, res[0]))
	}
	// the grid is small: quick and thorough enumerate the same complete grid
	cases, skipped := enumerate(c.Thorough())
	units := make([]progs.Unit, len(cases))
	for i, k := range cases {
		units[i] = unitFor(k, i)
	}
	if os.Getenv("C03_DUMP") != "" {
		for i, u := range units {
			fmt.Printf("// ---- %d %+v\n%s\n// reference\n%s\n// driver\n%s\n", i, cases[i], u.Decls, u.GoDecls, u.XGo)
		}
		return
	}
	res, st, err := gocheck.RunUnits(units, opts, func(i int) string { return className(cases[i]) })
	if err != nil {
		c.Fatal("%v", err)
	}
	c.Extra["generated_go_rejected_by_go_types"] = st.Suspects
	c.Extra["of_these_confirmed_with_go_build"] = st.Confirmed
	for why, n := range skipped {
		c.Hist(why, n)
	}
	notRun := 0
	for i, k := range cases {
		r := res[i]
		if r.RefBuildErr != "" {
			c.Fatal("harness bug: reference of %+v does not build: %s", k, r.RefBuildErr)
		}
		c.Eval(1)
		if k.Outcome != "ok" {
			c.NontrivialN(1)
		}
		c.Hist("op "+k.Op, 1)
		c.Hist("pos "+k.Pos, 1)
		if i%97 == 0 {
			c.Sample(map[string]any{"case": k, "xgo": units[i].Decls, "reference": units[i].GoDecls, "want": r.RefOut})
		}
		if !r.Ran && r.CompileErr == "" && r.BuildErr == "" {
			c.Hist("not_run_after_abnormal_end_of_an_earlier_unit", 1)
			notRun++
			continue
		}
		if r.Ran {
			if _, info := stripInfo(r.Out); len(info) > 0 {
				for _, l := range info {
					c.Hist("info(not judged): "+strings.TrimPrefix(l, "INFO "), 1)
				}
			}
			if _, refInfo := stripInfo(r.RefOut); strings.Contains(r.RefOut, "panic: value is not") || (r.RefOut == "" && len(refInfo) == 0) {
				c.Fatal("harness bug: reference of %+v produced %q", k, r.RefOut)
			}
		}
		if f := judge(k, units[i], r); f != nil {
			c.Violate(k, f)
		}
	}
	if notRun > 0 {
		c.Cap(fmt.Sprintf("%d cases were queued behind an abnormally ended unit and were not run", notRun))
	}
	c.Extra["grid"] = "arity{0,1,2} x outcome{ok,err(,err2 for two calls)} x op{!,?,?:} x pos{stmt,:=,=,arg,return,binary,two} x results{error;(int,error);(int,string,error)} x {unnamed,named+preset}"
	c.Rule = "complete grid callee arity (0,1,2 values + error) x outcome (ok, err; for two wrapped calls also: second fails) x operator (!, ?, ?:default) x use position (expression statement, :=, =, call argument, return operand, binary operand, two wrapped calls in one expression) x enclosing result list (error; (int,error); (int,string,error)) x (unnamed results | named results holding non-zero values); cells that are not typable in Go are skipped by the generator's own typing and counted; quick = thorough (the grid is complete in both); distinct_nontrivial = cases in which a wrapped call returns a non-nil error"
	c.Assumptions = []string{
		"errref (documented expansion): v..., e := call; if e != nil { '!': panic(error wrapping e) | '?': return zero values..., e | '?:d': v = d }; the call is written once; operands are evaluated left to right",
		"expr!: the recovered value must be an error with errors.Is(v, original), an Unwrap chain reaching the original, and a text containing the original text, the source expression, the enclosing function (main.<name>), the file name and the line on which the wrapped expression starts (also when the call is written over several lines; the expected line is taken from runtime.Caller on the preceding statement)",
		"expr?: the returned error must satisfy errors.Is / Unwrap-reaches-original (a frame is allowed, not demanded; its presence is only counted); all other results must be zero values, also when named results hold other values",
		"on error the callees return non-zero values next to the error, so a lowering that uses them instead of the default / zero values is visible",
		"expr?:d with a 2-value call uses a 2-value call as d (x, t := c2(ok)?:dflt2()); d is side-effect free, so laziness of d is not judged",
		"programs are compiled in-process by parser+cl+gogen, built by the Go toolchain in a scratch module (go 1.23) and run with GOMAXPROCS=1",
	}
	c.Finish()
}

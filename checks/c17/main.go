// C17: every AST node's span is exact and nested.
// Mode E over all cleanly parsing corpus files, hand seeds and an enumerated expression grammar:
// Pos/End fall on token boundaries of an independent scan, children nest in order without overlap,
// and re-parsing an expression node's source slice gives the same expression.
package main

import (
	"fmt"
	"sort"
	"strings"

	"github.com/goplus/xgo/ast"
	"github.com/goplus/xgo/parser"
	"github.com/goplus/xgo/token"
	"verif/astx"
	"verif/corpus"
	"verif/engine"
	"verif/fmtx"
	"verif/scanx"
)

type Case struct {
	Src  string `json:"src,omitempty"`
	File string `json:"file,omitempty"`
	// Layout: a variant of a pool source with a blank or comment inserted at one token boundary
	Layout bool `json:"layout,omitempty"`
}

func tname(n ast.Node) string { return strings.TrimPrefix(fmt.Sprintf("%T", n), "*ast.") }

// standalone: expression kinds that are legal operands on their own.
func standalone(n ast.Node) bool {
	switch x := n.(type) {
	case *ast.Ident, *ast.BasicLit, *ast.ParenExpr, *ast.UnaryExpr, *ast.BinaryExpr, *ast.SelectorExpr, *ast.IndexExpr, *ast.SliceExpr,
		*ast.SliceLit, *ast.FuncLit, *ast.EnvExpr, *ast.ErrWrapExpr, *ast.TypeAssertExpr, *ast.NumberUnitLit, *ast.ComprehensionExpr, *ast.MatrixLit:
		return true
	case *ast.CallExpr:
		return !x.NoParenEnd.IsValid() == false && false || x.Rparen.IsValid() && !x.IsCommand()
	case *ast.CompositeLit:
		return x.Type != nil
	}
	return false
}

// typeNode: type expressions; their source slice must re-parse, in a type position, to the same type.
func typeNode(n, parent ast.Node) bool {
	switch x := n.(type) {
	case *ast.ArrayType, *ast.MapType, *ast.ChanType, *ast.StructType, *ast.InterfaceType:
		return true
	case *ast.FuncType:
		if !x.Func.IsValid() {
			return false // interface method: no `func` keyword, the span is the signature only
		}
		switch parent.(type) {
		case *ast.FuncDecl, *ast.FuncLit:
			return false // the signature of a declaration or literal does not start at `func`
		}
		return true
	}
	return false
}

func reparseType(text string) (ast.Expr, error) {
	fset := token.NewFileSet()
	f, err := parser.ParseFile(fset, "t.xgo", []byte("var _ "+text+"\n"), 0)
	if err != nil {
		return nil, err
	}
	for _, d := range f.Decls {
		if g, ok := d.(*ast.GenDecl); ok && len(g.Specs) == 1 {
			if v, ok := g.Specs[0].(*ast.ValueSpec); ok && v.Type != nil {
				return v.Type, nil
			}
		}
	}
	return nil, fmt.Errorf("no type found in the re-parsed declaration")
}

func check(k Case) (fails []*engine.Failure, nodes int, parsed bool) {
	fn := k.File
	if fn == "" {
		fn = "a.xgo"
	}
	mode := parser.ParseComments
	if strings.HasSuffix(fn, ".gox") || strings.HasSuffix(fn, ".spx") || strings.HasSuffix(fn, ".gmx") {
		mode |= parser.ParseGoPlusClass
	}
	fset := token.NewFileSet()
	f, err := parser.ParseFile(fset, fn, []byte(k.Src), mode)
	if err != nil || f == nil {
		return nil, 0, false
	}
	src := []byte(k.Src)
	base := fset.File(f.Pos()).Base()
	if !f.Pos().IsValid() {
		return nil, 0, false
	}
	sc := scanx.XGo(src, true, nil)
	starts, ends := map[int]bool{}, map[int]bool{}
	for _, t := range sc.Toks {
		ext, _ := scanx.Extent(src, t)
		if ext > 0 {
			starts[t.Off] = true
			ends[t.Off+ext] = true
		}
	}
	seen := map[string]bool{}
	add := func(key, what, detail string) {
		if !seen[key] {
			seen[key] = true
			fails = append(fails, &engine.Failure{Key: key, What: what, Detail: detail})
		}
	}
	var rec func(n ast.Node, parent ast.Node, inLit bool)
	rec = func(n ast.Node, parent ast.Node, inLit bool) {
		nodes++
		synthetic := false
		switch x := n.(type) {
		case *ast.File:
			// a file without package clause starts at a synthetic name; with a shadow entry it ends at a synthetic brace
			synthetic = f.NoPkgDecl || f.ShadowEntry != nil
		case *ast.FuncDecl:
			synthetic = x.Shadow
		case *ast.BlockStmt:
			if fd, ok := parent.(*ast.FuncDecl); ok && fd.Shadow {
				synthetic = true
			}
		case *ast.FieldList:
			synthetic = !x.Opening.IsValid() && len(x.List) == 0 // receiver of a static method `func .name()`
		}
		if synthetic {
		} else {
			p, e := int(n.Pos())-base, int(n.End())-base
			ctx := func() string {
				lo, hi := p, e
				if lo < 0 {
					lo = 0
				}
				if hi > len(src) {
					hi = len(src)
				}
				if lo > hi {
					return fmt.Sprintf("%s pos=%d end=%d", tname(n), p, e)
				}
				return fmt.Sprintf("%s pos=%d end=%d text=%q file=%s", tname(n), p, e, trunc(string(src[lo:hi])), fn)
			}
			es, isEmpty := n.(*ast.EmptyStmt)
			switch {
			case !n.Pos().IsValid() || !n.End().IsValid():
				add("invalid-pos:"+tname(n), "node without a valid position in an error-free tree", ctx())
			case p < 0 || e > len(src) || p > e:
				add("span-range:"+tname(n), "node span outside the source or inverted", ctx())
			case isEmpty && es.Implicit:
			case inLit:
			default:
				if !starts[p] {
					add("pos-not-token-start:"+tname(n), "Pos is not the offset of a token start", ctx())
				}
				if !ends[e] && !(p == e) {
					add("end-not-token-end:"+tname(n), "End is not the offset just after a token", ctx())
				}
				if id, ok := n.(*ast.Ident); ok && !token.IsIdentifier(id.Name) {
					break // operator name of an overloaded operator declaration
				}
				if standalone(n) && starts[p] && ends[e] {
					x, perr := parser.ParseExpr(string(src[p:e]))
					if perr != nil {
						add("slice-does-not-parse:"+tname(n), "the node's source slice does not parse as an expression", ctx()+" err="+perr.Error())
					} else if d := astx.Equal(n, x, astx.Options{}); d != "" {
						add("slice-parses-differently:"+tname(n), "re-parsing the node's source slice yields a different expression", ctx()+" diff="+d)
					}
				}
				if typeNode(n, parent) && starts[p] && ends[e] {
					x, perr := reparseType(string(src[p:e]))
					if perr != nil {
						add("type-slice-does-not-parse:"+tname(n), "the type node's source slice does not parse as a type", ctx()+" err="+perr.Error())
					} else if d := astx.Equal(n, x, astx.Options{}); d != "" {
						add("type-slice-parses-differently:"+tname(n), "re-parsing the type node's source slice in a type position yields a different type", ctx()+" diff="+d)
					}
				}
			}
		}
		kids := astx.Children(n, false)
		_, lit := n.(*ast.BasicLit)
		_, dom := n.(*ast.DomainTextLit)
		var prev ast.Node
		for _, c := range kids {
			if !c.Pos().IsValid() || !c.End().IsValid() {
				rec(c, n, inLit || lit || dom)
				continue
			}
			skipNest := false
			switch x := n.(type) {
			case *ast.File:
				skipNest = f.NoPkgDecl || f.ShadowEntry != nil
			case *ast.FuncDecl:
				skipNest = x.Shadow
			case *ast.BlockStmt:
				if fd, ok := parent.(*ast.FuncDecl); ok && fd.Shadow {
					skipNest = true
				}
			}
			if !skipNest {
				if c.Pos() < n.Pos() || c.End() > n.End() {
					add("child-outside-parent:"+tname(n)+">"+tname(c), "child span not inside its parent's span",
						fmt.Sprintf("parent %s [%d,%d) child %s [%d,%d) file=%s text=%q", tname(n), int(n.Pos())-base, int(n.End())-base, tname(c), int(c.Pos())-base, int(c.End())-base, fn, trunc(slice(src, int(n.Pos())-base, int(n.End())-base))))
				}
			}
			_, isFT := c.(*ast.FuncType)
			_, parentFD := n.(*ast.FuncDecl)
			if !(isFT && parentFD) {
				if prev != nil && c.Pos() < prev.End() {
					add("siblings-overlap-or-unordered:"+tname(n), "children overlap or are not in source order",
						fmt.Sprintf("parent %s: %s [%d,%d) then %s [%d,%d) file=%s", tname(n), tname(prev), int(prev.Pos())-base, int(prev.End())-base, tname(c), int(c.Pos())-base, int(c.End())-base, fn))
				}
				prev = c
			}
			rec(c, n, inLit || lit || dom)
		}
	}
	g := engine.Guard(func() { rec(f, nil, false) })
	if g != nil {
		fails = append(fails, g)
	}
	return fails, nodes, true
}

func slice(src []byte, lo, hi int) string {
	if lo < 0 {
		lo = 0
	}
	if hi > len(src) {
		hi = len(src)
	}
	if lo > hi {
		return ""
	}
	return string(src[lo:hi])
}

func trunc(s string) string {
	if len(s) > 120 {
		return s[:120] + "…"
	}
	return s
}

// ---- enumerated expression grammar ----
func exprs(depth int) []string {
	atoms := []string{"a", "1", `"s"`, "x.y", "f()", "a[i]", "[1, 2]", "3ms", `"${b}c"`, "${H}", "{1: 2}"}
	if depth == 0 {
		return atoms
	}
	sub := exprs(depth - 1)
	out := append([]string{}, atoms...)
	for _, s := range sub {
		out = append(out, "-"+s, "!"+s, "("+s+")", s+"!", s+"?", s+".f", s+"[0]", s+"[1:2]", "f("+s+")", "&"+s, "*"+s, "<-"+s, "["+s+" for v <- x]", "func() int { return "+s+" }()")
	}
	lim := sub
	if len(lim) > 14 {
		lim = lim[:14]
	}
	for _, a := range lim {
		for _, b := range lim {
			out = append(out, a+" + "+b, a+" * "+b, a+" == "+b, a+" -> "+b, a+"?:"+b, "f("+a+", "+b+")", a+"["+b+"]")
		}
	}
	return out
}

// ---- enumerated type grammar: every type constructor nested to the given depth, in type and in
// expression positions (the parser has separate routines for the two) ----
func types(depth int) []string {
	atoms := []string{"int", "T", "p.T"}
	if depth == 0 {
		return atoms
	}
	sub := types(depth - 1)
	out := append([]string{}, atoms...)
	for _, s := range sub {
		out = append(out, "[]"+s, "[3]"+s, "*"+s, "map[string]"+s, "map["+s+"]int", "chan "+s, "<-chan "+s, "chan<- "+s, "chan ("+s+")",
			"func("+s+")", "func() "+s, "func(a, b "+s+") (x "+s+", err error)", "func(..."+s+")", "struct{ f "+s+" }", "struct {\n\tf, g "+s+"\n\t"+"h int\n}", "interface{ M() "+s+" }", "("+s+")")
	}
	return out
}

func stmtsForType(t string) []string {
	return []string{"var x " + t, "var x, y " + t + " = nil, nil", "type N " + t, "type N = " + t, "func f(a " + t + ") {\n}", "func f() " + t + " {\n\treturn nil\n}",
		"func (r R) m(a int, b ..." + t + ") (c " + t + ") {\n\treturn\n}",
		"x := make(" + t + ")", "x := make(" + t + ", 1)", "x := new(" + t + ")", "x := (" + t + ")(nil)", "x := []" + t + "{}", "x := map[string]" + t + "{}",
		"x := y.(" + t + ")", "switch y.(type) {\ncase " + t + ":\n}", "x := func(a " + t + ") " + t + " { return a }", "var x struct {\n\ta " + t + "\n}",
		"var x interface {\n\tM(a " + t + ") " + t + "\n}", "echo make(" + t + ")", "f (" + t + ")(nil), 1"}
}

func stmtsFor(e string) []string {
	return []string{"x := " + e, "echo " + e, "return " + e, "if " + e + " {\n}", "for v <- " + e + " {\n}", "a <- " + e, "f " + e + ", 1", "x = " + e + "\ny++",
		"f " + e + "...", "echo 1, " + e + "...", "f(" + e + "...)", "a <- " + e + "..."}
}

// layoutVariants inserts a blank, a tab and a block comment at every token boundary of src (sources of
// at most maxTok tokens): spans must be exact however the tokens are spaced. A variant that no longer
// parses is outside the premise and skipped by the caller.
func layoutVariants(src string, maxTok int) []string {
	bs := fmtx.Boundaries(src)
	if len(bs) > maxTok+1 {
		return nil
	}
	var out []string
	for _, b := range bs {
		if b == 0 {
			continue
		}
		for _, ins := range []string{" ", "\t", " /*k*/ "} {
			out = append(out, src[:b]+ins+src[b:])
		}
	}
	return out
}

func main() {
	c := engine.New("C17", "exploration")
	if c.IsReplay() {
		var k Case
		c.LoadReplay(&k)
		fs, _, _ := check(k)
		if len(fs) > 0 {
			for _, f := range fs {
				if !c.IsKnown(f.Key) {
					c.ReplayResult(f)
				}
			}
		}
		c.ReplayResult(nil)
	}
	depth := 1
	if c.Thorough() {
		depth = 2
	}
	var cases []Case
	for _, s := range corpus.HandSeeds {
		cases = append(cases, Case{Src: s})
	}
	names, srcs := corpus.AllXGo(200000)
	for i := range names {
		cases = append(cases, Case{Src: srcs[i], File: names[i]})
	}
	es := exprs(depth)
	sort.Strings(nil)
	for _, e := range es {
		for _, s := range stmtsFor(e) {
			cases = append(cases, Case{Src: s})
		}
	}
	// types nested one level deeper than the expressions; layout variants for all but the deepest level
	shallow := map[string]bool{}
	for _, t := range types(depth) {
		shallow[t] = true
	}
	noLayout := map[string]bool{}
	for _, t := range types(depth + 1) {
		for _, s := range stmtsForType(t) {
			cases = append(cases, Case{Src: s})
			if !shallow[t] {
				noLayout[s] = true
			}
		}
	}
	maxTok := 40
	if c.Thorough() {
		maxTok = 120
	}
	base := len(cases)
	for _, k := range cases[:base] {
		if k.File != "" && !c.Thorough() {
			continue // repository files get layout variants in the thorough tier
		}
		if noLayout[k.Src] {
			continue
		}
		for _, v := range layoutVariants(k.Src, maxTok) {
			cases = append(cases, Case{Src: v, Layout: true})
		}
	}
	totalNodes := 0
	for i, k := range cases {
		c.Eval(1)
		fs, nodes, parsed := check(k)
		if !parsed {
			if k.Layout {
				c.Hist("layout_variant_outside_premise_does_not_parse", 1)
			} else {
				c.Hist("skipped_parse_errors", 1)
			}
			continue
		}
		if k.Layout {
			c.Hist("layout_variants_checked", 1)
		}
		totalNodes += nodes
		c.Nontrivial(k.Src)
		c.Hist("files_checked", 1)
		if i%1500 == 7 {
			c.Sample(Case{Src: trunc(k.Src), File: k.File})
		}
		for _, f := range fs {
			kk := k
			if kk.File != "" {
				kk.Src = srcs0(kk)
			}
			c.Violate(kk, f)
		}
	}
	c.Extra["nodes_checked"] = totalNodes
	c.Rule = fmt.Sprintf("every XGo-family file of the repository and %d hand seeds that parse without errors, plus every statement wrapping of the expression grammar closed to depth %d (%d expressions x 12 statement contexts), plus every such source of <= %d tokens with a blank, a tab or a block comment inserted at every token boundary; every node of every tree is checked. distinct_nontrivial = distinct sources that parsed cleanly", len(corpus.HandSeeds), depth, len(es), maxTok)
	c.Assumptions = []string{
		"necessary conditions only: Pos is a token start and End a token end of an independent scan, children nest/ordered/disjoint, stand-alone expression kinds re-parse to an equal tree",
		"exempt: nodes inside string/domain-text literals (no independent tokens), implicit EmptyStmt, synthetic file name without package clause, shadow function parts, FuncType vs receiver/name overlap (go/ast convention)",
	}
	c.Finish()
}

func srcs0(k Case) string { return k.Src }

// C29: matching follows the documented TPL semantics (tpl/README.md): success or failure, number
// of tokens consumed and the result tree (token, n-element list for a sequence, list for * and +,
// nil for an absent ?, [first, [[sep, next] ...]] for R1 % R2, pair for R1 ++ R2).
//
// Mode E (bounded-exhaustive), reference model verif/models/tplref. Grammar space: the tplref
// space (1- and 2-rule grammars over leaves {"a", INT, ","} and references, operators sequence,
// choice, * + ? % ++) restricted to grammars without nullable repetition bodies and without left
// recursion (those are C28's subject). Inputs: every token string over {a, b, 1, ",", "+"} up to
// the tier's length; for grammars containing ++ additionally every choice of "blank or nothing"
// between neighbours for which the scanner still yields the same tokens ("a," but not "ab").
//
// The README is silent on whether a choice whose alternative matched some tokens and then failed
// may still try its later alternatives (the engine commits LL(1)-style in some cases). tplref
// therefore computes the set of outcomes over every mixture of "backtrack" and "commit"; a pair is
// judged only if that set has one element (then PEG and commit semantics agree as well), all other
// pairs are excluded and counted.
//
// A mismatch is minimised before it is reported (greedy reduction: replace a node by one of its
// children or by a plain leaf, drop a child of an n-ary node, drop an unused rule, delete an input
// token, as long as the pair still shows a judged mismatch); the key is
// mismatch-kind:root-operator of the minimal grammar.
package main

import (
	"fmt"
	"runtime"
	"runtime/debug"
	"strconv"
	"strings"

	"github.com/goplus/xgo/tpl"
	"github.com/goplus/xgo/tpl/scanner"
	"github.com/goplus/xgo/tpl/token"
	"verif/engine"
	ref "verif/models/tplref"
)

type Case struct {
	Text  string       `json:"text"` // grammar source printed from G
	G     *ref.Grammar `json:"g"`
	Words []string     `json:"words"`
	Glue  []bool       `json:"glue,omitempty"` // glue[i]: no blank between word i and i+1
	Input string       `json:"input"`          // the text built from Words/Glue (informational)
}

// ---- the real engine ----

func writeReal(sb *strings.Builder, v any, base int) {
	switch v := v.(type) {
	case nil:
		sb.WriteString("nil")
	case *tpl.Token:
		if v == nil {
			sb.WriteString("<nil token>")
			return
		}
		kind, text := v.Tok.String(), v.Lit
		if text == "" {
			text = kind
		}
		sb.WriteByte('<')
		sb.WriteString(kind)
		sb.WriteByte(' ')
		sb.WriteString(text)
		sb.WriteString(" @")
		sb.WriteString(strconv.Itoa(int(v.Pos) - base))
		sb.WriteByte('>')
	case []any:
		sb.WriteByte('[')
		for i, x := range v {
			if i > 0 {
				sb.WriteByte(' ')
			}
			writeReal(sb, x, base)
		}
		sb.WriteByte(']')
	default:
		fmt.Fprintf(sb, "<unexpected %T>", v)
	}
}

// realMatch runs Compiler.Match and renders the outcome like tplref.Outcome.String.
func realMatch(cl *tpl.Compiler, input string) (got string, f *engine.Failure) {
	f = engine.Guard(func() {
		fset := token.NewFileSet()
		base := fset.Base()
		ms, result, err := cl.Match("", input, &tpl.Config{Fset: fset})
		if err != nil {
			got = "fail"
			return
		}
		var sb strings.Builder
		sb.WriteString("ok n=")
		sb.WriteString(strconv.Itoa(ms.N))
		sb.WriteByte(' ')
		writeReal(&sb, result, base)
		got = sb.String()
	})
	return
}

func compile(text string) (cl tpl.Compiler, err error, f *engine.Failure) {
	f = engine.Guard(func() { cl, err = tpl.New(text) })
	return
}

// ---- judging one pair ----

type verdict struct {
	class string // judged | excluded_* | mismatch
	kind  string // mismatch kind
	want  string
	got   string
	fail  *engine.Failure // panic in the engine
	nontr bool
}

func judge(g *ref.Grammar, cl *tpl.Compiler, toks []ref.Token, input string) verdict {
	v := ref.Judge(g, toks)
	switch {
	case v.Overflow:
		return verdict{class: "excluded_reference_budget"}
	case v.Diverged:
		return verdict{class: "excluded_reference_diverged"}
	case !v.Judged && !v.PEGeqCommit:
		return verdict{class: "excluded_peg_and_commit_differ"}
	case !v.Judged:
		return verdict{class: "excluded_only_a_mixed_strategy_differs"}
	}
	got, f := realMatch(cl, input)
	if f != nil {
		return verdict{class: "mismatch", kind: f.Key, fail: f, want: v.Want.String()}
	}
	want := v.Want.String()
	r := verdict{class: "judged", want: want, got: got, nontr: v.Want.OK && v.Want.J > 0}
	if got == want {
		return r
	}
	r.class = "mismatch"
	switch {
	case !v.Want.OK:
		r.kind = "accepts-where-README-fails"
	case got == "fail":
		r.kind = "rejects-where-README-matches"
	case !strings.HasPrefix(got, fmt.Sprintf("ok n=%d ", v.Want.J)):
		r.kind = "consumed-count-differs"
	default:
		r.kind = "result-tree-differs"
	}
	return r
}

var plainLeaves = []*ref.Expr{ref.L("a"), ref.T("INT"), ref.L(",")}

// variants yields every expression obtained from e by one reduction step somewhere inside it:
// a node replaced by one of its children, by a plain leaf, or an n-ary node losing one child.
func variants(e *ref.Expr, rules []ref.Rule, yield func(*ref.Expr)) {
	for _, k := range e.Kids {
		yield(k)
	}
	if e.K == ref.Ref { // inline a non-recursive rule
		for _, r := range rules {
			if r.Name == e.S && !r.Body.Mentions(r.Name) {
				yield(r.Body)
			}
		}
	}
	if len(e.Kids) > 0 || e.K == ref.Ref {
		for _, l := range plainLeaves {
			yield(l)
		}
	}
	if (e.K == ref.Seq || e.K == ref.Alt) && len(e.Kids) > 2 {
		for i := range e.Kids {
			kids := append(append([]*ref.Expr(nil), e.Kids[:i]...), e.Kids[i+1:]...)
			yield(&ref.Expr{K: e.K, Kids: kids})
		}
	}
	for i, k := range e.Kids {
		variants(k, rules, func(nk *ref.Expr) {
			kids := append([]*ref.Expr(nil), e.Kids...)
			kids[i] = nk
			yield(&ref.Expr{K: e.K, S: e.S, Kids: kids})
		})
	}
}

// minimise greedily applies reduction steps (grammar: see variants, drop an unreferenced rule;
// input: delete one token) as long as the pair still shows a judged mismatch of any kind.
func minimise(k Case) (Case, verdict, bool) {
	cur := k
	var curV verdict
	have := false
	try := func(g *ref.Grammar, words []string, glue []bool) bool {
		for _, r := range g.Rules { // every reference must stay defined
			for _, n := range []string{"doc", "aux"} {
				if r.Body.Mentions(n) && (n == "aux" && len(g.Rules) < 2) {
					return false
				}
			}
		}
		if len(ref.Analyze(g).Classes()) > 0 {
			return false
		}
		text := g.Text()
		cl, err, f := compile(text)
		if f != nil || err != nil {
			return false
		}
		toks, input := ref.Toks(words, glue)
		if !scanOK(toks, input) {
			return false
		}
		v := judge(g, &cl, toks, input)
		if v.class != "mismatch" {
			return false
		}
		cur = Case{Text: text, G: g, Words: append([]string(nil), words...), Glue: append([]bool(nil), glue...), Input: input}
		curV, have = v, true
		return true
	}
	for step := 0; step < 60; step++ {
		found := false
		// input: delete one token (the gap flags of its neighbours merge to "blank")
		for i := 0; i < len(cur.Words) && !found; i++ {
			words := append(append([]string(nil), cur.Words[:i]...), cur.Words[i+1:]...)
			var glue []bool
			if len(cur.Glue) > 0 && len(words) > 1 {
				for j := 0; j < len(cur.Words)-1; j++ {
					switch {
					case j == i-1 && i < len(cur.Words)-1:
						glue = append(glue, false)
					case j == i-1 || j == i:
					default:
						glue = append(glue, cur.Glue[j])
					}
				}
			}
			found = try(cur.G, words, glue)
		}
		// grammar: drop an unreferenced aux rule
		if !found && len(cur.G.Rules) == 2 && !cur.G.Rules[0].Body.Mentions("aux") {
			found = try(&ref.Grammar{Rules: cur.G.Rules[:1]}, cur.Words, cur.Glue)
		}
		// grammar: one reduction step inside one rule body
		for ri := 0; ri < len(cur.G.Rules) && !found; ri++ {
			g0 := cur.G
			w0, gl0 := cur.Words, cur.Glue
			variants(g0.Rules[ri].Body, g0.Rules, func(nb *ref.Expr) {
				rules := append([]ref.Rule(nil), g0.Rules...)
				rules[ri].Body = nb
				g2 := &ref.Grammar{Rules: rules}
				// with the whole input or any contiguous part of it, longest first
				for n := len(w0); n >= 0 && !found; n-- {
					for from := 0; from+n <= len(w0) && !found; from++ {
						var glue []bool
						if len(gl0) > 0 && n > 1 {
							glue = gl0[from : from+n-1]
						}
						found = try(g2, w0[from:from+n], glue)
					}
				}
			})
		}
		if !found {
			break
		}
	}
	return cur, curV, have
}

// minimisations left in this worker process; afterwards mismatches are reported as found.
var minimiseBudget = 150

func report(k Case, v verdict) *engine.Failure {
	mk, mv, root := k, v, "(not minimised)"
	if minimiseBudget > 0 {
		minimiseBudget--
		if k2, v2, ok := minimise(k); ok {
			mk, mv = k2, v2
		}
		root = mk.G.Rules[0].Body.K.String()
	}
	if mv.fail != nil {
		f := mv.fail
		f.Detail = fmt.Sprintf("grammar: %q input: %q\nREADME: %s\n%s", mk.Text, mk.Input, mv.want, f.Detail)
		return f
	}
	return &engine.Failure{Key: mv.kind + ":" + root, What: "match result differs from the README semantics",
		Detail: fmt.Sprintf("minimal grammar: %q input: %q\nREADME: %s\nengine: %s\n(found on grammar %q input %q: README %s, engine %s)",
			mk.Text, mk.Input, mv.want, mv.got, k.Text, k.Input, v.want, v.got)}
}

// eval judges one case from scratch (replay).
func eval(k Case) *engine.Failure {
	tpl.ShowConflict(false)
	if k.G == nil {
		return nil
	}
	text := k.G.Text()
	cl, err, f := compile(text)
	if f != nil {
		return f
	}
	if err != nil {
		return &engine.Failure{Key: "valid-grammar-rejected", What: "a grammar without left recursion is rejected", Detail: fmt.Sprintf("grammar: %q\nerr: %v", text, err)}
	}
	toks, input := ref.Toks(k.Words, k.Glue)
	k.Text, k.Input = text, input
	if v := judge(k.G, &cl, toks, input); v.class == "mismatch" {
		return report(k, v)
	}
	return nil
}

// ---- inputs ----

var words = []string{"a", "b", "1", ",", "+"}

type input struct {
	words []string
	glue  []bool
	toks  []ref.Token
	text  string
	glued bool // some blank removed
}

// scanOK: the real scanner yields exactly the intended tokens (plus the automatic ';').
func scanOK(toks []ref.Token, text string) bool {
	var s scanner.Scanner
	fset := token.NewFileSet()
	f := fset.AddFile("", fset.Base(), len(text))
	base := f.Base()
	s.Init(f, []byte(text), nil, 0)
	i := 0
	for {
		t := s.Scan()
		if t.Tok == token.EOF {
			return i == len(toks)
		}
		if i == len(toks) {
			if t.Tok == token.SEMICOLON && t.Lit == "\n" { // automatic semicolon at end of input
				continue
			}
			return false
		}
		kind, txt := t.Tok.String(), t.Lit
		if txt == "" {
			txt = kind
		}
		if kind != toks[i].Kind || txt != toks[i].Text || int(t.Pos)-base != toks[i].Off {
			return false
		}
		i++
	}
}

// makeInputs enumerates every word string of length 0..maxLen and every glue
// choice; glue variants the scanner tokenises differently are dropped (counted).
func makeInputs(maxLen int, c *engine.Check) (out []input, dropped int) {
	var rec func(ws []string)
	rec = func(ws []string) {
		n := len(ws)
		variants := 1
		if n > 1 {
			variants = 1 << (n - 1)
		}
		for m := 0; m < variants; m++ {
			var glue []bool
			if m > 0 {
				glue = make([]bool, n-1)
				for i := range glue {
					glue[i] = m&(1<<i) != 0
				}
			}
			toks, text := ref.Toks(ws, glue)
			if !scanOK(toks, text) {
				if m == 0 {
					c.Fatal("scanner self-check: %q does not scan as %v", text, ws)
				}
				dropped++
				continue
			}
			out = append(out, input{append([]string(nil), ws...), glue, toks, text, m > 0})
		}
		if n == maxLen {
			return
		}
		for _, w := range words {
			rec(append(ws, w))
		}
	}
	rec(nil)
	return
}

type tier struct {
	Max1, Max2, MaxInput int
}

func main() {
	c := engine.New("C29", "exploration")
	if err := ref.SelfTest(); err != nil {
		c.Fatal("tplref self-test: %v", err)
	}
	if c.IsReplay() {
		var k Case
		c.LoadReplay(&k)
		c.ReplayResult(eval(k))
	}
	tiers := []tier{{3, 2, 3}}
	if c.Thorough() {
		tiers = []tier{{3, 2, 4}, {4, 3, 2}}
	}
	const chunk = 500
	type part struct {
		t      tier
		sp     *ref.Space
		ins    []input
		blocks int
		prev   *tier // grammars within prev's bounds were already covered by an earlier part
	}
	var parts []part
	total := 0
	for i, t := range tiers {
		ins, dropped := makeInputs(t.MaxInput, c)
		sp := ref.NewSpace(t.Max1, t.Max2)
		p := part{t: t, sp: sp, ins: ins, blocks: int((sp.Total() + chunk - 1) / chunk)}
		if i > 0 {
			p.prev = &tiers[i-1]
		}
		parts = append(parts, p)
		total += p.blocks
		if !c.IsWorker() {
			plain := 0
			for _, in := range ins {
				if !in.glued {
					plain++
				}
			}
			c.Extra[fmt.Sprintf("inputs_part%d", i+1)] = map[string]int{"max_tokens": t.MaxInput, "blank_separated": plain, "with_glued_neighbours": len(ins) - plain, "glue_variants_dropped_scanner_retokenises": dropped}
		}
	}
	job := &engine.Job{NumBlocks: total, ItemTimeout: 30e9, MemLimitMB: 1500}
	job.RunBlock = func(w *engine.W, b int) {
		tpl.ShowConflict(false)
		runtime.GOMAXPROCS(2) // 16 workers x 16 GC threads on tiny heaps only fight each other
		debug.SetGCPercent(400)
		var p *part
		for i := range parts {
			if b < parts[i].blocks {
				p = &parts[i]
				break
			}
			b -= parts[i].blocks
		}
		lo, hi := int64(b)*chunk, int64(b+1)*chunk
		if hi > p.sp.Total() {
			hi = p.sp.Total()
		}
		for idx := lo; idx < hi; idx++ {
			g, keep := p.sp.At(idx)
			if !keep {
				w.Hist("grammars_skipped_aux_unreferenced")
				continue
			}
			if p.prev != nil {
				n := 0
				for _, r := range g.Rules {
					n += r.Body.Ops()
				}
				if len(g.Rules) == 1 && n <= p.prev.Max1 || len(g.Rules) == 2 && n <= p.prev.Max2 {
					continue // covered by the previous part with longer inputs
				}
			}
			if len(ref.Analyze(g).Classes()) > 0 {
				w.Hist("grammars_out_of_scope_nullable_repetition_or_left_recursion")
				continue
			}
			text := g.Text()
			k0 := Case{Text: text, G: g}
			if !w.Item(k0) {
				continue
			}
			cl, err, f := compile(text)
			if f != nil {
				f.Detail = fmt.Sprintf("grammar: %q (compile)\n%s", text, f.Detail)
				w.Fail(k0, f)
				continue
			}
			if err != nil {
				w.Fail(k0, &engine.Failure{Key: "valid-grammar-rejected", What: "a grammar without left recursion is rejected by the compiler", Detail: fmt.Sprintf("grammar: %q\nerr: %v", text, err)})
				continue
			}
			w.Hist("grammars_judged")
			hasAdj := g.Has(ref.Adj)
			for i := range p.ins {
				in := &p.ins[i]
				if in.glued && !hasAdj {
					continue
				}
				k := Case{Text: text, G: g, Words: in.words, Glue: in.glue, Input: in.text}
				if !w.Item(k) {
					continue
				}
				v := judge(g, &cl, in.toks, in.text)
				switch v.class {
				case "judged":
					if v.nontr {
						w.Nontrivial()
						w.Hist("judged_match_consuming_tokens")
					} else if v.want == "fail" {
						w.Hist("judged_fail")
					} else {
						w.Hist("judged_match_of_zero_tokens")
					}
				case "mismatch":
					w.Hist("mismatch")
					w.Fail(k, report(k, v))
				default:
					w.Hist(v.class)
				}
			}
			if idx%20011 == 0 {
				w.Sample(Case{Text: text, G: g, Words: []string{"a", ",", "1"}, Input: "a , 1"})
			}
		}
	}
	job.Run(c)
	var bounds []string
	for _, t := range tiers {
		bounds = append(bounds, fmt.Sprintf("[1-rule grammars <=%d operator nodes, 2-rule grammars <=%d in total, inputs of 0..%d tokens]", t.Max1, t.Max2, t.MaxInput))
	}
	c.Rule = "every grammar of the tplref space (`doc = e` over leaves {\"a\", INT, \",\", doc}; `doc = e1; aux = e2`, doc mentioning aux, over {\"a\", INT, \",\", doc, aux}; operators n-ary sequence and choice (k-1 nodes), * + ? % ++) that has no nullable repetition body and no left recursion, x every input over {a, b, 1, \",\", \"+\"} with single blanks, and for grammars containing ++ every blank-or-nothing choice between neighbours that the scanner tokenises identically. Bounds: " + strings.Join(bounds, " + ") + " (a later part skips the grammars of the earlier one). Engine: Compiler.Match without RetProcs; compared: success, tokens consumed, result tree with (kind, text, offset) per token. distinct_nontrivial = judged pairs whose prescribed result is a match consuming >= 1 token"
	c.Assumptions = []string{
		"README silent on committing inside a choice: a pair is judged only if every mixture of backtracking and committing (after an alternative matched >= 1 token, even tokens given back by an enclosing ?/*) yields one outcome; otherwise excluded_peg_and_commit_differ / excluded_only_a_mixed_strategy_differs",
		"R1 ++ R2: both sides consume >= 1 token and end(last token of R1) == start(first token of R2); token extents are the spellings' byte lengths (not Token.End of the implementation)",
		"a quoted identifier is a keyword: it matches an IDENT token with that text; quoted punctuation matches the token of that spelling; the automatic ';' the scanner appends at end of input never matches a leaf of the space (leaf alphabet has no ';')",
		"2-rule grammars whose root rule does not mention aux are skipped",
	}
	c.Extra["bound"] = map[string]any{"parts": tiers}
	c.Finish()
}
